/- The response direction: every tx-level function leaves chunk, cursors and line buffer alone (`KeepO`); each of the ten response state
   functions, the state-change hook and the whole loop of a data call keep the cursors inside the chunk and the line buffer within the hard
   limit (`WFBO`; the consume offset may run ahead of the read offset after an un-read, so `consume <= read` is not part of it). -/
import HtpModel.Lemmas.BufInv
namespace Htp.Conn
open Htp Htp.Gen

/-- `f` leaves the response direction's chunk, cursors and line buffer alone -/
def KeepO (c c' : Conn) : Prop := SameCur c.out c'.out ∧ c'.out.buf = c.out.buf

theorem KeepO.refl (c : Conn) : KeepO c c := ⟨SameCur.refl _, rfl⟩
theorem KeepO.trans {a b c : Conn} (h1 : KeepO a b) (h2 : KeepO b c) : KeepO a c := ⟨SameCur.trans h1.1 h2.1, Eq.trans h2.2 h1.2⟩
theorem KeepO.rfl5 {c c' : Conn} (h : c'.out = c.out) : KeepO c c' := by
  unfold KeepO SameCur; rw [h]; exact ⟨⟨rfl, rfl, rfl, rfl, rfl⟩, rfl⟩

theorem keepO_of_frame {c c' : Conn} (h : FrameDirs c c') : KeepO c c' := by
  have h1 := h.2
  unfold Dir.eraseTx at h1
  injection h1
  unfold KeepO SameCur
  simp_all

theorem keepO_andThen (c0 : Conn) (r : R) (f : Conn → R) (h1 : KeepO c0 r.1) (h2 : ∀ c, KeepO c (f c).1) :
    KeepO c0 (r >>? f).1 := by
  unfold R.andThen
  split
  · exact h1.trans (h2 _)
  · exact h1

theorem keepO_runCallback (h : Hook) (uid : Option Nat) (data : Option Bytes) (l : Bool) (c : Conn) (g : Nat) (s : Bool) :
    KeepO c (runCallback h uid data l c g s).1 := keepO_of_frame (frame_runCallback ..)
theorem keepO_runCallbackN (n : Nat) (h : Hook) (uid : Option Nat) (data : Option Bytes) (l : Bool) (g : Nat) (c : Conn) :
    KeepO c (runCallbackN n h uid data l g c).1 := keepO_of_frame (frame_runCallbackN ..)

theorem keepO_modTx (u : Nat) (f : Tx → Tx) (c : Conn) : KeepO c (c.modTx u f) := ⟨⟨rfl, rfl, rfl, rfl, rfl⟩, rfl⟩
theorem keepO_setTx (t : Tx) (c : Conn) : KeepO c (c.setTx t) := ⟨⟨rfl, rfl, rfl, rfl, rfl⟩, rfl⟩
theorem keepO_modOut (f : Tx → Tx) (c : Conn) : KeepO c (c.modOut f) := by
  unfold Conn.modOut
  split <;> exact ⟨⟨rfl, rfl, rfl, rfl, rfl⟩, rfl⟩
theorem keepO_modIn (f : Tx → Tx) (c : Conn) : KeepO c (c.modIn f) := by
  unfold Conn.modIn
  split <;> exact ⟨⟨rfl, rfl, rfl, rfl, rfl⟩, rfl⟩

theorem keepO_resReceiverSend (l : Bool) (c : Conn) : KeepO c (resReceiverSend l c).1 := by
  unfold resReceiverSend
  cases c.out.receiverHook with
  | none => exact KeepO.refl c
  | some h =>
    simp only
    apply keepO_andThen
    · exact keepO_runCallback ..
    · intro c2; exact ⟨⟨rfl, rfl, rfl, rfl, rfl⟩, rfl⟩

theorem keepO_resReceiverFinalizeClear (c : Conn) : KeepO c (resReceiverFinalizeClear c).1 := by
  unfold resReceiverFinalizeClear
  cases c.out.receiverHook with
  | none => exact KeepO.refl c
  | some h =>
    simp only
    exact (keepO_resReceiverSend true c).trans ⟨⟨rfl, rfl, rfl, rfl, rfl⟩, rfl⟩

theorem keepO_resReceiverSet (h : Hook) (c : Conn) : KeepO c (resReceiverSet h c).1 := by
  unfold resReceiverSet
  simp only
  exact (keepO_resReceiverFinalizeClear c).trans ⟨⟨rfl, rfl, rfl, rfl, rfl⟩, rfl⟩

theorem keepO_reqReceiverSend (l : Bool) (c : Conn) : KeepO c (reqReceiverSend l c).1 := by
  unfold reqReceiverSend
  cases c.inn.receiverHook with
  | none => exact KeepO.refl c
  | some h =>
    simp only
    apply keepO_andThen
    · exact keepO_runCallback ..
    · intro c2; exact ⟨⟨rfl, rfl, rfl, rfl, rfl⟩, rfl⟩

theorem keepO_reqReceiverFinalizeClear (c : Conn) : KeepO c (reqReceiverFinalizeClear c).1 := by
  unfold reqReceiverFinalizeClear
  cases c.inn.receiverHook with
  | none => exact KeepO.refl c
  | some h =>
    simp only
    exact (keepO_reqReceiverSend true c).trans ⟨⟨rfl, rfl, rfl, rfl, rfl⟩, rfl⟩

theorem keepO_reqProcessBodyData (cfg : Cfg) (data : Option Bytes) (g : Nat) (c : Conn) :
    KeepO c (reqProcessBodyData cfg data g c).1 := keepO_of_frame (frame_reqProcessBodyData ..)
theorem keepO_resProcessBodyData (cfg : Cfg) (data : Option Bytes) (c : Conn) :
    KeepO c (resProcessBodyData cfg data c).1 := keepO_of_frame (frame_resProcessBodyData ..)
theorem keepO_resProcessBodyDataGap (cfg : Cfg) (data : Option Bytes) (g : Nat) (c : Conn) :
    KeepO c (resBodyIdentityClKnown.resProcessBodyDataGap cfg data g c).1 := keepO_of_frame (frame_resProcessBodyDataGap ..)

theorem keepO_txFinalize (cfg : Cfg) (uid : Nat) (c : Conn) : KeepO c (txFinalize cfg uid c).1 := by
  unfold txFinalize
  cases c.findTx uid with
  | none => exact KeepO.refl c
  | some t =>
    simp only
    split
    · exact KeepO.refl c
    · apply keepO_andThen
      · exact keepO_runCallback ..
      · intro c1
        split
        · split
          · exact keepO_of_frame (frame_destroyTx ..)
          · exact KeepO.refl _
        · exact KeepO.refl _

theorem keepO_txStateRequestCompletePartial (cfg : Cfg) (uid : Nat) (c : Conn) : KeepO c (txStateRequestCompletePartial cfg uid c).1 := by
  unfold txStateRequestCompletePartial
  simp only
  apply keepO_andThen
  · split
    · exact keepO_reqProcessBodyData ..
    · exact KeepO.refl c
  · intro c1
    apply keepO_andThen
    · exact (keepO_modTx _ _ c1).trans (keepO_runCallback ..)
    · intro c2
      apply keepO_andThen
      · exact keepO_reqReceiverFinalizeClear c2
      · intro c3; exact ⟨⟨rfl, rfl, rfl, rfl, rfl⟩, rfl⟩

theorem keepO_txStateRequestComplete (cfg : Cfg) (uid : Nat) (c : Conn) : KeepO c (txStateRequestComplete cfg uid c).1 := by
  unfold txStateRequestComplete
  simp only
  apply keepO_andThen
  · split
    · exact keepO_txStateRequestCompletePartial ..
    · exact KeepO.refl c
  · intro c1
    have h := keepO_txFinalize cfg uid { c1 with inState := if ((c1.findTx uid).map (·.is09)).getD ((c.findTx uid).getD { uid := uid }).is09 then .ignoreDataAfter09 else .idle }
    exact (KeepO.trans ⟨⟨rfl, rfl, rfl, rfl, rfl⟩, rfl⟩ h).trans ⟨⟨rfl, rfl, rfl, rfl, rfl⟩, rfl⟩

theorem keepO_txCreate (cfg : Cfg) (c : Conn) : KeepO c (txCreate cfg c).1 := by
  unfold txCreate
  simp only []
  split <;> exact ⟨⟨rfl, rfl, rfl, rfl, rfl⟩, rfl⟩

theorem keepO_processResponseHeader (d : Bytes) (c : Conn) : KeepO c (processResponseHeader d c).1 :=
  KeepO.rfl5 (processResponseHeader_out d c)

theorem keepO_resFlushHeader (c : Conn) : KeepO c (resFlushHeader c).1 := by
  unfold resFlushHeader
  cases c.out.header with
  | none => exact KeepO.refl c
  | some h =>
    simp only
    have := keepO_processResponseHeader h c
    split
    · exact this
    · exact this.trans ⟨⟨rfl, rfl, rfl, rfl, rfl⟩, rfl⟩

theorem keepO_txStateResponseStart (uid : Nat) (c : Conn) : KeepO c (txStateResponseStart uid c).1 := by
  unfold txStateResponseStart
  simp only
  refine KeepO.trans (b := { c with out := { c.out with tx := some uid } }) ⟨⟨rfl, rfl, rfl, rfl, rfl⟩, rfl⟩ ?_
  apply keepO_andThen
  · exact keepO_runCallback ..
  · intro c1
    split
    · exact ⟨⟨rfl, rfl, rfl, rfl, rfl⟩, rfl⟩
    · exact ⟨⟨rfl, rfl, rfl, rfl, rfl⟩, rfl⟩

theorem keepO_txStateResponseLine (uid : Nat) (c : Conn) : KeepO c (txStateResponseLine uid c).1 := by
  unfold txStateResponseLine
  simp only
  refine KeepO.trans ?_ (keepO_runCallback ..)
  split
  · exact keepO_modTx ..
  · exact KeepO.refl c

theorem keepO_txStateResponseHeaders (cfg : Cfg) (uid : Nat) (c : Conn) : KeepO c (txStateResponseHeaders cfg uid c).1 := by
  unfold txStateResponseHeaders
  rcases responseNeedsDecompressor cfg ((c.findTx uid).getD { uid := uid }) with ⟨enc, needs⟩
  simp only
  apply keepO_andThen
  · exact KeepO.trans (KeepO.rfl5 rfl) (keepO_resReceiverFinalizeClear _)
  · intro c1
    apply keepO_andThen
    · exact keepO_runCallback ..
    · intro c2
      split
      · split
        · exact ⟨⟨rfl, rfl, rfl, rfl, rfl⟩, rfl⟩
        · cases ceChain cfg ((getHeaderC ((c.findTx uid).getD { uid := uid }).resHeaders (b!"content-encoding")).map (·.value) |>.getD []) with
          | nil => exact ⟨⟨rfl, rfl, rfl, rfl, rfl⟩, rfl⟩
          | cons ty rest => exact ⟨⟨rfl, rfl, rfl, rfl, rfl⟩, rfl⟩
      · exact KeepO.refl _

theorem keepO_txStateResponseCompleteEx (cfg : Cfg) (uid : Nat) (c : Conn) : KeepO c (txStateResponseCompleteEx cfg uid c).1 := by
  unfold txStateResponseCompleteEx
  simp only
  apply keepO_andThen
  · split
    · apply keepO_andThen
      · refine KeepO.trans ?_ (keepO_runCallback ..)
        split
        · exact KeepO.trans (KeepO.rfl5 rfl) (keepO_resProcessBodyData ..)
        · exact KeepO.rfl5 rfl
      · intro c1; exact keepO_resReceiverFinalizeClear _
    · exact KeepO.refl _
  · intro c1
    split
    · exact KeepO.refl _
    · split
      · exact ⟨⟨rfl, rfl, rfl, rfl, rfl⟩, rfl⟩
      · apply keepO_andThen
        · exact keepO_txFinalize ..
        · intro c2; exact ⟨⟨rfl, rfl, rfl, rfl, rfl⟩, rfl⟩

theorem keepO_resCl (cl ct : Option Parse.Header) (uid : Nat) (c : Conn) : KeepO c (resCl cl ct uid c).1 := by
  unfold resCl
  cases cl with
  | some cl' =>
    simp only
    repeat' split
    all_goals exact ⟨⟨rfl, rfl, rfl, rfl, rfl⟩, rfl⟩
  | none =>
    simp only
    repeat' split
    all_goals exact ⟨⟨rfl, rfl, rfl, rfl, rfl⟩, rfl⟩

theorem keepO_resFraming (te cl ct : Option Parse.Header) (uid : Nat) (c : Conn) : KeepO c (resFraming te cl ct uid c).1 := by
  unfold resFraming
  repeat' split
  all_goals first | exact ⟨⟨rfl, rfl, rfl, rfl, rfl⟩, rfl⟩ | exact keepO_resCl ..

theorem keepO_resRefusedConnect (t : Tx) (c : Conn) : KeepO c (resRefusedConnect t c) := by
  unfold resRefusedConnect
  simp only []
  repeat' split
  all_goals exact ⟨⟨rfl, rfl, rfl, rfl, rfl⟩, rfl⟩

theorem keepO_resSwitchTunnel (c : Conn) : KeepO c (resSwitchTunnel c) := by
  unfold resSwitchTunnel
  simp only []
  repeat' split
  all_goals exact ⟨⟨rfl, rfl, rfl, rfl, rfl⟩, rfl⟩

theorem keepO_resExpectShortcut (t : Tx) (c : Conn) : KeepO c (resExpectShortcut t c) := by
  unfold resExpectShortcut
  repeat' split
  all_goals exact ⟨⟨rfl, rfl, rfl, rfl, rfl⟩, rfl⟩

theorem keepO_resNoBody (uid : Nat) (t : Tx) (te cl : Option Parse.Header) (c : Conn) : KeepO c (resNoBody uid t te cl c) := by
  unfold resNoBody
  repeat' split
  all_goals exact ⟨⟨rfl, rfl, rfl, rfl, rfl⟩, rfl⟩

theorem keepO_resFramingStep (uid : Nat) (t : Tx) (te cl : Option Parse.Header) (c : Conn) : KeepO c (resFramingStep uid t te cl c).1 := by
  unfold resFramingStep
  split
  · simp only []
    refine KeepO.trans ?_ (keepO_resFraming ..)
    split
    · exact keepO_modTx ..
    · exact KeepO.refl _
  · exact KeepO.refl _

theorem keepO_resBodyDetermineRest (cfg : Cfg) (uid : Nat) (t : Tx) (c : Conn) : KeepO c (resBodyDetermineRest cfg uid t c).1 := by
  unfold resBodyDetermineRest
  extract_lets c1 cl te is100
  have k1 : KeepO c c1 := keepO_resRefusedConnect t c
  clear_value c1 is100
  split
  · exact (k1.trans (keepO_resSwitchTunnel c1)).trans (keepO_txStateResponseHeaders ..)
  · split
    · exact k1.trans ⟨⟨rfl, rfl, rfl, rfl, rfl⟩, rfl⟩
    · apply keepO_andThen
      · exact ((k1.trans (keepO_resExpectShortcut t c1)).trans (keepO_resNoBody ..)).trans (keepO_resFramingStep ..)
      · intro c9; exact keepO_txStateResponseHeaders ..

theorem keepO_resBodyDetermine (cfg : Cfg) (c : Conn) : KeepO c (resBodyDetermine cfg c).1 := by
  unfold resBodyDetermine
  cases c.out.tx with
  | none => exact KeepO.refl c
  | some uid =>
    simp only
    split
    · exact KeepO.trans (KeepO.rfl5 rfl) (keepO_txStateResponseHeaders ..)
    · exact keepO_resBodyDetermineRest ..

/-! ### the response direction: cursors inside the chunk (the consume offset may run ahead of the read offset after an un-read), line
    buffer within the hard limit -/

structure WFO (d : Dir) : Prop where
  notNull : d.curNull = false
  c0 : 0 ≤ d.consume
  r0 : 0 ≤ d.read
  rl : d.read ≤ d.len
  lc : d.len ≤ (d.cur.length : Int)
  small : d.len < 18446744073709551616

def WFBO (hard : Nat) (d : Dir) : Prop := WFO d ∧ (d.buf.map (·.length)).getD 0 ≤ hard

theorem wfo_of_wfcur (d : Dir) (w : WFCur d) : WFO d := ⟨w.notNull, w.c0, Int.le_trans w.c0 w.cr, w.rl, w.lc, w.small⟩

theorem wfbo_same {hard : Nat} {d d' : Dir} (w : WFBO hard d) (h : SameCur d d') (hb : d'.buf = d.buf) : WFBO hard d' := by
  obtain ⟨h1, h2, h3, h4, h5⟩ := h
  refine ⟨⟨by rw [h5]; exact w.1.notNull, by rw [h3]; exact w.1.c0, by rw [h1]; exact w.1.r0, by rw [h1, h2]; exact w.1.rl,
    by rw [h2, h4]; exact w.1.lc, by rw [h2]; exact w.1.small⟩, by rw [hb]; exact w.2⟩

theorem wfbo_keep {hard : Nat} {c c' : Conn} (k : KeepO c c') (w : WFBO hard c.out) : WFBO hard c'.out := wfbo_same w k.1 k.2

theorem wfbo_peekSet (hard : Nat) (d : Dir) (w : WFBO hard d) : WFBO hard (d.peekSet).1 := wfbo_same w ⟨rfl, rfl, rfl, rfl, rfl⟩ rfl

theorem copyByte_some_wfbo (hard : Nat) (d d' : Dir) (b : UInt8) (w : WFBO hard d) (h : d.copyByte = some (d', b)) : WFBO hard d' := by
  unfold Dir.copyByte at h
  split at h
  · rename_i hlt
    split at h
    · simp only [Option.some.injEq, Prod.mk.injEq] at h; rw [← h.1]
      exact ⟨⟨w.1.notNull, w.1.c0, by have := w.1.r0; simp only []; omega, by simp only []; omega, w.1.lc, w.1.small⟩, w.2⟩
    · simp only [Option.some.injEq, Prod.mk.injEq] at h; rw [← h.1]
      exact ⟨⟨w.1.notNull, w.1.c0, by have := w.1.r0; simp only []; omega, by simp only []; omega, w.1.lc, w.1.small⟩, w.2⟩
  · simp at h

theorem nextByteConsume_some_wfbo (hard : Nat) (d d' : Dir) (b : UInt8) (w : WFBO hard d) (h : d.nextByteConsume = some (d', b)) : WFBO hard d' := by
  unfold Dir.nextByteConsume at h
  cases hc : d.copyByte with
  | none => rw [hc] at h; simp at h
  | some p =>
    obtain ⟨d1, b1⟩ := p
    rw [hc] at h
    simp only [Option.some.injEq, Prod.mk.injEq] at h
    have w1 := copyByte_some_wfbo hard d d1 b1 w hc
    rw [← h.1]
    exact ⟨⟨w1.1.notNull, by have := w1.1.c0; simp only []; omega, w1.1.r0, w1.1.rl, w1.1.lc, w1.1.small⟩, w1.2⟩

theorem wfbo_clearBuffer (hard : Nat) (d : Dir) (w : WFBO hard d) : WFBO hard d.clearBuffer := by
  unfold Dir.clearBuffer
  exact ⟨⟨w.1.notNull, w.1.r0, w.1.r0, w.1.rl, w.1.lc, w.1.small⟩, by simp⟩

theorem buffer_wfbo (hard : Nat) (s : Bool) (d d' : Dir) (w : WFBO hard d) (h : d.buffer hard s = some d') : WFBO hard d' := by
  unfold Dir.buffer at h
  split at h
  · simp only [Option.some.injEq] at h; rw [← h]; exact w
  · simp only at h
    split at h
    · simp only [Option.some.injEq] at h; rw [← h]; exact w
    · split at h
      · simp at h
      · rename_i hle
        simp only [Option.some.injEq] at h
        rw [← h]
        refine ⟨⟨w.1.notNull, w.1.r0, w.1.r0, w.1.rl, w.1.lc, w.1.small⟩, ?_⟩
        simp only [Option.map_some, Option.getD_some, List.length_append]
        have hs := sliceCur_len_le d d.consume d.read
        have hsz : (d.read - d.consume).toNat ≤ sizeOfInt (d.read - d.consume) := by
          unfold sizeOfInt
          by_cases hneg : d.read - d.consume < 0
          · have : (d.read - d.consume).toNat = 0 := by omega
            omega
          · have h0 : 0 ≤ d.read - d.consume := by omega
            have h1 : d.read - d.consume < 18446744073709551616 := by have := w.1.rl; have := w.1.small; have := w.1.c0; omega
            rw [Int.emod_eq_of_lt h0 h1]
            omega
        cases hb : d.buf <;> cases hh : d.header <;> simp_all <;> omega

theorem consolidate_wfbo (hard : Nat) (s : Bool) (d d2 : Dir) (data : Bytes) (w : WFBO hard d) (h : d.consolidate hard s = some (d2, data)) :
    WFBO hard d2 := by
  unfold Dir.consolidate at h
  cases hb : d.buf with
  | none => rw [hb] at h; simp only [Option.some.injEq, Prod.mk.injEq] at h; rw [← h.1]; exact w
  | some bb =>
    rw [hb] at h
    simp only at h
    cases hbu : d.buffer hard s with
    | none => rw [hbu] at h; simp at h
    | some d' =>
      rw [hbu] at h
      simp only [Option.some.injEq, Prod.mk.injEq] at h
      rw [← h.1]
      exact buffer_wfbo hard s d d' w hbu

theorem wfbo_advance (hard : Nat) (d : Dir) (n : Int) (w : WFBO hard d) (h0 : 0 ≤ n) (h1 : n ≤ d.len - d.read) : WFBO hard (d.advance n) := by
  unfold Dir.advance
  exact ⟨⟨w.1.notNull, by have := w.1.c0; simp only []; omega, by have := w.1.r0; simp only []; omega, by simp only []; omega, w.1.lc, w.1.small⟩, w.2⟩

theorem wfboOut_resIdleUnmatched (cfg : Cfg) (c : Conn) (w : WFBO cfg.fieldLimitHard c.out) :
    WFBO cfg.fieldLimitHard (resIdleUnmatched cfg c).1.out := by
  unfold resIdleUnmatched
  have k := keepO_txCreate cfg c
  rcases hx : txCreate cfg c with ⟨c2, u⟩
  rw [hx] at k
  simp only at k ⊢
  have w2 := wfbo_keep k w
  cases u with
  | none => exact wfbo_same w2 ⟨rfl, rfl, rfl, rfl, rfl⟩ rfl
  | some uid =>
    simp only
    refine wfbo_keep (keepO_txStateResponseStart uid _) ?_
    exact wfbo_same w2 ⟨rfl, rfl, rfl, rfl, rfl⟩ rfl

theorem wfboOut_resIdle (cfg : Cfg) (c : Conn) (w : WFBO cfg.fieldLimitHard c.out) : WFBO cfg.fieldLimitHard (resIdle cfg c).1.out := by
  unfold resIdle
  split
  · exact w
  · simp only []
    split
    · apply wfboOut_resIdleUnmatched
      split
      · split
        · exact wfbo_keep (keepO_txStateRequestComplete cfg _ c) w
        · exact w
      · exact w
    · refine wfbo_keep (keepO_txStateResponseStart _ _) ?_
      exact wfbo_same w ⟨rfl, rfl, rfl, rfl, rfl⟩ rfl

theorem wfboOut_resChunkedDataEndLoop (hard : Nat) (fuel : Nat) (c : Conn) (w : WFBO hard c.out) : WFBO hard (resChunkedDataEndLoop fuel c).1.out := by
  induction fuel generalizing c with
  | zero => unfold resChunkedDataEndLoop; exact w
  | succ k ih =>
    unfold resChunkedDataEndLoop
    cases hn : c.out.nextByteConsume with
    | none => exact w
    | some p =>
      obtain ⟨d, b⟩ := p
      have wd := nextByteConsume_some_wfbo _ _ d b w hn
      simp only
      have w1 : WFBO hard ({ c with out := d }.modOut (fun t => { t with resMessageLen := t.resMessageLen + 1 })).out :=
        wfbo_keep (c := { c with out := d }) (keepO_modOut _ _) wd
      split
      · exact w1
      · exact ih _ w1

theorem wfboOut_resBodyChunkedData (cfg : Cfg) (c : Conn) (w : WFBO cfg.fieldLimitHard c.out) (ho : 0 ≤ c.out.chunkedLength) :
    WFBO cfg.fieldLimitHard (resBodyChunkedData cfg c).1.out := by
  unfold resBodyChunkedData
  extract_lets avail n data
  have hn0 : 0 ≤ n := by
    simp only [n, avail]
    have := w.1.rl
    split <;> omega
  have hn1 : n ≤ c.out.len - c.out.read := by
    simp only [n, avail]
    split <;> omega
  clear_value n
  split
  · exact w
  · have k := keepO_resProcessBodyData cfg (some data) c
    rcases hx : resProcessBodyData cfg (some data) c with ⟨c1, rc1⟩
    rw [hx] at k
    simp only at k ⊢
    have w1 := wfbo_keep k w
    split
    · exact w1
    · obtain ⟨⟨kr, kl, _, _, _⟩, _⟩ := k
      have wa : WFBO _ (c1.out.advance n) := wfbo_advance _ _ _ w1 hn0 (by rw [kr, kl]; exact hn1)
      have wb : WFBO _ { c1.out.advance n with chunkedLength := c1.out.chunkedLength - n } := wfbo_same wa ⟨rfl, rfl, rfl, rfl, rfl⟩ rfl
      split
      · exact wb
      · exact wb

theorem wfboOut_resBodyIdentityClKnown (cfg : Cfg) (c : Conn) (w : WFBO cfg.fieldLimitHard c.out) (ho : 0 ≤ c.out.bodyDataLeft) :
    WFBO cfg.fieldLimitHard (resBodyIdentityClKnown cfg c).1.out := by
  unfold resBodyIdentityClKnown
  extract_lets avail n cfin data
  have hn0 : 0 ≤ n := by
    simp only [n, avail]
    have := w.1.rl
    split <;> omega
  have hn1 : n ≤ c.out.len - c.out.read := by
    simp only [n, avail]
    split <;> omega
  clear_value n
  split
  · exact wfbo_keep (KeepO.trans (KeepO.rfl5 rfl) (keepO_resProcessBodyData ..)) w
  · split
    · exact w
    · have k := keepO_resProcessBodyDataGap cfg data (if c.out.curNull then n.toNat else 0) c
      rcases hx : resBodyIdentityClKnown.resProcessBodyDataGap cfg data (if c.out.curNull then n.toNat else 0) c with ⟨c1, rc1⟩
      rw [hx] at k
      simp only at k ⊢
      have w1 := wfbo_keep k w
      split
      · exact w1
      · obtain ⟨⟨kr, kl, _, _, _⟩, _⟩ := k
        have wa : WFBO _ (c1.out.advance n) := wfbo_advance _ _ _ w1 hn0 (by rw [kr, kl]; exact hn1)
        have wb : WFBO cfg.fieldLimitHard { c1.out.advance n with bodyDataLeft := c1.out.bodyDataLeft - n } := wfbo_same wa ⟨rfl, rfl, rfl, rfl, rfl⟩ rfl
        split
        · exact wfbo_keep (KeepO.trans (KeepO.rfl5 rfl) (keepO_resProcessBodyData ..)) wb
        · exact wb

theorem wfboOut_resBodyIdentityStreamClose (cfg : Cfg) (c : Conn) (w : WFBO cfg.fieldLimitHard c.out) :
    WFBO cfg.fieldLimitHard (resBodyIdentityStreamClose cfg c).1.out := by
  unfold resBodyIdentityStreamClose
  extract_lets n data r
  have wr : WFBO cfg.fieldLimitHard r.1.out := by
    simp only [r]
    split
    · have k := keepO_resProcessBodyDataGap cfg data (if c.out.curNull then n.toNat else 0) c
      rcases hx : resBodyIdentityClKnown.resProcessBodyDataGap cfg data (if c.out.curNull then n.toNat else 0) c with ⟨c1, rc1⟩
      rw [hx] at k
      simp only at k ⊢
      have w1 := wfbo_keep k w
      split
      · exact w1
      · obtain ⟨⟨kr, kl, _, _, _⟩, _⟩ := k
        exact wfbo_advance _ _ _ w1 (by simp only [n]; have := w.1.rl; omega) (by rw [kr, kl]; simp only [n]; omega)
    · exact w
  clear_value r
  unfold R.andThen
  split
  · simp only
    split
    · exact wr
    · exact wr
  · exact wr

theorem wfboOut_resChunkedLengthLoop (cfg : Cfg) (fuel : Nat) (c : Conn) (w : WFBO cfg.fieldLimitHard c.out) :
    WFBO cfg.fieldLimitHard (resChunkedLengthLoop cfg fuel c).1.out := by
  induction fuel generalizing c with
  | zero => unfold resChunkedLengthLoop; exact w
  | succ k ih =>
    unfold resChunkedLengthLoop
    cases hn : c.out.copyByte with
    | none => exact w
    | some p =>
      obtain ⟨d, b⟩ := p
      have wd := copyByte_some_wfbo _ _ d b w hn
      simp -zeta only
      extract_lets c0
      have w0 : WFBO cfg.fieldLimitHard c0.out := wd
      clear_value c0
      split
      · exact ih _ w0
      · cases hc : c0.out.consolidate cfg.fieldLimitHard false with
        | none => exact w0
        | some q =>
          obtain ⟨d2, data⟩ := q
          have w2 := consolidate_wfbo _ _ _ _ _ w0 hc
          simp -zeta only
          extract_lets c1 s1 c2 s2 rd c3 c4
          have w1 : WFBO cfg.fieldLimitHard c1.out := wfbo_keep (c := { c0 with out := d2 }) (keepO_modOut _ _) w2
          have wc2 : WFBO cfg.fieldLimitHard c2.out := wfbo_same w1 ⟨rfl, rfl, rfl, rfl, rfl⟩ rfl
          have hrd0 : 0 ≤ rd := by
            simp only [rd]
            split
            · exact Int.le_refl 0
            · omega
          have hrd1 : rd ≤ c2.out.read := by
            simp only [rd]
            have := wc2.1.r0
            split
            · omega
            · omega
          have w3 : WFBO cfg.fieldLimitHard c3.out :=
            ⟨⟨wc2.1.notNull, wc2.1.c0, hrd0, by have := wc2.1.rl; show rd ≤ c2.out.len; omega, wc2.1.lc, wc2.1.small⟩, wc2.2⟩
          have w4 : WFBO cfg.fieldLimitHard c4.out := wfbo_clearBuffer _ _ wc2
          clear_value c1 c2 c3 c4
          split
          · apply ih
            exact ⟨⟨wc2.1.notNull, wc2.1.r0, wc2.1.r0, wc2.1.rl, wc2.1.lc, wc2.1.small⟩, wc2.2⟩
          · split
            · exact wfbo_keep (keepO_modOut _ _) w3
            · split
              · exact w4
              · exact wfbo_keep (c := { c4 with outState := .headers }) (keepO_modOut _ _) w4

theorem resFinalizeScan_wfbo (hard : Nat) (fuel : Nat) (d d' : Dir) (w : WFBO hard d) (h : resFinalizeScan fuel d = some d') : WFBO hard d' := by
  induction fuel generalizing d with
  | zero => unfold resFinalizeScan at h; simp only [Option.some.injEq] at h; rw [← h]; exact w
  | succ k ih =>
    unfold resFinalizeScan at h
    cases hn : d.copyByte with
    | none => rw [hn] at h; simp at h
    | some p =>
      obtain ⟨d1, b1⟩ := p
      rw [hn] at h
      simp only at h
      have w1 := copyByte_some_wfbo _ _ d1 b1 w hn
      split at h
      · simp only [Option.some.injEq] at h; rw [← h]; exact w1
      · exact ih _ w1 h

theorem wfboOut_resFinalize (cfg : Cfg) (c : Conn) (w : WFBO cfg.fieldLimitHard c.out) : WFBO cfg.fieldLimitHard (resFinalize cfg c).1.out := by
  unfold resFinalize
  cases c.out.tx with
  | none => exact w
  | some uid =>
    simp -zeta only
    extract_lets cp pre
    have w0 : WFBO cfg.fieldLimitHard cp.out := wfbo_peekSet _ _ w
    have hp : ∀ c' b, pre = some (c', b) → WFBO cfg.fieldLimitHard c'.out := by
      intro c' b hpre
      simp only [pre] at hpre
      split at hpre
      · split at hpre
        · simp only [Option.some.injEq, Prod.mk.injEq] at hpre; rw [← hpre.1]; exact w0
        · split at hpre
          · split at hpre
            · simp at hpre
            · rename_i d hs
              simp only [Option.some.injEq, Prod.mk.injEq] at hpre
              rw [← hpre.1]
              exact resFinalizeScan_wfbo _ _ _ _ w0 hs
          · simp only [Option.some.injEq, Prod.mk.injEq] at hpre; rw [← hpre.1]; exact w0
      · simp only [Option.some.injEq, Prod.mk.injEq] at hpre; rw [← hpre.1]; exact w
    clear_value pre
    split
    · exact ⟨⟨w.1.notNull, w.1.c0, Int.le_trans w.1.r0 w.1.rl, Int.le_refl _, w.1.lc, w.1.small⟩, w.2⟩
    · rename_i _ c1
      exact wfbo_keep (keepO_txStateResponseCompleteEx cfg uid c1) (hp _ _ rfl)
    · rename_i _ c1
      have w1 := hp _ _ rfl
      clear hp
      cases hc : c1.out.consolidate cfg.fieldLimitHard false with
      | none => exact w1
      | some q =>
        obtain ⟨d2, data⟩ := q
        have w2 := consolidate_wfbo _ _ _ _ _ w1 hc
        simp -zeta only
        extract_lets dataNull c2 rd keep buf cs
        have wc2 : WFBO cfg.fieldLimitHard c2.out := w2
        clear_value c2 dataNull
        split
        · exact wfbo_keep (keepO_txStateResponseCompleteEx cfg uid c2) wc2
        · split
          · have k := keepO_resProcessBodyData cfg (some data) c2
            rcases hx : resProcessBodyData cfg (some data) c2 with ⟨c3, rc3⟩
            rw [hx] at k
            simp only at k ⊢
            exact wfbo_clearBuffer _ _ (wfbo_keep k wc2)
          · refine wfbo_keep (keepO_txStateResponseCompleteEx cfg uid _) ?_
            have hrd0 : 0 ≤ rd := by
              simp only [rd]
              split
              · exact Int.le_refl 0
              · omega
            have hrd1 : rd ≤ c2.out.read := by
              simp only [rd]
              have := wc2.1.r0
              split <;> omega
            have hcs : 0 ≤ cs := by
              simp only [cs]
              have := wc2.1.c0
              split <;> omega
            refine ⟨⟨wc2.1.notNull, hcs, hrd0, by have := wc2.1.rl; show rd ≤ c2.out.len; omega, wc2.1.lc, wc2.1.small⟩, ?_⟩
            show ((buf.map (·.length)).getD 0) ≤ cfg.fieldLimitHard
            have := wc2.2
            simp only [buf]
            cases hb : c2.out.buf with
            | none => simp
            | some bb =>
              rw [hb] at this
              simp only [Option.map_some, Option.getD_some, List.length_take] at this ⊢
              omega

theorem wfboOut_resLineAsBody (cfg : Cfg) (uid : Nat) (dn : Bool) (data line : Bytes) (cr : Nat) (c : Conn)
    (w : WFBO cfg.fieldLimitHard c.out) : WFBO cfg.fieldLimitHard (resLineAsBody cfg uid dn data line cr c).1.out := by
  unfold resLineAsBody
  extract_lets nextIsH rd1 ln1 c1 c2 src c3
  have w1 : WFBO cfg.fieldLimitHard c1.out := wfbo_keep (keepO_modTx _ _ c) w
  have w2 : WFBO cfg.fieldLimitHard c2.out := wfbo_keep (keepO_modTx _ _ c) w
  have w3 : WFBO cfg.fieldLimitHard c3.out := ⟨⟨w2.1.notNull, w2.1.r0, w2.1.r0, w2.1.rl, w2.1.lc, w2.1.small⟩, w2.2⟩
  clear_value c1 c3
  split
  · exact wfbo_clearBuffer _ _ w1
  · have k := keepO_resProcessBodyData cfg (if dn then none else some (data.take (line.length + cr))) c3
    rcases hx : resProcessBodyData cfg (if dn then none else some (data.take (line.length + cr))) c3 with ⟨c4, rc4⟩
    rw [hx] at k
    simp only at k ⊢
    have w4 := wfbo_clearBuffer _ _ (wfbo_keep k w3)
    split
    · exact w4
    · split
      · exact wfbo_same w4 ⟨rfl, rfl, rfl, rfl, rfl⟩ rfl
      · exact w4

theorem wfboOut_resLineComplete (cfg : Cfg) (uid : Nat) (closed : Bool) (c : Conn) (w : WFBO cfg.fieldLimitHard c.out) :
    WFBO cfg.fieldLimitHard (resLineComplete cfg uid closed c).1.out := by
  unfold resLineComplete
  cases hc : c.out.consolidate cfg.fieldLimitHard false with
  | none => exact w
  | some q =>
    obtain ⟨d2, data⟩ := q
    have w2 := consolidate_wfbo _ _ _ _ _ w hc
    simp -zeta only
    extract_lets dataNull c0 c1 c2 c3 rl c4
    have w0 : WFBO cfg.fieldLimitHard c0.out := w2
    have wc1 : WFBO cfg.fieldLimitHard c1.out := by
      simp only [c1]
      split
      · exact wfbo_same w0 ⟨rfl, rfl, rfl, rfl, rfl⟩ rfl
      · exact w0
    have wc2 : WFBO cfg.fieldLimitHard c2.out := wfbo_keep (keepO_modTx _ _ c1) wc1
    have wc3 : WFBO cfg.fieldLimitHard c3.out := wfbo_keep (keepO_modTx _ _ c0) w0
    have wc4 : WFBO cfg.fieldLimitHard c4.out := wfbo_keep (keepO_modTx _ _ c3) wc3
    clear_value c0 c1 c2 c3 c4 dataNull
    split
    · exact wfbo_clearBuffer _ _ wc2
    · split
      · exact wfboOut_resLineAsBody cfg uid _ _ _ _ c3 wc3
      · have k := keepO_txStateResponseLine uid c4
        generalize (txStateResponseLine uid c4) = r at k ⊢
        have wr : WFBO cfg.fieldLimitHard r.1.out := wfbo_keep k wc4
        unfold R.andThen
        split
        · exact wfbo_clearBuffer _ _ wr
        · exact wr

theorem wfbo_nextByte (hard : Nat) (d : Dir) (n : Int) (w : WFBO hard d) : WFBO hard { d with nextByte := n } :=
  wfbo_same w ⟨rfl, rfl, rfl, rfl, rfl⟩ rfl

theorem wfboOut_resLineLoop (cfg : Cfg) (fuel : Nat) (c : Conn) (w : WFBO cfg.fieldLimitHard c.out) :
    WFBO cfg.fieldLimitHard (resLineLoop cfg fuel c).1.out := by
  induction fuel generalizing c with
  | zero => unfold resLineLoop; exact w
  | succ k ih =>
    unfold resLineLoop
    cases c.out.tx with
    | none => exact w
    | some uid =>
      simp only
      split
      · exact w
      · rename_i c1 h1
        have w1 : WFBO cfg.fieldLimitHard c1.out := by
          split at h1
          · cases hcb : c.out.copyByte with
            | none => rw [hcb] at h1; simp at h1
            | some p =>
              obtain ⟨d, b⟩ := p
              rw [hcb] at h1
              simp only [Option.some.injEq] at h1
              rw [← h1]
              exact copyByte_some_wfbo _ _ d b w hcb
          · simp only [Option.some.injEq] at h1; rw [← h1]; exact w
        split
        · exact wfbo_peekSet _ _ w1
        · rename_i c2 h2
          have w2 : WFBO cfg.fieldLimitHard c2.out := by
            split at h2
            · simp only [Dir.peekSet] at h2
              cases hp : c1.out.peek with
              | none => rw [hp] at h2; simp at h2
              | some b =>
                rw [hp] at h2
                simp only at h2
                split at h2
                · simp only [Except.ok.injEq, Prod.mk.injEq] at h2; rw [← h2.1]; exact wfbo_nextByte _ _ _ w1
                · simp only [Except.ok.injEq, Prod.mk.injEq] at h2; simp at h2
            · simp only [Except.ok.injEq, Prod.mk.injEq] at h2; simp at h2
          exact ih _ w2
        · rename_i c2 h2
          have w2 : WFBO cfg.fieldLimitHard c2.out := by
            split at h2
            · simp only [Dir.peekSet] at h2
              cases hp : c1.out.peek with
              | none => rw [hp] at h2; simp at h2
              | some b =>
                rw [hp] at h2
                simp only at h2
                split at h2
                · simp only [Except.ok.injEq, Prod.mk.injEq] at h2; simp at h2
                · simp only [Except.ok.injEq, Prod.mk.injEq] at h2; rw [← h2.1]; exact wfbo_nextByte _ _ _ (wfbo_nextByte _ _ _ w1)
            · simp only [Except.ok.injEq, Prod.mk.injEq] at h2; rw [← h2.1]; exact w1
          split
          · exact ih _ w2
          · exact wfboOut_resLineComplete cfg uid _ c2 w2

/-- what the line-end handling of RES_HEADERS leaves behind when it goes on -/
def EolPostB (hard : Nat) : Except Rc (Conn × Bool × Bool × Bool) → Prop
  | .error _ => True
  | .ok (c2, _, _, _) => WFBO hard c2.out

theorem copy_after_peek_wfbo (hard : Nat) (d : Dir) (w : WFBO hard d) (b : UInt8) (hp : d.peek = some b) :
    ∃ d' b', (d.peekSet).1.copyByte = some (d', b') ∧ WFBO hard d' := by
  have hlt := peek_some_lt d b hp
  cases hc : (d.peekSet).1.copyByte with
  | none =>
    have := copyByte_none _ hc
    have e := peekSet_read_len d
    omega
  | some p =>
    obtain ⟨d', b'⟩ := p
    exact ⟨d', b', rfl, copyByte_some_wfbo hard _ d' b' (wfbo_peekSet _ _ w) hc⟩

theorem wfbo_consume_succ (hard : Nat) (d : Dir) (w : WFBO hard d) : WFBO hard { d with consume := d.consume + 1 } :=
  ⟨⟨w.1.notNull, by have := w.1.c0; simp only []; omega, w.1.r0, w.1.rl, w.1.lc, w.1.small⟩, w.2⟩

theorem eol_wfbo (hard : Nat) (b : UInt8) (lfcr : Bool) (c : Conn) (w : WFBO hard c.out) : EolPostB hard (resHeadersEol b lfcr c) := by
  unfold resHeadersEol
  split
  · -- CR
    simp only
    cases hp : c.out.peek with
    | none =>
      have : (c.out.peekSet).2 = none := hp
      simp only [this]
      exact trivial
    | some n =>
      have e2 : (c.out.peekSet).2 = some n := hp
      simp only [e2]
      obtain ⟨d1, b1, hc1, w1⟩ := copy_after_peek_wfbo hard c.out w n hp
      split
      · -- LF follows
        simp only [hc1]
        split
        · -- LF-CR mode: a further CR (LF) may belong to the line end
          cases hp2 : d1.peek with
          | none =>
            have e3 : (d1.peekSet).2 = none := hp2
            simp only [e3]
            have : ((none : Option UInt8) == some CR) = false := rfl
            simp only [this, Bool.false_eq_true, if_false]
            exact wfbo_peekSet _ _ w1
          | some n2 =>
            have e3 : (d1.peekSet).2 = some n2 := hp2
            simp only [e3]
            obtain ⟨d2, b2, hc2, w2⟩ := copy_after_peek_wfbo hard d1 w1 n2 hp2
            split
            · simp only [hc2]
              have w2' := wfbo_consume_succ hard d2 w2
              cases hp3 : Dir.peek { d2 with consume := d2.consume + 1 } with
              | none =>
                have e4 : (Dir.peekSet { d2 with consume := d2.consume + 1 }).2 = none := hp3
                simp only [e4]
                have : ((none : Option UInt8) == some LF) = false := rfl
                simp only [this, Bool.false_eq_true, if_false]
                exact wfbo_peekSet _ _ w2'
              | some n3 =>
                have e4 : (Dir.peekSet { d2 with consume := d2.consume + 1 }).2 = some n3 := hp3
                simp only [e4]
                obtain ⟨d3, b3, hc3, w3⟩ := copy_after_peek_wfbo hard _ w2' n3 hp3
                split
                · simp only [hc3]
                  exact wfbo_consume_succ hard d3 w3
                · exact wfbo_peekSet _ _ w2'
            · exact wfbo_peekSet _ _ w1
        · exact w1
      · split
        · exact wfbo_peekSet _ _ w
        · exact wfbo_peekSet _ _ w
  · -- LF
    simp only
    cases hp : c.out.peek with
    | none =>
      have e2 : (c.out.peekSet).2 = none := hp
      simp only [e2]
      have : ((none : Option UInt8) == some CR) = false := rfl
      simp only [this, Bool.false_and, Bool.false_eq_true, if_false]
      exact wfbo_peekSet _ _ w
    | some n =>
      have e2 : (c.out.peekSet).2 = some n := hp
      simp only [e2]
      obtain ⟨d1, b1, hc1, w1⟩ := copy_after_peek_wfbo hard c.out w n hp
      repeat' split
      all_goals first
        | exact w1
        | exact wfbo_peekSet _ _ w
        | (rename_i h9; rw [hc1] at h9; simp only [Option.some.injEq, Prod.mk.injEq] at h9; rw [← h9.1]; exact w1)
        | (rename_i h9; rw [hc1] at h9; simp at h9)



theorem keepO_resHeaderLine (uid : Nat) (line : Bytes) (c : Conn) : KeepO c (resHeaderLine uid line c).1 := by
  unfold resHeaderLine
  split
  · -- a new header line
    have hs := keepO_resFlushHeader c
    rcases hx : resFlushHeader c with ⟨c1, rc1⟩
    rw [hx] at hs
    simp only at hs
    unfold R.andThen
    simp only
    split
    · simp only [Dir.peekSet]
      obtain hp | ⟨b, hp⟩ : c1.out.peek = none ∨ ∃ b, c1.out.peek = some b := by cases c1.out.peek <;> simp
      · simp only [hp, Bool.not_true, Bool.false_eq_true, if_false]
        exact hs.trans ⟨⟨rfl, rfl, rfl, rfl, rfl⟩, rfl⟩
      · simp only [hp]
        by_cases hf : isFoldingChar b = true
        · simp only [hf, Bool.not_true, Bool.false_eq_true, if_false]
          exact hs.trans ⟨⟨rfl, rfl, rfl, rfl, rfl⟩, rfl⟩
        · simp only [hf, Bool.not_false, if_true]
          have e := keepO_processResponseHeader line { c1 with out := { c1.out with nextByte := (b.toNat : Int) } }
          rcases hy : processResponseHeader line { c1 with out := { c1.out with nextByte := (b.toNat : Int) } } with ⟨c2, rc2⟩
          rw [hy] at e
          simp only at e ⊢
          split
          · exact (hs.trans ⟨⟨rfl, rfl, rfl, rfl, rfl⟩, rfl⟩).trans e
          · exact (hs.trans ⟨⟨rfl, rfl, rfl, rfl, rfl⟩, rfl⟩).trans e
    · exact hs
  · -- a continuation line
    cases c.out.header with
    | none => exact ⟨⟨rfl, rfl, rfl, rfl, rfl⟩, rfl⟩
    | some h =>
      simp only
      split
      · have e := keepO_processResponseHeader h (c.modTx uid fun t => { t with flags := t.flags ||| INVALID_FOLDING })
        rcases hy : processResponseHeader h (c.modTx uid fun t => { t with flags := t.flags ||| INVALID_FOLDING }) with ⟨c2, rc2⟩
        rw [hy] at e
        simp only at e ⊢
        have e' : KeepO c c2 := KeepO.trans (KeepO.rfl5 rfl) e
        split
        · exact e'
        · exact e'.trans ⟨⟨rfl, rfl, rfl, rfl, rfl⟩, rfl⟩
      · split
        · exact ⟨⟨rfl, rfl, rfl, rfl, rfl⟩, rfl⟩
        · exact KeepO.refl _

theorem wfboOut_resHeadersLoop (cfg : Cfg) (fuel : Nat) (lfcr : Bool) (c : Conn) (w : WFBO cfg.fieldLimitHard c.out) :
    WFBO cfg.fieldLimitHard (resHeadersLoop cfg fuel lfcr c).1.out := by
  induction fuel generalizing c lfcr with
  | zero => unfold resHeadersLoop; exact w
  | succ k ih =>
    unfold resHeadersLoop
    cases c.out.tx with
    | none => exact w
    | some uid =>
      simp only
      split
      · -- closed
        have k1 := keepO_resReceiverFinalizeClear c
        generalize resReceiverFinalizeClear c = r1 at k1 ⊢
        have wr1 := wfbo_keep k1 w
        unfold R.andThen
        split
        · simp only
          have k2 := keepO_runCallback .responseTrailer (some uid) none false r1.1 0 false
          generalize runCallback .responseTrailer (some uid) none false r1.1 0 false = r2 at k2 ⊢
          have wr2 := wfbo_keep k2 wr1
          split
          · exact wfbo_same wr2 ⟨rfl, rfl, rfl, rfl, rfl⟩ rfl
          · exact wr2
        · exact wr1
      · cases hn : c.out.copyByte with
        | none => exact w
        | some p =>
          obtain ⟨d, b⟩ := p
          have wd := copyByte_some_wfbo _ _ d b w hn
          simp only
          split
          · exact ih _ _ wd
          · have he := eol_wfbo cfg.fieldLimitHard b lfcr { c with out := d } wd
            split
            · exact wfbo_peekSet _ _ wd
            · rename_i heq
              rw [heq] at he
              exact ih _ _ he
            · rename_i c2 lfcr2 ecr2 heq
              rw [heq] at he
              cases hc : c2.out.consolidate cfg.fieldLimitHard false with
              | none => exact he
              | some q =>
                obtain ⟨d2, data⟩ := q
                have w2 := consolidate_wfbo _ _ _ _ _ he hc
                simp only
                split
                · exact ih _ _ w2
                · split
                  · -- the empty line
                    have k1 := keepO_resFlushHeader { c2 with out := d2 }
                    generalize resFlushHeader { c2 with out := d2 } = r1 at k1 ⊢
                    have wr1 : WFBO cfg.fieldLimitHard r1.1.out := wfbo_keep k1 w2
                    unfold R.andThen
                    split
                    · simp only
                      have wcb := wfbo_clearBuffer _ _ wr1
                      split
                      · exact wcb
                      · have k3 := keepO_resReceiverFinalizeClear { r1.1 with out := r1.1.out.clearBuffer }
                        generalize resReceiverFinalizeClear { r1.1 with out := r1.1.out.clearBuffer } = r3 at k3 ⊢
                        have wr3 : WFBO cfg.fieldLimitHard r3.1.out := wfbo_keep k3 wcb
                        split
                        · skip
                          have k4 := keepO_runCallback .responseTrailer (some uid) none false r3.1 0 false
                          generalize runCallback .responseTrailer (some uid) none false r3.1 0 false = r4 at k4 ⊢
                          have wr4 := wfbo_keep k4 wr3
                          split
                          · exact wfbo_same wr4 ⟨rfl, rfl, rfl, rfl, rfl⟩ rfl
                          · exact wr4
                        · exact wr3
                    · exact wr1
                  · -- a header line
                    have k1 := keepO_resHeaderLine uid (Parse.chomp data).1 { c2 with out := d2 }
                    generalize resHeaderLine uid (Parse.chomp data).1 { c2 with out := d2 } = r1 at k1 ⊢
                    have wr1 : WFBO cfg.fieldLimitHard r1.1.out := wfbo_keep k1 w2
                    unfold R.andThen
                    split
                    · exact ih _ _ (wfbo_clearBuffer _ _ wr1)
                    · exact wr1

/-- **every response state function keeps the cursors inside the chunk and the line buffer within the hard limit**, whatever it answers -/
theorem wfboOut_resStateFn (cfg : Cfg) (c : Conn) (w : WFBO cfg.fieldLimitHard c.out)
    (ho1 : c.outState = ResState.bodyIdentityClKnown → 0 ≤ c.out.bodyDataLeft)
    (ho2 : c.outState = ResState.bodyChunkedData → 0 ≤ c.out.chunkedLength) : WFBO cfg.fieldLimitHard (resStateFn cfg c).1.out := by
  unfold resStateFn
  cases hs : c.outState with
  | idle => exact wfboOut_resIdle cfg c w
  | line => exact wfboOut_resLineLoop cfg _ c w
  | headers => exact wfboOut_resHeadersLoop cfg _ false c w
  | bodyDetermine => exact wfbo_keep (keepO_resBodyDetermine cfg c) w
  | bodyIdentityClKnown => exact wfboOut_resBodyIdentityClKnown cfg c w (ho1 hs)
  | bodyIdentityStreamClose => exact wfboOut_resBodyIdentityStreamClose cfg c w
  | bodyChunkedLength => exact wfboOut_resChunkedLengthLoop cfg _ c w
  | bodyChunkedData => exact wfboOut_resBodyChunkedData cfg c w (ho2 hs)
  | bodyChunkedDataEnd => exact wfboOut_resChunkedDataEndLoop _ _ c w
  | finalize => exact wfboOut_resFinalize cfg c w

theorem wfboOut_resHandleStateChange (hard : Nat) (c : Conn) (w : WFBO hard c.out) : WFBO hard (resHandleStateChange c).1.out := by
  unfold resHandleStateChange
  split
  · exact w
  · simp only
    have key : ∀ (r : R), WFBO hard r.1.out → WFBO hard (r >>? fun c => ({ c with outStatePrev := some c.outState }, Rc.ok)).1.out := by
      intro r wr
      unfold R.andThen
      split
      · exact wr
      · exact wr
    apply key
    repeat' split
    all_goals first | exact w | exact wfbo_keep (keepO_resReceiverSet _ c) w

/-- the two counted response body states do not owe a negative amount -/
def OwedOKO (c : Conn) : Prop :=
  (c.outState = ResState.bodyIdentityClKnown → 0 ≤ c.out.bodyDataLeft) ∧ (c.outState = ResState.bodyChunkedData → 0 ≤ c.out.chunkedLength)

/-- the states one (non-gap) response data call passes through -/
inductive CallReachO (cfg : Cfg) (c : Conn) : Conn → Prop
  | start : CallReachO cfg c c
  | step (c' : Conn) : CallReachO cfg c c' → (resStateFn cfg c').2 = Rc.ok →
      ((resStateFn cfg c').1.out.status == STREAM_TUNNEL) = false →
      (resHandleStateChange (resStateFn cfg c').1).2 = Rc.ok →
      CallReachO cfg c (resHandleStateChange (resStateFn cfg c').1).1

/-- **the whole loop of a response data call** keeps the cursors inside the chunk and the line buffer within the hard limit -/
theorem resDriverLoop_wfbo (cfg : Cfg) (fuel : Nat) (c0 c : Conn) (hr : CallReachO cfg c0 c) (w : WFBO cfg.fieldLimitHard c.out)
    (ho : ∀ c', CallReachO cfg c0 c' → OwedOKO c') :
    WFBO cfg.fieldLimitHard (resDriverLoop cfg false fuel c).1.out := by
  induction fuel generalizing c with
  | zero => unfold resDriverLoop; exact wfbo_same w ⟨rfl, rfl, rfl, rfl, rfl⟩ rfl
  | succ k ih =>
    have ws := wfboOut_resStateFn cfg c w (ho c hr).1 (ho c hr).2
    unfold resDriverLoop
    simp only [Bool.false_eq_true, if_false]
    have hstep := CallReachO.step c hr
    rcases hx : resStateFn cfg c with ⟨c1, rc1⟩
    rw [hx] at ws hstep
    simp only at ws hstep ⊢
    -- the tail that returns from the call, for any state with the invariant and any answer
    have tail : ∀ (c2 : Conn) (rc2 : Rc), WFBO cfg.fieldLimitHard c2.out →
        WFBO cfg.fieldLimitHard
          (if (rc2 == Rc.data || rc2 == Rc.dataBuffer) = true then
            (match resReceiverSend false c2 with
             | (c, _) =>
               if (rc2 == Rc.dataBuffer) = true then
                 (match c.out.buffer cfg.fieldLimitHard false with
                  | none => (({ c with out := { c.out with status := STREAM_ERROR } }, STREAM_ERROR) : Conn × Nat)
                  | some d => ({ c with out := { d with status := STREAM_DATA } }, STREAM_DATA))
               else ({ c with out := { c.out with status := STREAM_DATA } }, STREAM_DATA))
          else if (rc2 == Rc.stop) = true then ({ c2 with out := { c2.out with status := STREAM_STOP } }, STREAM_STOP)
          else if (rc2 == Rc.dataOther) = true then
            (if c2.out.read ≥ c2.out.len then ({ c2 with out := { c2.out with status := STREAM_DATA } }, STREAM_DATA)
             else ({ c2 with out := { c2.out with status := STREAM_DATA_OTHER } }, STREAM_DATA_OTHER))
          else ({ c2 with out := { c2.out with status := STREAM_ERROR } }, STREAM_ERROR)).1.out := by
      intro c2 rc2 w2
      split
      · have kk := keepO_resReceiverSend false c2
        rcases hz : resReceiverSend false c2 with ⟨c3, rc3⟩
        rw [hz] at kk
        simp only at kk ⊢
        have w3 := wfbo_keep kk w2
        split
        · cases hb : c3.out.buffer cfg.fieldLimitHard false with
          | none => exact wfbo_same w3 ⟨rfl, rfl, rfl, rfl, rfl⟩ rfl
          | some d => exact wfbo_same (buffer_wfbo _ _ _ _ w3 hb) ⟨rfl, rfl, rfl, rfl, rfl⟩ rfl
        · exact wfbo_same w3 ⟨rfl, rfl, rfl, rfl, rfl⟩ rfl
      · repeat' split
        all_goals exact wfbo_same w2 ⟨rfl, rfl, rfl, rfl, rfl⟩ rfl
    by_cases hd : rc1 = Rc.ok
    · subst hd
      simp only [beq_self_eq_true, if_true]
      by_cases ht : (c1.out.status == STREAM_TUNNEL) = true
      · simp only [ht, if_true, beq_self_eq_true]
        exact ws
      · have ht' : (c1.out.status == STREAM_TUNNEL) = false := by simpa using ht
        simp only [ht', Bool.false_eq_true, if_false]
        have wh := wfboOut_resHandleStateChange cfg.fieldLimitHard c1 ws
        have hstep2 := hstep rfl ht'
        rcases hy : resHandleStateChange c1 with ⟨c2, rc2⟩
        rw [hy] at wh hstep2
        simp only at wh hstep2 ⊢
        by_cases h2 : rc2 = Rc.ok
        · subst h2
          simp only [beq_self_eq_true, if_true]
          split
          · exact wh
          · exact ih c2 (hstep2 rfl) wh
        · have hnok : (rc2 == Rc.ok) = false := by cases rc2 <;> simp_all
          simp only [hnok, Bool.false_eq_true, if_false]
          exact tail c2 rc2 wh
    · have hnok : (rc1 == Rc.ok) = false := by cases rc1 <;> simp_all
      simp only [hnok, Bool.false_eq_true, if_false]
      exact tail c1 rc1 ws

/-- length of the response direction's line buffer -/
def outBufLen (c : Conn) : Nat := (c.out.buf.map (·.length)).getD 0

theorem wfbo_resStoreChunk (hard : Nat) (d : Bytes) (c : Conn) (h : (d.length : Int) < 18446744073709551616) (hb : outBufLen c ≤ hard) :
    WFBO hard (resStoreChunk (some d) d.length c).out := by
  unfold resStoreChunk
  exact ⟨⟨rfl, Int.le_refl _, Int.le_refl _, by simp only []; omega, by simp [Option.getD], h⟩, hb⟩

/-- **a whole response data call keeps the line buffer within the hard limit**: any state, any chunk of data (not a gap), any callback
    policy - provided no pass of the call finds a negative amount owed in a counted body state -/
theorem resData_buffer_bounded (cfg : Cfg) (d : Bytes) (c : Conn) (hs : (d.length : Int) < 18446744073709551616)
    (hb : outBufLen c ≤ cfg.fieldLimitHard)
    (ho : ∀ c', CallReachO cfg (resStoreChunk (some d) d.length c) c' → OwedOKO c') :
    outBufLen (resData cfg (some d) d.length c).1 ≤ cfg.fieldLimitHard := by
  unfold resData
  simp only
  unfold outBufLen
  simp only
  unfold resDataCore
  have wst := wfbo_resStoreChunk cfg.fieldLimitHard d c hs hb
  split
  · exact hb
  split
  · exact hb
  split
  · exact hb
  split
  · exact hb
  simp only
  split
  · exact wst.2
  · exact (resDriverLoop_wfbo cfg _ _ _ CallReachO.start wst ho).2

end Htp.Conn
