/- Where each request state function can leave the parser (`st_*`), and from that: the counted body states owe bytes in every pass of a
   request data call and when it returns (`OwedPos`), given only that the Content-Length of an identity body is not negative at the framing
   decision (`ClAtDecision`). Discharges the 'still owing' hypothesis of the whole-call theorems from a state invariant. -/
import HtpModel.Lemmas.StateFrame
import HtpModel.Lemmas.BufInv
namespace Htp.Conn
open Htp Htp.Gen

/-- `f` leaves the request parser state alone -/
def KeepS (c c' : Conn) : Prop := c'.inState = c.inState
theorem KeepS.refl (c : Conn) : KeepS c c := rfl
theorem KeepS.trans {a b c : Conn} (h1 : KeepS a b) (h2 : KeepS b c) : KeepS a c := Eq.trans h2 h1
theorem keepS_of_keepSt {c c' : Conn} (h : KeepSt c c') : KeepS c c' := h.1

theorem keepS_andThen (c0 : Conn) (r : R) (f : Conn → R) (h1 : KeepS c0 r.1) (h2 : ∀ c, KeepS c (f c).1) :
    KeepS c0 (r >>? f).1 := by
  unfold R.andThen
  split
  · exact h1.trans (h2 _)
  · exact h1

theorem keepS_runCallback (h : Hook) (uid : Option Nat) (data : Option Bytes) (l : Bool) (c : Conn) (g : Nat) (s : Bool) :
    KeepS c (runCallback h uid data l c g s).1 := keepS_of_keepSt (keepSt_runCallback ..)

theorem keepS_modTx (u : Nat) (f : Tx → Tx) (c : Conn) : KeepS c (c.modTx u f) := rfl
theorem keepS_modIn (f : Tx → Tx) (c : Conn) : KeepS c (c.modIn f) := by
  unfold Conn.modIn
  split <;> exact rfl

theorem keepS_reqReceiverSend (l : Bool) (c : Conn) : KeepS c (reqReceiverSend l c).1 := by
  unfold reqReceiverSend
  cases c.inn.receiverHook with
  | none => exact KeepS.refl c
  | some h =>
    simp only
    apply keepS_andThen
    · exact keepS_runCallback ..
    · intro c2; exact rfl

theorem keepS_reqReceiverFinalizeClear (c : Conn) : KeepS c (reqReceiverFinalizeClear c).1 := by
  unfold reqReceiverFinalizeClear
  cases c.inn.receiverHook with
  | none => exact KeepS.refl c
  | some h =>
    simp only
    exact (keepS_reqReceiverSend true c).trans rfl

theorem keepS_reqReceiverSet (h : Hook) (c : Conn) : KeepS c (reqReceiverSet h c).1 := by
  unfold reqReceiverSet
  simp only
  exact (keepS_reqReceiverFinalizeClear c).trans rfl

theorem keepS_reqProcessBodyData (cfg : Cfg) (data : Option Bytes) (g : Nat) (c : Conn) :
    KeepS c (reqProcessBodyData cfg data g c).1 := keepS_of_keepSt (keepSt_reqProcessBodyData ..)

theorem keepS_txFinalize (cfg : Cfg) (uid : Nat) (c : Conn) : KeepS c (txFinalize cfg uid c).1 := by
  unfold txFinalize
  cases c.findTx uid with
  | none => exact KeepS.refl c
  | some t =>
    simp only
    split
    · exact KeepS.refl c
    · apply keepS_andThen
      · exact keepS_runCallback ..
      · intro c1
        split
        · split
          · exact keepS_of_keepSt (keepSt_destroyTx ..)
          · exact KeepS.refl _
        · exact KeepS.refl _

theorem keepS_txStateRequestCompletePartial (cfg : Cfg) (uid : Nat) (c : Conn) : KeepS c (txStateRequestCompletePartial cfg uid c).1 := by
  unfold txStateRequestCompletePartial
  simp only
  apply keepS_andThen
  · split
    · exact keepS_reqProcessBodyData ..
    · exact KeepS.refl c
  · intro c1
    apply keepS_andThen
    · exact (keepS_modTx _ _ c1).trans (keepS_runCallback ..)
    · intro c2
      apply keepS_andThen
      · exact keepS_reqReceiverFinalizeClear c2
      · intro c3; exact rfl

theorem keepS_processRequestHeader (data : Bytes) (c : Conn) : KeepS c (processRequestHeader data c).1 := by
  unfold processRequestHeader
  simp only
  exact (keepS_modIn _ c).trans (keepS_modIn _ _)

theorem keepS_reqFlushHeader (c : Conn) : KeepS c (reqFlushHeader c).1 := by
  unfold reqFlushHeader
  cases c.inn.header with
  | none => exact KeepS.refl c
  | some h =>
    simp only
    have := keepS_processRequestHeader h c
    split
    · exact this
    · exact this.trans rfl

theorem keepS_setTx (t : Tx) (c : Conn) : KeepS c (c.setTx t) := rfl

theorem keepS_installUrlenc (cfg : Cfg) (uid : Nat) (t : Tx) (c : Conn) : KeepS c (installUrlenc cfg uid t c) := by
  unfold installUrlenc
  simp only []
  repeat' split
  all_goals first | exact KeepS.refl _ | exact keepS_setTx _ _

theorem keepS_installMpart (cfg : Cfg) (uid : Nat) (t : Tx) (c : Conn) : KeepS c (installMpart cfg uid t c) := by
  unfold installMpart
  simp only []
  repeat' split
  all_goals first | exact KeepS.refl _ | exact keepS_setTx _ _

theorem keepS_txProcessRequestHeadersTail (cfg : Cfg) (uid : Nat) (t : Tx) (ae : Bool) (c : Conn) :
    KeepS c (txProcessRequestHeadersTail cfg uid t ae c).1 := by
  unfold txProcessRequestHeadersTail
  split
  · exact KeepS.refl c
  · apply keepS_andThen
    · exact keepS_reqReceiverFinalizeClear _
    · intro c1
      exact ((keepS_installUrlenc cfg uid t c1).trans (keepS_installMpart ..)).trans (keepS_runCallback ..)

theorem keepS_txProcessRequestHeaders (cfg : Cfg) (uid : Nat) (c : Conn) : KeepS c (txProcessRequestHeaders cfg uid c).1 := by
  unfold txProcessRequestHeaders
  extract_lets t0 ce enc c2 t1 c1 fr t2 hasBody c0 un
  have k2 : KeepS c c2 := keepS_modTx ..
  have k1 : KeepS c2 c1 := by
    simp only [c1]
    split
    · exact rfl
    · exact KeepS.refl _
  have k0 : KeepS c1 c0 := by
    simp only [c0]
    split
    · exact rfl
    · exact KeepS.refl _
  have k := (k2.trans k1).trans k0
  clear_value c0
  repeat' split
  all_goals exact k.trans ((keepS_setTx _ _).trans (keepS_txProcessRequestHeadersTail ..))

theorem keepS_urlencQueryCallback (cfg : Cfg) (uid : Nat) (c : Conn) : KeepS c (urlencQueryCallback cfg uid c) := by
  unfold urlencQueryCallback
  simp only []
  repeat' split
  all_goals first | exact KeepS.refl _ | exact keepS_setTx _ _

theorem keepS_txCreate (cfg : Cfg) (c : Conn) : KeepS c (txCreate cfg c).1 := by
  unfold txCreate
  simp only []
  split <;> exact rfl


/-- the request states in which nothing is owed and no framing decision is pending -/
def Neutral (s : ReqState) : Prop :=
  s ≠ .bodyIdentity ∧ s ≠ .bodyChunkedData ∧ s ≠ .connectCheck ∧ s ≠ .bodyDetermine

theorem st_txStateRequestComplete (cfg : Cfg) (uid : Nat) (c : Conn) :
    (txStateRequestComplete cfg uid c).1.inState = c.inState ∨ Neutral (txStateRequestComplete cfg uid c).1.inState := by
  unfold txStateRequestComplete
  simp only
  have k1 : KeepS c (if ((c.findTx uid).getD { uid := uid }).reqProgress != 5 then txStateRequestCompletePartial cfg uid c else (c, Rc.ok)).1 := by
    split
    · exact keepS_txStateRequestCompletePartial ..
    · exact KeepS.refl c
  generalize (if ((c.findTx uid).getD { uid := uid }).reqProgress != 5 then txStateRequestCompletePartial cfg uid c else (c, Rc.ok)) = r at k1 ⊢
  unfold R.andThen
  split
  · right
    simp only
    have kf := keepS_txFinalize cfg uid { r.1 with inState := if ((r.1.findTx uid).map (·.is09)).getD ((c.findTx uid).getD { uid := uid }).is09 then .ignoreDataAfter09 else .idle }
    show Neutral (txFinalize cfg uid _).1.inState
    rw [kf]
    show Neutral (if _ then ReqState.ignoreDataAfter09 else ReqState.idle)
    split <;> exact ⟨by decide, by decide, by decide, by decide⟩
  · left; exact k1

theorem st_txStateRequestStart (uid : Nat) (c : Conn) :
    (txStateRequestStart uid c).1.inState = c.inState ∨ (txStateRequestStart uid c).1.inState = .line := by
  unfold txStateRequestStart
  have k1 := keepS_runCallback .requestStart (some uid) none false c 0 false
  generalize runCallback .requestStart (some uid) none false c 0 false = r at k1 ⊢
  unfold R.andThen
  split
  · right
    simp only
    exact keepS_modIn _ { r.1 with inState := .line }
  · left; exact k1

theorem st_txStateRequestLine (cfg : Cfg) (uid : Nat) (c : Conn) :
    (txStateRequestLine cfg uid c).1.inState = c.inState ∨ (txStateRequestLine cfg uid c).1.inState = .protocol := by
  unfold txStateRequestLine
  extract_lets t0 hp fl1 fl2 src t1 t2 t3 c1
  split
  · left; rfl
  · have k1 : KeepS c c1 := keepS_setTx ..
    clear_value c1
    have k2 := keepS_runCallback .requestUriNormalize (some uid) none false c1 0 false
    generalize runCallback .requestUriNormalize (some uid) none false c1 0 false = r at k2 ⊢
    unfold R.andThen
    split
    · simp only
      have k3 : KeepS r.1 (if cfg.urlencParsers then urlencQueryCallback cfg uid r.1 else r.1) := by
        split
        · exact keepS_urlencQueryCallback ..
        · exact KeepS.refl _
      generalize (if cfg.urlencParsers then urlencQueryCallback cfg uid r.1 else r.1) = c2 at k3 ⊢
      have k4 := keepS_runCallback .requestLine (some uid) none false c2 0 false
      generalize runCallback .requestLine (some uid) none false c2 0 false = r2 at k4 ⊢
      split
      · right; rfl
      · left; exact ((k1.trans k2).trans k3).trans k4
    · left; exact k1.trans k2

/-- a request state in which no body bytes are counted -/
def NotOwing (s : ReqState) : Prop := s ≠ .bodyIdentity ∧ s ≠ .bodyChunkedData

theorem owedPos_of_notOwing {c : Conn} (h : NotOwing c.inState) : OwedPos c :=
  ⟨fun e => absurd e h.1, fun e => absurd e h.2⟩

theorem st_txStateRequestHeaders (cfg : Cfg) (uid : Nat) (c : Conn) :
    (txStateRequestHeaders cfg uid c).1.inState = c.inState ∨ (txStateRequestHeaders cfg uid c).1.inState = .finalize ∨
    (txStateRequestHeaders cfg uid c).1.inState = .connectCheck := by
  unfold txStateRequestHeaders
  simp only
  split
  · have k1 := keepS_runCallback .requestTrailer (some uid) none false c 0 false
    generalize runCallback .requestTrailer (some uid) none false c 0 false = r at k1 ⊢
    unfold R.andThen
    split
    · simp only
      have k2 := keepS_reqReceiverFinalizeClear r.1
      generalize reqReceiverFinalizeClear r.1 = r2 at k2 ⊢
      split
      · right; left; rfl
      · left; exact k1.trans k2
    · left; exact k1
  · split
    · have k0 : KeepS c (if c.inChunkCount != c.inChunkRequestIndex then c.modTx uid (fun t => { t with flags := t.flags ||| MULTI_PACKET_HEAD }) else c) := by
        split
        · exact keepS_modTx ..
        · exact KeepS.refl c
      generalize (if c.inChunkCount != c.inChunkRequestIndex then c.modTx uid (fun t => { t with flags := t.flags ||| MULTI_PACKET_HEAD }) else c) = c1 at k0 ⊢
      have k1 := keepS_txProcessRequestHeaders cfg uid c1
      generalize txProcessRequestHeaders cfg uid c1 = r at k1 ⊢
      unfold R.andThen
      split
      · right; right; rfl
      · left; exact k0.trans k1
    · left; rfl

/-! ### where each request state function can leave the parser -/

theorem st_reqIdle (cfg : Cfg) (c : Conn) : (reqIdle cfg c).1.inState = c.inState ∨ (reqIdle cfg c).1.inState = .line := by
  unfold reqIdle
  split
  · left; rfl
  · have k := keepS_txCreate cfg c
    rcases hx : txCreate cfg c with ⟨c1, u⟩
    rw [hx] at k
    simp only at k ⊢
    cases u with
    | none => left; exact k
    | some uid =>
      simp only
      rcases st_txStateRequestStart uid c1 with h | h
      · left; exact k.trans h
      · right; exact h

theorem st_reqLineComplete (cfg : Cfg) (c : Conn) :
    (reqLineComplete cfg c).1.inState = c.inState ∨ (reqLineComplete cfg c).1.inState = .protocol := by
  unfold reqLineComplete
  cases hc : c.inn.consolidate cfg.fieldLimitHard true with
  | none => left; rfl
  | some p =>
    obtain ⟨d, data⟩ := p
    simp -zeta only
    extract_lets c0 ci line rl c1
    have ki : KeepS c ci := keepS_modIn _ c0
    have k1 : KeepS c c1 := keepS_modIn _ c0
    clear_value ci c1
    split
    · left; rfl
    · split
      · left; exact ki
      · cases c1.inn.tx with
        | none => left; exact k1
        | some uid =>
          simp only
          rcases st_txStateRequestLine cfg uid c1 with h | h
          · left
            split
            · exact k1.trans h
            · exact k1.trans h
          · split
            · right; exact h
            · right; exact h

theorem st_reqLineLoop (cfg : Cfg) (fuel : Nat) (c : Conn) :
    (reqLineLoop cfg fuel c).1.inState = c.inState ∨ (reqLineLoop cfg fuel c).1.inState = .protocol := by
  induction fuel generalizing c with
  | zero => unfold reqLineLoop; left; rfl
  | succ k ih =>
    unfold reqLineLoop
    simp only
    split
    · exact st_reqLineComplete cfg _
    · cases hn : (c.inn.peekSet).1.copyByte with
      | none => left; rfl
      | some p =>
        obtain ⟨d, b⟩ := p
        simp only
        split
        · exact st_reqLineComplete cfg _
        · exact ih _

theorem st_reqProtocol (c : Conn) : (reqProtocol c).1.inState = .headers ∨ (reqProtocol c).1.inState = .finalize := by
  unfold reqProtocol
  simp only []
  repeat' split
  all_goals first
    | (right; rfl)
    | (left; exact keepS_modIn _ { c with inState := .headers })
    | (left; exact (keepS_modIn _ { c with inState := .headers }).trans (keepS_modIn _ _))
    | (left; exact (keepS_modIn _ _).trans (keepS_modIn _ { c with inState := .headers }))

/-- one header line of REQ_HEADERS does not change the state -/
theorem st_reqHeadersLoop (cfg : Cfg) (fuel : Nat) (c : Conn) :
    (reqHeadersLoop cfg fuel c).1.inState = c.inState ∨ (reqHeadersLoop cfg fuel c).1.inState = .finalize ∨
    (reqHeadersLoop cfg fuel c).1.inState = .connectCheck := by
  induction fuel generalizing c with
  | zero => unfold reqHeadersLoop; left; rfl
  | succ k ih =>
    unfold reqHeadersLoop
    cases c.inn.tx with
    | none => left; rfl
    | some uid =>
      simp only
      have fin : ∀ (c0 : Conn), c0.inState = c.inState →
          ((reqFlushHeader c0 >>? fun c => txStateRequestHeaders cfg uid ({ c with inn := c.inn.clearBuffer }.modIn (fun t => { t with reqProgress := 4 }))).1.inState = c.inState ∨
           (reqFlushHeader c0 >>? fun c => txStateRequestHeaders cfg uid ({ c with inn := c.inn.clearBuffer }.modIn (fun t => { t with reqProgress := 4 }))).1.inState = .finalize ∨
           (reqFlushHeader c0 >>? fun c => txStateRequestHeaders cfg uid ({ c with inn := c.inn.clearBuffer }.modIn (fun t => { t with reqProgress := 4 }))).1.inState = .connectCheck) := by
        intro c0 h0
        have k1 := keepS_reqFlushHeader c0
        generalize reqFlushHeader c0 = r at k1 ⊢
        unfold R.andThen
        split
        · simp only
          have k2 : KeepS r.1 ({ r.1 with inn := r.1.inn.clearBuffer }.modIn (fun t => { t with reqProgress := 4 })) := keepS_modIn _ { r.1 with inn := r.1.inn.clearBuffer }
          rcases st_txStateRequestHeaders cfg uid ({ r.1 with inn := r.1.inn.clearBuffer }.modIn (fun t => { t with reqProgress := 4 })) with h | h | h
          · left; rw [h, k2, k1, h0]
          · right; left; exact h
          · right; right; exact h
        · left; rw [k1, h0]
      have fin2 : ∀ (c0 : Conn), c0.inState = c.inState →
          ((reqFlushHeader c0 >>? fun c => txStateRequestHeaders cfg uid { c with inn := c.inn.clearBuffer }).1.inState = c.inState ∨
           (reqFlushHeader c0 >>? fun c => txStateRequestHeaders cfg uid { c with inn := c.inn.clearBuffer }).1.inState = .finalize ∨
           (reqFlushHeader c0 >>? fun c => txStateRequestHeaders cfg uid { c with inn := c.inn.clearBuffer }).1.inState = .connectCheck) := by
        intro c0 h0
        have k1 := keepS_reqFlushHeader c0
        generalize reqFlushHeader c0 = r at k1 ⊢
        unfold R.andThen
        split
        · simp only
          rcases st_txStateRequestHeaders cfg uid { r.1 with inn := r.1.inn.clearBuffer } with h | h | h
          · left; rw [h]; show r.1.inState = c.inState; rw [k1, h0]
          · right; left; exact h
          · right; right; exact h
        · left; rw [k1, h0]
      split
      · exact fin c rfl
      · cases hn : c.inn.copyByte with
        | none => left; rfl
        | some p =>
          obtain ⟨d, b⟩ := p
          simp only
          split
          · exact ih _
          · cases hc : d.consolidate cfg.fieldLimitHard true with
            | none => left; rfl
            | some q =>
              obtain ⟨d2, data⟩ := q
              simp only
              split
              · exact fin2 { c with inn := d2 } rfl
              · -- a header line, then the loop goes on in the same state
                have hline : ∀ (r : R), r.1.inState = c.inState →
                    ((r >>? fun c => reqHeadersLoop cfg k { c with inn := c.inn.clearBuffer }).1.inState = c.inState ∨
                     (r >>? fun c => reqHeadersLoop cfg k { c with inn := c.inn.clearBuffer }).1.inState = .finalize ∨
                     (r >>? fun c => reqHeadersLoop cfg k { c with inn := c.inn.clearBuffer }).1.inState = .connectCheck) := by
                  intro r hr
                  unfold R.andThen
                  split
                  · rcases ih { r.1 with inn := r.1.inn.clearBuffer } with h | h | h
                    · left; rw [h]; exact hr
                    · right; left; exact h
                    · right; right; exact h
                  · left; exact hr
                apply hline
                split
                · have k1 := keepS_reqFlushHeader { c with inn := d2 }
                  generalize reqFlushHeader { c with inn := d2 } = r1 at k1 ⊢
                  unfold R.andThen
                  split
                  · simp only
                    split
                    · split
                      · have kk := keepS_processRequestHeader (Parse.chomp data).1 { r1.1 with inn := (r1.1.inn.peekSet).1 }
                        split
                        · rw [kk]; exact k1
                        · rw [kk]; exact k1
                      · exact k1
                    · exact k1
                  · exact k1
                · split
                  · exact keepS_modIn _ { c with inn := d2 }
                  · split
                    · rfl
                    · rfl

theorem st_reqConnectCheck (c : Conn) :
    (reqConnectCheck c).1.inState = .connectWaitResponse ∨ ((reqConnectCheck c).1.inState = .bodyDetermine ∧ (reqConnectCheck c).1.inTx = c.inTx) := by
  unfold reqConnectCheck
  split
  · left; rfl
  · right; exact ⟨rfl, rfl⟩

theorem st_reqConnectWaitResponse (c : Conn) :
    (reqConnectWaitResponse c).1.inState = c.inState ∨ (reqConnectWaitResponse c).1.inState = .connectProbeData ∨
    (reqConnectWaitResponse c).1.inState = .finalize := by
  unfold reqConnectWaitResponse
  simp only []
  repeat' split
  all_goals first | (left; rfl) | (right; left; rfl) | (right; right; rfl)

theorem st_reqConnectProbeLoop (cfg : Cfg) (fuel : Nat) (c : Conn) :
    (reqConnectProbeLoop cfg fuel c).1.inState = c.inState ∨ Neutral (reqConnectProbeLoop cfg fuel c).1.inState := by
  induction fuel generalizing c with
  | zero => unfold reqConnectProbeLoop; left; rfl
  | succ k ih =>
    unfold reqConnectProbeLoop
    simp only
    split
    · cases hc : (c.inn.peekSet).1.consolidate cfg.fieldLimitHard true with
      | none => left; rfl
      | some q =>
        obtain ⟨d2, data⟩ := q
        simp only
        split
        · split
          · rename_i uid _
            exact st_txStateRequestComplete cfg uid { c with inn := d2 }
          · left; rfl
        · left; rfl
    · cases hn : (c.inn.peekSet).1.copyByte with
      | none => left; rfl
      | some p =>
        obtain ⟨d, b⟩ := p
        exact ih _

theorem notOwing_of_eq {c : Conn} {s : ReqState} (h : c.inState = s) (hs : s ≠ .bodyIdentity ∧ s ≠ .bodyChunkedData) :
    NotOwing c.inState := by rw [h]; exact hs

/-- REQ_BODY_DETERMINE: an identity body is entered with the Content-Length as the amount owed -/
theorem owed_reqBodyDetermine (c : Conn) (hs : c.inState = .bodyDetermine) (hcl : c.inTx.reqTransferCoding = CODING_IDENTITY → 0 ≤ c.inTx.reqContentLength) :
    OwedPos (reqBodyDetermine c).1 := by
  unfold reqBodyDetermine
  simp only []
  split
  · exact owedPos_of_notOwing (notOwing_of_eq (s := .bodyChunkedLength) (keepS_modIn _ { c with inState := .bodyChunkedLength }) ⟨by decide, by decide⟩)
  · split
    · rename_i hid
      have hid' : c.inTx.reqTransferCoding = CODING_IDENTITY := by simpa using hid
      have h0 := hcl hid'
      split
      · rename_i hne
        have hne' : c.inTx.reqContentLength ≠ 0 := by simpa using hne
        refine ⟨fun _ => ?_, fun e => ?_⟩
        · have : ({ c with inn := { c.inn with contentLength := c.inTx.reqContentLength, bodyDataLeft := c.inTx.reqContentLength }, inState := ReqState.bodyIdentity }.modIn (fun t => { t with reqProgress := 3 })).inn.bodyDataLeft = c.inTx.reqContentLength := by
            unfold Conn.modIn
            split <;> rfl
          show 0 < ({ c with inn := { c.inn with contentLength := c.inTx.reqContentLength, bodyDataLeft := c.inTx.reqContentLength }, inState := ReqState.bodyIdentity }.modIn (fun t => { t with reqProgress := 3 })).inn.bodyDataLeft
          rw [this]
          omega
        · exfalso
          have : ({ c with inn := { c.inn with contentLength := c.inTx.reqContentLength, bodyDataLeft := c.inTx.reqContentLength }, inState := ReqState.bodyIdentity }.modIn (fun t => { t with reqProgress := 3 })).inState = ReqState.bodyIdentity :=
            keepS_modIn _ _
          have e' : ({ c with inn := { c.inn with contentLength := c.inTx.reqContentLength, bodyDataLeft := c.inTx.reqContentLength }, inState := ReqState.bodyIdentity }.modIn (fun t => { t with reqProgress := 3 })).inState = ReqState.bodyChunkedData := e
          rw [this] at e'
          exact absurd e' (by decide)
      · exact owedPos_of_notOwing (notOwing_of_eq (s := .finalize) rfl ⟨by decide, by decide⟩)
    · split
      · exact owedPos_of_notOwing (notOwing_of_eq (s := .finalize) rfl ⟨by decide, by decide⟩)
      · exact owedPos_of_notOwing (notOwing_of_eq (s := .bodyDetermine) hs ⟨by decide, by decide⟩)

theorem ok_reqBodyIdentity (cfg : Cfg) (c : Conn) (hok : (reqBodyIdentity cfg c).2 = Rc.ok) :
    NotOwing (reqBodyIdentity cfg c).1.inState := by
  unfold reqBodyIdentity at hok ⊢
  extract_lets avail n data at hok ⊢
  clear_value n data
  split at hok
  · simp only at hok; exact absurd hok (by decide)
  · rename_i hn
    simp only [hn, if_false]
    rcases hx : reqProcessBodyData cfg data (if c.inn.curNull then n.toNat else 0) c with ⟨c1, rc1⟩
    rw [hx] at hok
    simp only at hok ⊢
    split at hok
    · rename_i hne
      simp only [hne, if_true]
      simp only at hok
      rw [hok] at hne
      exact absurd hne (by decide)
    · rename_i hne
      simp only [hne, if_false]
      split at hok
      · rename_i hz
        simp only [hz, if_true]
        exact notOwing_of_eq (s := .finalize) rfl ⟨by decide, by decide⟩
      · simp only at hok; exact absurd hok (by decide)

theorem ok_reqBodyChunkedData (cfg : Cfg) (c : Conn) (hok : (reqBodyChunkedData cfg c).2 = Rc.ok) :
    NotOwing (reqBodyChunkedData cfg c).1.inState := by
  unfold reqBodyChunkedData at hok ⊢
  extract_lets avail n data at hok ⊢
  clear_value n data
  split at hok
  · simp only at hok; exact absurd hok (by decide)
  · rename_i hn
    simp only [hn, if_false]
    rcases hx : reqProcessBodyData cfg (some data) 0 c with ⟨c1, rc1⟩
    rw [hx] at hok
    simp only at hok ⊢
    split at hok
    · rename_i hne
      simp only [hne, if_true]
      simp only at hok
      rw [hok] at hne
      exact absurd hne (by decide)
    · rename_i hne
      simp only [hne, if_false]
      split at hok
      · rename_i hz
        simp only [hz, if_true]
        exact notOwing_of_eq (s := .bodyChunkedDataEnd) rfl ⟨by decide, by decide⟩
      · simp only at hok; exact absurd hok (by decide)

theorem st_reqChunkedDataEndLoop (fuel : Nat) (c : Conn) :
    (reqChunkedDataEndLoop fuel c).1.inState = c.inState ∨ (reqChunkedDataEndLoop fuel c).1.inState = .bodyChunkedLength := by
  induction fuel generalizing c with
  | zero => unfold reqChunkedDataEndLoop; left; rfl
  | succ k ih =>
    unfold reqChunkedDataEndLoop
    cases hn : c.inn.nextByteConsume with
    | none => left; rfl
    | some p =>
      obtain ⟨d, b⟩ := p
      simp only
      have k1 : ({ c with inn := d }.modIn (fun t => { t with reqMessageLen := t.reqMessageLen + 1 })).inState = c.inState := keepS_modIn _ { c with inn := d }
      split
      · right; rfl
      · rcases ih ({ c with inn := d }.modIn (fun t => { t with reqMessageLen := t.reqMessageLen + 1 })) with h | h
        · left; rw [h, k1]
        · right; exact h

/-- REQ_BODY_CHUNKED_LENGTH enters the chunk-data state only with a positive chunk length -/
theorem owed_reqChunkedLengthLoop (cfg : Cfg) (fuel : Nat) (c : Conn) (hs : c.inState = .bodyChunkedLength) :
    OwedPos (reqChunkedLengthLoop cfg fuel c).1 := by
  induction fuel generalizing c with
  | zero => unfold reqChunkedLengthLoop; exact owedPos_of_notOwing (notOwing_of_eq hs ⟨by decide, by decide⟩)
  | succ k ih =>
    unfold reqChunkedLengthLoop
    cases hn : c.inn.copyByte with
    | none => exact owedPos_of_notOwing (notOwing_of_eq hs ⟨by decide, by decide⟩)
    | some p =>
      obtain ⟨d, b⟩ := p
      simp -zeta only
      extract_lets c0
      have h0 : c0.inState = .bodyChunkedLength := hs
      split
      · exact ih _ h0
      · cases hc : c0.inn.consolidate cfg.fieldLimitHard true with
        | none => exact owedPos_of_notOwing (notOwing_of_eq h0 ⟨by decide, by decide⟩)
        | some q =>
          obtain ⟨d2, data⟩ := q
          simp -zeta only
          extract_lets c1 line src c2
          have h1 : c1.inState = .bodyChunkedLength := Eq.trans (keepS_modIn _ { c0 with inn := d2 }) h0
          have h2 : c2.inState = .bodyChunkedLength := h1
          have hcl : c2.inn.chunkedLength = (Num.parseChunkedLength line).1 := rfl
          clear_value c2 c1
          split
          · rename_i hpos
            refine ⟨fun e => ?_, fun _ => ?_⟩
            · have e' : ReqState.bodyChunkedData = ReqState.bodyIdentity := e
              exact absurd e' (by decide)
            · show 0 < c2.inn.chunkedLength
              rw [hcl]; exact hpos
          · split
            · exact owedPos_of_notOwing (notOwing_of_eq (s := .headers) (keepS_modIn _ { c2 with inState := .headers }) ⟨by decide, by decide⟩)
            · exact owedPos_of_notOwing (notOwing_of_eq h2 ⟨by decide, by decide⟩)

theorem st_reqIgnore (c : Conn) : (reqIgnoreDataAfter09 c).1.inState = c.inState := by
  unfold reqIgnoreDataAfter09
  simp only []
  split <;> rfl

theorem st_reqFinalize (cfg : Cfg) (c : Conn) :
    (reqFinalize cfg c).1.inState = c.inState ∨ Neutral (reqFinalize cfg c).1.inState := by
  unfold reqFinalize
  cases c.inn.tx with
  | none => left; rfl
  | some uid =>
    simp -zeta only
    extract_lets cp pre
    have hp : ∀ c' b, pre = some (c', b) → c'.inState = c.inState := by
      intro c' b hpre
      simp only [pre] at hpre
      split at hpre
      · split at hpre
        · simp only [Option.some.injEq, Prod.mk.injEq] at hpre; rw [← hpre.1]
        · split at hpre
          · split at hpre
            · simp at hpre
            · simp only [Option.some.injEq, Prod.mk.injEq] at hpre
              rw [← hpre.1]
          · simp only [Option.some.injEq, Prod.mk.injEq] at hpre; rw [← hpre.1]
      · simp only [Option.some.injEq, Prod.mk.injEq] at hpre; rw [← hpre.1]
    clear_value pre
    have viaComplete : ∀ c' : Conn, c'.inState = c.inState →
        ((txStateRequestComplete cfg uid c').1.inState = c.inState ∨ Neutral (txStateRequestComplete cfg uid c').1.inState) := by
      intro c' h'
      rcases st_txStateRequestComplete cfg uid c' with h | h
      · left; rw [h, h']
      · right; exact h
    split
    · left; rfl
    · rename_i _ c1
      exact viaComplete c1 (hp _ _ rfl)
    · rename_i _ c1
      have h1 := hp _ _ rfl
      clear hp
      cases hc : c1.inn.consolidate cfg.fieldLimitHard true with
      | none => left; exact h1
      | some q =>
        obtain ⟨d2, data⟩ := q
        simp -zeta only
        extract_lets c2
        have h2 : c2.inState = c.inState := h1
        clear_value c2
        split
        · exact viaComplete c2 h2
        · rename_i src go _
          have hgo : ∀ c', go = some c' → c'.inState = c.inState := by
            intro c' hg
            simp only [go] at hg
            split at hg
            · split at hg
              · simp at hg
              · simp only [Option.some.injEq] at hg
                rw [← hg]
                split
                · exact h2
                · exact h2
            · simp only [Option.some.injEq] at hg; rw [← hg]; exact h2
          clear_value go
          split
          · exact viaComplete _ h2
          · rename_i c3
            have h3 := hgo _ rfl
            clear hgo
            extract_lets r
            have hr : ∀ c' dd, r = some (c', dd) → c'.inState = c.inState := by
              intro c' dd hh
              simp only [r] at hh
              split at hh
              · cases hcb : c3.inn.copyByte with
                | none => rw [hcb] at hh; simp at hh
                | some p =>
                  obtain ⟨d4, b4⟩ := p
                  rw [hcb] at hh
                  simp only at hh
                  cases hc4 : d4.consolidate cfg.fieldLimitHard true with
                  | none =>
                    rw [hc4] at hh
                    simp only [Option.some.injEq, Prod.mk.injEq] at hh
                    rw [← hh.1]; exact h3
                  | some q4 =>
                    obtain ⟨d5, data5⟩ := q4
                    rw [hc4] at hh
                    simp only [Option.some.injEq, Prod.mk.injEq] at hh
                    rw [← hh.1]; exact h3
              · simp only [Option.some.injEq, Prod.mk.injEq] at hh; rw [← hh.1]; exact h3
            clear_value r
            split
            · left; exact h3
            · rename_i c6 data6
              have h6 := hr _ _ rfl
              have k := keepS_reqProcessBodyData cfg (some data6) 0 c6
              rcases hx : reqProcessBodyData cfg (some data6) 0 c6 with ⟨c7, rc7⟩
              rw [hx] at k
              simp only at k ⊢
              left
              show c7.inState = c.inState
              rw [k, h6]

/-- REQ_BODY_IDENTITY, whatever it answers: it takes min(owed, available) bytes and leaves the state exactly when nothing is owed any more -/
theorem owed_reqBodyIdentity (cfg : Cfg) (c : Conn) (h : OwedPos c) (hs : c.inState = .bodyIdentity) :
    OwedPos (reqBodyIdentity cfg c).1 := by
  have hpos := h.1 hs
  unfold reqBodyIdentity
  extract_lets avail n data
  have hn1 : n ≤ c.inn.bodyDataLeft := by
    simp only [n, avail]
    split <;> omega
  clear_value n data
  split
  · exact h
  · have k := keepS_reqProcessBodyData cfg data (if c.inn.curNull then n.toNat else 0) c
    have f := frame_reqProcessBodyData cfg data (if c.inn.curNull then n.toNat else 0) c
    obtain ⟨_, _, _, _, hb, _, _, hcl, _⟩ := f.inn_fields
    rcases hx : reqProcessBodyData cfg data (if c.inn.curNull then n.toNat else 0) c with ⟨c1, rc1⟩
    rw [hx] at k hb hcl
    simp only at k hb hcl ⊢
    split
    · exact ⟨fun _ => by rw [hb]; exact hpos, fun e => absurd ((Eq.trans k hs).symm.trans e) (by decide)⟩
    · split
      · exact owedPos_of_notOwing (notOwing_of_eq (s := .finalize) rfl ⟨by decide, by decide⟩)
      · rename_i hz
        have hst : ({ c1 with inn := { c1.inn.advance n with bodyDataLeft := c1.inn.bodyDataLeft - n } }.modIn
            (fun t => { t with reqMessageLen := t.reqMessageLen + n.toNat })).inState = .bodyIdentity :=
          Eq.trans (keepS_modIn _ { c1 with inn := { c1.inn.advance n with bodyDataLeft := c1.inn.bodyDataLeft - n } }) (Eq.trans k hs)
        have hleft : ({ c1 with inn := { c1.inn.advance n with bodyDataLeft := c1.inn.bodyDataLeft - n } }.modIn
            (fun t => { t with reqMessageLen := t.reqMessageLen + n.toNat })).inn.bodyDataLeft = c1.inn.bodyDataLeft - n := by
          unfold Conn.modIn
          split <;> rfl
        refine ⟨fun _ => ?_, fun e => absurd (hst.symm.trans e) (by decide)⟩
        rw [hleft]
        have hz' : ¬ (c1.inn.bodyDataLeft - n = 0) := by
          intro e0
          apply hz
          rw [hleft, e0]
          rfl
        rw [hb] at hz' ⊢
        omega

/-- REQ_BODY_CHUNKED_DATA, whatever it answers -/
theorem owed_reqBodyChunkedData (cfg : Cfg) (c : Conn) (h : OwedPos c) (hs : c.inState = .bodyChunkedData) :
    OwedPos (reqBodyChunkedData cfg c).1 := by
  have hpos := h.2 hs
  unfold reqBodyChunkedData
  extract_lets avail n data
  have hn1 : n ≤ c.inn.chunkedLength := by
    simp only [n, avail]
    split <;> omega
  clear_value n data
  split
  · exact h
  · have k := keepS_reqProcessBodyData cfg (some data) 0 c
    have f := frame_reqProcessBodyData cfg (some data) 0 c
    obtain ⟨_, _, _, _, hb, _, _, hcl, _⟩ := f.inn_fields
    rcases hx : reqProcessBodyData cfg (some data) 0 c with ⟨c1, rc1⟩
    rw [hx] at k hb hcl
    simp only at k hb hcl ⊢
    split
    · exact ⟨fun e => absurd ((Eq.trans k hs).symm.trans e) (by decide), fun _ => by rw [hcl]; exact hpos⟩
    · split
      · exact owedPos_of_notOwing (notOwing_of_eq (s := .bodyChunkedDataEnd) rfl ⟨by decide, by decide⟩)
      · rename_i hz
        have hst : ({ c1 with inn := { c1.inn.advance n with chunkedLength := c1.inn.chunkedLength - n } }.modIn
            (fun t => { t with reqMessageLen := t.reqMessageLen + n.toNat })).inState = .bodyChunkedData :=
          Eq.trans (keepS_modIn _ { c1 with inn := { c1.inn.advance n with chunkedLength := c1.inn.chunkedLength - n } }) (Eq.trans k hs)
        have hleft : ({ c1 with inn := { c1.inn.advance n with chunkedLength := c1.inn.chunkedLength - n } }.modIn
            (fun t => { t with reqMessageLen := t.reqMessageLen + n.toNat })).inn.chunkedLength = c1.inn.chunkedLength - n := by
          unfold Conn.modIn
          split <;> rfl
        refine ⟨fun e => absurd (hst.symm.trans e) (by decide), fun _ => ?_⟩
        rw [hleft]
        have hz' : ¬ (c1.inn.chunkedLength - n = 0) := by
          intro e0
          apply hz
          rw [hleft, e0]
          rfl
        rw [hcl] at hz' ⊢
        omega

/-- the amounts owed are not touched by the state-change hook -/
theorem owedFields_reqHandleStateChange (c : Conn) :
    (reqHandleStateChange c).1.inState = c.inState ∧ (reqHandleStateChange c).1.inn.bodyDataLeft = c.inn.bodyDataLeft ∧
    (reqHandleStateChange c).1.inn.chunkedLength = c.inn.chunkedLength := by
  unfold reqHandleStateChange
  split
  · exact ⟨rfl, rfl, rfl⟩
  · simp only
    have key : ∀ (r : R), (r.1.inState = c.inState ∧ r.1.inn.bodyDataLeft = c.inn.bodyDataLeft ∧ r.1.inn.chunkedLength = c.inn.chunkedLength) →
        ((r >>? fun c => ({ c with inStatePrev := some c.inState }, Rc.ok)).1.inState = c.inState ∧
         (r >>? fun c => ({ c with inStatePrev := some c.inState }, Rc.ok)).1.inn.bodyDataLeft = c.inn.bodyDataLeft ∧
         (r >>? fun c => ({ c with inStatePrev := some c.inState }, Rc.ok)).1.inn.chunkedLength = c.inn.chunkedLength) := by
      intro r hr
      unfold R.andThen
      split
      · exact hr
      · exact hr
    apply key
    have hset : ∀ h : Hook, (reqReceiverSet h c).1.inState = c.inState ∧ (reqReceiverSet h c).1.inn.bodyDataLeft = c.inn.bodyDataLeft ∧
        (reqReceiverSet h c).1.inn.chunkedLength = c.inn.chunkedLength := by
      intro h
      refine ⟨keepS_reqReceiverSet h c, ?_, ?_⟩
      · unfold reqReceiverSet
        simp only
        show (reqReceiverFinalizeClear c).1.inn.bodyDataLeft = c.inn.bodyDataLeft
        unfold reqReceiverFinalizeClear
        cases hh : c.inn.receiverHook with
        | none => rfl
        | some hk =>
          simp only
          show (reqReceiverSend true c).1.inn.bodyDataLeft = c.inn.bodyDataLeft
          unfold reqReceiverSend
          rw [hh]
          simp only
          have f := frame_runCallback hk c.inn.tx (if c.inn.curNull then none else some (sliceCur c.inn c.inn.receiver c.inn.read)) true c
            (if c.inn.curNull then (c.inn.read - c.inn.receiver).toNat else 0) (!c.inn.curNull && !c.inn.live)
          obtain ⟨_, _, _, _, hb, _, _, _, _⟩ := f.inn_fields
          generalize runCallback hk c.inn.tx _ true c _ _ = r at hb ⊢
          unfold R.andThen
          split
          · exact hb
          · exact hb
      · unfold reqReceiverSet
        simp only
        show (reqReceiverFinalizeClear c).1.inn.chunkedLength = c.inn.chunkedLength
        unfold reqReceiverFinalizeClear
        cases hh : c.inn.receiverHook with
        | none => rfl
        | some hk =>
          simp only
          show (reqReceiverSend true c).1.inn.chunkedLength = c.inn.chunkedLength
          unfold reqReceiverSend
          rw [hh]
          simp only
          have f := frame_runCallback hk c.inn.tx (if c.inn.curNull then none else some (sliceCur c.inn c.inn.receiver c.inn.read)) true c
            (if c.inn.curNull then (c.inn.read - c.inn.receiver).toNat else 0) (!c.inn.curNull && !c.inn.live)
          obtain ⟨_, _, _, _, _, _, _, hb, _⟩ := f.inn_fields
          generalize runCallback hk c.inn.tx _ true c _ _ = r at hb ⊢
          unfold R.andThen
          split
          · exact hb
          · exact hb
    repeat' split
    all_goals first | exact ⟨rfl, rfl, rfl⟩ | exact hset _

theorem owedPos_reqHandleStateChange (c : Conn) (h : OwedPos c) : OwedPos (reqHandleStateChange c).1 := by
  obtain ⟨h1, h2, h3⟩ := owedFields_reqHandleStateChange c
  exact ⟨fun e => by rw [h2]; exact h.1 (by rw [← h1]; exact e), fun e => by rw [h3]; exact h.2 (by rw [← h1]; exact e)⟩

/-- **one pass keeps the counted body states owing bytes, whatever it answers** - the only thing it needs from outside is that the
    Content-Length recorded for an identity body is not negative when the framing decision is taken -/
theorem owedPos_reqStateFn (cfg : Cfg) (c : Conn) (h : OwedPos c)
    (hcl : c.inState = .bodyDetermine → c.inTx.reqTransferCoding = CODING_IDENTITY → 0 ≤ c.inTx.reqContentLength) :
    OwedPos (reqStateFn cfg c).1 := by
  unfold reqStateFn
  cases hs : c.inState with
  | idle =>
    simp only
    rcases st_reqIdle cfg c with h | h
    · exact owedPos_of_notOwing (notOwing_of_eq (h.trans hs) ⟨by decide, by decide⟩)
    · exact owedPos_of_notOwing (notOwing_of_eq h ⟨by decide, by decide⟩)
  | line =>
    simp only
    rcases st_reqLineLoop cfg ((c.inn.len - c.inn.read).toNat + 2) c with h | h
    · exact owedPos_of_notOwing (notOwing_of_eq (h.trans hs) ⟨by decide, by decide⟩)
    · exact owedPos_of_notOwing (notOwing_of_eq h ⟨by decide, by decide⟩)
  | protocol =>
    simp only
    rcases st_reqProtocol c with h | h
    · exact owedPos_of_notOwing (notOwing_of_eq h ⟨by decide, by decide⟩)
    · exact owedPos_of_notOwing (notOwing_of_eq h ⟨by decide, by decide⟩)
  | headers =>
    simp only
    rcases st_reqHeadersLoop cfg ((c.inn.len - c.inn.read).toNat + 2) c with h | h | h
    · exact owedPos_of_notOwing (notOwing_of_eq (h.trans hs) ⟨by decide, by decide⟩)
    · exact owedPos_of_notOwing (notOwing_of_eq h ⟨by decide, by decide⟩)
    · exact owedPos_of_notOwing (notOwing_of_eq h ⟨by decide, by decide⟩)
  | connectCheck =>
    simp only
    rcases st_reqConnectCheck c with h | h
    · exact owedPos_of_notOwing (notOwing_of_eq h ⟨by decide, by decide⟩)
    · exact owedPos_of_notOwing (notOwing_of_eq h.1 ⟨by decide, by decide⟩)
  | connectWaitResponse =>
    simp only
    rcases st_reqConnectWaitResponse c with h | h | h
    · exact owedPos_of_notOwing (notOwing_of_eq (h.trans hs) ⟨by decide, by decide⟩)
    · exact owedPos_of_notOwing (notOwing_of_eq h ⟨by decide, by decide⟩)
    · exact owedPos_of_notOwing (notOwing_of_eq h ⟨by decide, by decide⟩)
  | connectProbeData =>
    simp only
    rcases st_reqConnectProbeLoop cfg ((c.inn.len - c.inn.read).toNat + 2) c with h | h
    · exact owedPos_of_notOwing (notOwing_of_eq (h.trans hs) ⟨by decide, by decide⟩)
    · exact owedPos_of_notOwing ⟨h.1, h.2.1⟩
  | bodyDetermine => simp only; exact owed_reqBodyDetermine c hs (hcl hs)
  | bodyIdentity =>
    simp only
    exact owed_reqBodyIdentity cfg c h hs
  | bodyChunkedLength => simp only; exact owed_reqChunkedLengthLoop cfg _ c hs
  | bodyChunkedData =>
    simp only
    exact owed_reqBodyChunkedData cfg c h hs
  | bodyChunkedDataEnd =>
    simp only
    rcases st_reqChunkedDataEndLoop ((c.inn.len - c.inn.read).toNat + 2) c with h | h
    · exact owedPos_of_notOwing (notOwing_of_eq (h.trans hs) ⟨by decide, by decide⟩)
    · exact owedPos_of_notOwing (notOwing_of_eq h ⟨by decide, by decide⟩)
  | finalize =>
    simp only
    rcases st_reqFinalize cfg c with h | h
    · exact owedPos_of_notOwing (notOwing_of_eq (h.trans hs) ⟨by decide, by decide⟩)
    · exact owedPos_of_notOwing ⟨h.1, h.2.1⟩
  | ignoreDataAfter09 =>
    simp only
    exact owedPos_of_notOwing (notOwing_of_eq ((st_reqIgnore c).trans hs) ⟨by decide, by decide⟩)

/-- the Content-Length recorded for an identity body is not negative whenever a pass of this call takes the framing decision -/
def ClAtDecision (cfg : Cfg) (c0 : Conn) : Prop :=
  ∀ c', CallReach cfg c0 c' → c'.inState = .bodyDetermine → c'.inTx.reqTransferCoding = CODING_IDENTITY → 0 ≤ c'.inTx.reqContentLength

/-- **the counted body states owe bytes in every pass of a call** that starts so: they are entered with a positive amount (REQ_BODY_DETERMINE
    from a non-negative Content-Length, REQ_BODY_CHUNKED_LENGTH from a positive chunk length), left when it reaches zero, and nothing else
    moves the parser into them or touches the amounts -/
theorem owedPos_along_call (cfg : Cfg) (c0 : Conn) (h0 : OwedPos c0) (hcl : ClAtDecision cfg c0) :
    ∀ c', CallReach cfg c0 c' → OwedPos c' := by
  intro c' hr
  induction hr with
  | start => exact h0
  | step c1 hr1 hok _ _ ih =>
    exact owedPos_reqHandleStateChange _ (owedPos_reqStateFn cfg c1 ih (hcl c1 hr1))

theorem owedPos_reqStoreChunk (d : Bytes) (c : Conn) (h : OwedPos c) : OwedPos (reqWakeOther (reqStoreChunk (some d) d.length c)) := by
  unfold reqWakeOther
  split
  · exact ⟨fun e => h.1 e, fun e => h.2 e⟩
  · exact ⟨fun e => h.1 e, fun e => h.2 e⟩

/-- **DATA means the whole chunk was consumed, whole request data call, from a state invariant**: the line buffer within the limit and the
    counted body states owing bytes at the START of the call are enough; inside the call the only outside fact used is `ClAtDecision` -/
theorem reqData_data_consumed_inv (cfg : Cfg) (d : Bytes) (c : Conn) (hs : (d.length : Int) < 18446744073709551616)
    (hb : inBufLen c ≤ cfg.fieldLimitHard) (h0 : OwedPos c)
    (hcl : ClAtDecision cfg (reqWakeOther (reqStoreChunk (some d) d.length c)))
    (hdata : (reqData cfg (some d) d.length c).2 = STREAM_DATA) :
    (reqData cfg (some d) d.length c).1.inn.read = (reqData cfg (some d) d.length c).1.inn.len :=
  reqData_data_consumed cfg d c hs hb (owedPos_along_call cfg _ (owedPos_reqStoreChunk d c h0) hcl) hdata

/-- `f` leaves the request state and the two amounts owed alone -/
def OwedSame (c c' : Conn) : Prop :=
  c'.inState = c.inState ∧ c'.inn.bodyDataLeft = c.inn.bodyDataLeft ∧ c'.inn.chunkedLength = c.inn.chunkedLength

theorem owedPos_of_same {c c' : Conn} (s : OwedSame c c') (h : OwedPos c) : OwedPos c' :=
  ⟨fun e => by rw [s.2.1]; exact h.1 (by rw [← s.1]; exact e), fun e => by rw [s.2.2]; exact h.2 (by rw [← s.1]; exact e)⟩

theorem owedSame_reqReceiverSend (l : Bool) (c : Conn) : OwedSame c (reqReceiverSend l c).1 := by
  refine ⟨keepS_reqReceiverSend l c, ?_, ?_⟩
  · unfold reqReceiverSend
    cases hh : c.inn.receiverHook with
    | none => rfl
    | some hk =>
      simp only
      have f := frame_runCallback hk c.inn.tx (if c.inn.curNull then none else some (sliceCur c.inn c.inn.receiver c.inn.read)) l c
        (if c.inn.curNull then (c.inn.read - c.inn.receiver).toNat else 0) (!c.inn.curNull && !c.inn.live)
      obtain ⟨_, _, _, _, hb, _, _, _, _⟩ := f.inn_fields
      generalize runCallback hk c.inn.tx _ l c _ _ = r at hb ⊢
      unfold R.andThen
      split
      · exact hb
      · exact hb
  · unfold reqReceiverSend
    cases hh : c.inn.receiverHook with
    | none => rfl
    | some hk =>
      simp only
      have f := frame_runCallback hk c.inn.tx (if c.inn.curNull then none else some (sliceCur c.inn c.inn.receiver c.inn.read)) l c
        (if c.inn.curNull then (c.inn.read - c.inn.receiver).toNat else 0) (!c.inn.curNull && !c.inn.live)
      obtain ⟨_, _, _, _, _, _, _, hb, _⟩ := f.inn_fields
      generalize runCallback hk c.inn.tx _ l c _ _ = r at hb ⊢
      unfold R.andThen
      split
      · exact hb
      · exact hb

theorem buffer_owedFields (d d' : Dir) (hard : Nat) (s : Bool) (h : d.buffer hard s = some d') :
    d'.bodyDataLeft = d.bodyDataLeft ∧ d'.chunkedLength = d.chunkedLength := by
  unfold Dir.buffer at h
  split at h
  · simp only [Option.some.injEq] at h; rw [← h]; exact ⟨rfl, rfl⟩
  · simp only at h
    split at h
    · simp only [Option.some.injEq] at h; rw [← h]; exact ⟨rfl, rfl⟩
    · split at h
      · simp at h
      · simp only [Option.some.injEq] at h; rw [← h]; exact ⟨rfl, rfl⟩

/-- **the counted body states owe bytes at the end of the call's loop as well** (so, with the line-buffer bound, `OwedPos` is carried from one
    request data call to the next) -/
theorem reqDriverLoop_owedPos (cfg : Cfg) (fuel : Nat) (c0 c : Conn) (hr : CallReach cfg c0 c) (h : OwedPos c) (hcl : ClAtDecision cfg c0) :
    OwedPos (reqDriverLoop cfg false fuel c).1 := by
  induction fuel generalizing c with
  | zero => unfold reqDriverLoop; exact ⟨fun e => h.1 e, fun e => h.2 e⟩
  | succ k ih =>
    have hs := owedPos_reqStateFn cfg c h (hcl c hr)
    unfold reqDriverLoop
    simp only [Bool.false_eq_true, if_false]
    have hstep := CallReach.step c hr
    rcases hx : reqStateFn cfg c with ⟨c1, rc1⟩
    rw [hx] at hs hstep
    simp only at hs hstep ⊢
    have tail : ∀ (c2 : Conn) (rc2 : Rc), OwedPos c2 →
        OwedPos
          (if (rc2 == Rc.data || rc2 == Rc.dataBuffer) = true then
            (match reqReceiverSend false c2 with
             | (c, _) =>
               if (rc2 == Rc.dataBuffer) = true then
                 (match c.inn.buffer cfg.fieldLimitHard true with
                  | none => (({ c with inn := { c.inn with status := STREAM_ERROR } }, STREAM_ERROR) : Conn × Nat)
                  | some d => ({ c with inn := { d with status := STREAM_DATA } }, STREAM_DATA))
               else ({ c with inn := { c.inn with status := STREAM_DATA } }, STREAM_DATA))
          else if (rc2 == Rc.dataOther) = true then
            (if c2.inn.read ≥ c2.inn.len then ({ c2 with inn := { c2.inn with status := STREAM_DATA } }, STREAM_DATA)
             else ({ c2 with inn := { c2.inn with status := STREAM_DATA_OTHER } }, STREAM_DATA_OTHER))
          else if (rc2 == Rc.stop) = true then ({ c2 with inn := { c2.inn with status := STREAM_STOP } }, STREAM_STOP)
          else ({ c2 with inn := { c2.inn with status := STREAM_ERROR } }, STREAM_ERROR)).1 := by
      intro c2 rc2 h2
      split
      · have kk := owedSame_reqReceiverSend false c2
        rcases hz : reqReceiverSend false c2 with ⟨c3, rc3⟩
        rw [hz] at kk
        simp only at kk ⊢
        have h3 := owedPos_of_same kk h2
        split
        · cases hb : c3.inn.buffer cfg.fieldLimitHard true with
          | none => exact ⟨fun e => h3.1 e, fun e => h3.2 e⟩
          | some d =>
            obtain ⟨e1, e2⟩ := buffer_owedFields _ _ _ _ hb
            exact ⟨fun e => by show 0 < d.bodyDataLeft; rw [e1]; exact h3.1 e, fun e => by show 0 < d.chunkedLength; rw [e2]; exact h3.2 e⟩
        · exact ⟨fun e => h3.1 e, fun e => h3.2 e⟩
      · repeat' split
        all_goals exact ⟨fun e => h2.1 e, fun e => h2.2 e⟩
    by_cases hd : rc1 = Rc.ok
    · subst hd
      simp only [beq_self_eq_true, if_true]
      by_cases ht : (c1.inn.status == STREAM_TUNNEL) = true
      · simp only [ht, if_true, beq_self_eq_true]
        exact hs
      · have ht' : (c1.inn.status == STREAM_TUNNEL) = false := by simpa using ht
        simp only [ht', Bool.false_eq_true, if_false]
        have wh := owedPos_reqHandleStateChange c1 hs
        have hstep2 := hstep rfl ht'
        rcases hy : reqHandleStateChange c1 with ⟨c2, rc2⟩
        rw [hy] at wh hstep2
        simp only at wh hstep2 ⊢
        by_cases h2 : rc2 = Rc.ok
        · subst h2
          simp only [beq_self_eq_true, if_true]
          split
          · exact wh
          · exact ih c2 (hstep2 rfl) wh
        · have hnok : (rc2 == Rc.ok) = false := by cases rc2 <;> simp_all
          simp only [hnok, Bool.false_eq_true, if_false]
          exact tail c2 rc2 wh
    · have hnok : (rc1 == Rc.ok) = false := by cases rc1 <;> simp_all
      simp only [hnok, Bool.false_eq_true, if_false]
      exact tail c1 rc1 hs

/-- **a request-direction call invariant**: the line buffer within the hard limit and the counted body states owing bytes - both hold again
    when htp_connp_req_data returns, for any chunk of data and any callback policy (outside fact used: `ClAtDecision`) -/
theorem reqData_invariant (cfg : Cfg) (d : Bytes) (c : Conn) (hs : (d.length : Int) < 18446744073709551616)
    (hb : inBufLen c ≤ cfg.fieldLimitHard) (h0 : OwedPos c)
    (hcl : ClAtDecision cfg (reqWakeOther (reqStoreChunk (some d) d.length c))) :
    inBufLen (reqData cfg (some d) d.length c).1 ≤ cfg.fieldLimitHard ∧ OwedPos (reqData cfg (some d) d.length c).1 := by
  have hstore := owedPos_reqStoreChunk d c h0
  have hall := owedPos_along_call cfg _ hstore hcl
  refine ⟨reqData_buffer_bounded cfg d c hs hb (fun c' hr => owedOK_of_pos (hall c' hr)), ?_⟩
  unfold reqData
  simp only
  have key : OwedPos (reqDataCore cfg (some d) d.length c).1 := by
    unfold reqDataCore
    split
    · exact h0
    split
    · exact h0
    split
    · exact ⟨fun e => h0.1 e, fun e => h0.2 e⟩
    split
    · exact h0
    simp only
    split
    · exact ⟨fun e => h0.1 e, fun e => h0.2 e⟩
    · exact reqDriverLoop_owedPos cfg _ _ _ CallReach.start hstore hcl
  exact ⟨fun e => key.1 e, fun e => key.2 e⟩

end Htp.Conn
