/- The response direction's counterpart of Lemmas/Owed.lean: where each of the ten response state functions can leave the parser, the amounts
   owed touched only by the two counted body states; on this side the framing decision itself refuses a negative Content-Length, so the
   whole-call theorems need no outside fact. -/
import HtpModel.Lemmas.Owed
import HtpModel.Lemmas.OutConsumed
namespace Htp.Conn
open Htp Htp.Gen

/-- `f` leaves the response parser state alone -/
def KeepOS (c c' : Conn) : Prop := c'.outState = c.outState
theorem KeepOS.refl (c : Conn) : KeepOS c c := rfl
theorem KeepOS.trans {a b c : Conn} (h1 : KeepOS a b) (h2 : KeepOS b c) : KeepOS a c := Eq.trans h2 h1
theorem keepOS_of_keepSt {c c' : Conn} (h : KeepSt c c') : KeepOS c c' := h.2

theorem keepSt_resProcessBodyData (cfg : Cfg) (data : Option Bytes) (c : Conn) : KeepSt c (resProcessBodyData cfg data c).1 := by
  unfold resProcessBodyData
  cases c.out.tx with
  | none => exact KeepSt.refl c
  | some uid =>
    simp only
    have f0 : KeepSt c (c.modTx uid fun t => { t with resMessageLen := t.resMessageLen + (data.map (·.length)).getD 0 }) := keepSt_modTx ..
    split
    · split
      · exact f0
      · split
        · exact f0.trans (keepSt_unsupported _)
        · rcases hx : decompress cfg false uid (8 * (data.map (·.length)).getD 0 + 128)
            (c.modTx uid fun t => { t with resMessageLen := t.resMessageLen + (data.map (·.length)).getD 0 }).outDecs data
            (c.modTx uid fun t => { t with resMessageLen := t.resMessageLen + (data.map (·.length)).getD 0 }) with ⟨ds, c1, rc1⟩
          have f1 := (keepSt_dec cfg false uid (8 * (data.map (·.length)).getD 0 + 128)).2.2.2
            (c.modTx uid fun t => { t with resMessageLen := t.resMessageLen + (data.map (·.length)).getD 0 }).outDecs data
            (c.modTx uid fun t => { t with resMessageLen := t.resMessageLen + (data.map (·.length)).getD 0 })
          rw [hx] at f1
          simp only at f1 ⊢
          exact (f0.trans f1).trans ⟨rfl, rfl⟩
    · split
      · have h := keepSt_resRunHookBodyData data
          ((c.modTx uid fun t => { t with resMessageLen := t.resMessageLen + (data.map (·.length)).getD 0 }).modTx uid
            fun t => { t with resEntityLen := t.resEntityLen + (data.map (·.length)).getD 0 })
        have f2 := (f0.trans (keepSt_modTx uid (fun t => { t with resEntityLen := t.resEntityLen + (data.map (·.length)).getD 0 }) _)).trans h
        split <;> exact f2
      · exact f0

theorem keepSt_resProcessBodyDataGap (cfg : Cfg) (data : Option Bytes) (g : Nat) (c : Conn) :
    KeepSt c (resBodyIdentityClKnown.resProcessBodyDataGap cfg data g c).1 := by
  unfold resBodyIdentityClKnown.resProcessBodyDataGap
  split
  · exact keepSt_resProcessBodyData ..
  · cases c.out.tx with
    | none => exact KeepSt.refl c
    | some uid =>
      simp only
      have f0 : KeepSt c (c.modTx uid fun t => { t with resMessageLen := t.resMessageLen + g }) := keepSt_modTx ..
      split
      · have f1 := f0.trans (keepSt_modTx uid (fun t => { t with resEntityLen := t.resEntityLen + g }) _)
        split
        · refine f1.trans ?_
          apply keepSt_andThen
          · exact keepSt_runCallbackN ..
          · intro c2; exact keepSt_runCallback ..
        · refine f1.trans ?_
          apply keepSt_andThen
          · exact keepSt_runCallbackN ..
          · intro c2; exact keepSt_runCallback ..
      · exact f0.trans (keepSt_unsupported _)



theorem keepOS_andThen (c0 : Conn) (r : R) (f : Conn → R) (h1 : KeepOS c0 r.1) (h2 : ∀ c, KeepOS c (f c).1) :
    KeepOS c0 (r >>? f).1 := by
  unfold R.andThen
  split
  · exact h1.trans (h2 _)
  · exact h1

theorem keepOS_runCallback (h : Hook) (uid : Option Nat) (data : Option Bytes) (l : Bool) (c : Conn) (g : Nat) (s : Bool) :
    KeepOS c (runCallback h uid data l c g s).1 := keepOS_of_keepSt (keepSt_runCallback ..)
theorem keepOS_runCallbackN (n : Nat) (h : Hook) (uid : Option Nat) (data : Option Bytes) (l : Bool) (g : Nat) (c : Conn) :
    KeepOS c (runCallbackN n h uid data l g c).1 := keepOS_of_keepSt (keepSt_runCallbackN ..)

theorem keepOS_modTx (u : Nat) (f : Tx → Tx) (c : Conn) : KeepOS c (c.modTx u f) := rfl
theorem keepOS_setTx (t : Tx) (c : Conn) : KeepOS c (c.setTx t) := rfl
theorem keepOS_modOut (f : Tx → Tx) (c : Conn) : KeepOS c (c.modOut f) := by
  unfold Conn.modOut
  split <;> exact rfl
theorem keepOS_modIn (f : Tx → Tx) (c : Conn) : KeepOS c (c.modIn f) := by
  unfold Conn.modIn
  split <;> exact rfl

theorem keepOS_resReceiverSend (l : Bool) (c : Conn) : KeepOS c (resReceiverSend l c).1 := by
  unfold resReceiverSend
  cases c.out.receiverHook with
  | none => exact KeepOS.refl c
  | some h =>
    simp only
    apply keepOS_andThen
    · exact keepOS_runCallback ..
    · intro c2; exact rfl

theorem keepOS_resReceiverFinalizeClear (c : Conn) : KeepOS c (resReceiverFinalizeClear c).1 := by
  unfold resReceiverFinalizeClear
  cases c.out.receiverHook with
  | none => exact KeepOS.refl c
  | some h =>
    simp only
    exact (keepOS_resReceiverSend true c).trans rfl

theorem keepOS_resReceiverSet (h : Hook) (c : Conn) : KeepOS c (resReceiverSet h c).1 := by
  unfold resReceiverSet
  simp only
  exact (keepOS_resReceiverFinalizeClear c).trans rfl

theorem keepOS_reqReceiverSend (l : Bool) (c : Conn) : KeepOS c (reqReceiverSend l c).1 := by
  unfold reqReceiverSend
  cases c.inn.receiverHook with
  | none => exact KeepOS.refl c
  | some h =>
    simp only
    apply keepOS_andThen
    · exact keepOS_runCallback ..
    · intro c2; exact rfl

theorem keepOS_reqReceiverFinalizeClear (c : Conn) : KeepOS c (reqReceiverFinalizeClear c).1 := by
  unfold reqReceiverFinalizeClear
  cases c.inn.receiverHook with
  | none => exact KeepOS.refl c
  | some h =>
    simp only
    exact (keepOS_reqReceiverSend true c).trans rfl

theorem keepOS_reqProcessBodyData (cfg : Cfg) (data : Option Bytes) (g : Nat) (c : Conn) :
    KeepOS c (reqProcessBodyData cfg data g c).1 := keepOS_of_keepSt (keepSt_reqProcessBodyData ..)
theorem keepOS_resProcessBodyData (cfg : Cfg) (data : Option Bytes) (c : Conn) :
    KeepOS c (resProcessBodyData cfg data c).1 := keepOS_of_keepSt (keepSt_resProcessBodyData ..)
theorem keepOS_resProcessBodyDataGap (cfg : Cfg) (data : Option Bytes) (g : Nat) (c : Conn) :
    KeepOS c (resBodyIdentityClKnown.resProcessBodyDataGap cfg data g c).1 := keepOS_of_keepSt (keepSt_resProcessBodyDataGap ..)

theorem keepOS_txFinalize (cfg : Cfg) (uid : Nat) (c : Conn) : KeepOS c (txFinalize cfg uid c).1 := by
  unfold txFinalize
  cases c.findTx uid with
  | none => exact KeepOS.refl c
  | some t =>
    simp only
    split
    · exact KeepOS.refl c
    · apply keepOS_andThen
      · exact keepOS_runCallback ..
      · intro c1
        split
        · split
          · exact keepOS_of_keepSt (keepSt_destroyTx ..)
          · exact KeepOS.refl _
        · exact KeepOS.refl _

theorem keepOS_txStateRequestCompletePartial (cfg : Cfg) (uid : Nat) (c : Conn) : KeepOS c (txStateRequestCompletePartial cfg uid c).1 := by
  unfold txStateRequestCompletePartial
  simp only
  apply keepOS_andThen
  · split
    · exact keepOS_reqProcessBodyData ..
    · exact KeepOS.refl c
  · intro c1
    apply keepOS_andThen
    · exact (keepOS_modTx _ _ c1).trans (keepOS_runCallback ..)
    · intro c2
      apply keepOS_andThen
      · exact keepOS_reqReceiverFinalizeClear c2
      · intro c3; exact rfl

theorem keepOS_txCreate (cfg : Cfg) (c : Conn) : KeepOS c (txCreate cfg c).1 := by
  unfold txCreate
  simp only []
  split <;> exact rfl

theorem keepOS_processResponseHeader (d : Bytes) (c : Conn) : KeepOS c (processResponseHeader d c).1 :=
  by unfold processResponseHeader; simp only; exact (keepOS_modOut _ c).trans (keepOS_modOut _ _)

theorem keepOS_resFlushHeader (c : Conn) : KeepOS c (resFlushHeader c).1 := by
  unfold resFlushHeader
  cases c.out.header with
  | none => exact KeepOS.refl c
  | some h =>
    simp only
    have := keepOS_processResponseHeader h c
    split
    · exact this
    · exact this.trans rfl

theorem keepOS_txStateResponseLine (uid : Nat) (c : Conn) : KeepOS c (txStateResponseLine uid c).1 := by
  unfold txStateResponseLine
  simp only
  refine KeepOS.trans ?_ (keepOS_runCallback ..)
  split
  · exact keepOS_modTx ..
  · exact KeepOS.refl c

theorem keepOS_txStateResponseHeaders (cfg : Cfg) (uid : Nat) (c : Conn) : KeepOS c (txStateResponseHeaders cfg uid c).1 := by
  unfold txStateResponseHeaders
  rcases responseNeedsDecompressor cfg ((c.findTx uid).getD { uid := uid }) with ⟨enc, needs⟩
  simp only
  apply keepOS_andThen
  · exact KeepOS.trans (b := c.modTx uid _) rfl (keepOS_resReceiverFinalizeClear _)
  · intro c1
    apply keepOS_andThen
    · exact keepOS_runCallback ..
    · intro c2
      split
      · split
        · exact rfl
        · cases ceChain cfg ((getHeaderC ((c.findTx uid).getD { uid := uid }).resHeaders (b!"content-encoding")).map (·.value) |>.getD []) with
          | nil => exact rfl
          | cons ty rest => exact rfl
      · exact KeepOS.refl _

theorem keepOS_resRefusedConnect (t : Tx) (c : Conn) : KeepOS c (resRefusedConnect t c) := by
  unfold resRefusedConnect
  simp only []
  repeat' split
  all_goals exact rfl

theorem keepOS_resExpectShortcut (t : Tx) (c : Conn) : KeepOS c (resExpectShortcut t c) := by
  unfold resExpectShortcut
  repeat' split
  all_goals exact rfl


theorem keepOS_txStateRequestComplete (cfg : Cfg) (uid : Nat) (c : Conn) : KeepOS c (txStateRequestComplete cfg uid c).1 := by
  unfold txStateRequestComplete
  simp only
  apply keepOS_andThen
  · split
    · exact keepOS_txStateRequestCompletePartial ..
    · exact KeepOS.refl c
  · intro c1
    have h := keepOS_txFinalize cfg uid { c1 with inState := if ((c1.findTx uid).map (·.is09)).getD ((c.findTx uid).getD { uid := uid }).is09 then .ignoreDataAfter09 else .idle }
    exact (KeepOS.trans (b := { c1 with inState := if ((c1.findTx uid).map (·.is09)).getD ((c.findTx uid).getD { uid := uid }).is09 then .ignoreDataAfter09 else .idle }) rfl h).trans rfl

/-- a response state in which no body bytes are counted -/
def NotOwingO (s : ResState) : Prop := s ≠ .bodyIdentityClKnown ∧ s ≠ .bodyChunkedData

theorem owedPosO_of_notOwing {c : Conn} (h : NotOwingO c.outState) : OwedPosO c :=
  ⟨fun e => absurd e h.1, fun e => absurd e h.2⟩

theorem notOwingO_of_eq {c : Conn} {s : ResState} (h : c.outState = s) (hs : s ≠ .bodyIdentityClKnown ∧ s ≠ .bodyChunkedData) :
    NotOwingO c.outState := by rw [h]; exact hs

/-- `f` leaves the response state and the two amounts owed alone -/
def OwedSameO (c c' : Conn) : Prop :=
  c'.outState = c.outState ∧ c'.out.bodyDataLeft = c.out.bodyDataLeft ∧ c'.out.chunkedLength = c.out.chunkedLength

theorem OwedSameO.refl (c : Conn) : OwedSameO c c := ⟨rfl, rfl, rfl⟩
theorem OwedSameO.trans {a b c : Conn} (h1 : OwedSameO a b) (h2 : OwedSameO b c) : OwedSameO a c :=
  ⟨h2.1.trans h1.1, h2.2.1.trans h1.2.1, h2.2.2.trans h1.2.2⟩

theorem owedPosO_of_same {c c' : Conn} (s : OwedSameO c c') (h : OwedPosO c) : OwedPosO c' :=
  ⟨fun e => by rw [s.2.1]; exact h.1 (by rw [← s.1]; exact e), fun e => by rw [s.2.2]; exact h.2 (by rw [← s.1]; exact e)⟩

theorem owedSameO_runCallback (h : Hook) (uid : Option Nat) (data : Option Bytes) (l : Bool) (c : Conn) (g : Nat) (s : Bool) :
    OwedSameO c (runCallback h uid data l c g s).1 := by
  have f := frame_runCallback h uid data l c g s
  obtain ⟨_, _, _, hb, hc, _⟩ := f.out_fields
  exact ⟨keepOS_runCallback h uid data l c g s, hb, hc⟩

theorem owedSameO_andThen (c0 : Conn) (r : R) (f : Conn → R) (h1 : OwedSameO c0 r.1) (h2 : ∀ c, OwedSameO c (f c).1) :
    OwedSameO c0 (r >>? f).1 := by
  unfold R.andThen
  split
  · exact h1.trans (h2 _)
  · exact h1

theorem owedSameO_resReceiverSend (l : Bool) (c : Conn) : OwedSameO c (resReceiverSend l c).1 := by
  unfold resReceiverSend
  cases c.out.receiverHook with
  | none => exact OwedSameO.refl c
  | some h =>
    simp only
    apply owedSameO_andThen
    · exact owedSameO_runCallback ..
    · intro c2; exact ⟨rfl, rfl, rfl⟩

theorem owedSameO_resReceiverFinalizeClear (c : Conn) : OwedSameO c (resReceiverFinalizeClear c).1 := by
  unfold resReceiverFinalizeClear
  cases c.out.receiverHook with
  | none => exact OwedSameO.refl c
  | some h =>
    simp only
    exact (owedSameO_resReceiverSend true c).trans ⟨rfl, rfl, rfl⟩

theorem owedSameO_resReceiverSet (h : Hook) (c : Conn) : OwedSameO c (resReceiverSet h c).1 := by
  unfold resReceiverSet
  simp only
  exact (owedSameO_resReceiverFinalizeClear c).trans ⟨rfl, rfl, rfl⟩

theorem owedSameO_txStateResponseHeaders (cfg : Cfg) (uid : Nat) (c : Conn) : OwedSameO c (txStateResponseHeaders cfg uid c).1 := by
  unfold txStateResponseHeaders
  rcases responseNeedsDecompressor cfg ((c.findTx uid).getD { uid := uid }) with ⟨enc, needs⟩
  simp only
  apply owedSameO_andThen
  · exact OwedSameO.trans (b := c.modTx uid _) ⟨rfl, rfl, rfl⟩ (owedSameO_resReceiverFinalizeClear _)
  · intro c1
    apply owedSameO_andThen
    · exact owedSameO_runCallback ..
    · intro c2
      split
      · split
        · exact ⟨rfl, rfl, rfl⟩
        · cases ceChain cfg ((getHeaderC ((c.findTx uid).getD { uid := uid }).resHeaders (b!"content-encoding")).map (·.value) |>.getD []) with
          | nil => exact ⟨rfl, rfl, rfl⟩
          | cons ty rest => exact ⟨rfl, rfl, rfl⟩
      · exact OwedSameO.refl _

/-- the Content-Length arm of the framing decision enters the counted state only with a positive amount -/
theorem owed_resCl (cl ct : Option Parse.Header) (uid : Nat) (c : Conn) (h : NotOwingO c.outState) : OwedPosO (resCl cl ct uid c).1 := by
  unfold resCl
  cases cl with
  | some cl' =>
    simp only
    split
    · exact owedPosO_of_notOwing h
    · rename_i hneg
      split
      · rename_i hne
        refine ⟨fun _ => ?_, fun e => ?_⟩
        · show 0 < Num.parseContentLength cl'.value
          have hne' : Num.parseContentLength cl'.value ≠ 0 := by simpa using hne
          omega
        · have e' : ResState.bodyIdentityClKnown = ResState.bodyChunkedData := e
          exact absurd e' (by decide)
      · exact owedPosO_of_notOwing (notOwingO_of_eq (s := .finalize) rfl ⟨by decide, by decide⟩)
  | none =>
    cases ct with
    | none =>
      simp only [Bool.false_eq_true, if_false]
      exact owedPosO_of_notOwing (notOwingO_of_eq (s := .bodyIdentityStreamClose) rfl ⟨by decide, by decide⟩)
    | some ct' =>
      simp only
      split
      · exact owedPosO_of_notOwing h
      · exact owedPosO_of_notOwing (notOwingO_of_eq (s := .bodyIdentityStreamClose) rfl ⟨by decide, by decide⟩)

theorem owed_resFraming (te cl ct : Option Parse.Header) (uid : Nat) (c : Conn) (h : NotOwingO c.outState) :
    OwedPosO (resFraming te cl ct uid c).1 := by
  unfold resFraming
  repeat' split
  all_goals first
    | exact owedPosO_of_notOwing (notOwingO_of_eq (s := .bodyChunkedLength) rfl ⟨by decide, by decide⟩)
    | exact owed_resCl _ _ _ _ h

theorem owed_resFramingStep (uid : Nat) (t : Tx) (te cl : Option Parse.Header) (c : Conn) (h : NotOwingO c.outState) :
    OwedPosO (resFramingStep uid t te cl c).1 := by
  unfold resFramingStep
  split
  · simp only []
    apply owed_resFraming
    split
    · exact h
    · exact h
  · exact owedPosO_of_notOwing h

theorem st_resNoBody (uid : Nat) (t : Tx) (te cl : Option Parse.Header) (c : Conn) :
    (resNoBody uid t te cl c).outState = c.outState ∨ (resNoBody uid t te cl c).outState = .finalize := by
  unfold resNoBody
  repeat' split
  all_goals first | (left; rfl) | (right; rfl)

theorem owed_resBodyDetermineRest (cfg : Cfg) (uid : Nat) (t : Tx) (c : Conn) (hs : c.outState = .bodyDetermine) :
    OwedPosO (resBodyDetermineRest cfg uid t c).1 := by
  unfold resBodyDetermineRest
  extract_lets c1 cl te is100
  have k1 : c1.outState = .bodyDetermine := Eq.trans (keepOS_resRefusedConnect t c) hs
  clear_value c1 is100
  split
  · apply owedPosO_of_notOwing
    have ks := owedSameO_txStateResponseHeaders cfg uid (resSwitchTunnel c1)
    rw [ks.1]
    have : (resSwitchTunnel c1).outState = .finalize := by
      unfold resSwitchTunnel
      simp only []
      split <;> rfl
    exact notOwingO_of_eq this ⟨by decide, by decide⟩
  · split
    · exact owedPosO_of_notOwing (notOwingO_of_eq (s := .line) rfl ⟨by decide, by decide⟩)
    · have hx : NotOwingO (resNoBody uid t te cl (resExpectShortcut t c1)).outState := by
        rcases st_resNoBody uid t te cl (resExpectShortcut t c1) with h | h
        · rw [h, keepOS_resExpectShortcut t c1, k1]; exact ⟨by decide, by decide⟩
        · rw [h]; exact ⟨by decide, by decide⟩
      have hr := owed_resFramingStep uid t te cl _ hx
      generalize resFramingStep uid t te cl (resNoBody uid t te cl (resExpectShortcut t c1)) = r at hr ⊢
      unfold R.andThen
      split
      · exact owedPosO_of_same (owedSameO_txStateResponseHeaders cfg uid r.1) hr
      · exact hr

theorem owed_resBodyDetermine (cfg : Cfg) (c : Conn) (hs : c.outState = .bodyDetermine) : OwedPosO (resBodyDetermine cfg c).1 := by
  unfold resBodyDetermine
  cases c.out.tx with
  | none => exact owedPosO_of_notOwing (notOwingO_of_eq hs ⟨by decide, by decide⟩)
  | some uid =>
    simp only
    split
    · apply owedPosO_of_notOwing
      have ks := owedSameO_txStateResponseHeaders cfg uid { c with outState := .finalize }
      rw [ks.1]
      exact notOwingO_of_eq (c := { c with outState := .finalize }) (s := .finalize) rfl ⟨by decide, by decide⟩
    · exact owed_resBodyDetermineRest cfg uid _ c hs

theorem st_txStateResponseStart (uid : Nat) (c : Conn) :
    (txStateResponseStart uid c).1.outState = c.outState ∨ (txStateResponseStart uid c).1.outState = .line ∨
    (txStateResponseStart uid c).1.outState = .bodyIdentityStreamClose := by
  unfold txStateResponseStart
  simp only
  have k1 := keepOS_runCallback .responseStart (some uid) none false { c with out := { c.out with tx := some uid } } 0 false
  generalize runCallback .responseStart (some uid) none false { c with out := { c.out with tx := some uid } } 0 false = r at k1 ⊢
  unfold R.andThen
  split
  · simp only
    split
    · right; right; rfl
    · right; left; rfl
  · left; exact k1

theorem st_txStateResponseCompleteEx (cfg : Cfg) (uid : Nat) (c : Conn) :
    (txStateResponseCompleteEx cfg uid c).1.outState = c.outState ∨ (txStateResponseCompleteEx cfg uid c).1.outState = .idle := by
  unfold txStateResponseCompleteEx
  simp only
  have k1 : KeepOS c (if ((c.findTx uid).getD { uid := uid }).resProgress != 5 then
      (runCallback .responseComplete (some uid) none false
        (if ((c.findTx uid).getD { uid := uid }).resTransferCoding != CODING_NO_BODY then (resProcessBodyData cfg none (c.modTx uid (fun t => { t with resProgress := 5 }))).1
         else c.modTx uid (fun t => { t with resProgress := 5 })) >>? fun c => resReceiverFinalizeClear c)
      else (c, Rc.ok)).1 := by
    split
    · apply keepOS_andThen
      · refine KeepOS.trans ?_ (keepOS_runCallback ..)
        split
        · exact KeepOS.trans (b := c.modTx uid _) rfl (keepOS_resProcessBodyData ..)
        · rfl
      · intro c1; exact keepOS_resReceiverFinalizeClear _
    · exact KeepOS.refl c
  generalize (if ((c.findTx uid).getD { uid := uid }).resProgress != 5 then
      (runCallback .responseComplete (some uid) none false
        (if ((c.findTx uid).getD { uid := uid }).resTransferCoding != CODING_NO_BODY then (resProcessBodyData cfg none (c.modTx uid (fun t => { t with resProgress := 5 }))).1
         else c.modTx uid (fun t => { t with resProgress := 5 })) >>? fun c => resReceiverFinalizeClear c)
      else (c, Rc.ok)) = r at k1 ⊢
  unfold R.andThen
  split
  · simp only
    split
    · left; exact k1
    · split
      · left; exact k1
      · have k2 := keepOS_txFinalize cfg uid r.1
        generalize txFinalize cfg uid r.1 = r2 at k2 ⊢
        split
        · right; rfl
        · left; exact k1.trans k2
  · left; exact k1

theorem st_resIdleUnmatched (cfg : Cfg) (c : Conn) :
    (resIdleUnmatched cfg c).1.outState = c.outState ∨ (resIdleUnmatched cfg c).1.outState = .line ∨
    (resIdleUnmatched cfg c).1.outState = .bodyIdentityStreamClose := by
  unfold resIdleUnmatched
  have k := keepOS_txCreate cfg c
  rcases hx : txCreate cfg c with ⟨c2, u⟩
  rw [hx] at k
  simp only at k ⊢
  cases u with
  | none => left; exact k
  | some uid =>
    simp only
    rcases st_txStateResponseStart uid { ({ c2 with out := { c2.out with tx := some uid } }.modTx uid (fun t => { t with uriNorm := some { path := some REQUEST_URI_NOT_SEEN }, uri := some REQUEST_URI_NOT_SEEN })) with inState := .finalize, outNextTxIndex := ({ c2 with out := { c2.out with tx := some uid } }.modTx uid (fun t => { t with uriNorm := some { path := some REQUEST_URI_NOT_SEEN }, uri := some REQUEST_URI_NOT_SEEN })).outNextTxIndex + 1 } with h | h | h
    · left; rw [h]; exact k
    · right; left; exact h
    · right; right; exact h

theorem st_resIdle (cfg : Cfg) (c : Conn) :
    (resIdle cfg c).1.outState = c.outState ∨ (resIdle cfg c).1.outState = .line ∨ (resIdle cfg c).1.outState = .bodyIdentityStreamClose := by
  unfold resIdle
  split
  · left; rfl
  · simp only []
    split
    · have hk : KeepOS c (if c.inState == .finalize then (match c.inn.tx with | some uid => (txStateRequestComplete cfg uid c).1 | none => c) else c) := by
        split
        · split
          · exact keepOS_txStateRequestComplete ..
          · rfl
        · rfl
      generalize (if c.inState == .finalize then (match c.inn.tx with | some uid => (txStateRequestComplete cfg uid c).1 | none => c) else c) = c1 at hk ⊢
      rcases st_resIdleUnmatched cfg c1 with h | h | h
      · left; rw [h]; exact hk
      · right; left; exact h
      · right; right; exact h
    · rename_i t _
      rcases st_txStateResponseStart t.uid { c with outNextTxIndex := c.outNextTxIndex + 1, out := { c.out with tx := some t.uid, contentLength := -1, bodyDataLeft := -1 } } with h | h | h
      · left; rw [h]
      · right; left; exact h
      · right; right; exact h

theorem st_resLineAsBody (cfg : Cfg) (uid : Nat) (dn : Bool) (data line : Bytes) (cr : Nat) (c : Conn) :
    (resLineAsBody cfg uid dn data line cr c).1.outState = c.outState ∨ (resLineAsBody cfg uid dn data line cr c).1.outState = .finalize := by
  unfold resLineAsBody
  extract_lets nextIsH rd1 ln1 c1 c2 src c3
  have k3 : c3.outState = c.outState := rfl
  have k1 : c1.outState = c.outState := rfl
  clear_value c1 c3
  split
  · left; exact k1
  · have k := keepOS_resProcessBodyData cfg (if dn then none else some (data.take (line.length + cr))) c3
    rcases hx : resProcessBodyData cfg (if dn then none else some (data.take (line.length + cr))) c3 with ⟨c4, rc4⟩
    rw [hx] at k
    simp only at k ⊢
    split
    · left; exact Eq.trans k k3
    · split
      · right; rfl
      · left; exact Eq.trans k k3

theorem st_resLineComplete (cfg : Cfg) (uid : Nat) (closed : Bool) (c : Conn) :
    (resLineComplete cfg uid closed c).1.outState = c.outState ∨ (resLineComplete cfg uid closed c).1.outState = .finalize ∨
    (resLineComplete cfg uid closed c).1.outState = .headers := by
  unfold resLineComplete
  cases hc : c.out.consolidate cfg.fieldLimitHard false with
  | none => left; rfl
  | some q =>
    obtain ⟨d2, data⟩ := q
    simp -zeta only
    extract_lets dataNull c0 c1 c2 c3 rl c4
    have h3 : c3.outState = c.outState := rfl
    have h4 : c4.outState = c.outState := rfl
    have h2 : c2.outState = c.outState ∨ c2.outState = .finalize := by
      show c1.outState = c.outState ∨ c1.outState = .finalize
      simp only [c1]
      split
      · right; rfl
      · left; rfl
    clear_value c0 c1 c2 c3 c4 dataNull
    split
    · rcases h2 with h | h
      · left; exact h
      · right; left; exact h
    · split
      · rcases st_resLineAsBody cfg uid dataNull data (Parse.chomp data).1 (Parse.chomp data).2 c3 with h | h
        · left; rw [h, h3]
        · right; left; exact h
      · have k := keepOS_txStateResponseLine uid c4
        generalize txStateResponseLine uid c4 = r at k ⊢
        unfold R.andThen
        split
        · right; right; rfl
        · left; exact Eq.trans k h4

theorem st_resLineLoop (cfg : Cfg) (fuel : Nat) (c : Conn) :
    (resLineLoop cfg fuel c).1.outState = c.outState ∨ (resLineLoop cfg fuel c).1.outState = .finalize ∨
    (resLineLoop cfg fuel c).1.outState = .headers := by
  induction fuel generalizing c with
  | zero => unfold resLineLoop; left; rfl
  | succ k ih =>
    unfold resLineLoop
    cases c.out.tx with
    | none => left; rfl
    | some uid =>
      simp only
      split
      · left; rfl
      · rename_i c1 h1
        have e1 : c1.outState = c.outState := by
          split at h1
          · cases hcb : c.out.copyByte with
            | none => rw [hcb] at h1; simp at h1
            | some p =>
              obtain ⟨d, b⟩ := p
              rw [hcb] at h1
              simp only [Option.some.injEq] at h1
              rw [← h1]
          · simp only [Option.some.injEq] at h1; rw [← h1]
        split
        · left; exact e1
        · rename_i c2 h2
          have e2 : c2.outState = c.outState := by
            split at h2
            · simp only [Dir.peekSet] at h2
              cases hp : c1.out.peek with
              | none => rw [hp] at h2; simp at h2
              | some b =>
                rw [hp] at h2
                simp only at h2
                split at h2
                · simp only [Except.ok.injEq, Prod.mk.injEq] at h2; rw [← h2.1]; exact e1
                · simp only [Except.ok.injEq, Prod.mk.injEq] at h2; simp at h2
            · simp only [Except.ok.injEq, Prod.mk.injEq] at h2; simp at h2
          rcases ih c2 with h | h | h
          · left; rw [h, e2]
          · right; left; exact h
          · right; right; exact h
        · rename_i c2 h2
          have e2 : c2.outState = c.outState := by
            split at h2
            · simp only [Dir.peekSet] at h2
              cases hp : c1.out.peek with
              | none => rw [hp] at h2; simp at h2
              | some b =>
                rw [hp] at h2
                simp only at h2
                split at h2
                · simp only [Except.ok.injEq, Prod.mk.injEq] at h2; simp at h2
                · simp only [Except.ok.injEq, Prod.mk.injEq] at h2; rw [← h2.1]; exact e1
            · simp only [Except.ok.injEq, Prod.mk.injEq] at h2; rw [← h2.1]; exact e1
          split
          · rcases ih c2 with h | h | h
            · left; rw [h, e2]
            · right; left; exact h
            · right; right; exact h
          · rcases st_resLineComplete cfg uid (c.out.status == STREAM_CLOSED) c2 with h | h | h
            · left; rw [h, e2]
            · right; left; exact h
            · right; right; exact h

theorem eol_outState (b : UInt8) (lfcr : Bool) (c : Conn) :
    ∀ c2 l e a, resHeadersEol b lfcr c = .ok (c2, l, e, a) → c2.outState = c.outState := by
  intro c2 l e a h
  unfold resHeadersEol at h
  simp only [] at h
  repeat' split at h
  all_goals first
    | (simp only [Except.ok.injEq, Prod.mk.injEq] at h; rw [← h.1])
    | (simp at h)

theorem keepOS_resHeaderLine (uid : Nat) (line : Bytes) (c : Conn) : (resHeaderLine uid line c).1.outState = c.outState := by
  unfold resHeaderLine
  split
  · have hs := keepOS_resFlushHeader c
    rcases hx : resFlushHeader c with ⟨c1, rc1⟩
    rw [hx] at hs
    simp only at hs
    unfold R.andThen
    simp only
    split
    · simp only [Dir.peekSet]
      obtain hp | ⟨b, hp⟩ : c1.out.peek = none ∨ ∃ b, c1.out.peek = some b := by cases c1.out.peek <;> simp
      · simp only [hp, Bool.not_true, Bool.false_eq_true, if_false]
        exact hs
      · simp only [hp]
        by_cases hf : isFoldingChar b = true
        · simp only [hf, Bool.not_true, Bool.false_eq_true, if_false]
          exact hs
        · simp only [hf, Bool.not_false, if_true]
          have e := keepOS_processResponseHeader line { c1 with out := { c1.out with nextByte := (b.toNat : Int) } }
          rcases hy : processResponseHeader line { c1 with out := { c1.out with nextByte := (b.toNat : Int) } } with ⟨c2, rc2⟩
          rw [hy] at e
          simp only at e ⊢
          split
          · exact Eq.trans e hs
          · exact Eq.trans e hs
    · exact hs
  · cases c.out.header with
    | none => rfl
    | some h =>
      simp only
      split
      · have e := keepOS_processResponseHeader h (c.modTx uid fun t => { t with flags := t.flags ||| INVALID_FOLDING })
        rcases hy : processResponseHeader h (c.modTx uid fun t => { t with flags := t.flags ||| INVALID_FOLDING }) with ⟨c2, rc2⟩
        rw [hy] at e
        simp only at e ⊢
        split
        · exact e
        · exact e
      · split
        · rfl
        · rfl

theorem st_resHeadersLoop (cfg : Cfg) (fuel : Nat) (lfcr : Bool) (c : Conn) :
    (resHeadersLoop cfg fuel lfcr c).1.outState = c.outState ∨ (resHeadersLoop cfg fuel lfcr c).1.outState = .finalize ∨
    (resHeadersLoop cfg fuel lfcr c).1.outState = .bodyDetermine := by
  induction fuel generalizing c lfcr with
  | zero => unfold resHeadersLoop; left; rfl
  | succ k ih =>
    unfold resHeadersLoop
    cases c.out.tx with
    | none => left; rfl
    | some uid =>
      simp only
      have trailer : ∀ (c0 : Conn), c0.outState = c.outState →
          ((resReceiverFinalizeClear c0 >>? fun c => runCallback .responseTrailer (some uid) none false c >>? fun c => ({ c with outState := .finalize }, Rc.ok)).1.outState = c.outState ∨
           (resReceiverFinalizeClear c0 >>? fun c => runCallback .responseTrailer (some uid) none false c >>? fun c => ({ c with outState := .finalize }, Rc.ok)).1.outState = .finalize) := by
        intro c0 h0
        have k1 := keepOS_resReceiverFinalizeClear c0
        generalize resReceiverFinalizeClear c0 = r1 at k1 ⊢
        unfold R.andThen
        split
        · simp only
          have k2 := keepOS_runCallback .responseTrailer (some uid) none false r1.1 0 false
          generalize runCallback .responseTrailer (some uid) none false r1.1 0 false = r2 at k2 ⊢
          split
          · right; rfl
          · left; exact Eq.trans k2 (Eq.trans k1 h0)
        · left; exact Eq.trans k1 h0
      split
      · rcases trailer c rfl with h | h
        · left; exact h
        · right; left; exact h
      · cases hn : c.out.copyByte with
        | none => left; rfl
        | some p =>
          obtain ⟨d, b⟩ := p
          simp only
          split
          · exact ih _ _
          · have he := eol_outState b lfcr { c with out := d }
            split
            · left; rfl
            · rename_i heq
              have e2 := he _ _ _ _ heq
              rcases ih _ _ with h | h | h
              · left; rw [h, e2]
              · right; left; exact h
              · right; right; exact h
            · rename_i c2 lfcr2 ecr2 heq
              have e2 : c2.outState = c.outState := he _ _ _ _ heq
              cases hc : c2.out.consolidate cfg.fieldLimitHard false with
              | none => left; exact e2
              | some q =>
                obtain ⟨d2, data⟩ := q
                simp only
                split
                · rcases ih lfcr2 { c2 with out := d2 } with h | h | h
                  · left; rw [h]; exact e2
                  · right; left; exact h
                  · right; right; exact h
                · split
                  · have k1 := keepOS_resFlushHeader { c2 with out := d2 }
                    generalize resFlushHeader { c2 with out := d2 } = r1 at k1 ⊢
                    have e1 : r1.1.outState = c.outState := Eq.trans k1 e2
                    unfold R.andThen
                    split
                    · simp only
                      split
                      · right; right; rfl
                      · rcases trailer { r1.1 with out := r1.1.out.clearBuffer } e1 with h | h
                        · left; exact h
                        · right; left; exact h
                    · left; exact e1
                  · have k1 := keepOS_resHeaderLine uid (Parse.chomp data).1 { c2 with out := d2 }
                    generalize resHeaderLine uid (Parse.chomp data).1 { c2 with out := d2 } = r1 at k1 ⊢
                    have e1 : r1.1.outState = c.outState := Eq.trans k1 e2
                    unfold R.andThen
                    split
                    · rcases ih lfcr2 { r1.1 with out := r1.1.out.clearBuffer } with h | h | h
                      · left; rw [h]; exact e1
                      · right; left; exact h
                      · right; right; exact h
                    · left; exact e1

theorem st_resBodyIdentityStreamClose (cfg : Cfg) (c : Conn) :
    (resBodyIdentityStreamClose cfg c).1.outState = c.outState ∨ (resBodyIdentityStreamClose cfg c).1.outState = .finalize := by
  unfold resBodyIdentityStreamClose
  extract_lets n data r
  have hr : r.1.outState = c.outState := by
    simp only [r]
    split
    · have k := keepOS_resProcessBodyDataGap cfg data (if c.out.curNull then n.toNat else 0) c
      rcases hx : resBodyIdentityClKnown.resProcessBodyDataGap cfg data (if c.out.curNull then n.toNat else 0) c with ⟨c1, rc1⟩
      rw [hx] at k
      simp only at k ⊢
      split
      · exact k
      · exact k
    · rfl
  clear_value r
  unfold R.andThen
  split
  · simp only
    split
    · right; rfl
    · left; exact hr
  · left; exact hr

theorem st_resChunkedDataEndLoop (fuel : Nat) (c : Conn) :
    (resChunkedDataEndLoop fuel c).1.outState = c.outState ∨ (resChunkedDataEndLoop fuel c).1.outState = .bodyChunkedLength := by
  induction fuel generalizing c with
  | zero => unfold resChunkedDataEndLoop; left; rfl
  | succ k ih =>
    unfold resChunkedDataEndLoop
    cases hn : c.out.nextByteConsume with
    | none => left; rfl
    | some p =>
      obtain ⟨d, b⟩ := p
      simp only
      have k1 : ({ c with out := d }.modOut (fun t => { t with resMessageLen := t.resMessageLen + 1 })).outState = c.outState := keepOS_modOut _ { c with out := d }
      split
      · right; rfl
      · rcases ih ({ c with out := d }.modOut (fun t => { t with resMessageLen := t.resMessageLen + 1 })) with h | h
        · left; rw [h, k1]
        · right; exact h

theorem st_resFinalize (cfg : Cfg) (c : Conn) :
    (resFinalize cfg c).1.outState = c.outState ∨ (resFinalize cfg c).1.outState = .idle := by
  unfold resFinalize
  cases c.out.tx with
  | none => left; rfl
  | some uid =>
    simp -zeta only
    extract_lets cp pre
    have hp : ∀ c' b, pre = some (c', b) → c'.outState = c.outState := by
      intro c' b hpre
      simp only [pre] at hpre
      split at hpre
      · split at hpre
        · simp only [Option.some.injEq, Prod.mk.injEq] at hpre; rw [← hpre.1]
        · split at hpre
          · split at hpre
            · simp at hpre
            · simp only [Option.some.injEq, Prod.mk.injEq] at hpre
              rw [← hpre.1]
          · simp only [Option.some.injEq, Prod.mk.injEq] at hpre; rw [← hpre.1]
      · simp only [Option.some.injEq, Prod.mk.injEq] at hpre; rw [← hpre.1]
    clear_value pre
    have viaComplete : ∀ c' : Conn, c'.outState = c.outState →
        ((txStateResponseCompleteEx cfg uid c').1.outState = c.outState ∨ (txStateResponseCompleteEx cfg uid c').1.outState = .idle) := by
      intro c' h'
      rcases st_txStateResponseCompleteEx cfg uid c' with h | h
      · left; rw [h, h']
      · right; exact h
    split
    · left; rfl
    · rename_i _ c1
      exact viaComplete c1 (hp _ _ rfl)
    · rename_i _ c1
      have h1 := hp _ _ rfl
      clear hp
      cases hc : c1.out.consolidate cfg.fieldLimitHard false with
      | none => left; exact h1
      | some q =>
        obtain ⟨d2, data⟩ := q
        simp -zeta only
        extract_lets dataNull c2 rd keep buf cs
        have h2 : c2.outState = c.outState := h1
        clear_value c2 dataNull
        split
        · exact viaComplete c2 h2
        · split
          · have k := keepOS_resProcessBodyData cfg (some data) c2
            rcases hx : resProcessBodyData cfg (some data) c2 with ⟨c3, rc3⟩
            rw [hx] at k
            simp only at k ⊢
            left
            show c3.outState = c.outState
            rw [k, h2]
          · exact viaComplete _ h2

/-- RES_BODY_IDENTITY_CL_KNOWN, whatever it answers -/
theorem owed_resBodyIdentityClKnown (cfg : Cfg) (c : Conn) (h : OwedPosO c) (hs : c.outState = .bodyIdentityClKnown) :
    OwedPosO (resBodyIdentityClKnown cfg c).1 := by
  have hpos := h.1 hs
  unfold resBodyIdentityClKnown
  extract_lets avail n cfin data
  have hn1 : n ≤ c.out.bodyDataLeft := by
    simp only [n, avail]
    split <;> omega
  clear_value n data
  split
  · apply owedPosO_of_notOwing
    rw [keepOS_resProcessBodyData cfg none cfin]
    exact notOwingO_of_eq (c := cfin) (s := .finalize) rfl ⟨by decide, by decide⟩
  · split
    · exact h
    · have k := keepOS_resProcessBodyDataGap cfg data (if c.out.curNull then n.toNat else 0) c
      have f := frame_resProcessBodyDataGap cfg data (if c.out.curNull then n.toNat else 0) c
      obtain ⟨_, _, _, hb, hcl, _⟩ := f.out_fields
      rcases hx : resBodyIdentityClKnown.resProcessBodyDataGap cfg data (if c.out.curNull then n.toNat else 0) c with ⟨c1, rc1⟩
      rw [hx] at k hb hcl
      simp only at k hb hcl ⊢
      split
      · exact ⟨fun _ => by rw [hb]; exact hpos, fun e => absurd ((Eq.trans k hs).symm.trans e) (by decide)⟩
      · split
        · apply owedPosO_of_notOwing
          rw [keepOS_resProcessBodyData cfg none _]
          exact notOwingO_of_eq (c := { { c1 with out := { c1.out.advance n with bodyDataLeft := c1.out.bodyDataLeft - n } } with outState := .finalize }) (s := .finalize) rfl ⟨by decide, by decide⟩
        · rename_i hz
          refine ⟨fun _ => ?_, fun e => ?_⟩
          · show 0 < c1.out.bodyDataLeft - n
            have hz' : ¬ (c1.out.bodyDataLeft - n = 0) := by
              intro e0
              apply hz
              show (c1.out.bodyDataLeft - n == 0) = true
              rw [e0]; rfl
            rw [hb] at hz' ⊢
            omega
          · have e' : c1.outState = ResState.bodyChunkedData := e
            rw [k, hs] at e'
            exact absurd e' (by decide)

/-- RES_BODY_CHUNKED_DATA, whatever it answers -/
theorem owed_resBodyChunkedData (cfg : Cfg) (c : Conn) (h : OwedPosO c) (hs : c.outState = .bodyChunkedData) :
    OwedPosO (resBodyChunkedData cfg c).1 := by
  have hpos := h.2 hs
  unfold resBodyChunkedData
  extract_lets avail n data
  have hn1 : n ≤ c.out.chunkedLength := by
    simp only [n, avail]
    split <;> omega
  clear_value n data
  split
  · exact h
  · have k := keepOS_resProcessBodyData cfg (some data) c
    have f := frame_resProcessBodyData cfg (some data) c
    obtain ⟨_, _, _, hb, hcl, _⟩ := f.out_fields
    rcases hx : resProcessBodyData cfg (some data) c with ⟨c1, rc1⟩
    rw [hx] at k hb hcl
    simp only at k hb hcl ⊢
    split
    · exact ⟨fun e => absurd ((Eq.trans k hs).symm.trans e) (by decide), fun _ => by rw [hcl]; exact hpos⟩
    · split
      · exact owedPosO_of_notOwing (notOwingO_of_eq (s := .bodyChunkedDataEnd) rfl ⟨by decide, by decide⟩)
      · rename_i hz
        refine ⟨fun e => ?_, fun _ => ?_⟩
        · have e' : c1.outState = ResState.bodyIdentityClKnown := e
          rw [k, hs] at e'
          exact absurd e' (by decide)
        · show 0 < c1.out.chunkedLength - n
          have hz' : ¬ (c1.out.chunkedLength - n = 0) := by
            intro e0
            apply hz
            show (c1.out.chunkedLength - n == 0) = true
            rw [e0]; rfl
          rw [hcl] at hz' ⊢
          omega

/-- RES_BODY_CHUNKED_LENGTH enters the chunk-data state only with a positive chunk length -/
theorem owed_resChunkedLengthLoop (cfg : Cfg) (fuel : Nat) (c : Conn) (hs : c.outState = .bodyChunkedLength) :
    OwedPosO (resChunkedLengthLoop cfg fuel c).1 := by
  induction fuel generalizing c with
  | zero => unfold resChunkedLengthLoop; exact owedPosO_of_notOwing (notOwingO_of_eq hs ⟨by decide, by decide⟩)
  | succ k ih =>
    unfold resChunkedLengthLoop
    cases hn : c.out.copyByte with
    | none => exact owedPosO_of_notOwing (notOwingO_of_eq hs ⟨by decide, by decide⟩)
    | some p =>
      obtain ⟨d, b⟩ := p
      simp -zeta only
      extract_lets c0
      have h0 : c0.outState = .bodyChunkedLength := hs
      clear_value c0
      split
      · exact ih _ h0
      · cases hc : c0.out.consolidate cfg.fieldLimitHard false with
        | none => exact owedPosO_of_notOwing (notOwingO_of_eq h0 ⟨by decide, by decide⟩)
        | some q =>
          obtain ⟨d2, data⟩ := q
          simp -zeta only
          extract_lets c1 s1 c2 s2 rd c3 c4
          have h1 : c1.outState = .bodyChunkedLength := Eq.trans (keepOS_modOut _ { c0 with out := d2 }) h0
          have h2 : c2.outState = .bodyChunkedLength := h1
          have h4 : c4.outState = .bodyChunkedLength := h2
          have h3 : c3.outState = .bodyIdentityStreamClose := rfl
          have hcl4 : c4.out.chunkedLength = (Num.parseChunkedLength data).1 := rfl
          clear_value c1 c2 c3 c4
          split
          · apply ih
            exact h2
          · split
            · exact owedPosO_of_notOwing (notOwingO_of_eq (s := .bodyIdentityStreamClose) (Eq.trans (keepOS_modOut _ c3) h3) ⟨by decide, by decide⟩)
            · split
              · rename_i hpos
                refine ⟨fun e => ?_, fun _ => ?_⟩
                · have e' : ResState.bodyChunkedData = ResState.bodyIdentityClKnown := e
                  exact absurd e' (by decide)
                · show 0 < c4.out.chunkedLength
                  rw [hcl4]; exact hpos
              · exact owedPosO_of_notOwing (notOwingO_of_eq (s := .headers) (keepOS_modOut _ { c4 with outState := .headers }) ⟨by decide, by decide⟩)

theorem owedPosO_resHandleStateChange (c : Conn) (h : OwedPosO c) : OwedPosO (resHandleStateChange c).1 := by
  unfold resHandleStateChange
  split
  · exact h
  · simp only
    have key : ∀ (r : R), OwedSameO c r.1 → OwedSameO c (r >>? fun c => ({ c with outStatePrev := some c.outState }, Rc.ok)).1 := by
      intro r hr
      unfold R.andThen
      split
      · exact hr.trans ⟨rfl, rfl, rfl⟩
      · exact hr
    refine owedPosO_of_same (key _ ?_) h
    repeat' split
    all_goals first | exact OwedSameO.refl c | exact owedSameO_resReceiverSet _ c

/-- **one pass of the response loop keeps the counted body states owing bytes, whatever it answers** - with no outside fact at all: the
    Content-Length arm refuses a negative number and enters the counted state only for a non-zero one, the chunk-length state only for a
    positive chunk length -/
theorem owedPosO_resStateFn (cfg : Cfg) (c : Conn) (h : OwedPosO c) : OwedPosO (resStateFn cfg c).1 := by
  unfold resStateFn
  cases hs : c.outState with
  | idle =>
    simp only
    rcases st_resIdle cfg c with h1 | h1 | h1
    · exact owedPosO_of_notOwing (notOwingO_of_eq (h1.trans hs) ⟨by decide, by decide⟩)
    · exact owedPosO_of_notOwing (notOwingO_of_eq h1 ⟨by decide, by decide⟩)
    · exact owedPosO_of_notOwing (notOwingO_of_eq h1 ⟨by decide, by decide⟩)
  | line =>
    simp only
    rcases st_resLineLoop cfg ((c.out.len - c.out.read).toNat + 3) c with h1 | h1 | h1
    · exact owedPosO_of_notOwing (notOwingO_of_eq (h1.trans hs) ⟨by decide, by decide⟩)
    · exact owedPosO_of_notOwing (notOwingO_of_eq h1 ⟨by decide, by decide⟩)
    · exact owedPosO_of_notOwing (notOwingO_of_eq h1 ⟨by decide, by decide⟩)
  | headers =>
    simp only
    rcases st_resHeadersLoop cfg ((c.out.len - c.out.read).toNat + 3) false c with h1 | h1 | h1
    · exact owedPosO_of_notOwing (notOwingO_of_eq (h1.trans hs) ⟨by decide, by decide⟩)
    · exact owedPosO_of_notOwing (notOwingO_of_eq h1 ⟨by decide, by decide⟩)
    · exact owedPosO_of_notOwing (notOwingO_of_eq h1 ⟨by decide, by decide⟩)
  | bodyDetermine => simp only; exact owed_resBodyDetermine cfg c hs
  | bodyIdentityClKnown => simp only; exact owed_resBodyIdentityClKnown cfg c h hs
  | bodyIdentityStreamClose =>
    simp only
    rcases st_resBodyIdentityStreamClose cfg c with h1 | h1
    · exact owedPosO_of_notOwing (notOwingO_of_eq (h1.trans hs) ⟨by decide, by decide⟩)
    · exact owedPosO_of_notOwing (notOwingO_of_eq h1 ⟨by decide, by decide⟩)
  | bodyChunkedLength => simp only; exact owed_resChunkedLengthLoop cfg _ c hs
  | bodyChunkedData => simp only; exact owed_resBodyChunkedData cfg c h hs
  | bodyChunkedDataEnd =>
    simp only
    rcases st_resChunkedDataEndLoop ((c.out.len - c.out.read).toNat + 2) c with h1 | h1
    · exact owedPosO_of_notOwing (notOwingO_of_eq (h1.trans hs) ⟨by decide, by decide⟩)
    · exact owedPosO_of_notOwing (notOwingO_of_eq h1 ⟨by decide, by decide⟩)
  | finalize =>
    simp only
    rcases st_resFinalize cfg c with h1 | h1
    · exact owedPosO_of_notOwing (notOwingO_of_eq (h1.trans hs) ⟨by decide, by decide⟩)
    · exact owedPosO_of_notOwing (notOwingO_of_eq h1 ⟨by decide, by decide⟩)

/-- **the counted response body states owe bytes in every pass of a call that starts so** -/
theorem owedPosO_along_call (cfg : Cfg) (c0 : Conn) (h0 : OwedPosO c0) : ∀ c', CallReachO cfg c0 c' → OwedPosO c' := by
  intro c' hr
  induction hr with
  | start => exact h0
  | step c1 _ _ _ _ ih => exact owedPosO_resHandleStateChange _ (owedPosO_resStateFn cfg c1 ih)

theorem owedPosO_resStoreChunk (d : Bytes) (c : Conn) (h : OwedPosO c) : OwedPosO (resStoreChunk (some d) d.length c) :=
  ⟨fun e => h.1 e, fun e => h.2 e⟩

/-- **DATA means the whole chunk was consumed, whole response data call, from a state invariant and nothing else**: the line buffer within the
    limit and the counted body states owing bytes when the call starts -/
theorem resData_data_consumed_inv (cfg : Cfg) (d : Bytes) (c : Conn) (hs : (d.length : Int) < 18446744073709551616)
    (hb : outBufLen c ≤ cfg.fieldLimitHard) (h0 : OwedPosO c)
    (hdata : (resData cfg (some d) d.length c).2 = STREAM_DATA) :
    (resData cfg (some d) d.length c).1.out.read = (resData cfg (some d) d.length c).1.out.len :=
  resData_data_consumed cfg d c hs hb (owedPosO_along_call cfg _ (owedPosO_resStoreChunk d c h0)) hdata

/-- **the counted body states owe bytes at the end of the call's loop as well** (so, with the line-buffer bound, `OwedPosO` is carried from one
    request data call to the next) -/
theorem resDriverLoop_owedPosO (cfg : Cfg) (fuel : Nat) (c0 c : Conn) (hr : CallReachO cfg c0 c) (h : OwedPosO c) :
    OwedPosO (resDriverLoop cfg false fuel c).1 := by
  induction fuel generalizing c with
  | zero => unfold resDriverLoop; exact ⟨fun e => h.1 e, fun e => h.2 e⟩
  | succ k ih =>
    have hs := owedPosO_resStateFn cfg c h
    unfold resDriverLoop
    simp only [Bool.false_eq_true, if_false]
    have hstep := CallReachO.step c hr
    rcases hx : resStateFn cfg c with ⟨c1, rc1⟩
    rw [hx] at hs hstep
    simp only at hs hstep ⊢
    have tail : ∀ (c2 : Conn) (rc2 : Rc), OwedPosO c2 →
        OwedPosO
          (if (rc2 == Rc.data || rc2 == Rc.dataBuffer) = true then
            (match resReceiverSend false c2 with
             | (c, _) =>
               if (rc2 == Rc.dataBuffer) = true then
                 (match c.out.buffer cfg.fieldLimitHard false with
                  | none => (({ c with out := { c.out with status := STREAM_ERROR } }, STREAM_ERROR) : Conn × Nat)
                  | some d => ({ c with out := { d with status := STREAM_DATA } }, STREAM_DATA))
               else ({ c with out := { c.out with status := STREAM_DATA } }, STREAM_DATA))
          else if (rc2 == Rc.stop) = true then ({ c2 with out := { c2.out with status := STREAM_STOP } }, STREAM_STOP)
          else if (rc2 == Rc.dataOther) = true then
            (if c2.out.read ≥ c2.out.len then ({ c2 with out := { c2.out with status := STREAM_DATA } }, STREAM_DATA)
             else ({ c2 with out := { c2.out with status := STREAM_DATA_OTHER } }, STREAM_DATA_OTHER))
          else ({ c2 with out := { c2.out with status := STREAM_ERROR } }, STREAM_ERROR)).1 := by
      intro c2 rc2 h2
      split
      · have kk := owedSameO_resReceiverSend false c2
        rcases hz : resReceiverSend false c2 with ⟨c3, rc3⟩
        rw [hz] at kk
        simp only at kk ⊢
        have h3 := owedPosO_of_same kk h2
        split
        · cases hb : c3.out.buffer cfg.fieldLimitHard false with
          | none => exact ⟨fun e => h3.1 e, fun e => h3.2 e⟩
          | some d =>
            obtain ⟨e1, e2⟩ := buffer_owedFields _ _ _ _ hb
            exact ⟨fun e => by show 0 < d.bodyDataLeft; rw [e1]; exact h3.1 e, fun e => by show 0 < d.chunkedLength; rw [e2]; exact h3.2 e⟩
        · exact ⟨fun e => h3.1 e, fun e => h3.2 e⟩
      · repeat' split
        all_goals exact ⟨fun e => h2.1 e, fun e => h2.2 e⟩
    by_cases hd : rc1 = Rc.ok
    · subst hd
      simp only [beq_self_eq_true, if_true]
      by_cases ht : (c1.out.status == STREAM_TUNNEL) = true
      · simp only [ht, if_true, beq_self_eq_true]
        exact hs
      · have ht' : (c1.out.status == STREAM_TUNNEL) = false := by simpa using ht
        simp only [ht', Bool.false_eq_true, if_false]
        have wh := owedPosO_resHandleStateChange c1 hs
        have hstep2 := hstep rfl ht'
        rcases hy : resHandleStateChange c1 with ⟨c2, rc2⟩
        rw [hy] at wh hstep2
        simp only at wh hstep2 ⊢
        by_cases h2 : rc2 = Rc.ok
        · subst h2
          simp only [beq_self_eq_true, if_true]
          split
          · exact wh
          · exact ih c2 (hstep2 rfl) wh
        · have hnok : (rc2 == Rc.ok) = false := by cases rc2 <;> simp_all
          simp only [hnok, Bool.false_eq_true, if_false]
          exact tail c2 rc2 wh
    · have hnok : (rc1 == Rc.ok) = false := by cases rc1 <;> simp_all
      simp only [hnok, Bool.false_eq_true, if_false]
      exact tail c1 rc1 hs


/-- **a response-direction call invariant**: the line buffer within the hard limit and the counted body states owing bytes hold again when
    htp_connp_res_data returns, for any chunk of data and any callback policy - no outside fact -/
theorem resData_invariant (cfg : Cfg) (d : Bytes) (c : Conn) (hs : (d.length : Int) < 18446744073709551616)
    (hb : outBufLen c ≤ cfg.fieldLimitHard) (h0 : OwedPosO c) :
    outBufLen (resData cfg (some d) d.length c).1 ≤ cfg.fieldLimitHard ∧ OwedPosO (resData cfg (some d) d.length c).1 := by
  have hstore := owedPosO_resStoreChunk d c h0
  have hall := owedPosO_along_call cfg _ hstore
  refine ⟨resData_buffer_bounded cfg d c hs hb (fun c' hr => owedOKO_of_pos (hall c' hr)), ?_⟩
  unfold resData
  simp only
  have key : OwedPosO (resDataCore cfg (some d) d.length c).1 := by
    unfold resDataCore
    split
    · exact h0
    split
    · exact h0
    split
    · exact ⟨fun e => h0.1 e, fun e => h0.2 e⟩
    split
    · exact h0
    simp only
    split
    · exact hstore
    · exact resDriverLoop_owedPosO cfg _ _ _ CallReachO.start hstore
  exact ⟨fun e => key.1 e, fun e => key.2 e⟩

end Htp.Conn
