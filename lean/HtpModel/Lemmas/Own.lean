/- Helper lemmas for the ownership model (C18). -/
import HtpModel.Own
namespace Htp.Own

theorem tick_fields (h : H) : h.tick.1.next = h.next ∧ h.tick.1.live = h.live ∧ h.tick.1.bad = h.bad ∧ h.tick.1.trace = h.trace := by
  unfold H.tick
  split <;> exact ⟨rfl, rfl, rfl, rfl⟩

/-- the list owns exactly the two live blocks -/
structure ListInv (h : H) (l : L) : Prop where
  live : h.live = [l.elems, l.struct]
  lt1 : l.struct < l.elems
  lt2 : l.elems < h.next
  ok : h.bad = false

theorem alloc_none (h h' : H) (e : h.alloc = (h', none)) : h'.live = h.live ∧ h'.next = h.next ∧ h'.bad = h.bad := by
  unfold H.alloc at e
  have t := tick_fields h
  cases ht : h.tick with
  | mk h1 f =>
    rw [ht] at e t
    simp only at e t
    cases f with
    | true => simp only [if_true, Prod.mk.injEq] at e; obtain ⟨e1, _⟩ := e; subst e1; exact ⟨t.2.1, t.1, t.2.2.1⟩
    | false => simp at e

theorem alloc_some (h h' : H) (i : Nat) (e : h.alloc = (h', some i)) :
    i = h.next ∧ h'.live = h.next :: h.live ∧ h'.next = h.next + 1 ∧ h'.bad = h.bad := by
  unfold H.alloc at e
  have t := tick_fields h
  cases ht : h.tick with
  | mk h1 f =>
    rw [ht] at e t
    simp only at e t
    cases f with
    | true => simp at e
    | false =>
      simp only [Bool.false_eq_true, if_false, Prod.mk.injEq, Option.some.injEq] at e
      obtain ⟨e1, e2⟩ := e
      subst e1
      exact ⟨by rw [← e2, t.1], by simp [t.1, t.2.1], by simp [t.1], t.2.2.1⟩

theorem listCreate_inv (cap : Nat) (h h' : H) (l : L) (hl : h.live = []) (hb : h.bad = false) (e : listCreate cap h = (h', some l)) :
    ListInv h' l := by
  unfold listCreate at e
  cases e1 : h.alloc with
  | mk h1 o1 =>
    rw [e1] at e
    cases o1 with
    | none => simp at e
    | some s =>
      simp only at e
      have a1 := alloc_some h h1 s e1
      cases e2 : h1.alloc with
      | mk h2 o2 =>
        rw [e2] at e
        cases o2 with
        | none => simp at e
        | some el =>
          simp only [Prod.mk.injEq, Option.some.injEq] at e
          obtain ⟨eh, elq⟩ := e
          subst eh
          have a2 := alloc_some h1 h2 el e2
          subst elq
          refine ⟨?_, ?_, ?_, ?_⟩
          · simp [a2.2.1, a1.2.1, hl, a2.1, a1.1, a1.2.2.1]
          · simp [a2.1, a1.1, a1.2.2.1]
          · simp [a2.1, a2.2.2.1]
          · rw [a2.2.2.2, a1.2.2.2, hb]

theorem listCreate_none (cap : Nat) (h h' : H) (hl : h.live = []) (hb : h.bad = false) (e : listCreate cap h = (h', none)) :
    h'.live = [] ∧ h'.bad = false := by
  unfold listCreate at e
  cases e1 : h.alloc with
  | mk h1 o1 =>
    rw [e1] at e
    cases o1 with
    | none =>
      simp only [Prod.mk.injEq] at e
      obtain ⟨eh, _⟩ := e
      subst eh
      have a := alloc_none h h1 e1
      exact ⟨by rw [a.1, hl], by rw [a.2.2, hb]⟩
    | some s =>
      simp only at e
      have a1 := alloc_some h h1 s e1
      cases e2 : h1.alloc with
      | mk h2 o2 =>
        rw [e2] at e
        cases o2 with
        | some el => simp at e
        | none =>
          simp only [Prod.mk.injEq] at e
          obtain ⟨eh, _⟩ := e
          subst eh
          have a2 := alloc_none h1 h2 e2
          unfold H.free
          simp [a2.1, a1.2.1, hl, a2.2.2, a1.2.2.2, hb, a1.1]

theorem realloc_none (h h' : H) (o : Nat) (e : h.realloc o = (h', none)) : h'.live = h.live ∧ h'.next = h.next ∧ h'.bad = h.bad := by
  unfold H.realloc at e
  have t := tick_fields h
  cases ht : h.tick with
  | mk h1 f =>
    rw [ht] at e t
    simp only at e t
    cases f with
    | true => simp only [if_true, Prod.mk.injEq] at e; obtain ⟨e1, _⟩ := e; subst e1; exact ⟨t.2.1, t.1, t.2.2.1⟩
    | false => simp at e

theorem realloc_some (h h' : H) (o i : Nat) (e : h.realloc o = (h', some i)) :
    i = h.next ∧ h'.live = h.next :: h.live.erase o ∧ h'.next = h.next + 1 ∧ h'.bad = (h.bad || !h.live.contains o) := by
  unfold H.realloc at e
  have t := tick_fields h
  cases ht : h.tick with
  | mk h1 f =>
    rw [ht] at e t
    simp only at e t
    cases f with
    | true => simp at e
    | false =>
      simp only [Bool.false_eq_true, if_false, Prod.mk.injEq, Option.some.injEq] at e
      obtain ⟨e1, e2⟩ := e
      subst e1
      exact ⟨by rw [← e2, t.1], by simp [t.1, t.2.1], by simp [t.1], by simp [t.2.1, t.2.2.1]⟩

theorem listPush_inv (l : L) (h : H) (hi : ListInv h l) : ListInv (listPush l h).1 (listPush l h).2.1 := by
  unfold listPush
  split
  · cases e : h.realloc l.elems with
    | mk h1 o =>
      cases o with
      | none =>
        simp only
        have r := realloc_none h h1 l.elems e
        exact ⟨by rw [r.1, hi.live], hi.lt1, by rw [r.2.1]; exact hi.lt2, by rw [r.2.2, hi.ok]⟩
      | some el =>
        simp only
        have r := realloc_some h h1 l.elems el e
        have hne : l.elems ≠ l.struct := by have := hi.lt1; omega
        refine ⟨?_, ?_, ?_, ?_⟩
        · rw [r.2.1, hi.live, r.1]; simp
        · rw [r.1]; have := hi.lt1; have := hi.lt2; show l.struct < h.next; omega
        · rw [r.1, r.2.2.1]; show h.next < h.next + 1; omega
        · rw [r.2.2.2, hi.ok, hi.live]; simp
  · exact ⟨hi.live, hi.lt1, hi.lt2, hi.ok⟩

theorem listPushes_inv (n : Nat) (l : L) (h : H) (ok : Nat) (hi : ListInv h l) :
    ListInv (listPushes n l h ok).1 (listPushes n l h ok).2.1 := by
  induction n generalizing l h ok with
  | zero => exact hi
  | succ k ih =>
    unfold listPushes
    exact ih _ _ _ (listPush_inv l h hi)

theorem listDestroy_clean (l : L) (h : H) (hi : ListInv h l) : (listDestroy l h).live = [] ∧ (listDestroy l h).bad = false := by
  have hne : l.elems ≠ l.struct := by have := hi.lt1; omega
  unfold listDestroy H.free
  simp [hi.live, hi.ok, hne]


end Htp.Own
