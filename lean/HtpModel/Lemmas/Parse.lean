/- Helper lemmas for the line parsers (C02). -/
import HtpModel.Conn.Parsers
import HtpModel.Lemmas.Flags
namespace Htp.Parse
open Htp Htp.Gen

theorem token_facts : ∀ c : UInt8, isToken c = true → ((c != 0 && c != 0x3a) = true ∧ isLws c = false) := by
  apply forall_uint8_of_lt
  decide +kernel

theorem takeWhile_append_stop {α} (p : α → Bool) (a : List α) (x : α) (r : List α) (ha : ∀ y ∈ a, p y = true) (hx : p x = false) :
    (a ++ x :: r).takeWhile p = a := by
  induction a with
  | nil => simp [List.takeWhile, hx]
  | cons y t ih =>
    simp only [List.cons_append, List.takeWhile, ha y (by simp)]
    rw [ih (fun z hz => ha z (by simp [hz]))]

theorem takeWhile_head_false {α} (p : α → Bool) (l : List α) (h : ∀ y, l.head? = some y → p y = false) : l.takeWhile p = [] := by
  cases l with
  | nil => rfl
  | cons y t => simp [List.takeWhile, h y rfl]


end Htp.Parse
