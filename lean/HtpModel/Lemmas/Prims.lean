/- String / number primitives equal their mathematical definitions: statements are restated in Props/C17, proofs live here. -/
import HtpModel.Prim.Num
import HtpModel.Lemmas.Flags
namespace Htp.C17
open Htp Htp.Gen Htp.Bstr Htp.Num

/-! ### string primitives equal their mathematical definitions -/

/-- bstr_util_cmp_mem returns 0 exactly for equal byte strings -/
theorem prim_cmp_eq_zero_iff (a b : Bytes) : cmpMem a b = 0 ↔ a = b := by
  induction a generalizing b with
  | nil => cases b <;> simp [cmpMem]
  | cons x xs ih =>
    cases b with
    | nil => simp [cmpMem]
    | cons y ys =>
      unfold cmpMem
      by_cases h : x = y
      · subst h; simp [ih]
      · have : (x != y) = true := by simpa using h
        simp only [this, if_true]
        constructor
        · intro h'; split at h' <;> simp at h'
        · intro h'; exact absurd (List.cons.inj h').1 h

/-- the three-way result is antisymmetric -/
theorem prim_cmp_antisymm (a b : Bytes) : cmpMem b a = - cmpMem a b := by
  induction a generalizing b with
  | nil => cases b <;> simp [cmpMem]
  | cons x xs ih =>
    cases b with
    | nil => simp [cmpMem]
    | cons y ys =>
      unfold cmpMem
      by_cases h : x = y
      · subst h; simp [ih]
      · have h1 : (x != y) = true := by simpa using h
        have h2 : (y != x) = true := by simpa using (fun e => h e.symm)
        simp only [h1, h2, if_true]
        have hne : x.toNat ≠ y.toNat := fun e => h (UInt8.toNat_inj.mp e)
        by_cases hl : x < y
        · have : ¬ y < x := by
            rw [UInt8.lt_iff_toNat_lt] at hl ⊢; omega
          simp [hl, this]
        · have : y < x := by
            rw [UInt8.lt_iff_toNat_lt] at hl ⊢; omega
          simp [hl, this]

/-- the case-insensitive comparison is the exact comparison of the lower-cased strings -/
theorem prim_cmp_nocase_eq (a b : Bytes) : cmpMemNocase a b = cmpMem (lower a) (lower b) := by
  induction a generalizing b with
  | nil => cases b <;> simp [cmpMemNocase, cmpMem, lower]
  | cons x xs ih =>
    cases b with
    | nil => simp [cmpMemNocase, cmpMem, lower]
    | cons y ys =>
      simp only [cmpMemNocase, lower, List.map_cons, cmpMem]
      have := ih ys
      simp only [lower] at this
      rw [this]

/-- the NUL-skipping comparison ignores the NUL bytes of its first argument and nothing else -/
theorem prim_cmp_norzero_eq (a b : Bytes) : cmpMemNocaseNorzero a b = cmpMemNocase (a.filter (· != 0)) b := by
  induction a generalizing b with
  | nil => cases b <;> simp [cmpMemNocaseNorzero, cmpMemNocase]
  | cons x xs ih =>
    by_cases hx : x = 0
    · subst hx
      cases b with
      | nil => simp [cmpMemNocaseNorzero, ih]
      | cons y ys => simp [cmpMemNocaseNorzero, ih]
    · have h1 : (x == 0) = false := by simpa using hx
      have h2 : (x != 0) = true := by simpa using hx
      cases b with
      | nil => simp [cmpMemNocaseNorzero, h1, h2, List.filter, cmpMemNocase]
      | cons y ys =>
        simp only [cmpMemNocaseNorzero, h1, List.filter, h2, cmpMemNocase, Bool.false_eq_true, if_false]
        rw [ih]

/-- bstr_begins_with_mem is the prefix relation -/
theorem prim_begins_with_iff (hay needle : Bytes) : beginsWithMem hay needle = true ↔ needle <+: hay := by
  unfold beginsWithMem
  induction needle generalizing hay with
  | nil => simp [prefixMatch]
  | cons n ns ih =>
    cases hay with
    | nil => simp [prefixMatch]
    | cons h hs =>
      simp only [prefixMatch, eqExact]
      by_cases e : h = n
      · subst e; simp [ih, List.cons_prefix_cons]
      · have : (h == n) = false := by simpa using e
        simp only [this, Bool.false_eq_true, if_false, false_iff, List.cons_prefix_cons]
        intro hc; exact e hc.1.symm

/-- the case-insensitive prefix test is the exact test on the lower-cased strings -/
theorem prim_begins_with_nocase_eq (hay needle : Bytes) : beginsWithMemNocase hay needle = beginsWithMem (lower hay) (lower needle) := by
  unfold beginsWithMemNocase beginsWithMem
  induction needle generalizing hay with
  | nil => simp [prefixMatch, lower]
  | cons n ns ih =>
    cases hay with
    | nil => simp [prefixMatch, lower]
    | cons h hs =>
      simp only [prefixMatch, lower, List.map_cons, eqLower, eqExact]
      have := ih hs
      simp only [lower] at this
      rw [this]; rfl

theorem indexOfAux_spec (needle : Bytes) (hay : Bytes) (i : Nat) :
    (∀ r, indexOfAux eqExact needle hay i = some r →
        i ≤ r ∧ r - i < hay.length ∧ needle <+: hay.drop (r - i) ∧ ∀ j, j < r - i → ¬ needle <+: hay.drop j) ∧
    (indexOfAux eqExact needle hay i = none → ∀ j, j < hay.length → ¬ needle <+: hay.drop j) := by
  induction hay generalizing i with
  | nil => simp [indexOfAux]
  | cons h t ih =>
    unfold indexOfAux
    by_cases hp : prefixMatch eqExact (h :: t) needle = true
    · simp only [hp, if_true]
      constructor
      · intro r hr
        simp only [Option.some.injEq] at hr
        subst hr
        refine ⟨Nat.le_refl _, by simp, ?_, by intro j hj; omega⟩
        simpa using (prim_begins_with_iff (h :: t) needle).mp hp
      · intro hc; simp at hc
    · have hp' : prefixMatch eqExact (h :: t) needle = false := by simpa using hp
      have hnp : ¬ needle <+: (h :: t) := fun hc => hp ((prim_begins_with_iff (h :: t) needle).mpr hc)
      simp only [hp', Bool.false_eq_true, if_false]
      obtain ⟨ih1, ih2⟩ := ih (i + 1)
      constructor
      · intro r hr
        obtain ⟨a, b, c, d⟩ := ih1 r hr
        have e : r - i = (r - (i + 1)) + 1 := by omega
        refine ⟨by omega, by simp; omega, ?_, ?_⟩
        · rw [e]; simpa using c
        · intro j hj
          cases j with
          | zero => simpa using hnp
          | succ j' => simpa using d j' (by omega)
      · intro hn j hj
        cases j with
        | zero => simpa using hnp
        | succ j' => simpa using ih2 hn j' (by simpa using hj)

/-- bstr_util_mem_index_of_mem returns the LEAST offset below the haystack's length at which the needle matches, and none iff there is no such offset -/
theorem prim_index_of_some (hay needle : Bytes) (r : Nat) (h : indexOfMem hay needle = some r) :
    r < hay.length ∧ needle <+: hay.drop r ∧ ∀ j, j < r → ¬ needle <+: hay.drop j := by
  have := (indexOfAux_spec needle hay 0).1 r h
  simpa using this.2

theorem prim_index_of_none (hay needle : Bytes) (h : indexOfMem hay needle = none) :
    ∀ j, j < hay.length → ¬ needle <+: hay.drop j := (indexOfAux_spec needle hay 0).2 h

theorem chrAux_eq (c : UInt8) (b : Bytes) (i : Nat) : chrAux c b i = (b.findIdx? (· == c)).map (· + i) := by
  induction b generalizing i with
  | nil => simp [chrAux]
  | cons h t ih =>
    unfold chrAux
    by_cases e : (h == c) = true
    · simp [e, List.findIdx?_cons]
    · have e' : (h == c) = false := by simpa using e
      simp only [e', Bool.false_eq_true, if_false, List.findIdx?_cons, ih]
      cases t.findIdx? (· == c) <;> simp <;> omega

/-- bstr_chr returns the index of the first occurrence -/
theorem prim_chr_eq (b : Bytes) (c : UInt8) : chr b c = b.findIdx? (· == c) := by
  unfold chr; rw [chrAux_eq]; cases b.findIdx? (· == c) <;> simp

/-- bstr_to_lowercase / bstr_chop / bstr_add_mem_noex -/
theorem prim_lowercase_length (b : Bytes) : (toLowercase b).length = b.length := by simp [toLowercase]
theorem prim_add_noex_prefix (cap : Nat) (dst src : Bytes) (h : dst.length ≤ cap) :
    (addMemNoex cap dst src) = dst ++ src.take (cap - dst.length) ∧ (addMemNoex cap dst src).length ≤ cap := by
  unfold addMemNoex
  split
  · refine ⟨rfl, ?_⟩; simp; omega
  · rename_i hc
    have : src.take (cap - dst.length) = src := List.take_of_length_le (by omega)
    rw [this]; refine ⟨rfl, ?_⟩; simp; omega



/-- positional value of a digit string continuing from `r` (digits outside the base never occur under the hypotheses below) -/
def valueOf (base : Nat) : Bytes → Nat → Nat
  | [], r => r
  | c :: cs, r => valueOf base cs (r * base + (digitVal c).getD 0)

theorem valueOf_ge (base : Nat) (hb : 0 < base) (cs : Bytes) (r : Nat) : r ≤ valueOf base cs r := by
  induction cs generalizing r with
  | nil => exact Nat.le_refl _
  | cons c t ih =>
    unfold valueOf
    have h1 : r ≤ r * base := Nat.le_mul_of_pos_right r hb
    exact Nat.le_trans (by omega) (ih _)

theorem pintLoop_digits (base : Nat) (hb : 0 < base) (cs : Bytes) (i r : Nat)
    (hd : ∀ c ∈ cs, ∃ d, digitVal c = some d ∧ d < base) (hfit : valueOf base cs r ≤ INT64_MAX') :
    pintLoop base cs i (some r) = (((valueOf base cs r : Nat) : Int), i + cs.length + 1) := by
  induction cs generalizing i r with
  | nil => simp [pintLoop, valueOf]
  | cons c t ih =>
    obtain ⟨d, hdv, hlt⟩ := hd c (by simp)
    unfold pintLoop
    simp only [hdv]
    have hnb : ¬ d ≥ base := by omega
    simp only [hnb, if_false]
    have hfit' : valueOf base t (r * base + d) ≤ INT64_MAX' := by simpa [valueOf, hdv] using hfit
    have hle : r * base + d ≤ INT64_MAX' := Nat.le_trans (valueOf_ge base hb t _) hfit'
    have hno : ¬ (INT64_MAX' - d) / base < r := by
      rw [Nat.not_lt, Nat.le_div_iff_mul_le hb]; omega
    simp only [hno, if_false]
    rw [ih (i + 1) (r * base + d) (fun c hc => hd c (by simp [hc])) hfit']
    simp [valueOf, hdv]; omega

/-- **C17 (number parsing)**: for a non-empty string of digits of the base whose positional value fits, bstr_util_mem_to_pint returns
    exactly that value and reports the whole string as consumed (lastlen = length + 1, as the C code documents). -/
theorem prim_pint_digits (base : Nat) (hb : 0 < base) (c : UInt8) (cs : Bytes)
    (hd : ∀ x ∈ c :: cs, ∃ d, digitVal x = some d ∧ d < base) (hfit : valueOf base (c :: cs) 0 ≤ INT64_MAX') :
    memToPint (c :: cs) base = (((valueOf base (c :: cs) 0 : Nat) : Int), (c :: cs).length + 1) := by
  obtain ⟨d, hdv, hlt⟩ := hd c (by simp)
  unfold memToPint pintLoop
  simp only [hdv]
  have hnb : ¬ d ≥ base := by omega
  simp only [hnb, if_false]
  have hfit' : valueOf base cs d ≤ INT64_MAX' := by simpa [valueOf, hdv] using hfit
  rw [pintLoop_digits base hb cs 1 d (fun x hx => hd x (by simp [hx])) hfit']
  simp [valueOf, hdv]; omega

/-- a byte that is not a digit of the base ends the number: nothing before it -> -1, otherwise the value so far and its offset -/
theorem prim_pint_no_digit (base : Nat) (c : UInt8) (cs : Bytes) (h : ∀ d, digitVal c = some d → d ≥ base) :
    memToPint (c :: cs) base = (-1, 0) := by
  unfold memToPint pintLoop
  cases hdv : digitVal c with
  | none => rfl
  | some d => simp [h d hdv]




theorem lws_not_digit : ∀ c : UInt8, isLws c = true → digitVal c = none := by
  apply forall_uint8_of_lt
  decide +kernel

/-- a blank after the digits ends the number at its offset -/
theorem pintLoop_stop (base : Nat) (hb : 0 < base) (cs : Bytes) (w : UInt8) (ws : Bytes) (i r : Nat)
    (hd : ∀ c ∈ cs, ∃ d, digitVal c = some d ∧ d < base) (hw : ∀ d, digitVal w = some d → d ≥ base) (hfit : valueOf base cs r ≤ INT64_MAX') :
    pintLoop base (cs ++ w :: ws) i (some r) = (((valueOf base cs r : Nat) : Int), i + cs.length) := by
  induction cs generalizing i r with
  | nil =>
    simp only [List.nil_append, pintLoop, valueOf, List.length_nil, Nat.add_zero]
    cases hdw : digitVal w with
    | none => rfl
    | some d => simp [hw d hdw]
  | cons c t ih =>
    obtain ⟨d, hdv, hlt⟩ := hd c (by simp)
    simp only [List.cons_append]
    unfold pintLoop
    simp only [hdv]
    have hnb : ¬ d ≥ base := by omega
    simp only [hnb, if_false]
    have hfit' : valueOf base t (r * base + d) ≤ INT64_MAX' := by simpa [valueOf, hdv] using hfit
    have hle : r * base + d ≤ INT64_MAX' := Nat.le_trans (valueOf_ge base hb t _) hfit'
    have hno : ¬ (INT64_MAX' - d) / base < r := by
      rw [Nat.not_lt, Nat.le_div_iff_mul_le hb]; omega
    simp only [hno, if_false]
    rw [ih (i + 1) (r * base + d) (fun c hc => hd c (by simp [hc])) hfit']
    simp [valueOf, hdv]; omega

theorem dropWhile_lws_prefix (ws rest : Bytes) (c : UInt8) (hws : ∀ x ∈ ws, isLws x = true) (hc : isLws c = false) :
    (ws ++ c :: rest).dropWhile isLws = c :: rest := by
  induction ws with
  | nil => simp [List.dropWhile, hc]
  | cons x t ih => simp only [List.cons_append, List.dropWhile, hws x (by simp)]; exact ih (fun y hy => hws y (by simp [hy]))

/-- **C17 (integer with surrounding blanks)**: optional blanks, a non-empty digit string of the base whose value fits, optional blanks:
    htp_parse_positive_integer_whitespace returns exactly the positional value. -/
theorem prim_ppiw_value (base : Nat) (hb : 0 < base) (ws1 ws2 : Bytes) (c : UInt8) (cs : Bytes)
    (h1 : ∀ x ∈ ws1, isLws x = true) (h2 : ∀ x ∈ ws2, isLws x = true)
    (hd : ∀ x ∈ c :: cs, ∃ d, digitVal x = some d ∧ d < base) (hfit : valueOf base (c :: cs) 0 ≤ INT64_MAX') :
    parsePositiveIntegerWhitespace (ws1 ++ (c :: cs) ++ ws2) base = ((valueOf base (c :: cs) 0 : Nat) : Int) := by
  obtain ⟨d, hdv, hlt⟩ := hd c (by simp)
  have hcl : isLws c = false := by
    cases h : isLws c with
    | false => rfl
    | true => have := lws_not_digit c h; rw [hdv] at this; exact absurd this (by simp)
  have hnb : ¬ d ≥ base := by omega
  have hfit' : valueOf base cs d ≤ INT64_MAX' := by simpa [valueOf, hdv] using hfit
  unfold parsePositiveIntegerWhitespace
  have hlen : (ws1 ++ (c :: cs) ++ ws2).length ≠ 0 := by simp
  simp only [hlen, if_false]
  have hdw : (ws1 ++ (c :: cs) ++ ws2).dropWhile isLws = c :: (cs ++ ws2) := by
    have := dropWhile_lws_prefix ws1 (cs ++ ws2) c h1 hcl
    simpa using this
  rw [hdw]
  have hpos : (ws1 ++ (c :: cs) ++ ws2).length - (c :: (cs ++ ws2)).length = ws1.length := by simp
  rw [hpos]
  have hne : ¬ ws1.length = (ws1 ++ (c :: cs) ++ ws2).length := by simp
  simp only [hne, if_false]
  cases ws2 with
  | nil =>
    have hm : memToPint (c :: (cs ++ [])) base = (((valueOf base (c :: cs) 0 : Nat) : Int), (c :: cs).length + 1) := by
      simpa using prim_pint_digits base hb c cs hd hfit
    rw [hm]
    simp only
    have : ¬ ((valueOf base (c :: cs) 0 : Nat) : Int) < 0 := by omega
    simp only [this, if_false]
    have : (ws1 ++ c :: cs ++ []).drop (ws1.length + ((c :: cs).length + 1)) = [] := by
      apply List.drop_of_length_le; simp
    rw [this]; simp
  | cons w ws =>
    have hw : digitVal w = none := lws_not_digit w (h2 w (by simp))
    have hm : memToPint (c :: (cs ++ w :: ws)) base = (((valueOf base (c :: cs) 0 : Nat) : Int), (c :: cs).length) := by
      unfold memToPint pintLoop
      simp only [hdv, hnb, if_false]
      rw [pintLoop_stop base hb cs w ws 1 d (fun x hx => hd x (by simp [hx])) (by intro d' hd'; rw [hw] at hd'; exact absurd hd' (by simp)) hfit']
      simp [valueOf, hdv]; omega
    rw [hm]
    simp only
    have : ¬ ((valueOf base (c :: cs) 0 : Nat) : Int) < 0 := by omega
    simp only [this, if_false]
    have : (ws1 ++ c :: cs ++ w :: ws).drop (ws1.length + (c :: cs).length) = w :: ws := by
      rw [← List.length_append]; exact List.drop_left' rfl
    rw [this]
    have : (w :: ws).all isLws = true := by simpa using h2
    simp [this]



theorem hexdigit_iff : ∀ c : UInt8, isHexDigitC c = true → ∃ d, digitVal c = some d ∧ d < 16 := by
  apply forall_uint8_of_lt
  decide +kernel

theorem takeWhile_all_stop {α} (q : α → Bool) (l rest : List α) (hl : ∀ x ∈ l, q x = true) (hr : ∀ w ws, rest = w :: ws → q w = false) :
    (l ++ rest).takeWhile q = l := by
  induction l with
  | nil =>
    cases rest with
    | nil => rfl
    | cons w ws => simp [List.takeWhile, hr w ws rfl]
  | cons x t ih => simp only [List.cons_append, List.takeWhile, hl x (by simp)]; rw [ih (fun y hy => hl y (by simp [hy]))]

theorem dropWhile_all_stop {α} (q : α → Bool) (pre : List α) (c : α) (rest : List α) (hp : ∀ x ∈ pre, q x = true) (hc : q c = false) :
    (pre ++ c :: rest).dropWhile q = c :: rest := by
  induction pre with
  | nil => simp [List.dropWhile, hc]
  | cons x t ih => simp only [List.cons_append, List.dropWhile, hp x (by simp)]; exact ih (fun y hy => hp y (by simp [hy]))

/-- **C17 (chunk length)**: control bytes, then a non-empty run of hexadecimal digits, then anything that does not continue the run:
    htp_parse_chunked_length returns the hexadecimal value of the run when it fits in 31 bits and -1 when it is larger (and fits in 63). -/
theorem prim_chunked_length_value (ctl : Bytes) (c : UInt8) (cs rest : Bytes)
    (hctl : ∀ x ∈ ctl, isChunkedCtl x = true) (hc0 : isChunkedCtl c = false)
    (hd : ∀ x ∈ c :: cs, isHexDigitC x = true) (hrest : ∀ w ws, rest = w :: ws → isHexDigitC w = false)
    (hfit : valueOf 16 (c :: cs) 0 ≤ INT64_MAX') :
    (parseChunkedLength (ctl ++ (c :: cs) ++ rest)).1 =
      if valueOf 16 (c :: cs) 0 > INT32_MAX' then -1 else ((valueOf 16 (c :: cs) 0 : Nat) : Int) := by
  unfold parseChunkedLength
  have hdw : (ctl ++ (c :: cs) ++ rest).dropWhile isChunkedCtl = c :: (cs ++ rest) := by
    have := dropWhile_all_stop isChunkedCtl ctl c (cs ++ rest) hctl hc0
    simpa using this
  simp only [hdw]
  have : ¬ (c :: (cs ++ rest)).length = 0 := by simp
  simp only [this, if_false]
  have htw : (c :: (cs ++ rest)).takeWhile isHexDigitC = c :: cs := by
    have := takeWhile_all_stop isHexDigitC (c :: cs) rest hd hrest
    simpa using this
  simp only [htw]
  have hv : parsePositiveIntegerWhitespace (c :: cs) 16 = ((valueOf 16 (c :: cs) 0 : Nat) : Int) := by
    have := prim_ppiw_value 16 (by decide) [] [] c cs (by simp) (by simp) (fun x hx => hexdigit_iff x (hd x hx)) hfit
    simpa using this
  simp only [hv]
  have hnn : ¬ ((valueOf 16 (c :: cs) 0 : Nat) : Int) < 0 := by omega
  simp only [hnn, if_false]
  by_cases hbig : valueOf 16 (c :: cs) 0 > INT32_MAX'
  · have : ((valueOf 16 (c :: cs) 0 : Nat) : Int) > (INT32_MAX' : Int) := by exact_mod_cast hbig
    simp [hbig, this]
  · have : ¬ ((valueOf 16 (c :: cs) 0 : Nat) : Int) > (INT32_MAX' : Int) := by
      intro h; exact hbig (by exact_mod_cast h)
    simp [hbig, this]




theorem dropWhile_nondigit_prefix (pre rest : Bytes) (c : UInt8) (hpre : ∀ x ∈ pre, (x.toNat < 48 || x.toNat > 57) = true)
    (hc : (c.toNat < 48 || c.toNat > 57) = false) :
    (pre ++ c :: rest).dropWhile (fun c => c.toNat < 48 || c.toNat > 57) = c :: rest := by
  induction pre with
  | nil => simp [List.dropWhile, hc]
  | cons x t ih => simp only [List.cons_append, List.dropWhile, hpre x (by simp)]; exact ih (fun y hy => hpre y (by simp [hy]))

theorem decdigit_range : ∀ c : UInt8, (∃ d, digitVal c = some d ∧ d < 10) → (c.toNat < 48 || c.toNat > 57) = false := by
  apply forall_uint8_of_lt
  decide +kernel

theorem prim_content_length_value (pre : Bytes) (c : UInt8) (cs post : Bytes)
    (hpre : ∀ x ∈ pre, (x.toNat < 48 || x.toNat > 57) = true)
    (hd : ∀ x ∈ c :: cs, ∃ d, digitVal x = some d ∧ d < 10) (hfit : valueOf 10 (c :: cs) 0 ≤ INT64_MAX')
    (hpost : ∀ w ws, post = w :: ws → ∀ d, digitVal w = some d → d ≥ 10) :
    parseContentLength (pre ++ (c :: cs) ++ post) = ((valueOf 10 (c :: cs) 0 : Nat) : Int) := by
  obtain ⟨d, hdv, hlt⟩ := hd c (by simp)
  have hnb : ¬ d ≥ 10 := by omega
  have hfit' : valueOf 10 cs d ≤ INT64_MAX' := by simpa [valueOf, hdv] using hfit
  unfold parseContentLength
  have hlen : (pre ++ (c :: cs) ++ post).length ≠ 0 := by simp
  simp only [hlen, if_false]
  have hdw : (pre ++ (c :: cs) ++ post).dropWhile (fun c => c.toNat < 48 || c.toNat > 57) = c :: (cs ++ post) := by
    have := dropWhile_nondigit_prefix pre (cs ++ post) c hpre (decdigit_range c ⟨d, hdv, hlt⟩)
    simpa using this
  rw [hdw]
  have : ¬ (c :: (cs ++ post)).length = 0 := by simp
  simp only [this, if_false]
  cases post with
  | nil =>
    have hm := prim_pint_digits 10 (by decide) c cs hd hfit
    simp only [List.append_nil]; rw [hm]
  | cons w ws =>
    unfold memToPint pintLoop
    simp only [hdv, hnb, if_false]
    rw [pintLoop_stop 10 (by decide) cs w ws 1 d (fun x hx => hd x (by simp [hx])) (hpost w ws rfl) hfit']
    simp [valueOf, hdv]

end Htp.C17
