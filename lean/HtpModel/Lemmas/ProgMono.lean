/- C05 (transaction lifecycle, request side), PARTIAL: the sweep of Lemmas/LensMono.lean again in namespace `Htp.Conn.Prog`, for the field
   `reqProgress`. Every writer sets a constant (1: txStateRequestStart, 2: reqProtocol, 3: reqBodyDetermine, 4: chunked end / closed
   stream in REQ_HEADERS, 5: txStateRequestCompletePartial). Plain `≤` at a site needs the current value there, which only a
   state-indexed invariant (bound on in_tx's progress by `inState`) gives; that invariant is NOT proved here. What is proved, for every
   function and with no invariant, is `ProgLe`: unchanged or set to a phase 1..5, and lowered only by a write of 1..4. -/
import HtpModel.Conn.Res
import HtpModel.Lemmas.FlagsMono
namespace Htp
open Htp.Gen
namespace Conn
namespace Prog

/-- what holds of the request progress at EVERY writer without knowing the current value: it is unchanged or set to a phase 1..5,
    and (within 0..5) it is lowered only by a write of one of the constants 1..4 - never by `txStateRequestComplete` -/
def ProgLe (t t' : Tx) : Prop :=
  (t'.reqProgress = t.reqProgress ∨ (1 ≤ t'.reqProgress ∧ t'.reqProgress ≤ 5)) ∧
  (t.reqProgress ≤ 5 → t.reqProgress ≤ t'.reqProgress ∨ t'.reqProgress ≤ 4)

theorem ProgLe.refl (t : Tx) : ProgLe t t := ⟨.inl rfl, fun _ => .inl (Nat.le_refl _)⟩
theorem ProgLe.trans {a b c : Tx} (h1 : ProgLe a b) (h2 : ProgLe b c) : ProgLe a c := by
  unfold ProgLe at *
  omega

macro "prog_mono" : tactic =>
  `(tactic| first
    | exact ProgLe.refl _
    | (unfold ProgLe; (try dsimp only); omega))

/-! ### the relation between two states -/

/-- `t'` continues `t`: the same transaction, the four accounted lengths not decreased -/
structure TxLe (t t' : Tx) : Prop where
  uid : t'.uid = t.uid
  prog : ProgLe t t'

theorem TxLe.refl (t : Tx) : TxLe t t := ⟨rfl, ProgLe.refl _⟩
theorem TxLe.trans {a b c : Tx} (h1 : TxLe a b) (h2 : TxLe b c) : TxLe a c := ⟨h2.uid.trans h1.uid, h1.prog.trans h2.prog⟩

/-- what a step does to the stored transactions: hygiene again, `nextUid` grows, and every transaction stored afterwards continues one
    stored before or is new (its uid had not been handed out) -/
structure Step (c c' : Conn) : Prop where
  hyg : Hyg c'
  next : c.nextUid ≤ c'.nextUid
  mem : ∀ t', some t' ∈ c'.txs → (∃ t, some t ∈ c.txs ∧ TxLe t t') ∨ c.nextUid ≤ t'.uid

/-- the relation of the sweep: from a hygienic state, a `Step` -/
structure Rel (c c' : Conn) : Prop where
  step : Hyg c → Step c c'

theorem Rel.refl (c : Conn) : Rel c c := ⟨fun h => ⟨h, Nat.le_refl _, fun t ht => .inl ⟨t, ht, TxLe.refl t⟩⟩⟩

theorem Rel.trans {a b c : Conn} (h1 : Rel a b) (h2 : Rel b c) : Rel a c := by
  refine ⟨fun ha => ?_⟩
  have s1 := h1.step ha
  have s2 := h2.step s1.hyg
  refine ⟨s2.hyg, Nat.le_trans s1.next s2.next, fun t'' ht'' => ?_⟩
  rcases s2.mem t'' ht'' with ⟨t', ht', l2⟩ | hn
  · rcases s1.mem t' ht' with ⟨t, ht, l1⟩ | hn
    · exact .inl ⟨t, ht, l1.trans l2⟩
    · exact .inr (by rw [l2.uid]; exact hn)
  · exact .inr (Nat.le_trans s1.next hn)

/-- a step that leaves the transaction list and the uid counter alone -/
theorem Rel.frame {c c' : Conn} (h1 : c'.txs = c.txs) (h2 : c'.nextUid = c.nextUid) : Rel c c' := by
  refine ⟨fun h => ⟨⟨fun t ht => ?_, fun t1 t2 a b => ?_⟩, Nat.le_of_eq h2.symm, fun t ht => .inl ⟨t, by rw [← h1]; exact ht, TxLe.refl t⟩⟩⟩
  · rw [h2]; exact h.lt t (by rw [← h1]; exact ht)
  · exact h.inj t1 t2 (by rw [← h1]; exact a) (by rw [← h1]; exact b)

/-- a frame step first -/
theorem Rel.ofFrame {c x c' : Conn} (k : Rel x c') (h1 : x.txs = c.txs) (h2 : x.nextUid = c.nextUid) : Rel c c' :=
  (Rel.frame h1 h2).trans k

/-- a frame step last -/
theorem Rel.thenFrame {c x c' : Conn} (k : Rel c x) (h1 : c'.txs = x.txs) (h2 : c'.nextUid = x.nextUid) : Rel c c' :=
  k.trans (Rel.frame h1 h2)

/-- the two states differ in fields other than the transaction list and the uid counter (both equations hold by `rfl`, checked by the
    unifier where the term stands - which also fills in placeholders of the neighbouring terms) -/
macro "pframe!" : term => `(Rel.frame rfl rfl)
macro "of_pframe! " k:term:max : term => `(Rel.ofFrame $k rfl rfl)
macro "then_pframe! " k:term:max : term => `(Rel.thenFrame $k rfl rfl)

/-! ### the primitive steps -/

/-- a pointwise rewrite of the transaction list in which every kept record continues the one at its place -/
theorem rel_map {c c' : Conn} (F : Option Tx → Option Tx) (h1 : c'.txs = c.txs.map F) (h2 : c'.nextUid = c.nextUid)
    (hn : F none = none) (hs : Hyg c → ∀ x, some x ∈ c.txs → ∀ t', F (some x) = some t' → TxLe x t') : Rel c c' := by
  refine ⟨fun h => ?_⟩
  have src : ∀ t', some t' ∈ c'.txs → ∃ x, some x ∈ c.txs ∧ F (some x) = some t' ∧ TxLe x t' := by
    intro t' ht'
    rw [h1, List.mem_map] at ht'
    obtain ⟨o, ho, he⟩ := ht'
    cases o with
    | none => rw [hn] at he; simp at he
    | some x => exact ⟨x, ho, he, hs h x ho t' he⟩
  refine ⟨⟨fun t' ht' => ?_, fun t1 t2 a b e => ?_⟩, Nat.le_of_eq h2.symm, fun t' ht' => ?_⟩
  · obtain ⟨x, hx, _, l⟩ := src t' ht'
    rw [h2, l.uid]; exact h.lt x hx
  · obtain ⟨x1, hx1, e1, l1⟩ := src t1 a
    obtain ⟨x2, hx2, e2, l2⟩ := src t2 b
    have : x1 = x2 := h.inj x1 x2 hx1 hx2 (by rw [← l1.uid, ← l2.uid]; exact e)
    subst this
    rw [e1] at e2
    exact Option.some.inj e2
  · obtain ⟨x, hx, _, l⟩ := src t' ht'
    exact .inl ⟨x, hx, l⟩

/-- the default argument of `rel_modTx`: the update leaves the uid alone, and the four lengths alone or adds to them (possibly under an `if`) -/
macro "ptx_le" : tactic =>
  `(tactic| first
    | exact fun _ => ⟨rfl, ProgLe.refl _⟩
    | exact fun _ => ⟨rfl, by prog_mono⟩
    | (intro t; refine ⟨rfl, ?_⟩; dsimp only; split <;> prog_mono))

theorem rel_modTx (u : Nat) (f : Tx → Tx) (c : Conn)
    (hf : ∀ t, TxLe t (f t) := by ptx_le) : Rel c (c.modTx u f) := by
  refine rel_map (fun o => match o with | some x => if x.uid == u then some (f x) else some x | none => none) rfl rfl rfl ?_
  intro _ x _ t' he
  simp only at he
  split at he
  · simp only [Option.some.injEq] at he
    rw [← he]; exact hf x
  · simp only [Option.some.injEq] at he
    rw [← he]; exact TxLe.refl x

theorem rel_modIn (f : Tx → Tx) (c : Conn) (hf : ∀ t, TxLe t (f t) := by ptx_le) : Rel c (c.modIn f) := by
  unfold Conn.modIn
  split
  · exact rel_modTx _ f c hf
  · exact Rel.refl c

theorem rel_modOut (f : Tx → Tx) (c : Conn) (hf : ∀ t, TxLe t (f t) := by ptx_le) : Rel c (c.modOut f) := by
  unfold Conn.modOut
  split
  · exact rel_modTx _ f c hf
  · exact Rel.refl c

/-- storing a record over the one with its uid: the record it replaces must be continued by it -/
theorem rel_setTx (t : Tx) (c : Conn) (ht : ∀ t0, c.findTx t.uid = some t0 → ProgLe t0 t) : Rel c (c.setTx t) := by
  refine rel_map (fun o => match o with | some x => if x.uid == t.uid then some t else some x | none => none) rfl rfl rfl ?_
  intro h x hx t' he
  simp only at he
  split at he
  · rename_i hu
    simp only [beq_iff_eq] at hu
    simp only [Option.some.injEq] at he
    rw [← he]
    exact ⟨hu.symm, ht x (by rw [← hu]; exact findTx_of_mem h hx)⟩
  · simp only [Option.some.injEq] at he
    rw [← he]; exact TxLe.refl x

/-- the usual shape: the record was read with `(c.findTx uid).getD d` and is written back changed -/
theorem rel_setTx_getD {c : Conn} {uid : Nat} {d t : Tx} (hd : d.uid = uid) (h : TxLe ((c.findTx uid).getD d) t) : Rel c (c.setTx t) := by
  apply rel_setTx
  have hu : t.uid = uid := by
    rw [h.uid]
    cases hf : c.findTx uid with
    | none => exact hd
    | some t0 => exact (findTx_mem hf).2
  intro t0 h0
  rw [hu] at h0
  have := h.prog
  rw [h0] at this
  exact this

theorem rel_setTx_find {c : Conn} {uid : Nat} {t0 t : Tx} (hf : c.findTx uid = some t0) (h : TxLe t0 t) : Rel c (c.setTx t) :=
  rel_setTx_getD (d := t0) (findTx_mem hf).2 (by rw [hf]; exact h)

theorem rel_destroyTx (u : Nat) (c : Conn) : Rel c (destroyTx u c) := by
  refine rel_map (fun o => match o with | some x => if x.uid == u then none else some x | none => none) rfl rfl rfl ?_
  intro _ x _ t' he
  simp only at he
  split at he
  · simp at he
  · simp only [Option.some.injEq] at he
    rw [← he]; exact TxLe.refl x

/-- sequencing with `>>?` -/
theorem rel_andThen (c0 : Conn) (r : R) (f : Conn → R) (h1 : Rel c0 r.1) (h2 : ∀ c, Rel c (f c).1) : Rel c0 (r >>? f).1 := by
  unfold R.andThen
  split
  · exact h1.trans (h2 r.1)
  · exact h1

theorem rel_txCreate (cfg : Cfg) (c : Conn) : Rel c (txCreate cfg c).1 := by
  unfold txCreate
  simp only []
  split
  · exact pframe!
  · refine ⟨fun h => ?_⟩
    have src : ∀ t, some t ∈ c.txs ++ [some ({ uid := c.nextUid, index := c.txs.length, portNumber := 0 } : Tx)] →
        some t ∈ c.txs ∨ t = { uid := c.nextUid, index := c.txs.length, portNumber := 0 } := by
      intro t ht
      simp only [List.mem_append, List.mem_singleton, Option.some.injEq] at ht
      exact ht
    refine ⟨⟨fun t ht => ?_, fun t1 t2 a b e => ?_⟩, Nat.le_succ _, fun t ht => ?_⟩
    · show t.uid < c.nextUid + 1
      rcases src t ht with h1 | h1
      · exact Nat.lt_succ_of_lt (h.lt t h1)
      · rw [h1]; exact Nat.lt_succ_self _
    · rcases src t1 a with h1 | h1 <;> rcases src t2 b with h2 | h2
      · exact h.inj t1 t2 h1 h2 e
      · have := h.lt t1 h1; rw [h2] at e; simp only at e; omega
      · have := h.lt t2 h2; rw [h1] at e; simp only at e; omega
      · rw [h1, h2]
    · rcases src t ht with h1 | h1
      · exact .inl ⟨t, h1, TxLe.refl t⟩
      · exact .inr (by rw [h1]; exact Nat.le_refl _)


/-- the transaction list and the uid counter are the same -/
theorem rel_of_same {c c' : Conn} (h : Same c c') : Rel c c' := Rel.frame h.1 h.2

/-! ### callbacks, body handlers, decompression -/

/-! ### callbacks, body handlers, decompression -/

theorem rel_runCallback (h : Hook) (uid : Option Nat) (data : Option Bytes) (isLast : Bool) (c : Conn) (g : Nat) (s : Bool) :
    Rel c (runCallback h uid data isLast c g s).1 := by
  unfold runCallback
  simp only
  cases lookupAction c.policy c.cbCount with
  | ok => exact pframe!
  | declined => exact pframe!
  | stop => exact pframe!
  | error => exact pframe!
  | destroyTx =>
    simp only
    cases uid.bind c.findTx with
    | none => exact pframe!
    | some t =>
      simp only
      split
      · exact Rel.trans (b := { c with cbCount := c.cbCount + 1, events := _ :: c.events }) pframe! (rel_destroyTx _ _)
      · exact pframe!
  | regTxHooks =>
    simp only
    cases uid with
    | none => exact pframe!
    | some u => exact Rel.trans (b := { c with cbCount := c.cbCount + 1, events := _ :: c.events }) pframe! (rel_modTx _ _ _)

theorem rel_runCallbackN (n : Nat) (h : Hook) (uid : Option Nat) (data : Option Bytes) (isLast : Bool) (g : Nat) (c : Conn) :
    Rel c (runCallbackN n h uid data isLast g c).1 := by
  induction n generalizing c with
  | zero => exact Rel.refl c
  | succ k ih =>
    unfold runCallbackN
    exact rel_andThen c _ _ (rel_runCallback ..) (fun c' => ih c')

theorem rel_urlencBodyCallback (cfg : Cfg) (uid : Nat) (data : Option Bytes) (c : Conn) :
    Rel c (urlencBodyCallback cfg uid data c).1 := by
  unfold urlencBodyCallback
  cases hf : c.findTx uid with
  | none => exact Rel.refl c
  | some t =>
    simp only
    cases t.urlenBody with
    | none => exact Rel.refl c
    | some u =>
      simp only
      split
      · exact Rel.refl c
      · cases data with
        | some d => exact rel_setTx_find hf ⟨rfl, by prog_mono⟩
        | none => exact rel_setTx_find hf ⟨rfl, by prog_mono⟩

theorem rel_mpartFileEvents (uid : Nat) (evs : List (Nat × Option Bytes)) (c : Conn) :
    Rel c (mpartFileEvents uid evs c) := by
  induction evs generalizing c with
  | nil => exact Rel.refl c
  | cons e rest ih =>
    obtain ⟨i, d⟩ := e
    unfold mpartFileEvents
    exact (rel_runCallback ..).trans (ih _)

theorem rel_mpartBodyCallback (uid : Nat) (data : Option Bytes) (c : Conn) :
    Rel c (mpartBodyCallback uid data c).1 := by
  unfold mpartBodyCallback
  cases hf : c.findTx uid with
  | none => exact Rel.refl c
  | some t =>
    simp only
    cases t.mpart with
    | none => exact Rel.refl c
    | some mp =>
      simp only
      split
      · exact Rel.refl c
      · cases data with
        | some d => (refine Rel.trans (b := c.setTx _) (rel_setTx_find hf ?_) (rel_mpartFileEvents _ _ _); exact ⟨rfl, ProgLe.refl _⟩)
        | none => (refine Rel.trans (b := c.setTx _) (rel_setTx_find hf ?_) (rel_mpartFileEvents _ _ _); exact ⟨rfl, ProgLe.refl _⟩)

theorem rel_runTxReqBodyHooks (cfg : Cfg) (uid : Nat) (data : Option Bytes) (isLast : Bool) (g : Nat) (hs : List TxHook) (c : Conn) :
    Rel c (runTxReqBodyHooks cfg uid data isLast g hs c).1 := by
  induction hs generalizing c with
  | nil => exact Rel.refl c
  | cons h rest ih =>
    unfold runTxReqBodyHooks
    apply rel_andThen
    · cases h with
      | user => exact rel_runCallback ..
      | urlenc => exact rel_urlencBodyCallback ..
      | mpart => exact rel_mpartBodyCallback ..
    · intro c'
      exact ih c'

theorem rel_reqRunHookBodyDataL (cfg : Cfg) (data : Option Bytes) (g : Nat) (l : Bool) (c : Conn) :
    Rel c (reqRunHookBodyDataL cfg data g l c).1 := by
  unfold reqRunHookBodyDataL
  split
  · exact Rel.refl c
  · cases c.inn.tx with
    | none => exact Rel.refl c
    | some uid =>
      simp only
      apply rel_andThen
      · exact rel_runTxReqBodyHooks ..
      · intro c2
        apply rel_andThen
        · exact rel_runCallback ..
        · intro c3
          split
          · exact rel_runCallback ..
          · exact Rel.refl c3

theorem rel_reqRunHookBodyData (cfg : Cfg) (data : Option Bytes) (g : Nat) (c : Conn) :
    Rel c (reqRunHookBodyData cfg data g c).1 := by
  unfold reqRunHookBodyData; exact rel_reqRunHookBodyDataL ..

theorem rel_unsupported (c : Conn) : Rel c { c with unsupported := true } := pframe!
theorem rel_zoracle (c : Conn) (zs : List ZRes) : Rel c { c with zoracle := zs } := pframe!

theorem rel_resRunHookBodyData (data : Option Bytes) (c : Conn) : Rel c (resRunHookBodyData data c).1 := by
  unfold resRunHookBodyData
  split
  · exact Rel.refl c
  · cases c.out.tx with
    | none => exact Rel.refl c
    | some uid =>
      simp only
      apply rel_andThen
      · exact rel_runCallbackN ..
      · intro c2; exact rel_runCallback ..

theorem rel_decFinalCallback (cfg : Cfg) (req : Bool) (uid : Nat) (l : Bool) (data : Option Bytes) (c : Conn) :
    Rel c (decFinalCallback cfg req uid l data c).1 := by
  unfold decFinalCallback
  simp only
  cases req with
  | true =>
    simp only [if_true]
    have h := rel_reqRunHookBodyDataL cfg data 0 l (c.modTx uid fun t => { t with reqEntityLen := t.reqEntityLen + (data.map (·.length)).getD 0 })
    have h0 := (rel_modTx uid (fun t => { t with reqEntityLen := t.reqEntityLen + (data.map (·.length)).getD 0 }) c).trans h
    split
    · exact h0
    · split <;> exact h0
  | false =>
    simp only [Bool.false_eq_true, if_false]
    have h := rel_resRunHookBodyData data (c.modTx uid fun t => { t with resEntityLen := t.resEntityLen + (data.map (·.length)).getD 0 })
    have h0 := (rel_modTx uid (fun t => { t with resEntityLen := t.resEntityLen + (data.map (·.length)).getD 0 }) c).trans h
    split
    · exact h0
    · split <;> exact h0

/-- the functions of the decompression driver never decrease the accounted lengths -/
theorem rel_dec (cfg : Cfg) (req : Bool) (uid : Nat) : ∀ fuel : Nat,
    (∀ l useNext rest data c, Rel c (decSend cfg req uid l fuel useNext rest data c).2.1) ∧
    (∀ d drec rest inp c, Rel c (decLoop cfg req uid d fuel drec rest inp c).2.1) ∧
    (∀ d drec rest inp c, Rel c (decStep cfg req uid d fuel drec rest inp c).2.1) ∧
    (∀ ds data c, Rel c (decompress cfg req uid fuel ds data c).2.1) := by
  intro fuel
  induction fuel with
  | zero =>
    refine ⟨?_, ?_, ?_, ?_⟩
    · intro l useNext rest data c; unfold decSend; exact rel_unsupported c
    · intro d drec rest inp c; unfold decLoop; exact rel_unsupported c
    · intro d drec rest inp c; unfold decStep; exact rel_unsupported c
    · intro ds data c; unfold decompress; exact rel_unsupported c
  | succ k ih =>
    obtain ⟨ihS, ihL, ihT, ihD⟩ := ih
    refine ⟨?_, ?_, ?_, ?_⟩
    · intro l useNext rest data c
      unfold decSend
      split
      · exact ihD ..
      · exact rel_decFinalCallback ..
    · intro d drec rest inp c
      unfold decLoop
      split
      · exact Rel.refl c
      · by_cases hfull : (drec.buf.length == GZIP_BUF_SIZE) = true
        · simp only [hfull, if_true]
          rcases hx : decSend cfg req uid false k (drec.kind != 0) rest (some drec.buf) c with ⟨rest1, c1, rc1⟩
          have f1 : Rel c c1 := by have := ihS false (drec.kind != 0) rest (some drec.buf) c; rw [hx] at this; exact this
          simp only
          by_cases hrc : (rc1 != Rc.ok) = true
          · simp only [hrc, if_true]; exact f1
          · simp only [hrc, Bool.false_eq_true, if_false]
            exact f1.trans (ihT ..)
        · simp only [hfull, Bool.false_eq_true, if_false]
          exact ihT ..
    · intro d drec rest inp c
      unfold decStep
      split
      · exact rel_unsupported c
      split
      · exact Rel.refl c
      split
      · exact rel_unsupported c
      · rename_i z zs hz
        simp only
        generalize (if ((drec.buf ++ z.produced).length > 0 && z.rc == Z_DATA_ERROR) = true then Z_STREAM_END else z.rc) = rcv
        split
        · -- stream end: the buffer goes out
          rcases hx : decSend cfg req uid false k (drec.kind != 0) rest (some (drec.buf ++ z.produced)) { c with zoracle := zs } with ⟨rest1, c1, rc1⟩
          have f1 : Rel c c1 := by
            have := ihS false (drec.kind != 0) rest (some (drec.buf ++ z.produced)) { c with zoracle := zs }
            rw [hx] at this; exact (rel_zoracle c zs).trans this
          simp only
          split <;> exact f1
        · split
          · split
            · split
              · exact rel_zoracle c zs
              · exact (rel_zoracle c zs).trans (ihL ..)
            · rcases hx : decFinalCallback cfg req uid false (some d) { c with zoracle := zs } with ⟨c1, rc1⟩
              have f1 : Rel c c1 := by
                have := rel_decFinalCallback cfg req uid false (some d) { c with zoracle := zs }
                rw [hx] at this; exact (rel_zoracle c zs).trans this
              simp only
              split <;> exact f1
          · exact (rel_zoracle c zs).trans (ihL ..)
    · intro ds data c
      unfold decompress
      cases ds with
      | nil => exact Rel.refl c
      | cons drec rest =>
        simp only
        split
        · rcases hx : decFinalCallback cfg req uid data.isNone data c with ⟨c1, rc1⟩
          have f1 : Rel c c1 := by have := rel_decFinalCallback cfg req uid data.isNone data c; rw [hx] at this; exact this
          exact f1
        · cases data with
          | none =>
            simp only
            rcases hx : decSend cfg req uid true k (drec.kind != 0) rest (if drec.buf.length > 0 then some drec.buf else none) c with ⟨rest1, c1, rc1⟩
            have f1 : Rel c c1 := by
              have := ihS true (drec.kind != 0) rest (if drec.buf.length > 0 then some drec.buf else none) c; rw [hx] at this; exact this
            simp only
            split <;> exact f1
          | some d => exact ihL ..


/-- body processing never decreases the accounted lengths - with or without the request decompressor in the way -/
theorem rel_reqProcessBodyData (cfg : Cfg) (data : Option Bytes) (g : Nat) (c : Conn) :
    Rel c (reqProcessBodyData cfg data g c).1 := by
  unfold reqProcessBodyData
  cases c.inn.tx with
  | none => exact Rel.refl c
  | some uid =>
    simp only
    split
    · split
      · exact Rel.refl c
      · split
        · exact rel_unsupported c
        split
        · exact rel_unsupported c
        · rcases hx : decompress cfg true uid (8 * (data.map (·.length)).getD g + 128) c.inDecs data c with ⟨ds, c1, rc1⟩
          have f1 : Rel c c1 := by
            have := (rel_dec cfg true uid (8 * (data.map (·.length)).getD g + 128)).2.2.2 c.inDecs data c
            rw [hx] at this; exact this
          simp only
          exact f1.trans pframe!
    · have h := rel_reqRunHookBodyData cfg data g
        (c.modTx uid fun t => { t with reqEntityLen := t.reqEntityLen + (data.map (·.length)).getD g })
      split <;> exact (rel_modTx _ _ c).trans h


/-! ### receivers and the transaction state functions of the request side -/

theorem rel_reqReceiverSend (l : Bool) (c : Conn) : Rel c (reqReceiverSend l c).1 := by
  unfold reqReceiverSend
  cases c.inn.receiverHook with
  | none => exact Rel.refl c
  | some h =>
    simp only
    apply rel_andThen
    · exact rel_runCallback ..
    · intro c2; exact pframe!

theorem rel_reqReceiverFinalizeClear (c : Conn) : Rel c (reqReceiverFinalizeClear c).1 := by
  unfold reqReceiverFinalizeClear
  cases c.inn.receiverHook with
  | none => exact Rel.refl c
  | some h =>
    simp only
    exact (rel_reqReceiverSend true c).trans pframe!

theorem rel_reqReceiverSet (h : Hook) (c : Conn) : Rel c (reqReceiverSet h c).1 := by
  unfold reqReceiverSet
  simp only
  exact (rel_reqReceiverFinalizeClear c).trans pframe!

theorem rel_txFinalize (cfg : Cfg) (uid : Nat) (c : Conn) : Rel c (txFinalize cfg uid c).1 := by
  unfold txFinalize
  cases c.findTx uid with
  | none => exact Rel.refl c
  | some t =>
    simp only
    split
    · exact Rel.refl c
    · apply rel_andThen
      · exact rel_runCallback ..
      · intro c1
        split
        · split
          · exact rel_destroyTx ..
          · exact Rel.refl _
        · exact Rel.refl _

theorem rel_txStateRequestCompletePartial (cfg : Cfg) (uid : Nat) (c : Conn) :
    Rel c (txStateRequestCompletePartial cfg uid c).1 := by
  unfold txStateRequestCompletePartial
  simp only
  apply rel_andThen
  · split
    · exact rel_reqProcessBodyData ..
    · exact Rel.refl c
  · intro c1
    apply rel_andThen
    · exact (rel_modTx _ _ c1).trans (rel_runCallback ..)
    · intro c2
      apply rel_andThen
      · exact rel_reqReceiverFinalizeClear c2
      · intro c3; exact pframe!

theorem rel_txStateRequestComplete (cfg : Cfg) (uid : Nat) (c : Conn) : Rel c (txStateRequestComplete cfg uid c).1 := by
  unfold txStateRequestComplete
  simp only
  apply rel_andThen
  · split
    · exact rel_txStateRequestCompletePartial ..
    · exact Rel.refl c
  · intro c1
    have kf := rel_txFinalize cfg uid { c1 with inState := if ((c1.findTx uid).map (·.is09)).getD ((c.findTx uid).getD { uid := uid }).is09 then .ignoreDataAfter09 else .idle }
    rcases hx : txFinalize cfg uid { c1 with inState := if ((c1.findTx uid).map (·.is09)).getD ((c.findTx uid).getD { uid := uid }).is09 then .ignoreDataAfter09 else .idle } with ⟨c2, rc2⟩
    rw [hx] at kf
    exact then_pframe! (of_pframe! kf)

theorem rel_txStateRequestStart (uid : Nat) (c : Conn) : Rel c (txStateRequestStart uid c).1 := by
  unfold txStateRequestStart
  apply rel_andThen
  · exact rel_runCallback ..
  · intro c1
    exact of_pframe! (rel_modIn _ { c1 with inState := .line })

theorem rel_processRequestHeader (data : Bytes) (c : Conn) : Rel c (processRequestHeader data c).1 := by
  unfold processRequestHeader
  simp only
  exact (rel_modIn _ c).trans (rel_modIn _ _)

theorem rel_reqFlushHeader (c : Conn) : Rel c (reqFlushHeader c).1 := by
  unfold reqFlushHeader
  cases c.inn.header with
  | none => exact Rel.refl c
  | some h =>
    simp only
    have := rel_processRequestHeader h c
    split
    · exact this
    · exact this.trans pframe!

theorem rel_installUrlenc (cfg : Cfg) (uid : Nat) (t : Tx) (c : Conn) (ht : t.uid = uid) : Rel c (installUrlenc cfg uid t c) := by
  unfold installUrlenc
  simp only []
  repeat' split
  all_goals first | exact Rel.refl c | exact rel_setTx_getD ht ⟨rfl, ProgLe.refl _⟩

theorem rel_installMpart (cfg : Cfg) (uid : Nat) (t : Tx) (c : Conn) (ht : t.uid = uid) : Rel c (installMpart cfg uid t c) := by
  unfold installMpart
  simp only []
  repeat' split
  all_goals first | exact Rel.refl c | exact rel_setTx_getD ht ⟨rfl, ProgLe.refl _⟩

theorem rel_txProcessRequestHeadersTail (cfg : Cfg) (uid : Nat) (t : Tx) (ae : Bool) (c : Conn) (ht : t.uid = uid) :
    Rel c (txProcessRequestHeadersTail cfg uid t ae c).1 := by
  unfold txProcessRequestHeadersTail
  split
  · exact Rel.refl c
  · apply rel_andThen
    · exact rel_reqReceiverFinalizeClear c
    · intro c1
      exact ((rel_installUrlenc cfg uid t c1 ht).trans (rel_installMpart cfg uid t _ ht)).trans (rel_runCallback ..)

/-- **htp_tx_process_request_headers never decreases the accounted lengths**: the record it writes back is the one it read, with other fields changed (flags go through
    the framing arbitration, the host determination and the credentials parser) -/
theorem rel_txProcessRequestHeaders (cfg : Cfg) (uid : Nat) (c : Conn) : Rel c (txProcessRequestHeaders cfg uid c).1 := by
  unfold txProcessRequestHeaders
  extract_lets t0 ce enc c2 t1 c1 fr t2 hasBody c0 un
  have k2 : Rel c c2 := rel_modTx ..
  have e1 : c1.txs = c2.txs ∧ c1.nextUid = c2.nextUid := by
    simp only [c1]
    split
    · exact ⟨rfl, rfl⟩
    · exact ⟨rfl, rfl⟩
  have e0 : c0.txs = c2.txs ∧ c0.nextUid = c2.nextUid := by
    simp only [c0]
    split
    · exact e1
    · exact e1
  have hf0 : c0.findTx uid = c2.findTx uid := by unfold Conn.findTx; rw [e0.1]
  have ht2 : TxLe t1 t2 := ⟨rfl, by simp only [t2]; prog_mono⟩
  clear_value c0
  split
  rename_i hn pn fl heq
  extract_lets t3 t4 t5
  have h3 : TxLe t1 t3 := ht2.trans ⟨rfl, by prog_mono⟩
  have h4 : TxLe t1 t4 := by
    simp only [t4]
    split
    · exact h3.trans ⟨rfl, ProgLe.refl _⟩
    · exact h3
  have h5 : TxLe t1 t5 := by
    simp only [t5]
    repeat' split
    all_goals first | exact h4 | exact h4.trans ⟨rfl, ProgLe.refl _⟩
  clear_value t5
  split
  rename_i T ae heq
  have hT : TxLe t1 T := by
    have e := congrArg Prod.fst heq
    simp only at e
    rw [← e]
    repeat' split
    all_goals first | exact h5 | exact h5.trans ⟨rfl, ProgLe.refl _⟩ | exact h5.trans ⟨rfl, by prog_mono⟩
  have hu : T.uid = uid := by rw [hT.uid]; exact getD_uid c2 uid
  have ks : Rel c0 (c0.setTx T) := rel_setTx_getD (d := { uid := uid }) rfl (by rw [hf0]; exact hT)
  exact ((k2.trans (Rel.frame e0.1 e0.2)).trans ks).trans (rel_txProcessRequestHeadersTail cfg uid T ae _ hu)

theorem rel_urlencQueryCallback (cfg : Cfg) (uid : Nat) (c : Conn) : Rel c (urlencQueryCallback cfg uid c) := by
  unfold urlencQueryCallback
  cases hf : c.findTx uid with
  | none => exact Rel.refl c
  | some t =>
    simp only []
    repeat' split
    all_goals first | exact Rel.refl c | exact rel_setTx_find hf ⟨rfl, by prog_mono⟩

/-- **htp_tx_state_request_line never decreases the accounted lengths**: CONNECT authority check, URI normalisation, host validation -/
theorem rel_txStateRequestLine (cfg : Cfg) (uid : Nat) (c : Conn) : Rel c (txStateRequestLine cfg uid c).1 := by
  unfold txStateRequestLine
  extract_lets t0 hp fl1 fl2 src t1 t2 t3 c1
  split
  · exact Rel.refl c
  · have h1 : TxLe t0 t1 := by
      simp only [t1]
      split
      · refine ⟨rfl, ?_⟩
        simp only [fl2, fl1]
        repeat' split
        all_goals prog_mono
      · split
        · exact ⟨rfl, ProgLe.refl _⟩
        · exact TxLe.refl _
    have h2 : TxLe t0 t2 := by
      simp only [t2]
      split
      · exact h1
      · exact h1.trans ⟨rfl, by prog_mono⟩
    have h3 : TxLe t0 t3 := by
      simp only [t3]
      repeat' split
      all_goals first | exact h2 | exact h2.trans ⟨rfl, by prog_mono⟩
    have hc1 : Rel c c1 := rel_setTx_getD (d := { uid := uid }) rfl h3
    clear_value c1
    refine hc1.trans (rel_andThen c1 _ _ (rel_runCallback ..) ?_)
    intro c2
    have k3 : Rel c2 (if cfg.urlencParsers then urlencQueryCallback cfg uid c2 else c2) := by
      split
      · exact rel_urlencQueryCallback ..
      · exact Rel.refl _
    apply rel_andThen
    · exact k3.trans (rel_runCallback ..)
    · intro c3; exact pframe!

theorem rel_txStateRequestHeaders (cfg : Cfg) (uid : Nat) (c : Conn) : Rel c (txStateRequestHeaders cfg uid c).1 := by
  unfold txStateRequestHeaders
  simp only
  split
  · apply rel_andThen
    · exact rel_runCallback ..
    · intro c1
      apply rel_andThen
      · exact rel_reqReceiverFinalizeClear c1
      · intro c2; exact pframe!
  · split
    · have k0 : Rel c (if c.inChunkCount != c.inChunkRequestIndex then c.modTx uid (fun t => { t with flags := t.flags ||| MULTI_PACKET_HEAD }) else c) := by
        split
        · exact rel_modTx ..
        · exact Rel.refl c
      apply rel_andThen
      · exact k0.trans (rel_txProcessRequestHeaders ..)
      · intro c1; exact pframe!
    · exact Rel.refl c

/-! ### the fourteen request state functions -/

theorem rel_inn (c : Conn) (d : Dir) : Rel c { c with inn := d } := pframe!

theorem rel_reqIdle (cfg : Cfg) (c : Conn) : Rel c (reqIdle cfg c).1 := by
  unfold reqIdle
  split
  · exact Rel.refl c
  · have k := rel_txCreate cfg c
    rcases hx : txCreate cfg c with ⟨c1, u⟩
    rw [hx] at k
    simp only at k ⊢
    cases u with
    | none => exact k.trans pframe!
    | some uid =>
      simp only
      have k2 := rel_txStateRequestStart uid c1
      rcases hy : txStateRequestStart uid c1 with ⟨c2, rc2⟩
      rw [hy] at k2
      exact k.trans k2

theorem rel_reqLineComplete (cfg : Cfg) (c : Conn) : Rel c (reqLineComplete cfg c).1 := by
  unfold reqLineComplete
  cases hc : c.inn.consolidate cfg.fieldLimitHard true with
  | none => exact Rel.refl c
  | some p =>
    obtain ⟨d, data⟩ := p
    simp -zeta only
    extract_lets c0 ci line rl c1
    have ki : Rel c ci := (rel_inn c d).trans (rel_modIn _ c0)
    have k1 : Rel c c1 := (rel_inn c d).trans (rel_modIn _ c0)
    clear_value ci c1
    split
    · exact pframe!
    · split
      · exact ki.trans pframe!
      · cases c1.inn.tx with
        | none => exact k1
        | some uid =>
          simp only
          have k2 := rel_txStateRequestLine cfg uid c1
          rcases hy : txStateRequestLine cfg uid c1 with ⟨c2, rc2⟩
          rw [hy] at k2
          simp only at k2 ⊢
          split
          · exact k1.trans k2
          · exact (k1.trans k2).trans pframe!

theorem rel_reqLineLoop (cfg : Cfg) (fuel : Nat) (c : Conn) : Rel c (reqLineLoop cfg fuel c).1 := by
  induction fuel generalizing c with
  | zero => unfold reqLineLoop; exact Rel.refl c
  | succ k ih =>
    unfold reqLineLoop
    simp only
    split
    · exact (rel_inn c _).trans (rel_reqLineComplete cfg _)
    · cases hn : (c.inn.peekSet).1.copyByte with
      | none => exact pframe!
      | some p =>
        obtain ⟨d, b⟩ := p
        simp only
        split
        · exact (rel_inn c _).trans (rel_reqLineComplete cfg _)
        · exact (rel_inn c _).trans (ih _)

theorem rel_reqProtocol (c : Conn) : Rel c (reqProtocol c).1 := by
  have k1 : Rel c ({ c with inState := .headers }.modIn (fun t => { t with reqProgress := 2 })) :=
    of_pframe! (rel_modIn _ { c with inState := .headers })
  unfold reqProtocol
  simp only []
  repeat' split
  all_goals first
    | exact pframe!
    | exact k1
    | exact k1.trans (rel_modIn _ _)

theorem rel_reqHeadersLoop (cfg : Cfg) (fuel : Nat) (c : Conn) : Rel c (reqHeadersLoop cfg fuel c).1 := by
  induction fuel generalizing c with
  | zero => unfold reqHeadersLoop; exact Rel.refl c
  | succ k ih =>
    unfold reqHeadersLoop
    cases c.inn.tx with
    | none => exact Rel.refl c
    | some uid =>
      simp only
      split
      · apply rel_andThen
        · exact rel_reqFlushHeader c
        · intro c1
          exact (rel_inn c1 c1.inn.clearBuffer).trans ((rel_modIn _ _).trans (rel_txStateRequestHeaders ..))
      · cases hn : c.inn.copyByte with
        | none => exact Rel.refl c
        | some p =>
          obtain ⟨d, b⟩ := p
          simp only
          split
          · exact (rel_inn c d).trans (ih _)
          · cases hc : d.consolidate cfg.fieldLimitHard true with
            | none => exact pframe!
            | some q =>
              obtain ⟨d2, data⟩ := q
              simp only
              split
              · apply rel_andThen
                · exact (rel_inn c d2).trans (rel_reqFlushHeader _)
                · intro c1
                  exact (rel_inn c1 _).trans (rel_txStateRequestHeaders ..)
              · apply rel_andThen
                · split
                  · apply rel_andThen
                    · exact (rel_inn c d2).trans (rel_reqFlushHeader _)
                    · intro c1
                      split
                      · split
                        · have kk := rel_processRequestHeader (Parse.chomp data).1 { c1 with inn := (c1.inn.peekSet).1 }
                          split
                          · exact (rel_inn c1 _).trans kk
                          · exact (rel_inn c1 _).trans kk
                        · exact pframe!
                      · exact pframe!
                  · split
                    · exact then_pframe! ((rel_inn c d2).trans (rel_modIn (fun t => { t with flags := t.flags ||| INVALID_FOLDING }) _))
                    · split
                      · exact pframe!
                      · exact pframe!
                · intro c1
                  exact (rel_inn c1 _).trans (ih _)

theorem rel_reqConnectCheck (c : Conn) : Rel c (reqConnectCheck c).1 := by
  unfold reqConnectCheck
  split <;> exact pframe!

theorem rel_reqConnectWaitResponse (c : Conn) : Rel c (reqConnectWaitResponse c).1 := by
  unfold reqConnectWaitResponse
  simp only []
  repeat' split
  all_goals exact pframe!

theorem rel_reqConnectProbeLoop (cfg : Cfg) (fuel : Nat) (c : Conn) : Rel c (reqConnectProbeLoop cfg fuel c).1 := by
  induction fuel generalizing c with
  | zero => unfold reqConnectProbeLoop; exact Rel.refl c
  | succ k ih =>
    unfold reqConnectProbeLoop
    simp only
    split
    · cases hc : (c.inn.peekSet).1.consolidate cfg.fieldLimitHard true with
      | none => exact pframe!
      | some q =>
        obtain ⟨d2, data⟩ := q
        simp only
        split
        · split
          · rename_i uid _
            exact (rel_inn c d2).trans (rel_txStateRequestComplete cfg uid _)
          · exact pframe!
        · exact pframe!
    · cases hn : (c.inn.peekSet).1.copyByte with
      | none => exact pframe!
      | some p =>
        obtain ⟨d, b⟩ := p
        exact (rel_inn c d).trans (ih _)

theorem rel_reqBodyDetermine (c : Conn) : Rel c (reqBodyDetermine c).1 := by
  unfold reqBodyDetermine
  simp only []
  repeat' split
  all_goals first
    | exact pframe!
    | exact of_pframe! (rel_modIn _ { c with inState := .bodyChunkedLength })
    | exact of_pframe! (rel_modIn _ { c with inn := { c.inn with contentLength := c.inTx.reqContentLength, bodyDataLeft := c.inTx.reqContentLength }, inState := ReqState.bodyIdentity })

theorem rel_reqBodyIdentity (cfg : Cfg) (c : Conn) : Rel c (reqBodyIdentity cfg c).1 := by
  unfold reqBodyIdentity
  extract_lets avail n data
  clear_value n data
  split
  · exact Rel.refl c
  · have k := rel_reqProcessBodyData cfg data (if c.inn.curNull then n.toNat else 0) c
    rcases hx : reqProcessBodyData cfg data (if c.inn.curNull then n.toNat else 0) c with ⟨c1, rc1⟩
    rw [hx] at k
    simp only at k ⊢
    have k2 : Rel c ({ c1 with inn := { c1.inn.advance n with bodyDataLeft := c1.inn.bodyDataLeft - n } }.modIn
        (fun t => { t with reqMessageLen := t.reqMessageLen + n.toNat })) :=
      k.trans (of_pframe! (rel_modIn _ { c1 with inn := { c1.inn.advance n with bodyDataLeft := c1.inn.bodyDataLeft - n } }))
    split
    · exact k
    · split
      · exact k2.trans pframe!
      · exact k2

theorem rel_reqChunkedDataEndLoop (fuel : Nat) (c : Conn) : Rel c (reqChunkedDataEndLoop fuel c).1 := by
  induction fuel generalizing c with
  | zero => unfold reqChunkedDataEndLoop; exact Rel.refl c
  | succ k ih =>
    unfold reqChunkedDataEndLoop
    cases hn : c.inn.nextByteConsume with
    | none => exact Rel.refl c
    | some p =>
      obtain ⟨d, b⟩ := p
      simp only
      have k1 : Rel c ({ c with inn := d }.modIn (fun t => { t with reqMessageLen := t.reqMessageLen + 1 })) :=
        (rel_inn c d).trans (rel_modIn _ _)
      split
      · exact k1.trans pframe!
      · exact k1.trans (ih _)

theorem rel_reqBodyChunkedData (cfg : Cfg) (c : Conn) : Rel c (reqBodyChunkedData cfg c).1 := by
  unfold reqBodyChunkedData
  extract_lets avail n data
  clear_value n data
  split
  · exact Rel.refl c
  · have k := rel_reqProcessBodyData cfg (some data) 0 c
    rcases hx : reqProcessBodyData cfg (some data) 0 c with ⟨c1, rc1⟩
    rw [hx] at k
    simp only at k ⊢
    have k2 : Rel c ({ c1 with inn := { c1.inn.advance n with chunkedLength := c1.inn.chunkedLength - n } }.modIn
        (fun t => { t with reqMessageLen := t.reqMessageLen + n.toNat })) :=
      k.trans (of_pframe! (rel_modIn _ { c1 with inn := { c1.inn.advance n with chunkedLength := c1.inn.chunkedLength - n } }))
    split
    · exact k
    · split
      · exact k2.trans pframe!
      · exact k2

theorem rel_reqChunkedLengthLoop (cfg : Cfg) (fuel : Nat) (c : Conn) : Rel c (reqChunkedLengthLoop cfg fuel c).1 := by
  induction fuel generalizing c with
  | zero => unfold reqChunkedLengthLoop; exact Rel.refl c
  | succ k ih =>
    unfold reqChunkedLengthLoop
    cases hn : c.inn.copyByte with
    | none => exact Rel.refl c
    | some p =>
      obtain ⟨d, b⟩ := p
      simp -zeta only
      extract_lets c0
      have h0 : Rel c c0 := rel_inn c d
      split
      · exact h0.trans (ih _)
      · cases hc : c0.inn.consolidate cfg.fieldLimitHard true with
        | none => exact h0
        | some q =>
          obtain ⟨d2, data⟩ := q
          simp -zeta only
          extract_lets c1 line src c2
          have h1 : Rel c c1 := (h0.trans (rel_inn c0 d2)).trans (rel_modIn _ _)
          have h2 : Rel c c2 := h1.trans pframe!
          clear_value c2 c1
          split
          · exact h2.trans pframe!
          · split
            · exact h2.trans (of_pframe! (rel_modIn _ { c2 with inState := .headers }))
            · exact h2

theorem rel_reqIgnore (c : Conn) : Rel c (reqIgnoreDataAfter09 c).1 := by
  unfold reqIgnoreDataAfter09
  simp only []
  split <;> exact pframe!

theorem rel_reqFinalize (cfg : Cfg) (c : Conn) : Rel c (reqFinalize cfg c).1 := by
  unfold reqFinalize
  cases c.inn.tx with
  | none => exact Rel.refl c
  | some uid =>
    simp -zeta only
    extract_lets cp pre
    have hp : ∀ c' b, pre = some (c', b) → Same c c' := by
      intro c' b hpre
      simp only [pre] at hpre
      split at hpre
      · split at hpre
        · simp only [Option.some.injEq, Prod.mk.injEq] at hpre; rw [← hpre.1]; exact ⟨rfl, rfl⟩
        · split at hpre
          · split at hpre
            · simp at hpre
            · simp only [Option.some.injEq, Prod.mk.injEq] at hpre
              rw [← hpre.1]; exact ⟨rfl, rfl⟩
          · simp only [Option.some.injEq, Prod.mk.injEq] at hpre; rw [← hpre.1]; exact ⟨rfl, rfl⟩
      · simp only [Option.some.injEq, Prod.mk.injEq] at hpre; rw [← hpre.1]; exact ⟨rfl, rfl⟩
    clear_value pre
    have viaComplete : ∀ c' : Conn, Same c c' →
        Rel c (txStateRequestComplete cfg uid c').1 :=
      fun c' h' => (rel_of_same h').trans (rel_txStateRequestComplete ..)
    split
    · exact pframe!
    · rename_i _ c1
      exact viaComplete c1 (hp _ _ rfl)
    · rename_i _ c1
      have h1 := hp _ _ rfl
      clear hp
      cases hc : c1.inn.consolidate cfg.fieldLimitHard true with
      | none => exact rel_of_same h1
      | some q =>
        obtain ⟨d2, data⟩ := q
        simp -zeta only
        extract_lets c2
        have h2 : Same c c2 := h1
        clear_value c2
        split
        · exact viaComplete c2 h2
        · rename_i src go _
          have hgo : ∀ c', go = some c' → Same c c' := by
            intro c' hg
            simp only [go] at hg
            split at hg
            · split at hg
              · simp at hg
              · simp only [Option.some.injEq] at hg
                rw [← hg]
                split
                · exact h2
                · exact h2
            · simp only [Option.some.injEq] at hg; rw [← hg]; exact h2
          clear_value go
          split
          · exact viaComplete _ h2
          · rename_i c3
            have h3 := hgo _ rfl
            clear hgo
            extract_lets r
            have hr : ∀ c' dd, r = some (c', dd) → Same c c' := by
              intro c' dd hh
              simp only [r] at hh
              split at hh
              · cases hcb : c3.inn.copyByte with
                | none => rw [hcb] at hh; simp at hh
                | some p =>
                  obtain ⟨d4, b4⟩ := p
                  rw [hcb] at hh
                  simp only at hh
                  cases hc4 : d4.consolidate cfg.fieldLimitHard true with
                  | none =>
                    rw [hc4] at hh
                    simp only [Option.some.injEq, Prod.mk.injEq] at hh
                    rw [← hh.1]; exact h3
                  | some q4 =>
                    obtain ⟨d5, data5⟩ := q4
                    rw [hc4] at hh
                    simp only [Option.some.injEq, Prod.mk.injEq] at hh
                    rw [← hh.1]; exact h3
              · simp only [Option.some.injEq, Prod.mk.injEq] at hh; rw [← hh.1]; exact h3
            clear_value r
            split
            · exact rel_of_same h3
            · rename_i c6 data6
              have h6 := hr _ _ rfl
              have k := rel_reqProcessBodyData cfg (some data6) 0 c6
              rcases hx : reqProcessBodyData cfg (some data6) 0 c6 with ⟨c7, rc7⟩
              rw [hx] at k
              simp only at k ⊢
              exact ((rel_of_same h6).trans k).trans pframe!

theorem rel_reqHandleStateChange (c : Conn) : Rel c (reqHandleStateChange c).1 := by
  unfold reqHandleStateChange
  split
  · exact Rel.refl c
  · simp only
    apply rel_andThen
    · repeat' split
      all_goals first | exact Rel.refl c | exact rel_reqReceiverSet _ c
    · intro c1; exact pframe!

theorem rel_reqStateFn (cfg : Cfg) (c : Conn) : Rel c (reqStateFn cfg c).1 := by
  unfold reqStateFn
  cases c.inState with
  | idle => exact rel_reqIdle cfg c
  | line => exact rel_reqLineLoop cfg _ c
  | protocol => exact rel_reqProtocol c
  | headers => exact rel_reqHeadersLoop cfg _ c
  | connectCheck => exact rel_reqConnectCheck c
  | connectWaitResponse => exact rel_reqConnectWaitResponse c
  | connectProbeData => exact rel_reqConnectProbeLoop cfg _ c
  | bodyDetermine => exact rel_reqBodyDetermine c
  | bodyIdentity => exact rel_reqBodyIdentity cfg c
  | bodyChunkedLength => exact rel_reqChunkedLengthLoop cfg _ c
  | bodyChunkedData => exact rel_reqBodyChunkedData cfg c
  | bodyChunkedDataEnd => exact rel_reqChunkedDataEndLoop _ c
  | finalize => exact rel_reqFinalize cfg c
  | ignoreDataAfter09 => exact rel_reqIgnore c

theorem rel_reqStoreChunk (data : Option Bytes) (len : Nat) (c : Conn) : Rel c (reqStoreChunk data len c) := pframe!

theorem rel_reqWakeOther (c : Conn) : Rel c (reqWakeOther c) := by
  unfold reqWakeOther
  split <;> exact pframe!


/-- the for(;;) of htp_connp_req_data never decreases the accounted lengths - data, gap or close, any fuel -/
theorem rel_reqDriverLoop (cfg : Cfg) (gap : Bool) (fuel : Nat) (c : Conn) : Rel c (reqDriverLoop cfg gap fuel c).1 := by
  induction fuel generalizing c with
  | zero => unfold reqDriverLoop; exact pframe!
  | succ k ih =>
    unfold reqDriverLoop
    simp only
    -- what happens with the answer of one pass
    have tail : ∀ (c1 : Conn) (rc1 : Rc), Rel c c1 → Rel c
        (match (if (rc1 == Rc.ok) = true then
                  if (c1.inn.status == STREAM_TUNNEL) = true then (c1, Rc.ok) else reqHandleStateChange c1
                else (c1, rc1) : R) with
         | (c, rc) =>
          if (rc == Rc.ok) = true then
            if (c.inn.status == STREAM_TUNNEL) = true then (c, STREAM_TUNNEL) else reqDriverLoop cfg gap k c
          else if (rc == Rc.data || rc == Rc.dataBuffer) = true then
            (match reqReceiverSend false c with
             | (c, _) =>
               if (rc == Rc.dataBuffer) = true then
                 (match c.inn.buffer cfg.fieldLimitHard true with
                  | none => (({ c with inn := { c.inn with status := STREAM_ERROR } }, STREAM_ERROR) : Conn × Nat)
                  | some d => ({ c with inn := { d with status := STREAM_DATA } }, STREAM_DATA))
               else ({ c with inn := { c.inn with status := STREAM_DATA } }, STREAM_DATA))
          else if (rc == Rc.dataOther) = true then
            (if c.inn.read ≥ c.inn.len then ({ c with inn := { c.inn with status := STREAM_DATA } }, STREAM_DATA)
             else ({ c with inn := { c.inn with status := STREAM_DATA_OTHER } }, STREAM_DATA_OTHER))
          else if (rc == Rc.stop) = true then ({ c with inn := { c.inn with status := STREAM_STOP } }, STREAM_STOP)
          else ({ c with inn := { c.inn with status := STREAM_ERROR } }, STREAM_ERROR)).1 := by
      intro c1 rc1 k1
      have k2 : Rel c (if (rc1 == Rc.ok) = true then
                  if (c1.inn.status == STREAM_TUNNEL) = true then (c1, Rc.ok) else reqHandleStateChange c1
                else (c1, rc1) : R).1 := by
        split
        · split
          · exact k1
          · exact k1.trans (rel_reqHandleStateChange c1)
        · exact k1
      generalize (if (rc1 == Rc.ok) = true then
                  if (c1.inn.status == STREAM_TUNNEL) = true then (c1, Rc.ok) else reqHandleStateChange c1
                else (c1, rc1) : R) = r2 at k2 ⊢
      obtain ⟨c2, rc2⟩ := r2
      simp only at k2 ⊢
      split
      · split
        · exact k2
        · exact k2.trans (ih c2)
      · split
        · have kk := rel_reqReceiverSend false c2
          rcases hz : reqReceiverSend false c2 with ⟨c3, rc3⟩
          rw [hz] at kk
          simp only at kk ⊢
          split
          · cases hb : c3.inn.buffer cfg.fieldLimitHard true with
            | none => exact (k2.trans kk).trans pframe!
            | some d => exact (k2.trans kk).trans pframe!
          · exact (k2.trans kk).trans pframe!
        · repeat' split
          all_goals exact k2.trans pframe!
    split
    · exact Rel.refl c
    · rename_i c1 rc1 hstep
      have k1 : Rel c c1 := by
        split at hstep
        · split at hstep
          · simp only [Option.some.injEq] at hstep
            have := rel_reqStateFn cfg c
            rw [hstep] at this; exact this
          · split at hstep
            · split at hstep
              · rename_i uid _
                simp only [Option.some.injEq] at hstep
                have := rel_txStateRequestComplete cfg uid c
                rw [hstep] at this; exact this
              · simp only [Option.some.injEq, Prod.mk.injEq] at hstep
                rw [← hstep.1]; exact Rel.refl c
            · simp at hstep
        · simp only [Option.some.injEq] at hstep
          have := rel_reqStateFn cfg c
          rw [hstep] at this; exact this
      exact tail c1 rc1 k1

/-- **a request data call never decreases the accounted lengths** (data, gap or close) -/
theorem rel_reqData (cfg : Cfg) (data : Option Bytes) (len : Nat) (c : Conn) : Rel c (reqData cfg data len c).1 := by
  unfold reqData
  simp only
  have key : Rel c (reqDataCore cfg data len c).1 := by
    unfold reqDataCore
    split
    · exact Rel.refl c
    split
    · exact Rel.refl c
    split
    · exact pframe!
    split
    · exact Rel.refl c
    simp only
    split
    · exact rel_reqStoreChunk data len c
    · exact ((rel_reqStoreChunk data len c).trans (rel_reqWakeOther _)).trans (rel_reqDriverLoop cfg _ _ _)
  exact then_pframe! key


end Prog
end Conn
end Htp
