/- C05 PARTIAL, response direction, entry points and call histories: `Prog.rel_runCalls`, `history_req_progress_monotone_partial`
   (see Lemmas/ProgMono.lean for what `ProgLe` says and what is left open). -/
import HtpModel.Lemmas.ProgMono
import HtpModel.Lemmas.FlagsMonoOut
import HtpModel.Lemmas.History
namespace Htp.Conn
open Htp Htp.Gen
namespace Prog

theorem rel_out (c : Conn) (d : Dir) : Rel c { c with out := d } := pframe!

/-! ### receivers, body data, transaction state functions of the response side -/

theorem rel_resReceiverSend (l : Bool) (c : Conn) : Rel c (resReceiverSend l c).1 := by
  unfold resReceiverSend
  cases c.out.receiverHook with
  | none => exact Rel.refl c
  | some h =>
    simp only
    apply rel_andThen
    · exact rel_runCallback ..
    · intro c2; exact pframe!

theorem rel_resReceiverFinalizeClear (c : Conn) : Rel c (resReceiverFinalizeClear c).1 := by
  unfold resReceiverFinalizeClear
  cases c.out.receiverHook with
  | none => exact Rel.refl c
  | some h =>
    simp only
    exact (rel_resReceiverSend true c).trans pframe!

theorem rel_resReceiverSet (h : Hook) (c : Conn) : Rel c (resReceiverSet h c).1 := by
  unfold resReceiverSet
  simp only
  exact (rel_resReceiverFinalizeClear c).trans pframe!

theorem rel_resProcessBodyData (cfg : Cfg) (data : Option Bytes) (c : Conn) : Rel c (resProcessBodyData cfg data c).1 := by
  unfold resProcessBodyData
  cases c.out.tx with
  | none => exact Rel.refl c
  | some uid =>
    simp only
    have f0 : Rel c (c.modTx uid fun t => { t with resMessageLen := t.resMessageLen + (data.map (·.length)).getD 0 }) := rel_modTx ..
    split
    · split
      · exact f0
      · split
        · exact f0.trans (rel_unsupported _)
        · rcases hx : decompress cfg false uid (8 * (data.map (·.length)).getD 0 + 128)
            (c.modTx uid fun t => { t with resMessageLen := t.resMessageLen + (data.map (·.length)).getD 0 }).outDecs data
            (c.modTx uid fun t => { t with resMessageLen := t.resMessageLen + (data.map (·.length)).getD 0 }) with ⟨ds, c1, rc1⟩
          have f1 := (rel_dec cfg false uid (8 * (data.map (·.length)).getD 0 + 128)).2.2.2
            (c.modTx uid fun t => { t with resMessageLen := t.resMessageLen + (data.map (·.length)).getD 0 }).outDecs data
            (c.modTx uid fun t => { t with resMessageLen := t.resMessageLen + (data.map (·.length)).getD 0 })
          rw [hx] at f1
          simp only at f1 ⊢
          exact (f0.trans f1).trans pframe!
    · split
      · have h := rel_resRunHookBodyData data
          ((c.modTx uid fun t => { t with resMessageLen := t.resMessageLen + (data.map (·.length)).getD 0 }).modTx uid
            fun t => { t with resEntityLen := t.resEntityLen + (data.map (·.length)).getD 0 })
        have f2 := (f0.trans (rel_modTx uid (fun t => { t with resEntityLen := t.resEntityLen + (data.map (·.length)).getD 0 }) _)).trans h
        split <;> exact f2
      · exact f0

theorem rel_resProcessBodyDataGap (cfg : Cfg) (data : Option Bytes) (g : Nat) (c : Conn) :
    Rel c (resBodyIdentityClKnown.resProcessBodyDataGap cfg data g c).1 := by
  unfold resBodyIdentityClKnown.resProcessBodyDataGap
  split
  · exact rel_resProcessBodyData ..
  · cases c.out.tx with
    | none => exact Rel.refl c
    | some uid =>
      simp only
      have f0 : Rel c (c.modTx uid fun t => { t with resMessageLen := t.resMessageLen + g }) := rel_modTx ..
      split
      · have f1 := f0.trans (rel_modTx uid (fun t => { t with resEntityLen := t.resEntityLen + g }) _)
        split
        · refine f1.trans ?_
          apply rel_andThen
          · exact rel_runCallbackN ..
          · intro c2; exact rel_runCallback ..
        · refine f1.trans ?_
          apply rel_andThen
          · exact rel_runCallbackN ..
          · intro c2; exact rel_runCallback ..
      · exact f0.trans (rel_unsupported _)

theorem rel_processResponseHeader (d : Bytes) (c : Conn) : Rel c (processResponseHeader d c).1 := by
  unfold processResponseHeader
  simp only
  refine (rel_modOut _ c ?_).trans (rel_modOut _ _)
  intro t
  split
  · split
    · exact TxLe.refl t
    · exact ⟨rfl, by prog_mono⟩
  · exact ⟨rfl, by prog_mono⟩

theorem rel_resFlushHeader (c : Conn) : Rel c (resFlushHeader c).1 := by
  unfold resFlushHeader
  cases c.out.header with
  | none => exact Rel.refl c
  | some h =>
    simp only
    have := rel_processResponseHeader h c
    split
    · exact this
    · exact this.trans pframe!

theorem rel_txStateResponseLine (uid : Nat) (c : Conn) : Rel c (txStateResponseLine uid c).1 := by
  unfold txStateResponseLine
  simp only
  refine Rel.trans ?_ (rel_runCallback ..)
  split
  · exact rel_modTx ..
  · exact Rel.refl c

theorem rel_txStateResponseHeaders (cfg : Cfg) (uid : Nat) (c : Conn) : Rel c (txStateResponseHeaders cfg uid c).1 := by
  unfold txStateResponseHeaders
  rcases responseNeedsDecompressor cfg ((c.findTx uid).getD { uid := uid }) with ⟨enc, needs⟩
  simp only
  apply rel_andThen
  · exact (rel_modTx uid _ c).trans (rel_resReceiverFinalizeClear _)
  · intro c1
    apply rel_andThen
    · exact rel_runCallback ..
    · intro c2
      split
      · split
        · exact pframe!
        · cases ceChain cfg ((getHeaderC ((c.findTx uid).getD { uid := uid }).resHeaders (b!"content-encoding")).map (·.value) |>.getD []) with
          | nil => exact pframe!
          | cons ty rest =>
            exact of_pframe! (rel_modTx uid _ { c2 with outDecs := (ty :: rest).map (decCreate cfg), outDecompressor := true })
      · exact Rel.refl _

theorem rel_txStateResponseStart (uid : Nat) (c : Conn) : Rel c (txStateResponseStart uid c).1 := by
  unfold txStateResponseStart
  simp only
  apply rel_andThen
  · exact (rel_out c _).trans (rel_runCallback ..)
  · intro c1
    split
    · exact (rel_modTx uid _ c1).trans pframe!
    · exact (rel_modTx uid _ c1).trans pframe!

theorem rel_txStateResponseCompleteEx (cfg : Cfg) (uid : Nat) (c : Conn) : Rel c (txStateResponseCompleteEx cfg uid c).1 := by
  unfold txStateResponseCompleteEx
  simp only
  apply rel_andThen
  · split
    · apply rel_andThen
      · refine Rel.trans ?_ (rel_runCallback ..)
        split
        · exact (rel_modTx uid _ c).trans (rel_resProcessBodyData ..)
        · exact rel_modTx ..
      · intro c1; exact rel_resReceiverFinalizeClear _
    · exact Rel.refl c
  · intro c1
    split
    · exact Rel.refl _
    · split
      · exact pframe!
      · apply rel_andThen
        · exact rel_txFinalize ..
        · intro c2; exact pframe!

/-! ### the ten response state functions -/

theorem rel_resIdleUnmatched (cfg : Cfg) (c : Conn) : Rel c (resIdleUnmatched cfg c).1 := by
  unfold resIdleUnmatched
  have k := rel_txCreate cfg c
  rcases hx : txCreate cfg c with ⟨c2, u⟩
  rw [hx] at k
  simp only at k ⊢
  cases u with
  | none => exact k.trans pframe!
  | some uid =>
    simp only
    exact (k.trans (of_pframe! (rel_modTx uid (fun t => { t with uriNorm := some { path := some REQUEST_URI_NOT_SEEN }, uri := some REQUEST_URI_NOT_SEEN })
      { c2 with out := { c2.out with tx := some uid } }))).trans (of_pframe! (rel_txStateResponseStart uid _))

theorem rel_resIdle (cfg : Cfg) (c : Conn) : Rel c (resIdle cfg c).1 := by
  unfold resIdle
  split
  · exact Rel.refl c
  · simp only []
    split
    · have hk : Rel c (if c.inState == .finalize then (match c.inn.tx with | some uid => (txStateRequestComplete cfg uid c).1 | none => c) else c) := by
        split
        · split
          · exact rel_txStateRequestComplete ..
          · exact Rel.refl c
        · exact Rel.refl c
      exact hk.trans (rel_resIdleUnmatched cfg _)
    · rename_i t _
      exact Rel.trans (b := { c with outNextTxIndex := c.outNextTxIndex + 1, out := { c.out with tx := some t.uid, contentLength := -1, bodyDataLeft := -1 } })
        pframe! (rel_txStateResponseStart t.uid _)

theorem rel_resLineAsBody (cfg : Cfg) (uid : Nat) (dn : Bool) (data line : Bytes) (cr : Nat) (c : Conn) :
    Rel c (resLineAsBody cfg uid dn data line cr c).1 := by
  unfold resLineAsBody
  extract_lets nextIsH rd1 ln1 c1 c2 src c3
  have k1 : Rel c c1 := rel_modTx ..
  have k3 : Rel c c3 := (rel_modTx uid _ c).trans pframe!
  clear_value c1 c3
  split
  · exact k1.trans pframe!
  · have k := rel_resProcessBodyData cfg (if dn then none else some (data.take (line.length + cr))) c3
    rcases hx : resProcessBodyData cfg (if dn then none else some (data.take (line.length + cr))) c3 with ⟨c4, rc4⟩
    rw [hx] at k
    simp only at k ⊢
    split
    · exact (k3.trans k).trans pframe!
    · split
      · exact (k3.trans k).trans ((rel_out c4 _).trans ((rel_modTx uid _ _).trans pframe!))
      · exact (k3.trans k).trans pframe!

theorem rel_resLineComplete (cfg : Cfg) (uid : Nat) (closed : Bool) (c : Conn) : Rel c (resLineComplete cfg uid closed c).1 := by
  unfold resLineComplete
  cases hc : c.out.consolidate cfg.fieldLimitHard false with
  | none => exact Rel.refl c
  | some q =>
    obtain ⟨d2, data⟩ := q
    simp -zeta only
    extract_lets dataNull c0 c1 c2 c3 rl c4
    have h0 : Rel c c0 := rel_out c d2
    have h1 : Rel c c1 := by
      simp only [c1]
      split
      · exact h0.trans pframe!
      · exact h0
    have h2 : Rel c c2 := h1.trans (rel_modTx ..)
    have h3 : Rel c c3 := h0.trans (rel_modTx ..)
    have h4 : Rel c c4 := h3.trans (rel_modTx ..)
    clear_value c0 c1 c2 c3 c4 dataNull
    split
    · exact h2.trans pframe!
    · split
      · exact h3.trans (rel_resLineAsBody ..)
      · refine h4.trans ?_
        apply rel_andThen
        · exact rel_txStateResponseLine uid c4
        · intro c5
          exact of_pframe! (rel_modTx uid _ { c5 with out := c5.out.clearBuffer, outState := .headers })

theorem rel_resLineLoop (cfg : Cfg) (fuel : Nat) (c : Conn) : Rel c (resLineLoop cfg fuel c).1 := by
  induction fuel generalizing c with
  | zero => unfold resLineLoop; exact Rel.refl c
  | succ k ih =>
    unfold resLineLoop
    cases c.out.tx with
    | none => exact Rel.refl c
    | some uid =>
      simp only
      split
      · exact Rel.refl c
      · rename_i c1 h1
        have e1 : Same c c1 := by
          split at h1
          · cases hcb : c.out.copyByte with
            | none => rw [hcb] at h1; simp at h1
            | some p =>
              obtain ⟨d, b⟩ := p
              rw [hcb] at h1
              simp only [Option.some.injEq] at h1
              rw [← h1]; exact ⟨rfl, rfl⟩
          · simp only [Option.some.injEq] at h1; rw [← h1]; exact ⟨rfl, rfl⟩
        split
        · exact (rel_of_same e1).trans pframe!
        · rename_i c2 h2
          have e2 : Same c c2 := by
            split at h2
            · simp only [Dir.peekSet] at h2
              cases hp : c1.out.peek with
              | none => rw [hp] at h2; simp at h2
              | some b =>
                rw [hp] at h2
                simp only at h2
                split at h2
                · simp only [Except.ok.injEq, Prod.mk.injEq] at h2; rw [← h2.1]; exact e1
                · simp only [Except.ok.injEq, Prod.mk.injEq] at h2; simp at h2
            · simp only [Except.ok.injEq, Prod.mk.injEq] at h2; simp at h2
          exact (rel_of_same e2).trans (ih c2)
        · rename_i c2 h2
          have e2 : Same c c2 := by
            split at h2
            · simp only [Dir.peekSet] at h2
              cases hp : c1.out.peek with
              | none => rw [hp] at h2; simp at h2
              | some b =>
                rw [hp] at h2
                simp only at h2
                split at h2
                · simp only [Except.ok.injEq, Prod.mk.injEq] at h2; simp at h2
                · simp only [Except.ok.injEq, Prod.mk.injEq] at h2; rw [← h2.1]; exact e1
            · simp only [Except.ok.injEq, Prod.mk.injEq] at h2; rw [← h2.1]; exact e1
          split
          · exact (rel_of_same e2).trans (ih c2)
          · exact (rel_of_same e2).trans (rel_resLineComplete ..)

theorem eol_same (b : UInt8) (lfcr : Bool) (c : Conn) :
    ∀ c2 l e a, resHeadersEol b lfcr c = .ok (c2, l, e, a) → Same c c2 := by
  intro c2 l e a h
  unfold resHeadersEol at h
  simp only [] at h
  repeat' split at h
  all_goals first
    | (simp only [Except.ok.injEq, Prod.mk.injEq] at h; rw [← h.1]; exact ⟨rfl, rfl⟩)
    | (simp at h)

theorem rel_resHeaderLine (uid : Nat) (line : Bytes) (c : Conn) : Rel c (resHeaderLine uid line c).1 := by
  unfold resHeaderLine
  split
  · apply rel_andThen
    · exact rel_resFlushHeader c
    · intro c1
      simp only [Dir.peekSet]
      obtain hp | ⟨b, hp⟩ : c1.out.peek = none ∨ ∃ b, c1.out.peek = some b := by cases c1.out.peek <;> simp
      · simp only [hp, Bool.not_true, Bool.false_eq_true, if_false]
        exact pframe!
      · simp only [hp]
        by_cases hf : isFoldingChar b = true
        · simp only [hf, Bool.not_true, Bool.false_eq_true, if_false]
          exact pframe!
        · simp only [hf, Bool.not_false, if_true]
          have e := rel_processResponseHeader line { c1 with out := { c1.out with nextByte := (b.toNat : Int) } }
          rcases hy : processResponseHeader line { c1 with out := { c1.out with nextByte := (b.toNat : Int) } } with ⟨c2, rc2⟩
          rw [hy] at e
          simp only at e ⊢
          split
          · exact (rel_out c1 _).trans e
          · exact (rel_out c1 _).trans e
  · cases c.out.header with
    | none => exact (rel_modTx uid _ c).trans pframe!
    | some h =>
      simp only
      split
      · have e := rel_processResponseHeader h (c.modTx uid fun t => { t with flags := t.flags ||| INVALID_FOLDING })
        rcases hy : processResponseHeader h (c.modTx uid fun t => { t with flags := t.flags ||| INVALID_FOLDING }) with ⟨c2, rc2⟩
        rw [hy] at e
        simp only at e ⊢
        split
        · exact (rel_modTx uid _ c).trans e
        · exact ((rel_modTx uid _ c).trans e).trans pframe!
      · split
        · exact pframe!
        · exact Rel.refl c

theorem rel_resHeadersLoop (cfg : Cfg) (fuel : Nat) (lfcr : Bool) (c : Conn) : Rel c (resHeadersLoop cfg fuel lfcr c).1 := by
  induction fuel generalizing c lfcr with
  | zero => unfold resHeadersLoop; exact Rel.refl c
  | succ k ih =>
    unfold resHeadersLoop
    cases c.out.tx with
    | none => exact Rel.refl c
    | some uid =>
      simp only
      have trailer : ∀ (c0 : Conn),
          Rel c0 (resReceiverFinalizeClear c0 >>? fun c => runCallback .responseTrailer (some uid) none false c >>? fun c => ({ c with outState := .finalize }, Rc.ok)).1 := by
        intro c0
        apply rel_andThen
        · exact rel_resReceiverFinalizeClear c0
        · intro c1
          apply rel_andThen
          · exact rel_runCallback ..
          · intro c2; exact pframe!
      split
      · exact trailer c
      · cases hn : c.out.copyByte with
        | none => exact Rel.refl c
        | some p =>
          obtain ⟨d, b⟩ := p
          simp only
          split
          · exact (rel_out c d).trans (ih _ _)
          · have he := eol_same b lfcr { c with out := d }
            split
            · exact pframe!
            · rename_i heq
              have e2 := he _ _ _ _ heq
              exact ((rel_out c d).trans (rel_of_same e2)).trans (ih _ _)
            · rename_i c2 lfcr2 ecr2 heq
              have e2 : Same c c2 := he _ _ _ _ heq
              have k2 : Rel c c2 := rel_of_same e2
              cases hc : c2.out.consolidate cfg.fieldLimitHard false with
              | none => exact k2
              | some q =>
                obtain ⟨d2, data⟩ := q
                simp only
                split
                · exact (k2.trans (rel_out c2 d2)).trans (ih lfcr2 _)
                · split
                  · refine (k2.trans (rel_out c2 d2)).trans ?_
                    apply rel_andThen
                    · exact rel_resFlushHeader _
                    · intro c3
                      split
                      · exact pframe!
                      · exact (rel_out c3 _).trans (trailer _)
                  · refine (k2.trans (rel_out c2 d2)).trans ?_
                    apply rel_andThen
                    · exact rel_resHeaderLine ..
                    · intro c3
                      exact (rel_out c3 _).trans (ih lfcr2 _)

theorem rel_resCl (cl ct : Option Parse.Header) (uid : Nat) (c : Conn) : Rel c (resCl cl ct uid c).1 := by
  unfold resCl
  cases cl with
  | some clh =>
    simp -zeta only
    extract_lets c1 n c2 src c3
    have h1 : Rel c c1 := rel_modTx ..
    have h2 : Rel c c2 := h1.trans (rel_modTx ..)
    have h3 : Rel c c3 := h2.trans pframe!
    clear_value c1 c2 c3
    split
    · exact h2
    · split
      · exact h3.trans (of_pframe! (rel_modTx uid _ { c3 with outState := .bodyIdentityClKnown }))
      · exact h3.trans pframe!
  | none =>
    simp only
    repeat' split
    all_goals first
      | exact Rel.refl c
      | exact (rel_modTx uid _ c).trans pframe!

theorem rel_resFraming (te cl ct : Option Parse.Header) (uid : Nat) (c : Conn) : Rel c (resFraming te cl ct uid c).1 := by
  unfold resFraming
  cases te with
  | some te' =>
    simp only
    split
    · exact (rel_modTx uid _ c).trans pframe!
    · exact rel_resCl ..
  | none => exact rel_resCl ..

theorem rel_resRefusedConnect (t : Tx) (c : Conn) : Rel c (resRefusedConnect t c) := by
  unfold resRefusedConnect
  simp only []
  repeat' split
  all_goals exact pframe!

theorem rel_resSwitchTunnel (c : Conn) : Rel c (resSwitchTunnel c) := by
  unfold resSwitchTunnel
  simp only []
  repeat' split
  all_goals exact pframe!

theorem rel_resExpectShortcut (t : Tx) (c : Conn) : Rel c (resExpectShortcut t c) := by
  unfold resExpectShortcut
  repeat' split
  all_goals exact pframe!

theorem rel_resNoBody (uid : Nat) (t : Tx) (te cl : Option Parse.Header) (c : Conn) : Rel c (resNoBody uid t te cl c) := by
  unfold resNoBody
  repeat' split
  all_goals first
    | exact Rel.refl c
    | exact of_pframe! (rel_modTx uid _ { c with outState := .finalize })

theorem rel_resFramingStep (uid : Nat) (t : Tx) (te cl : Option Parse.Header) (c : Conn) :
    Rel c (resFramingStep uid t te cl c).1 := by
  unfold resFramingStep
  split
  · simp only
    refine Rel.trans ?_ (rel_resFraming ..)
    split
    · exact rel_modTx ..
    · exact Rel.refl c
  · exact Rel.refl c

theorem rel_resBodyDetermineRest (cfg : Cfg) (uid : Nat) (t : Tx) (c : Conn) : Rel c (resBodyDetermineRest cfg uid t c).1 := by
  unfold resBodyDetermineRest
  extract_lets c1 cl te is100
  have k0 : Rel c c1 := rel_resRefusedConnect t c
  clear_value c1 is100
  split
  · exact (k0.trans (rel_resSwitchTunnel _)).trans (rel_txStateResponseHeaders ..)
  · split
    · exact (k0.trans (rel_modTx uid _ _)).trans pframe!
    · apply rel_andThen
      · exact ((k0.trans (rel_resExpectShortcut t _)).trans (rel_resNoBody ..)).trans (rel_resFramingStep ..)
      · intro c1; exact rel_txStateResponseHeaders ..

theorem rel_resBodyDetermine (cfg : Cfg) (c : Conn) : Rel c (resBodyDetermine cfg c).1 := by
  unfold resBodyDetermine
  cases c.out.tx with
  | none => exact Rel.refl c
  | some uid =>
    simp only
    split
    · exact Rel.trans (b := { c with outState := .finalize }) pframe! (rel_txStateResponseHeaders ..)
    · exact rel_resBodyDetermineRest ..

theorem rel_resBodyIdentityClKnown (cfg : Cfg) (c : Conn) : Rel c (resBodyIdentityClKnown cfg c).1 := by
  unfold resBodyIdentityClKnown
  extract_lets avail n cfin data
  clear_value n data
  split
  · exact Rel.trans (b := cfin) pframe! (rel_resProcessBodyData ..)
  · split
    · exact Rel.refl c
    · have k := rel_resProcessBodyDataGap cfg data (if c.out.curNull then n.toNat else 0) c
      rcases hx : resBodyIdentityClKnown.resProcessBodyDataGap cfg data (if c.out.curNull then n.toNat else 0) c with ⟨c1, rc1⟩
      rw [hx] at k
      simp only at k ⊢
      split
      · exact k
      · split
        · exact k.trans (Rel.trans (b := { { c1 with out := { c1.out.advance n with bodyDataLeft := c1.out.bodyDataLeft - n } } with outState := .finalize }) pframe! (rel_resProcessBodyData ..))
        · exact k.trans pframe!

theorem rel_resBodyIdentityStreamClose (cfg : Cfg) (c : Conn) : Rel c (resBodyIdentityStreamClose cfg c).1 := by
  unfold resBodyIdentityStreamClose
  extract_lets n data r
  have hr : Rel c r.1 := by
    simp only [r]
    split
    · have k := rel_resProcessBodyDataGap cfg data (if c.out.curNull then n.toNat else 0) c
      rcases hx : resBodyIdentityClKnown.resProcessBodyDataGap cfg data (if c.out.curNull then n.toNat else 0) c with ⟨c1, rc1⟩
      rw [hx] at k
      simp only at k ⊢
      split
      · exact k
      · exact k.trans pframe!
    · exact Rel.refl c
  clear_value r
  apply rel_andThen
  · exact hr
  · intro c1
    split
    · exact pframe!
    · exact Rel.refl c1

theorem rel_resChunkedDataEndLoop (fuel : Nat) (c : Conn) : Rel c (resChunkedDataEndLoop fuel c).1 := by
  induction fuel generalizing c with
  | zero => unfold resChunkedDataEndLoop; exact Rel.refl c
  | succ k ih =>
    unfold resChunkedDataEndLoop
    cases hn : c.out.nextByteConsume with
    | none => exact Rel.refl c
    | some p =>
      obtain ⟨d, b⟩ := p
      simp only
      have k1 : Rel c ({ c with out := d }.modOut (fun t => { t with resMessageLen := t.resMessageLen + 1 })) :=
        (rel_out c d).trans (rel_modOut _ _)
      split
      · exact k1.trans pframe!
      · exact k1.trans (ih _)

theorem rel_resBodyChunkedData (cfg : Cfg) (c : Conn) : Rel c (resBodyChunkedData cfg c).1 := by
  unfold resBodyChunkedData
  extract_lets avail n data
  clear_value n data
  split
  · exact Rel.refl c
  · have k := rel_resProcessBodyData cfg (some data) c
    rcases hx : resProcessBodyData cfg (some data) c with ⟨c1, rc1⟩
    rw [hx] at k
    simp only at k ⊢
    split
    · exact k
    · split
      · exact k.trans pframe!
      · exact k.trans pframe!

theorem rel_resChunkedLengthLoop (cfg : Cfg) (fuel : Nat) (c : Conn) : Rel c (resChunkedLengthLoop cfg fuel c).1 := by
  induction fuel generalizing c with
  | zero => unfold resChunkedLengthLoop; exact Rel.refl c
  | succ k ih =>
    unfold resChunkedLengthLoop
    cases hn : c.out.copyByte with
    | none => exact Rel.refl c
    | some p =>
      obtain ⟨d, b⟩ := p
      simp -zeta only
      extract_lets c0
      have h0 : Rel c c0 := rel_out c d
      clear_value c0
      split
      · exact h0.trans (ih _)
      · cases hc : c0.out.consolidate cfg.fieldLimitHard false with
        | none => exact h0
        | some q =>
          obtain ⟨d2, data⟩ := q
          simp -zeta only
          extract_lets c1 s1 c2 s2 rd c3 c4
          have h1 : Rel c c1 := (h0.trans (rel_out c0 d2)).trans (rel_modOut _ _)
          have h2 : Rel c c2 := h1.trans pframe!
          have h4 : Rel c c4 := h2.trans pframe!
          have h3 : Rel c c3 := h2.trans pframe!
          clear_value c1 c2 c3 c4
          split
          · exact h2.trans (Rel.trans (b := { c2 with out := { c2.out with consume := c2.out.read } }) pframe! (ih _))
          · split
            · exact h3.trans (rel_modOut _ c3)
            · split
              · exact h4.trans pframe!
              · exact h4.trans (of_pframe! (rel_modOut _ { c4 with outState := .headers }))

theorem rel_resFinalize (cfg : Cfg) (c : Conn) : Rel c (resFinalize cfg c).1 := by
  unfold resFinalize
  cases c.out.tx with
  | none => exact Rel.refl c
  | some uid =>
    simp -zeta only
    extract_lets cp pre
    have hp : ∀ c' b, pre = some (c', b) → Same c c' := by
      intro c' b hpre
      simp only [pre] at hpre
      split at hpre
      · split at hpre
        · simp only [Option.some.injEq, Prod.mk.injEq] at hpre; rw [← hpre.1]; exact ⟨rfl, rfl⟩
        · split at hpre
          · split at hpre
            · simp at hpre
            · simp only [Option.some.injEq, Prod.mk.injEq] at hpre
              rw [← hpre.1]; exact ⟨rfl, rfl⟩
          · simp only [Option.some.injEq, Prod.mk.injEq] at hpre; rw [← hpre.1]; exact ⟨rfl, rfl⟩
      · simp only [Option.some.injEq, Prod.mk.injEq] at hpre; rw [← hpre.1]; exact ⟨rfl, rfl⟩
    clear_value pre
    have viaComplete : ∀ c' : Conn, Same c c' → Rel c (txStateResponseCompleteEx cfg uid c').1 :=
      fun c' h' => (rel_of_same h').trans (rel_txStateResponseCompleteEx ..)
    split
    · exact pframe!
    · rename_i _ c1
      exact viaComplete c1 (hp _ _ rfl)
    · rename_i _ c1
      have h1 := hp _ _ rfl
      clear hp
      cases hc : c1.out.consolidate cfg.fieldLimitHard false with
      | none => exact rel_of_same h1
      | some q =>
        obtain ⟨d2, data⟩ := q
        simp -zeta only
        extract_lets dataNull c2 rd keep buf cs
        have h2 : Same c c2 := h1
        clear_value c2 dataNull
        split
        · exact viaComplete c2 h2
        · split
          · have k := rel_resProcessBodyData cfg (some data) c2
            rcases hx : resProcessBodyData cfg (some data) c2 with ⟨c3, rc3⟩
            rw [hx] at k
            simp only at k ⊢
            exact ((rel_of_same h2).trans k).trans pframe!
          · exact viaComplete _ h2

theorem rel_resStateFn (cfg : Cfg) (c : Conn) : Rel c (resStateFn cfg c).1 := by
  unfold resStateFn
  cases c.outState with
  | idle => exact rel_resIdle cfg c
  | line => exact rel_resLineLoop cfg _ c
  | headers => exact rel_resHeadersLoop cfg _ _ c
  | bodyDetermine => exact rel_resBodyDetermine cfg c
  | bodyIdentityClKnown => exact rel_resBodyIdentityClKnown cfg c
  | bodyIdentityStreamClose => exact rel_resBodyIdentityStreamClose cfg c
  | bodyChunkedLength => exact rel_resChunkedLengthLoop cfg _ c
  | bodyChunkedData => exact rel_resBodyChunkedData cfg c
  | bodyChunkedDataEnd => exact rel_resChunkedDataEndLoop _ c
  | finalize => exact rel_resFinalize cfg c

theorem rel_resHandleStateChange (c : Conn) : Rel c (resHandleStateChange c).1 := by
  unfold resHandleStateChange
  split
  · exact Rel.refl c
  · simp only
    apply rel_andThen
    · repeat' split
      all_goals first | exact Rel.refl c | exact rel_resReceiverSet _ c
    · intro c1; exact pframe!

/-! ### whole calls -/

/-- the for(;;) of htp_connp_res_data never decreases the accounted lengths - data, gap or close, any fuel -/
theorem rel_resDriverLoop (cfg : Cfg) (gap : Bool) (fuel : Nat) (c : Conn) : Rel c (resDriverLoop cfg gap fuel c).1 := by
  induction fuel generalizing c with
  | zero => unfold resDriverLoop; exact pframe!
  | succ k ih =>
    unfold resDriverLoop
    simp only
    have tail : ∀ (c1 : Conn) (rc1 : Rc), Rel c c1 → Rel c
        (match (if (rc1 == Rc.ok) = true then
                  if (c1.out.status == STREAM_TUNNEL) = true then (c1, Rc.ok) else resHandleStateChange c1
                else (c1, rc1) : R) with
         | (c, rc) =>
          if (rc == Rc.ok) = true then
            if (c.out.status == STREAM_TUNNEL) = true then (c, STREAM_TUNNEL) else resDriverLoop cfg gap k c
          else if (rc == Rc.data || rc == Rc.dataBuffer) = true then
            (match resReceiverSend false c with
             | (c, _) =>
               if (rc == Rc.dataBuffer) = true then
                 (match c.out.buffer cfg.fieldLimitHard false with
                  | none => (({ c with out := { c.out with status := STREAM_ERROR } }, STREAM_ERROR) : Conn × Nat)
                  | some d => ({ c with out := { d with status := STREAM_DATA } }, STREAM_DATA))
               else ({ c with out := { c.out with status := STREAM_DATA } }, STREAM_DATA))
          else if (rc == Rc.stop) = true then ({ c with out := { c.out with status := STREAM_STOP } }, STREAM_STOP)
          else if (rc == Rc.dataOther) = true then
            (if c.out.read ≥ c.out.len then ({ c with out := { c.out with status := STREAM_DATA } }, STREAM_DATA)
             else ({ c with out := { c.out with status := STREAM_DATA_OTHER } }, STREAM_DATA_OTHER))
          else ({ c with out := { c.out with status := STREAM_ERROR } }, STREAM_ERROR)).1 := by
      intro c1 rc1 k1
      have k2 : Rel c (if (rc1 == Rc.ok) = true then
                  if (c1.out.status == STREAM_TUNNEL) = true then (c1, Rc.ok) else resHandleStateChange c1
                else (c1, rc1) : R).1 := by
        split
        · split
          · exact k1
          · exact k1.trans (rel_resHandleStateChange c1)
        · exact k1
      generalize (if (rc1 == Rc.ok) = true then
                  if (c1.out.status == STREAM_TUNNEL) = true then (c1, Rc.ok) else resHandleStateChange c1
                else (c1, rc1) : R) = r2 at k2 ⊢
      obtain ⟨c2, rc2⟩ := r2
      simp only at k2 ⊢
      split
      · split
        · exact k2
        · exact k2.trans (ih c2)
      · split
        · have kk := rel_resReceiverSend false c2
          rcases hz : resReceiverSend false c2 with ⟨c3, rc3⟩
          rw [hz] at kk
          simp only at kk ⊢
          split
          · cases hb : c3.out.buffer cfg.fieldLimitHard false with
            | none => exact (k2.trans kk).trans pframe!
            | some d => exact (k2.trans kk).trans pframe!
          · exact (k2.trans kk).trans pframe!
        · repeat' split
          all_goals exact k2.trans pframe!
    split
    · exact Rel.refl c
    · rename_i c1 rc1 hstep
      have k1 : Rel c c1 := by
        split at hstep
        · split at hstep
          · simp only [Option.some.injEq] at hstep
            have := rel_resStateFn cfg c
            rw [hstep] at this; exact this
          · split at hstep
            · split at hstep
              · rename_i uid _
                simp only [Option.some.injEq] at hstep
                have := rel_txStateResponseCompleteEx cfg uid c
                rw [hstep] at this; exact this
              · simp only [Option.some.injEq, Prod.mk.injEq] at hstep
                rw [← hstep.1]; exact Rel.refl c
            · simp at hstep
        · simp only [Option.some.injEq] at hstep
          have := rel_resStateFn cfg c
          rw [hstep] at this; exact this
      exact tail c1 rc1 k1
/-! ### whole calls -/

/-- **a response data call never decreases the accounted lengths** (data, gap or close) -/
theorem rel_resData (cfg : Cfg) (data : Option Bytes) (len : Nat) (c : Conn) : Rel c (resData cfg data len c).1 := by
  unfold resData
  simp only
  have key : Rel c (resDataCore cfg data len c).1 := by
    unfold resDataCore
    split
    · exact Rel.refl c
    split
    · exact Rel.refl c
    split
    · exact pframe!
    split
    · exact Rel.refl c
    simp only
    split
    · exact pframe!
    · exact Rel.trans (b := resStoreChunk data len c) pframe! (rel_resDriverLoop cfg _ _ _)
  exact then_pframe! key

theorem rel_connOpen (c : Conn) : Rel c (connOpen c) := by
  unfold connOpen
  split
  · exact Rel.refl c
  · exact pframe!

theorem rel_reqClose (cfg : Cfg) (c : Conn) : Rel c (reqClose cfg c).1 := by
  unfold reqClose
  simp only
  refine Rel.trans ?_ (rel_reqData ..)
  split
  · exact pframe!
  · exact Rel.refl c

theorem rel_connClose (cfg : Cfg) (c : Conn) : Rel c (connClose cfg c).1 := by
  unfold connClose
  extract_lets s1 c1 s2 c2
  have h1 : Rel c c1 := by
    simp only [c1]
    split
    · exact pframe!
    · exact Rel.refl c
  have h2 : Rel c c2 := by
    simp only [c2]
    split
    · exact then_pframe! h1
    · exact h1
  clear_value c2
  have h3 := rel_reqData cfg none 0 c2
  rcases hx : reqData cfg none 0 c2 with ⟨c3, r1⟩
  rw [hx] at h3
  simp only at h3 ⊢
  have h4 := rel_resData cfg none 0 c3
  rcases hy : resData cfg none 0 c3 with ⟨c4, r2⟩
  rw [hy] at h4
  exact (h2.trans h3).trans h4

/-- dropping slots from the transaction list (htp_connp_tx_freed drops the NULL slots at its head) -/
theorem rel_sub {c c' : Conn} (h1 : ∀ o, o ∈ c'.txs → o ∈ c.txs) (h2 : c'.nextUid = c.nextUid) : Rel c c' :=
  ⟨fun h => ⟨⟨fun t ht => by rw [h2]; exact h.lt t (h1 _ ht), fun t1 t2 a b => h.inj t1 t2 (h1 _ a) (h1 _ b)⟩, Nat.le_of_eq h2.symm,
    fun t ht => .inl ⟨t, h1 _ ht, TxLe.refl t⟩⟩⟩

theorem rel_txFreedLoop (fuel : Nat) (c : Conn) (r : Nat) : Rel c (txFreedLoop fuel c r).1 := by
  induction fuel generalizing c r with
  | zero => unfold txFreedLoop; exact Rel.refl c
  | succ k ih =>
    unfold txFreedLoop
    split
    · rename_i rest heq
      refine Rel.trans (b := { c with txs := rest, outNextTxIndex := c.outNextTxIndex - 1 }) (rel_sub ?_ rfl) (ih _ _)
      intro o ho
      rw [heq]
      exact List.mem_cons_of_mem _ ho
    · exact Rel.refl c

theorem rel_txFreed (c : Conn) : Rel c (txFreed c).1 := rel_txFreedLoop _ c 0

/-! ### call histories -/

/-- every call of the embedder never decreases the accounted lengths to the stored transactions -/
theorem rel_runCall (cfg : Cfg) (c : Conn) (call : Call) : Rel c (runCall cfg c call) := by
  cases call with
  | req d => exact rel_reqData ..
  | res d => exact rel_resData ..
  | close => exact rel_connClose ..
  | reqClose => exact rel_reqClose ..
  | «open» => exact rel_connOpen c
  | txFreed => exact rel_txFreed c

theorem rel_runCalls (cfg : Cfg) (c : Conn) (calls : List Call) : Rel c (runCalls cfg c calls) := by
  induction calls generalizing c with
  | nil => exact Rel.refl c
  | cons call rest ih => exact (rel_runCall cfg c call).trans (ih _)

end Prog

/-- what the sweep gives for the request progress of every transaction that exists before and after (looked up by uid) -/
def ProgRelLe (c c' : Conn) : Prop :=
  ∀ u t t', c.findTx u = some t → c'.findTx u = some t' → Prog.ProgLe t t'

theorem progLe_of_rel {c c' : Conn} (h : Prog.Rel c c') (hy : Hyg c) : ProgRelLe c c' := by
  intro u t t' h1 h2
  obtain ⟨hm, hu⟩ := findTx_mem h1
  obtain ⟨hm', hu'⟩ := findTx_mem h2
  rcases (h.step hy).mem t' hm' with ⟨x, hx, l⟩ | hn
  · have : x = t := hy.inj x t hx hm (by rw [← l.uid, hu', hu])
    rw [← this]
    exact l.prog
  · have := hy.lt t hm
    omega

theorem history_progLe (cfg : Cfg) (c0 : Conn) (h0 : Hyg c0) (calls pre : List Call) (hp : pre <+: calls) :
    ProgRelLe (runCalls cfg c0 pre) (runCalls cfg c0 calls) := by
  obtain ⟨suf, rfl⟩ := hp
  rw [runCalls_append]
  exact progLe_of_rel (Prog.rel_runCalls cfg _ suf) (history_hyg cfg c0 h0 pre)

/-- **C05, request side, PARTIAL.** For every stream, chunking, interleaving and callback policy: between a prefix of a call history
    and the whole history, the request progress of a transaction that still exists (a) is unchanged or is one of the phases 1..5,
    and (b) if it was within 0..5, it has not gone backwards unless to one of the constants 1..4 written by `txStateRequestStart`,
    `reqProtocol`, `reqBodyDetermine`, the chunked end and the closed-stream branch of REQ_HEADERS (the sites whose monotonicity needs
    the state-indexed invariant that is not proved); in particular `txStateRequestComplete` never lowers it. -/
theorem history_req_progress_monotone_partial (cfg : Cfg) (policy : List (Nat × CbAction)) (calls pre : List Call) (hp : pre <+: calls) :
    ∀ u t t', (runCalls cfg { policy := policy } pre).findTx u = some t → (runCalls cfg { policy := policy } calls).findTx u = some t' →
      (t'.reqProgress = t.reqProgress ∨ (1 ≤ t'.reqProgress ∧ t'.reqProgress ≤ 5)) ∧
      (t.reqProgress ≤ 5 → t.reqProgress ≤ t'.reqProgress ∨ t'.reqProgress ≤ 4) :=
  history_progLe cfg _ (hyg_of_empty rfl) calls pre hp

/-- a started request never returns to "not started" -/
theorem history_req_progress_started (cfg : Cfg) (policy : List (Nat × CbAction)) (calls pre : List Call) (hp : pre <+: calls)
    {u : Nat} {t t' : Tx} (h1 : (runCalls cfg { policy := policy } pre).findTx u = some t)
    (h2 : (runCalls cfg { policy := policy } calls).findTx u = some t') (hs : 1 ≤ t.reqProgress) : 1 ≤ t'.reqProgress := by
  have := (history_req_progress_monotone_partial cfg policy calls pre hp u t t' h1 h2).1
  omega

/-- the phase number stays within 0..5 -/
theorem history_req_progress_bounded (cfg : Cfg) (policy : List (Nat × CbAction)) (calls pre : List Call) (hp : pre <+: calls)
    {u : Nat} {t t' : Tx} (h1 : (runCalls cfg { policy := policy } pre).findTx u = some t)
    (h2 : (runCalls cfg { policy := policy } calls).findTx u = some t') (hs : t.reqProgress ≤ 5) : t'.reqProgress ≤ 5 := by
  have := (history_req_progress_monotone_partial cfg policy calls pre hp u t t' h1 h2).1
  omega

/-! ### non-vacuity -/

/-- a POST with a chunked body and a trailer, cut so that each call ends in the next phase: progress 1, 2, 3, 4, 5 -/
example :
    let calls : List Call := [.open,
      .req (b!"POST /u HTTP/1.1\r"),
      .req (b!"\nHost: a\r\nTransfer-Encoding: chunked\r\n"),
      .req (b!"\r\n5\r\nhel"),
      .req (b!"lo\r\n0\r\nX-T: 1\r"),
      .req (b!"\n\r\n")]
    let prog (n : Nat) : Option Nat := ((runCalls {} {} (calls.take n)).findTx 0).map (·.reqProgress)
    prog 1 = none ∧ prog 2 = some 1 ∧ prog 3 = some 2 ∧ prog 4 = some 3 ∧ prog 5 = some 4 ∧ prog 6 = some 5 := by decide

end Htp.Conn
