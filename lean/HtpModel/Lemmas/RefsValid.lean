/- C01 (reference validity of the transaction slots), part 1: the invariant and the request side.

   `RefsValid c`: whenever the parser's `in_tx` / `out_tx` names a transaction (by uid), that transaction is still in the connection's
   list - it has not been destroyed. `RefsInv c` adds the uid hygiene that makes the statement mean what it says: the uids in the list
   are pairwise distinct and all below `c.nextUid` (so the fresh uid of `txCreate` names the new transaction and no other, and
   `findTx u` is THE transaction with uid `u`).
   `KeepRef c c'` - the function keeps `RefsInv` - holds for every function of the request side: `setTx` / `modTx` keep the uid of every
   slot (checked for every update function used in the model), `destroyTx u` empties the slots of `u` AND clears both references to `u`,
   `txCreate` appends a slot with the fresh uid and points `in_tx` at it, callbacks with the destroy action and the auto-destroy of
   `txFinalize` go through `destroyTx`, and the cursor functions of a direction record (`copyByte`, `consolidate`, `buffer`, ...) never
   write its `tx` field. The response side, the other calls and whole histories are in Lemmas/RefsValidOut.lean. -/
import HtpModel.Conn.Res
namespace Htp.Conn
open Htp Htp.Gen

/-! ### the invariant -/

/-- a transaction with uid `u` is in the connection's list -/
def Live (c : Conn) (u : Nat) : Prop := ∃ t, some t ∈ c.txs ∧ t.uid = u

/-- **reference validity**: `in_tx` / `out_tx` name a transaction that is in the list, or nothing -/
def RefsValid (c : Conn) : Prop :=
  (∀ u, c.inn.tx = some u → (c.findTx u).isSome) ∧ (∀ u, c.out.tx = some u → (c.findTx u).isSome)

/-- every uid in the list was handed out by `txCreate` -/
def UidsFresh (c : Conn) : Prop := ∀ t, some t ∈ c.txs → t.uid < c.nextUid

/-- the uids in the list are pairwise distinct -/
def UidsDistinct (c : Conn) : Prop :=
  c.txs.Pairwise (fun a b => ∀ x y, a = some x → b = some y → x.uid ≠ y.uid)

/-- reference validity with the uid hygiene it rests on -/
def RefsInv (c : Conn) : Prop := RefsValid c ∧ UidsFresh c ∧ UidsDistinct c

theorem findTx_isSome_iff (c : Conn) (u : Nat) : (c.findTx u).isSome = true ↔ Live c u := by
  unfold Conn.findTx Live
  constructor
  · intro h
    generalize hq : c.txs.find? _ = q at h
    cases q with
    | none => simp at h
    | some o =>
      have hp := List.find?_some hq
      have hm := List.mem_of_find?_eq_some hq
      cases o with
      | none => simp at hp
      | some t => exact ⟨t, hm, by simpa using hp⟩
  · intro ⟨t, hm, hu⟩
    generalize hq : c.txs.find? _ = q
    cases q with
    | none =>
      have := List.find?_eq_none.1 hq (some t) hm
      simp [hu] at this
    | some o =>
      have hp := List.find?_some hq
      cases o with
      | none => simp at hp
      | some t' => rfl

theorem refsValid_iff (c : Conn) :
    RefsValid c ↔ (∀ u, c.inn.tx = some u → Live c u) ∧ (∀ u, c.out.tx = some u → Live c u) := by
  unfold RefsValid
  constructor
  · intro ⟨a, b⟩
    exact ⟨fun u h => (findTx_isSome_iff c u).1 (a u h), fun u h => (findTx_isSome_iff c u).1 (b u h)⟩
  · intro ⟨a, b⟩
    exact ⟨fun u h => (findTx_isSome_iff c u).2 (a u h), fun u h => (findTx_isSome_iff c u).2 (b u h)⟩

/-- with distinct uids, `findTx u` is THE stored transaction with uid `u` -/
theorem findTx_eq_some_iff {c : Conn} (hd : UidsDistinct c) (u : Nat) (t : Tx) :
    c.findTx u = some t ↔ some t ∈ c.txs ∧ t.uid = u := by
  unfold Conn.findTx
  unfold UidsDistinct at hd
  generalize c.txs = l at hd
  induction l with
  | nil => simp
  | cons o rest ih =>
    rw [List.pairwise_cons] at hd
    obtain ⟨hhead, htail⟩ := hd
    cases o with
    | none =>
      simp only [List.find?_cons, List.mem_cons]
      rw [ih htail]
      constructor
      · intro ⟨a, b⟩; exact ⟨Or.inr a, b⟩
      · intro ⟨a, b⟩
        rcases a with a | a
        · simp at a
        · exact ⟨a, b⟩
    | some x =>
      by_cases hx : (x.uid == u) = true
      · simp only [List.find?_cons, hx, Option.join_some, Option.some.injEq, List.mem_cons]
        constructor
        · intro e; subst e; exact ⟨Or.inl rfl, by simpa using hx⟩
        · intro ⟨a, b⟩
          rcases a with a | a
          · exact a.symm
          · exact absurd (b.trans (by simpa using hx : x.uid = u).symm).symm (hhead _ a x t rfl rfl)
      · have hx' : (x.uid == u) = false := by simpa using hx
        simp only [List.find?_cons, hx', List.mem_cons]
        rw [ih htail]
        constructor
        · intro ⟨a, b⟩; exact ⟨Or.inr a, b⟩
        · intro ⟨a, b⟩
          rcases a with a | a
          · have := Option.some.inj a
            subst this
            simp [b] at hx'
          · exact ⟨a, b⟩

/-- `f` keeps the invariant -/
structure KeepRef (c c' : Conn) : Prop where
  keep : RefsInv c → RefsInv c'

theorem KeepRef.refl (c : Conn) : KeepRef c c := ⟨id⟩
theorem KeepRef.trans {a b c : Conn} (h1 : KeepRef a b) (h2 : KeepRef b c) : KeepRef a c := ⟨fun h => h2.keep (h1.keep h)⟩

/-- a freshly created connection parser satisfies it -/
theorem refsInv_init : RefsInv ({} : Conn) := by
  refine ⟨⟨fun u h => ?_, fun u h => ?_⟩, fun t h => ?_, List.Pairwise.nil⟩
  · cases h
  · cases h
  · have : some t ∈ ([] : List (Option Tx)) := h
    simp at this

/-- the invariant reads four things of a state: the list, the two references, the uid counter -/
structure SameRefs (c c' : Conn) : Prop where
  txs : c'.txs = c.txs
  inn : c'.inn.tx = c.inn.tx
  out : c'.out.tx = c.out.tx
  uid : c'.nextUid = c.nextUid

theorem keepRef_of_same {c c' : Conn} (h : SameRefs c c') : KeepRef c c' := by
  refine ⟨fun hc => ?_⟩
  unfold RefsInv RefsValid UidsFresh UidsDistinct Conn.findTx at hc ⊢
  rw [h.txs, h.inn, h.out, h.uid]
  exact hc

/-- clearing a reference keeps the invariant -/
theorem keepRef_clearIn (c : Conn) (d : Dir) (h : d.tx = none) : KeepRef c { c with inn := d } := by
  refine ⟨fun ⟨hv, hf, hd⟩ => ⟨⟨fun u e => ?_, hv.2⟩, hf, hd⟩⟩
  have e' : d.tx = some u := e
  rw [h] at e'; cases e'

theorem keepRef_clearOut (c : Conn) (d : Dir) (h : d.tx = none) : KeepRef c { c with out := d } := by
  refine ⟨fun ⟨hv, hf, hd⟩ => ⟨⟨hv.1, fun u e => ?_⟩, hf, hd⟩⟩
  have e' : d.tx = some u := e
  rw [h] at e'; cases e'

/-- pointing `out_tx` at a transaction that is in the list keeps the invariant -/
theorem keepRef_setOut (c : Conn) (d : Dir) (u : Nat) (h : d.tx = some u) (hl : Live c u) : KeepRef c { c with out := d } := by
  refine ⟨fun ⟨hv, hf, hd⟩ => ⟨⟨hv.1, fun v e => ?_⟩, hf, hd⟩⟩
  have e' : d.tx = some v := e
  rw [h] at e'
  cases e'
  exact (findTx_isSome_iff _ _).2 hl

/-! ### the cursor functions of a direction record never write its `tx` field -/

theorem peekSet_tx (d : Dir) : d.peekSet.1.tx = d.tx := rfl

theorem copyByte_tx {d d' : Dir} {b : UInt8} (h : d.copyByte = some (d', b)) : d'.tx = d.tx := by
  unfold Dir.copyByte at h
  split at h
  · split at h
    · simp only [Option.some.injEq, Prod.mk.injEq] at h; rw [← h.1]
    · simp only [Option.some.injEq, Prod.mk.injEq] at h; rw [← h.1]
  · simp at h

theorem nextByteConsume_tx {d d' : Dir} {b : UInt8} (h : d.nextByteConsume = some (d', b)) : d'.tx = d.tx := by
  unfold Dir.nextByteConsume at h
  cases hc : d.copyByte with
  | none => rw [hc] at h; simp at h
  | some p =>
    obtain ⟨d1, b1⟩ := p
    rw [hc] at h
    simp only [Option.some.injEq, Prod.mk.injEq] at h
    rw [← h.1]; exact (copyByte_tx hc : d1.tx = d.tx)

theorem buffer_tx {d d' : Dir} {hard : Nat} {s : Bool} (h : d.buffer hard s = some d') : d'.tx = d.tx := by
  unfold Dir.buffer at h
  split at h
  · simp only [Option.some.injEq] at h; rw [← h]
  · simp only at h
    split at h
    · simp only [Option.some.injEq] at h; rw [← h]
    · split at h
      · simp at h
      · simp only [Option.some.injEq] at h; rw [← h]

theorem consolidate_tx {d d' : Dir} {hard : Nat} {s : Bool} {data : Bytes} (h : d.consolidate hard s = some (d', data)) :
    d'.tx = d.tx := by
  unfold Dir.consolidate at h
  split at h
  · simp only [Option.some.injEq, Prod.mk.injEq] at h; rw [← h.1]
  · split at h
    · simp at h
    · rename_i d1 hb
      simp only [Option.some.injEq, Prod.mk.injEq] at h
      rw [← h.1]; exact buffer_tx hb

theorem reqFinalizeScan_tx (fuel : Nat) {d d' : Dir} (h : reqFinalizeScan fuel d = some d') : d'.tx = d.tx := by
  induction fuel generalizing d with
  | zero => unfold reqFinalizeScan at h; simp only [Option.some.injEq] at h; rw [← h]
  | succ k ih =>
    unfold reqFinalizeScan at h
    simp only at h
    split at h
    · simp only [Option.some.injEq] at h; rw [← h]; rfl
    · split at h
      · simp at h
      · rename_i d1 b1 hc
        exact (ih h).trans (copyByte_tx hc)

theorem resFinalizeScan_tx (fuel : Nat) {d d' : Dir} (h : resFinalizeScan fuel d = some d') : d'.tx = d.tx := by
  induction fuel generalizing d with
  | zero => unfold resFinalizeScan at h; simp only [Option.some.injEq] at h; rw [← h]
  | succ k ih =>
    unfold resFinalizeScan at h
    split at h
    · simp at h
    · rename_i d1 b1 hc
      split at h
      · simp only [Option.some.injEq] at h; rw [← h]; exact copyByte_tx hc
      · exact (ih h).trans (copyByte_tx hc)

/-- `d'.tx = d.tx` for a record `d'` obtained from `d` through the cursor functions, from the hypotheses at hand -/
syntax "dir_tx" : tactic
macro_rules
  | `(tactic| dir_tx) => `(tactic| first
      | rfl
      | (dsimp only; dir_tx)
      | (simp only [peekSet_tx] <;> dir_tx)
      | (refine Eq.trans (copyByte_tx (by assumption)) ?_; dir_tx)
      | (refine Eq.trans (consolidate_tx (by assumption)) ?_; dir_tx)
      | (refine Eq.trans (nextByteConsume_tx (by assumption)) ?_; dir_tx)
      | (refine Eq.trans (buffer_tx (by assumption)) ?_; dir_tx)
      | (refine Eq.trans (reqFinalizeScan_tx _ (by assumption)) ?_; dir_tx)
      | (refine Eq.trans (resFinalizeScan_tx _ (by assumption)) ?_; dir_tx))

/-- replacing a direction record by one with the same reference -/
theorem keepRef_inn (c : Conn) (d : Dir) (h : d.tx = c.inn.tx := by dir_tx) : KeepRef c { c with inn := d } :=
  keepRef_of_same ⟨rfl, h, rfl, rfl⟩

theorem keepRef_out (c : Conn) (d : Dir) (h : d.tx = c.out.tx := by dir_tx) : KeepRef c { c with out := d } :=
  keepRef_of_same ⟨rfl, rfl, h, rfl⟩

/-! ### the writers of the list -/

/-- a slot map that invents no uid: what it leaves in a slot has the uid that was there -/
def SlotOK (g : Option Tx → Option Tx) : Prop := ∀ o y, g o = some y → ∃ x, o = some x ∧ x.uid = y.uid

theorem fresh_map {l : List (Option Tx)} {g : Option Tx → Option Tx} {n : Nat} (hg : SlotOK g)
    (h : ∀ t, some t ∈ l → t.uid < n) : ∀ t, some t ∈ l.map g → t.uid < n := by
  intro t ht
  obtain ⟨o, ho, he⟩ := List.mem_map.1 ht
  obtain ⟨x, hx, hu⟩ := hg o t he
  subst hx
  rw [← hu]; exact h x ho

theorem distinct_map {l : List (Option Tx)} {g : Option Tx → Option Tx} (hg : SlotOK g)
    (h : l.Pairwise (fun a b => ∀ x y, a = some x → b = some y → x.uid ≠ y.uid)) :
    (l.map g).Pairwise (fun a b => ∀ x y, a = some x → b = some y → x.uid ≠ y.uid) := by
  rw [List.pairwise_map]
  refine h.imp ?_
  intro a b hab x y hx hy
  obtain ⟨x0, hx0, hux⟩ := hg a x hx
  obtain ⟨y0, hy0, huy⟩ := hg b y hy
  rw [← hux, ← huy]
  exact hab x0 y0 hx0 hy0

/-- a slot map that keeps every slot, with its uid -/
structure SlotKeep (g : Option Tx → Option Tx) : Prop where
  none : g none = none
  some : ∀ x, ∃ y, g (some x) = some y ∧ y.uid = x.uid

theorem SlotKeep.ok {g : Option Tx → Option Tx} (hg : SlotKeep g) : SlotOK g := by
  intro o y h
  cases o with
  | none => rw [hg.none] at h; simp at h
  | some x =>
    obtain ⟨y', hy, hu⟩ := hg.some x
    rw [hy] at h
    simp only [Option.some.injEq] at h
    subst h
    exact ⟨x, rfl, hu.symm⟩

theorem live_mapKeep {c : Conn} {g : Option Tx → Option Tx} (hg : SlotKeep g) (u : Nat) :
    Live { c with txs := c.txs.map g } u ↔ Live c u := by
  unfold Live
  constructor
  · intro ⟨t, hm, hu⟩
    obtain ⟨o, ho, he⟩ := List.mem_map.1 hm
    obtain ⟨x, hx, hux⟩ := hg.ok o t he
    subst hx
    exact ⟨x, ho, hux.trans hu⟩
  · intro ⟨x, hm, hu⟩
    obtain ⟨y, hy, hyu⟩ := hg.some x
    exact ⟨y, List.mem_map.2 ⟨some x, hm, hy⟩, hyu.trans hu⟩

/-- mapping a uid-keeping function over the list keeps the invariant -/
theorem keepRef_mapKeep (c : Conn) {g : Option Tx → Option Tx} (hg : SlotKeep g) : KeepRef c { c with txs := c.txs.map g } := by
  refine ⟨fun ⟨hv, hf, hd⟩ => ⟨?_, fresh_map hg.ok hf, distinct_map hg.ok hd⟩⟩
  rw [refsValid_iff] at hv ⊢
  exact ⟨fun u h => (live_mapKeep hg u).2 (hv.1 u h), fun u h => (live_mapKeep hg u).2 (hv.2 u h)⟩

/-- `setTx` stores a record in the slot that has its uid -/
theorem keepRef_setTx (t : Tx) (c : Conn) : KeepRef c (c.setTx t) := by
  unfold Conn.setTx
  apply keepRef_mapKeep
  refine ⟨rfl, fun x => ?_⟩
  by_cases h : (x.uid == t.uid) = true
  · exact ⟨t, by simp only [h, if_true], (by simpa using h : x.uid = t.uid).symm⟩
  · exact ⟨x, by simp only [h, Bool.false_eq_true, if_false], rfl⟩

/-- `modTx` with an update function that does not write the uid - which is every update function of the model -/
theorem keepRef_modTx (u : Nat) (f : Tx → Tx) (c : Conn) (hf : ∀ t, (f t).uid = t.uid := by intro _; rfl) :
    KeepRef c (c.modTx u f) := by
  unfold Conn.modTx
  apply keepRef_mapKeep
  refine ⟨rfl, fun x => ?_⟩
  by_cases h : (x.uid == u) = true
  · exact ⟨f x, by simp only [h, if_true], hf x⟩
  · exact ⟨x, by simp only [h, Bool.false_eq_true, if_false], rfl⟩

theorem keepRef_modIn (f : Tx → Tx) (c : Conn) (hf : ∀ t, (f t).uid = t.uid := by intro _; rfl) : KeepRef c (c.modIn f) := by
  unfold Conn.modIn
  split
  · exact keepRef_modTx _ f c hf
  · exact KeepRef.refl c

theorem keepRef_modOut (f : Tx → Tx) (c : Conn) (hf : ∀ t, (f t).uid = t.uid := by intro _; rfl) : KeepRef c (c.modOut f) := by
  unfold Conn.modOut
  split
  · exact keepRef_modTx _ f c hf
  · exact KeepRef.refl c

/-- what is in the list after htp_tx_destroy: everything but `u` -/
theorem live_destroyTx (u : Nat) (c : Conn) (v : Nat) : Live (destroyTx u c) v ↔ Live c v ∧ v ≠ u := by
  unfold Live destroyTx
  simp only
  constructor
  · intro ⟨t, hm, hu⟩
    obtain ⟨o, ho, he⟩ := List.mem_map.1 hm
    cases o with
    | none => simp at he
    | some x =>
      simp only at he
      split at he
      · simp at he
      · rename_i hne
        simp only [Option.some.injEq] at he
        subst he
        exact ⟨⟨x, ho, hu⟩, by rw [← hu]; simpa using hne⟩
  · intro ⟨⟨x, hm, hu⟩, hne⟩
    refine ⟨x, List.mem_map.2 ⟨some x, hm, ?_⟩, hu⟩
    have : (x.uid == u) = false := by rw [hu]; simpa using hne
    simp only [this, Bool.false_eq_true, if_false]

/-- **htp_tx_destroy keeps the invariant**: the slots of `u` are emptied and both references to `u` are cleared -/
theorem keepRef_destroyTx (u : Nat) (c : Conn) : KeepRef c (destroyTx u c) := by
  have hg : SlotOK (fun o => match o with | some x => if x.uid == u then none else some x | none => none) := by
    intro o y h
    cases o with
    | none => simp at h
    | some x =>
      simp only at h
      split at h
      · simp at h
      · simp only [Option.some.injEq] at h; subst h; exact ⟨x, rfl, rfl⟩
  refine ⟨fun ⟨hv, hf, hd⟩ => ⟨?_, ?_, ?_⟩⟩
  · rw [refsValid_iff] at hv ⊢
    refine ⟨fun v h => ?_, fun v h => ?_⟩
    · rw [live_destroyTx]
      have h' : (if c.inn.tx == some u then { c.inn with tx := none } else c.inn).tx = some v := h
      split at h'
      · simp at h'
      · rename_i hne
        exact ⟨hv.1 v h', fun e => hne (by rw [h', e]; simp)⟩
    · rw [live_destroyTx]
      have h' : (if c.out.tx == some u then { c.out with tx := none } else c.out).tx = some v := h
      split at h'
      · simp at h'
      · rename_i hne
        exact ⟨hv.2 v h', fun e => hne (by rw [h', e]; simp)⟩
  · exact fresh_map hg hf
  · exact distinct_map hg hd

/-- sequencing with `>>?` keeps the invariant -/
theorem keepRef_andThen (c0 : Conn) (r : R) (f : Conn → R) (h1 : KeepRef c0 r.1) (h2 : ∀ c, KeepRef c (f c).1) :
    KeepRef c0 (r >>? f).1 := by
  unfold R.andThen
  split
  · exact h1.trans (h2 r.1)
  · exact h1

/-- what is in the list after a successful htp_connp_tx_create: what was there, and the fresh uid -/
theorem txCreate_some {cfg : Cfg} {c c1 : Conn} {uid : Nat} (h : txCreate cfg c = (c1, some uid)) :
    c1.inn.tx = some uid ∧ uid = c.nextUid := by
  unfold txCreate at h
  simp only at h
  split at h
  · simp at h
  · simp only [Prod.mk.injEq, Option.some.injEq] at h
    rw [← h.1, ← h.2]; exact ⟨rfl, rfl⟩

/-- **transaction creation keeps the invariant**: the new slot has the fresh uid `nextUid`, which no stored transaction has, and `in_tx`
    is pointed at it; when creation is refused (max_tx) nothing is written -/
theorem keepRef_txCreate (cfg : Cfg) (c : Conn) : KeepRef c (txCreate cfg c).1 := by
  unfold txCreate
  simp only []
  split
  · exact ⟨id⟩
  · refine ⟨fun ⟨hv, hf, hd⟩ => ⟨?_, ?_, ?_⟩⟩
    · rw [refsValid_iff] at hv ⊢
      refine ⟨fun v h => ?_, fun v h => ?_⟩
      · have h' : some c.nextUid = some v := h
        refine ⟨{ uid := c.nextUid, index := c.txs.length, portNumber := 0 }, ?_, Option.some.inj h'⟩
        show _ ∈ c.txs ++ [_]
        simp
      · obtain ⟨t, hm, hu⟩ := hv.2 v h
        refine ⟨t, ?_, hu⟩
        show _ ∈ c.txs ++ [_]
        exact List.mem_append_left _ hm
    · intro t ht
      have ht' : some t ∈ c.txs ++ [some ({ uid := c.nextUid, index := c.txs.length, portNumber := 0 } : Tx)] := ht
      show t.uid < c.nextUid + 1
      simp only [List.mem_append, List.mem_singleton, Option.some.injEq] at ht'
      rcases ht' with h | h
      · exact Nat.lt_succ_of_lt (hf t h)
      · rw [h]; exact Nat.lt_succ_self _
    · show (c.txs ++ [some ({ uid := c.nextUid, index := c.txs.length, portNumber := 0 } : Tx)]).Pairwise _
      rw [List.pairwise_append]
      refine ⟨hd, List.pairwise_singleton _ _, ?_⟩
      intro a ha b hb x y hx hy
      simp only [List.mem_singleton] at hb
      subst hx
      rw [hb] at hy
      simp only [Option.some.injEq] at hy
      rw [← hy]
      exact Nat.ne_of_lt (hf x ha)

/-! ### callbacks, body handlers, decompression -/

theorem keepRef_runCallback (h : Hook) (uid : Option Nat) (data : Option Bytes) (isLast : Bool) (c : Conn) (g : Nat) (s : Bool) :
    KeepRef c (runCallback h uid data isLast c g s).1 := by
  unfold runCallback
  simp only
  cases lookupAction c.policy c.cbCount with
  | ok => exact ⟨id⟩
  | declined => exact ⟨id⟩
  | stop => exact ⟨id⟩
  | error => exact ⟨id⟩
  | destroyTx =>
    simp only
    cases uid.bind c.findTx with
    | none => exact ⟨id⟩
    | some t =>
      simp only
      split
      · exact KeepRef.trans (b := { c with cbCount := c.cbCount + 1, events := _ :: c.events }) ⟨id⟩ (keepRef_destroyTx _ _)
      · exact ⟨id⟩
  | regTxHooks =>
    simp only
    cases uid with
    | none => exact ⟨id⟩
    | some u => exact KeepRef.trans (b := { c with cbCount := c.cbCount + 1, events := _ :: c.events }) ⟨id⟩ (keepRef_modTx _ _ _)

theorem keepRef_runCallbackN (n : Nat) (h : Hook) (uid : Option Nat) (data : Option Bytes) (isLast : Bool) (g : Nat) (c : Conn) :
    KeepRef c (runCallbackN n h uid data isLast g c).1 := by
  induction n generalizing c with
  | zero => exact KeepRef.refl c
  | succ k ih =>
    unfold runCallbackN
    exact keepRef_andThen c _ _ (keepRef_runCallback ..) (fun c' => ih c')

theorem keepRef_urlencBodyCallback (cfg : Cfg) (uid : Nat) (data : Option Bytes) (c : Conn) :
    KeepRef c (urlencBodyCallback cfg uid data c).1 := by
  unfold urlencBodyCallback
  cases c.findTx uid with
  | none => exact KeepRef.refl c
  | some t =>
    simp only
    cases t.urlenBody with
    | none => exact KeepRef.refl c
    | some u =>
      simp only
      split
      · exact KeepRef.refl c
      · cases data with
        | some d => exact keepRef_setTx _ c
        | none => exact keepRef_setTx _ c

theorem keepRef_mpartFileEvents (uid : Nat) (evs : List (Nat × Option Bytes)) (c : Conn) :
    KeepRef c (mpartFileEvents uid evs c) := by
  induction evs generalizing c with
  | nil => exact KeepRef.refl c
  | cons e rest ih =>
    obtain ⟨i, d⟩ := e
    unfold mpartFileEvents
    exact (keepRef_runCallback ..).trans (ih _)

theorem keepRef_mpartBodyCallback (uid : Nat) (data : Option Bytes) (c : Conn) :
    KeepRef c (mpartBodyCallback uid data c).1 := by
  unfold mpartBodyCallback
  cases c.findTx uid with
  | none => exact KeepRef.refl c
  | some t =>
    simp only
    cases t.mpart with
    | none => exact KeepRef.refl c
    | some mp =>
      simp only
      split
      · exact KeepRef.refl c
      · cases data with
        | some d => exact (keepRef_setTx _ c).trans (keepRef_mpartFileEvents _ _ _)
        | none => exact (keepRef_setTx _ c).trans (keepRef_mpartFileEvents _ _ _)

theorem keepRef_runTxReqBodyHooks (cfg : Cfg) (uid : Nat) (data : Option Bytes) (isLast : Bool) (g : Nat) (hs : List TxHook) (c : Conn) :
    KeepRef c (runTxReqBodyHooks cfg uid data isLast g hs c).1 := by
  induction hs generalizing c with
  | nil => exact KeepRef.refl c
  | cons h rest ih =>
    unfold runTxReqBodyHooks
    apply keepRef_andThen
    · cases h with
      | user => exact keepRef_runCallback ..
      | urlenc => exact keepRef_urlencBodyCallback ..
      | mpart => exact keepRef_mpartBodyCallback ..
    · intro c'
      exact ih c'

theorem keepRef_reqRunHookBodyDataL (cfg : Cfg) (data : Option Bytes) (g : Nat) (l : Bool) (c : Conn) :
    KeepRef c (reqRunHookBodyDataL cfg data g l c).1 := by
  unfold reqRunHookBodyDataL
  split
  · exact KeepRef.refl c
  · cases c.inn.tx with
    | none => exact KeepRef.refl c
    | some uid =>
      simp only
      apply keepRef_andThen
      · exact keepRef_runTxReqBodyHooks ..
      · intro c2
        apply keepRef_andThen
        · exact keepRef_runCallback ..
        · intro c3
          split
          · exact keepRef_runCallback ..
          · exact KeepRef.refl c3

theorem keepRef_reqRunHookBodyData (cfg : Cfg) (data : Option Bytes) (g : Nat) (c : Conn) :
    KeepRef c (reqRunHookBodyData cfg data g c).1 := by
  unfold reqRunHookBodyData; exact keepRef_reqRunHookBodyDataL ..

theorem keepRef_unsupported (c : Conn) : KeepRef c { c with unsupported := true } := ⟨id⟩
theorem keepRef_zoracle (c : Conn) (zs : List ZRes) : KeepRef c { c with zoracle := zs } := ⟨id⟩

theorem keepRef_resRunHookBodyData (data : Option Bytes) (c : Conn) : KeepRef c (resRunHookBodyData data c).1 := by
  unfold resRunHookBodyData
  split
  · exact KeepRef.refl c
  · cases c.out.tx with
    | none => exact KeepRef.refl c
    | some uid =>
      simp only
      apply keepRef_andThen
      · exact keepRef_runCallbackN ..
      · intro c2; exact keepRef_runCallback ..

theorem keepRef_decFinalCallback (cfg : Cfg) (req : Bool) (uid : Nat) (l : Bool) (data : Option Bytes) (c : Conn) :
    KeepRef c (decFinalCallback cfg req uid l data c).1 := by
  unfold decFinalCallback
  simp only
  cases req with
  | true =>
    simp only [if_true]
    have h := keepRef_reqRunHookBodyDataL cfg data 0 l (c.modTx uid fun t => { t with reqEntityLen := t.reqEntityLen + (data.map (·.length)).getD 0 })
    have h0 := (keepRef_modTx uid (fun t => { t with reqEntityLen := t.reqEntityLen + (data.map (·.length)).getD 0 }) c).trans h
    split
    · exact h0
    · split <;> exact h0
  | false =>
    simp only [Bool.false_eq_true, if_false]
    have h := keepRef_resRunHookBodyData data (c.modTx uid fun t => { t with resEntityLen := t.resEntityLen + (data.map (·.length)).getD 0 })
    have h0 := (keepRef_modTx uid (fun t => { t with resEntityLen := t.resEntityLen + (data.map (·.length)).getD 0 }) c).trans h
    split
    · exact h0
    · split <;> exact h0

/-- the functions of the decompression driver do not lengthen the list -/
theorem keepRef_dec (cfg : Cfg) (req : Bool) (uid : Nat) : ∀ fuel : Nat,
    (∀ l useNext rest data c, KeepRef c (decSend cfg req uid l fuel useNext rest data c).2.1) ∧
    (∀ d drec rest inp c, KeepRef c (decLoop cfg req uid d fuel drec rest inp c).2.1) ∧
    (∀ d drec rest inp c, KeepRef c (decStep cfg req uid d fuel drec rest inp c).2.1) ∧
    (∀ ds data c, KeepRef c (decompress cfg req uid fuel ds data c).2.1) := by
  intro fuel
  induction fuel with
  | zero =>
    refine ⟨?_, ?_, ?_, ?_⟩
    · intro l useNext rest data c; unfold decSend; exact keepRef_unsupported c
    · intro d drec rest inp c; unfold decLoop; exact keepRef_unsupported c
    · intro d drec rest inp c; unfold decStep; exact keepRef_unsupported c
    · intro ds data c; unfold decompress; exact keepRef_unsupported c
  | succ k ih =>
    obtain ⟨ihS, ihL, ihT, ihD⟩ := ih
    refine ⟨?_, ?_, ?_, ?_⟩
    · intro l useNext rest data c
      unfold decSend
      split
      · exact ihD ..
      · exact keepRef_decFinalCallback ..
    · intro d drec rest inp c
      unfold decLoop
      split
      · exact KeepRef.refl c
      · by_cases hfull : (drec.buf.length == GZIP_BUF_SIZE) = true
        · simp only [hfull, if_true]
          rcases hx : decSend cfg req uid false k (drec.kind != 0) rest (some drec.buf) c with ⟨rest1, c1, rc1⟩
          have f1 : KeepRef c c1 := by have := ihS false (drec.kind != 0) rest (some drec.buf) c; rw [hx] at this; exact this
          simp only
          by_cases hrc : (rc1 != Rc.ok) = true
          · simp only [hrc, if_true]; exact f1
          · simp only [hrc, Bool.false_eq_true, if_false]
            exact f1.trans (ihT ..)
        · simp only [hfull, Bool.false_eq_true, if_false]
          exact ihT ..
    · intro d drec rest inp c
      unfold decStep
      split
      · exact keepRef_unsupported c
      split
      · exact KeepRef.refl c
      split
      · exact keepRef_unsupported c
      · rename_i z zs hz
        simp only
        generalize (if ((drec.buf ++ z.produced).length > 0 && z.rc == Z_DATA_ERROR) = true then Z_STREAM_END else z.rc) = rcv
        split
        · -- stream end: the buffer goes out
          rcases hx : decSend cfg req uid false k (drec.kind != 0) rest (some (drec.buf ++ z.produced)) { c with zoracle := zs } with ⟨rest1, c1, rc1⟩
          have f1 : KeepRef c c1 := by
            have := ihS false (drec.kind != 0) rest (some (drec.buf ++ z.produced)) { c with zoracle := zs }
            rw [hx] at this; exact (keepRef_zoracle c zs).trans this
          simp only
          split <;> exact f1
        · split
          · split
            · split
              · exact keepRef_zoracle c zs
              · exact (keepRef_zoracle c zs).trans (ihL ..)
            · rcases hx : decFinalCallback cfg req uid false (some d) { c with zoracle := zs } with ⟨c1, rc1⟩
              have f1 : KeepRef c c1 := by
                have := keepRef_decFinalCallback cfg req uid false (some d) { c with zoracle := zs }
                rw [hx] at this; exact (keepRef_zoracle c zs).trans this
              simp only
              split <;> exact f1
          · exact (keepRef_zoracle c zs).trans (ihL ..)
    · intro ds data c
      unfold decompress
      cases ds with
      | nil => exact KeepRef.refl c
      | cons drec rest =>
        simp only
        split
        · rcases hx : decFinalCallback cfg req uid data.isNone data c with ⟨c1, rc1⟩
          have f1 : KeepRef c c1 := by have := keepRef_decFinalCallback cfg req uid data.isNone data c; rw [hx] at this; exact this
          exact f1
        · cases data with
          | none =>
            simp only
            rcases hx : decSend cfg req uid true k (drec.kind != 0) rest (if drec.buf.length > 0 then some drec.buf else none) c with ⟨rest1, c1, rc1⟩
            have f1 : KeepRef c c1 := by
              have := ihS true (drec.kind != 0) rest (if drec.buf.length > 0 then some drec.buf else none) c; rw [hx] at this; exact this
            simp only
            split <;> exact f1
          | some d => exact ihL ..


/-- body processing does not lengthen the list - with or without the request decompressor in the way -/
theorem keepRef_reqProcessBodyData (cfg : Cfg) (data : Option Bytes) (g : Nat) (c : Conn) :
    KeepRef c (reqProcessBodyData cfg data g c).1 := by
  unfold reqProcessBodyData
  cases c.inn.tx with
  | none => exact KeepRef.refl c
  | some uid =>
    simp only
    split
    · split
      · exact KeepRef.refl c
      · split
        · exact keepRef_unsupported c
        split
        · exact keepRef_unsupported c
        · rcases hx : decompress cfg true uid (8 * (data.map (·.length)).getD g + 128) c.inDecs data c with ⟨ds, c1, rc1⟩
          have f1 : KeepRef c c1 := by
            have := (keepRef_dec cfg true uid (8 * (data.map (·.length)).getD g + 128)).2.2.2 c.inDecs data c
            rw [hx] at this; exact this
          simp only
          exact f1.trans ⟨id⟩
    · have h := keepRef_reqRunHookBodyData cfg data g
        (c.modTx uid fun t => { t with reqEntityLen := t.reqEntityLen + (data.map (·.length)).getD g })
      split <;> exact (keepRef_modTx _ _ c).trans h


/-! ### receivers and the transaction state functions of the request side -/

theorem keepRef_reqReceiverSend (l : Bool) (c : Conn) : KeepRef c (reqReceiverSend l c).1 := by
  unfold reqReceiverSend
  cases c.inn.receiverHook with
  | none => exact KeepRef.refl c
  | some h =>
    simp only
    apply keepRef_andThen
    · exact keepRef_runCallback ..
    · intro c2; exact ⟨id⟩

theorem keepRef_reqReceiverFinalizeClear (c : Conn) : KeepRef c (reqReceiverFinalizeClear c).1 := by
  unfold reqReceiverFinalizeClear
  cases c.inn.receiverHook with
  | none => exact KeepRef.refl c
  | some h =>
    simp only
    exact (keepRef_reqReceiverSend true c).trans ⟨id⟩

theorem keepRef_reqReceiverSet (h : Hook) (c : Conn) : KeepRef c (reqReceiverSet h c).1 := by
  unfold reqReceiverSet
  simp only
  exact (keepRef_reqReceiverFinalizeClear c).trans ⟨id⟩

theorem keepRef_txFinalize (cfg : Cfg) (uid : Nat) (c : Conn) : KeepRef c (txFinalize cfg uid c).1 := by
  unfold txFinalize
  cases c.findTx uid with
  | none => exact KeepRef.refl c
  | some t =>
    simp only
    split
    · exact KeepRef.refl c
    · apply keepRef_andThen
      · exact keepRef_runCallback ..
      · intro c1
        split
        · split
          · exact keepRef_destroyTx ..
          · exact KeepRef.refl _
        · exact KeepRef.refl _

theorem keepRef_txStateRequestCompletePartial (cfg : Cfg) (uid : Nat) (c : Conn) :
    KeepRef c (txStateRequestCompletePartial cfg uid c).1 := by
  unfold txStateRequestCompletePartial
  simp only
  apply keepRef_andThen
  · split
    · exact keepRef_reqProcessBodyData ..
    · exact KeepRef.refl c
  · intro c1
    apply keepRef_andThen
    · exact (keepRef_modTx _ _ c1).trans (keepRef_runCallback ..)
    · intro c2
      apply keepRef_andThen
      · exact keepRef_reqReceiverFinalizeClear c2
      · intro c3; exact ⟨id⟩

theorem keepRef_txStateRequestComplete (cfg : Cfg) (uid : Nat) (c : Conn) : KeepRef c (txStateRequestComplete cfg uid c).1 := by
  unfold txStateRequestComplete
  simp only
  apply keepRef_andThen
  · split
    · exact keepRef_txStateRequestCompletePartial ..
    · exact KeepRef.refl c
  · intro c1
    have kf := keepRef_txFinalize cfg uid { c1 with inState := if ((c1.findTx uid).map (·.is09)).getD ((c.findTx uid).getD { uid := uid }).is09 then .ignoreDataAfter09 else .idle }
    rcases hx : txFinalize cfg uid { c1 with inState := if ((c1.findTx uid).map (·.is09)).getD ((c.findTx uid).getD { uid := uid }).is09 then .ignoreDataAfter09 else .idle } with ⟨c2, rc2⟩
    rw [hx] at kf
    exact ⟨fun h => (keepRef_clearIn _ _ rfl).keep (kf.keep h)⟩

theorem keepRef_txStateRequestStart (uid : Nat) (c : Conn) : KeepRef c (txStateRequestStart uid c).1 := by
  unfold txStateRequestStart
  apply keepRef_andThen
  · exact keepRef_runCallback ..
  · intro c1
    exact ⟨fun h => (keepRef_modIn _ { c1 with inState := .line }).keep h⟩

theorem keepRef_processRequestHeader (data : Bytes) (c : Conn) : KeepRef c (processRequestHeader data c).1 := by
  unfold processRequestHeader
  simp only
  exact (keepRef_modIn _ c).trans (keepRef_modIn _ _)

theorem keepRef_reqFlushHeader (c : Conn) : KeepRef c (reqFlushHeader c).1 := by
  unfold reqFlushHeader
  cases c.inn.header with
  | none => exact KeepRef.refl c
  | some h =>
    simp only
    have := keepRef_processRequestHeader h c
    split
    · exact this
    · exact this.trans ⟨id⟩

theorem keepRef_installUrlenc (cfg : Cfg) (uid : Nat) (t : Tx) (c : Conn) : KeepRef c (installUrlenc cfg uid t c) := by
  unfold installUrlenc
  simp only []
  repeat' split
  all_goals first | exact KeepRef.refl c | exact keepRef_setTx _ c

theorem keepRef_installMpart (cfg : Cfg) (uid : Nat) (t : Tx) (c : Conn) : KeepRef c (installMpart cfg uid t c) := by
  unfold installMpart
  simp only []
  repeat' split
  all_goals first | exact KeepRef.refl c | exact keepRef_setTx _ c

theorem keepRef_txProcessRequestHeadersTail (cfg : Cfg) (uid : Nat) (t : Tx) (ae : Bool) (c : Conn) :
    KeepRef c (txProcessRequestHeadersTail cfg uid t ae c).1 := by
  unfold txProcessRequestHeadersTail
  split
  · exact KeepRef.refl c
  · apply keepRef_andThen
    · exact keepRef_reqReceiverFinalizeClear c
    · intro c1
      exact ((keepRef_installUrlenc cfg uid t c1).trans (keepRef_installMpart cfg uid t _)).trans (keepRef_runCallback ..)

/-- htp_tx_process_request_headers: it stores the transaction record back with `setTx` -/
theorem keepRef_txProcessRequestHeaders (cfg : Cfg) (uid : Nat) (c : Conn) : KeepRef c (txProcessRequestHeaders cfg uid c).1 := by
  unfold txProcessRequestHeaders
  extract_lets t0 ce enc c2 t1 c1 fr t2 hasBody c0 un
  have k2 : KeepRef c c2 := keepRef_modTx ..
  have k1 : KeepRef c2 c1 := by
    simp only [c1]
    split
    · exact ⟨id⟩
    · exact KeepRef.refl _
  have k0 : KeepRef c1 c0 := by
    simp only [c0]
    split
    · exact ⟨id⟩
    · exact KeepRef.refl _
  have hc0 : KeepRef c c0 := (k2.trans k1).trans k0
  clear_value c0
  split
  extract_lets t3 t4 t5
  clear_value t5
  split
  rename_i T ae heq
  exact hc0.trans ((keepRef_setTx T c0).trans (keepRef_txProcessRequestHeadersTail ..))

theorem keepRef_urlencQueryCallback (cfg : Cfg) (uid : Nat) (c : Conn) : KeepRef c (urlencQueryCallback cfg uid c) := by
  unfold urlencQueryCallback
  cases c.findTx uid with
  | none => exact KeepRef.refl c
  | some t =>
    simp only []
    repeat' split
    all_goals first | exact KeepRef.refl c | exact keepRef_setTx _ c

theorem keepRef_txStateRequestLine (cfg : Cfg) (uid : Nat) (c : Conn) : KeepRef c (txStateRequestLine cfg uid c).1 := by
  unfold txStateRequestLine
  extract_lets t0 hp fl1 fl2 src t1 t2 t3 c1
  split
  · exact KeepRef.refl c
  · have hc1 : KeepRef c c1 := keepRef_setTx t3 c
    clear_value c1
    refine hc1.trans (keepRef_andThen c1 _ _ (keepRef_runCallback ..) ?_)
    intro c2
    have k3 : KeepRef c2 (if cfg.urlencParsers then urlencQueryCallback cfg uid c2 else c2) := by
      split
      · exact keepRef_urlencQueryCallback ..
      · exact KeepRef.refl _
    apply keepRef_andThen
    · exact k3.trans (keepRef_runCallback ..)
    · intro c3; exact ⟨id⟩

theorem keepRef_txStateRequestHeaders (cfg : Cfg) (uid : Nat) (c : Conn) : KeepRef c (txStateRequestHeaders cfg uid c).1 := by
  unfold txStateRequestHeaders
  simp only
  split
  · apply keepRef_andThen
    · exact keepRef_runCallback ..
    · intro c1
      apply keepRef_andThen
      · exact keepRef_reqReceiverFinalizeClear c1
      · intro c2; exact ⟨id⟩
  · split
    · have k0 : KeepRef c (if c.inChunkCount != c.inChunkRequestIndex then c.modTx uid (fun t => { t with flags := t.flags ||| MULTI_PACKET_HEAD }) else c) := by
        split
        · exact keepRef_modTx ..
        · exact KeepRef.refl c
      apply keepRef_andThen
      · exact k0.trans (keepRef_txProcessRequestHeaders ..)
      · intro c1; exact ⟨id⟩
    · exact KeepRef.refl c

/-! ### the fourteen request state functions -/


/-- REQ_IDLE is the one request state that creates a transaction -/
theorem keepRef_reqIdle (cfg : Cfg) (c : Conn) : KeepRef c (reqIdle cfg c).1 := by
  unfold reqIdle
  split
  · exact KeepRef.refl c
  · have k := keepRef_txCreate cfg c
    rcases hx : txCreate cfg c with ⟨c1, u⟩
    rw [hx] at k
    simp only at k ⊢
    cases u with
    | none => exact k.trans (keepRef_clearIn _ _ rfl)
    | some uid =>
      simp only
      have k2 := keepRef_txStateRequestStart uid c1
      rcases hy : txStateRequestStart uid c1 with ⟨c2, rc2⟩
      rw [hy] at k2
      exact k.trans (k2)

theorem keepRef_reqLineComplete (cfg : Cfg) (c : Conn) : KeepRef c (reqLineComplete cfg c).1 := by
  unfold reqLineComplete
  cases hc : c.inn.consolidate cfg.fieldLimitHard true with
  | none => exact KeepRef.refl c
  | some p =>
    obtain ⟨d, data⟩ := p
    simp -zeta only
    extract_lets c0 ci line rl c1
    have ki : KeepRef c ci := (keepRef_inn c d).trans (keepRef_modIn _ c0)
    have k1 : KeepRef c c1 := (keepRef_inn c d).trans (keepRef_modIn _ c0)
    clear_value ci c1
    split
    · exact (keepRef_inn c d).trans ⟨id⟩
    · split
      · exact ki.trans ⟨id⟩
      · cases c1.inn.tx with
        | none => exact k1
        | some uid =>
          simp only
          have k2 := keepRef_txStateRequestLine cfg uid c1
          rcases hy : txStateRequestLine cfg uid c1 with ⟨c2, rc2⟩
          rw [hy] at k2
          simp only at k2 ⊢
          split
          · exact k1.trans k2
          · exact (k1.trans k2).trans ⟨id⟩

theorem keepRef_reqLineLoop (cfg : Cfg) (fuel : Nat) (c : Conn) : KeepRef c (reqLineLoop cfg fuel c).1 := by
  induction fuel generalizing c with
  | zero => unfold reqLineLoop; exact KeepRef.refl c
  | succ k ih =>
    unfold reqLineLoop
    simp only
    split
    · exact (keepRef_inn c _).trans (keepRef_reqLineComplete cfg _)
    · cases hn : (c.inn.peekSet).1.copyByte with
      | none => exact ⟨id⟩
      | some p =>
        obtain ⟨d, b⟩ := p
        simp only
        split
        · exact (keepRef_inn c _).trans (keepRef_reqLineComplete cfg _)
        · exact (keepRef_inn c _).trans (ih _)

theorem keepRef_reqProtocol (c : Conn) : KeepRef c (reqProtocol c).1 := by
  have k1 : KeepRef c ({ c with inState := .headers }.modIn (fun t => { t with reqProgress := 2 })) :=
    ⟨fun h => (keepRef_modIn _ { c with inState := .headers }).keep h⟩
  unfold reqProtocol
  simp only []
  repeat' split
  all_goals first
    | exact ⟨id⟩
    | exact k1
    | exact k1.trans (keepRef_modIn _ _)

theorem keepRef_reqHeadersLoop (cfg : Cfg) (fuel : Nat) (c : Conn) : KeepRef c (reqHeadersLoop cfg fuel c).1 := by
  induction fuel generalizing c with
  | zero => unfold reqHeadersLoop; exact KeepRef.refl c
  | succ k ih =>
    unfold reqHeadersLoop
    cases c.inn.tx with
    | none => exact KeepRef.refl c
    | some uid =>
      simp only
      split
      · apply keepRef_andThen
        · exact keepRef_reqFlushHeader c
        · intro c1
          exact (keepRef_inn c1 c1.inn.clearBuffer).trans ((keepRef_modIn _ _).trans (keepRef_txStateRequestHeaders ..))
      · cases hn : c.inn.copyByte with
        | none => exact KeepRef.refl c
        | some p =>
          obtain ⟨d, b⟩ := p
          simp only
          split
          · exact (keepRef_inn c d).trans (ih _)
          · cases hc : d.consolidate cfg.fieldLimitHard true with
            | none => exact keepRef_inn c d
            | some q =>
              obtain ⟨d2, data⟩ := q
              simp only
              split
              · apply keepRef_andThen
                · exact (keepRef_inn c d2).trans (keepRef_reqFlushHeader _)
                · intro c1
                  exact (keepRef_inn c1 _).trans (keepRef_txStateRequestHeaders ..)
              · apply keepRef_andThen
                · split
                  · apply keepRef_andThen
                    · exact (keepRef_inn c d2).trans (keepRef_reqFlushHeader _)
                    · intro c1
                      split
                      · split
                        · have kk := keepRef_processRequestHeader (Parse.chomp data).1 { c1 with inn := (c1.inn.peekSet).1 }
                          split
                          · exact (keepRef_inn c1 _).trans kk
                          · exact (keepRef_inn c1 _).trans kk
                        · exact ⟨id⟩
                      · exact ⟨id⟩
                  · split
                    · exact ((keepRef_inn c d2).trans (keepRef_modIn _ _)).trans ⟨id⟩
                    · split
                      · exact (keepRef_inn c d2).trans ⟨id⟩
                      · exact keepRef_inn c d2
                · intro c1
                  exact (keepRef_inn c1 _).trans (ih _)

theorem keepRef_reqConnectCheck (c : Conn) : KeepRef c (reqConnectCheck c).1 := by
  unfold reqConnectCheck
  split <;> exact ⟨id⟩

theorem keepRef_reqConnectWaitResponse (c : Conn) : KeepRef c (reqConnectWaitResponse c).1 := by
  unfold reqConnectWaitResponse
  simp only []
  repeat' split
  all_goals exact ⟨id⟩

theorem keepRef_reqConnectProbeLoop (cfg : Cfg) (fuel : Nat) (c : Conn) : KeepRef c (reqConnectProbeLoop cfg fuel c).1 := by
  induction fuel generalizing c with
  | zero => unfold reqConnectProbeLoop; exact KeepRef.refl c
  | succ k ih =>
    unfold reqConnectProbeLoop
    simp only
    split
    · cases hc : (c.inn.peekSet).1.consolidate cfg.fieldLimitHard true with
      | none => exact ⟨id⟩
      | some q =>
        obtain ⟨d2, data⟩ := q
        simp only
        split
        · split
          · rename_i uid _
            exact (keepRef_inn c d2).trans (keepRef_txStateRequestComplete cfg uid _)
          · exact keepRef_inn c d2
        · exact (keepRef_inn c d2).trans ⟨id⟩
    · cases hn : (c.inn.peekSet).1.copyByte with
      | none => exact ⟨id⟩
      | some p =>
        obtain ⟨d, b⟩ := p
        exact (keepRef_inn c d).trans (ih _)

theorem keepRef_reqBodyDetermine (c : Conn) : KeepRef c (reqBodyDetermine c).1 := by
  unfold reqBodyDetermine
  simp only []
  repeat' split
  all_goals first
    | exact ⟨id⟩
    | exact ⟨fun h => (keepRef_modIn _ { c with inState := .bodyChunkedLength }).keep h⟩
    | exact ⟨fun h => (keepRef_modIn _ { c with inn := { c.inn with contentLength := c.inTx.reqContentLength, bodyDataLeft := c.inTx.reqContentLength }, inState := ReqState.bodyIdentity }).keep h⟩

theorem keepRef_reqBodyIdentity (cfg : Cfg) (c : Conn) : KeepRef c (reqBodyIdentity cfg c).1 := by
  unfold reqBodyIdentity
  extract_lets avail n data
  clear_value n data
  split
  · exact KeepRef.refl c
  · have k := keepRef_reqProcessBodyData cfg data (if c.inn.curNull then n.toNat else 0) c
    rcases hx : reqProcessBodyData cfg data (if c.inn.curNull then n.toNat else 0) c with ⟨c1, rc1⟩
    rw [hx] at k
    simp only at k ⊢
    have k2 : KeepRef c ({ c1 with inn := { c1.inn.advance n with bodyDataLeft := c1.inn.bodyDataLeft - n } }.modIn
        (fun t => { t with reqMessageLen := t.reqMessageLen + n.toNat })) :=
      k.trans ⟨fun h => (keepRef_modIn _ { c1 with inn := { c1.inn.advance n with bodyDataLeft := c1.inn.bodyDataLeft - n } }).keep h⟩
    split
    · exact k
    · split
      · exact k2.trans ⟨id⟩
      · exact k2

theorem keepRef_reqChunkedDataEndLoop (fuel : Nat) (c : Conn) : KeepRef c (reqChunkedDataEndLoop fuel c).1 := by
  induction fuel generalizing c with
  | zero => unfold reqChunkedDataEndLoop; exact KeepRef.refl c
  | succ k ih =>
    unfold reqChunkedDataEndLoop
    cases hn : c.inn.nextByteConsume with
    | none => exact KeepRef.refl c
    | some p =>
      obtain ⟨d, b⟩ := p
      simp only
      have k1 : KeepRef c ({ c with inn := d }.modIn (fun t => { t with reqMessageLen := t.reqMessageLen + 1 })) :=
        (keepRef_inn c d).trans (keepRef_modIn _ _)
      split
      · exact k1.trans ⟨id⟩
      · exact k1.trans (ih _)

theorem keepRef_reqBodyChunkedData (cfg : Cfg) (c : Conn) : KeepRef c (reqBodyChunkedData cfg c).1 := by
  unfold reqBodyChunkedData
  extract_lets avail n data
  clear_value n data
  split
  · exact KeepRef.refl c
  · have k := keepRef_reqProcessBodyData cfg (some data) 0 c
    rcases hx : reqProcessBodyData cfg (some data) 0 c with ⟨c1, rc1⟩
    rw [hx] at k
    simp only at k ⊢
    have k2 : KeepRef c ({ c1 with inn := { c1.inn.advance n with chunkedLength := c1.inn.chunkedLength - n } }.modIn
        (fun t => { t with reqMessageLen := t.reqMessageLen + n.toNat })) :=
      k.trans ⟨fun h => (keepRef_modIn _ { c1 with inn := { c1.inn.advance n with chunkedLength := c1.inn.chunkedLength - n } }).keep h⟩
    split
    · exact k
    · split
      · exact k2.trans ⟨id⟩
      · exact k2

theorem keepRef_reqChunkedLengthLoop (cfg : Cfg) (fuel : Nat) (c : Conn) : KeepRef c (reqChunkedLengthLoop cfg fuel c).1 := by
  induction fuel generalizing c with
  | zero => unfold reqChunkedLengthLoop; exact KeepRef.refl c
  | succ k ih =>
    unfold reqChunkedLengthLoop
    cases hn : c.inn.copyByte with
    | none => exact KeepRef.refl c
    | some p =>
      obtain ⟨d, b⟩ := p
      simp -zeta only
      extract_lets c0
      have h0 : KeepRef c c0 := keepRef_inn c d
      split
      · exact h0.trans (ih _)
      · cases hc : c0.inn.consolidate cfg.fieldLimitHard true with
        | none => exact h0
        | some q =>
          obtain ⟨d2, data⟩ := q
          simp -zeta only
          extract_lets c1 line src c2
          have h1 : KeepRef c c1 := (h0.trans (keepRef_inn c0 d2)).trans (keepRef_modIn _ _)
          have h2 : KeepRef c c2 := h1.trans ⟨id⟩
          clear_value c2 c1
          split
          · exact h2.trans ⟨id⟩
          · split
            · exact h2.trans ⟨fun h => (keepRef_modIn _ { c2 with inState := .headers }).keep h⟩
            · exact h2

theorem keepRef_reqIgnore (c : Conn) : KeepRef c (reqIgnoreDataAfter09 c).1 := by
  unfold reqIgnoreDataAfter09
  simp only []
  split <;> exact ⟨id⟩

theorem keepRef_reqFinalize (cfg : Cfg) (c : Conn) : KeepRef c (reqFinalize cfg c).1 := by
  unfold reqFinalize
  cases c.inn.tx with
  | none => exact KeepRef.refl c
  | some uid =>
    simp -zeta only
    extract_lets cp pre
    have hp : ∀ c' b, pre = some (c', b) → KeepRef c c' := by
      intro c' b hpre
      simp only [pre] at hpre
      split at hpre
      · split at hpre
        · simp only [Option.some.injEq, Prod.mk.injEq] at hpre; rw [← hpre.1]; exact ⟨id⟩
        · split at hpre
          · split at hpre
            · simp at hpre
            · simp only [Option.some.injEq, Prod.mk.injEq] at hpre
              rw [← hpre.1]; exact keepRef_inn c _
          · simp only [Option.some.injEq, Prod.mk.injEq] at hpre; rw [← hpre.1]; exact ⟨id⟩
      · simp only [Option.some.injEq, Prod.mk.injEq] at hpre; rw [← hpre.1]; exact ⟨id⟩
    clear_value pre
    have viaComplete : ∀ c' : Conn, KeepRef c c' →
        KeepRef c (txStateRequestComplete cfg uid c').1 :=
      fun c' h' => h'.trans (keepRef_txStateRequestComplete ..)
    split
    · exact ⟨id⟩
    · rename_i _ c1
      exact viaComplete c1 (hp _ _ rfl)
    · rename_i _ c1
      have h1 := hp _ _ rfl
      clear hp
      cases hc : c1.inn.consolidate cfg.fieldLimitHard true with
      | none => exact h1
      | some q =>
        obtain ⟨d2, data⟩ := q
        simp -zeta only
        extract_lets c2
        have h2 : KeepRef c c2 := h1.trans (keepRef_inn c1 d2)
        clear_value c2
        split
        · exact viaComplete c2 h2
        · rename_i src go _
          have hgo : ∀ c', go = some c' → KeepRef c c' := by
            intro c' hg
            simp only [go] at hg
            split at hg
            · split at hg
              · simp at hg
              · simp only [Option.some.injEq] at hg
                rw [← hg]
                split
                · exact h2
                · exact h2.trans ⟨id⟩
            · simp only [Option.some.injEq] at hg; rw [← hg]; exact h2
          clear_value go
          split
          · exact viaComplete _ (h2.trans ⟨id⟩)
          · rename_i c3
            have h3 := hgo _ rfl
            clear hgo
            extract_lets r
            have hr : ∀ c' dd, r = some (c', dd) → KeepRef c c' := by
              intro c' dd hh
              simp only [r] at hh
              split at hh
              · cases hcb : c3.inn.copyByte with
                | none => rw [hcb] at hh; simp at hh
                | some p =>
                  obtain ⟨d4, b4⟩ := p
                  rw [hcb] at hh
                  simp only at hh
                  cases hc4 : d4.consolidate cfg.fieldLimitHard true with
                  | none =>
                    rw [hc4] at hh
                    simp only [Option.some.injEq, Prod.mk.injEq] at hh
                    rw [← hh.1]; exact h3.trans (keepRef_inn c3 d4)
                  | some q4 =>
                    obtain ⟨d5, data5⟩ := q4
                    rw [hc4] at hh
                    simp only [Option.some.injEq, Prod.mk.injEq] at hh
                    rw [← hh.1]; exact h3.trans (keepRef_inn c3 d5)
              · simp only [Option.some.injEq, Prod.mk.injEq] at hh; rw [← hh.1]; exact h3
            clear_value r
            split
            · exact h3
            · rename_i c6 data6
              have h6 := hr _ _ rfl
              have k := keepRef_reqProcessBodyData cfg (some data6) 0 c6
              rcases hx : reqProcessBodyData cfg (some data6) 0 c6 with ⟨c7, rc7⟩
              rw [hx] at k
              simp only at k ⊢
              exact (h6.trans k).trans ⟨id⟩

theorem keepRef_reqHandleStateChange (c : Conn) : KeepRef c (reqHandleStateChange c).1 := by
  unfold reqHandleStateChange
  split
  · exact KeepRef.refl c
  · simp only
    apply keepRef_andThen
    · repeat' split
      all_goals first | exact KeepRef.refl c | exact keepRef_reqReceiverSet _ c
    · intro c1; exact ⟨id⟩

theorem keepRef_reqStateFn (cfg : Cfg) (c : Conn) : KeepRef c (reqStateFn cfg c).1 := by
  unfold reqStateFn
  cases c.inState with
  | idle => exact keepRef_reqIdle cfg c
  | line => exact (keepRef_reqLineLoop cfg _ c)
  | protocol => exact (keepRef_reqProtocol c)
  | headers => exact (keepRef_reqHeadersLoop cfg _ c)
  | connectCheck => exact (keepRef_reqConnectCheck c)
  | connectWaitResponse => exact (keepRef_reqConnectWaitResponse c)
  | connectProbeData => exact (keepRef_reqConnectProbeLoop cfg _ c)
  | bodyDetermine => exact (keepRef_reqBodyDetermine c)
  | bodyIdentity => exact (keepRef_reqBodyIdentity cfg c)
  | bodyChunkedLength => exact (keepRef_reqChunkedLengthLoop cfg _ c)
  | bodyChunkedData => exact (keepRef_reqBodyChunkedData cfg c)
  | bodyChunkedDataEnd => exact (keepRef_reqChunkedDataEndLoop _ c)
  | finalize => exact (keepRef_reqFinalize cfg c)
  | ignoreDataAfter09 => exact (keepRef_reqIgnore c)

theorem keepRef_reqStoreChunk (data : Option Bytes) (len : Nat) (c : Conn) : KeepRef c (reqStoreChunk data len c) := ⟨id⟩

theorem keepRef_reqWakeOther (c : Conn) : KeepRef c (reqWakeOther c) := by
  unfold reqWakeOther
  split <;> exact ⟨id⟩

/-- the for(;;) of htp_connp_req_data - data, gap or close, any fuel -/
theorem keepRef_reqDriverLoop (cfg : Cfg) (gap : Bool) (fuel : Nat) (c : Conn) : KeepRef c (reqDriverLoop cfg gap fuel c).1 := by
  induction fuel generalizing c with
  | zero => unfold reqDriverLoop; exact ⟨id⟩
  | succ k ih =>
    unfold reqDriverLoop
    simp only
    -- what happens with the answer of one pass
    have tail : ∀ (c1 : Conn) (rc1 : Rc), KeepRef c c1 → KeepRef c
        (match (if (rc1 == Rc.ok) = true then
                  if (c1.inn.status == STREAM_TUNNEL) = true then (c1, Rc.ok) else reqHandleStateChange c1
                else (c1, rc1) : R) with
         | (c, rc) =>
          if (rc == Rc.ok) = true then
            if (c.inn.status == STREAM_TUNNEL) = true then (c, STREAM_TUNNEL) else reqDriverLoop cfg gap k c
          else if (rc == Rc.data || rc == Rc.dataBuffer) = true then
            (match reqReceiverSend false c with
             | (c, _) =>
               if (rc == Rc.dataBuffer) = true then
                 (match c.inn.buffer cfg.fieldLimitHard true with
                  | none => (({ c with inn := { c.inn with status := STREAM_ERROR } }, STREAM_ERROR) : Conn × Nat)
                  | some d => ({ c with inn := { d with status := STREAM_DATA } }, STREAM_DATA))
               else ({ c with inn := { c.inn with status := STREAM_DATA } }, STREAM_DATA))
          else if (rc == Rc.dataOther) = true then
            (if c.inn.read ≥ c.inn.len then ({ c with inn := { c.inn with status := STREAM_DATA } }, STREAM_DATA)
             else ({ c with inn := { c.inn with status := STREAM_DATA_OTHER } }, STREAM_DATA_OTHER))
          else if (rc == Rc.stop) = true then ({ c with inn := { c.inn with status := STREAM_STOP } }, STREAM_STOP)
          else ({ c with inn := { c.inn with status := STREAM_ERROR } }, STREAM_ERROR)).1 := by
      intro c1 rc1 k1
      have k2 : KeepRef c (if (rc1 == Rc.ok) = true then
                  if (c1.inn.status == STREAM_TUNNEL) = true then (c1, Rc.ok) else reqHandleStateChange c1
                else (c1, rc1) : R).1 := by
        split
        · split
          · exact k1
          · exact k1.trans ((keepRef_reqHandleStateChange c1))
        · exact k1
      generalize (if (rc1 == Rc.ok) = true then
                  if (c1.inn.status == STREAM_TUNNEL) = true then (c1, Rc.ok) else reqHandleStateChange c1
                else (c1, rc1) : R) = r2 at k2 ⊢
      obtain ⟨c2, rc2⟩ := r2
      simp only at k2 ⊢
      split
      · split
        · exact k2
        · exact k2.trans (ih c2)
      · split
        · have kk := (keepRef_reqReceiverSend false c2)
          rcases hz : reqReceiverSend false c2 with ⟨c3, rc3⟩
          rw [hz] at kk
          simp only at kk ⊢
          split
          · cases hb : c3.inn.buffer cfg.fieldLimitHard true with
            | none => exact (k2.trans kk).trans ⟨id⟩
            | some d => exact (k2.trans kk).trans ((keepRef_inn c3 d).trans ⟨id⟩)
          · exact (k2.trans kk).trans ⟨id⟩
        · repeat' split
          all_goals exact k2.trans ⟨id⟩
    split
    · exact KeepRef.refl c
    · rename_i c1 rc1 hstep
      have k1 : KeepRef c c1 := by
        split at hstep
        · split at hstep
          · simp only [Option.some.injEq] at hstep
            have := keepRef_reqStateFn cfg c
            rw [hstep] at this; exact this
          · split at hstep
            · split at hstep
              · rename_i uid _
                simp only [Option.some.injEq] at hstep
                have := (keepRef_txStateRequestComplete cfg uid c)
                rw [hstep] at this; exact this
              · simp only [Option.some.injEq, Prod.mk.injEq] at hstep
                rw [← hstep.1]; exact KeepRef.refl c
            · simp at hstep
        · simp only [Option.some.injEq] at hstep
          have := keepRef_reqStateFn cfg c
          rw [hstep] at this; exact this
      exact tail c1 rc1 k1



/-- **htp_connp_req_data**: any data (a chunk, a stream gap, the NULL chunk of a close), any length -/
theorem keepRef_reqData (cfg : Cfg) (data : Option Bytes) (len : Nat) (c : Conn) :
    KeepRef c (reqData cfg data len c).1 := by
  unfold reqData
  simp only
  have key : KeepRef c (reqDataCore cfg data len c).1 := by
    unfold reqDataCore
    split
    · exact ⟨id⟩
    split
    · exact ⟨id⟩
    split
    · exact ⟨id⟩
    split
    · exact ⟨id⟩
    simp only
    split
    · exact ⟨id⟩
    · exact (((keepRef_reqStoreChunk data len c).trans (keepRef_reqWakeOther _))).trans (keepRef_reqDriverLoop cfg _ _ _)
  exact ⟨fun h => key.keep h⟩

end Htp.Conn

