/- C01 (reference validity of the transaction slots), part 2: the response side, the other calls, whole histories.

   Every function of the response side keeps `RefsInv` (Lemmas/RefsValid.lean). `out_tx` is set in three places: RES_IDLE takes the uid of
   the transaction stored in slot `out_next_tx_index` of the list (so it is in the list); the unmatched-response path takes the uid
   `txCreate` has just appended (it is what `in_tx` names, so the invariant itself says it is in the list); `txStateResponseStart` is
   called with one of these two. htp_connp_tx_freed drops leading EMPTY slots only. So `in_tx` / `out_tx` name a transaction of the
   list, or nothing, after every prefix of every history of calls: `history_refs_valid`. -/
import HtpModel.Lemmas.RefsValid
import HtpModel.Lemmas.History
namespace Htp.Conn
open Htp Htp.Gen

/-! ### receivers, body data, transaction state functions of the response side -/

theorem keepRef_resReceiverSend (l : Bool) (c : Conn) : KeepRef c (resReceiverSend l c).1 := by
  unfold resReceiverSend
  cases c.out.receiverHook with
  | none => exact KeepRef.refl c
  | some h =>
    simp only
    apply keepRef_andThen
    · exact keepRef_runCallback ..
    · intro c2; exact ⟨id⟩

theorem keepRef_resReceiverFinalizeClear (c : Conn) : KeepRef c (resReceiverFinalizeClear c).1 := by
  unfold resReceiverFinalizeClear
  cases c.out.receiverHook with
  | none => exact KeepRef.refl c
  | some h =>
    simp only
    exact (keepRef_resReceiverSend true c).trans ⟨id⟩

theorem keepRef_resReceiverSet (h : Hook) (c : Conn) : KeepRef c (resReceiverSet h c).1 := by
  unfold resReceiverSet
  simp only
  exact (keepRef_resReceiverFinalizeClear c).trans ⟨id⟩

theorem keepRef_resProcessBodyData (cfg : Cfg) (data : Option Bytes) (c : Conn) : KeepRef c (resProcessBodyData cfg data c).1 := by
  unfold resProcessBodyData
  cases c.out.tx with
  | none => exact KeepRef.refl c
  | some uid =>
    simp only
    have f0 : KeepRef c (c.modTx uid fun t => { t with resMessageLen := t.resMessageLen + (data.map (·.length)).getD 0 }) := keepRef_modTx ..
    split
    · split
      · exact f0
      · split
        · exact f0.trans (keepRef_unsupported _)
        · rcases hx : decompress cfg false uid (8 * (data.map (·.length)).getD 0 + 128)
            (c.modTx uid fun t => { t with resMessageLen := t.resMessageLen + (data.map (·.length)).getD 0 }).outDecs data
            (c.modTx uid fun t => { t with resMessageLen := t.resMessageLen + (data.map (·.length)).getD 0 }) with ⟨ds, c1, rc1⟩
          have f1 := (keepRef_dec cfg false uid (8 * (data.map (·.length)).getD 0 + 128)).2.2.2
            (c.modTx uid fun t => { t with resMessageLen := t.resMessageLen + (data.map (·.length)).getD 0 }).outDecs data
            (c.modTx uid fun t => { t with resMessageLen := t.resMessageLen + (data.map (·.length)).getD 0 })
          rw [hx] at f1
          simp only at f1 ⊢
          exact (f0.trans f1).trans ⟨id⟩
    · split
      · have h := keepRef_resRunHookBodyData data
          ((c.modTx uid fun t => { t with resMessageLen := t.resMessageLen + (data.map (·.length)).getD 0 }).modTx uid
            fun t => { t with resEntityLen := t.resEntityLen + (data.map (·.length)).getD 0 })
        have f2 := (f0.trans (keepRef_modTx uid (fun t => { t with resEntityLen := t.resEntityLen + (data.map (·.length)).getD 0 }) _)).trans h
        split <;> exact f2
      · exact f0

theorem keepRef_resProcessBodyDataGap (cfg : Cfg) (data : Option Bytes) (g : Nat) (c : Conn) :
    KeepRef c (resBodyIdentityClKnown.resProcessBodyDataGap cfg data g c).1 := by
  unfold resBodyIdentityClKnown.resProcessBodyDataGap
  split
  · exact keepRef_resProcessBodyData ..
  · cases c.out.tx with
    | none => exact KeepRef.refl c
    | some uid =>
      simp only
      have f0 : KeepRef c (c.modTx uid fun t => { t with resMessageLen := t.resMessageLen + g }) := keepRef_modTx ..
      split
      · have f1 := f0.trans (keepRef_modTx uid (fun t => { t with resEntityLen := t.resEntityLen + g }) _)
        split
        · refine f1.trans ?_
          apply keepRef_andThen
          · exact keepRef_runCallbackN ..
          · intro c2; exact keepRef_runCallback ..
        · refine f1.trans ?_
          apply keepRef_andThen
          · exact keepRef_runCallbackN ..
          · intro c2; exact keepRef_runCallback ..
      · exact f0.trans (keepRef_unsupported _)

theorem keepRef_processResponseHeader (d : Bytes) (c : Conn) : KeepRef c (processResponseHeader d c).1 := by
  unfold processResponseHeader
  simp only
  refine (keepRef_modOut _ c ?_).trans (keepRef_modOut _ _)
  intro t
  repeat' split
  all_goals rfl

theorem keepRef_resFlushHeader (c : Conn) : KeepRef c (resFlushHeader c).1 := by
  unfold resFlushHeader
  cases c.out.header with
  | none => exact KeepRef.refl c
  | some h =>
    simp only
    have := keepRef_processResponseHeader h c
    split
    · exact this
    · exact this.trans ⟨id⟩

theorem keepRef_txStateResponseLine (uid : Nat) (c : Conn) : KeepRef c (txStateResponseLine uid c).1 := by
  unfold txStateResponseLine
  simp only
  refine KeepRef.trans ?_ (keepRef_runCallback ..)
  split
  · exact keepRef_modTx ..
  · exact KeepRef.refl c

theorem keepRef_txStateResponseHeaders (cfg : Cfg) (uid : Nat) (c : Conn) : KeepRef c (txStateResponseHeaders cfg uid c).1 := by
  unfold txStateResponseHeaders
  rcases responseNeedsDecompressor cfg ((c.findTx uid).getD { uid := uid }) with ⟨enc, needs⟩
  simp only
  apply keepRef_andThen
  · exact (keepRef_modTx uid _ c).trans (keepRef_resReceiverFinalizeClear _)
  · intro c1
    apply keepRef_andThen
    · exact keepRef_runCallback ..
    · intro c2
      split
      · split
        · exact ⟨id⟩
        · cases ceChain cfg ((getHeaderC ((c.findTx uid).getD { uid := uid }).resHeaders (b!"content-encoding")).map (·.value) |>.getD []) with
          | nil => exact ⟨id⟩
          | cons ty rest =>
            exact ⟨fun h => (keepRef_modTx uid _ { c2 with outDecs := (ty :: rest).map (decCreate cfg), outDecompressor := true }).keep h⟩
      · exact KeepRef.refl _

/-- htp_tx_state_response_start stores `uid` in `out_tx`: its callers have already done so, with a uid taken from the list -/
theorem keepRef_txStateResponseStart (uid : Nat) (c : Conn) (he : c.out.tx = some uid) : KeepRef c (txStateResponseStart uid c).1 := by
  unfold txStateResponseStart
  simp only
  apply keepRef_andThen
  · exact (keepRef_out c _ he.symm).trans (keepRef_runCallback ..)
  · intro c1
    split
    · exact (keepRef_modTx uid _ c1).trans ⟨id⟩
    · exact (keepRef_modTx uid _ c1).trans ⟨id⟩

theorem keepRef_txStateResponseCompleteEx (cfg : Cfg) (uid : Nat) (c : Conn) : KeepRef c (txStateResponseCompleteEx cfg uid c).1 := by
  unfold txStateResponseCompleteEx
  simp only
  apply keepRef_andThen
  · split
    · apply keepRef_andThen
      · refine KeepRef.trans ?_ (keepRef_runCallback ..)
        split
        · exact (keepRef_modTx uid _ c).trans (keepRef_resProcessBodyData ..)
        · exact keepRef_modTx ..
      · intro c1; exact keepRef_resReceiverFinalizeClear _
    · exact KeepRef.refl c
  · intro c1
    split
    · exact KeepRef.refl _
    · split
      · exact ⟨id⟩
      · apply keepRef_andThen
        · exact keepRef_txFinalize ..
        · intro c2; exact KeepRef.trans (b := { c2 with out := { c2.out with tx := none } }) (keepRef_clearOut _ _ rfl) ⟨id⟩

/-! ### the ten response state functions -/

theorem live_of_inn {c : Conn} {u : Nat} (h : RefsInv c) (e : c.inn.tx = some u) : Live c u := ((refsValid_iff c).1 h.1).1 u e
theorem live_of_out {c : Conn} {u : Nat} (h : RefsInv c) (e : c.out.tx = some u) : Live c u := ((refsValid_iff c).1 h.1).2 u e

/-- the unmatched-response path of RES_IDLE creates a transaction and points `out_tx` at it: the uid is the one `txCreate` has just
    stored in `in_tx`, and by the invariant that one is in the list -/
theorem keepRef_resIdleUnmatched (cfg : Cfg) (c : Conn) : KeepRef c (resIdleUnmatched cfg c).1 := by
  unfold resIdleUnmatched
  have k := keepRef_txCreate cfg c
  rcases hx : txCreate cfg c with ⟨c2, u⟩
  rw [hx] at k
  simp only at k ⊢
  cases u with
  | none => exact k.trans (keepRef_clearOut _ _ rfl)
  | some uid =>
    simp only
    refine ⟨fun h => ?_⟩
    have h2 := k.keep h
    have hl : Live c2 uid := live_of_inn h2 (txCreate_some hx).1
    have h2' := (keepRef_setOut c2 { c2.out with tx := some uid } uid rfl hl).keep h2
    have h3 := (keepRef_modTx uid (fun t => { t with uriNorm := some { path := some REQUEST_URI_NOT_SEEN }, uri := some REQUEST_URI_NOT_SEEN })
      { c2 with out := { c2.out with tx := some uid } }).keep h2'
    have h4 := keepRef_txStateResponseStart uid
      { ({ c2 with out := { c2.out with tx := some uid } } : Conn).modTx uid
          (fun t => { t with uriNorm := some { path := some REQUEST_URI_NOT_SEEN }, uri := some REQUEST_URI_NOT_SEEN }) with
        inState := .finalize,
        outNextTxIndex := (({ c2 with out := { c2.out with tx := some uid } } : Conn).modTx uid
          (fun t => { t with uriNorm := some { path := some REQUEST_URI_NOT_SEEN }, uri := some REQUEST_URI_NOT_SEEN })).outNextTxIndex + 1 } rfl
    exact h4.keep h3

/-- the transaction in slot `out_next_tx_index` is in the list -/
theorem slot_mem {l : List (Option Tx)} {i : Int} {t : Tx} (h : (if i < 0 then none else (l[i.toNat]?).join) = some t) : some t ∈ l := by
  split at h
  · simp at h
  · cases hq : l[i.toNat]? with
    | none => rw [hq] at h; simp at h
    | some o =>
      rw [hq] at h
      simp only [Option.join_some] at h
      subst h
      exact List.mem_of_getElem? hq

/-- RES_IDLE points `out_tx` at the transaction stored in slot `out_next_tx_index` - a transaction of the list - or goes the
    unmatched-response way -/
theorem keepRef_resIdle (cfg : Cfg) (c : Conn) : KeepRef c (resIdle cfg c).1 := by
  unfold resIdle
  split
  · exact KeepRef.refl c
  · simp only []
    split
    · have hk : KeepRef c (if c.inState == .finalize then (match c.inn.tx with | some uid => (txStateRequestComplete cfg uid c).1 | none => c) else c) := by
        split
        · split
          · exact keepRef_txStateRequestComplete ..
          · exact KeepRef.refl c
        · exact KeepRef.refl c
      exact (hk).trans (keepRef_resIdleUnmatched cfg _)
    · rename_i t hslot
      have hl : Live c t.uid := ⟨t, slot_mem hslot, rfl⟩
      have h0 : KeepRef c { c with out := { c.out with tx := some t.uid, contentLength := -1, bodyDataLeft := -1 } } :=
        keepRef_setOut c _ t.uid rfl hl
      have h := keepRef_txStateResponseStart t.uid
        { c with outNextTxIndex := c.outNextTxIndex + 1, out := { c.out with tx := some t.uid, contentLength := -1, bodyDataLeft := -1 } } rfl
      have h1 : KeepRef { c with out := { c.out with tx := some t.uid, contentLength := -1, bodyDataLeft := -1 } }
          { c with outNextTxIndex := c.outNextTxIndex + 1, out := { c.out with tx := some t.uid, contentLength := -1, bodyDataLeft := -1 } } := ⟨id⟩
      exact (h0.trans h1).trans h

theorem keepRef_resLineAsBody (cfg : Cfg) (uid : Nat) (dn : Bool) (data line : Bytes) (cr : Nat) (c : Conn) :
    KeepRef c (resLineAsBody cfg uid dn data line cr c).1 := by
  unfold resLineAsBody
  extract_lets nextIsH rd1 ln1 c1 c2 src c3
  have k1 : KeepRef c c1 := keepRef_modTx ..
  have k3 : KeepRef c c3 := (keepRef_modTx uid _ c).trans ⟨id⟩
  clear_value c1 c3
  split
  · exact k1.trans ⟨id⟩
  · have k := keepRef_resProcessBodyData cfg (if dn then none else some (data.take (line.length + cr))) c3
    rcases hx : resProcessBodyData cfg (if dn then none else some (data.take (line.length + cr))) c3 with ⟨c4, rc4⟩
    rw [hx] at k
    simp only at k ⊢
    split
    · exact (k3.trans k).trans ⟨id⟩
    · split
      · exact (k3.trans k).trans ((keepRef_out c4 _).trans ((keepRef_modTx uid _ _).trans ⟨id⟩))
      · exact (k3.trans k).trans ⟨id⟩

theorem keepRef_resLineComplete (cfg : Cfg) (uid : Nat) (closed : Bool) (c : Conn) : KeepRef c (resLineComplete cfg uid closed c).1 := by
  unfold resLineComplete
  cases hc : c.out.consolidate cfg.fieldLimitHard false with
  | none => exact KeepRef.refl c
  | some q =>
    obtain ⟨d2, data⟩ := q
    simp -zeta only
    extract_lets dataNull c0 c1 c2 c3 rl c4
    have h0 : KeepRef c c0 := keepRef_out c d2
    have h1 : KeepRef c c1 := by
      simp only [c1]
      split
      · exact h0.trans ⟨id⟩
      · exact h0
    have h2 : KeepRef c c2 := h1.trans (keepRef_modTx ..)
    have h3 : KeepRef c c3 := h0.trans (keepRef_modTx ..)
    have h4 : KeepRef c c4 := h3.trans (keepRef_modTx ..)
    clear_value c0 c1 c2 c3 c4 dataNull
    split
    · exact h2.trans ⟨id⟩
    · split
      · exact h3.trans (keepRef_resLineAsBody ..)
      · refine h4.trans ?_
        apply keepRef_andThen
        · exact keepRef_txStateResponseLine uid c4
        · intro c5
          exact ⟨fun h => (keepRef_modTx uid _ { c5 with out := c5.out.clearBuffer, outState := .headers }).keep h⟩

theorem keepRef_resLineLoop (cfg : Cfg) (fuel : Nat) (c : Conn) : KeepRef c (resLineLoop cfg fuel c).1 := by
  induction fuel generalizing c with
  | zero => unfold resLineLoop; exact KeepRef.refl c
  | succ k ih =>
    unfold resLineLoop
    cases c.out.tx with
    | none => exact KeepRef.refl c
    | some uid =>
      simp only
      split
      · exact KeepRef.refl c
      · rename_i c1 h1
        have e1 : KeepRef c c1 := by
          split at h1
          · cases hcb : c.out.copyByte with
            | none => rw [hcb] at h1; simp at h1
            | some p =>
              obtain ⟨d, b⟩ := p
              rw [hcb] at h1
              simp only [Option.some.injEq] at h1
              rw [← h1]; exact keepRef_out c d
          · simp only [Option.some.injEq] at h1; rw [← h1]; exact KeepRef.refl c
        split
        · exact e1.trans ⟨id⟩
        · rename_i c2 h2
          have e2 : KeepRef c c2 := by
            split at h2
            · simp only [Dir.peekSet] at h2
              cases hp : c1.out.peek with
              | none => rw [hp] at h2; simp at h2
              | some b =>
                rw [hp] at h2
                simp only at h2
                split at h2
                · simp only [Except.ok.injEq, Prod.mk.injEq] at h2; rw [← h2.1]; exact e1.trans ⟨id⟩
                · simp only [Except.ok.injEq, Prod.mk.injEq] at h2; simp at h2
            · simp only [Except.ok.injEq, Prod.mk.injEq] at h2; simp at h2
          exact e2.trans (ih c2)
        · rename_i c2 h2
          have e2 : KeepRef c c2 := by
            split at h2
            · simp only [Dir.peekSet] at h2
              cases hp : c1.out.peek with
              | none => rw [hp] at h2; simp at h2
              | some b =>
                rw [hp] at h2
                simp only at h2
                split at h2
                · simp only [Except.ok.injEq, Prod.mk.injEq] at h2; simp at h2
                · simp only [Except.ok.injEq, Prod.mk.injEq] at h2; rw [← h2.1]; exact e1.trans ⟨id⟩
            · simp only [Except.ok.injEq, Prod.mk.injEq] at h2; rw [← h2.1]; exact e1.trans ⟨id⟩
          split
          · exact e2.trans (ih c2)
          · exact e2.trans (keepRef_resLineComplete ..)

/-- the line-end scanner of RES_HEADERS moves the cursor only -/
theorem eol_same (b : UInt8) (lfcr : Bool) (c : Conn) :
    ∀ c2 l e a, resHeadersEol b lfcr c = .ok (c2, l, e, a) → SameRefs c c2 := by
  intro c2 l e a h
  unfold resHeadersEol at h
  simp only [] at h
  repeat' split at h
  all_goals first
    | (simp only [Except.ok.injEq, Prod.mk.injEq] at h; rw [← h.1]; exact ⟨rfl, rfl, by dir_tx, rfl⟩)
    | (simp at h)

theorem keepRef_resHeaderLine (uid : Nat) (line : Bytes) (c : Conn) : KeepRef c (resHeaderLine uid line c).1 := by
  unfold resHeaderLine
  split
  · apply keepRef_andThen
    · exact keepRef_resFlushHeader c
    · intro c1
      simp only [Dir.peekSet]
      obtain hp | ⟨b, hp⟩ : c1.out.peek = none ∨ ∃ b, c1.out.peek = some b := by cases c1.out.peek <;> simp
      · simp only [hp, Bool.not_true, Bool.false_eq_true, if_false]
        exact ⟨id⟩
      · simp only [hp]
        by_cases hf : isFoldingChar b = true
        · simp only [hf, Bool.not_true, Bool.false_eq_true, if_false]
          exact ⟨id⟩
        · simp only [hf, Bool.not_false, if_true]
          have e := keepRef_processResponseHeader line { c1 with out := { c1.out with nextByte := (b.toNat : Int) } }
          rcases hy : processResponseHeader line { c1 with out := { c1.out with nextByte := (b.toNat : Int) } } with ⟨c2, rc2⟩
          rw [hy] at e
          simp only at e ⊢
          split
          · exact (keepRef_out c1 _).trans e
          · exact (keepRef_out c1 _).trans e
  · cases c.out.header with
    | none => exact (keepRef_modTx uid _ c).trans ⟨id⟩
    | some h =>
      simp only
      split
      · have e := keepRef_processResponseHeader h (c.modTx uid fun t => { t with flags := t.flags ||| INVALID_FOLDING })
        rcases hy : processResponseHeader h (c.modTx uid fun t => { t with flags := t.flags ||| INVALID_FOLDING }) with ⟨c2, rc2⟩
        rw [hy] at e
        simp only at e ⊢
        split
        · exact (keepRef_modTx uid _ c).trans e
        · exact ((keepRef_modTx uid _ c).trans e).trans ⟨id⟩
      · split
        · exact ⟨id⟩
        · exact KeepRef.refl c

theorem keepRef_resHeadersLoop (cfg : Cfg) (fuel : Nat) (lfcr : Bool) (c : Conn) : KeepRef c (resHeadersLoop cfg fuel lfcr c).1 := by
  induction fuel generalizing c lfcr with
  | zero => unfold resHeadersLoop; exact KeepRef.refl c
  | succ k ih =>
    unfold resHeadersLoop
    cases c.out.tx with
    | none => exact KeepRef.refl c
    | some uid =>
      simp only
      have trailer : ∀ (c0 : Conn),
          KeepRef c0 (resReceiverFinalizeClear c0 >>? fun c => runCallback .responseTrailer (some uid) none false c >>? fun c => ({ c with outState := .finalize }, Rc.ok)).1 := by
        intro c0
        apply keepRef_andThen
        · exact keepRef_resReceiverFinalizeClear c0
        · intro c1
          apply keepRef_andThen
          · exact keepRef_runCallback ..
          · intro c2; exact ⟨id⟩
      split
      · exact trailer c
      · cases hn : c.out.copyByte with
        | none => exact KeepRef.refl c
        | some p =>
          obtain ⟨d, b⟩ := p
          simp only
          split
          · exact (keepRef_out c d).trans (ih _ _)
          · have he := eol_same b lfcr { c with out := d }
            split
            · exact (keepRef_out c d).trans ⟨id⟩
            · rename_i heq
              have e2 := he _ _ _ _ heq
              exact ((keepRef_out c d).trans (keepRef_of_same e2)).trans (ih _ _)
            · rename_i c2 lfcr2 ecr2 heq
              have k2 : KeepRef c c2 := (keepRef_out c d).trans (keepRef_of_same (he _ _ _ _ heq))
              cases hc : c2.out.consolidate cfg.fieldLimitHard false with
              | none => exact k2
              | some q =>
                obtain ⟨d2, data⟩ := q
                simp only
                split
                · exact (k2.trans (keepRef_out c2 d2)).trans (ih lfcr2 _)
                · split
                  · refine (k2.trans (keepRef_out c2 d2)).trans ?_
                    apply keepRef_andThen
                    · exact keepRef_resFlushHeader _
                    · intro c3
                      split
                      · exact ⟨id⟩
                      · exact (keepRef_out c3 _).trans (trailer _)
                  · refine (k2.trans (keepRef_out c2 d2)).trans ?_
                    apply keepRef_andThen
                    · exact keepRef_resHeaderLine ..
                    · intro c3
                      exact (keepRef_out c3 _).trans (ih lfcr2 _)

theorem keepRef_resCl (cl ct : Option Parse.Header) (uid : Nat) (c : Conn) : KeepRef c (resCl cl ct uid c).1 := by
  unfold resCl
  cases cl with
  | some clh =>
    simp -zeta only
    extract_lets c1 n c2 src c3
    have h1 : KeepRef c c1 := keepRef_modTx ..
    have h2 : KeepRef c c2 := h1.trans (keepRef_modTx ..)
    have h3 : KeepRef c c3 := h2.trans ⟨id⟩
    clear_value c1 c2 c3
    split
    · exact h2
    · split
      · exact h3.trans ⟨fun h => (keepRef_modTx uid _ { c3 with outState := .bodyIdentityClKnown }).keep h⟩
      · exact h3.trans ⟨id⟩
  | none =>
    simp only
    repeat' split
    all_goals first
      | exact KeepRef.refl c
      | exact (keepRef_modTx uid _ c).trans ⟨id⟩

theorem keepRef_resFraming (te cl ct : Option Parse.Header) (uid : Nat) (c : Conn) : KeepRef c (resFraming te cl ct uid c).1 := by
  unfold resFraming
  cases te with
  | some te' =>
    simp only
    split
    · exact (keepRef_modTx uid _ c).trans ⟨id⟩
    · exact keepRef_resCl ..
  | none => exact keepRef_resCl ..

theorem keepRef_resRefusedConnect (t : Tx) (c : Conn) : KeepRef c (resRefusedConnect t c) := by
  unfold resRefusedConnect
  simp only []
  repeat' split
  all_goals exact ⟨id⟩

theorem keepRef_resSwitchTunnel (c : Conn) : KeepRef c (resSwitchTunnel c) := by
  unfold resSwitchTunnel
  simp only []
  repeat' split
  all_goals exact ⟨id⟩

theorem keepRef_resExpectShortcut (t : Tx) (c : Conn) : KeepRef c (resExpectShortcut t c) := by
  unfold resExpectShortcut
  repeat' split
  all_goals exact ⟨id⟩

theorem keepRef_resNoBody (uid : Nat) (t : Tx) (te cl : Option Parse.Header) (c : Conn) : KeepRef c (resNoBody uid t te cl c) := by
  unfold resNoBody
  repeat' split
  all_goals first
    | exact KeepRef.refl c
    | exact ⟨fun h => (keepRef_modTx uid _ { c with outState := .finalize }).keep h⟩

theorem keepRef_resFramingStep (uid : Nat) (t : Tx) (te cl : Option Parse.Header) (c : Conn) :
    KeepRef c (resFramingStep uid t te cl c).1 := by
  unfold resFramingStep
  split
  · simp only
    refine KeepRef.trans ?_ (keepRef_resFraming ..)
    split
    · exact keepRef_modTx ..
    · exact KeepRef.refl c
  · exact KeepRef.refl c

theorem keepRef_resBodyDetermineRest (cfg : Cfg) (uid : Nat) (t : Tx) (c : Conn) : KeepRef c (resBodyDetermineRest cfg uid t c).1 := by
  unfold resBodyDetermineRest
  extract_lets c1 cl te is100
  have k0 : KeepRef c c1 := keepRef_resRefusedConnect t c
  clear_value c1 is100
  split
  · exact (k0.trans (keepRef_resSwitchTunnel _)).trans (keepRef_txStateResponseHeaders ..)
  · split
    · exact (k0.trans (keepRef_modTx uid _ _)).trans ⟨id⟩
    · apply keepRef_andThen
      · exact ((k0.trans (keepRef_resExpectShortcut t _)).trans (keepRef_resNoBody ..)).trans (keepRef_resFramingStep ..)
      · intro c1; exact keepRef_txStateResponseHeaders ..

theorem keepRef_resBodyDetermine (cfg : Cfg) (c : Conn) : KeepRef c (resBodyDetermine cfg c).1 := by
  unfold resBodyDetermine
  cases c.out.tx with
  | none => exact KeepRef.refl c
  | some uid =>
    simp only
    split
    · exact KeepRef.trans (b := { c with outState := .finalize }) ⟨id⟩ (keepRef_txStateResponseHeaders ..)
    · exact keepRef_resBodyDetermineRest ..

theorem keepRef_resBodyIdentityClKnown (cfg : Cfg) (c : Conn) : KeepRef c (resBodyIdentityClKnown cfg c).1 := by
  unfold resBodyIdentityClKnown
  extract_lets avail n cfin data
  clear_value n data
  split
  · exact KeepRef.trans (b := cfin) ⟨id⟩ (keepRef_resProcessBodyData ..)
  · split
    · exact KeepRef.refl c
    · have k := keepRef_resProcessBodyDataGap cfg data (if c.out.curNull then n.toNat else 0) c
      rcases hx : resBodyIdentityClKnown.resProcessBodyDataGap cfg data (if c.out.curNull then n.toNat else 0) c with ⟨c1, rc1⟩
      rw [hx] at k
      simp only at k ⊢
      split
      · exact k
      · split
        · exact k.trans (KeepRef.trans (b := { { c1 with out := { c1.out.advance n with bodyDataLeft := c1.out.bodyDataLeft - n } } with outState := .finalize }) ⟨id⟩ (keepRef_resProcessBodyData ..))
        · exact k.trans ⟨id⟩

theorem keepRef_resBodyIdentityStreamClose (cfg : Cfg) (c : Conn) : KeepRef c (resBodyIdentityStreamClose cfg c).1 := by
  unfold resBodyIdentityStreamClose
  extract_lets n data r
  have hr : KeepRef c r.1 := by
    simp only [r]
    split
    · have k := keepRef_resProcessBodyDataGap cfg data (if c.out.curNull then n.toNat else 0) c
      rcases hx : resBodyIdentityClKnown.resProcessBodyDataGap cfg data (if c.out.curNull then n.toNat else 0) c with ⟨c1, rc1⟩
      rw [hx] at k
      simp only at k ⊢
      split
      · exact k
      · exact k.trans ⟨id⟩
    · exact KeepRef.refl c
  clear_value r
  apply keepRef_andThen
  · exact hr
  · intro c1
    split
    · exact ⟨id⟩
    · exact KeepRef.refl c1

theorem keepRef_resChunkedDataEndLoop (fuel : Nat) (c : Conn) : KeepRef c (resChunkedDataEndLoop fuel c).1 := by
  induction fuel generalizing c with
  | zero => unfold resChunkedDataEndLoop; exact KeepRef.refl c
  | succ k ih =>
    unfold resChunkedDataEndLoop
    cases hn : c.out.nextByteConsume with
    | none => exact KeepRef.refl c
    | some p =>
      obtain ⟨d, b⟩ := p
      simp only
      have k1 : KeepRef c ({ c with out := d }.modOut (fun t => { t with resMessageLen := t.resMessageLen + 1 })) :=
        (keepRef_out c d).trans (keepRef_modOut _ _)
      split
      · exact k1.trans ⟨id⟩
      · exact k1.trans (ih _)

theorem keepRef_resBodyChunkedData (cfg : Cfg) (c : Conn) : KeepRef c (resBodyChunkedData cfg c).1 := by
  unfold resBodyChunkedData
  extract_lets avail n data
  clear_value n data
  split
  · exact KeepRef.refl c
  · have k := keepRef_resProcessBodyData cfg (some data) c
    rcases hx : resProcessBodyData cfg (some data) c with ⟨c1, rc1⟩
    rw [hx] at k
    simp only at k ⊢
    split
    · exact k
    · split
      · exact k.trans ⟨id⟩
      · exact k.trans ⟨id⟩

theorem keepRef_resChunkedLengthLoop (cfg : Cfg) (fuel : Nat) (c : Conn) : KeepRef c (resChunkedLengthLoop cfg fuel c).1 := by
  induction fuel generalizing c with
  | zero => unfold resChunkedLengthLoop; exact KeepRef.refl c
  | succ k ih =>
    unfold resChunkedLengthLoop
    cases hn : c.out.copyByte with
    | none => exact KeepRef.refl c
    | some p =>
      obtain ⟨d, b⟩ := p
      simp -zeta only
      extract_lets c0
      have h0 : KeepRef c c0 := keepRef_out c d
      clear_value c0
      split
      · exact h0.trans (ih _)
      · cases hc : c0.out.consolidate cfg.fieldLimitHard false with
        | none => exact h0
        | some q =>
          obtain ⟨d2, data⟩ := q
          simp -zeta only
          extract_lets c1 s1 c2 s2 rd c3 c4
          have h1 : KeepRef c c1 := (h0.trans (keepRef_out c0 d2)).trans (keepRef_modOut _ _)
          have h2 : KeepRef c c2 := h1.trans ⟨id⟩
          have h4 : KeepRef c c4 := h2.trans ⟨id⟩
          have h3 : KeepRef c c3 := h2.trans ⟨id⟩
          clear_value c1 c2 c3 c4
          split
          · exact h2.trans (KeepRef.trans (b := { c2 with out := { c2.out with consume := c2.out.read } }) ⟨id⟩ (ih _))
          · split
            · exact h3.trans (keepRef_modOut _ c3)
            · split
              · exact h4.trans ⟨id⟩
              · exact h4.trans ⟨fun h => (keepRef_modOut _ { c4 with outState := .headers }).keep h⟩

theorem keepRef_resFinalize (cfg : Cfg) (c : Conn) : KeepRef c (resFinalize cfg c).1 := by
  unfold resFinalize
  cases c.out.tx with
  | none => exact KeepRef.refl c
  | some uid =>
    simp -zeta only
    extract_lets cp pre
    have hp : ∀ c' b, pre = some (c', b) → KeepRef c c' := by
      intro c' b hpre
      simp only [pre] at hpre
      split at hpre
      · split at hpre
        · simp only [Option.some.injEq, Prod.mk.injEq] at hpre; rw [← hpre.1]; exact ⟨id⟩
        · split at hpre
          · split at hpre
            · simp at hpre
            · simp only [Option.some.injEq, Prod.mk.injEq] at hpre
              rw [← hpre.1]; exact keepRef_out c _
          · simp only [Option.some.injEq, Prod.mk.injEq] at hpre; rw [← hpre.1]; exact ⟨id⟩
      · simp only [Option.some.injEq, Prod.mk.injEq] at hpre; rw [← hpre.1]; exact ⟨id⟩
    clear_value pre
    have viaComplete : ∀ c' : Conn, KeepRef c c' → KeepRef c (txStateResponseCompleteEx cfg uid c').1 :=
      fun c' h' => h'.trans (keepRef_txStateResponseCompleteEx ..)
    split
    · exact ⟨id⟩
    · rename_i _ c1
      exact viaComplete c1 (hp _ _ rfl)
    · rename_i _ c1
      have h1 := hp _ _ rfl
      clear hp
      cases hc : c1.out.consolidate cfg.fieldLimitHard false with
      | none => exact h1
      | some q =>
        obtain ⟨d2, data⟩ := q
        simp -zeta only
        extract_lets dataNull c2 rd keep buf cs
        have h2 : KeepRef c c2 := h1.trans (keepRef_out c1 d2)
        clear_value c2 dataNull
        split
        · exact viaComplete c2 h2
        · split
          · have k := keepRef_resProcessBodyData cfg (some data) c2
            rcases hx : resProcessBodyData cfg (some data) c2 with ⟨c3, rc3⟩
            rw [hx] at k
            simp only at k ⊢
            exact (h2.trans k).trans ⟨id⟩
          · exact viaComplete _ (h2.trans ⟨id⟩)

theorem keepRef_resStateFn (cfg : Cfg) (c : Conn) : KeepRef c (resStateFn cfg c).1 := by
  unfold resStateFn
  cases c.outState with
  | idle => exact keepRef_resIdle cfg c
  | line => exact (keepRef_resLineLoop cfg _ c)
  | headers => exact (keepRef_resHeadersLoop cfg _ _ c)
  | bodyDetermine => exact (keepRef_resBodyDetermine cfg c)
  | bodyIdentityClKnown => exact (keepRef_resBodyIdentityClKnown cfg c)
  | bodyIdentityStreamClose => exact (keepRef_resBodyIdentityStreamClose cfg c)
  | bodyChunkedLength => exact (keepRef_resChunkedLengthLoop cfg _ c)
  | bodyChunkedData => exact (keepRef_resBodyChunkedData cfg c)
  | bodyChunkedDataEnd => exact (keepRef_resChunkedDataEndLoop _ c)
  | finalize => exact (keepRef_resFinalize cfg c)

theorem keepRef_resHandleStateChange (c : Conn) : KeepRef c (resHandleStateChange c).1 := by
  unfold resHandleStateChange
  split
  · exact KeepRef.refl c
  · simp only
    apply keepRef_andThen
    · repeat' split
      all_goals first | exact KeepRef.refl c | exact keepRef_resReceiverSet _ c
    · intro c1; exact ⟨id⟩

/-! ### whole calls -/

/-- the for(;;) of htp_connp_res_data - data, gap or close, any fuel -/
theorem keepRef_resDriverLoop (cfg : Cfg) (gap : Bool) (fuel : Nat) (c : Conn) : KeepRef c (resDriverLoop cfg gap fuel c).1 := by
  induction fuel generalizing c with
  | zero => unfold resDriverLoop; exact ⟨id⟩
  | succ k ih =>
    unfold resDriverLoop
    simp only
    have tail : ∀ (c1 : Conn) (rc1 : Rc), KeepRef c c1 → KeepRef c
        (match (if (rc1 == Rc.ok) = true then
                  if (c1.out.status == STREAM_TUNNEL) = true then (c1, Rc.ok) else resHandleStateChange c1
                else (c1, rc1) : R) with
         | (c, rc) =>
          if (rc == Rc.ok) = true then
            if (c.out.status == STREAM_TUNNEL) = true then (c, STREAM_TUNNEL) else resDriverLoop cfg gap k c
          else if (rc == Rc.data || rc == Rc.dataBuffer) = true then
            (match resReceiverSend false c with
             | (c, _) =>
               if (rc == Rc.dataBuffer) = true then
                 (match c.out.buffer cfg.fieldLimitHard false with
                  | none => (({ c with out := { c.out with status := STREAM_ERROR } }, STREAM_ERROR) : Conn × Nat)
                  | some d => ({ c with out := { d with status := STREAM_DATA } }, STREAM_DATA))
               else ({ c with out := { c.out with status := STREAM_DATA } }, STREAM_DATA))
          else if (rc == Rc.stop) = true then ({ c with out := { c.out with status := STREAM_STOP } }, STREAM_STOP)
          else if (rc == Rc.dataOther) = true then
            (if c.out.read ≥ c.out.len then ({ c with out := { c.out with status := STREAM_DATA } }, STREAM_DATA)
             else ({ c with out := { c.out with status := STREAM_DATA_OTHER } }, STREAM_DATA_OTHER))
          else ({ c with out := { c.out with status := STREAM_ERROR } }, STREAM_ERROR)).1 := by
      intro c1 rc1 k1
      have k2 : KeepRef c (if (rc1 == Rc.ok) = true then
                  if (c1.out.status == STREAM_TUNNEL) = true then (c1, Rc.ok) else resHandleStateChange c1
                else (c1, rc1) : R).1 := by
        split
        · split
          · exact k1
          · exact k1.trans ((keepRef_resHandleStateChange c1))
        · exact k1
      generalize (if (rc1 == Rc.ok) = true then
                  if (c1.out.status == STREAM_TUNNEL) = true then (c1, Rc.ok) else resHandleStateChange c1
                else (c1, rc1) : R) = r2 at k2 ⊢
      obtain ⟨c2, rc2⟩ := r2
      simp only at k2 ⊢
      split
      · split
        · exact k2
        · exact k2.trans (ih c2)
      · split
        · have kk := (keepRef_resReceiverSend false c2)
          rcases hz : resReceiverSend false c2 with ⟨c3, rc3⟩
          rw [hz] at kk
          simp only at kk ⊢
          split
          · cases hb : c3.out.buffer cfg.fieldLimitHard false with
            | none => exact (k2.trans kk).trans ⟨id⟩
            | some d => exact (k2.trans kk).trans ((keepRef_out c3 d).trans ⟨id⟩)
          · exact (k2.trans kk).trans ⟨id⟩
        · repeat' split
          all_goals exact k2.trans ⟨id⟩
    split
    · exact KeepRef.refl c
    · rename_i c1 rc1 hstep
      have k1 : KeepRef c c1 := by
        split at hstep
        · split at hstep
          · simp only [Option.some.injEq] at hstep
            have := keepRef_resStateFn cfg c
            rw [hstep] at this; exact this
          · split at hstep
            · split at hstep
              · rename_i uid _
                simp only [Option.some.injEq] at hstep
                have := (keepRef_txStateResponseCompleteEx cfg uid c)
                rw [hstep] at this; exact this
              · simp only [Option.some.injEq, Prod.mk.injEq] at hstep
                rw [← hstep.1]; exact KeepRef.refl c
            · simp at hstep
        · simp only [Option.some.injEq] at hstep
          have := keepRef_resStateFn cfg c
          rw [hstep] at this; exact this
      exact tail c1 rc1 k1

theorem keepRef_resStoreChunk (data : Option Bytes) (len : Nat) (c : Conn) : KeepRef c (resStoreChunk data len c) := ⟨id⟩

/-- **htp_connp_res_data**: any data (a chunk, a stream gap, the NULL chunk of a close), any length -/
theorem keepRef_resData (cfg : Cfg) (data : Option Bytes) (len : Nat) (c : Conn) :
    KeepRef c (resData cfg data len c).1 := by
  unfold resData
  simp only
  have key : KeepRef c (resDataCore cfg data len c).1 := by
    unfold resDataCore
    split
    · exact ⟨id⟩
    split
    · exact ⟨id⟩
    split
    · exact ⟨id⟩
    split
    · exact ⟨id⟩
    simp only
    split
    · exact ⟨id⟩
    · exact ((keepRef_resStoreChunk data len c)).trans (keepRef_resDriverLoop cfg _ _ _)
  exact ⟨fun h => key.keep h⟩

/-- htp_connp_open does not touch the list -/
theorem keepRef_connOpen (c : Conn) : KeepRef c (connOpen c) := by
  unfold connOpen
  split
  · exact KeepRef.refl c
  · exact ⟨id⟩

theorem keepRef_markClosedIn (c : Conn) : KeepRef c (markClosedIn c) := by
  unfold markClosedIn
  split
  · exact ⟨id⟩
  · exact KeepRef.refl c

theorem keepRef_markClosedOut (c : Conn) : KeepRef c (markClosedOut c) := by
  unfold markClosedOut
  split
  · exact ⟨id⟩
  · exact KeepRef.refl c

/-- htp_connp_req_close -/
theorem keepRef_reqClose (cfg : Cfg) (c : Conn) : KeepRef c (reqClose cfg c).1 := by
  rw [reqClose_eq]
  exact ((keepRef_markClosedIn c)).trans (keepRef_reqData cfg none 0 _)

/-- htp_connp_close -/
theorem keepRef_connClose (cfg : Cfg) (c : Conn) : KeepRef c (connClose cfg c).1 := by
  rw [connClose_fst]
  exact ((((keepRef_markClosedIn c).trans (keepRef_markClosedOut _))).trans (keepRef_reqData cfg none 0 _)).trans
    (keepRef_resData cfg none 0 _)

/-- dropping a leading EMPTY slot keeps the invariant: no transaction leaves the list -/
theorem keepRef_dropNone (c : Conn) (rest : List (Option Tx)) (i : Int) (heq : c.txs = none :: rest) :
    KeepRef c { c with txs := rest, outNextTxIndex := i } := by
  have hm : ∀ t : Tx, some t ∈ rest ↔ some t ∈ c.txs := by
    intro t; rw [heq]; simp
  refine ⟨fun ⟨hv, hf, hd⟩ => ⟨?_, ?_, ?_⟩⟩
  · rw [refsValid_iff] at hv ⊢
    refine ⟨fun u e => ?_, fun u e => ?_⟩
    · obtain ⟨t, ht, hu⟩ := hv.1 u e
      exact ⟨t, (hm t).2 ht, hu⟩
    · obtain ⟨t, ht, hu⟩ := hv.2 u e
      exact ⟨t, (hm t).2 ht, hu⟩
  · intro t ht
    exact hf t ((hm t).1 ht)
  · unfold UidsDistinct at hd
    rw [heq] at hd
    exact (List.pairwise_cons.1 hd).2

/-- htp_connp_tx_freed only removes (leading empty) slots -/
theorem keepRef_txFreedLoop (fuel : Nat) (c : Conn) (r : Nat) : KeepRef c (txFreedLoop fuel c r).1 := by
  induction fuel generalizing c r with
  | zero => unfold txFreedLoop; exact KeepRef.refl c
  | succ k ih =>
    unfold txFreedLoop
    split
    · rename_i rest heq
      exact (keepRef_dropNone c rest _ heq).trans (ih _ _)
    · exact KeepRef.refl c

theorem keepRef_txFreed (c : Conn) : KeepRef c (txFreed c).1 := keepRef_txFreedLoop _ c 0

/-! ### the other calls -/

/-- **htp_connp_res_data** keeps the invariant (the statement of `keepRef_resData`, unary) -/
theorem refsInv_resData (cfg : Cfg) (data : Option Bytes) (len : Nat) (c : Conn) (h : RefsInv c) : RefsInv (resData cfg data len c).1 :=
  (keepRef_resData cfg data len c).keep h

theorem refsInv_reqData (cfg : Cfg) (data : Option Bytes) (len : Nat) (c : Conn) (h : RefsInv c) : RefsInv (reqData cfg data len c).1 :=
  (keepRef_reqData cfg data len c).keep h

/-! ### whole histories -/

/-- **one call of any kind keeps the invariant** -/
theorem keepRef_runCall (cfg : Cfg) (c : Conn) (call : Call) : KeepRef c (runCall cfg c call) := by
  cases call with
  | req d => exact keepRef_reqData cfg _ _ c
  | res d => exact keepRef_resData cfg _ _ c
  | close => exact keepRef_connClose cfg c
  | reqClose => exact keepRef_reqClose cfg c
  | «open» => exact keepRef_connOpen c
  | txFreed => exact keepRef_txFreed c

/-- **C01 (reference validity), whole histories**: after any history of calls - request and response data chunks of any content and
    chunking, htp_connp_req_close, htp_connp_close, htp_connp_open, htp_connp_tx_freed, in any order and number, under any configuration
    (tx_auto_destroy or not) and any callback policy (callbacks that destroy the transaction at TRANSACTION_COMPLETE included) - started
    from a state with the invariant: `in_tx` / `out_tx` name transactions that are in the list, the uids of the list are pairwise
    distinct and below the uid counter -/
theorem history_refs_valid (cfg : Cfg) (c0 : Conn) (calls : List Call) (h : RefsInv c0) : RefsInv (runCalls cfg c0 calls) := by
  induction calls generalizing c0 with
  | nil => exact h
  | cons call rest ih => rw [runCalls_cons]; exact ih _ ((keepRef_runCall cfg c0 call).keep h)

/-- ... and after every prefix of it -/
theorem history_refs_valid_prefix (cfg : Cfg) (c0 : Conn) (calls pre : List Call) (h : RefsInv c0) (_hp : pre <+: calls) :
    RefsInv (runCalls cfg c0 pre) :=
  history_refs_valid cfg c0 pre h

/-- what the invariant says about one reference: it is NULL, or it names exactly one stored transaction, and that is the one the
    parser's lookup (`findTx`) returns -/
def RefLive (c : Conn) (r : Option Nat) : Prop :=
  r = none ∨ ∃ u t, r = some u ∧ c.findTx u = some t ∧ some t ∈ c.txs ∧ t.uid = u ∧ ∀ t', some t' ∈ c.txs → t'.uid = u → t' = t

theorem refLive_of_inv {c : Conn} (h : RefsInv c) {r : Option Nat} (hr : ∀ u, r = some u → Live c u) : RefLive c r := by
  cases r with
  | none => exact Or.inl rfl
  | some u =>
    obtain ⟨t, hm, hu⟩ := hr u rfl
    have hf : c.findTx u = some t := (findTx_eq_some_iff h.2.2 u t).2 ⟨hm, hu⟩
    refine Or.inr ⟨u, t, rfl, hf, hm, hu, fun t' hm' hu' => ?_⟩
    have hf' : c.findTx u = some t' := (findTx_eq_some_iff h.2.2 u t').2 ⟨hm', hu'⟩
    rw [hf] at hf'
    exact (Option.some.inj hf').symm

/-- **C01 (reference validity), a connection parser from its creation**: after every prefix of every history of calls on a fresh
    connection parser, `in_tx` and `out_tx` each name a live transaction - one that is in the connection's list, has not been destroyed,
    and is the only one with that uid - or nothing; and a uid that is not in the list (a destroyed transaction, or one never created) is
    named by neither reference -/
theorem history_refs_valid_fresh (cfg : Cfg) (policy : List (Nat × CbAction)) (allow : Bool) (calls pre : List Call) (_hp : pre <+: calls) :
    let c := runCalls cfg { policy := policy, allowCbDestroy := allow } pre
    RefsInv c ∧ RefLive c c.inn.tx ∧ RefLive c c.out.tx ∧
    (∀ u, c.findTx u = none → c.inn.tx ≠ some u ∧ c.out.tx ≠ some u) := by
  intro c
  have h0 : RefsInv ({ policy := policy, allowCbDestroy := allow } : Conn) := refsInv_init
  have h : RefsInv c := history_refs_valid cfg _ pre h0
  refine ⟨h, refLive_of_inv h (fun u e => live_of_inn h e), refLive_of_inv h (fun u e => live_of_out h e), fun u hn => ⟨fun e => ?_, fun e => ?_⟩⟩
  · have := h.1.1 u e
    rw [hn] at this; simp at this
  · have := h.1.2 u e
    rw [hn] at this; simp at this

/-- the same, call by call: the invariant holds in the state before each call and in the state after it -/
theorem history_refs_valid_each_call (cfg : Cfg) (c0 : Conn) (h : RefsInv c0) (calls pre : List Call) (call : Call)
    (_hp : pre ++ [call] <+: calls) :
    RefsInv (runCalls cfg c0 pre) ∧ RefsInv (runCall cfg (runCalls cfg c0 pre) call) :=
  ⟨history_refs_valid cfg c0 pre h, (keepRef_runCall cfg _ call).keep (history_refs_valid cfg c0 pre h)⟩

/-! ### non-vacuity -/

/-- `RefsValid` as a computation -/
def refsValidB (c : Conn) : Bool :=
  (match c.inn.tx with | some u => (c.findTx u).isSome | none => true) &&
  (match c.out.tx with | some u => (c.findTx u).isSome | none => true)

theorem refsValidB_iff (c : Conn) : refsValidB c = true ↔ RefsValid c := by
  unfold refsValidB RefsValid
  cases c.inn.tx <;> cases c.out.tx <;> simp

instance (c : Conn) : Decidable (RefsValid c) := decidable_of_iff _ (refsValidB_iff c)

/-- two transactions on one connection, interleaved, with a callback policy that DESTROYS each transaction from inside its
    TRANSACTION_COMPLETE callback (callback invocations 14 and 33), and htp_connp_tx_freed in between: a complete request and response
    (transaction 0 is destroyed at the end of the response: the list is `[NULL]`), a request with half its body (`in_tx` names
    transaction 1, in slot 1 behind the empty slot), the start of its response (`out_tx` names it too), tx_freed (the empty slot is
    shifted away under both references), the rest of the response, the rest of the request body (transaction 1 is complete and is
    destroyed from the request side while `in_tx` still names it: the reference is cleared), close, tx_freed -/
def exHistory : List Call :=
  [.open, .req (b!"GET / HTTP/1.1\r\nHost: h\r\n\r\n"), .res (b!"HTTP/1.1 200 OK\r\nContent-Length: 2\r\n\r\nok"),
   .req (b!"POST / HTTP/1.1\r\nHost: h\r\nContent-Length: 4\r\n\r\nab"), .res (b!"HTTP/1.1 200 OK\r\nContent-Le"), .txFreed,
   .res (b!"ngth: 2\r\n\r\nok"), .req (b!"cd"), .close, .txFreed]

def exStart : Conn := { policy := [(14, .destroyTx), (33, .destroyTx)] }

set_option maxRecDepth 100000 in
/-- the references are valid after every prefix of that history -/
example : ∀ n ∈ List.range 11, RefsValid (runCalls {} exStart (exHistory.take n)) := by decide

set_option maxRecDepth 100000 in
/-- ... and this is what they are, prefix by prefix: (`in_tx`, `out_tx`, the uids in the slots of the list) -/
example :
    (List.range 11).map (fun n =>
      let c := runCalls {} exStart (exHistory.take n)
      (c.inn.tx, c.out.tx, c.txs.map (fun o => o.map (·.uid)))) =
    [(none, none, []), (none, none, []), (none, none, [some 0]), (none, none, [none]),
     (some 1, none, [none, some 1]), (some 1, some 1, [none, some 1]), (some 1, some 1, [some 1]),
     (some 1, none, [some 1]), (none, none, [none]), (none, none, [none]), (none, none, [])] := by decide

set_option maxRecDepth 100000 in
/-- the same history with tx_auto_destroy (the library destroys a complete transaction itself; callbacks may not): the same
    references and slots, all valid -/
example :
    (∀ n ∈ List.range 11, RefsValid (runCalls { txAutoDestroy := true } { allowCbDestroy := false } (exHistory.take n))) ∧
    (let c := runCalls { txAutoDestroy := true } { allowCbDestroy := false } (exHistory.take 5)
     c.inn.tx = some 1 ∧ c.out.tx = some 1 ∧ c.txs.map (fun o => o.map (·.uid)) = [none, some 1]) ∧
    (runCalls { txAutoDestroy := true } { allowCbDestroy := false } exHistory).txs = [] := by decide

set_option maxRecDepth 100000 in
/-- without the destroy action both transactions stay in the list -/
example : (runCalls {} {} exHistory).txs.map (fun o => o.map (·.uid)) = [some 0, some 1] := by decide

/-- the invariant is not vacuous as a hypothesis either: a state whose `in_tx` names a uid that is not in the list violates it -/
example : ¬ RefsValid { inn := { tx := some 7 } } := by decide

end Htp.Conn
