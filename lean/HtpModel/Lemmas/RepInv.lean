/- A state invariant for the header-repetition counters (`RepOK`): every stored transaction has both repetition counters within
   HTP_MAX_HEADERS_REPETITIONS. Same sweep as `Lemmas/ClInv.lean`: the two fields are written by `processRequestHeader` /
   `processResponseHeader` only, through `addHeader`, which never steps over the cap. -/
import HtpModel.Lemmas.Owed
namespace Htp.Conn
open Htp Htp.Gen

/-- both header-repetition counters of a transaction are within HTP_MAX_HEADERS_REPETITIONS -/
def RepOKTx (t : Tx) : Prop :=
  t.reqHeaderRepetitions ≤ Htp.Gen.MAX_HEADERS_REPETITIONS ∧ t.resHeaderRepetitions ≤ Htp.Gen.MAX_HEADERS_REPETITIONS

/-- `addHeader` never steps over the cap (the proof of `C10_repetitions_capped`, Props/C10.lean) -/
theorem addHeader_reps_capped (hs : List Parse.Header) (reps : Nat) (h : Parse.Header)
    (hr : reps ≤ MAX_HEADERS_REPETITIONS) :
    (addHeader hs reps h).2 ≤ MAX_HEADERS_REPETITIONS := by
  unfold addHeader
  split
  · exact hr
  · rename_i i _
    simp only
    by_cases hc : (hasFlag (hs.getD i default).flags FIELD_REPEATED && decide (reps ≥ MAX_HEADERS_REPETITIONS)) = true
    · simp only [hc, if_true]; exact hr
    · simp only [hc]
      by_cases hrep : hasFlag (hs.getD i default).flags FIELD_REPEATED = true
      · have hlt : ¬ (reps ≥ MAX_HEADERS_REPETITIONS) := by
          intro hge; apply hc; rw [hrep]; simp [hge]
        split <;> simp [hrep] <;> omega
      · split <;> simp [hrep] <;> exact hr

/-- every stored transaction is `RepOKTx` -/
def RepOK (c : Conn) : Prop := ∀ t, some t ∈ c.txs → RepOKTx t

/-- `f` keeps the invariant -/
structure KeepRep (c c' : Conn) : Prop where
  keep : RepOK c → RepOK c'

theorem KeepRep.refl (c : Conn) : KeepRep c c := ⟨id⟩
theorem KeepRep.trans {a b c : Conn} (h1 : KeepRep a b) (h2 : KeepRep b c) : KeepRep a c := ⟨fun h => h2.keep (h1.keep h)⟩

/-- a transaction as created (`{ uid := u }`, whatever the other defaulted fields): coding UNKNOWN -/
theorem repOKTx_default (u : Nat) : RepOKTx { uid := u } := by
  constructor <;> exact Nat.zero_le _

theorem repOK_init : RepOK ({} : Conn) := fun t h => by
  have : some t ∈ ([] : List (Option Tx)) := h
  simp at this

/-- the state whose transaction list is the same -/
theorem keepRep_of_txs {c c' : Conn} (h : c'.txs = c.txs) : KeepRep c c' := ⟨fun hc t ht => hc t (by rw [← h]; exact ht)⟩

theorem repOKTx_findTx {c : Conn} (h : RepOK c) {u : Nat} {t : Tx} (hf : c.findTx u = some t) : RepOKTx t := by
  unfold Conn.findTx at hf
  generalize hq : c.txs.find? _ = q at hf
  cases q with
  | none => simp at hf
  | some o =>
    cases o with
    | none => simp at hf
    | some t' =>
      simp only [Option.join_some, Option.some.injEq] at hf
      subst hf
      exact h _ (List.mem_of_find?_eq_some hq)

theorem repOKTx_getD {c : Conn} (h : RepOK c) (u : Nat) {d : Tx} (hd : RepOKTx d) : RepOKTx ((c.findTx u).getD d) := by
  cases hf : c.findTx u with
  | none => exact hd
  | some t => exact repOKTx_findTx h hf

theorem repOKTx_inTx {c : Conn} (h : RepOK c) : RepOKTx c.inTx := by
  unfold Conn.inTx
  cases hb : c.inn.tx.bind c.findTx with
  | none => exact repOKTx_default 0
  | some t =>
    cases hu : c.inn.tx with
    | none => rw [hu] at hb; simp at hb
    | some u =>
      rw [hu] at hb
      exact repOKTx_findTx h hb

theorem keepRep_modTx (u : Nat) (f : Tx → Tx) (c : Conn) (hf : ∀ t, RepOKTx t → RepOKTx (f t) := by exact fun _ h => h) : KeepRep c (c.modTx u f) := by
  refine ⟨fun h t ht => ?_⟩
  unfold Conn.modTx at ht
  simp only [List.mem_map] at ht
  obtain ⟨o, ho, he⟩ := ht
  cases o with
  | none => simp at he
  | some x =>
    simp only at he
    split at he
    · simp only [Option.some.injEq] at he
      rw [← he]; exact hf x (h x ho)
    · simp only [Option.some.injEq] at he
      rw [← he]; exact h x ho

theorem keepRep_modIn (f : Tx → Tx) (c : Conn) (hf : ∀ t, RepOKTx t → RepOKTx (f t) := by exact fun _ h => h) : KeepRep c (c.modIn f) := by
  unfold Conn.modIn
  split
  · exact keepRep_modTx _ f c hf
  · exact KeepRep.refl c

theorem keepRep_modOut (f : Tx → Tx) (c : Conn) (hf : ∀ t, RepOKTx t → RepOKTx (f t) := by exact fun _ h => h) : KeepRep c (c.modOut f) := by
  unfold Conn.modOut
  split
  · exact keepRep_modTx _ f c hf
  · exact KeepRep.refl c

theorem keepRep_setTx (t : Tx) (c : Conn) (ht : RepOKTx t) : KeepRep c (c.setTx t) := by
  refine ⟨fun h t' ht' => ?_⟩
  unfold Conn.setTx at ht'
  simp only [List.mem_map] at ht'
  obtain ⟨o, ho, he⟩ := ht'
  cases o with
  | none => simp at he
  | some x =>
    simp only at he
    split at he
    · simp only [Option.some.injEq] at he
      rw [← he]; exact ht
    · simp only [Option.some.injEq] at he
      rw [← he]; exact h x ho

theorem repOK_setTx {c : Conn} {t : Tx} (hc : RepOK c) (ht : RepOKTx t) : RepOK (c.setTx t) := (keepRep_setTx t c ht).keep hc

theorem keepRep_destroyTx (u : Nat) (c : Conn) : KeepRep c (destroyTx u c) := by
  refine ⟨fun h t ht => ?_⟩
  unfold destroyTx at ht
  simp only [List.mem_map] at ht
  obtain ⟨o, ho, he⟩ := ht
  cases o with
  | none => simp at he
  | some x =>
    simp only at he
    split at he
    · simp at he
    · simp only [Option.some.injEq] at he
      rw [← he]; exact h x ho

/-- sequencing with `>>?` keeps the invariant -/
theorem keepRep_andThen (c0 : Conn) (r : R) (f : Conn → R) (h1 : KeepRep c0 r.1) (h2 : ∀ c, KeepRep c (f c).1) :
    KeepRep c0 (r >>? f).1 := by
  unfold R.andThen
  split
  · exact h1.trans (h2 r.1)
  · exact h1

/-! ### callbacks, body handlers, decompression -/

theorem keepRep_runCallback (h : Hook) (uid : Option Nat) (data : Option Bytes) (isLast : Bool) (c : Conn) (g : Nat) (s : Bool) :
    KeepRep c (runCallback h uid data isLast c g s).1 := by
  unfold runCallback
  simp only
  cases lookupAction c.policy c.cbCount with
  | ok => exact ⟨id⟩
  | declined => exact ⟨id⟩
  | stop => exact ⟨id⟩
  | error => exact ⟨id⟩
  | destroyTx =>
    simp only
    cases uid.bind c.findTx with
    | none => exact ⟨id⟩
    | some t =>
      simp only
      split
      · exact KeepRep.trans (b := { c with cbCount := c.cbCount + 1, events := _ :: c.events }) ⟨id⟩ (keepRep_destroyTx _ _)
      · exact ⟨id⟩
  | regTxHooks =>
    simp only
    cases uid with
    | none => exact ⟨id⟩
    | some u => exact KeepRep.trans (b := { c with cbCount := c.cbCount + 1, events := _ :: c.events }) ⟨id⟩ (keepRep_modTx _ _ _ (fun _ h => h))

theorem keepRep_runCallbackN (n : Nat) (h : Hook) (uid : Option Nat) (data : Option Bytes) (isLast : Bool) (g : Nat) (c : Conn) :
    KeepRep c (runCallbackN n h uid data isLast g c).1 := by
  induction n generalizing c with
  | zero => exact KeepRep.refl c
  | succ k ih =>
    unfold runCallbackN
    exact keepRep_andThen c _ _ (keepRep_runCallback ..) (fun c' => ih c')

theorem keepRep_urlencBodyCallback (cfg : Cfg) (uid : Nat) (data : Option Bytes) (c : Conn) :
    KeepRep c (urlencBodyCallback cfg uid data c).1 := by
  refine ⟨fun hc => ?_⟩
  unfold urlencBodyCallback
  cases hf : c.findTx uid with
  | none => exact hc
  | some t =>
    have ht := repOKTx_findTx hc hf
    simp only
    cases t.urlenBody with
    | none => exact hc
    | some u =>
      simp only
      split
      · exact hc
      · cases data with
        | some d => exact repOK_setTx hc ht
        | none => exact repOK_setTx hc ht

theorem keepRep_mpartFileEvents (uid : Nat) (evs : List (Nat × Option Bytes)) (c : Conn) :
    KeepRep c (mpartFileEvents uid evs c) := by
  induction evs generalizing c with
  | nil => exact KeepRep.refl c
  | cons e rest ih =>
    obtain ⟨i, d⟩ := e
    unfold mpartFileEvents
    exact (keepRep_runCallback ..).trans (ih _)

theorem keepRep_mpartBodyCallback (uid : Nat) (data : Option Bytes) (c : Conn) :
    KeepRep c (mpartBodyCallback uid data c).1 := by
  refine ⟨fun hc => ?_⟩
  unfold mpartBodyCallback
  cases hf : c.findTx uid with
  | none => exact hc
  | some t =>
    have ht := repOKTx_findTx hc hf
    simp only
    cases t.mpart with
    | none => exact hc
    | some mp =>
      simp only
      split
      · exact hc
      · cases data with
        | some d => exact (keepRep_mpartFileEvents _ _ _).keep (repOK_setTx hc ht)
        | none => exact (keepRep_mpartFileEvents _ _ _).keep (repOK_setTx hc ht)

theorem keepRep_runTxReqBodyHooks (cfg : Cfg) (uid : Nat) (data : Option Bytes) (isLast : Bool) (g : Nat) (hs : List TxHook) (c : Conn) :
    KeepRep c (runTxReqBodyHooks cfg uid data isLast g hs c).1 := by
  induction hs generalizing c with
  | nil => exact KeepRep.refl c
  | cons h rest ih =>
    unfold runTxReqBodyHooks
    apply keepRep_andThen
    · cases h with
      | user => exact keepRep_runCallback ..
      | urlenc => exact keepRep_urlencBodyCallback ..
      | mpart => exact keepRep_mpartBodyCallback ..
    · intro c'
      exact ih c'

theorem keepRep_reqRunHookBodyDataL (cfg : Cfg) (data : Option Bytes) (g : Nat) (l : Bool) (c : Conn) :
    KeepRep c (reqRunHookBodyDataL cfg data g l c).1 := by
  unfold reqRunHookBodyDataL
  split
  · exact KeepRep.refl c
  · cases c.inn.tx with
    | none => exact KeepRep.refl c
    | some uid =>
      simp only
      apply keepRep_andThen
      · exact keepRep_runTxReqBodyHooks ..
      · intro c2
        apply keepRep_andThen
        · exact keepRep_runCallback ..
        · intro c3
          split
          · exact keepRep_runCallback ..
          · exact KeepRep.refl c3

theorem keepRep_reqRunHookBodyData (cfg : Cfg) (data : Option Bytes) (g : Nat) (c : Conn) :
    KeepRep c (reqRunHookBodyData cfg data g c).1 := by
  unfold reqRunHookBodyData; exact keepRep_reqRunHookBodyDataL ..

theorem keepRep_unsupported (c : Conn) : KeepRep c { c with unsupported := true } := ⟨id⟩
theorem keepRep_zoracle (c : Conn) (zs : List ZRes) : KeepRep c { c with zoracle := zs } := ⟨id⟩

theorem keepRep_resRunHookBodyData (data : Option Bytes) (c : Conn) : KeepRep c (resRunHookBodyData data c).1 := by
  unfold resRunHookBodyData
  split
  · exact KeepRep.refl c
  · cases c.out.tx with
    | none => exact KeepRep.refl c
    | some uid =>
      simp only
      apply keepRep_andThen
      · exact keepRep_runCallbackN ..
      · intro c2; exact keepRep_runCallback ..

theorem keepRep_decFinalCallback (cfg : Cfg) (req : Bool) (uid : Nat) (l : Bool) (data : Option Bytes) (c : Conn) :
    KeepRep c (decFinalCallback cfg req uid l data c).1 := by
  unfold decFinalCallback
  simp only
  cases req with
  | true =>
    simp only [if_true]
    have h := keepRep_reqRunHookBodyDataL cfg data 0 l (c.modTx uid fun t => { t with reqEntityLen := t.reqEntityLen + (data.map (·.length)).getD 0 })
    have h0 := (keepRep_modTx uid (fun t => { t with reqEntityLen := t.reqEntityLen + (data.map (·.length)).getD 0 }) c (fun _ h => h)).trans h
    split
    · exact h0
    · split <;> exact h0
  | false =>
    simp only [Bool.false_eq_true, if_false]
    have h := keepRep_resRunHookBodyData data (c.modTx uid fun t => { t with resEntityLen := t.resEntityLen + (data.map (·.length)).getD 0 })
    have h0 := (keepRep_modTx uid (fun t => { t with resEntityLen := t.resEntityLen + (data.map (·.length)).getD 0 }) c (fun _ h => h)).trans h
    split
    · exact h0
    · split <;> exact h0

/-- the functions of the decompression driver keep the invariant -/
theorem keepRep_dec (cfg : Cfg) (req : Bool) (uid : Nat) : ∀ fuel : Nat,
    (∀ l useNext rest data c, KeepRep c (decSend cfg req uid l fuel useNext rest data c).2.1) ∧
    (∀ d drec rest inp c, KeepRep c (decLoop cfg req uid d fuel drec rest inp c).2.1) ∧
    (∀ d drec rest inp c, KeepRep c (decStep cfg req uid d fuel drec rest inp c).2.1) ∧
    (∀ ds data c, KeepRep c (decompress cfg req uid fuel ds data c).2.1) := by
  intro fuel
  induction fuel with
  | zero =>
    refine ⟨?_, ?_, ?_, ?_⟩
    · intro l useNext rest data c; unfold decSend; exact keepRep_unsupported c
    · intro d drec rest inp c; unfold decLoop; exact keepRep_unsupported c
    · intro d drec rest inp c; unfold decStep; exact keepRep_unsupported c
    · intro ds data c; unfold decompress; exact keepRep_unsupported c
  | succ k ih =>
    obtain ⟨ihS, ihL, ihT, ihD⟩ := ih
    refine ⟨?_, ?_, ?_, ?_⟩
    · intro l useNext rest data c
      unfold decSend
      split
      · exact ihD ..
      · exact keepRep_decFinalCallback ..
    · intro d drec rest inp c
      unfold decLoop
      split
      · exact KeepRep.refl c
      · by_cases hfull : (drec.buf.length == GZIP_BUF_SIZE) = true
        · simp only [hfull, if_true]
          rcases hx : decSend cfg req uid false k (drec.kind != 0) rest (some drec.buf) c with ⟨rest1, c1, rc1⟩
          have f1 : KeepRep c c1 := by have := ihS false (drec.kind != 0) rest (some drec.buf) c; rw [hx] at this; exact this
          simp only
          by_cases hrc : (rc1 != Rc.ok) = true
          · simp only [hrc, if_true]; exact f1
          · simp only [hrc, Bool.false_eq_true, if_false]
            exact f1.trans (ihT ..)
        · simp only [hfull, Bool.false_eq_true, if_false]
          exact ihT ..
    · intro d drec rest inp c
      unfold decStep
      split
      · exact keepRep_unsupported c
      split
      · exact KeepRep.refl c
      split
      · exact keepRep_unsupported c
      · rename_i z zs hz
        simp only
        generalize (if ((drec.buf ++ z.produced).length > 0 && z.rc == Z_DATA_ERROR) = true then Z_STREAM_END else z.rc) = rcv
        split
        · -- stream end: the buffer goes out
          rcases hx : decSend cfg req uid false k (drec.kind != 0) rest (some (drec.buf ++ z.produced)) { c with zoracle := zs } with ⟨rest1, c1, rc1⟩
          have f1 : KeepRep c c1 := by
            have := ihS false (drec.kind != 0) rest (some (drec.buf ++ z.produced)) { c with zoracle := zs }
            rw [hx] at this; exact (keepRep_zoracle c zs).trans this
          simp only
          split <;> exact f1
        · split
          · split
            · split
              · exact keepRep_zoracle c zs
              · exact (keepRep_zoracle c zs).trans (ihL ..)
            · rcases hx : decFinalCallback cfg req uid false (some d) { c with zoracle := zs } with ⟨c1, rc1⟩
              have f1 : KeepRep c c1 := by
                have := keepRep_decFinalCallback cfg req uid false (some d) { c with zoracle := zs }
                rw [hx] at this; exact (keepRep_zoracle c zs).trans this
              simp only
              split <;> exact f1
          · exact (keepRep_zoracle c zs).trans (ihL ..)
    · intro ds data c
      unfold decompress
      cases ds with
      | nil => exact KeepRep.refl c
      | cons drec rest =>
        simp only
        split
        · rcases hx : decFinalCallback cfg req uid data.isNone data c with ⟨c1, rc1⟩
          have f1 : KeepRep c c1 := by have := keepRep_decFinalCallback cfg req uid data.isNone data c; rw [hx] at this; exact this
          exact f1
        · cases data with
          | none =>
            simp only
            rcases hx : decSend cfg req uid true k (drec.kind != 0) rest (if drec.buf.length > 0 then some drec.buf else none) c with ⟨rest1, c1, rc1⟩
            have f1 : KeepRep c c1 := by
              have := ihS true (drec.kind != 0) rest (if drec.buf.length > 0 then some drec.buf else none) c; rw [hx] at this; exact this
            simp only
            split <;> exact f1
          | some d => exact ihL ..


/-- body processing keeps the invariant - with or without the request decompressor in the way -/
theorem keepRep_reqProcessBodyData (cfg : Cfg) (data : Option Bytes) (g : Nat) (c : Conn) :
    KeepRep c (reqProcessBodyData cfg data g c).1 := by
  unfold reqProcessBodyData
  cases c.inn.tx with
  | none => exact KeepRep.refl c
  | some uid =>
    simp only
    split
    · split
      · exact KeepRep.refl c
      · split
        · exact keepRep_unsupported c
        split
        · exact keepRep_unsupported c
        · rcases hx : decompress cfg true uid (8 * (data.map (·.length)).getD g + 128) c.inDecs data c with ⟨ds, c1, rc1⟩
          have f1 : KeepRep c c1 := by
            have := (keepRep_dec cfg true uid (8 * (data.map (·.length)).getD g + 128)).2.2.2 c.inDecs data c
            rw [hx] at this; exact this
          simp only
          exact f1.trans ⟨id⟩
    · have h := keepRep_reqRunHookBodyData cfg data g
        (c.modTx uid fun t => { t with reqEntityLen := t.reqEntityLen + (data.map (·.length)).getD g })
      split <;> exact (keepRep_modTx _ _ c).trans h


/-! ### receivers and the transaction state functions of the request side -/

theorem keepRep_reqReceiverSend (l : Bool) (c : Conn) : KeepRep c (reqReceiverSend l c).1 := by
  unfold reqReceiverSend
  cases c.inn.receiverHook with
  | none => exact KeepRep.refl c
  | some h =>
    simp only
    apply keepRep_andThen
    · exact keepRep_runCallback ..
    · intro c2; exact ⟨id⟩

theorem keepRep_reqReceiverFinalizeClear (c : Conn) : KeepRep c (reqReceiverFinalizeClear c).1 := by
  unfold reqReceiverFinalizeClear
  cases c.inn.receiverHook with
  | none => exact KeepRep.refl c
  | some h =>
    simp only
    exact (keepRep_reqReceiverSend true c).trans ⟨id⟩

theorem keepRep_reqReceiverSet (h : Hook) (c : Conn) : KeepRep c (reqReceiverSet h c).1 := by
  unfold reqReceiverSet
  simp only
  exact (keepRep_reqReceiverFinalizeClear c).trans ⟨id⟩

theorem keepRep_txFinalize (cfg : Cfg) (uid : Nat) (c : Conn) : KeepRep c (txFinalize cfg uid c).1 := by
  unfold txFinalize
  cases c.findTx uid with
  | none => exact KeepRep.refl c
  | some t =>
    simp only
    split
    · exact KeepRep.refl c
    · apply keepRep_andThen
      · exact keepRep_runCallback ..
      · intro c1
        split
        · split
          · exact keepRep_destroyTx ..
          · exact KeepRep.refl _
        · exact KeepRep.refl _

theorem keepRep_txStateRequestCompletePartial (cfg : Cfg) (uid : Nat) (c : Conn) :
    KeepRep c (txStateRequestCompletePartial cfg uid c).1 := by
  unfold txStateRequestCompletePartial
  simp only
  apply keepRep_andThen
  · split
    · exact keepRep_reqProcessBodyData ..
    · exact KeepRep.refl c
  · intro c1
    apply keepRep_andThen
    · exact (keepRep_modTx _ _ c1).trans (keepRep_runCallback ..)
    · intro c2
      apply keepRep_andThen
      · exact keepRep_reqReceiverFinalizeClear c2
      · intro c3; exact ⟨id⟩

theorem keepRep_txStateRequestComplete (cfg : Cfg) (uid : Nat) (c : Conn) : KeepRep c (txStateRequestComplete cfg uid c).1 := by
  unfold txStateRequestComplete
  simp only
  apply keepRep_andThen
  · split
    · exact keepRep_txStateRequestCompletePartial ..
    · exact KeepRep.refl c
  · intro c1
    have kf := keepRep_txFinalize cfg uid { c1 with inState := if ((c1.findTx uid).map (·.is09)).getD ((c.findTx uid).getD { uid := uid }).is09 then .ignoreDataAfter09 else .idle }
    rcases hx : txFinalize cfg uid { c1 with inState := if ((c1.findTx uid).map (·.is09)).getD ((c.findTx uid).getD { uid := uid }).is09 then .ignoreDataAfter09 else .idle } with ⟨c2, rc2⟩
    rw [hx] at kf
    exact ⟨fun h => kf.keep h⟩

theorem keepRep_txStateRequestStart (uid : Nat) (c : Conn) : KeepRep c (txStateRequestStart uid c).1 := by
  unfold txStateRequestStart
  apply keepRep_andThen
  · exact keepRep_runCallback ..
  · intro c1
    exact ⟨fun h => (keepRep_modIn _ { c1 with inState := .line }).keep h⟩

theorem keepRep_processRequestHeader (data : Bytes) (c : Conn) : KeepRep c (processRequestHeader data c).1 := by
  unfold processRequestHeader
  simp only
  refine (keepRep_modIn _ c).trans (keepRep_modIn _ _ ?_)
  intro t ht
  exact ⟨addHeader_reps_capped _ _ _ ht.1, ht.2⟩

theorem keepRep_reqFlushHeader (c : Conn) : KeepRep c (reqFlushHeader c).1 := by
  unfold reqFlushHeader
  cases c.inn.header with
  | none => exact KeepRep.refl c
  | some h =>
    simp only
    have := keepRep_processRequestHeader h c
    split
    · exact this
    · exact this.trans ⟨id⟩

theorem repOK_installUrlenc {cfg : Cfg} {uid : Nat} {t : Tx} {c : Conn} (hc : RepOK c) (ht : RepOKTx t) : RepOK (installUrlenc cfg uid t c) := by
  have ht' := repOKTx_getD hc uid ht
  unfold installUrlenc
  simp only []
  repeat' split
  all_goals first | exact hc | exact repOK_setTx hc ht'

theorem repOK_installMpart {cfg : Cfg} {uid : Nat} {t : Tx} {c : Conn} (hc : RepOK c) (ht : RepOKTx t) : RepOK (installMpart cfg uid t c) := by
  have ht' := repOKTx_getD hc uid ht
  unfold installMpart
  simp only []
  repeat' split
  all_goals first | exact hc | exact repOK_setTx hc ht'

theorem repOK_txProcessRequestHeadersTail {cfg : Cfg} {uid : Nat} {t : Tx} {ae : Bool} {c : Conn} (hc : RepOK c) (ht : RepOKTx t) :
    RepOK (txProcessRequestHeadersTail cfg uid t ae c).1 := by
  unfold txProcessRequestHeadersTail
  split
  · exact hc
  · have k1 := keepRep_reqReceiverFinalizeClear c
    generalize reqReceiverFinalizeClear c = r at k1 ⊢
    unfold R.andThen
    split
    · exact (keepRep_runCallback ..).keep (repOK_installMpart (repOK_installUrlenc (k1.keep hc) ht) ht)
    · exact k1.keep hc

/-- **htp_tx_process_request_headers keeps the invariant**: it is the one writer of the two fields, and what it stores is the framing decision -/
theorem keepRep_txProcessRequestHeaders (cfg : Cfg) (uid : Nat) (c : Conn) : KeepRep c (txProcessRequestHeaders cfg uid c).1 := by
  refine ⟨fun hc => ?_⟩
  unfold txProcessRequestHeaders
  extract_lets t0 ce enc c2 t1 c1 fr t2 hasBody c0 un
  have k2 : KeepRep c c2 := keepRep_modTx ..
  have k1 : KeepRep c2 c1 := by
    simp only [c1]
    split
    · exact ⟨id⟩
    · exact KeepRep.refl _
  have k0 : KeepRep c1 c0 := by
    simp only [c0]
    split
    · exact ⟨id⟩
    · exact KeepRep.refl _
  have hc0 : RepOK c0 := ((k2.trans k1).trans k0).keep hc
  have ht2 : RepOKTx t2 := (repOKTx_getD (k2.keep hc) uid (repOKTx_default uid) : RepOKTx t1)
  clear_value c0
  split
  extract_lets t3 t4 t5
  have h3 : RepOKTx t3 := ht2
  have h4 : RepOKTx t4 := by
    simp only [t4]
    split <;> exact h3
  have h5 : RepOKTx t5 := by
    simp only [t5]
    repeat' split
    all_goals exact h4
  clear_value t5
  split
  rename_i T ae heq
  have hT : RepOKTx T := by
    have e := congrArg Prod.fst heq
    simp only at e
    rw [← e]
    repeat' split
    all_goals exact h5
  exact repOK_txProcessRequestHeadersTail (repOK_setTx hc0 hT) hT

theorem keepRep_urlencQueryCallback (cfg : Cfg) (uid : Nat) (c : Conn) : KeepRep c (urlencQueryCallback cfg uid c) := by
  refine ⟨fun hc => ?_⟩
  unfold urlencQueryCallback
  cases hf : c.findTx uid with
  | none => exact hc
  | some t =>
    have ht := repOKTx_findTx hc hf
    simp only []
    repeat' split
    all_goals first | exact hc | exact repOK_setTx hc ht

theorem keepRep_txCreate (cfg : Cfg) (c : Conn) : KeepRep c (txCreate cfg c).1 := by
  refine ⟨fun hc => ?_⟩
  unfold txCreate
  simp only []
  split
  · exact hc
  · intro t ht
    have ht' : some t ∈ c.txs ++ [some ({ uid := c.nextUid, index := c.txs.length, portNumber := 0 } : Tx)] := ht
    simp only [List.mem_append, List.mem_singleton, Option.some.injEq] at ht'
    rcases ht' with h | h
    · exact hc t h
    · rw [h]
      exact ⟨Nat.zero_le _, Nat.zero_le _⟩

theorem keepRep_txStateRequestLine (cfg : Cfg) (uid : Nat) (c : Conn) : KeepRep c (txStateRequestLine cfg uid c).1 := by
  refine ⟨fun hc => ?_⟩
  have ht0 : RepOKTx ((c.findTx uid).getD { uid := uid }) := repOKTx_getD hc uid (repOKTx_default uid)
  unfold txStateRequestLine
  extract_lets t0 hp fl1 fl2 src t1 t2 t3 c1
  split
  · exact hc
  · have h1 : RepOKTx t1 := by
      simp only [t1]
      repeat' split
      all_goals exact ht0
    have h2 : RepOKTx t2 := by
      simp only [t2]
      repeat' split
      all_goals exact h1
    have h3 : RepOKTx t3 := by
      simp only [t3]
      repeat' split
      all_goals exact h2
    have hc1 : RepOK c1 := repOK_setTx hc h3
    clear_value c1
    apply (keepRep_andThen c1 _ _ (keepRep_runCallback ..) ?_).keep hc1
    intro c2
    have k3 : KeepRep c2 (if cfg.urlencParsers then urlencQueryCallback cfg uid c2 else c2) := by
      split
      · exact keepRep_urlencQueryCallback ..
      · exact KeepRep.refl _
    apply keepRep_andThen
    · exact k3.trans (keepRep_runCallback ..)
    · intro c3; exact ⟨id⟩

theorem keepRep_txStateRequestHeaders (cfg : Cfg) (uid : Nat) (c : Conn) : KeepRep c (txStateRequestHeaders cfg uid c).1 := by
  unfold txStateRequestHeaders
  simp only
  split
  · apply keepRep_andThen
    · exact keepRep_runCallback ..
    · intro c1
      apply keepRep_andThen
      · exact keepRep_reqReceiverFinalizeClear c1
      · intro c2; exact ⟨id⟩
  · split
    · have k0 : KeepRep c (if c.inChunkCount != c.inChunkRequestIndex then c.modTx uid (fun t => { t with flags := t.flags ||| MULTI_PACKET_HEAD }) else c) := by
        split
        · exact keepRep_modTx ..
        · exact KeepRep.refl c
      apply keepRep_andThen
      · exact k0.trans (keepRep_txProcessRequestHeaders ..)
      · intro c1; exact ⟨id⟩
    · exact KeepRep.refl c

/-! ### the fourteen request state functions -/

theorem keepRep_inn (c : Conn) (d : Dir) : KeepRep c { c with inn := d } := ⟨id⟩

theorem keepRep_reqIdle (cfg : Cfg) (c : Conn) : KeepRep c (reqIdle cfg c).1 := by
  unfold reqIdle
  split
  · exact KeepRep.refl c
  · have k := keepRep_txCreate cfg c
    rcases hx : txCreate cfg c with ⟨c1, u⟩
    rw [hx] at k
    simp only at k ⊢
    cases u with
    | none => exact k.trans ⟨id⟩
    | some uid =>
      simp only
      have k2 := keepRep_txStateRequestStart uid c1
      rcases hy : txStateRequestStart uid c1 with ⟨c2, rc2⟩
      rw [hy] at k2
      exact k.trans k2

theorem keepRep_reqLineComplete (cfg : Cfg) (c : Conn) : KeepRep c (reqLineComplete cfg c).1 := by
  unfold reqLineComplete
  cases hc : c.inn.consolidate cfg.fieldLimitHard true with
  | none => exact KeepRep.refl c
  | some p =>
    obtain ⟨d, data⟩ := p
    simp -zeta only
    extract_lets c0 ci line rl c1
    have ki : KeepRep c ci := (keepRep_inn c d).trans (keepRep_modIn _ c0)
    have k1 : KeepRep c c1 := (keepRep_inn c d).trans (keepRep_modIn _ c0)
    clear_value ci c1
    split
    · exact ⟨id⟩
    · split
      · exact ki.trans ⟨id⟩
      · cases c1.inn.tx with
        | none => exact k1
        | some uid =>
          simp only
          have k2 := keepRep_txStateRequestLine cfg uid c1
          rcases hy : txStateRequestLine cfg uid c1 with ⟨c2, rc2⟩
          rw [hy] at k2
          simp only at k2 ⊢
          split
          · exact k1.trans k2
          · exact (k1.trans k2).trans ⟨id⟩

theorem keepRep_reqLineLoop (cfg : Cfg) (fuel : Nat) (c : Conn) : KeepRep c (reqLineLoop cfg fuel c).1 := by
  induction fuel generalizing c with
  | zero => unfold reqLineLoop; exact KeepRep.refl c
  | succ k ih =>
    unfold reqLineLoop
    simp only
    split
    · exact (keepRep_inn c _).trans (keepRep_reqLineComplete cfg _)
    · cases hn : (c.inn.peekSet).1.copyByte with
      | none => exact ⟨id⟩
      | some p =>
        obtain ⟨d, b⟩ := p
        simp only
        split
        · exact (keepRep_inn c _).trans (keepRep_reqLineComplete cfg _)
        · exact (keepRep_inn c _).trans (ih _)

theorem keepRep_reqProtocol (c : Conn) : KeepRep c (reqProtocol c).1 := by
  have k1 : KeepRep c ({ c with inState := .headers }.modIn (fun t => { t with reqProgress := 2 })) :=
    ⟨fun h => (keepRep_modIn _ { c with inState := .headers }).keep h⟩
  unfold reqProtocol
  simp only []
  repeat' split
  all_goals first
    | exact ⟨id⟩
    | exact k1
    | exact k1.trans (keepRep_modIn _ _)

theorem keepRep_reqHeadersLoop (cfg : Cfg) (fuel : Nat) (c : Conn) : KeepRep c (reqHeadersLoop cfg fuel c).1 := by
  induction fuel generalizing c with
  | zero => unfold reqHeadersLoop; exact KeepRep.refl c
  | succ k ih =>
    unfold reqHeadersLoop
    cases c.inn.tx with
    | none => exact KeepRep.refl c
    | some uid =>
      simp only
      split
      · apply keepRep_andThen
        · exact keepRep_reqFlushHeader c
        · intro c1
          exact (keepRep_inn c1 c1.inn.clearBuffer).trans ((keepRep_modIn _ _).trans (keepRep_txStateRequestHeaders ..))
      · cases hn : c.inn.copyByte with
        | none => exact KeepRep.refl c
        | some p =>
          obtain ⟨d, b⟩ := p
          simp only
          split
          · exact (keepRep_inn c d).trans (ih _)
          · cases hc : d.consolidate cfg.fieldLimitHard true with
            | none => exact ⟨id⟩
            | some q =>
              obtain ⟨d2, data⟩ := q
              simp only
              split
              · apply keepRep_andThen
                · exact (keepRep_inn c d2).trans (keepRep_reqFlushHeader _)
                · intro c1
                  exact (keepRep_inn c1 _).trans (keepRep_txStateRequestHeaders ..)
              · apply keepRep_andThen
                · split
                  · apply keepRep_andThen
                    · exact (keepRep_inn c d2).trans (keepRep_reqFlushHeader _)
                    · intro c1
                      split
                      · split
                        · have kk := keepRep_processRequestHeader (Parse.chomp data).1 { c1 with inn := (c1.inn.peekSet).1 }
                          split
                          · exact (keepRep_inn c1 _).trans kk
                          · exact (keepRep_inn c1 _).trans kk
                        · exact ⟨id⟩
                      · exact ⟨id⟩
                  · split
                    · exact ((keepRep_inn c d2).trans (keepRep_modIn _ _)).trans ⟨id⟩
                    · split
                      · exact ⟨id⟩
                      · exact ⟨id⟩
                · intro c1
                  exact (keepRep_inn c1 _).trans (ih _)

theorem keepRep_reqConnectCheck (c : Conn) : KeepRep c (reqConnectCheck c).1 := by
  unfold reqConnectCheck
  split <;> exact ⟨id⟩

theorem keepRep_reqConnectWaitResponse (c : Conn) : KeepRep c (reqConnectWaitResponse c).1 := by
  unfold reqConnectWaitResponse
  simp only []
  repeat' split
  all_goals exact ⟨id⟩

theorem keepRep_reqConnectProbeLoop (cfg : Cfg) (fuel : Nat) (c : Conn) : KeepRep c (reqConnectProbeLoop cfg fuel c).1 := by
  induction fuel generalizing c with
  | zero => unfold reqConnectProbeLoop; exact KeepRep.refl c
  | succ k ih =>
    unfold reqConnectProbeLoop
    simp only
    split
    · cases hc : (c.inn.peekSet).1.consolidate cfg.fieldLimitHard true with
      | none => exact ⟨id⟩
      | some q =>
        obtain ⟨d2, data⟩ := q
        simp only
        split
        · split
          · rename_i uid _
            exact (keepRep_inn c d2).trans (keepRep_txStateRequestComplete cfg uid _)
          · exact ⟨id⟩
        · exact ⟨id⟩
    · cases hn : (c.inn.peekSet).1.copyByte with
      | none => exact ⟨id⟩
      | some p =>
        obtain ⟨d, b⟩ := p
        exact (keepRep_inn c d).trans (ih _)

theorem keepRep_reqBodyDetermine (c : Conn) : KeepRep c (reqBodyDetermine c).1 := by
  unfold reqBodyDetermine
  simp only []
  repeat' split
  all_goals first
    | exact ⟨id⟩
    | exact ⟨fun h => (keepRep_modIn _ { c with inState := .bodyChunkedLength }).keep h⟩
    | exact ⟨fun h => (keepRep_modIn _ { c with inn := { c.inn with contentLength := c.inTx.reqContentLength, bodyDataLeft := c.inTx.reqContentLength }, inState := ReqState.bodyIdentity }).keep h⟩

theorem keepRep_reqBodyIdentity (cfg : Cfg) (c : Conn) : KeepRep c (reqBodyIdentity cfg c).1 := by
  unfold reqBodyIdentity
  extract_lets avail n data
  clear_value n data
  split
  · exact KeepRep.refl c
  · have k := keepRep_reqProcessBodyData cfg data (if c.inn.curNull then n.toNat else 0) c
    rcases hx : reqProcessBodyData cfg data (if c.inn.curNull then n.toNat else 0) c with ⟨c1, rc1⟩
    rw [hx] at k
    simp only at k ⊢
    have k2 : KeepRep c ({ c1 with inn := { c1.inn.advance n with bodyDataLeft := c1.inn.bodyDataLeft - n } }.modIn
        (fun t => { t with reqMessageLen := t.reqMessageLen + n.toNat })) :=
      k.trans ⟨fun h => (keepRep_modIn _ { c1 with inn := { c1.inn.advance n with bodyDataLeft := c1.inn.bodyDataLeft - n } }).keep h⟩
    split
    · exact k
    · split
      · exact k2.trans ⟨id⟩
      · exact k2

theorem keepRep_reqChunkedDataEndLoop (fuel : Nat) (c : Conn) : KeepRep c (reqChunkedDataEndLoop fuel c).1 := by
  induction fuel generalizing c with
  | zero => unfold reqChunkedDataEndLoop; exact KeepRep.refl c
  | succ k ih =>
    unfold reqChunkedDataEndLoop
    cases hn : c.inn.nextByteConsume with
    | none => exact KeepRep.refl c
    | some p =>
      obtain ⟨d, b⟩ := p
      simp only
      have k1 : KeepRep c ({ c with inn := d }.modIn (fun t => { t with reqMessageLen := t.reqMessageLen + 1 })) :=
        (keepRep_inn c d).trans (keepRep_modIn _ _)
      split
      · exact k1.trans ⟨id⟩
      · exact k1.trans (ih _)

theorem keepRep_reqBodyChunkedData (cfg : Cfg) (c : Conn) : KeepRep c (reqBodyChunkedData cfg c).1 := by
  unfold reqBodyChunkedData
  extract_lets avail n data
  clear_value n data
  split
  · exact KeepRep.refl c
  · have k := keepRep_reqProcessBodyData cfg (some data) 0 c
    rcases hx : reqProcessBodyData cfg (some data) 0 c with ⟨c1, rc1⟩
    rw [hx] at k
    simp only at k ⊢
    have k2 : KeepRep c ({ c1 with inn := { c1.inn.advance n with chunkedLength := c1.inn.chunkedLength - n } }.modIn
        (fun t => { t with reqMessageLen := t.reqMessageLen + n.toNat })) :=
      k.trans ⟨fun h => (keepRep_modIn _ { c1 with inn := { c1.inn.advance n with chunkedLength := c1.inn.chunkedLength - n } }).keep h⟩
    split
    · exact k
    · split
      · exact k2.trans ⟨id⟩
      · exact k2

theorem keepRep_reqChunkedLengthLoop (cfg : Cfg) (fuel : Nat) (c : Conn) : KeepRep c (reqChunkedLengthLoop cfg fuel c).1 := by
  induction fuel generalizing c with
  | zero => unfold reqChunkedLengthLoop; exact KeepRep.refl c
  | succ k ih =>
    unfold reqChunkedLengthLoop
    cases hn : c.inn.copyByte with
    | none => exact KeepRep.refl c
    | some p =>
      obtain ⟨d, b⟩ := p
      simp -zeta only
      extract_lets c0
      have h0 : KeepRep c c0 := keepRep_inn c d
      split
      · exact h0.trans (ih _)
      · cases hc : c0.inn.consolidate cfg.fieldLimitHard true with
        | none => exact h0
        | some q =>
          obtain ⟨d2, data⟩ := q
          simp -zeta only
          extract_lets c1 line src c2
          have h1 : KeepRep c c1 := (h0.trans (keepRep_inn c0 d2)).trans (keepRep_modIn _ _)
          have h2 : KeepRep c c2 := h1.trans ⟨id⟩
          clear_value c2 c1
          split
          · exact h2.trans ⟨id⟩
          · split
            · exact h2.trans ⟨fun h => (keepRep_modIn _ { c2 with inState := .headers }).keep h⟩
            · exact h2

theorem keepRep_reqIgnore (c : Conn) : KeepRep c (reqIgnoreDataAfter09 c).1 := by
  unfold reqIgnoreDataAfter09
  simp only []
  split <;> exact ⟨id⟩

theorem keepRep_reqFinalize (cfg : Cfg) (c : Conn) : KeepRep c (reqFinalize cfg c).1 := by
  unfold reqFinalize
  cases c.inn.tx with
  | none => exact KeepRep.refl c
  | some uid =>
    simp -zeta only
    extract_lets cp pre
    have hp : ∀ c' b, pre = some (c', b) → c'.txs = c.txs := by
      intro c' b hpre
      simp only [pre] at hpre
      split at hpre
      · split at hpre
        · simp only [Option.some.injEq, Prod.mk.injEq] at hpre; rw [← hpre.1]
        · split at hpre
          · split at hpre
            · simp at hpre
            · simp only [Option.some.injEq, Prod.mk.injEq] at hpre
              rw [← hpre.1]
          · simp only [Option.some.injEq, Prod.mk.injEq] at hpre; rw [← hpre.1]
      · simp only [Option.some.injEq, Prod.mk.injEq] at hpre; rw [← hpre.1]
    clear_value pre
    have viaComplete : ∀ c' : Conn, c'.txs = c.txs →
        KeepRep c (txStateRequestComplete cfg uid c').1 :=
      fun c' h' => (keepRep_of_txs h').trans (keepRep_txStateRequestComplete ..)
    split
    · exact ⟨id⟩
    · rename_i _ c1
      exact viaComplete c1 (hp _ _ rfl)
    · rename_i _ c1
      have h1 := hp _ _ rfl
      clear hp
      cases hc : c1.inn.consolidate cfg.fieldLimitHard true with
      | none => exact keepRep_of_txs h1
      | some q =>
        obtain ⟨d2, data⟩ := q
        simp -zeta only
        extract_lets c2
        have h2 : c2.txs = c.txs := h1
        clear_value c2
        split
        · exact viaComplete c2 h2
        · rename_i src go _
          have hgo : ∀ c', go = some c' → c'.txs = c.txs := by
            intro c' hg
            simp only [go] at hg
            split at hg
            · split at hg
              · simp at hg
              · simp only [Option.some.injEq] at hg
                rw [← hg]
                split
                · exact h2
                · exact h2
            · simp only [Option.some.injEq] at hg; rw [← hg]; exact h2
          clear_value go
          split
          · exact viaComplete _ h2
          · rename_i c3
            have h3 := hgo _ rfl
            clear hgo
            extract_lets r
            have hr : ∀ c' dd, r = some (c', dd) → c'.txs = c.txs := by
              intro c' dd hh
              simp only [r] at hh
              split at hh
              · cases hcb : c3.inn.copyByte with
                | none => rw [hcb] at hh; simp at hh
                | some p =>
                  obtain ⟨d4, b4⟩ := p
                  rw [hcb] at hh
                  simp only at hh
                  cases hc4 : d4.consolidate cfg.fieldLimitHard true with
                  | none =>
                    rw [hc4] at hh
                    simp only [Option.some.injEq, Prod.mk.injEq] at hh
                    rw [← hh.1]; exact h3
                  | some q4 =>
                    obtain ⟨d5, data5⟩ := q4
                    rw [hc4] at hh
                    simp only [Option.some.injEq, Prod.mk.injEq] at hh
                    rw [← hh.1]; exact h3
              · simp only [Option.some.injEq, Prod.mk.injEq] at hh; rw [← hh.1]; exact h3
            clear_value r
            split
            · exact keepRep_of_txs h3
            · rename_i c6 data6
              have h6 := hr _ _ rfl
              have k := keepRep_reqProcessBodyData cfg (some data6) 0 c6
              rcases hx : reqProcessBodyData cfg (some data6) 0 c6 with ⟨c7, rc7⟩
              rw [hx] at k
              simp only at k ⊢
              exact ((keepRep_of_txs h6).trans k).trans ⟨id⟩

theorem keepRep_reqHandleStateChange (c : Conn) : KeepRep c (reqHandleStateChange c).1 := by
  unfold reqHandleStateChange
  split
  · exact KeepRep.refl c
  · simp only
    apply keepRep_andThen
    · repeat' split
      all_goals first | exact KeepRep.refl c | exact keepRep_reqReceiverSet _ c
    · intro c1; exact ⟨id⟩

theorem keepRep_reqStateFn (cfg : Cfg) (c : Conn) : KeepRep c (reqStateFn cfg c).1 := by
  unfold reqStateFn
  cases c.inState with
  | idle => exact keepRep_reqIdle cfg c
  | line => exact keepRep_reqLineLoop cfg _ c
  | protocol => exact keepRep_reqProtocol c
  | headers => exact keepRep_reqHeadersLoop cfg _ c
  | connectCheck => exact keepRep_reqConnectCheck c
  | connectWaitResponse => exact keepRep_reqConnectWaitResponse c
  | connectProbeData => exact keepRep_reqConnectProbeLoop cfg _ c
  | bodyDetermine => exact keepRep_reqBodyDetermine c
  | bodyIdentity => exact keepRep_reqBodyIdentity cfg c
  | bodyChunkedLength => exact keepRep_reqChunkedLengthLoop cfg _ c
  | bodyChunkedData => exact keepRep_reqBodyChunkedData cfg c
  | bodyChunkedDataEnd => exact keepRep_reqChunkedDataEndLoop _ c
  | finalize => exact keepRep_reqFinalize cfg c
  | ignoreDataAfter09 => exact keepRep_reqIgnore c

/-! ### the whole call -/

/-- the invariant holds in every state a pass of the call starts from -/
theorem repOK_along_call (cfg : Cfg) (c0 : Conn) (h0 : RepOK c0) : ∀ c', CallReach cfg c0 c' → RepOK c' := by
  intro c' hr
  induction hr with
  | start => exact h0
  | step c1 hr1 hok _ _ ih =>
    exact (keepRep_reqHandleStateChange _).keep ((keepRep_reqStateFn cfg c1).keep ih)

/-- **`ClAtDecision` follows from the state invariant**: no outside fact is left -/
theorem keepRep_reqStoreChunk (data : Option Bytes) (len : Nat) (c : Conn) : KeepRep c (reqStoreChunk data len c) := ⟨id⟩

theorem keepRep_reqWakeOther (c : Conn) : KeepRep c (reqWakeOther c) := by
  unfold reqWakeOther
  split <;> exact ⟨id⟩

theorem repOK_reqStoreChunk (d : Bytes) (c : Conn) (h : RepOK c) : RepOK (reqWakeOther (reqStoreChunk (some d) d.length c)) :=
  (keepRep_reqWakeOther _).keep ((keepRep_reqStoreChunk (some d) d.length c).keep h)

theorem buffer_keepRep (c : Conn) (d' : Dir) : KeepRep c { c with inn := d' } := ⟨id⟩

/-- the for(;;) of htp_connp_req_data keeps the invariant - data, gap or close, any fuel -/
theorem keepRep_reqDriverLoop (cfg : Cfg) (gap : Bool) (fuel : Nat) (c : Conn) : KeepRep c (reqDriverLoop cfg gap fuel c).1 := by
  induction fuel generalizing c with
  | zero => unfold reqDriverLoop; exact ⟨id⟩
  | succ k ih =>
    unfold reqDriverLoop
    simp only
    -- what happens with the answer of one pass
    have tail : ∀ (c1 : Conn) (rc1 : Rc), KeepRep c c1 → KeepRep c
        (match (if (rc1 == Rc.ok) = true then
                  if (c1.inn.status == STREAM_TUNNEL) = true then (c1, Rc.ok) else reqHandleStateChange c1
                else (c1, rc1) : R) with
         | (c, rc) =>
          if (rc == Rc.ok) = true then
            if (c.inn.status == STREAM_TUNNEL) = true then (c, STREAM_TUNNEL) else reqDriverLoop cfg gap k c
          else if (rc == Rc.data || rc == Rc.dataBuffer) = true then
            (match reqReceiverSend false c with
             | (c, _) =>
               if (rc == Rc.dataBuffer) = true then
                 (match c.inn.buffer cfg.fieldLimitHard true with
                  | none => (({ c with inn := { c.inn with status := STREAM_ERROR } }, STREAM_ERROR) : Conn × Nat)
                  | some d => ({ c with inn := { d with status := STREAM_DATA } }, STREAM_DATA))
               else ({ c with inn := { c.inn with status := STREAM_DATA } }, STREAM_DATA))
          else if (rc == Rc.dataOther) = true then
            (if c.inn.read ≥ c.inn.len then ({ c with inn := { c.inn with status := STREAM_DATA } }, STREAM_DATA)
             else ({ c with inn := { c.inn with status := STREAM_DATA_OTHER } }, STREAM_DATA_OTHER))
          else if (rc == Rc.stop) = true then ({ c with inn := { c.inn with status := STREAM_STOP } }, STREAM_STOP)
          else ({ c with inn := { c.inn with status := STREAM_ERROR } }, STREAM_ERROR)).1 := by
      intro c1 rc1 k1
      have k2 : KeepRep c (if (rc1 == Rc.ok) = true then
                  if (c1.inn.status == STREAM_TUNNEL) = true then (c1, Rc.ok) else reqHandleStateChange c1
                else (c1, rc1) : R).1 := by
        split
        · split
          · exact k1
          · exact k1.trans (keepRep_reqHandleStateChange c1)
        · exact k1
      generalize (if (rc1 == Rc.ok) = true then
                  if (c1.inn.status == STREAM_TUNNEL) = true then (c1, Rc.ok) else reqHandleStateChange c1
                else (c1, rc1) : R) = r2 at k2 ⊢
      obtain ⟨c2, rc2⟩ := r2
      simp only at k2 ⊢
      split
      · split
        · exact k2
        · exact k2.trans (ih c2)
      · split
        · have kk := keepRep_reqReceiverSend false c2
          rcases hz : reqReceiverSend false c2 with ⟨c3, rc3⟩
          rw [hz] at kk
          simp only at kk ⊢
          split
          · cases hb : c3.inn.buffer cfg.fieldLimitHard true with
            | none => exact (k2.trans kk).trans ⟨id⟩
            | some d => exact (k2.trans kk).trans ⟨id⟩
          · exact (k2.trans kk).trans ⟨id⟩
        · repeat' split
          all_goals exact k2.trans ⟨id⟩
    split
    · exact KeepRep.refl c
    · rename_i c1 rc1 hstep
      have k1 : KeepRep c c1 := by
        split at hstep
        · split at hstep
          · simp only [Option.some.injEq] at hstep
            have := keepRep_reqStateFn cfg c
            rw [hstep] at this; exact this
          · split at hstep
            · split at hstep
              · rename_i uid _
                simp only [Option.some.injEq] at hstep
                have := keepRep_txStateRequestComplete cfg uid c
                rw [hstep] at this; exact this
              · simp only [Option.some.injEq, Prod.mk.injEq] at hstep
                rw [← hstep.1]; exact KeepRep.refl c
            · simp at hstep
        · simp only [Option.some.injEq] at hstep
          have := keepRep_reqStateFn cfg c
          rw [hstep] at this; exact this
      exact tail c1 rc1 k1

/-- **a request data call keeps the invariant** -/
theorem repOK_reqData (cfg : Cfg) (data : Option Bytes) (len : Nat) (c : Conn) (h : RepOK c) : RepOK (reqData cfg data len c).1 := by
  unfold reqData
  simp only
  have key : RepOK (reqDataCore cfg data len c).1 := by
    unfold reqDataCore
    split
    · exact h
    split
    · exact h
    split
    · exact h
    split
    · exact h
    simp only
    split
    · exact h
    · exact (keepRep_reqDriverLoop cfg _ _ _).keep ((keepRep_reqWakeOther _).keep ((keepRep_reqStoreChunk data len c).keep h))
  exact key

end Htp.Conn
