/- The response side and the remaining entry points keep `RepOK`; then whole call histories. -/
import HtpModel.Lemmas.RepInv
import HtpModel.Lemmas.History
namespace Htp.Conn
open Htp Htp.Gen

theorem keepRep_out (c : Conn) (d : Dir) : KeepRep c { c with out := d } := ⟨id⟩

/-! ### receivers, body data, transaction state functions of the response side -/

theorem keepRep_resReceiverSend (l : Bool) (c : Conn) : KeepRep c (resReceiverSend l c).1 := by
  unfold resReceiverSend
  cases c.out.receiverHook with
  | none => exact KeepRep.refl c
  | some h =>
    simp only
    apply keepRep_andThen
    · exact keepRep_runCallback ..
    · intro c2; exact ⟨id⟩

theorem keepRep_resReceiverFinalizeClear (c : Conn) : KeepRep c (resReceiverFinalizeClear c).1 := by
  unfold resReceiverFinalizeClear
  cases c.out.receiverHook with
  | none => exact KeepRep.refl c
  | some h =>
    simp only
    exact (keepRep_resReceiverSend true c).trans ⟨id⟩

theorem keepRep_resReceiverSet (h : Hook) (c : Conn) : KeepRep c (resReceiverSet h c).1 := by
  unfold resReceiverSet
  simp only
  exact (keepRep_resReceiverFinalizeClear c).trans ⟨id⟩

theorem keepRep_resProcessBodyData (cfg : Cfg) (data : Option Bytes) (c : Conn) : KeepRep c (resProcessBodyData cfg data c).1 := by
  unfold resProcessBodyData
  cases c.out.tx with
  | none => exact KeepRep.refl c
  | some uid =>
    simp only
    have f0 : KeepRep c (c.modTx uid fun t => { t with resMessageLen := t.resMessageLen + (data.map (·.length)).getD 0 }) := keepRep_modTx ..
    split
    · split
      · exact f0
      · split
        · exact f0.trans (keepRep_unsupported _)
        · rcases hx : decompress cfg false uid (8 * (data.map (·.length)).getD 0 + 128)
            (c.modTx uid fun t => { t with resMessageLen := t.resMessageLen + (data.map (·.length)).getD 0 }).outDecs data
            (c.modTx uid fun t => { t with resMessageLen := t.resMessageLen + (data.map (·.length)).getD 0 }) with ⟨ds, c1, rc1⟩
          have f1 := (keepRep_dec cfg false uid (8 * (data.map (·.length)).getD 0 + 128)).2.2.2
            (c.modTx uid fun t => { t with resMessageLen := t.resMessageLen + (data.map (·.length)).getD 0 }).outDecs data
            (c.modTx uid fun t => { t with resMessageLen := t.resMessageLen + (data.map (·.length)).getD 0 })
          rw [hx] at f1
          simp only at f1 ⊢
          exact (f0.trans f1).trans ⟨id⟩
    · split
      · have h := keepRep_resRunHookBodyData data
          ((c.modTx uid fun t => { t with resMessageLen := t.resMessageLen + (data.map (·.length)).getD 0 }).modTx uid
            fun t => { t with resEntityLen := t.resEntityLen + (data.map (·.length)).getD 0 })
        have f2 := (f0.trans (keepRep_modTx uid (fun t => { t with resEntityLen := t.resEntityLen + (data.map (·.length)).getD 0 }) _)).trans h
        split <;> exact f2
      · exact f0

theorem keepRep_resProcessBodyDataGap (cfg : Cfg) (data : Option Bytes) (g : Nat) (c : Conn) :
    KeepRep c (resBodyIdentityClKnown.resProcessBodyDataGap cfg data g c).1 := by
  unfold resBodyIdentityClKnown.resProcessBodyDataGap
  split
  · exact keepRep_resProcessBodyData ..
  · cases c.out.tx with
    | none => exact KeepRep.refl c
    | some uid =>
      simp only
      have f0 : KeepRep c (c.modTx uid fun t => { t with resMessageLen := t.resMessageLen + g }) := keepRep_modTx ..
      split
      · have f1 := f0.trans (keepRep_modTx uid (fun t => { t with resEntityLen := t.resEntityLen + g }) _)
        split
        · refine f1.trans ?_
          apply keepRep_andThen
          · exact keepRep_runCallbackN ..
          · intro c2; exact keepRep_runCallback ..
        · refine f1.trans ?_
          apply keepRep_andThen
          · exact keepRep_runCallbackN ..
          · intro c2; exact keepRep_runCallback ..
      · exact f0.trans (keepRep_unsupported _)

theorem keepRep_processResponseHeader (d : Bytes) (c : Conn) : KeepRep c (processResponseHeader d c).1 := by
  unfold processResponseHeader
  simp only
  refine (keepRep_modOut _ c ?_).trans (keepRep_modOut _ _ ?_)
  · intro t ht
    split
    · split
      · exact ht
      · exact ht
    · exact ht
  · intro t ht
    exact ⟨ht.1, addHeader_reps_capped _ _ _ ht.2⟩

theorem keepRep_resFlushHeader (c : Conn) : KeepRep c (resFlushHeader c).1 := by
  unfold resFlushHeader
  cases c.out.header with
  | none => exact KeepRep.refl c
  | some h =>
    simp only
    have := keepRep_processResponseHeader h c
    split
    · exact this
    · exact this.trans ⟨id⟩

theorem keepRep_txStateResponseLine (uid : Nat) (c : Conn) : KeepRep c (txStateResponseLine uid c).1 := by
  unfold txStateResponseLine
  simp only
  refine KeepRep.trans ?_ (keepRep_runCallback ..)
  split
  · exact keepRep_modTx ..
  · exact KeepRep.refl c

theorem keepRep_txStateResponseHeaders (cfg : Cfg) (uid : Nat) (c : Conn) : KeepRep c (txStateResponseHeaders cfg uid c).1 := by
  unfold txStateResponseHeaders
  rcases responseNeedsDecompressor cfg ((c.findTx uid).getD { uid := uid }) with ⟨enc, needs⟩
  simp only
  apply keepRep_andThen
  · exact (keepRep_modTx uid _ c).trans (keepRep_resReceiverFinalizeClear _)
  · intro c1
    apply keepRep_andThen
    · exact keepRep_runCallback ..
    · intro c2
      split
      · split
        · exact ⟨id⟩
        · cases ceChain cfg ((getHeaderC ((c.findTx uid).getD { uid := uid }).resHeaders (b!"content-encoding")).map (·.value) |>.getD []) with
          | nil => exact ⟨id⟩
          | cons ty rest =>
            exact ⟨fun h => (keepRep_modTx uid _ { c2 with outDecs := (ty :: rest).map (decCreate cfg), outDecompressor := true }).keep h⟩
      · exact KeepRep.refl _

theorem keepRep_txStateResponseStart (uid : Nat) (c : Conn) : KeepRep c (txStateResponseStart uid c).1 := by
  unfold txStateResponseStart
  simp only
  apply keepRep_andThen
  · exact (keepRep_out c _).trans (keepRep_runCallback ..)
  · intro c1
    split
    · exact (keepRep_modTx uid _ c1).trans ⟨id⟩
    · exact (keepRep_modTx uid _ c1).trans ⟨id⟩

theorem keepRep_txStateResponseCompleteEx (cfg : Cfg) (uid : Nat) (c : Conn) : KeepRep c (txStateResponseCompleteEx cfg uid c).1 := by
  unfold txStateResponseCompleteEx
  simp only
  apply keepRep_andThen
  · split
    · apply keepRep_andThen
      · refine KeepRep.trans ?_ (keepRep_runCallback ..)
        split
        · exact (keepRep_modTx uid _ c).trans (keepRep_resProcessBodyData ..)
        · exact keepRep_modTx ..
      · intro c1; exact keepRep_resReceiverFinalizeClear _
    · exact KeepRep.refl c
  · intro c1
    split
    · exact KeepRep.refl _
    · split
      · exact ⟨id⟩
      · apply keepRep_andThen
        · exact keepRep_txFinalize ..
        · intro c2; exact ⟨id⟩

/-! ### the ten response state functions -/

theorem keepRep_resIdleUnmatched (cfg : Cfg) (c : Conn) : KeepRep c (resIdleUnmatched cfg c).1 := by
  unfold resIdleUnmatched
  have k := keepRep_txCreate cfg c
  rcases hx : txCreate cfg c with ⟨c2, u⟩
  rw [hx] at k
  simp only at k ⊢
  cases u with
  | none => exact k.trans ⟨id⟩
  | some uid =>
    simp only
    refine ⟨fun h => ?_⟩
    have h2 : RepOK c2 := k.keep h
    have h3 := (keepRep_modTx uid (fun t => { t with uriNorm := some { path := some REQUEST_URI_NOT_SEEN }, uri := some REQUEST_URI_NOT_SEEN })
      { c2 with out := { c2.out with tx := some uid } }).keep h2
    exact KeepRep.keep (keepRep_txStateResponseStart uid _) h3

theorem keepRep_resIdle (cfg : Cfg) (c : Conn) : KeepRep c (resIdle cfg c).1 := by
  unfold resIdle
  split
  · exact KeepRep.refl c
  · simp only []
    split
    · have hk : KeepRep c (if c.inState == .finalize then (match c.inn.tx with | some uid => (txStateRequestComplete cfg uid c).1 | none => c) else c) := by
        split
        · split
          · exact keepRep_txStateRequestComplete ..
          · exact KeepRep.refl c
        · exact KeepRep.refl c
      exact hk.trans (keepRep_resIdleUnmatched cfg _)
    · rename_i t _
      exact KeepRep.trans (b := { c with outNextTxIndex := c.outNextTxIndex + 1, out := { c.out with tx := some t.uid, contentLength := -1, bodyDataLeft := -1 } })
        ⟨id⟩ (keepRep_txStateResponseStart t.uid _)

theorem keepRep_resLineAsBody (cfg : Cfg) (uid : Nat) (dn : Bool) (data line : Bytes) (cr : Nat) (c : Conn) :
    KeepRep c (resLineAsBody cfg uid dn data line cr c).1 := by
  unfold resLineAsBody
  extract_lets nextIsH rd1 ln1 c1 c2 src c3
  have k1 : KeepRep c c1 := keepRep_modTx ..
  have k3 : KeepRep c c3 := (keepRep_modTx uid _ c).trans ⟨id⟩
  clear_value c1 c3
  split
  · exact k1.trans ⟨id⟩
  · have k := keepRep_resProcessBodyData cfg (if dn then none else some (data.take (line.length + cr))) c3
    rcases hx : resProcessBodyData cfg (if dn then none else some (data.take (line.length + cr))) c3 with ⟨c4, rc4⟩
    rw [hx] at k
    simp only at k ⊢
    split
    · exact (k3.trans k).trans ⟨id⟩
    · split
      · exact (k3.trans k).trans ((keepRep_out c4 _).trans ((keepRep_modTx uid _ _).trans ⟨id⟩))
      · exact (k3.trans k).trans ⟨id⟩

theorem keepRep_resLineComplete (cfg : Cfg) (uid : Nat) (closed : Bool) (c : Conn) : KeepRep c (resLineComplete cfg uid closed c).1 := by
  unfold resLineComplete
  cases hc : c.out.consolidate cfg.fieldLimitHard false with
  | none => exact KeepRep.refl c
  | some q =>
    obtain ⟨d2, data⟩ := q
    simp -zeta only
    extract_lets dataNull c0 c1 c2 c3 rl c4
    have h0 : KeepRep c c0 := keepRep_out c d2
    have h1 : KeepRep c c1 := by
      simp only [c1]
      split
      · exact h0.trans ⟨id⟩
      · exact h0
    have h2 : KeepRep c c2 := h1.trans (keepRep_modTx ..)
    have h3 : KeepRep c c3 := h0.trans (keepRep_modTx ..)
    have h4 : KeepRep c c4 := h3.trans (keepRep_modTx ..)
    clear_value c0 c1 c2 c3 c4 dataNull
    split
    · exact h2.trans ⟨id⟩
    · split
      · exact h3.trans (keepRep_resLineAsBody ..)
      · refine h4.trans ?_
        apply keepRep_andThen
        · exact keepRep_txStateResponseLine uid c4
        · intro c5
          exact ⟨fun h => (keepRep_modTx uid _ { c5 with out := c5.out.clearBuffer, outState := .headers }).keep h⟩

theorem keepRep_resLineLoop (cfg : Cfg) (fuel : Nat) (c : Conn) : KeepRep c (resLineLoop cfg fuel c).1 := by
  induction fuel generalizing c with
  | zero => unfold resLineLoop; exact KeepRep.refl c
  | succ k ih =>
    unfold resLineLoop
    cases c.out.tx with
    | none => exact KeepRep.refl c
    | some uid =>
      simp only
      split
      · exact KeepRep.refl c
      · rename_i c1 h1
        have e1 : c1.txs = c.txs := by
          split at h1
          · cases hcb : c.out.copyByte with
            | none => rw [hcb] at h1; simp at h1
            | some p =>
              obtain ⟨d, b⟩ := p
              rw [hcb] at h1
              simp only [Option.some.injEq] at h1
              rw [← h1]
          · simp only [Option.some.injEq] at h1; rw [← h1]
        split
        · exact (keepRep_of_txs e1).trans ⟨id⟩
        · rename_i c2 h2
          have e2 : c2.txs = c.txs := by
            split at h2
            · simp only [Dir.peekSet] at h2
              cases hp : c1.out.peek with
              | none => rw [hp] at h2; simp at h2
              | some b =>
                rw [hp] at h2
                simp only at h2
                split at h2
                · simp only [Except.ok.injEq, Prod.mk.injEq] at h2; rw [← h2.1]; exact e1
                · simp only [Except.ok.injEq, Prod.mk.injEq] at h2; simp at h2
            · simp only [Except.ok.injEq, Prod.mk.injEq] at h2; simp at h2
          exact (keepRep_of_txs e2).trans (ih c2)
        · rename_i c2 h2
          have e2 : c2.txs = c.txs := by
            split at h2
            · simp only [Dir.peekSet] at h2
              cases hp : c1.out.peek with
              | none => rw [hp] at h2; simp at h2
              | some b =>
                rw [hp] at h2
                simp only at h2
                split at h2
                · simp only [Except.ok.injEq, Prod.mk.injEq] at h2; simp at h2
                · simp only [Except.ok.injEq, Prod.mk.injEq] at h2; rw [← h2.1]; exact e1
            · simp only [Except.ok.injEq, Prod.mk.injEq] at h2; rw [← h2.1]; exact e1
          split
          · exact (keepRep_of_txs e2).trans (ih c2)
          · exact (keepRep_of_txs e2).trans (keepRep_resLineComplete ..)

theorem rep_eol_txs (b : UInt8) (lfcr : Bool) (c : Conn) :
    ∀ c2 l e a, resHeadersEol b lfcr c = .ok (c2, l, e, a) → c2.txs = c.txs := by
  intro c2 l e a h
  unfold resHeadersEol at h
  simp only [] at h
  repeat' split at h
  all_goals first
    | (simp only [Except.ok.injEq, Prod.mk.injEq] at h; rw [← h.1])
    | (simp at h)

theorem keepRep_resHeaderLine (uid : Nat) (line : Bytes) (c : Conn) : KeepRep c (resHeaderLine uid line c).1 := by
  unfold resHeaderLine
  split
  · apply keepRep_andThen
    · exact keepRep_resFlushHeader c
    · intro c1
      simp only [Dir.peekSet]
      obtain hp | ⟨b, hp⟩ : c1.out.peek = none ∨ ∃ b, c1.out.peek = some b := by cases c1.out.peek <;> simp
      · simp only [hp, Bool.not_true, Bool.false_eq_true, if_false]
        exact ⟨id⟩
      · simp only [hp]
        by_cases hf : isFoldingChar b = true
        · simp only [hf, Bool.not_true, Bool.false_eq_true, if_false]
          exact ⟨id⟩
        · simp only [hf, Bool.not_false, if_true]
          have e := keepRep_processResponseHeader line { c1 with out := { c1.out with nextByte := (b.toNat : Int) } }
          rcases hy : processResponseHeader line { c1 with out := { c1.out with nextByte := (b.toNat : Int) } } with ⟨c2, rc2⟩
          rw [hy] at e
          simp only at e ⊢
          split
          · exact (keepRep_out c1 _).trans e
          · exact (keepRep_out c1 _).trans e
  · cases c.out.header with
    | none => exact (keepRep_modTx uid _ c).trans ⟨id⟩
    | some h =>
      simp only
      split
      · have e := keepRep_processResponseHeader h (c.modTx uid fun t => { t with flags := t.flags ||| INVALID_FOLDING })
        rcases hy : processResponseHeader h (c.modTx uid fun t => { t with flags := t.flags ||| INVALID_FOLDING }) with ⟨c2, rc2⟩
        rw [hy] at e
        simp only at e ⊢
        split
        · exact (keepRep_modTx uid _ c).trans e
        · exact ((keepRep_modTx uid _ c).trans e).trans ⟨id⟩
      · split
        · exact ⟨id⟩
        · exact KeepRep.refl c

theorem keepRep_resHeadersLoop (cfg : Cfg) (fuel : Nat) (lfcr : Bool) (c : Conn) : KeepRep c (resHeadersLoop cfg fuel lfcr c).1 := by
  induction fuel generalizing c lfcr with
  | zero => unfold resHeadersLoop; exact KeepRep.refl c
  | succ k ih =>
    unfold resHeadersLoop
    cases c.out.tx with
    | none => exact KeepRep.refl c
    | some uid =>
      simp only
      have trailer : ∀ (c0 : Conn),
          KeepRep c0 (resReceiverFinalizeClear c0 >>? fun c => runCallback .responseTrailer (some uid) none false c >>? fun c => ({ c with outState := .finalize }, Rc.ok)).1 := by
        intro c0
        apply keepRep_andThen
        · exact keepRep_resReceiverFinalizeClear c0
        · intro c1
          apply keepRep_andThen
          · exact keepRep_runCallback ..
          · intro c2; exact ⟨id⟩
      split
      · exact trailer c
      · cases hn : c.out.copyByte with
        | none => exact KeepRep.refl c
        | some p =>
          obtain ⟨d, b⟩ := p
          simp only
          split
          · exact (keepRep_out c d).trans (ih _ _)
          · have he := rep_eol_txs b lfcr { c with out := d }
            split
            · exact ⟨id⟩
            · rename_i heq
              have e2 := he _ _ _ _ heq
              exact ((keepRep_out c d).trans (keepRep_of_txs e2)).trans (ih _ _)
            · rename_i c2 lfcr2 ecr2 heq
              have e2 : c2.txs = c.txs := he _ _ _ _ heq
              have k2 : KeepRep c c2 := keepRep_of_txs e2
              cases hc : c2.out.consolidate cfg.fieldLimitHard false with
              | none => exact k2
              | some q =>
                obtain ⟨d2, data⟩ := q
                simp only
                split
                · exact (k2.trans (keepRep_out c2 d2)).trans (ih lfcr2 _)
                · split
                  · refine (k2.trans (keepRep_out c2 d2)).trans ?_
                    apply keepRep_andThen
                    · exact keepRep_resFlushHeader _
                    · intro c3
                      split
                      · exact ⟨id⟩
                      · exact (keepRep_out c3 _).trans (trailer _)
                  · refine (k2.trans (keepRep_out c2 d2)).trans ?_
                    apply keepRep_andThen
                    · exact keepRep_resHeaderLine ..
                    · intro c3
                      exact (keepRep_out c3 _).trans (ih lfcr2 _)

theorem keepRep_resCl (cl ct : Option Parse.Header) (uid : Nat) (c : Conn) : KeepRep c (resCl cl ct uid c).1 := by
  unfold resCl
  cases cl with
  | some clh =>
    simp -zeta only
    extract_lets c1 n c2 src c3
    have h1 : KeepRep c c1 := keepRep_modTx ..
    have h2 : KeepRep c c2 := h1.trans (keepRep_modTx ..)
    have h3 : KeepRep c c3 := h2.trans ⟨id⟩
    clear_value c1 c2 c3
    split
    · exact h2
    · split
      · exact h3.trans ⟨fun h => (keepRep_modTx uid _ { c3 with outState := .bodyIdentityClKnown }).keep h⟩
      · exact h3.trans ⟨id⟩
  | none =>
    simp only
    repeat' split
    all_goals first
      | exact KeepRep.refl c
      | exact (keepRep_modTx uid _ c).trans ⟨id⟩

theorem keepRep_resFraming (te cl ct : Option Parse.Header) (uid : Nat) (c : Conn) : KeepRep c (resFraming te cl ct uid c).1 := by
  unfold resFraming
  cases te with
  | some te' =>
    simp only
    split
    · exact (keepRep_modTx uid _ c).trans ⟨id⟩
    · exact keepRep_resCl ..
  | none => exact keepRep_resCl ..

theorem keepRep_resRefusedConnect (t : Tx) (c : Conn) : KeepRep c (resRefusedConnect t c) := by
  unfold resRefusedConnect
  simp only []
  repeat' split
  all_goals exact ⟨id⟩

theorem keepRep_resSwitchTunnel (c : Conn) : KeepRep c (resSwitchTunnel c) := by
  unfold resSwitchTunnel
  simp only []
  repeat' split
  all_goals exact ⟨id⟩

theorem keepRep_resExpectShortcut (t : Tx) (c : Conn) : KeepRep c (resExpectShortcut t c) := by
  unfold resExpectShortcut
  repeat' split
  all_goals exact ⟨id⟩

theorem keepRep_resNoBody (uid : Nat) (t : Tx) (te cl : Option Parse.Header) (c : Conn) : KeepRep c (resNoBody uid t te cl c) := by
  unfold resNoBody
  repeat' split
  all_goals first
    | exact KeepRep.refl c
    | exact ⟨fun h => (keepRep_modTx uid _ { c with outState := .finalize }).keep h⟩

theorem keepRep_resFramingStep (uid : Nat) (t : Tx) (te cl : Option Parse.Header) (c : Conn) :
    KeepRep c (resFramingStep uid t te cl c).1 := by
  unfold resFramingStep
  split
  · simp only
    refine KeepRep.trans ?_ (keepRep_resFraming ..)
    split
    · exact keepRep_modTx ..
    · exact KeepRep.refl c
  · exact KeepRep.refl c

theorem keepRep_resBodyDetermineRest (cfg : Cfg) (uid : Nat) (t : Tx) (c : Conn) : KeepRep c (resBodyDetermineRest cfg uid t c).1 := by
  unfold resBodyDetermineRest
  extract_lets c1 cl te is100
  have k0 : KeepRep c c1 := keepRep_resRefusedConnect t c
  clear_value c1 is100
  split
  · exact (k0.trans (keepRep_resSwitchTunnel _)).trans (keepRep_txStateResponseHeaders ..)
  · split
    · exact (k0.trans (keepRep_modTx uid _ _)).trans ⟨id⟩
    · apply keepRep_andThen
      · exact ((k0.trans (keepRep_resExpectShortcut t _)).trans (keepRep_resNoBody ..)).trans (keepRep_resFramingStep ..)
      · intro c1; exact keepRep_txStateResponseHeaders ..

theorem keepRep_resBodyDetermine (cfg : Cfg) (c : Conn) : KeepRep c (resBodyDetermine cfg c).1 := by
  unfold resBodyDetermine
  cases c.out.tx with
  | none => exact KeepRep.refl c
  | some uid =>
    simp only
    split
    · exact KeepRep.trans (b := { c with outState := .finalize }) ⟨id⟩ (keepRep_txStateResponseHeaders ..)
    · exact keepRep_resBodyDetermineRest ..

theorem keepRep_resBodyIdentityClKnown (cfg : Cfg) (c : Conn) : KeepRep c (resBodyIdentityClKnown cfg c).1 := by
  unfold resBodyIdentityClKnown
  extract_lets avail n cfin data
  clear_value n data
  split
  · exact KeepRep.trans (b := cfin) ⟨id⟩ (keepRep_resProcessBodyData ..)
  · split
    · exact KeepRep.refl c
    · have k := keepRep_resProcessBodyDataGap cfg data (if c.out.curNull then n.toNat else 0) c
      rcases hx : resBodyIdentityClKnown.resProcessBodyDataGap cfg data (if c.out.curNull then n.toNat else 0) c with ⟨c1, rc1⟩
      rw [hx] at k
      simp only at k ⊢
      split
      · exact k
      · split
        · exact k.trans (KeepRep.trans (b := { { c1 with out := { c1.out.advance n with bodyDataLeft := c1.out.bodyDataLeft - n } } with outState := .finalize }) ⟨id⟩ (keepRep_resProcessBodyData ..))
        · exact k.trans ⟨id⟩

theorem keepRep_resBodyIdentityStreamClose (cfg : Cfg) (c : Conn) : KeepRep c (resBodyIdentityStreamClose cfg c).1 := by
  unfold resBodyIdentityStreamClose
  extract_lets n data r
  have hr : KeepRep c r.1 := by
    simp only [r]
    split
    · have k := keepRep_resProcessBodyDataGap cfg data (if c.out.curNull then n.toNat else 0) c
      rcases hx : resBodyIdentityClKnown.resProcessBodyDataGap cfg data (if c.out.curNull then n.toNat else 0) c with ⟨c1, rc1⟩
      rw [hx] at k
      simp only at k ⊢
      split
      · exact k
      · exact k.trans ⟨id⟩
    · exact KeepRep.refl c
  clear_value r
  apply keepRep_andThen
  · exact hr
  · intro c1
    split
    · exact ⟨id⟩
    · exact KeepRep.refl c1

theorem keepRep_resChunkedDataEndLoop (fuel : Nat) (c : Conn) : KeepRep c (resChunkedDataEndLoop fuel c).1 := by
  induction fuel generalizing c with
  | zero => unfold resChunkedDataEndLoop; exact KeepRep.refl c
  | succ k ih =>
    unfold resChunkedDataEndLoop
    cases hn : c.out.nextByteConsume with
    | none => exact KeepRep.refl c
    | some p =>
      obtain ⟨d, b⟩ := p
      simp only
      have k1 : KeepRep c ({ c with out := d }.modOut (fun t => { t with resMessageLen := t.resMessageLen + 1 })) :=
        (keepRep_out c d).trans (keepRep_modOut _ _)
      split
      · exact k1.trans ⟨id⟩
      · exact k1.trans (ih _)

theorem keepRep_resBodyChunkedData (cfg : Cfg) (c : Conn) : KeepRep c (resBodyChunkedData cfg c).1 := by
  unfold resBodyChunkedData
  extract_lets avail n data
  clear_value n data
  split
  · exact KeepRep.refl c
  · have k := keepRep_resProcessBodyData cfg (some data) c
    rcases hx : resProcessBodyData cfg (some data) c with ⟨c1, rc1⟩
    rw [hx] at k
    simp only at k ⊢
    split
    · exact k
    · split
      · exact k.trans ⟨id⟩
      · exact k.trans ⟨id⟩

theorem keepRep_resChunkedLengthLoop (cfg : Cfg) (fuel : Nat) (c : Conn) : KeepRep c (resChunkedLengthLoop cfg fuel c).1 := by
  induction fuel generalizing c with
  | zero => unfold resChunkedLengthLoop; exact KeepRep.refl c
  | succ k ih =>
    unfold resChunkedLengthLoop
    cases hn : c.out.copyByte with
    | none => exact KeepRep.refl c
    | some p =>
      obtain ⟨d, b⟩ := p
      simp -zeta only
      extract_lets c0
      have h0 : KeepRep c c0 := keepRep_out c d
      clear_value c0
      split
      · exact h0.trans (ih _)
      · cases hc : c0.out.consolidate cfg.fieldLimitHard false with
        | none => exact h0
        | some q =>
          obtain ⟨d2, data⟩ := q
          simp -zeta only
          extract_lets c1 s1 c2 s2 rd c3 c4
          have h1 : KeepRep c c1 := (h0.trans (keepRep_out c0 d2)).trans (keepRep_modOut _ _)
          have h2 : KeepRep c c2 := h1.trans ⟨id⟩
          have h4 : KeepRep c c4 := h2.trans ⟨id⟩
          have h3 : KeepRep c c3 := h2.trans ⟨id⟩
          clear_value c1 c2 c3 c4
          split
          · exact h2.trans (KeepRep.trans (b := { c2 with out := { c2.out with consume := c2.out.read } }) ⟨id⟩ (ih _))
          · split
            · exact h3.trans (keepRep_modOut _ c3)
            · split
              · exact h4.trans ⟨id⟩
              · exact h4.trans ⟨fun h => (keepRep_modOut _ { c4 with outState := .headers }).keep h⟩

theorem keepRep_resFinalize (cfg : Cfg) (c : Conn) : KeepRep c (resFinalize cfg c).1 := by
  unfold resFinalize
  cases c.out.tx with
  | none => exact KeepRep.refl c
  | some uid =>
    simp -zeta only
    extract_lets cp pre
    have hp : ∀ c' b, pre = some (c', b) → c'.txs = c.txs := by
      intro c' b hpre
      simp only [pre] at hpre
      split at hpre
      · split at hpre
        · simp only [Option.some.injEq, Prod.mk.injEq] at hpre; rw [← hpre.1]
        · split at hpre
          · split at hpre
            · simp at hpre
            · simp only [Option.some.injEq, Prod.mk.injEq] at hpre
              rw [← hpre.1]
          · simp only [Option.some.injEq, Prod.mk.injEq] at hpre; rw [← hpre.1]
      · simp only [Option.some.injEq, Prod.mk.injEq] at hpre; rw [← hpre.1]
    clear_value pre
    have viaComplete : ∀ c' : Conn, c'.txs = c.txs → KeepRep c (txStateResponseCompleteEx cfg uid c').1 :=
      fun c' h' => (keepRep_of_txs h').trans (keepRep_txStateResponseCompleteEx ..)
    split
    · exact ⟨id⟩
    · rename_i _ c1
      exact viaComplete c1 (hp _ _ rfl)
    · rename_i _ c1
      have h1 := hp _ _ rfl
      clear hp
      cases hc : c1.out.consolidate cfg.fieldLimitHard false with
      | none => exact keepRep_of_txs h1
      | some q =>
        obtain ⟨d2, data⟩ := q
        simp -zeta only
        extract_lets dataNull c2 rd keep buf cs
        have h2 : c2.txs = c.txs := h1
        clear_value c2 dataNull
        split
        · exact viaComplete c2 h2
        · split
          · have k := keepRep_resProcessBodyData cfg (some data) c2
            rcases hx : resProcessBodyData cfg (some data) c2 with ⟨c3, rc3⟩
            rw [hx] at k
            simp only at k ⊢
            exact ((keepRep_of_txs h2).trans k).trans ⟨id⟩
          · exact viaComplete _ h2

theorem keepRep_resStateFn (cfg : Cfg) (c : Conn) : KeepRep c (resStateFn cfg c).1 := by
  unfold resStateFn
  cases c.outState with
  | idle => exact keepRep_resIdle cfg c
  | line => exact keepRep_resLineLoop cfg _ c
  | headers => exact keepRep_resHeadersLoop cfg _ _ c
  | bodyDetermine => exact keepRep_resBodyDetermine cfg c
  | bodyIdentityClKnown => exact keepRep_resBodyIdentityClKnown cfg c
  | bodyIdentityStreamClose => exact keepRep_resBodyIdentityStreamClose cfg c
  | bodyChunkedLength => exact keepRep_resChunkedLengthLoop cfg _ c
  | bodyChunkedData => exact keepRep_resBodyChunkedData cfg c
  | bodyChunkedDataEnd => exact keepRep_resChunkedDataEndLoop _ c
  | finalize => exact keepRep_resFinalize cfg c

theorem keepRep_resHandleStateChange (c : Conn) : KeepRep c (resHandleStateChange c).1 := by
  unfold resHandleStateChange
  split
  · exact KeepRep.refl c
  · simp only
    apply keepRep_andThen
    · repeat' split
      all_goals first | exact KeepRep.refl c | exact keepRep_resReceiverSet _ c
    · intro c1; exact ⟨id⟩

/-! ### whole calls -/

/-- the for(;;) of htp_connp_res_data keeps the invariant - data, gap or close, any fuel -/
theorem keepRep_resDriverLoop (cfg : Cfg) (gap : Bool) (fuel : Nat) (c : Conn) : KeepRep c (resDriverLoop cfg gap fuel c).1 := by
  induction fuel generalizing c with
  | zero => unfold resDriverLoop; exact ⟨id⟩
  | succ k ih =>
    unfold resDriverLoop
    simp only
    have tail : ∀ (c1 : Conn) (rc1 : Rc), KeepRep c c1 → KeepRep c
        (match (if (rc1 == Rc.ok) = true then
                  if (c1.out.status == STREAM_TUNNEL) = true then (c1, Rc.ok) else resHandleStateChange c1
                else (c1, rc1) : R) with
         | (c, rc) =>
          if (rc == Rc.ok) = true then
            if (c.out.status == STREAM_TUNNEL) = true then (c, STREAM_TUNNEL) else resDriverLoop cfg gap k c
          else if (rc == Rc.data || rc == Rc.dataBuffer) = true then
            (match resReceiverSend false c with
             | (c, _) =>
               if (rc == Rc.dataBuffer) = true then
                 (match c.out.buffer cfg.fieldLimitHard false with
                  | none => (({ c with out := { c.out with status := STREAM_ERROR } }, STREAM_ERROR) : Conn × Nat)
                  | some d => ({ c with out := { d with status := STREAM_DATA } }, STREAM_DATA))
               else ({ c with out := { c.out with status := STREAM_DATA } }, STREAM_DATA))
          else if (rc == Rc.stop) = true then ({ c with out := { c.out with status := STREAM_STOP } }, STREAM_STOP)
          else if (rc == Rc.dataOther) = true then
            (if c.out.read ≥ c.out.len then ({ c with out := { c.out with status := STREAM_DATA } }, STREAM_DATA)
             else ({ c with out := { c.out with status := STREAM_DATA_OTHER } }, STREAM_DATA_OTHER))
          else ({ c with out := { c.out with status := STREAM_ERROR } }, STREAM_ERROR)).1 := by
      intro c1 rc1 k1
      have k2 : KeepRep c (if (rc1 == Rc.ok) = true then
                  if (c1.out.status == STREAM_TUNNEL) = true then (c1, Rc.ok) else resHandleStateChange c1
                else (c1, rc1) : R).1 := by
        split
        · split
          · exact k1
          · exact k1.trans (keepRep_resHandleStateChange c1)
        · exact k1
      generalize (if (rc1 == Rc.ok) = true then
                  if (c1.out.status == STREAM_TUNNEL) = true then (c1, Rc.ok) else resHandleStateChange c1
                else (c1, rc1) : R) = r2 at k2 ⊢
      obtain ⟨c2, rc2⟩ := r2
      simp only at k2 ⊢
      split
      · split
        · exact k2
        · exact k2.trans (ih c2)
      · split
        · have kk := keepRep_resReceiverSend false c2
          rcases hz : resReceiverSend false c2 with ⟨c3, rc3⟩
          rw [hz] at kk
          simp only at kk ⊢
          split
          · cases hb : c3.out.buffer cfg.fieldLimitHard false with
            | none => exact (k2.trans kk).trans ⟨id⟩
            | some d => exact (k2.trans kk).trans ⟨id⟩
          · exact (k2.trans kk).trans ⟨id⟩
        · repeat' split
          all_goals exact k2.trans ⟨id⟩
    split
    · exact KeepRep.refl c
    · rename_i c1 rc1 hstep
      have k1 : KeepRep c c1 := by
        split at hstep
        · split at hstep
          · simp only [Option.some.injEq] at hstep
            have := keepRep_resStateFn cfg c
            rw [hstep] at this; exact this
          · split at hstep
            · split at hstep
              · rename_i uid _
                simp only [Option.some.injEq] at hstep
                have := keepRep_txStateResponseCompleteEx cfg uid c
                rw [hstep] at this; exact this
              · simp only [Option.some.injEq, Prod.mk.injEq] at hstep
                rw [← hstep.1]; exact KeepRep.refl c
            · simp at hstep
        · simp only [Option.some.injEq] at hstep
          have := keepRep_resStateFn cfg c
          rw [hstep] at this; exact this
      exact tail c1 rc1 k1

/-- **a response data call keeps the invariant** (data, gap or close) -/
theorem repOK_resData (cfg : Cfg) (data : Option Bytes) (len : Nat) (c : Conn) (h : RepOK c) : RepOK (resData cfg data len c).1 := by
  unfold resData
  simp only
  have key : RepOK (resDataCore cfg data len c).1 := by
    unfold resDataCore
    split
    · exact h
    split
    · exact h
    split
    · exact h
    split
    · exact h
    simp only
    split
    · exact h
    · exact (keepRep_resDriverLoop cfg _ _ _).keep h
  exact key

theorem repOK_connOpen (c : Conn) (h : RepOK c) : RepOK (connOpen c) := by
  unfold connOpen
  split
  · exact h
  · exact h

theorem repOK_reqClose (cfg : Cfg) (c : Conn) (h : RepOK c) : RepOK (reqClose cfg c).1 := by
  unfold reqClose
  simp only
  apply repOK_reqData
  split
  · exact h
  · exact h

theorem repOK_connClose (cfg : Cfg) (c : Conn) (h : RepOK c) : RepOK (connClose cfg c).1 := by
  unfold connClose
  extract_lets s1 c1 s2 c2
  have h1 : RepOK c1 := by
    simp only [c1]
    split <;> exact h
  have h2 : RepOK c2 := by
    simp only [c2]
    split
    · exact h1
    · exact h1
  clear_value c2
  have h3 := repOK_reqData cfg none 0 c2 h2
  rcases hx : reqData cfg none 0 c2 with ⟨c3, r1⟩
  rw [hx] at h3
  simp only at h3 ⊢
  have h4 := repOK_resData cfg none 0 c3 h3
  rcases hy : resData cfg none 0 c3 with ⟨c4, r2⟩
  rw [hy] at h4
  exact h4

theorem repOK_txFreedLoop (fuel : Nat) (c : Conn) (r : Nat) (h : RepOK c) : RepOK (txFreedLoop fuel c r).1 := by
  induction fuel generalizing c r with
  | zero => unfold txFreedLoop; exact h
  | succ k ih =>
    unfold txFreedLoop
    split
    · rename_i rest heq
      apply ih
      intro t ht
      apply h t
      rw [heq]
      exact List.mem_cons_of_mem _ ht
    · exact h

theorem repOK_txFreed (c : Conn) (h : RepOK c) : RepOK (txFreed c).1 := repOK_txFreedLoop _ c 0 h


/-! ### whole call histories -/

theorem repOK_runCall (cfg : Cfg) (c : Conn) (call : Call) (h : RepOK c) : RepOK (runCall cfg c call) := by
  cases call with
  | req d => exact repOK_reqData cfg _ _ c h
  | res d => exact repOK_resData cfg _ _ c h
  | close => exact repOK_connClose cfg c h
  | reqClose => exact repOK_reqClose cfg c h
  | «open» => exact repOK_connOpen c h
  | txFreed => exact repOK_txFreed c h

theorem repOK_runCalls (cfg : Cfg) (c : Conn) (calls : List Call) (h : RepOK c) : RepOK (runCalls cfg c calls) := by
  induction calls generalizing c with
  | nil => exact h
  | cons call rest ih => rw [runCalls_cons]; exact ih _ (repOK_runCall cfg c call h)

/-- **the repetition counters stay within the cap over every history of calls**, from any state that has them so -/
theorem history_repetitions_capped (cfg : Cfg) (c0 : Conn) (calls : List Call) (h : RepOK c0) : RepOK (runCalls cfg c0 calls) :=
  repOK_runCalls cfg c0 calls h

/-- **fresh connection parser**: after ANY history of calls, every stored transaction has both repetition counters within
    HTP_MAX_HEADERS_REPETITIONS -/
theorem history_repetitions_capped_fresh (cfg : Cfg) (calls : List Call) (t : Tx) (ht : some t ∈ (runCalls cfg {} calls).txs) :
    t.reqHeaderRepetitions ≤ Htp.Gen.MAX_HEADERS_REPETITIONS ∧ t.resHeaderRepetitions ≤ Htp.Gen.MAX_HEADERS_REPETITIONS :=
  history_repetitions_capped cfg {} calls repOK_init t ht

end Htp.Conn
