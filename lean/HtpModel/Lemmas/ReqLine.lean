/- Helper lemmas for the request-line parser (C02): where the forward scans stop. -/
import HtpModel.Lemmas.Parse
import HtpModel.Lemmas.UrlencRef
namespace Htp.Parse
open Htp Htp.Gen Htp.Urlenc

theorem scanFwd_skip (q : UInt8 → Bool) (pre mid : Bytes) (x : UInt8) (r : Bytes)
    (hm : ∀ b ∈ mid, q b = false) (hx : q x = true) :
    scanFwd q (pre ++ mid ++ x :: r) pre.length = pre.length + mid.length := by
  unfold scanFwd
  have hd : (pre ++ mid ++ x :: r).drop pre.length = mid ++ x :: r := by
    rw [List.append_assoc, List.drop_append]; simp
  rw [hd, takeWhile_stop _ mid x r (fun b hb => by simp [hm b hb]) (by simp [hx])]

theorem scanFwd_end (q : UInt8 → Bool) (pre mid : Bytes) (hm : ∀ b ∈ mid, q b = false) :
    scanFwd q (pre ++ mid) pre.length = pre.length + mid.length := by
  unfold scanFwd
  have hd : (pre ++ mid).drop pre.length = mid := by rw [List.drop_append]; simp
  rw [hd, takeWhile_all _ mid (fun b hb => by simp [hm b hb])]

theorem scanFwd_at (q : UInt8 → Bool) (d pre mid : Bytes) (x : UInt8) (r : Bytes) (n : Nat)
    (hd : d = pre ++ mid ++ x :: r) (hn : n = pre.length) (hm : ∀ b ∈ mid, q b = false) (hx : q x = true) :
    scanFwd q d n = n + mid.length := by
  subst hd; subst hn; exact scanFwd_skip q pre mid x r hm hx

theorem sp20 : isSpace 0x20 = true := by decide
theorem csp20 : cIsspace 0x20 = true := by decide

end Htp.Parse
