/- Helper lemmas: the ring buffer refines a plain list (pattern P3). -/
import HtpModel.Prim.Ring

namespace Htp.Ring

set_option linter.unusedSectionVars false
set_option linter.unusedVariables false
variable {α : Type} [Inhabited α]

@[simp] theorem abs_length (r : Ring α) : (abs r).length = r.curSize := by
  simp [abs]

theorem abs_getElem? (r : Ring α) (i : Nat) (h : i < r.curSize) :
    (abs r)[i]? = some (r.elems.getD (slot r i) default) := by
  simp [abs, h]

theorem abs_ext (r s : Ring α) (hc : r.curSize = s.curSize)
    (h : ∀ i, i < r.curSize → r.elems.getD (slot r i) default = s.elems.getD (slot s i) default) :
    abs r = abs s := by
  apply List.ext_getElem?
  intro i
  by_cases hi : i < r.curSize
  · rw [abs_getElem? r i hi, abs_getElem? s i (hc ▸ hi), h i hi]
  · have h1 : (abs r).length ≤ i := by simp; omega
    have h2 : (abs s).length ≤ i := by simp; omega
    rw [List.getElem?_eq_none h1, List.getElem?_eq_none h2]

theorem create_wf (n : Nat) (h : 0 < n) : WF (create n : Ring α) := by
  constructor <;> simp [create, h]

@[simp] theorem abs_create (n : Nat) : abs (create n : Ring α) = [] := by
  simp [abs, create]

theorem slot_lt (r : Ring α) (w : WF r) (i : Nat) (h : i < r.curSize) : slot r i < r.maxSize := by
  have := w.first_lt; have := w.cur_le
  unfold slot; split <;> omega

theorem slot_inj (r : Ring α) (w : WF r) (i j : Nat) (hi : i < r.maxSize) (hj : j < r.maxSize)
    (h : slot r i = slot r j) : i = j := by
  have := w.first_lt
  unfold slot at h; split at h <;> split at h <;> omega

/-- C07-style statement for `get`: the C index arithmetic reads the logical element. -/
theorem get_eq (r : Ring α) (i : Nat) : get r i = (abs r)[i]? := by
  unfold get
  by_cases h : i ≥ r.curSize
  · simp [h]
  · simp only [h, if_false]
    rw [abs_getElem? r i (by omega)]

theorem grow_wf (r : Ring α) (w : WF r) (hfull : r.curSize = r.maxSize) : WF (grow r) := by
  have := w.pos; have hl := w.len; have := w.first_lt
  constructor
  · simp [grow]; omega
  · simp only [grow]
    split
    · simp [hl]; omega
    · simp [hl]; omega
  · simp [grow]; omega
  · simp [grow]; omega
  · simp [grow]; omega

theorem abs_grow (r : Ring α) (w : WF r) (hfull : r.curSize = r.maxSize) : abs (grow r) = abs r := by
  have hp := w.pos; have hl := w.len; have hf := w.first_lt
  apply abs_ext
  · simp [grow]
  · intro i hi
    have hi' : i < r.maxSize := by simp [grow] at hi; omega
    simp only [grow, slot]
    by_cases h0 : r.first = 0
    · simp only [h0, if_true, Nat.zero_add]
      have : i < r.maxSize * 2 := by omega
      simp only [this, hi', if_true]
      rw [List.getD_eq_getElem?_getD, List.getD_eq_getElem?_getD, List.getElem?_append_left (by omega)]
    · simp only [h0, if_false, Nat.zero_add]
      have : i < r.maxSize * 2 := by omega
      simp only [this, if_true]
      rw [List.getD_eq_getElem?_getD, List.getD_eq_getElem?_getD]
      rw [List.getElem?_append_left (by simp [hl]; omega)]
      by_cases hlt : r.first + i < r.maxSize
      · simp only [hlt, if_true]
        rw [List.getElem?_append_left (by simp [hl]; omega)]
        simp [List.getElem?_drop]
      · simp only [hlt, if_false]
        rw [List.getElem?_append_right (by simp [hl]; omega)]
        simp only [List.length_drop, hl]
        rw [List.getElem?_take_of_lt (by omega)]

theorem pushCore_wf (r : Ring α) (w : WF r) (hlt : r.curSize < r.maxSize) (e : α) : WF (pushCore r e) := by
  have := w.pos; have := w.first_lt; have := w.cur_le; have hl := w.last_eq
  constructor
  · simp [pushCore, w.pos]
  · simp [pushCore, w.len]
  · simp [pushCore, w.first_lt]
  · simp [pushCore]; omega
  · simp only [pushCore, hl]
    split <;> split <;> split <;> omega

theorem push_wf (r : Ring α) (w : WF r) (e : α) : WF (push r e) := by
  unfold push
  by_cases hfull : r.curSize ≥ r.maxSize
  · have hc : r.curSize = r.maxSize := by have := w.cur_le; omega
    have wg := grow_wf r w hc
    simp only [hfull, if_true]
    exact pushCore_wf _ wg (by have := w.pos; simp [grow]; omega) e
  · simp only [hfull, if_false]
    exact pushCore_wf _ w (by omega) e

theorem abs_push_nogrow (r : Ring α) (w : WF r) (hlt : r.curSize < r.maxSize) (e : α) :
    abs (pushCore r e) = abs r ++ [e] := by
  have hp := w.pos; have hlen := w.len; have hf := w.first_lt; have hle := w.last_eq
  have hcs : (pushCore r e).curSize = r.curSize + 1 := rfl
  have hsl : ∀ i, slot (pushCore r e) i = slot r i := fun i => rfl
  have hel : (pushCore r e).elems = r.elems.set r.last e := rfl
  apply List.ext_getElem?
  intro i
  by_cases hi : i < r.curSize
  · rw [abs_getElem? _ i (by rw [hcs]; omega)]
    rw [List.getElem?_append_left (by simp; omega), abs_getElem? r i hi, hsl, hel]
    simp only [slot]
    have hne : (if r.first + i < r.maxSize then r.first + i else i - (r.maxSize - r.first)) ≠ r.last := by
      rw [hle]; split <;> split <;> omega
    rw [List.getD_eq_getElem?_getD, List.getD_eq_getElem?_getD, List.getElem?_set_ne (Ne.symm hne)]
  · by_cases hi2 : i = r.curSize
    · subst hi2
      rw [abs_getElem? _ _ (by rw [hcs]; omega)]
      rw [List.getElem?_append_right (by simp), hsl, hel]
      simp only [abs_length, Nat.sub_self, List.getElem?_cons_zero, slot]
      have hs : (if r.first + r.curSize < r.maxSize then r.first + r.curSize
                 else r.curSize - (r.maxSize - r.first)) = r.last := by
        rw [hle]; split <;> omega
      rw [hs, List.getD_eq_getElem?_getD, List.getElem?_set_self (by rw [hlen, hle]; split <;> omega)]
      simp
    · have h1 : (abs (pushCore r e)).length ≤ i := by rw [abs_length, hcs]; omega
      have h2 : (abs r ++ [e]).length ≤ i := by simp; omega
      rw [List.getElem?_eq_none h1, List.getElem?_eq_none h2]

theorem abs_push (r : Ring α) (w : WF r) (e : α) : abs (push r e) = abs r ++ [e] := by
  unfold push
  by_cases hfull : r.curSize ≥ r.maxSize
  · have hc : r.curSize = r.maxSize := by have := w.cur_le; omega
    have wg := grow_wf r w hc
    simp only [hfull, if_true]
    have hlt : (grow r).curSize < (grow r).maxSize := by have := w.pos; simp [grow]; omega
    rw [abs_push_nogrow (grow r) wg hlt e, abs_grow r w hc]
  · simp only [hfull, if_false]
    exact abs_push_nogrow r w (by omega) e

theorem pop_wf (r : Ring α) (w : WF r) : WF (pop r).1 := by
  unfold pop
  by_cases h0 : r.curSize = 0
  · simp [h0, w]
  · simp only [h0, if_false]
    have := w.pos; have := w.first_lt; have := w.cur_le
    constructor
    · simp [w.pos]
    · simp [w.len]
    · simp [w.first_lt]
    · simp; omega
    · simp only
      split <;> split <;> omega

theorem pop_spec (r : Ring α) (w : WF r) :
    abs (pop r).1 = (abs r).dropLast ∧ (pop r).2 = (abs r).getLast? := by
  unfold pop
  by_cases h0 : r.curSize = 0
  · have : abs r = [] := by apply List.eq_nil_of_length_eq_zero; simp [h0]
    simp [h0, this]
  · simp only [h0, if_false]
    have hp := w.pos; have hf := w.first_lt; have hc := w.cur_le
    constructor
    · apply List.ext_getElem?
      intro i
      by_cases hi : i < r.curSize - 1
      · rw [abs_getElem? _ i (by simpa using hi)]
        rw [List.getElem?_dropLast, ]
        simp only [abs_length, hi, if_true]
        rw [abs_getElem? r i (by omega)]
        rfl
      · have h1 : (abs ({ r with last := (if r.first + r.curSize - 1 > r.maxSize - 1 then r.first + r.curSize - 1 - r.maxSize else r.first + r.curSize - 1), curSize := r.curSize - 1 } : Ring α)).length ≤ i := by
          simp; omega
        have h2 : (abs r).dropLast.length ≤ i := by simp; omega
        rw [List.getElem?_eq_none h1, List.getElem?_eq_none h2]
    · rw [List.getLast?_eq_getElem?, abs_length, abs_getElem? r _ (by omega)]
      simp only [slot]
      congr 2
      split <;> split <;> omega

theorem shift_wf (r : Ring α) (w : WF r) : WF (shift r).1 := by
  unfold shift
  by_cases h0 : r.curSize = 0
  · simp [h0, w]
  · simp only [h0, if_false]
    have := w.pos; have := w.first_lt; have := w.cur_le; have hl := w.last_eq
    constructor
    · simp [w.pos]
    · simp [w.len]
    · simp only; split <;> omega
    · simp; omega
    · simp only [hl]
      split <;> split <;> split <;> omega

theorem shift_spec (r : Ring α) (w : WF r) :
    abs (shift r).1 = (abs r).tail ∧ (shift r).2 = (abs r).head? := by
  unfold shift
  by_cases h0 : r.curSize = 0
  · have : abs r = [] := by apply List.eq_nil_of_length_eq_zero; simp [h0]
    simp [h0, this]
  · simp only [h0, if_false]
    have hp := w.pos; have hf := w.first_lt; have hc := w.cur_le
    constructor
    · apply List.ext_getElem?
      intro i
      by_cases hi : i < r.curSize - 1
      · rw [abs_getElem? _ i (by simpa using hi)]
        rw [List.getElem?_tail, abs_getElem? r (i + 1) (by omega)]
        simp only [slot]
        congr 2
        split <;> split <;> split <;> omega
      · have h1 : (abs ({ r with first := (if r.first + 1 = r.maxSize then 0 else r.first + 1), curSize := r.curSize - 1 } : Ring α)).length ≤ i := by
          simp; omega
        have h2 : (abs r).tail.length ≤ i := by simp; omega
        rw [List.getElem?_eq_none h1, List.getElem?_eq_none h2]
    · rw [List.head?_eq_getElem?, abs_getElem? r 0 (by omega)]
      simp only [slot]
      congr 2
      split <;> omega

theorem replace_wf (r : Ring α) (w : WF r) (i : Nat) (e : α) : WF (replace r i e).1 := by
  unfold replace
  split
  · exact w
  · constructor
    · exact w.pos
    · simp [w.len]
    · exact w.first_lt
    · exact w.cur_le
    · exact w.last_eq

theorem mod_wrap (a m : Nat) (hm : 0 < m) (h : a < 2 * m) : a % m = if a < m then a else a - m := by
  split
  · exact Nat.mod_eq_of_lt (by assumption)
  · rw [Nat.mod_eq_sub_mod (by omega), Nat.mod_eq_of_lt (by omega)]

theorem replace_spec (r : Ring α) (w : WF r) (idx : Nat) (e : α) :
    (replace r idx e).2 = decide (idx < r.curSize) ∧
    abs (replace r idx e).1 = if idx < r.curSize then (abs r).set idx e else abs r := by
  unfold replace
  by_cases h : idx + 1 > r.curSize
  · have : ¬ idx < r.curSize := by omega
    simp [h, this]
  · have hlt : idx < r.curSize := by omega
    simp only [h, if_false, hlt, decide_true, true_and, if_true]
    have hp := w.pos; have hf := w.first_lt; have hc := w.cur_le; have hlen := w.len
    have hmod : (r.first + idx) % r.maxSize = slot r idx := by
      rw [mod_wrap _ _ hp (by omega)]; unfold slot; split <;> omega
    rw [hmod]
    apply List.ext_getElem?
    intro i
    by_cases hi : i < r.curSize
    · rw [abs_getElem? _ i (by simpa using hi)]
      by_cases hii : i = idx
      · subst hii
        rw [List.getElem?_set_self (by simpa using hi)]
        have e1 : slot ({ r with elems := r.elems.set (slot r i) e } : Ring α) i = slot r i := rfl
        rw [e1, List.getD_eq_getElem?_getD, List.getElem?_set_self (by rw [hlen]; exact slot_lt r w i hi)]
        simp
      · rw [List.getElem?_set_ne (Ne.symm hii), abs_getElem? r i hi]
        have e1 : slot ({ r with elems := r.elems.set (slot r idx) e } : Ring α) i = slot r i := rfl
        rw [e1, List.getD_eq_getElem?_getD, List.getD_eq_getElem?_getD, List.getElem?_set_ne]
        intro hs
        exact hii (slot_inj r w i idx (by omega) (by omega) hs.symm)
    · have h1 : (abs ({ r with elems := r.elems.set (slot r idx) e } : Ring α)).length ≤ i := by simp; omega
      have h2 : ((abs r).set idx e).length ≤ i := by simp; omega
      rw [List.getElem?_eq_none h1, List.getElem?_eq_none h2]

theorem clear_wf (r : Ring α) (w : WF r) : WF (clear r) := by
  constructor
  · exact w.pos
  · exact w.len
  · exact w.pos
  · simp [clear]
  · simp [clear, w.pos]

@[simp] theorem abs_clear (r : Ring α) : abs (clear r) = [] := by simp [abs, clear]

end Htp.Ring
