/- Segmentation lemmas: the "field under construction" of a direction and how buffering, the next chunk, consolidation,
   byte copying and the REQ_LINE loop act on it. The property-level statements are in Props/C03.lean. -/
import HtpModel.Lemmas.Conn
import HtpModel.Conn.Req
namespace Htp.Conn
open Htp Htp.Gen

/-- the bytes of the field under construction: what earlier calls set aside, then the unconsumed part of the current chunk -/
def Dir.pending (d : Dir) : Bytes := d.buf.getD [] ++ sliceCur d d.consume d.read

/-- the cursors of a direction are inside its (non-NULL) chunk, whose length is an int64 -/
structure Dir.Sane (d : Dir) : Prop where
  nn : d.curNull = false
  c0 : 0 ≤ d.consume
  cr : d.consume ≤ d.read
  rl : d.read ≤ d.len
  ll : d.len = d.cur.length
  l63 : d.len < 9223372036854775808

theorem sizeOfInt_nonneg (x : Int) (h0 : 0 ≤ x) (h1 : x < 18446744073709551616) : sizeOfInt x = x.toNat := by
  unfold sizeOfInt
  rw [Int.emod_eq_of_lt h0 h1]

theorem sliceCur_empty (d : Dir) (a : Int) : sliceCur d a a = [] := by
  unfold sliceCur; simp

/-- Setting aside the unconsumed tail of a chunk at the end of a call does not change the bytes
    of the field under construction, and leaves nothing unconsumed. -/
theorem seg_buffer_pending (d d' : Dir) (hard : Nat) (skip : Bool) (hs : d.Sane) (h : d.buffer hard skip = some d') :
    d'.pending = d.pending ∧ d'.consume = d'.read := by
  have hsz : sizeOfInt (d.read - d.consume) = (d.read - d.consume).toNat :=
    sizeOfInt_nonneg _ (by have := hs.cr; omega) (by have := hs.rl; have := hs.l63; have := hs.c0; omega)
  unfold Dir.buffer at h
  simp only [hs.nn, Bool.false_eq_true, if_false] at h
  split at h
  · rename_i h0
    simp only [Option.some.injEq] at h
    subst h
    simp only [Bool.and_eq_true, beq_iff_eq] at h0
    refine ⟨rfl, ?_⟩
    have := h0.2
    rw [hsz] at this
    have := hs.cr
    omega
  · split at h
    · simp at h
    · simp only [Option.some.injEq] at h
      subst h
      unfold Dir.pending
      simp [sliceCur_empty]

/-- When a call ended with nothing unconsumed, handing the parser the next chunk leaves the field under
    construction as it was. -/
theorem seg_next_chunk_pending (c : Conn) (data : Bytes) (h : c.inn.consume = c.inn.read) :
    (reqStoreChunk (some data) data.length c).inn.pending = c.inn.buf.getD [] ∧
    c.inn.pending = c.inn.buf.getD [] := by
  unfold reqStoreChunk Dir.pending
  simp [sliceCur_empty, h]

/-- What a state function receives as "the data of this field" is exactly the field under construction. -/
theorem seg_consolidate_pending (d d' : Dir) (data : Bytes) (hard : Nat) (skip : Bool) (hs : d.Sane)
    (h : d.consolidate hard skip = some (d', data)) : data = d.pending ∧ d'.pending = d.pending := by
  unfold Dir.consolidate at h
  cases hb : d.buf with
  | none =>
    simp only [hb] at h
    simp only [Option.some.injEq, Prod.mk.injEq] at h
    obtain ⟨h1, h2⟩ := h
    subst h1
    unfold Dir.pending
    simp [hb, h2]
  | some b =>
    simp only [hb] at h
    cases hbu : d.buffer hard skip with
    | none => simp [hbu] at h
    | some d2 =>
      simp only [hbu, Option.some.injEq, Prod.mk.injEq] at h
      obtain ⟨h1, h2⟩ := h
      subst h1
      have := seg_buffer_pending d d2 hard skip hs hbu
      refine ⟨?_, this.1⟩
      rw [← h2, ← this.1]
      unfold Dir.pending
      rw [this.2, sliceCur_empty]
      simp

/-- Copying the next byte of the chunk extends the field under construction by exactly that byte. -/
theorem seg_copyByte_pending (d d' : Dir) (b : UInt8) (hs : d.Sane) (h : d.copyByte = some (d', b)) :
    d'.pending = d.pending ++ [b] ∧ d'.Sane ∧ d.cur[d.read.toNat]? = some b := by
  unfold Dir.copyByte at h
  split at h
  · rename_i hlt
    have hidx : d.read.toNat < d.cur.length := by have := hs.ll; have := hs.cr; have := hs.c0; omega
    have hget : d.cur[d.read.toNat]? = some d.cur[d.read.toNat] := List.getElem?_eq_getElem hidx
    rw [hget] at h
    simp only [Option.some.injEq, Prod.mk.injEq] at h
    obtain ⟨h1, h2⟩ := h
    subst h1
    refine ⟨?_, ⟨hs.nn, hs.c0, by have := hs.cr; simp; omega, by simp; omega, hs.ll, hs.l63⟩, by rw [hget, h2]⟩
    unfold Dir.pending sliceCur
    simp only [List.append_assoc]
    congr 1
    have e1 : (d.read + 1 - d.consume).toNat = (d.read - d.consume).toNat + 1 := by have := hs.cr; omega
    rw [e1, List.take_succ]
    congr 1
    have e2 : (d.consume.toNat + (d.read - d.consume).toNat) = d.read.toNat := by have := hs.cr; have := hs.c0; omega
    rw [List.getElem?_drop, e2, hget, h2]
    rfl
  · simp at h

theorem copyByte_fields (d d' : Dir) (b : UInt8) (h : d.copyByte = some (d', b)) :
    d'.status = d.status ∧ d'.cur = d.cur ∧ d'.read = d.read + 1 := by
  unfold Dir.copyByte at h
  split at h
  · split at h <;> (simp only [Option.some.injEq, Prod.mk.injEq] at h; obtain ⟨h1, _⟩ := h; subst h1; exact ⟨rfl, rfl, rfl⟩)
  · simp at h

theorem buffer_status (d d' : Dir) (hard : Nat) (skip : Bool) (h : d.buffer hard skip = some d') : d'.status = d.status := by
  unfold Dir.buffer at h
  split at h
  · simp at h; subst h; rfl
  · simp only at h
    split at h
    · simp at h; subst h; rfl
    · split at h
      · simp at h
      · simp at h; subst h; rfl

theorem peekSet_pending (d : Dir) : d.peekSet.1.pending = d.pending := rfl
theorem peekSet_sane (d : Dir) (h : d.Sane) : d.peekSet.1.Sane := ⟨h.nn, h.c0, h.cr, h.rl, h.ll, h.l63⟩

section
variable (cfg : Cfg)

/-- one turn of the REQ_LINE loop on a chunk that still has a byte -/
theorem reqLineLoop_step (fuel : Nat) (c : Conn) (hs : c.inn.Sane) (hst : (c.inn.status == STREAM_CLOSED) = false)
    (hlt : c.inn.read < c.inn.len) :
    ∃ d1 b, c.inn.cur[c.inn.read.toNat]? = some b ∧ d1.pending = c.inn.pending ++ [b] ∧ d1.Sane ∧ d1.status = c.inn.status ∧
      d1.cur = c.inn.cur ∧ d1.read = c.inn.read + 1 ∧
      reqLineLoop cfg (fuel + 1) c =
        if b == LF then reqLineComplete cfg { c with inn := d1 } else reqLineLoop cfg fuel { c with inn := d1 } := by
  have hsp := peekSet_sane _ hs
  have hst' : (c.inn.peekSet.1.status == STREAM_CLOSED) = false := hst
  cases hcb : c.inn.peekSet.1.copyByte with
  | none =>
    exfalso
    unfold Dir.copyByte at hcb
    have : c.inn.peekSet.1.read < c.inn.peekSet.1.len := hlt
    simp only [this, if_true] at hcb
    split at hcb <;> simp at hcb
  | some p =>
    obtain ⟨d1, b⟩ := p
    have h3 := seg_copyByte_pending _ d1 b hsp hcb
    have h4 := copyByte_fields _ d1 b hcb
    refine ⟨d1, b, h3.2.2, by rw [h3.1, peekSet_pending], h3.2.1, h4.1, h4.2.1, h4.2.2, ?_⟩
    conv => lhs; unfold reqLineLoop
    simp only [hst', Bool.false_and, Bool.false_eq_true, if_false, hcb]

theorem drop_head (l : Bytes) (n : Nat) (x : UInt8) (t : Bytes) (h : l.drop n = x :: t) : l[n]? = some x ∧ l.drop (n + 1) = t := by
  constructor
  · have : (l.drop n)[0]? = some x := by rw [h]; rfl
    rw [List.getElem?_drop] at this
    simpa using this
  · have : l.drop (n + 1) = (l.drop n).drop 1 := by rw [List.drop_drop]
    rw [this, h]; rfl

theorem read_lt_of_drop (c : Conn) (hs : c.inn.Sane) (x : UInt8) (t : Bytes) (h : c.inn.cur.drop c.inn.read.toNat = x :: t) :
    c.inn.read < c.inn.len := by
  have hl : (c.inn.cur.drop c.inn.read.toNat).length = t.length + 1 := by rw [h]; simp
  simp only [List.length_drop] at hl
  have := hs.ll; have := hs.cr; have := hs.c0; omega

/-- If the unread part of the chunk is `pre ++ LF :: rest` with no LF in
    `pre`, the request-line state hands `reqLineComplete` a direction whose field under construction is what was pending before
    the call followed by `pre` and the LF - however many earlier chunks contributed to what was pending. -/
theorem seg_reqLine_found (pre rest : Bytes) (fuel : Nat) (c : Conn) (hs : c.inn.Sane) (hst : (c.inn.status == STREAM_CLOSED) = false)
    (hcur : c.inn.cur.drop c.inn.read.toNat = pre ++ LF :: rest) (hpre : ∀ b ∈ pre, b ≠ LF) (hf : pre.length + 1 ≤ fuel) :
    ∃ d', reqLineLoop cfg fuel c = reqLineComplete cfg { c with inn := d' } ∧
      d'.pending = c.inn.pending ++ pre ++ [LF] ∧ d'.Sane := by
  induction pre generalizing fuel c with
  | nil =>
    obtain ⟨k, rfl⟩ : ∃ k, fuel = k + 1 := ⟨fuel - 1, by omega⟩
    have hlt := read_lt_of_drop c hs LF rest hcur
    obtain ⟨d1, b, hb, hp, hs1, _, _, _, heq⟩ := reqLineLoop_step cfg k c hs hst hlt
    have := (drop_head _ _ _ _ hcur).1
    rw [this] at hb
    have hb' : b = LF := (Option.some.inj hb).symm
    subst hb'
    simp only [beq_self_eq_true, if_true] at heq
    exact ⟨d1, heq, by rw [hp]; simp, hs1⟩
  | cons x pre ih =>
    obtain ⟨k, rfl⟩ : ∃ k, fuel = k + 1 := ⟨fuel - 1, by simp at hf; omega⟩
    have hcur' : c.inn.cur.drop c.inn.read.toNat = x :: (pre ++ LF :: rest) := hcur
    have hlt := read_lt_of_drop c hs x _ hcur'
    obtain ⟨d1, b, hb, hp, hs1, hst1, hc1, hr1, heq⟩ := reqLineLoop_step cfg k c hs hst hlt
    have hd := drop_head _ _ _ _ hcur'
    rw [hd.1] at hb
    have hb' : b = x := (Option.some.inj hb).symm
    subst hb'
    have hx : (b == LF) = false := by simpa using hpre b (by simp)
    simp only [hx, Bool.false_eq_true, if_false] at heq
    have hread : d1.read.toNat = c.inn.read.toNat + 1 := by rw [hr1]; have := hs.cr; have := hs.c0; omega
    obtain ⟨d', h1, h2, h3⟩ := ih k { c with inn := d1 } hs1 (by simpa [hst1] using hst)
      (by show d1.cur.drop d1.read.toNat = _; rw [hc1, hread]; exact hd.2)
      (fun b' hb' => hpre b' (by simp [hb'])) (by simp at hf; omega)
    exact ⟨d', by rw [heq, h1], by rw [h2]; show d1.pending ++ pre ++ [LF] = _; rw [hp]; simp, h3⟩

/-- If the unread part of the chunk has no LF, the request-line state runs out of
    bytes (HTP_DATA_BUFFER) with the whole unread part added to the field under construction - nothing is parsed, no callback runs. -/
theorem seg_reqLine_more (tail : Bytes) (fuel : Nat) (c : Conn) (hs : c.inn.Sane) (hst : (c.inn.status == STREAM_CLOSED) = false)
    (hcur : c.inn.cur.drop c.inn.read.toNat = tail) (hnl : ∀ b ∈ tail, b ≠ LF) (hf : tail.length + 1 ≤ fuel) :
    ∃ d', reqLineLoop cfg fuel c = ({ c with inn := d' }, .dataBuffer) ∧ d'.pending = c.inn.pending ++ tail ∧ d'.Sane ∧ d'.read = d'.len ∧
      d'.status = c.inn.status := by
  induction tail generalizing fuel c with
  | nil =>
    obtain ⟨k, rfl⟩ : ∃ k, fuel = k + 1 := ⟨fuel - 1, by omega⟩
    have hge : ¬ c.inn.read < c.inn.len := by
      have hl : (c.inn.cur.drop c.inn.read.toNat).length = 0 := by rw [hcur]; rfl
      simp only [List.length_drop] at hl
      have := hs.ll; have := hs.rl; have := hs.cr; have := hs.c0; omega
    refine ⟨c.inn.peekSet.1, ?_, by rw [peekSet_pending]; simp, peekSet_sane _ hs, ?_, rfl⟩
    · unfold reqLineLoop
      have hst' : (c.inn.peekSet.1.status == STREAM_CLOSED) = false := hst
      have hcb : c.inn.peekSet.1.copyByte = none := by
        unfold Dir.copyByte
        have : ¬ c.inn.peekSet.1.read < c.inn.peekSet.1.len := hge
        simp [this]
      simp only [hst', Bool.false_and, Bool.false_eq_true, if_false, hcb]
    · show c.inn.read = c.inn.len
      have := hs.rl; omega
  | cons x t ih =>
    obtain ⟨k, rfl⟩ : ∃ k, fuel = k + 1 := ⟨fuel - 1, by simp at hf; omega⟩
    have hlt := read_lt_of_drop c hs x _ hcur
    obtain ⟨d1, b, hb, hp, hs1, hst1, hc1, hr1, heq⟩ := reqLineLoop_step cfg k c hs hst hlt
    have hd := drop_head _ _ _ _ hcur
    rw [hd.1] at hb
    have hb' : b = x := (Option.some.inj hb).symm
    subst hb'
    have hx : (b == LF) = false := by simpa using hnl b (by simp)
    simp only [hx, Bool.false_eq_true, if_false] at heq
    have hread : d1.read.toNat = c.inn.read.toNat + 1 := by rw [hr1]; have := hs.cr; have := hs.c0; omega
    obtain ⟨d', h1, h2, h3, h4, h5⟩ := ih k { c with inn := d1 } hs1 (by simpa [hst1] using hst)
      (by show d1.cur.drop d1.read.toNat = _; rw [hc1, hread]; exact hd.2)
      (fun b' hb' => hnl b' (by simp [hb'])) (by simp at hf; omega)
    exact ⟨d', by rw [heq, h1], by rw [h2]; show d1.pending ++ t = _; rw [hp]; simp, h3, h4, by rw [h5]; exact hst1⟩

/-- Feed the request-line state a chunk `a` without LF, let the driver set the tail aside
    (`Dir.buffer`, accepted by the hard limit), hand over the next chunk `b ++ LF :: rest`: `reqLineComplete` then receives exactly
    the bytes it receives when `a ++ b ++ LF :: rest` arrives as one chunk - what was pending, then `a ++ b`, then the LF. -/
theorem seg_request_line_cut (a b rest : Bytes) (c : Conn) (hs : c.inn.Sane) (hst : (c.inn.status == STREAM_CLOSED) = false)
    (hcur : c.inn.cur.drop c.inn.read.toNat = a) (ha : ∀ x ∈ a, x ≠ LF) (hb : ∀ x ∈ b, x ≠ LF)
    (hlen : ((b ++ LF :: rest).length : Int) < 9223372036854775808) :
    ∃ d1, reqLineLoop cfg (a.length + 1) c = ({ c with inn := d1 }, .dataBuffer) ∧
      ∀ d2, d1.buffer cfg.fieldLimitHard true = some d2 →
        ∃ d4, reqLineLoop cfg (b.length + 1) (reqStoreChunk (some (b ++ LF :: rest)) (b ++ LF :: rest).length { c with inn := d2 }) =
            reqLineComplete cfg { reqStoreChunk (some (b ++ LF :: rest)) (b ++ LF :: rest).length { c with inn := d2 } with inn := d4 } ∧
          d4.pending = c.inn.pending ++ (a ++ b) ++ [LF] := by
  obtain ⟨d1, h1, hp1, hs1, _, hst1⟩ := seg_reqLine_more cfg a (a.length + 1) c hs hst hcur ha (by omega)
  refine ⟨d1, h1, ?_⟩
  intro d2 hbuf
  have hb2 := seg_buffer_pending d1 d2 _ _ hs1 hbuf
  have hst2 : d2.status = d1.status := buffer_status d1 d2 _ _ hbuf
  let c3 := reqStoreChunk (some (b ++ LF :: rest)) (b ++ LF :: rest).length { c with inn := d2 }
  have hs3 : c3.inn.Sane := ⟨rfl, by show (0 : Int) ≤ 0; omega, by show (0 : Int) ≤ 0; omega,
    by show (0 : Int) ≤ ((b ++ LF :: rest).length : Int); omega, rfl, hlen⟩
  have hp3 : c3.inn.pending = c.inn.pending ++ a := by
    have := (seg_next_chunk_pending { c with inn := d2 } (b ++ LF :: rest) hb2.2)
    rw [this.1, ← this.2]
    show d2.pending = _
    rw [hb2.1, hp1]
  have hst3 : (c3.inn.status == STREAM_CLOSED) = false := by
    show (d2.status == STREAM_CLOSED) = false
    rw [hst2, hst1]; exact hst
  obtain ⟨d4, h4, hp4, _⟩ := seg_reqLine_found cfg b rest (b.length + 1) c3 hs3 hst3 (by show (b ++ LF :: rest).drop (0 : Int).toNat = _; rfl) hb (by omega)
  exact ⟨d4, h4, by rw [hp4, hp3]; simp⟩
end
end Htp.Conn
