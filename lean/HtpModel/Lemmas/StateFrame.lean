/- The two parser states (`inState`, `outState`) are changed by state functions and tx-state functions only: callbacks, the library's body
   handlers, the decompression chain and the body-data functions leave them alone (the same proofs as the `FrameDirs` family, for two other fields). -/
import HtpModel.Lemmas.Conn
namespace Htp.Conn
open Htp.Gen

/-- `f` leaves the two parser states alone -/
def KeepSt (c c' : Conn) : Prop := c'.inState = c.inState ∧ c'.outState = c.outState

theorem KeepSt.refl (c : Conn) : KeepSt c c := ⟨rfl, rfl⟩
theorem KeepSt.trans {a b c : Conn} (h1 : KeepSt a b) (h2 : KeepSt b c) : KeepSt a c :=
  ⟨h2.1.trans h1.1, h2.2.trans h1.2⟩

theorem keepSt_destroyTx (u : Nat) (c : Conn) : KeepSt c (destroyTx u c) := by
  unfold destroyTx
  exact ⟨rfl, rfl⟩

theorem keepSt_modTx (u : Nat) (f : Tx → Tx) (c : Conn) : KeepSt c (c.modTx u f) := ⟨rfl, rfl⟩
theorem keepSt_setTx (t : Tx) (c : Conn) : KeepSt c (c.setTx t) := ⟨rfl, rfl⟩

theorem keepSt_runCallback (h : Hook) (uid : Option Nat) (data : Option Bytes) (isLast : Bool) (c : Conn) (g : Nat) (s : Bool) :
    KeepSt c (runCallback h uid data isLast c g s).1 := by
  unfold runCallback
  simp only
  cases lookupAction c.policy c.cbCount with
  | ok => exact ⟨rfl, rfl⟩
  | declined => exact ⟨rfl, rfl⟩
  | stop => exact ⟨rfl, rfl⟩
  | error => exact ⟨rfl, rfl⟩
  | destroyTx =>
    simp only
    cases uid.bind c.findTx with
    | none => exact ⟨rfl, rfl⟩
    | some t =>
      simp only
      split
      · exact keepSt_destroyTx _ _
      · exact ⟨rfl, rfl⟩
  | regTxHooks =>
    simp only
    cases uid with
    | none => exact ⟨rfl, rfl⟩
    | some u => exact ⟨rfl, rfl⟩

/-- sequencing with `>>?` preserves the frame -/
theorem keepSt_andThen (c0 : Conn) (r : R) (f : Conn → R) (h1 : KeepSt c0 r.1) (h2 : ∀ c, KeepSt c (f c).1) :
    KeepSt c0 (r >>? f).1 := by
  unfold R.andThen
  split
  · exact h1.trans (h2 r.1)
  · exact h1

theorem keepSt_runCallbackN (n : Nat) (h : Hook) (uid : Option Nat) (data : Option Bytes) (isLast : Bool) (g : Nat) (c : Conn) :
    KeepSt c (runCallbackN n h uid data isLast g c).1 := by
  induction n generalizing c with
  | zero => exact KeepSt.refl c
  | succ k ih =>
    unfold runCallbackN
    exact keepSt_andThen c _ _ (keepSt_runCallback ..) (fun c' => ih c')

theorem keepSt_urlencBodyCallback (cfg : Cfg) (uid : Nat) (data : Option Bytes) (c : Conn) :
    KeepSt c (urlencBodyCallback cfg uid data c).1 := by
  unfold urlencBodyCallback
  cases c.findTx uid with
  | none => exact KeepSt.refl c
  | some t =>
    simp only
    cases t.urlenBody with
    | none => exact KeepSt.refl c
    | some u =>
      simp only
      split
      · exact KeepSt.refl c
      · cases data with
        | some d => exact keepSt_setTx _ _
        | none => exact keepSt_setTx _ _

theorem keepSt_mpartFileEvents (uid : Nat) (evs : List (Nat × Option Bytes)) (c : Conn) :
    KeepSt c (mpartFileEvents uid evs c) := by
  induction evs generalizing c with
  | nil => exact KeepSt.refl c
  | cons e rest ih =>
    obtain ⟨i, d⟩ := e
    unfold mpartFileEvents
    exact (keepSt_runCallback ..).trans (ih _)

theorem keepSt_mpartBodyCallback (uid : Nat) (data : Option Bytes) (c : Conn) :
    KeepSt c (mpartBodyCallback uid data c).1 := by
  unfold mpartBodyCallback
  cases c.findTx uid with
  | none => exact KeepSt.refl c
  | some t =>
    simp only
    cases t.mpart with
    | none => exact KeepSt.refl c
    | some mp =>
      simp only
      split
      · exact KeepSt.refl c
      · cases data with
        | some d => exact (keepSt_setTx _ c).trans (keepSt_mpartFileEvents ..)
        | none => exact (keepSt_setTx _ c).trans (keepSt_mpartFileEvents ..)

theorem keepSt_runTxReqBodyHooks (cfg : Cfg) (uid : Nat) (data : Option Bytes) (isLast : Bool) (g : Nat) (hs : List TxHook) (c : Conn) :
    KeepSt c (runTxReqBodyHooks cfg uid data isLast g hs c).1 := by
  induction hs generalizing c with
  | nil => exact KeepSt.refl c
  | cons h rest ih =>
    unfold runTxReqBodyHooks
    apply keepSt_andThen
    · cases h with
      | user => exact keepSt_runCallback ..
      | urlenc => exact keepSt_urlencBodyCallback ..
      | mpart => exact keepSt_mpartBodyCallback ..
    · intro c'
      exact ih c'

theorem keepSt_reqRunHookBodyDataL (cfg : Cfg) (data : Option Bytes) (g : Nat) (l : Bool) (c : Conn) :
    KeepSt c (reqRunHookBodyDataL cfg data g l c).1 := by
  unfold reqRunHookBodyDataL
  split
  · exact KeepSt.refl c
  · cases c.inn.tx with
    | none => exact KeepSt.refl c
    | some uid =>
      simp only
      apply keepSt_andThen
      · exact keepSt_runTxReqBodyHooks ..
      · intro c2
        apply keepSt_andThen
        · exact keepSt_runCallback ..
        · intro c3
          split
          · exact keepSt_runCallback ..
          · exact KeepSt.refl c3

theorem keepSt_reqRunHookBodyData (cfg : Cfg) (data : Option Bytes) (g : Nat) (c : Conn) :
    KeepSt c (reqRunHookBodyData cfg data g c).1 := by
  unfold reqRunHookBodyData; exact keepSt_reqRunHookBodyDataL ..

theorem keepSt_unsupported (c : Conn) : KeepSt c { c with unsupported := true } := ⟨rfl, rfl⟩
theorem keepSt_zoracle (c : Conn) (zs : List ZRes) : KeepSt c { c with zoracle := zs } := ⟨rfl, rfl⟩

theorem keepSt_resRunHookBodyData (data : Option Bytes) (c : Conn) : KeepSt c (resRunHookBodyData data c).1 := by
  unfold resRunHookBodyData
  split
  · exact KeepSt.refl c
  · cases c.out.tx with
    | none => exact KeepSt.refl c
    | some uid =>
      simp only
      apply keepSt_andThen
      · exact keepSt_runCallbackN ..
      · intro c2; exact keepSt_runCallback ..

theorem keepSt_decFinalCallback (cfg : Cfg) (req : Bool) (uid : Nat) (l : Bool) (data : Option Bytes) (c : Conn) :
    KeepSt c (decFinalCallback cfg req uid l data c).1 := by
  unfold decFinalCallback
  simp only
  cases req with
  | true =>
    simp only [if_true]
    have h := keepSt_reqRunHookBodyDataL cfg data 0 l (c.modTx uid fun t => { t with reqEntityLen := t.reqEntityLen + (data.map (·.length)).getD 0 })
    have h0 := (keepSt_modTx uid (fun t => { t with reqEntityLen := t.reqEntityLen + (data.map (·.length)).getD 0 }) c).trans h
    split
    · exact h0
    · split <;> exact h0
  | false =>
    simp only [Bool.false_eq_true, if_false]
    have h := keepSt_resRunHookBodyData data (c.modTx uid fun t => { t with resEntityLen := t.resEntityLen + (data.map (·.length)).getD 0 })
    have h0 := (keepSt_modTx uid (fun t => { t with resEntityLen := t.resEntityLen + (data.map (·.length)).getD 0 }) c).trans h
    split
    · exact h0
    · split <;> exact h0


/-- the functions of the decompression driver leave both direction records alone (apart from cleared tx references): they only
    touch the oracle, the unsupported marker, and what the callbacks touch -/
theorem keepSt_dec (cfg : Cfg) (req : Bool) (uid : Nat) : ∀ fuel : Nat,
    (∀ l useNext rest data c, KeepSt c (decSend cfg req uid l fuel useNext rest data c).2.1) ∧
    (∀ d drec rest inp c, KeepSt c (decLoop cfg req uid d fuel drec rest inp c).2.1) ∧
    (∀ d drec rest inp c, KeepSt c (decStep cfg req uid d fuel drec rest inp c).2.1) ∧
    (∀ ds data c, KeepSt c (decompress cfg req uid fuel ds data c).2.1) := by
  intro fuel
  induction fuel with
  | zero =>
    refine ⟨?_, ?_, ?_, ?_⟩
    · intro l useNext rest data c; unfold decSend; exact keepSt_unsupported c
    · intro d drec rest inp c; unfold decLoop; exact keepSt_unsupported c
    · intro d drec rest inp c; unfold decStep; exact keepSt_unsupported c
    · intro ds data c; unfold decompress; exact keepSt_unsupported c
  | succ k ih =>
    obtain ⟨ihS, ihL, ihT, ihD⟩ := ih
    refine ⟨?_, ?_, ?_, ?_⟩
    · intro l useNext rest data c
      unfold decSend
      split
      · exact ihD ..
      · exact keepSt_decFinalCallback ..
    · intro d drec rest inp c
      unfold decLoop
      split
      · exact KeepSt.refl c
      · by_cases hfull : (drec.buf.length == GZIP_BUF_SIZE) = true
        · simp only [hfull, if_true]
          rcases hx : decSend cfg req uid false k (drec.kind != 0) rest (some drec.buf) c with ⟨rest1, c1, rc1⟩
          have f1 : KeepSt c c1 := by have := ihS false (drec.kind != 0) rest (some drec.buf) c; rw [hx] at this; exact this
          simp only
          by_cases hrc : (rc1 != Rc.ok) = true
          · simp only [hrc, if_true]; exact f1
          · simp only [hrc, Bool.false_eq_true, if_false]
            exact f1.trans (ihT ..)
        · simp only [hfull, Bool.false_eq_true, if_false]
          exact ihT ..
    · intro d drec rest inp c
      unfold decStep
      split
      · exact keepSt_unsupported c
      split
      · exact KeepSt.refl c
      split
      · exact keepSt_unsupported c
      · rename_i z zs hz
        simp only
        generalize (if ((drec.buf ++ z.produced).length > 0 && z.rc == Z_DATA_ERROR) = true then Z_STREAM_END else z.rc) = rcv
        split
        · -- stream end: the buffer goes out
          rcases hx : decSend cfg req uid false k (drec.kind != 0) rest (some (drec.buf ++ z.produced)) { c with zoracle := zs } with ⟨rest1, c1, rc1⟩
          have f1 : KeepSt c c1 := by
            have := ihS false (drec.kind != 0) rest (some (drec.buf ++ z.produced)) { c with zoracle := zs }
            rw [hx] at this; exact (keepSt_zoracle c zs).trans this
          simp only
          split <;> exact f1
        · split
          · split
            · split
              · exact keepSt_zoracle c zs
              · exact (keepSt_zoracle c zs).trans (ihL ..)
            · rcases hx : decFinalCallback cfg req uid false (some d) { c with zoracle := zs } with ⟨c1, rc1⟩
              have f1 : KeepSt c c1 := by
                have := keepSt_decFinalCallback cfg req uid false (some d) { c with zoracle := zs }
                rw [hx] at this; exact (keepSt_zoracle c zs).trans this
              simp only
              split <;> exact f1
          · exact (keepSt_zoracle c zs).trans (ihL ..)
    · intro ds data c
      unfold decompress
      cases ds with
      | nil => exact KeepSt.refl c
      | cons drec rest =>
        simp only
        split
        · rcases hx : decFinalCallback cfg req uid data.isNone data c with ⟨c1, rc1⟩
          have f1 : KeepSt c c1 := by have := keepSt_decFinalCallback cfg req uid data.isNone data c; rw [hx] at this; exact this
          exact f1
        · cases data with
          | none =>
            simp only
            rcases hx : decSend cfg req uid true k (drec.kind != 0) rest (if drec.buf.length > 0 then some drec.buf else none) c with ⟨rest1, c1, rc1⟩
            have f1 : KeepSt c c1 := by
              have := ihS true (drec.kind != 0) rest (if drec.buf.length > 0 then some drec.buf else none) c; rw [hx] at this; exact this
            simp only
            split <;> exact f1
          | some d => exact ihL ..


/-- body processing leaves both direction records alone - with or without the request decompressor in the way -/
theorem keepSt_reqProcessBodyData (cfg : Cfg) (data : Option Bytes) (g : Nat) (c : Conn) :
    KeepSt c (reqProcessBodyData cfg data g c).1 := by
  unfold reqProcessBodyData
  cases c.inn.tx with
  | none => exact KeepSt.refl c
  | some uid =>
    simp only
    split
    · split
      · exact KeepSt.refl c
      · split
        · exact keepSt_unsupported c
        split
        · exact keepSt_unsupported c
        · rcases hx : decompress cfg true uid (8 * (data.map (·.length)).getD g + 128) c.inDecs data c with ⟨ds, c1, rc1⟩
          have f1 : KeepSt c c1 := by
            have := (keepSt_dec cfg true uid (8 * (data.map (·.length)).getD g + 128)).2.2.2 c.inDecs data c
            rw [hx] at this; exact this
          simp only
          exact f1.trans ⟨rfl, rfl⟩
    · have h := keepSt_reqRunHookBodyData cfg data g
        (c.modTx uid fun t => { t with reqEntityLen := t.reqEntityLen + (data.map (·.length)).getD g })
      split <;> exact (keepSt_modTx _ _ c).trans h


end Htp.Conn
