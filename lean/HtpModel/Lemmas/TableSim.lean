/- Refinement of the table (htp_table.c over htp_list) to an insertion-ordered first-match multimap: helper lemmas for Props/C17. -/
import HtpModel.Lemmas.Cost
namespace Htp.Table
open Htp Htp.Ring

/-- what the lookup loop returns on the slot sequence it walks: the value behind the first key that matches -/
def slotsFind (m : Bytes → Bool) : List Slot → Option Nat
  | [] => none
  | [_] => none
  | s :: v :: rest =>
    match s with
    | .key k => if m k then (match v with | .val x => some x | _ => none) else slotsFind m rest
    | _ => slotsFind m rest

theorem valAt_abs (t : Table) (i : Nat) : valAt t i = (match (Ring.abs t.list)[i]? with | some (.val v) => some v | _ => none) := by
  unfold valAt
  rw [Ring.get_eq]
  cases (Ring.abs t.list)[i]? with
  | none => rfl
  | some s => cases s <;> rfl

theorem getLoop_abs (m : Bytes → Bool) (t : Table) (fuel i : Nat) (hf : (Ring.abs t.list).length ≤ i + 2 * fuel) :
    getLoop m t fuel i = slotsFind m ((Ring.abs t.list).drop i) := by
  induction fuel generalizing i with
  | zero =>
    have : (Ring.abs t.list).drop i = [] := List.drop_of_length_le (by omega)
    simp [getLoop, this, slotsFind]
  | succ k ih =>
    unfold getLoop
    have hsz : Ring.size t.list = (Ring.abs t.list).length := by simp [Ring.size]
    rw [hsz]
    by_cases hlt : i < (Ring.abs t.list).length
    · simp only [hlt, if_true]
      have hd : (Ring.abs t.list).drop i = (Ring.abs t.list)[i] :: (Ring.abs t.list).drop (i + 1) := List.drop_eq_getElem_cons hlt
      have ihh := ih (i + 2) (by omega)
      rw [keyAt_abs, List.getElem?_eq_getElem hlt, hd]
      by_cases hlt2 : i + 1 < (Ring.abs t.list).length
      · have hd2 : (Ring.abs t.list).drop (i + 1) = (Ring.abs t.list)[i + 1] :: (Ring.abs t.list).drop (i + 2) := List.drop_eq_getElem_cons hlt2
        rw [hd2, valAt_abs, List.getElem?_eq_getElem hlt2]
        cases hs : (Ring.abs t.list)[i] with
        | null => simp [slotsFind, ihh]
        | val v => simp [slotsFind, ihh]
        | key kk =>
          simp only [slotsFind]
          split
          · cases (Ring.abs t.list)[i + 1] <;> rfl
          · exact ihh
      · have hd2 : (Ring.abs t.list).drop (i + 1) = [] := List.drop_of_length_le (by omega)
        have hd3 : (Ring.abs t.list).drop (i + 2) = [] := List.drop_of_length_le (by omega)
        have hnone : (Ring.abs t.list)[i + 1]? = none := List.getElem?_eq_none (by omega)
        rw [hd2, valAt_abs, hnone]
        rw [hd3] at ihh
        cases hs : (Ring.abs t.list)[i] with
        | null => simp [slotsFind, ihh]
        | val v => simp [slotsFind, ihh]
        | key kk =>
          simp only [slotsFind]
          split
          · rfl
          · simp [ihh, slotsFind]
    · simp only [hlt, if_false]
      have : (Ring.abs t.list).drop i = [] := List.drop_of_length_le (by omega)
      simp [this, slotsFind]

/-- the insertion-ordered association list a table stands for: first match, in insertion order -/
def assocFind (m : Bytes → Bool) : List (Bytes × Nat) → Option Nat
  | [] => none
  | (k, v) :: rest => if m k then some v else assocFind m rest

def slotsOfPairs : List (Bytes × Nat) → List Slot
  | [] => []
  | (k, v) :: rest => .key k :: .val v :: slotsOfPairs rest

theorem slotsFind_pairs (m : Bytes → Bool) (ps : List (Bytes × Nat)) : slotsFind m (slotsOfPairs ps) = assocFind m ps := by
  induction ps with
  | nil => rfl
  | cons p rest ih =>
    obtain ⟨k, v⟩ := p
    simp only [slotsOfPairs, slotsFind, assocFind]
    split
    · rfl
    · exact ih

structure PInv (t : Table) (ps : List (Bytes × Nat)) : Prop where
  wf : WF t.list
  abs : Ring.abs t.list = slotsOfPairs ps
  alloc : t.alloc = .unknown ∨ t.alloc = .copied

theorem slotsOfPairs_append (a : List (Bytes × Nat)) (k : Bytes) (v : Nat) :
    slotsOfPairs (a ++ [(k, v)]) = slotsOfPairs a ++ [.key k, .val v] := by
  induction a with
  | nil => rfl
  | cons x t ih => obtain ⟨k', v'⟩ := x; simp [slotsOfPairs, ih]

theorem add_pinv (t : Table) (ps : List (Bytes × Nat)) (k : Bytes) (v : Nat) (hi : PInv t ps) :
    PInv (add t k v).1 (ps ++ [(k, v)]) ∧ (add t k v).2 = true := by
  have key : ∀ t' : Table, WF t'.list → Ring.abs t'.list = slotsOfPairs ps → (t'.alloc = .unknown ∨ t'.alloc = .copied) →
      PInv (rawAdd t' k v) (ps ++ [(k, v)]) := by
    intro t' w a al
    refine ⟨push_wf _ (push_wf _ w _) _, ?_, al⟩
    show Ring.abs (Ring.push (Ring.push t'.list (.key k)) (.val v)) = _
    rw [abs_push _ (push_wf _ w _), abs_push _ w, a, slotsOfPairs_append]; simp
  unfold add addWith
  rcases hi.alloc with h | h
  · simp only [h, if_true]
    exact ⟨key { t with alloc := .copied } hi.wf hi.abs (Or.inr rfl), trivial⟩
  · simp only [h]
    exact ⟨key t hi.wf hi.abs (Or.inr h), by simp⟩

theorem get_pinv (t : Table) (ps : List (Bytes × Nat)) (key : Bytes) (hi : PInv t ps) :
    get t key = assocFind (fun k => Bstr.cmpMemNocase k key == 0) ps := by
  unfold get
  rw [getLoop_abs _ t _ 0 (by simp [Ring.size]; omega), List.drop_zero, hi.abs, slotsFind_pairs]

theorem getC_pinv (t : Table) (ps : List (Bytes × Nat)) (key : Bytes) (hi : PInv t ps) :
    getC t key = assocFind (fun k => Bstr.cmpMemNocaseNorzero k key == 0) ps := by
  unfold getC
  rw [getLoop_abs _ t _ 0 (by simp [Ring.size]; omega), List.drop_zero, hi.abs, slotsFind_pairs]

theorem slotsOfPairs_length (ps : List (Bytes × Nat)) : (slotsOfPairs ps).length = 2 * ps.length := by
  induction ps with
  | nil => rfl
  | cons p t ih => obtain ⟨k, v⟩ := p; simp [slotsOfPairs, ih]; omega

theorem size_pinv (t : Table) (ps : List (Bytes × Nat)) (hi : PInv t ps) : size t = ps.length := by
  unfold size
  have : Ring.size t.list = (Ring.abs t.list).length := by simp [Ring.size]
  rw [this, hi.abs, slotsOfPairs_length]; omega

theorem create_pinv (cap : Nat) (hc : 0 < cap) : PInv (Table.create cap) [] := by
  refine ⟨create_wf _ (by omega), ?_, Or.inl rfl⟩
  apply List.eq_nil_of_length_eq_zero
  simp [Table.create, Ring.create]

end Htp.Table
