/- The two per-call facts about tunnel mode (the statements of C16_tunnel_req / C16_tunnel_res), in a lemma file so that the history
   theorems can use them without importing the property file. -/
import HtpModel.Lemmas.Conn

namespace Htp.Conn
open Htp.Conn Htp.Gen

/-- **C16 (tunnel mode is absorbing and silent, request direction)**: once the request direction is in TUNNEL, a data call with any
    bytes returns TUNNEL, runs no callback, creates no transaction and changes no transaction; only the byte counter and the
    chunk bookkeeping advance. -/
theorem tunnel_req_call (cfg : Cfg) (c : Conn) (d : Bytes) (hlen : 0 < d.length)
    (ht : c.inn.status = STREAM_TUNNEL) (hg : c.inn.tx.isSome = true ∨ c.inState = .idle) :
    (reqData cfg (some d) d.length c).2 = STREAM_TUNNEL ∧ (reqData cfg (some d) d.length c).1.events = c.events ∧
    (reqData cfg (some d) d.length c).1.txs = c.txs ∧ (reqData cfg (some d) d.length c).1.inn.status = STREAM_TUNNEL ∧
    (reqData cfg (some d) d.length c).1.inDataCounter = c.inDataCounter + d.length := by
  have h1 : STREAM_TUNNEL ≠ STREAM_STOP := by decide
  have h2 : STREAM_TUNNEL ≠ STREAM_ERROR := by decide
  have h3 : STREAM_TUNNEL ≠ STREAM_CLOSED := by decide
  have hl : d.length ≠ 0 := by omega
  have hguard : (c.inn.tx.isNone && c.inState != ReqState.idle) = false := by
    rcases hg with h | h
    · cases hx : c.inn.tx <;> simp_all
    · simp [h]
  have hstored : (reqStoreChunk (some d) d.length c).inn.status = STREAM_TUNNEL := by simp [reqStoreChunk, ht]
  simp [reqData, reqDataCore, ht, h1, h2, h3, hl, hguard, hstored]
  simp [reqStoreChunk]

theorem tunnel_res_call (cfg : Cfg) (c : Conn) (d : Bytes) (hlen : 0 < d.length)
    (ht : c.out.status = STREAM_TUNNEL) (hg : c.out.tx.isSome = true ∨ c.outState = .idle) :
    (resData cfg (some d) d.length c).2 = STREAM_TUNNEL ∧ (resData cfg (some d) d.length c).1.events = c.events ∧
    (resData cfg (some d) d.length c).1.txs = c.txs ∧ (resData cfg (some d) d.length c).1.out.status = STREAM_TUNNEL ∧
    (resData cfg (some d) d.length c).1.outDataCounter = c.outDataCounter + d.length := by
  have h1 : STREAM_TUNNEL ≠ STREAM_STOP := by decide
  have h2 : STREAM_TUNNEL ≠ STREAM_ERROR := by decide
  have h3 : STREAM_TUNNEL ≠ STREAM_CLOSED := by decide
  have hl : d.length ≠ 0 := by omega
  have hguard : (c.out.tx.isNone && c.outState != ResState.idle) = false := by
    rcases hg with h | h
    · cases hx : c.out.tx <;> simp_all
    · simp [h]
  have hstored : (resStoreChunk (some d) d.length c).out.status = STREAM_TUNNEL := by simp [resStoreChunk, ht]
  simp [resData, resDataCore, ht, h1, h2, h3, hl, hguard, hstored]
  simp [resStoreChunk]


end Htp.Conn
