/- Who writes the two stream statuses. `KeepU c c'`: both `inn.status` and `out.status` are the same in `c'` as in `c`. Every function below the
   two drivers keeps both, except four: `reqConnectCheck` (request: DATA_OTHER), the tunnel branch of `reqConnectProbeLoop` (both: TUNNEL, a
   response status ERROR / STOP stays), `resRefusedConnect` (request: DATA unless ERROR / STOP) and `resSwitchTunnel` (both: TUNNEL, a request
   status ERROR / STOP stays). The proofs follow the `KeepOV` / `KeepIV` families of Lemmas/HistoryFrames.lean function by function; where those
   are closed by `rfl` because the function touches the other direction's record only, here the cursor primitives' status lemmas step in
   (`ku`). Used by Lemmas/HistoryTunnel.lean for `TunnelPair`. -/
import HtpModel.Lemmas.HistoryFrames
namespace Htp.Conn
open Htp Htp.Gen

/-- the two stream statuses -/
@[reducible] def SView (c : Conn) : Nat × Nat := (c.inn.status, c.out.status)

/-- `f` leaves both stream statuses alone -/
@[reducible] def KeepU (c c' : Conn) : Prop := SView c' = SView c

theorem KeepU.refl (c : Conn) : KeepU c c := rfl
theorem KeepU.trans {a b c : Conn} (h1 : KeepU a b) (h2 : KeepU b c) : KeepU a c := Eq.trans h2 h1
theorem KeepU.inn {c c' : Conn} (h : KeepU c c') : c'.inn.status = c.inn.status := congrArg (·.1) h
theorem KeepU.out {c c' : Conn} (h : KeepU c c') : c'.out.status = c.out.status := congrArg (·.2) h

theorem keepU_of_frame {c c' : Conn} (h : FrameDirs c c') (_k : KeepSt c c') : KeepU c c' := by
  have h1 : c'.inn.status = c.inn.status := congrArg (·.status) h.1
  have h2 : c'.out.status = c.out.status := congrArg (·.status) h.2
  show (c'.inn.status, c'.out.status) = (c.inn.status, c.out.status)
  rw [h1, h2]

theorem keepU_inn {c : Conn} {d : Dir} (h : d.status = c.inn.status) : KeepU c { c with inn := d } := by
  show (d.status, c.out.status) = (c.inn.status, c.out.status)
  rw [h]
theorem keepU_out {c : Conn} {d : Dir} (h : d.status = c.out.status) : KeepU c { c with out := d } := by
  show (c.inn.status, d.status) = (c.inn.status, c.out.status)
  rw [h]

/-! ### the cursor primitives keep the status of their record -/

theorem Dir.copyByte_st {d d' : Dir} {b : UInt8} (h : d.copyByte = some (d', b)) : d'.status = d.status := by
  unfold Dir.copyByte at h
  split at h
  · split at h <;> (simp only [Option.some.injEq, Prod.mk.injEq] at h; obtain ⟨h1, _⟩ := h; subst h1; rfl)
  · simp at h

theorem Dir.nextByteConsume_st {d d' : Dir} {b : UInt8} (h : d.nextByteConsume = some (d', b)) : d'.status = d.status := by
  unfold Dir.nextByteConsume at h
  cases hc : d.copyByte with
  | none => rw [hc] at h; simp at h
  | some p =>
    obtain ⟨d1, b1⟩ := p
    rw [hc] at h
    simp only [Option.some.injEq, Prod.mk.injEq] at h
    obtain ⟨h1, _⟩ := h
    rw [← h1]
    exact (Dir.copyByte_st hc : d1.status = d.status)

theorem Dir.buffer_st {d d' : Dir} {hard : Nat} {skip : Bool} (h : d.buffer hard skip = some d') : d'.status = d.status := by
  unfold Dir.buffer at h
  split at h
  · simp at h; subst h; rfl
  · simp only at h
    split at h
    · simp at h; subst h; rfl
    · split at h
      · simp at h
      · simp at h; subst h; rfl

theorem Dir.consolidate_st {d d' : Dir} {hard : Nat} {skip : Bool} {data : Bytes} (h : d.consolidate hard skip = some (d', data)) :
    d'.status = d.status := by
  unfold Dir.consolidate at h
  split at h
  · simp only [Option.some.injEq, Prod.mk.injEq] at h; rw [← h.1]
  · cases hb : d.buffer hard skip with
    | none => rw [hb] at h; simp at h
    | some d1 =>
      rw [hb] at h
      simp only [Option.some.injEq, Prod.mk.injEq] at h
      rw [← h.1]; exact Dir.buffer_st hb

theorem reqFinalizeScan_st (fuel : Nat) {d d' : Dir} (h : reqFinalizeScan fuel d = some d') : d'.status = d.status := by
  induction fuel generalizing d with
  | zero => unfold reqFinalizeScan at h; simp at h; subst h; rfl
  | succ k ih =>
    unfold reqFinalizeScan at h
    simp only at h
    split at h
    · simp only [Option.some.injEq] at h; subst h; rfl
    · cases hc : (d.peekSet).1.copyByte with
      | none => rw [hc] at h; simp at h
      | some p =>
        obtain ⟨d1, b1⟩ := p
        rw [hc] at h
        exact (ih h).trans (Dir.copyByte_st hc)

theorem resFinalizeScan_st (fuel : Nat) {d d' : Dir} (h : resFinalizeScan fuel d = some d') : d'.status = d.status := by
  induction fuel generalizing d with
  | zero => unfold resFinalizeScan at h; simp at h; subst h; rfl
  | succ k ih =>
    unfold resFinalizeScan at h
    cases hc : d.copyByte with
    | none => rw [hc] at h; simp at h
    | some p =>
      obtain ⟨d1, b1⟩ := p
      rw [hc] at h
      simp only at h
      split at h
      · simp only [Option.some.injEq] at h; subst h; exact Dir.copyByte_st hc
      · exact (ih h).trans (Dir.copyByte_st hc)

/-- the status of a record that came out of a cursor primitive -/
macro "dst" : tactic => `(tactic| first
  | rfl
  | (have hh := Dir.copyByte_st (by assumption); exact hh.trans rfl)
  | (have hh := Dir.consolidate_st (by assumption); exact hh.trans rfl)
  | (have hh := Dir.nextByteConsume_st (by assumption); exact hh.trans rfl)
  | (have hh := Dir.buffer_st (by assumption); exact hh.trans rfl)
  | (have hh := Dir.consolidate_st (by assumption); have hh2 := Dir.copyByte_st (by assumption); exact (hh.trans hh2).trans rfl))

/-- one link of `cbchain` -/
macro "cblink" : tactic => `(tactic| (refine Eq.trans (Dir.copyByte_st (by assumption)) ?_; try dsimp only [Dir.peekSet]))

/-- the status after a chain of up to three IN_COPY_BYTE steps (with peeks and consume bumps in between) -/
macro "cbchain" : tactic => `(tactic|
  (try dsimp only [Dir.peekSet]
   first
   | done
   | rfl
   | (cblink; first | done | rfl)
   | (cblink; cblink; first | done | rfl)
   | (cblink; cblink; cblink; first | done | rfl)))

macro "fscan" : tactic => `(tactic| first
  | exact rfl
  | (have hh := reqFinalizeScan_st _ (by assumption); exact keepU_inn (hh.trans rfl))
  | (have hh := resFinalizeScan_st _ (by assumption); exact keepU_out (hh.trans rfl)))

/-- a step that replaces one direction's record by one with the same status (or does not touch the statuses at all) -/
macro "ku" : tactic => `(tactic| first
  | exact rfl
  | exact keepU_inn (by dst)
  | exact keepU_out (by dst))


theorem keepU_andThen (c0 : Conn) (r : R) (f : Conn → R) (h1 : KeepU c0 r.1) (h2 : ∀ c, KeepU c (f c).1) :
    KeepU c0 (r >>? f).1 := by
  unfold R.andThen
  split
  · exact h1.trans (h2 _)
  · exact h1

theorem keepU_runCallback (h : Hook) (uid : Option Nat) (data : Option Bytes) (l : Bool) (c : Conn) (g : Nat) (s : Bool) :
    KeepU c (runCallback h uid data l c g s).1 := keepU_of_frame (frame_runCallback ..) (keepSt_runCallback ..)

theorem keepU_modTx (u : Nat) (f : Tx → Tx) (c : Conn) : KeepU c (c.modTx u f) := by ku
theorem keepU_modIn (f : Tx → Tx) (c : Conn) : KeepU c (c.modIn f) := by
  unfold Conn.modIn
  split <;> ku

theorem keepU_reqReceiverSend (l : Bool) (c : Conn) : KeepU c (reqReceiverSend l c).1 := by
  unfold reqReceiverSend
  cases c.inn.receiverHook with
  | none => exact KeepU.refl c
  | some h =>
    simp only
    apply keepU_andThen
    · exact keepU_runCallback ..
    · intro c2; ku

theorem keepU_reqReceiverFinalizeClear (c : Conn) : KeepU c (reqReceiverFinalizeClear c).1 := by
  unfold reqReceiverFinalizeClear
  cases c.inn.receiverHook with
  | none => exact KeepU.refl c
  | some h =>
    simp only
    exact (keepU_reqReceiverSend true c).trans (by ku)

theorem keepU_reqReceiverSet (h : Hook) (c : Conn) : KeepU c (reqReceiverSet h c).1 := by
  unfold reqReceiverSet
  simp only
  exact (keepU_reqReceiverFinalizeClear c).trans (by ku)

theorem keepU_reqProcessBodyData (cfg : Cfg) (data : Option Bytes) (g : Nat) (c : Conn) :
    KeepU c (reqProcessBodyData cfg data g c).1 := keepU_of_frame (frame_reqProcessBodyData ..) (keepSt_reqProcessBodyData ..)

theorem keepU_txFinalize (cfg : Cfg) (uid : Nat) (c : Conn) : KeepU c (txFinalize cfg uid c).1 := by
  unfold txFinalize
  cases c.findTx uid with
  | none => exact KeepU.refl c
  | some t =>
    simp only
    split
    · exact KeepU.refl c
    · apply keepU_andThen
      · exact keepU_runCallback ..
      · intro c1
        split
        · split
          · exact keepU_of_frame (frame_destroyTx ..) (keepSt_destroyTx ..)
          · exact KeepU.refl _
        · exact KeepU.refl _

theorem keepU_txStateRequestCompletePartial (cfg : Cfg) (uid : Nat) (c : Conn) : KeepU c (txStateRequestCompletePartial cfg uid c).1 := by
  unfold txStateRequestCompletePartial
  simp only
  apply keepU_andThen
  · split
    · exact keepU_reqProcessBodyData ..
    · exact KeepU.refl c
  · intro c1
    apply keepU_andThen
    · exact (keepU_modTx _ _ c1).trans (keepU_runCallback ..)
    · intro c2
      apply keepU_andThen
      · exact keepU_reqReceiverFinalizeClear c2
      · intro c3; ku

theorem keepU_txStateRequestComplete (cfg : Cfg) (uid : Nat) (c : Conn) : KeepU c (txStateRequestComplete cfg uid c).1 := by
  unfold txStateRequestComplete
  simp only
  apply keepU_andThen
  · split
    · exact keepU_txStateRequestCompletePartial ..
    · exact KeepU.refl c
  · intro c1
    have h := keepU_txFinalize cfg uid { c1 with inState := if ((c1.findTx uid).map (·.is09)).getD ((c.findTx uid).getD { uid := uid }).is09 then .ignoreDataAfter09 else .idle }
    exact (KeepU.trans (by ku) h).trans (by ku)

theorem keepU_txStateRequestStart (uid : Nat) (c : Conn) : KeepU c (txStateRequestStart uid c).1 := by
  unfold txStateRequestStart
  apply keepU_andThen
  · exact keepU_runCallback ..
  · intro c1
    exact KeepU.trans (b := { c1 with inState := .line }) (by ku) (keepU_modIn _ _)

theorem keepU_processRequestHeader (data : Bytes) (c : Conn) : KeepU c (processRequestHeader data c).1 := by
  unfold processRequestHeader
  simp only
  exact (keepU_modIn _ c).trans (keepU_modIn _ _)

theorem keepU_reqFlushHeader (c : Conn) : KeepU c (reqFlushHeader c).1 := by
  unfold reqFlushHeader
  cases c.inn.header with
  | none => exact KeepU.refl c
  | some h =>
    simp only
    have := keepU_processRequestHeader h c
    split
    · exact this
    · exact this.trans (by ku)

theorem keepU_setTx (t : Tx) (c : Conn) : KeepU c (c.setTx t) := by ku

theorem keepU_installUrlenc (cfg : Cfg) (uid : Nat) (t : Tx) (c : Conn) : KeepU c (installUrlenc cfg uid t c) := by
  unfold installUrlenc
  simp only []
  repeat' split
  all_goals first | exact KeepU.refl _ | exact keepU_setTx _ _

theorem keepU_installMpart (cfg : Cfg) (uid : Nat) (t : Tx) (c : Conn) : KeepU c (installMpart cfg uid t c) := by
  unfold installMpart
  simp only []
  repeat' split
  all_goals first | exact KeepU.refl _ | exact keepU_setTx _ _

theorem keepU_txProcessRequestHeadersTail (cfg : Cfg) (uid : Nat) (t : Tx) (ae : Bool) (c : Conn) :
    KeepU c (txProcessRequestHeadersTail cfg uid t ae c).1 := by
  unfold txProcessRequestHeadersTail
  split
  · exact KeepU.refl c
  · apply keepU_andThen
    · exact keepU_reqReceiverFinalizeClear _
    · intro c1
      exact ((keepU_installUrlenc cfg uid t c1).trans (keepU_installMpart ..)).trans (keepU_runCallback ..)

theorem keepU_txProcessRequestHeaders (cfg : Cfg) (uid : Nat) (c : Conn) : KeepU c (txProcessRequestHeaders cfg uid c).1 := by
  unfold txProcessRequestHeaders
  extract_lets t0 ce enc c2 t1 c1 fr t2 hasBody c0 un
  have k2 : KeepU c c2 := keepU_modTx ..
  have k1 : KeepU c2 c1 := by
    simp only [c1]
    split
    · ku
    · exact KeepU.refl _
  have k0 : KeepU c1 c0 := by
    simp only [c0]
    split
    · ku
    · exact KeepU.refl _
  have k := (k2.trans k1).trans k0
  clear_value c0
  repeat' split
  all_goals exact k.trans ((keepU_setTx _ _).trans (keepU_txProcessRequestHeadersTail ..))

theorem keepU_txStateRequestHeaders (cfg : Cfg) (uid : Nat) (c : Conn) : KeepU c (txStateRequestHeaders cfg uid c).1 := by
  unfold txStateRequestHeaders
  simp only
  split
  · apply keepU_andThen
    · exact keepU_runCallback ..
    · intro c1
      apply keepU_andThen
      · exact keepU_reqReceiverFinalizeClear _
      · intro c2; ku
  · split
    · apply keepU_andThen
      · refine KeepU.trans ?_ (keepU_txProcessRequestHeaders ..)
        split
        · exact keepU_modTx ..
        · exact KeepU.refl _
      · intro c1; ku
    · exact KeepU.refl _

theorem keepU_urlencQueryCallback (cfg : Cfg) (uid : Nat) (c : Conn) : KeepU c (urlencQueryCallback cfg uid c) := by
  unfold urlencQueryCallback
  simp only []
  repeat' split
  all_goals first | exact KeepU.refl _ | exact keepU_setTx _ _

theorem keepU_txStateRequestLine (cfg : Cfg) (uid : Nat) (c : Conn) : KeepU c (txStateRequestLine cfg uid c).1 := by
  unfold txStateRequestLine
  extract_lets t0 hp fl1 fl2 src t1 t2 t3 c1
  split
  · exact KeepU.refl c
  · have k1 : KeepU c c1 := keepU_setTx ..
    clear_value c1
    apply keepU_andThen
    · exact k1.trans (keepU_runCallback ..)
    · intro c2
      apply keepU_andThen
      · refine KeepU.trans ?_ (keepU_runCallback ..)
        split
        · exact keepU_urlencQueryCallback ..
        · exact KeepU.refl _
      · intro c3; ku

theorem keepU_txCreate (cfg : Cfg) (c : Conn) : KeepU c (txCreate cfg c).1 := by
  unfold txCreate
  simp only []
  split <;> ku



/-! ### the fourteen request state functions -/

theorem keepU_reqIdle (cfg : Cfg) (c : Conn) : KeepU c (reqIdle cfg c).1 := by
  unfold reqIdle
  split
  · ku
  · have k := keepU_txCreate cfg c
    rcases hx : txCreate cfg c with ⟨c1, u⟩
    rw [hx] at k
    simp only at k ⊢
    cases u with
    | none => exact k.trans (by ku)
    | some uid =>
      simp only
      exact k.trans (keepU_txStateRequestStart uid c1)

theorem keepU_reqLineComplete (cfg : Cfg) (c : Conn) : KeepU c (reqLineComplete cfg c).1 := by
  unfold reqLineComplete
  cases hc : c.inn.consolidate cfg.fieldLimitHard true with
  | none => ku
  | some p =>
    obtain ⟨d, data⟩ := p
    simp -zeta only
    extract_lets c0 ci line rl c1
    have k0 : KeepU c c0 := by ku
    have ki : KeepU c ci := k0.trans (keepU_modIn _ c0)
    have k1 : KeepU c c1 := k0.trans (keepU_modIn _ c0)
    clear_value c0 ci c1
    split
    · exact k0.trans (by ku)
    · split
      · exact ki.trans (by ku)
      · cases c1.inn.tx with
        | none => exact k1
        | some uid =>
          simp only
          have k2 := k1.trans (keepU_txStateRequestLine cfg uid c1)
          split
          · exact k2
          · exact k2.trans (by ku)

theorem keepU_reqLineLoop (cfg : Cfg) (fuel : Nat) (c : Conn) : KeepU c (reqLineLoop cfg fuel c).1 := by
  induction fuel generalizing c with
  | zero => unfold reqLineLoop; ku
  | succ k ih =>
    unfold reqLineLoop
    simp only
    split
    · exact KeepU.trans (b := { c with inn := (c.inn.peekSet).1 }) (by ku) (keepU_reqLineComplete cfg _)
    · cases hn : (c.inn.peekSet).1.copyByte with
      | none => ku
      | some p =>
        obtain ⟨d, b⟩ := p
        simp only
        split
        · exact KeepU.trans (b := { c with inn := d }) (by ku) (keepU_reqLineComplete cfg _)
        · exact KeepU.trans (b := { c with inn := d }) (by ku) (ih _)

theorem keepU_reqProtocol (c : Conn) : KeepU c (reqProtocol c).1 := by
  unfold reqProtocol
  simp only []
  repeat' split
  all_goals first
    | ku
    | exact KeepU.trans (b := { c with inState := .headers }) (by ku) (keepU_modIn _ _)
    | exact (KeepU.trans (b := { c with inState := .headers }) (by ku) (keepU_modIn _ _)).trans (keepU_modIn _ _)

theorem keepU_reqHeadersLoop (cfg : Cfg) (fuel : Nat) (c : Conn) : KeepU c (reqHeadersLoop cfg fuel c).1 := by
  induction fuel generalizing c with
  | zero => unfold reqHeadersLoop; ku
  | succ k ih =>
    unfold reqHeadersLoop
    cases c.inn.tx with
    | none => ku
    | some uid =>
      simp only
      split
      · apply keepU_andThen
        · exact keepU_reqFlushHeader c
        · intro c1
          exact (KeepU.trans (b := { c1 with inn := c1.inn.clearBuffer }) (by ku) (keepU_modIn _ _)).trans (keepU_txStateRequestHeaders ..)
      · cases hn : c.inn.copyByte with
        | none => ku
        | some p =>
          obtain ⟨d, b⟩ := p
          simp only
          split
          · exact KeepU.trans (b := { c with inn := d }) (by ku) (ih _)
          · cases hc : d.consolidate cfg.fieldLimitHard true with
            | none => ku
            | some q =>
              obtain ⟨d2, data⟩ := q
              simp only
              refine KeepU.trans (b := { c with inn := d2 }) (by ku) ?_
              split
              · apply keepU_andThen
                · exact keepU_reqFlushHeader _
                · intro c1
                  exact KeepU.trans (b := { c1 with inn := c1.inn.clearBuffer }) (by ku) (keepU_txStateRequestHeaders ..)
              · apply keepU_andThen
                · split
                  · apply keepU_andThen
                    · exact keepU_reqFlushHeader _
                    · intro c1
                      split
                      · split
                        · have kk := keepU_processRequestHeader (Parse.chomp data).1 { c1 with inn := (c1.inn.peekSet).1 }
                          split
                          · exact KeepU.trans (b := { c1 with inn := (c1.inn.peekSet).1 }) (by ku) kk
                          · exact KeepU.trans (b := { c1 with inn := (c1.inn.peekSet).1 }) (by ku) kk
                        · ku
                      · ku
                  · split
                    · exact (keepU_modIn _ { c with inn := d2 }).trans (by ku)
                    · split
                      · ku
                      · ku
                · intro c1
                  exact KeepU.trans (b := { c1 with inn := c1.inn.clearBuffer }) (by ku) (ih _)

theorem keepU_reqBodyIdentity (cfg : Cfg) (c : Conn) : KeepU c (reqBodyIdentity cfg c).1 := by
  unfold reqBodyIdentity
  extract_lets avail n data
  clear_value n data
  split
  · ku
  · have k := keepU_reqProcessBodyData cfg data (if c.inn.curNull then n.toNat else 0) c
    rcases hx : reqProcessBodyData cfg data (if c.inn.curNull then n.toNat else 0) c with ⟨c1, rc1⟩
    rw [hx] at k
    simp only at k ⊢
    split
    · exact k
    · have k2 : KeepU c ({ c1 with inn := { c1.inn.advance n with bodyDataLeft := c1.inn.bodyDataLeft - n } }.modIn
          (fun t => { t with reqMessageLen := t.reqMessageLen + n.toNat })) :=
        k.trans (KeepU.trans (b := { c1 with inn := { c1.inn.advance n with bodyDataLeft := c1.inn.bodyDataLeft - n } }) (by ku) (keepU_modIn _ _))
      split
      · exact k2.trans (by ku)
      · exact k2

theorem keepU_reqChunkedDataEndLoop (fuel : Nat) (c : Conn) : KeepU c (reqChunkedDataEndLoop fuel c).1 := by
  induction fuel generalizing c with
  | zero => unfold reqChunkedDataEndLoop; ku
  | succ k ih =>
    unfold reqChunkedDataEndLoop
    cases hn : c.inn.nextByteConsume with
    | none => ku
    | some p =>
      obtain ⟨d, b⟩ := p
      simp only
      have k1 : KeepU c ({ c with inn := d }.modIn (fun t => { t with reqMessageLen := t.reqMessageLen + 1 })) :=
        KeepU.trans (b := { c with inn := d }) (by ku) (keepU_modIn _ _)
      split
      · exact k1.trans (by ku)
      · exact k1.trans (ih _)

theorem keepU_reqBodyChunkedData (cfg : Cfg) (c : Conn) : KeepU c (reqBodyChunkedData cfg c).1 := by
  unfold reqBodyChunkedData
  extract_lets avail n data
  clear_value n data
  split
  · ku
  · have k := keepU_reqProcessBodyData cfg (some data) 0 c
    rcases hx : reqProcessBodyData cfg (some data) 0 c with ⟨c1, rc1⟩
    rw [hx] at k
    simp only at k ⊢
    split
    · exact k
    · have k2 : KeepU c ({ c1 with inn := { c1.inn.advance n with chunkedLength := c1.inn.chunkedLength - n } }.modIn
          (fun t => { t with reqMessageLen := t.reqMessageLen + n.toNat })) :=
        k.trans (KeepU.trans (b := { c1 with inn := { c1.inn.advance n with chunkedLength := c1.inn.chunkedLength - n } }) (by ku) (keepU_modIn _ _))
      split
      · exact k2.trans (by ku)
      · exact k2

theorem keepU_reqChunkedLengthLoop (cfg : Cfg) (fuel : Nat) (c : Conn) : KeepU c (reqChunkedLengthLoop cfg fuel c).1 := by
  induction fuel generalizing c with
  | zero => unfold reqChunkedLengthLoop; ku
  | succ k ih =>
    unfold reqChunkedLengthLoop
    cases hn : c.inn.copyByte with
    | none => ku
    | some p =>
      obtain ⟨d, b⟩ := p
      simp -zeta only
      extract_lets c0
      have h0 : KeepU c c0 := by ku
      clear_value c0
      split
      · exact h0.trans (ih _)
      · cases hc : c0.inn.consolidate cfg.fieldLimitHard true with
        | none => exact h0
        | some q =>
          obtain ⟨d2, data⟩ := q
          simp -zeta only
          extract_lets c1 line src c2
          have h1 : KeepU c c1 := h0.trans (KeepU.trans (b := { c0 with inn := d2 }) (by ku) (keepU_modIn _ _))
          have h2 : KeepU c c2 := h1.trans (by ku)
          clear_value c2 c1
          split
          · exact h2.trans (by ku)
          · split
            · exact h2.trans (KeepU.trans (b := { c2 with inState := .headers }) (by ku) (keepU_modIn _ _))
            · exact h2

theorem keepU_reqIgnore (c : Conn) : KeepU c (reqIgnoreDataAfter09 c).1 := by
  unfold reqIgnoreDataAfter09
  simp only []
  split <;> ku

theorem keepU_reqFinalize (cfg : Cfg) (c : Conn) : KeepU c (reqFinalize cfg c).1 := by
  unfold reqFinalize
  cases c.inn.tx with
  | none => ku
  | some uid =>
    simp -zeta only
    extract_lets cp pre
    have hp : ∀ c' b, pre = some (c', b) → KeepU c c' := by
      intro c' b hpre
      simp only [pre] at hpre
      split at hpre
      · split at hpre
        · simp only [Option.some.injEq, Prod.mk.injEq] at hpre; obtain ⟨e, _⟩ := hpre; subst e; fscan
        · split at hpre
          · split at hpre
            · simp at hpre
            · simp only [Option.some.injEq, Prod.mk.injEq] at hpre; obtain ⟨e, _⟩ := hpre; subst e; fscan
          · simp only [Option.some.injEq, Prod.mk.injEq] at hpre; obtain ⟨e, _⟩ := hpre; subst e; fscan
      · simp only [Option.some.injEq, Prod.mk.injEq] at hpre; obtain ⟨e, _⟩ := hpre; subst e; fscan
    clear_value pre
    split
    · ku
    · rename_i _ c1
      exact (hp _ _ rfl).trans (keepU_txStateRequestComplete ..)
    · rename_i _ c1
      have h1 := hp _ _ rfl
      clear hp
      cases hc : c1.inn.consolidate cfg.fieldLimitHard true with
      | none => exact h1
      | some q =>
        obtain ⟨d2, data⟩ := q
        simp -zeta only
        extract_lets c2
        have h2 : KeepU c c2 := h1.trans (by ku)
        clear_value c2
        split
        · exact h2.trans (keepU_txStateRequestComplete ..)
        · rename_i src go _
          have hgo : ∀ c', go = some c' → KeepU c c' := by
            intro c' hg
            simp only [go] at hg
            split at hg
            · split at hg
              · simp at hg
              · simp only [Option.some.injEq] at hg
                rw [← hg]
                split
                · exact h2
                · exact h2.trans (by ku)
            · simp only [Option.some.injEq] at hg; rw [← hg]; exact h2
          clear_value go
          split
          · exact KeepU.trans (h2.trans (c := { c2 with inn := { c2.inn with bodyDataLeft := -1 } }) (by ku)) (keepU_txStateRequestComplete ..)
          · rename_i c3
            have h3 := hgo _ rfl
            clear hgo
            extract_lets r
            have hr : ∀ c' dd, r = some (c', dd) → KeepU c c' := by
              intro c' dd hh
              simp only [r] at hh
              split at hh
              · cases hcb : c3.inn.copyByte with
                | none => rw [hcb] at hh; simp at hh
                | some p =>
                  obtain ⟨d4, b4⟩ := p
                  rw [hcb] at hh
                  simp only at hh
                  cases hc4 : d4.consolidate cfg.fieldLimitHard true with
                  | none =>
                    rw [hc4] at hh
                    simp only [Option.some.injEq, Prod.mk.injEq] at hh
                    rw [← hh.1]; exact h3.trans (by ku)
                  | some q4 =>
                    obtain ⟨d5, data5⟩ := q4
                    rw [hc4] at hh
                    simp only [Option.some.injEq, Prod.mk.injEq] at hh
                    rw [← hh.1]; exact h3.trans (by ku)
              · simp only [Option.some.injEq, Prod.mk.injEq] at hh; rw [← hh.1]; exact h3
            clear_value r
            split
            · exact h3
            · rename_i c6 data6
              have h6 := hr _ _ rfl
              have k := keepU_reqProcessBodyData cfg (some data6) 0 c6
              rcases hx : reqProcessBodyData cfg (some data6) 0 c6 with ⟨c7, rc7⟩
              rw [hx] at k
              simp only at k ⊢
              exact (h6.trans k).trans (by ku)

theorem keepU_reqHandleStateChange (c : Conn) : KeepU c (reqHandleStateChange c).1 := by
  unfold reqHandleStateChange
  split
  · ku
  · simp only
    apply keepU_andThen
    · repeat' split
      all_goals first | exact KeepU.refl c | exact keepU_reqReceiverSet _ c
    · intro c1; ku


/-! ### the response-direction functions -/

theorem keepU_runCallbackN (n : Nat) (h : Hook) (uid : Option Nat) (data : Option Bytes) (l : Bool) (g : Nat) (c : Conn) :
    KeepU c (runCallbackN n h uid data l g c).1 := keepU_of_frame (frame_runCallbackN ..) (keepSt_runCallbackN ..)

theorem keepU_modOut (f : Tx → Tx) (c : Conn) : KeepU c (c.modOut f) := by
  unfold Conn.modOut
  split <;> ku

theorem keepU_resReceiverSend (l : Bool) (c : Conn) : KeepU c (resReceiverSend l c).1 := by
  unfold resReceiverSend
  cases c.out.receiverHook with
  | none => exact KeepU.refl c
  | some h =>
    simp only
    apply keepU_andThen
    · exact keepU_runCallback ..
    · intro c2; ku

theorem keepU_resReceiverFinalizeClear (c : Conn) : KeepU c (resReceiverFinalizeClear c).1 := by
  unfold resReceiverFinalizeClear
  cases c.out.receiverHook with
  | none => exact KeepU.refl c
  | some h =>
    simp only
    exact (keepU_resReceiverSend true c).trans (by ku)

theorem keepU_resReceiverSet (h : Hook) (c : Conn) : KeepU c (resReceiverSet h c).1 := by
  unfold resReceiverSet
  simp only
  exact (keepU_resReceiverFinalizeClear c).trans (by ku)

theorem keepU_resProcessBodyData (cfg : Cfg) (data : Option Bytes) (c : Conn) :
    KeepU c (resProcessBodyData cfg data c).1 := keepU_of_frame (frame_resProcessBodyData ..) (keepSt_resProcessBodyData ..)
theorem keepU_resProcessBodyDataGap (cfg : Cfg) (data : Option Bytes) (g : Nat) (c : Conn) :
    KeepU c (resBodyIdentityClKnown.resProcessBodyDataGap cfg data g c).1 :=
  keepU_of_frame (frame_resProcessBodyDataGap ..) (keepSt_resProcessBodyDataGap ..)

theorem keepU_processResponseHeader (d : Bytes) (c : Conn) : KeepU c (processResponseHeader d c).1 := by
  unfold processResponseHeader
  simp only
  exact (keepU_modOut _ c).trans (keepU_modOut _ _)

theorem keepU_resFlushHeader (c : Conn) : KeepU c (resFlushHeader c).1 := by
  unfold resFlushHeader
  cases c.out.header with
  | none => exact KeepU.refl c
  | some h =>
    simp only
    have := keepU_processResponseHeader h c
    split
    · exact this
    · exact this.trans (by ku)

theorem keepU_txStateResponseStart (uid : Nat) (c : Conn) : KeepU c (txStateResponseStart uid c).1 := by
  unfold txStateResponseStart
  simp only
  refine KeepU.trans (b := { c with out := { c.out with tx := some uid } }) (by ku) ?_
  apply keepU_andThen
  · exact keepU_runCallback ..
  · intro c1
    split
    · ku
    · ku

theorem keepU_txStateResponseLine (uid : Nat) (c : Conn) : KeepU c (txStateResponseLine uid c).1 := by
  unfold txStateResponseLine
  simp only
  refine KeepU.trans ?_ (keepU_runCallback ..)
  split
  · exact keepU_modTx ..
  · exact KeepU.refl c

theorem keepU_txStateResponseHeaders (cfg : Cfg) (uid : Nat) (c : Conn) : KeepU c (txStateResponseHeaders cfg uid c).1 := by
  unfold txStateResponseHeaders
  rcases responseNeedsDecompressor cfg ((c.findTx uid).getD { uid := uid }) with ⟨enc, needs⟩
  simp only
  apply keepU_andThen
  · exact KeepU.trans (b := c.modTx uid _) (by ku) (keepU_resReceiverFinalizeClear _)
  · intro c1
    apply keepU_andThen
    · exact keepU_runCallback ..
    · intro c2
      split
      · split
        · ku
        · cases ceChain cfg ((getHeaderC ((c.findTx uid).getD { uid := uid }).resHeaders (b!"content-encoding")).map (·.value) |>.getD []) with
          | nil => ku
          | cons ty rest => ku
      · exact KeepU.refl _

theorem keepU_txStateResponseCompleteEx (cfg : Cfg) (uid : Nat) (c : Conn) : KeepU c (txStateResponseCompleteEx cfg uid c).1 := by
  unfold txStateResponseCompleteEx
  simp only
  apply keepU_andThen
  · split
    · apply keepU_andThen
      · refine KeepU.trans ?_ (keepU_runCallback ..)
        split
        · exact KeepU.trans (b := c.modTx uid _) (by ku) (keepU_resProcessBodyData ..)
        · ku
      · intro c1; exact keepU_resReceiverFinalizeClear _
    · exact KeepU.refl _
  · intro c1
    split
    · exact KeepU.refl _
    · split
      · ku
      · apply keepU_andThen
        · exact keepU_txFinalize ..
        · intro c2; ku

theorem keepU_resCl (cl ct : Option Parse.Header) (uid : Nat) (c : Conn) : KeepU c (resCl cl ct uid c).1 := by
  unfold resCl
  cases cl with
  | some cl' =>
    simp only
    repeat' split
    all_goals ku
  | none =>
    simp only
    repeat' split
    all_goals ku

theorem keepU_resFraming (te cl ct : Option Parse.Header) (uid : Nat) (c : Conn) : KeepU c (resFraming te cl ct uid c).1 := by
  unfold resFraming
  repeat' split
  all_goals first | ku | exact keepU_resCl ..

theorem keepU_resNoBody (uid : Nat) (t : Tx) (te cl : Option Parse.Header) (c : Conn) : KeepU c (resNoBody uid t te cl c) := by
  unfold resNoBody
  repeat' split
  all_goals ku

theorem keepU_resFramingStep (uid : Nat) (t : Tx) (te cl : Option Parse.Header) (c : Conn) : KeepU c (resFramingStep uid t te cl c).1 := by
  unfold resFramingStep
  split
  · simp only []
    refine KeepU.trans ?_ (keepU_resFraming ..)
    split
    · exact keepU_modTx ..
    · exact KeepU.refl _
  · exact KeepU.refl _

/-! ### the response state functions that never touch the request-direction facts -/

theorem keepU_resLineAsBody (cfg : Cfg) (uid : Nat) (dn : Bool) (data line : Bytes) (cr : Nat) (c : Conn) :
    KeepU c (resLineAsBody cfg uid dn data line cr c).1 := by
  unfold resLineAsBody
  extract_lets nextIsH rd1 ln1 c1 c2 src c3
  have k3 : KeepU c c3 := by ku
  have k1 : KeepU c c1 := by ku
  clear_value c1 c3
  split
  · exact k1
  · have k := keepU_resProcessBodyData cfg (if dn then none else some (data.take (line.length + cr))) c3
    rcases hx : resProcessBodyData cfg (if dn then none else some (data.take (line.length + cr))) c3 with ⟨c4, rc4⟩
    rw [hx] at k
    simp only at k ⊢
    have k4 : KeepU c c4 := k3.trans k
    split
    · exact k4
    · split
      · exact k4
      · exact k4

theorem keepU_resLineComplete (cfg : Cfg) (uid : Nat) (closed : Bool) (c : Conn) :
    KeepU c (resLineComplete cfg uid closed c).1 := by
  unfold resLineComplete
  cases hc : c.out.consolidate cfg.fieldLimitHard false with
  | none => ku
  | some q =>
    obtain ⟨d2, data⟩ := q
    simp -zeta only
    extract_lets dataNull c0 c1 c2 c3 rl c4
    have h0 : KeepU c c0 := keepU_out (Dir.consolidate_st hc)
    have h3 : KeepU c c3 := h0.trans rfl
    have h4 : KeepU c c4 := h0.trans rfl
    have h2 : KeepU c c2 := by
      show KeepU c (c1.modTx uid _)
      simp only [c1]
      split
      · exact h0.trans rfl
      · exact h0.trans rfl
    clear_value c0 c1 c2 c3 c4 dataNull
    split
    · exact h2
    · split
      · exact h3.trans (keepU_resLineAsBody ..)
      · have k := keepU_txStateResponseLine uid c4
        generalize txStateResponseLine uid c4 = r at k ⊢
        unfold R.andThen
        split
        · exact (h4.trans k).trans (by ku)
        · exact h4.trans k

theorem keepU_resLineLoop (cfg : Cfg) (fuel : Nat) (c : Conn) : KeepU c (resLineLoop cfg fuel c).1 := by
  induction fuel generalizing c with
  | zero => unfold resLineLoop; ku
  | succ k ih =>
    unfold resLineLoop
    cases c.out.tx with
    | none => ku
    | some uid =>
      simp only
      split
      · ku
      · rename_i c1 h1
        have e1 : KeepU c c1 := by
          split at h1
          · cases hcb : c.out.copyByte with
            | none => rw [hcb] at h1; simp at h1
            | some p =>
              obtain ⟨d, b⟩ := p
              rw [hcb] at h1
              simp only [Option.some.injEq] at h1
              rw [← h1]
              exact keepU_out (Dir.copyByte_st hcb)
          · simp only [Option.some.injEq] at h1; rw [← h1]
        split
        · exact e1
        · rename_i c2 h2
          have e2 : KeepU c c2 := by
            split at h2
            · simp only [Dir.peekSet] at h2
              cases hp : c1.out.peek with
              | none => rw [hp] at h2; simp at h2
              | some b =>
                rw [hp] at h2
                simp only at h2
                split at h2
                · simp only [Except.ok.injEq, Prod.mk.injEq] at h2; rw [← h2.1]; exact e1
                · simp only [Except.ok.injEq, Prod.mk.injEq] at h2; simp at h2
            · simp only [Except.ok.injEq, Prod.mk.injEq] at h2; simp at h2
          exact e2.trans (ih c2)
        · rename_i c2 h2
          have e2 : KeepU c c2 := by
            split at h2
            · simp only [Dir.peekSet] at h2
              cases hp : c1.out.peek with
              | none => rw [hp] at h2; simp at h2
              | some b =>
                rw [hp] at h2
                simp only at h2
                split at h2
                · simp only [Except.ok.injEq, Prod.mk.injEq] at h2; simp at h2
                · simp only [Except.ok.injEq, Prod.mk.injEq] at h2; rw [← h2.1]; exact e1
            · simp only [Except.ok.injEq, Prod.mk.injEq] at h2; rw [← h2.1]; exact e1
          split
          · exact e2.trans (ih c2)
          · exact e2.trans (keepU_resLineComplete ..)

theorem eol_keepU (b : UInt8) (lfcr : Bool) (c : Conn) :
    ∀ c2 l e a, resHeadersEol b lfcr c = .ok (c2, l, e, a) → KeepU c c2 := by
  intro c2 l e a h
  unfold resHeadersEol at h
  simp only [] at h
  repeat' split at h
  all_goals first
    | (simp at h; done)
    | (simp only [Except.ok.injEq, Prod.mk.injEq] at h; obtain ⟨e, _⟩ := h; subst e; exact rfl)
    | (simp only [Except.ok.injEq, Prod.mk.injEq] at h; obtain ⟨e, -⟩ := h; subst e; exact keepU_out (by cbchain))

theorem keepU_resHeaderLine (uid : Nat) (line : Bytes) (c : Conn) : KeepU c (resHeaderLine uid line c).1 := by
  unfold resHeaderLine
  split
  · apply keepU_andThen
    · exact keepU_resFlushHeader c
    · intro c1
      simp only [Dir.peekSet]
      obtain hp | ⟨b, hp⟩ : c1.out.peek = none ∨ ∃ b, c1.out.peek = some b := by cases c1.out.peek <;> simp
      · simp only [hp, Bool.not_true, Bool.false_eq_true, if_false]
      · simp only [hp]
        by_cases hf : isFoldingChar b = true
        · simp only [hf, Bool.not_true, Bool.false_eq_true, if_false]
        · simp only [hf, Bool.not_false, if_true]
          have e := keepU_processResponseHeader line { c1 with out := { c1.out with nextByte := (b.toNat : Int) } }
          rcases hy : processResponseHeader line { c1 with out := { c1.out with nextByte := (b.toNat : Int) } } with ⟨c2, rc2⟩
          rw [hy] at e
          simp only at e ⊢
          split
          · exact KeepU.trans (b := { c1 with out := { c1.out with nextByte := (b.toNat : Int) } }) (by ku) e
          · exact KeepU.trans (b := { c1 with out := { c1.out with nextByte := (b.toNat : Int) } }) (by ku) e
  · cases c.out.header with
    | none => ku
    | some h =>
      simp only
      split
      · have e := keepU_processResponseHeader h (c.modTx uid fun t => { t with flags := t.flags ||| INVALID_FOLDING })
        rcases hy : processResponseHeader h (c.modTx uid fun t => { t with flags := t.flags ||| INVALID_FOLDING }) with ⟨c2, rc2⟩
        rw [hy] at e
        simp only at e ⊢
        split
        · exact KeepU.trans (b := c.modTx uid _) (by ku) e
        · exact KeepU.trans (b := c.modTx uid _) (by ku) e
      · split
        · ku
        · ku

theorem keepU_resHeadersLoop (cfg : Cfg) (fuel : Nat) (lfcr : Bool) (c : Conn) :
    KeepU c (resHeadersLoop cfg fuel lfcr c).1 := by
  induction fuel generalizing c lfcr with
  | zero => unfold resHeadersLoop; ku
  | succ k ih =>
    unfold resHeadersLoop
    cases c.out.tx with
    | none => ku
    | some uid =>
      simp only
      have trailer : ∀ (c0 : Conn),
          KeepU c0 (resReceiverFinalizeClear c0 >>? fun c => runCallback .responseTrailer (some uid) none false c >>? fun c => ({ c with outState := .finalize }, Rc.ok)).1 := by
        intro c0
        apply keepU_andThen
        · exact keepU_resReceiverFinalizeClear c0
        · intro c1
          apply keepU_andThen
          · exact keepU_runCallback ..
          · intro c2; ku
      split
      · exact trailer c
      · cases hn : c.out.copyByte with
        | none => ku
        | some p =>
          obtain ⟨d, b⟩ := p
          simp only
          split
          · exact KeepU.trans (b := { c with out := d }) (by ku) (ih _ _)
          · have he := eol_keepU b lfcr { c with out := d }
            split
            · ku
            · rename_i heq
              have e2 := he _ _ _ _ heq
              exact KeepU.trans (KeepU.trans (b := { c with out := d }) (by ku) e2) (ih _ _)
            · rename_i c2 lfcr2 ecr2 heq
              have e2 : KeepU c c2 := KeepU.trans (b := { c with out := d }) (by ku) (he _ _ _ _ heq)
              cases hc : c2.out.consolidate cfg.fieldLimitHard false with
              | none => exact e2
              | some q =>
                obtain ⟨d2, data⟩ := q
                simp only
                have e3 : KeepU c { c2 with out := d2 } := e2.trans (by ku)
                split
                · exact e3.trans (ih lfcr2 { c2 with out := d2 })
                · split
                  · refine e3.trans ?_
                    apply keepU_andThen
                    · exact keepU_resFlushHeader _
                    · intro c5
                      split
                      · ku
                      · exact KeepU.trans (b := { c5 with out := c5.out.clearBuffer }) (by ku) (trailer _)
                  · refine e3.trans ?_
                    apply keepU_andThen
                    · exact keepU_resHeaderLine ..
                    · intro c5
                      exact KeepU.trans (b := { c5 with out := c5.out.clearBuffer }) (by ku) (ih _ _)

theorem keepU_resBodyIdentityClKnown (cfg : Cfg) (c : Conn) : KeepU c (resBodyIdentityClKnown cfg c).1 := by
  unfold resBodyIdentityClKnown
  extract_lets avail n cfin data
  clear_value n data
  split
  · exact KeepU.trans (b := cfin) (by ku) (keepU_resProcessBodyData ..)
  · split
    · ku
    · have k := keepU_resProcessBodyDataGap cfg data (if c.out.curNull then n.toNat else 0) c
      rcases hx : resBodyIdentityClKnown.resProcessBodyDataGap cfg data (if c.out.curNull then n.toNat else 0) c with ⟨c1, rc1⟩
      rw [hx] at k
      simp only at k ⊢
      split
      · exact k
      · split
        · exact KeepU.trans (KeepU.trans k (b := c1) (c := { { c1 with out := { c1.out.advance n with bodyDataLeft := c1.out.bodyDataLeft - n } } with outState := .finalize }) (by ku)) (keepU_resProcessBodyData ..)
        · exact k.trans (by ku)

theorem keepU_resBodyIdentityStreamClose (cfg : Cfg) (c : Conn) : KeepU c (resBodyIdentityStreamClose cfg c).1 := by
  unfold resBodyIdentityStreamClose
  extract_lets n data r
  have hr : KeepU c r.1 := by
    simp only [r]
    split
    · have k := keepU_resProcessBodyDataGap cfg data (if c.out.curNull then n.toNat else 0) c
      rcases hx : resBodyIdentityClKnown.resProcessBodyDataGap cfg data (if c.out.curNull then n.toNat else 0) c with ⟨c1, rc1⟩
      rw [hx] at k
      simp only at k ⊢
      split
      · exact k
      · exact k.trans (by ku)
    · ku
  clear_value r
  apply keepU_andThen
  · exact hr
  · intro c1
    split
    · ku
    · ku

theorem keepU_resChunkedDataEndLoop (fuel : Nat) (c : Conn) : KeepU c (resChunkedDataEndLoop fuel c).1 := by
  induction fuel generalizing c with
  | zero => unfold resChunkedDataEndLoop; ku
  | succ k ih =>
    unfold resChunkedDataEndLoop
    cases hn : c.out.nextByteConsume with
    | none => ku
    | some p =>
      obtain ⟨d, b⟩ := p
      simp only
      have k1 : KeepU c ({ c with out := d }.modOut (fun t => { t with resMessageLen := t.resMessageLen + 1 })) :=
        KeepU.trans (b := { c with out := d }) (by ku) (keepU_modOut _ _)
      split
      · exact k1.trans (by ku)
      · exact k1.trans (ih _)

theorem keepU_resBodyChunkedData (cfg : Cfg) (c : Conn) : KeepU c (resBodyChunkedData cfg c).1 := by
  unfold resBodyChunkedData
  extract_lets avail n data
  clear_value n data
  split
  · ku
  · have k := keepU_resProcessBodyData cfg (some data) c
    rcases hx : resProcessBodyData cfg (some data) c with ⟨c1, rc1⟩
    rw [hx] at k
    simp only at k ⊢
    split
    · exact k
    · split
      · exact k.trans (by ku)
      · exact k.trans (by ku)

theorem keepU_resChunkedLengthLoop (cfg : Cfg) (fuel : Nat) (c : Conn) : KeepU c (resChunkedLengthLoop cfg fuel c).1 := by
  induction fuel generalizing c with
  | zero => unfold resChunkedLengthLoop; ku
  | succ k ih =>
    unfold resChunkedLengthLoop
    cases hn : c.out.copyByte with
    | none => ku
    | some p =>
      obtain ⟨d, b⟩ := p
      simp -zeta only
      extract_lets c0
      have h0 : KeepU c c0 := by ku
      clear_value c0
      split
      · exact h0.trans (ih _)
      · cases hc : c0.out.consolidate cfg.fieldLimitHard false with
        | none => exact h0
        | some q =>
          obtain ⟨d2, data⟩ := q
          simp -zeta only
          extract_lets c1 s1 c2 s2 rd c3 c4
          have h1 : KeepU c c1 := h0.trans (KeepU.trans (b := { c0 with out := d2 }) (by ku) (keepU_modOut _ _))
          have h2 : KeepU c c2 := h1.trans (by ku)
          have h4 : KeepU c c4 := h2.trans (by ku)
          have h3 : KeepU c c3 := h2.trans (by ku)
          clear_value c1 c2 c3 c4
          split
          · exact KeepU.trans (h2.trans (c := { c2 with out := { c2.out with consume := c2.out.read } }) (by ku)) (ih _)
          · split
            · exact h3.trans (keepU_modOut _ _)
            · split
              · exact h4.trans (by ku)
              · exact h4.trans (KeepU.trans (b := { c4 with outState := .headers }) (by ku) (keepU_modOut _ _))

theorem keepU_resFinalize (cfg : Cfg) (c : Conn) : KeepU c (resFinalize cfg c).1 := by
  unfold resFinalize
  cases c.out.tx with
  | none => ku
  | some uid =>
    simp -zeta only
    extract_lets cp pre
    have hp : ∀ c' b, pre = some (c', b) → KeepU c c' := by
      intro c' b hpre
      simp only [pre] at hpre
      split at hpre
      · split at hpre
        · simp only [Option.some.injEq, Prod.mk.injEq] at hpre; obtain ⟨e, _⟩ := hpre; subst e; fscan
        · split at hpre
          · split at hpre
            · simp at hpre
            · simp only [Option.some.injEq, Prod.mk.injEq] at hpre; obtain ⟨e, _⟩ := hpre; subst e; fscan
          · simp only [Option.some.injEq, Prod.mk.injEq] at hpre; obtain ⟨e, _⟩ := hpre; subst e; fscan
      · simp only [Option.some.injEq, Prod.mk.injEq] at hpre; obtain ⟨e, _⟩ := hpre; subst e; fscan
    clear_value pre
    split
    · ku
    · rename_i _ c1
      exact (hp _ _ rfl).trans (keepU_txStateResponseCompleteEx ..)
    · rename_i _ c1
      have h1 := hp _ _ rfl
      clear hp
      cases hc : c1.out.consolidate cfg.fieldLimitHard false with
      | none => exact h1
      | some q =>
        obtain ⟨d2, data⟩ := q
        simp -zeta only
        extract_lets dataNull c2 rd keep buf cs
        have h2 : KeepU c c2 := h1.trans (by ku)
        clear_value c2 dataNull
        split
        · exact h2.trans (keepU_txStateResponseCompleteEx ..)
        · split
          · have k := keepU_resProcessBodyData cfg (some data) c2
            rcases hx : resProcessBodyData cfg (some data) c2 with ⟨c3, rc3⟩
            rw [hx] at k
            simp only at k ⊢
            exact (h2.trans k).trans (by ku)
          · exact KeepU.trans (h2.trans (c := { c2 with out := { c2.out with read := rd, consume := cs, buf := buf } }) (by ku)) (keepU_txStateResponseCompleteEx ..)

theorem keepU_resHandleStateChange (c : Conn) : KeepU c (resHandleStateChange c).1 := by
  unfold resHandleStateChange
  split
  · ku
  · simp only
    apply keepU_andThen
    · repeat' split
      all_goals first | exact KeepU.refl c | exact keepU_resReceiverSet _ c
    · intro c1; ku

/-! ### ... and the three that do: RES_IDLE completes a request waiting in REQ_FINALIZE and, for an unmatched response, makes up a
    transaction (htp_connp_tx_create resets `in_body_data_left` to -1) and forces REQ_FINALIZE; RES_BODY_DETERMINE forces REQ_FINALIZE on
    a 4xx answer to `Expect: 100-continue`. All of them leave the request parser in a state that counts no body bytes. -/



/-! ## who sets TUNNEL: the pair invariant -/

/-- a stream status on which a data call returns before it parses anything: TUNNEL, ERROR, STOP -/
def Quiet (s : Nat) : Prop := s = STREAM_TUNNEL ∨ s = STREAM_ERROR ∨ s = STREAM_STOP

instance (s : Nat) : Decidable (Quiet s) := by unfold Quiet; infer_instance

/-- **the pair invariant**: a direction is in TUNNEL only while the other direction does not parse (TUNNEL, ERROR or STOP). The two
    places that switch to tunnel mode - the CONNECT probe and the 101 switch - write both directions, and nothing else writes TUNNEL. -/
def TunnelPair (c : Conn) : Prop :=
  (c.inn.status = STREAM_TUNNEL → Quiet c.out.status) ∧ (c.out.status = STREAM_TUNNEL → Quiet c.inn.status)

instance (c : Conn) : Decidable (TunnelPair c) := by unfold TunnelPair; infer_instance

theorem data_ne_tunnel : STREAM_DATA ≠ STREAM_TUNNEL := by decide
theorem dataOther_ne_tunnel : STREAM_DATA_OTHER ≠ STREAM_TUNNEL := by decide
theorem error_ne_tunnel : STREAM_ERROR ≠ STREAM_TUNNEL := by decide
theorem stop_ne_tunnel : STREAM_STOP ≠ STREAM_TUNNEL := by decide

/-- neither direction is in TUNNEL -/
def NoTun (c : Conn) : Prop := c.inn.status ≠ STREAM_TUNNEL ∧ c.out.status ≠ STREAM_TUNNEL

theorem NoTun.pair {c : Conn} (h : NoTun c) : TunnelPair c := ⟨fun e => absurd e h.1, fun e => absurd e h.2⟩
theorem NoTun.keep {c c' : Conn} (h : NoTun c) (k : KeepU c c') : NoTun c' := ⟨by rw [k.inn]; exact h.1, by rw [k.out]; exact h.2⟩

/-! ### the request side -/

/-- what a request state function does to the statuses when neither direction is in TUNNEL: it sets no TUNNEL, or it is the CONNECT probe
    switching - it returns OK, the request direction is in TUNNEL and the response direction in TUNNEL, or still in ERROR / STOP -/
def ReqStep (r : R) : Prop := NoTun r.1 ∨ (r.2 = .ok ∧ r.1.inn.status = STREAM_TUNNEL ∧ Quiet r.1.out.status)

theorem reqStep_of_keepU {c : Conn} {r : R} (h : NoTun c) (k : KeepU c r.1) : ReqStep r := Or.inl (h.keep k)

theorem keepU_reqConnectWaitResponse (c : Conn) : KeepU c (reqConnectWaitResponse c).1 := by
  unfold reqConnectWaitResponse
  simp only []
  repeat' split
  all_goals exact rfl

theorem keepU_reqBodyDetermine (c : Conn) : KeepU c (reqBodyDetermine c).1 := by
  unfold reqBodyDetermine
  simp only []
  repeat' split
  all_goals first
    | exact rfl
    | exact KeepU.trans (b := { c with inState := .bodyChunkedLength }) rfl (keepU_modIn _ _)
    | exact KeepU.trans (b := { { c with inn := { c.inn with contentLength := c.inTx.reqContentLength, bodyDataLeft := c.inTx.reqContentLength } } with inState := .bodyIdentity }) rfl (keepU_modIn _ _)

/-- REQ_CONNECT_CHECK writes DATA_OTHER into the request status, or nothing -/
theorem noTun_reqConnectCheck (c : Conn) (h : NoTun c) : NoTun (reqConnectCheck c).1 := by
  unfold reqConnectCheck
  split
  · exact ⟨dataOther_ne_tunnel, h.2⟩
  · exact h

/-- REQ_CONNECT_PROBE_DATA: the one place of the request side that writes TUNNEL - into both directions -/
theorem reqStep_reqConnectProbeLoop (cfg : Cfg) (fuel : Nat) (c : Conn) (h : NoTun c) : ReqStep (reqConnectProbeLoop cfg fuel c) := by
  induction fuel generalizing c with
  | zero => unfold reqConnectProbeLoop; exact Or.inl h
  | succ k ih =>
    unfold reqConnectProbeLoop
    simp only
    split
    · cases hc : (c.inn.peekSet).1.consolidate cfg.fieldLimitHard true with
      | none => exact Or.inl h
      | some q =>
        obtain ⟨d2, data⟩ := q
        have k2 : KeepU c { c with inn := d2 } := keepU_inn ((Dir.consolidate_st hc).trans rfl)
        simp only
        split
        · split
          · exact reqStep_of_keepU h (k2.trans (keepU_txStateRequestComplete cfg _ _))
          · exact reqStep_of_keepU h k2
        · refine Or.inr ⟨rfl, rfl, ?_⟩
          show Quiet (if (c.out.status == STREAM_ERROR || c.out.status == STREAM_STOP) = true then c.out.status else STREAM_TUNNEL)
          split
          · rename_i he
            simp only [Bool.or_eq_true, beq_iff_eq] at he
            rcases he with he | he
            · exact Or.inr (Or.inl he)
            · exact Or.inr (Or.inr he)
          · exact Or.inl rfl
    · cases hn : (c.inn.peekSet).1.copyByte with
      | none => exact Or.inl h
      | some p =>
        obtain ⟨d, b⟩ := p
        exact ih _ (h.keep (keepU_inn ((Dir.copyByte_st hn).trans rfl)))

/-- **every request state function**, run while neither direction is in TUNNEL -/
theorem reqStep_reqStateFn (cfg : Cfg) (c : Conn) (h : NoTun c) : ReqStep (reqStateFn cfg c) := by
  unfold reqStateFn
  cases c.inState with
  | idle => exact reqStep_of_keepU h (keepU_reqIdle cfg c)
  | line => exact reqStep_of_keepU h (keepU_reqLineLoop cfg _ c)
  | protocol => exact reqStep_of_keepU h (keepU_reqProtocol c)
  | headers => exact reqStep_of_keepU h (keepU_reqHeadersLoop cfg _ c)
  | connectCheck => exact Or.inl (noTun_reqConnectCheck c h)
  | connectWaitResponse => exact reqStep_of_keepU h (keepU_reqConnectWaitResponse c)
  | connectProbeData => exact reqStep_reqConnectProbeLoop cfg _ c h
  | bodyDetermine => exact reqStep_of_keepU h (keepU_reqBodyDetermine c)
  | bodyIdentity => exact reqStep_of_keepU h (keepU_reqBodyIdentity cfg c)
  | bodyChunkedLength => exact reqStep_of_keepU h (keepU_reqChunkedLengthLoop cfg _ c)
  | bodyChunkedData => exact reqStep_of_keepU h (keepU_reqBodyChunkedData cfg c)
  | bodyChunkedDataEnd => exact reqStep_of_keepU h (keepU_reqChunkedDataEndLoop _ c)
  | finalize => exact reqStep_of_keepU h (keepU_reqFinalize cfg c)
  | ignoreDataAfter09 => exact reqStep_of_keepU h (keepU_reqIgnore c)

/-- a state whose request status was just written by the driver (not TUNNEL), the response status not being TUNNEL -/
theorem pair_setIn {c : Conn} (d : Dir) (s : Nat) (hs : s ≠ STREAM_TUNNEL) (ho : c.out.status ≠ STREAM_TUNNEL) :
    TunnelPair { c with inn := { d with status := s } } := ⟨fun e => absurd e hs, fun e => absurd e ho⟩

/-- the loop of a request data call, started while neither direction is in TUNNEL, ends in a state with the pair invariant -/
theorem reqDriverLoop_pair (cfg : Cfg) (g : Bool) (fuel : Nat) (c : Conn) (h : NoTun c) : TunnelPair (reqDriverLoop cfg g fuel c).1 := by
  induction fuel generalizing c with
  | zero => unfold reqDriverLoop; exact (h.keep (c' := { c with unsupported := true }) rfl).pair
  | succ k ih =>
    unfold reqDriverLoop
    extract_lets stepR
    have hs : ∀ r, stepR = some r → ReqStep r := by
      intro r hr
      simp only [stepR] at hr
      split at hr
      · split at hr
        · simp only [Option.some.injEq] at hr; rw [← hr]; exact reqStep_reqStateFn cfg c h
        · split at hr
          · split at hr
            · simp only [Option.some.injEq] at hr; rw [← hr]; exact reqStep_of_keepU h (keepU_txStateRequestComplete ..)
            · simp only [Option.some.injEq] at hr; rw [← hr]; exact Or.inl h
          · simp at hr
      · simp only [Option.some.injEq] at hr; rw [← hr]; exact reqStep_reqStateFn cfg c h
    clear_value stepR
    split
    · exact h.pair
    · rename_i _ c1 rc1
      rcases hs _ rfl with h1 | ⟨hok, hti, hqo⟩
      · -- no TUNNEL was set
        have h2 : NoTun (if rc1 == Rc.ok then (if c1.inn.status == STREAM_TUNNEL then (c1, Rc.ok) else reqHandleStateChange c1) else (c1, rc1)).1 := by
          split
          · split
            · exact h1
            · exact h1.keep (keepU_reqHandleStateChange c1)
          · exact h1
        rcases hy : (if rc1 == Rc.ok then (if c1.inn.status == STREAM_TUNNEL then (c1, Rc.ok) else reqHandleStateChange c1) else (c1, rc1)) with ⟨c2, rc2⟩
        rw [hy] at h2
        simp only at h2 ⊢
        split
        · split
          · exact h2.pair
          · exact ih c2 h2
        · split
          · have kk := keepU_reqReceiverSend false c2
            rcases hz : reqReceiverSend false c2 with ⟨c3, rc3⟩
            rw [hz] at kk
            simp only at kk ⊢
            have h3 : NoTun c3 := h2.keep kk
            split
            · cases hb : c3.inn.buffer cfg.fieldLimitHard true with
              | none => exact pair_setIn _ _ (by first | exact data_ne_tunnel | exact dataOther_ne_tunnel | exact error_ne_tunnel | exact stop_ne_tunnel) h3.2
              | some d => exact pair_setIn _ _ (by first | exact data_ne_tunnel | exact dataOther_ne_tunnel | exact error_ne_tunnel | exact stop_ne_tunnel) h3.2
            · exact pair_setIn _ _ (by first | exact data_ne_tunnel | exact dataOther_ne_tunnel | exact error_ne_tunnel | exact stop_ne_tunnel) h3.2
          · repeat' split
            all_goals exact pair_setIn _ _ (by first | exact data_ne_tunnel | exact dataOther_ne_tunnel | exact error_ne_tunnel | exact stop_ne_tunnel) h2.2
      · -- the CONNECT probe switched to tunnel mode: the driver returns at once
        have hok' : (rc1 == Rc.ok) = true := by simp only at hok; rw [hok]; rfl
        have hti' : (c1.inn.status == STREAM_TUNNEL) = true := by simp only at hti; rw [hti]; rfl
        simp only [hok', hti', if_true]
        exact ⟨fun _ => hqo, fun _ => Or.inl hti⟩

/-- `if (connp->out_status == HTP_STREAM_DATA_OTHER) connp->out_status = HTP_STREAM_DATA` sets no TUNNEL -/
theorem noTun_reqWakeOther (c : Conn) (h : NoTun c) : NoTun (reqWakeOther c) := by
  unfold reqWakeOther
  split
  · exact ⟨h.1, data_ne_tunnel⟩
  · exact h

theorem not_quiet_of {s : Nat} (h1 : ¬ (s == STREAM_STOP) = true) (h2 : ¬ (s == STREAM_ERROR) = true) (h3 : ¬ (s == STREAM_TUNNEL) = true) :
    ¬ Quiet s := by
  intro hq
  rcases hq with e | e | e
  · exact h3 (by rw [e]; rfl)
  · exact h2 (by rw [e]; rfl)
  · exact h1 (by rw [e]; rfl)

/-- **a whole request data call keeps the pair invariant** - any chunk, a gap, the NULL chunk of a close, any state, any callback policy -/
theorem reqData_pair (cfg : Cfg) (data : Option Bytes) (len : Nat) (c : Conn) (h : TunnelPair c) : TunnelPair (reqData cfg data len c).1 := by
  have key : TunnelPair (reqDataCore cfg data len c).1 := by
    unfold reqDataCore
    split
    · exact h
    split
    · exact h
    split
    · exact ⟨fun e => absurd e error_ne_tunnel, fun _ => Or.inr (Or.inl rfl)⟩
    split
    · exact h
    rename_i h1 h2 _ _
    simp only
    split
    · exact h
    · rename_i h3
      have h3' : ¬ (c.inn.status == STREAM_TUNNEL) = true := h3
      have hnq : ¬ Quiet c.inn.status := not_quiet_of h1 h2 h3'
      have hn : NoTun c := ⟨fun e => hnq (Or.inl e), fun e => hnq (h.2 e)⟩
      exact reqDriverLoop_pair cfg _ _ _ (noTun_reqWakeOther _ (hn.keep (c' := reqStoreChunk data len c) rfl))
  exact key

/-! ### the response side -/

/-- the return codes a callback run can produce -/
def CbRc (rc : Rc) : Prop := rc = .ok ∨ rc = .stop ∨ rc = .error

theorem runCallback_cbRc (h : Hook) (uid : Option Nat) (data : Option Bytes) (l : Bool) (c : Conn) (g : Nat) (s : Bool) :
    CbRc (runCallback h uid data l c g s).2 := by
  unfold runCallback
  simp only
  cases lookupAction c.policy c.cbCount with
  | ok => exact Or.inl rfl
  | declined => exact Or.inl rfl
  | stop => exact Or.inr (Or.inl rfl)
  | error => exact Or.inr (Or.inr rfl)
  | destroyTx =>
    simp only
    cases uid.bind c.findTx with
    | none => exact Or.inl rfl
    | some t => simp only; split <;> exact Or.inl rfl
  | regTxHooks =>
    simp only
    cases uid with
    | none => exact Or.inl rfl
    | some u => exact Or.inl rfl

theorem cbRc_andThen (r : R) (f : Conn → R) (h1 : CbRc r.2) (h2 : ∀ c, CbRc (f c).2) : CbRc (r >>? f).2 := by
  unfold R.andThen
  split
  · exact h2 _
  · exact h1

theorem resReceiverSend_cbRc (l : Bool) (c : Conn) : CbRc (resReceiverSend l c).2 := by
  unfold resReceiverSend
  cases c.out.receiverHook with
  | none => exact Or.inl rfl
  | some h =>
    simp only
    exact cbRc_andThen _ _ (runCallback_cbRc ..) (fun _ => Or.inl rfl)

theorem resReceiverFinalizeClear_cbRc (c : Conn) : CbRc (resReceiverFinalizeClear c).2 := by
  unfold resReceiverFinalizeClear
  cases c.out.receiverHook with
  | none => exact Or.inl rfl
  | some h => simp only; exact resReceiverSend_cbRc true c

theorem txStateResponseHeaders_cbRc (cfg : Cfg) (uid : Nat) (c : Conn) : CbRc (txStateResponseHeaders cfg uid c).2 := by
  unfold txStateResponseHeaders
  simp only
  generalize responseNeedsDecompressor cfg _ = p
  obtain ⟨enc, needs⟩ := p
  simp only
  refine cbRc_andThen _ _ (resReceiverFinalizeClear_cbRc _) (fun c1 => cbRc_andThen _ _ (runCallback_cbRc ..) (fun c2 => ?_))
  repeat' split
  all_goals exact Or.inl rfl

/-- what a response state function does to the statuses when neither direction is in TUNNEL: it sets no TUNNEL, or it is the 101 switch -
    the response direction is in TUNNEL, the request direction in TUNNEL or still in ERROR / STOP, and what is returned is the code of a
    callback run (OK, STOP or ERROR - not DATA) -/
def ResStep (r : R) : Prop := NoTun r.1 ∨ (r.1.out.status = STREAM_TUNNEL ∧ Quiet r.1.inn.status ∧ CbRc r.2)

theorem resStep_of_keepU {c : Conn} {r : R} (h : NoTun c) (k : KeepU c r.1) : ResStep r := Or.inl (h.keep k)

/-- a refused CONNECT writes DATA into the request status, or nothing -/
theorem noTun_resRefusedConnect (t : Tx) (c : Conn) (h : NoTun c) : NoTun (resRefusedConnect t c) := by
  unfold resRefusedConnect
  split
  · split
    · exact ⟨data_ne_tunnel, h.2⟩
    · exact h
  · exact h

/-- the 101 switch writes TUNNEL into both directions; a request status ERROR / STOP stays -/
theorem resSwitchTunnel_statuses (c : Conn) : (resSwitchTunnel c).out.status = STREAM_TUNNEL ∧ Quiet (resSwitchTunnel c).inn.status := by
  refine ⟨rfl, ?_⟩
  unfold resSwitchTunnel
  simp only
  split
  · exact Or.inl rfl
  · rename_i hn
    show Quiet c.inn.status
    simp only [Bool.and_eq_true, bne_iff_ne, ne_eq, not_and, Decidable.not_not] at hn
    by_cases he : c.inn.status = STREAM_ERROR
    · exact Or.inr (Or.inl he)
    · exact Or.inr (Or.inr (hn he))

theorem keepU_resExpectShortcut (t : Tx) (c : Conn) : KeepU c (resExpectShortcut t c) := by
  unfold resExpectShortcut
  repeat' split
  all_goals exact rfl

theorem resStep_resBodyDetermineRest (cfg : Cfg) (uid : Nat) (t : Tx) (c : Conn) (h : NoTun c) :
    ResStep (resBodyDetermineRest cfg uid t c) := by
  unfold resBodyDetermineRest
  extract_lets c1 cl te is100
  have h1 : NoTun c1 := noTun_resRefusedConnect t c h
  clear_value c1 is100
  split
  · obtain ⟨ho, hi⟩ := resSwitchTunnel_statuses c1
    have k := keepU_txStateResponseHeaders cfg uid (resSwitchTunnel c1)
    exact Or.inr ⟨by rw [k.out]; exact ho, by rw [k.inn]; exact hi, txStateResponseHeaders_cbRc ..⟩
  · split
    · exact resStep_of_keepU h1 rfl
    · apply resStep_of_keepU h1
      apply keepU_andThen
      · exact ((keepU_resExpectShortcut t c1).trans (keepU_resNoBody ..)).trans (keepU_resFramingStep ..)
      · intro c9; exact keepU_txStateResponseHeaders ..

theorem resStep_resBodyDetermine (cfg : Cfg) (c : Conn) (h : NoTun c) : ResStep (resBodyDetermine cfg c) := by
  unfold resBodyDetermine
  cases c.out.tx with
  | none => exact Or.inl h
  | some uid =>
    simp only
    split
    · exact resStep_of_keepU h (KeepU.trans (b := { c with outState := .finalize }) rfl (keepU_txStateResponseHeaders ..))
    · exact resStep_resBodyDetermineRest cfg uid _ c h

theorem keepU_resIdleUnmatched (cfg : Cfg) (c : Conn) : KeepU c (resIdleUnmatched cfg c).1 := by
  unfold resIdleUnmatched
  have k := keepU_txCreate cfg c
  rcases hx : txCreate cfg c with ⟨c2, u⟩
  rw [hx] at k
  simp only at k ⊢
  cases u with
  | none => exact k.trans rfl
  | some uid =>
    simp only
    exact KeepU.trans (k.trans rfl) (keepU_txStateResponseStart ..)

theorem keepU_resIdle (cfg : Cfg) (c : Conn) : KeepU c (resIdle cfg c).1 := by
  unfold resIdle
  split
  · exact rfl
  · simp only []
    split
    · have hk : KeepU c (if c.inState == .finalize then (match c.inn.tx with | some uid => (txStateRequestComplete cfg uid c).1 | none => c) else c) := by
        split
        · split
          · exact keepU_txStateRequestComplete ..
          · exact rfl
        · exact rfl
      exact hk.trans (keepU_resIdleUnmatched ..)
    · rename_i t _
      exact KeepU.trans (b := { c with outNextTxIndex := c.outNextTxIndex + 1, out := { c.out with tx := some t.uid, contentLength := -1, bodyDataLeft := -1 } }) rfl (keepU_txStateResponseStart ..)

/-- **every response state function**, run while neither direction is in TUNNEL -/
theorem resStep_resStateFn (cfg : Cfg) (c : Conn) (h : NoTun c) : ResStep (resStateFn cfg c) := by
  unfold resStateFn
  cases c.outState with
  | idle => exact resStep_of_keepU h (keepU_resIdle cfg c)
  | line => exact resStep_of_keepU h (keepU_resLineLoop ..)
  | headers => exact resStep_of_keepU h (keepU_resHeadersLoop ..)
  | bodyDetermine => exact resStep_resBodyDetermine cfg c h
  | bodyIdentityClKnown => exact resStep_of_keepU h (keepU_resBodyIdentityClKnown ..)
  | bodyIdentityStreamClose => exact resStep_of_keepU h (keepU_resBodyIdentityStreamClose ..)
  | bodyChunkedLength => exact resStep_of_keepU h (keepU_resChunkedLengthLoop ..)
  | bodyChunkedData => exact resStep_of_keepU h (keepU_resBodyChunkedData ..)
  | bodyChunkedDataEnd => exact resStep_of_keepU h (keepU_resChunkedDataEndLoop ..)
  | finalize => exact resStep_of_keepU h (keepU_resFinalize ..)

theorem pair_setOut {c : Conn} (d : Dir) (s : Nat) (hs : s ≠ STREAM_TUNNEL) (hi : c.inn.status ≠ STREAM_TUNNEL) :
    TunnelPair { c with out := { d with status := s } } := ⟨fun e => absurd e hi, fun e => absurd e hs⟩

/-- the loop of a response data call, started while neither direction is in TUNNEL, ends in a state with the pair invariant -/
theorem resDriverLoop_pair (cfg : Cfg) (g : Bool) (fuel : Nat) (c : Conn) (h : NoTun c) : TunnelPair (resDriverLoop cfg g fuel c).1 := by
  induction fuel generalizing c with
  | zero => unfold resDriverLoop; exact (h.keep (c' := { c with unsupported := true }) rfl).pair
  | succ k ih =>
    unfold resDriverLoop
    extract_lets stepR
    have hs : ∀ r, stepR = some r → ResStep r := by
      intro r hr
      simp only [stepR] at hr
      split at hr
      · split at hr
        · simp only [Option.some.injEq] at hr; rw [← hr]; exact resStep_resStateFn cfg c h
        · split at hr
          · split at hr
            · simp only [Option.some.injEq] at hr; rw [← hr]; exact resStep_of_keepU h (keepU_txStateResponseCompleteEx ..)
            · simp only [Option.some.injEq] at hr; rw [← hr]; exact Or.inl h
          · simp at hr
      · simp only [Option.some.injEq] at hr; rw [← hr]; exact resStep_resStateFn cfg c h
    clear_value stepR
    split
    · exact h.pair
    · rename_i _ c1 rc1
      rcases hs _ rfl with h1 | ⟨hto, hqi, hrc⟩
      · have h2 : NoTun (if rc1 == Rc.ok then (if c1.out.status == STREAM_TUNNEL then (c1, Rc.ok) else resHandleStateChange c1) else (c1, rc1)).1 := by
          split
          · split
            · exact h1
            · exact h1.keep (keepU_resHandleStateChange c1)
          · exact h1
        rcases hy : (if rc1 == Rc.ok then (if c1.out.status == STREAM_TUNNEL then (c1, Rc.ok) else resHandleStateChange c1) else (c1, rc1)) with ⟨c2, rc2⟩
        rw [hy] at h2
        simp only at h2 ⊢
        split
        · split
          · exact h2.pair
          · exact ih c2 h2
        · split
          · have kk := keepU_resReceiverSend false c2
            rcases hz : resReceiverSend false c2 with ⟨c3, rc3⟩
            rw [hz] at kk
            simp only at kk ⊢
            have h3 : NoTun c3 := h2.keep kk
            split
            · cases hb : c3.out.buffer cfg.fieldLimitHard false with
              | none => exact pair_setOut _ _ (by first | exact data_ne_tunnel | exact dataOther_ne_tunnel | exact error_ne_tunnel | exact stop_ne_tunnel) h3.1
              | some d => exact pair_setOut _ _ (by first | exact data_ne_tunnel | exact dataOther_ne_tunnel | exact error_ne_tunnel | exact stop_ne_tunnel) h3.1
            · exact pair_setOut _ _ (by first | exact data_ne_tunnel | exact dataOther_ne_tunnel | exact error_ne_tunnel | exact stop_ne_tunnel) h3.1
          · repeat' split
            all_goals exact pair_setOut _ _ (by first | exact data_ne_tunnel | exact dataOther_ne_tunnel | exact error_ne_tunnel | exact stop_ne_tunnel) h2.1
      · -- the 101 switch: the response status is TUNNEL, the request status quiet; the driver returns TUNNEL, or STOP / ERROR on a
        -- callback's demand
        simp only at hto hqi hrc
        have hto' : (c1.out.status == STREAM_TUNNEL) = true := by rw [hto]; rfl
        rcases hrc with e | e | e
        · subst e
          simp only [hto', beq_self_eq_true, if_true]
          exact ⟨fun _ => Or.inl hto, fun _ => hqi⟩
        · subst e
          have e1 : (Rc.stop == Rc.ok) = false := by decide
          have e2 : (Rc.stop == Rc.data || Rc.stop == Rc.dataBuffer) = false := by decide
          simp only [e1, e2, Bool.false_eq_true, if_false, beq_self_eq_true, if_true]
          exact ⟨fun _ => Or.inr (Or.inr rfl), fun e => absurd e stop_ne_tunnel⟩
        · subst e
          have e1 : (Rc.error == Rc.ok) = false := by decide
          have e2 : (Rc.error == Rc.data || Rc.error == Rc.dataBuffer) = false := by decide
          have e3 : (Rc.error == Rc.stop) = false := by decide
          have e4 : (Rc.error == Rc.dataOther) = false := by decide
          simp only [e1, e2, e3, e4, Bool.false_eq_true, if_false]
          exact ⟨fun _ => Or.inr (Or.inl rfl), fun e => absurd e error_ne_tunnel⟩

/-- **a whole response data call keeps the pair invariant** -/
theorem resData_pair (cfg : Cfg) (data : Option Bytes) (len : Nat) (c : Conn) (h : TunnelPair c) : TunnelPair (resData cfg data len c).1 := by
  have key : TunnelPair (resDataCore cfg data len c).1 := by
    unfold resDataCore
    split
    · exact h
    split
    · exact h
    split
    · exact ⟨fun _ => Or.inr (Or.inl rfl), fun e => absurd e error_ne_tunnel⟩
    split
    · exact h
    rename_i h1 h2 _ _
    simp only
    split
    · exact h
    · rename_i h3
      have h3' : ¬ (c.out.status == STREAM_TUNNEL) = true := h3
      have hnq : ¬ Quiet c.out.status := not_quiet_of h1 h2 h3'
      have hn : NoTun c := ⟨fun e => hnq (h.1 e), fun e => hnq (Or.inl e)⟩
      exact resDriverLoop_pair cfg _ _ _ (hn.keep (c' := resStoreChunk data len c) rfl)
  exact key

end Htp.Conn

