/- C10 (max_tx) over whole histories, part 1: the length of the transaction list `c.txs`.

   `KeepLen c c'` - the list did not get longer - holds for every function of the request side except transaction creation: `setTx`,
   `modTx`, `modIn`, `modOut` map over the list (`setTx` does NOT append when the uid is not stored: it is a `List.map`, an absent uid
   leaves the list as it is), `destroyTx` replaces a slot by `none` (the slot stays until htp_connp_tx_freed), everything else does not
   write the list. `GrowB B c c'` - the list is no longer than `max (old length) B` - holds for `txCreate` with `B = cfg.maxTx + 1` when
   `max_tx` is non-zero, and for its callers: REQ_IDLE, the request state dispatcher, the driver loop, the data call. The response side,
   the other calls and whole histories are in Lemmas/TxCountOut.lean. -/
import HtpModel.Conn.Res
namespace Htp.Conn
open Htp Htp.Gen

/-- the transaction list did not get longer -/
structure KeepLen (c c' : Conn) : Prop where
  le : c'.txs.length ≤ c.txs.length

/-- the transaction list is no longer than the larger of its old length and `B` -/
structure GrowB (B : Nat) (c c' : Conn) : Prop where
  le : c'.txs.length ≤ max c.txs.length B

theorem KeepLen.refl (c : Conn) : KeepLen c c := ⟨Nat.le_refl _⟩
theorem KeepLen.trans {a b c : Conn} (h1 : KeepLen a b) (h2 : KeepLen b c) : KeepLen a c := ⟨Nat.le_trans h2.le h1.le⟩

theorem GrowB.refl (B : Nat) (c : Conn) : GrowB B c c := ⟨Nat.le_max_left _ _⟩
theorem GrowB.trans {B : Nat} {a b c : Conn} (h1 : GrowB B a b) (h2 : GrowB B b c) : GrowB B a c := by
  have := h1.le; have := h2.le
  exact ⟨by omega⟩

/-- not longer is in particular bounded -/
theorem KeepLen.grow {c c' : Conn} (h : KeepLen c c') (B : Nat) : GrowB B c c' := by
  have := h.le
  exact ⟨by omega⟩

/-- the state whose transaction list is the same -/
theorem keepLen_of_txs {c c' : Conn} (h : c'.txs = c.txs) : KeepLen c c' := ⟨by rw [h]; exact Nat.le_refl _⟩

/-! ### the writers of the list -/

/-- `setTx` maps over the list: the length is the same, whether or not the uid is stored (it never appends) -/
theorem setTx_length (t : Tx) (c : Conn) : (c.setTx t).txs.length = c.txs.length := by
  unfold Conn.setTx; exact List.length_map _

theorem modTx_length (u : Nat) (f : Tx → Tx) (c : Conn) : (c.modTx u f).txs.length = c.txs.length := by
  unfold Conn.modTx; exact List.length_map _

/-- htp_tx_destroy leaves the slot (as NULL): the length is the same -/
theorem destroyTx_length (u : Nat) (c : Conn) : (destroyTx u c).txs.length = c.txs.length := by
  unfold destroyTx; exact List.length_map _

theorem keepLen_modTx (u : Nat) (f : Tx → Tx) (c : Conn) : KeepLen c (c.modTx u f) := ⟨Nat.le_of_eq (modTx_length u f c)⟩

theorem keepLen_modIn (f : Tx → Tx) (c : Conn) : KeepLen c (c.modIn f) := by
  unfold Conn.modIn
  split
  · exact keepLen_modTx _ f c
  · exact KeepLen.refl c

theorem keepLen_modOut (f : Tx → Tx) (c : Conn) : KeepLen c (c.modOut f) := by
  unfold Conn.modOut
  split
  · exact keepLen_modTx _ f c
  · exact KeepLen.refl c

theorem keepLen_setTx (t : Tx) (c : Conn) : KeepLen c (c.setTx t) := ⟨Nat.le_of_eq (setTx_length t c)⟩

theorem keepLen_destroyTx (u : Nat) (c : Conn) : KeepLen c (destroyTx u c) := ⟨Nat.le_of_eq (destroyTx_length u c)⟩

/-- sequencing with `>>?` -/
theorem keepLen_andThen (c0 : Conn) (r : R) (f : Conn → R) (h1 : KeepLen c0 r.1) (h2 : ∀ c, KeepLen c (f c).1) :
    KeepLen c0 (r >>? f).1 := by
  unfold R.andThen
  split
  · exact h1.trans (h2 r.1)
  · exact h1

theorem growB_andThen {B : Nat} (c0 : Conn) (r : R) (f : Conn → R) (h1 : GrowB B c0 r.1) (h2 : ∀ c, GrowB B c (f c).1) :
    GrowB B c0 (r >>? f).1 := by
  unfold R.andThen
  split
  · exact h1.trans (h2 r.1)
  · exact h1

/-- **transaction creation**: with a non-zero `max_tx` the list is no longer than `max (old length) (max_tx + 1)` afterwards - it appends
    one entry, and refuses once more than `max_tx` are held -/
theorem growB_txCreate (cfg : Cfg) (hm : 0 < cfg.maxTx) (c : Conn) : GrowB (cfg.maxTx + 1) c (txCreate cfg c).1 := by
  refine ⟨?_⟩
  unfold txCreate
  simp only
  split
  · exact Nat.le_max_left _ _
  · rename_i hc
    simp only [List.length_append, List.length_cons, List.length_nil]
    have : ¬ (c.txs.length > cfg.maxTx) := by
      intro hgt
      apply hc
      simp [hm, hgt]
    omega

/-- without the hypothesis on `max_tx`: creation appends at most one entry -/
theorem txCreate_length_le (cfg : Cfg) (c : Conn) : (txCreate cfg c).1.txs.length ≤ c.txs.length + 1 := by
  unfold txCreate
  simp only
  split
  · exact Nat.le_succ _
  · simp only [List.length_append, List.length_cons, List.length_nil]
    exact Nat.le_refl _

/-! ### callbacks, body handlers, decompression -/

theorem keepLen_runCallback (h : Hook) (uid : Option Nat) (data : Option Bytes) (isLast : Bool) (c : Conn) (g : Nat) (s : Bool) :
    KeepLen c (runCallback h uid data isLast c g s).1 := by
  unfold runCallback
  simp only
  cases lookupAction c.policy c.cbCount with
  | ok => exact ⟨Nat.le_refl _⟩
  | declined => exact ⟨Nat.le_refl _⟩
  | stop => exact ⟨Nat.le_refl _⟩
  | error => exact ⟨Nat.le_refl _⟩
  | destroyTx =>
    simp only
    cases uid.bind c.findTx with
    | none => exact ⟨Nat.le_refl _⟩
    | some t =>
      simp only
      split
      · exact KeepLen.trans (b := { c with cbCount := c.cbCount + 1, events := _ :: c.events }) ⟨Nat.le_refl _⟩ (keepLen_destroyTx _ _)
      · exact ⟨Nat.le_refl _⟩
  | regTxHooks =>
    simp only
    cases uid with
    | none => exact ⟨Nat.le_refl _⟩
    | some u => exact KeepLen.trans (b := { c with cbCount := c.cbCount + 1, events := _ :: c.events }) ⟨Nat.le_refl _⟩ (keepLen_modTx _ _ _)

theorem keepLen_runCallbackN (n : Nat) (h : Hook) (uid : Option Nat) (data : Option Bytes) (isLast : Bool) (g : Nat) (c : Conn) :
    KeepLen c (runCallbackN n h uid data isLast g c).1 := by
  induction n generalizing c with
  | zero => exact KeepLen.refl c
  | succ k ih =>
    unfold runCallbackN
    exact keepLen_andThen c _ _ (keepLen_runCallback ..) (fun c' => ih c')

theorem keepLen_urlencBodyCallback (cfg : Cfg) (uid : Nat) (data : Option Bytes) (c : Conn) :
    KeepLen c (urlencBodyCallback cfg uid data c).1 := by
  unfold urlencBodyCallback
  cases c.findTx uid with
  | none => exact KeepLen.refl c
  | some t =>
    simp only
    cases t.urlenBody with
    | none => exact KeepLen.refl c
    | some u =>
      simp only
      split
      · exact KeepLen.refl c
      · cases data with
        | some d => exact keepLen_setTx _ c
        | none => exact keepLen_setTx _ c

theorem keepLen_mpartFileEvents (uid : Nat) (evs : List (Nat × Option Bytes)) (c : Conn) :
    KeepLen c (mpartFileEvents uid evs c) := by
  induction evs generalizing c with
  | nil => exact KeepLen.refl c
  | cons e rest ih =>
    obtain ⟨i, d⟩ := e
    unfold mpartFileEvents
    exact (keepLen_runCallback ..).trans (ih _)

theorem keepLen_mpartBodyCallback (uid : Nat) (data : Option Bytes) (c : Conn) :
    KeepLen c (mpartBodyCallback uid data c).1 := by
  unfold mpartBodyCallback
  cases c.findTx uid with
  | none => exact KeepLen.refl c
  | some t =>
    simp only
    cases t.mpart with
    | none => exact KeepLen.refl c
    | some mp =>
      simp only
      split
      · exact KeepLen.refl c
      · cases data with
        | some d => exact (keepLen_setTx _ c).trans (keepLen_mpartFileEvents _ _ _)
        | none => exact (keepLen_setTx _ c).trans (keepLen_mpartFileEvents _ _ _)

theorem keepLen_runTxReqBodyHooks (cfg : Cfg) (uid : Nat) (data : Option Bytes) (isLast : Bool) (g : Nat) (hs : List TxHook) (c : Conn) :
    KeepLen c (runTxReqBodyHooks cfg uid data isLast g hs c).1 := by
  induction hs generalizing c with
  | nil => exact KeepLen.refl c
  | cons h rest ih =>
    unfold runTxReqBodyHooks
    apply keepLen_andThen
    · cases h with
      | user => exact keepLen_runCallback ..
      | urlenc => exact keepLen_urlencBodyCallback ..
      | mpart => exact keepLen_mpartBodyCallback ..
    · intro c'
      exact ih c'

theorem keepLen_reqRunHookBodyDataL (cfg : Cfg) (data : Option Bytes) (g : Nat) (l : Bool) (c : Conn) :
    KeepLen c (reqRunHookBodyDataL cfg data g l c).1 := by
  unfold reqRunHookBodyDataL
  split
  · exact KeepLen.refl c
  · cases c.inn.tx with
    | none => exact KeepLen.refl c
    | some uid =>
      simp only
      apply keepLen_andThen
      · exact keepLen_runTxReqBodyHooks ..
      · intro c2
        apply keepLen_andThen
        · exact keepLen_runCallback ..
        · intro c3
          split
          · exact keepLen_runCallback ..
          · exact KeepLen.refl c3

theorem keepLen_reqRunHookBodyData (cfg : Cfg) (data : Option Bytes) (g : Nat) (c : Conn) :
    KeepLen c (reqRunHookBodyData cfg data g c).1 := by
  unfold reqRunHookBodyData; exact keepLen_reqRunHookBodyDataL ..

theorem keepLen_unsupported (c : Conn) : KeepLen c { c with unsupported := true } := ⟨Nat.le_refl _⟩
theorem keepLen_zoracle (c : Conn) (zs : List ZRes) : KeepLen c { c with zoracle := zs } := ⟨Nat.le_refl _⟩

theorem keepLen_resRunHookBodyData (data : Option Bytes) (c : Conn) : KeepLen c (resRunHookBodyData data c).1 := by
  unfold resRunHookBodyData
  split
  · exact KeepLen.refl c
  · cases c.out.tx with
    | none => exact KeepLen.refl c
    | some uid =>
      simp only
      apply keepLen_andThen
      · exact keepLen_runCallbackN ..
      · intro c2; exact keepLen_runCallback ..

theorem keepLen_decFinalCallback (cfg : Cfg) (req : Bool) (uid : Nat) (l : Bool) (data : Option Bytes) (c : Conn) :
    KeepLen c (decFinalCallback cfg req uid l data c).1 := by
  unfold decFinalCallback
  simp only
  cases req with
  | true =>
    simp only [if_true]
    have h := keepLen_reqRunHookBodyDataL cfg data 0 l (c.modTx uid fun t => { t with reqEntityLen := t.reqEntityLen + (data.map (·.length)).getD 0 })
    have h0 := (keepLen_modTx uid (fun t => { t with reqEntityLen := t.reqEntityLen + (data.map (·.length)).getD 0 }) c).trans h
    split
    · exact h0
    · split <;> exact h0
  | false =>
    simp only [Bool.false_eq_true, if_false]
    have h := keepLen_resRunHookBodyData data (c.modTx uid fun t => { t with resEntityLen := t.resEntityLen + (data.map (·.length)).getD 0 })
    have h0 := (keepLen_modTx uid (fun t => { t with resEntityLen := t.resEntityLen + (data.map (·.length)).getD 0 }) c).trans h
    split
    · exact h0
    · split <;> exact h0

/-- the functions of the decompression driver do not lengthen the list -/
theorem keepLen_dec (cfg : Cfg) (req : Bool) (uid : Nat) : ∀ fuel : Nat,
    (∀ l useNext rest data c, KeepLen c (decSend cfg req uid l fuel useNext rest data c).2.1) ∧
    (∀ d drec rest inp c, KeepLen c (decLoop cfg req uid d fuel drec rest inp c).2.1) ∧
    (∀ d drec rest inp c, KeepLen c (decStep cfg req uid d fuel drec rest inp c).2.1) ∧
    (∀ ds data c, KeepLen c (decompress cfg req uid fuel ds data c).2.1) := by
  intro fuel
  induction fuel with
  | zero =>
    refine ⟨?_, ?_, ?_, ?_⟩
    · intro l useNext rest data c; unfold decSend; exact keepLen_unsupported c
    · intro d drec rest inp c; unfold decLoop; exact keepLen_unsupported c
    · intro d drec rest inp c; unfold decStep; exact keepLen_unsupported c
    · intro ds data c; unfold decompress; exact keepLen_unsupported c
  | succ k ih =>
    obtain ⟨ihS, ihL, ihT, ihD⟩ := ih
    refine ⟨?_, ?_, ?_, ?_⟩
    · intro l useNext rest data c
      unfold decSend
      split
      · exact ihD ..
      · exact keepLen_decFinalCallback ..
    · intro d drec rest inp c
      unfold decLoop
      split
      · exact KeepLen.refl c
      · by_cases hfull : (drec.buf.length == GZIP_BUF_SIZE) = true
        · simp only [hfull, if_true]
          rcases hx : decSend cfg req uid false k (drec.kind != 0) rest (some drec.buf) c with ⟨rest1, c1, rc1⟩
          have f1 : KeepLen c c1 := by have := ihS false (drec.kind != 0) rest (some drec.buf) c; rw [hx] at this; exact this
          simp only
          by_cases hrc : (rc1 != Rc.ok) = true
          · simp only [hrc, if_true]; exact f1
          · simp only [hrc, Bool.false_eq_true, if_false]
            exact f1.trans (ihT ..)
        · simp only [hfull, Bool.false_eq_true, if_false]
          exact ihT ..
    · intro d drec rest inp c
      unfold decStep
      split
      · exact keepLen_unsupported c
      split
      · exact KeepLen.refl c
      split
      · exact keepLen_unsupported c
      · rename_i z zs hz
        simp only
        generalize (if ((drec.buf ++ z.produced).length > 0 && z.rc == Z_DATA_ERROR) = true then Z_STREAM_END else z.rc) = rcv
        split
        · -- stream end: the buffer goes out
          rcases hx : decSend cfg req uid false k (drec.kind != 0) rest (some (drec.buf ++ z.produced)) { c with zoracle := zs } with ⟨rest1, c1, rc1⟩
          have f1 : KeepLen c c1 := by
            have := ihS false (drec.kind != 0) rest (some (drec.buf ++ z.produced)) { c with zoracle := zs }
            rw [hx] at this; exact (keepLen_zoracle c zs).trans this
          simp only
          split <;> exact f1
        · split
          · split
            · split
              · exact keepLen_zoracle c zs
              · exact (keepLen_zoracle c zs).trans (ihL ..)
            · rcases hx : decFinalCallback cfg req uid false (some d) { c with zoracle := zs } with ⟨c1, rc1⟩
              have f1 : KeepLen c c1 := by
                have := keepLen_decFinalCallback cfg req uid false (some d) { c with zoracle := zs }
                rw [hx] at this; exact (keepLen_zoracle c zs).trans this
              simp only
              split <;> exact f1
          · exact (keepLen_zoracle c zs).trans (ihL ..)
    · intro ds data c
      unfold decompress
      cases ds with
      | nil => exact KeepLen.refl c
      | cons drec rest =>
        simp only
        split
        · rcases hx : decFinalCallback cfg req uid data.isNone data c with ⟨c1, rc1⟩
          have f1 : KeepLen c c1 := by have := keepLen_decFinalCallback cfg req uid data.isNone data c; rw [hx] at this; exact this
          exact f1
        · cases data with
          | none =>
            simp only
            rcases hx : decSend cfg req uid true k (drec.kind != 0) rest (if drec.buf.length > 0 then some drec.buf else none) c with ⟨rest1, c1, rc1⟩
            have f1 : KeepLen c c1 := by
              have := ihS true (drec.kind != 0) rest (if drec.buf.length > 0 then some drec.buf else none) c; rw [hx] at this; exact this
            simp only
            split <;> exact f1
          | some d => exact ihL ..


/-- body processing does not lengthen the list - with or without the request decompressor in the way -/
theorem keepLen_reqProcessBodyData (cfg : Cfg) (data : Option Bytes) (g : Nat) (c : Conn) :
    KeepLen c (reqProcessBodyData cfg data g c).1 := by
  unfold reqProcessBodyData
  cases c.inn.tx with
  | none => exact KeepLen.refl c
  | some uid =>
    simp only
    split
    · split
      · exact KeepLen.refl c
      · split
        · exact keepLen_unsupported c
        split
        · exact keepLen_unsupported c
        · rcases hx : decompress cfg true uid (8 * (data.map (·.length)).getD g + 128) c.inDecs data c with ⟨ds, c1, rc1⟩
          have f1 : KeepLen c c1 := by
            have := (keepLen_dec cfg true uid (8 * (data.map (·.length)).getD g + 128)).2.2.2 c.inDecs data c
            rw [hx] at this; exact this
          simp only
          exact f1.trans ⟨Nat.le_refl _⟩
    · have h := keepLen_reqRunHookBodyData cfg data g
        (c.modTx uid fun t => { t with reqEntityLen := t.reqEntityLen + (data.map (·.length)).getD g })
      split <;> exact (keepLen_modTx _ _ c).trans h


/-! ### receivers and the transaction state functions of the request side -/

theorem keepLen_reqReceiverSend (l : Bool) (c : Conn) : KeepLen c (reqReceiverSend l c).1 := by
  unfold reqReceiverSend
  cases c.inn.receiverHook with
  | none => exact KeepLen.refl c
  | some h =>
    simp only
    apply keepLen_andThen
    · exact keepLen_runCallback ..
    · intro c2; exact ⟨Nat.le_refl _⟩

theorem keepLen_reqReceiverFinalizeClear (c : Conn) : KeepLen c (reqReceiverFinalizeClear c).1 := by
  unfold reqReceiverFinalizeClear
  cases c.inn.receiverHook with
  | none => exact KeepLen.refl c
  | some h =>
    simp only
    exact (keepLen_reqReceiverSend true c).trans ⟨Nat.le_refl _⟩

theorem keepLen_reqReceiverSet (h : Hook) (c : Conn) : KeepLen c (reqReceiverSet h c).1 := by
  unfold reqReceiverSet
  simp only
  exact (keepLen_reqReceiverFinalizeClear c).trans ⟨Nat.le_refl _⟩

theorem keepLen_txFinalize (cfg : Cfg) (uid : Nat) (c : Conn) : KeepLen c (txFinalize cfg uid c).1 := by
  unfold txFinalize
  cases c.findTx uid with
  | none => exact KeepLen.refl c
  | some t =>
    simp only
    split
    · exact KeepLen.refl c
    · apply keepLen_andThen
      · exact keepLen_runCallback ..
      · intro c1
        split
        · split
          · exact keepLen_destroyTx ..
          · exact KeepLen.refl _
        · exact KeepLen.refl _

theorem keepLen_txStateRequestCompletePartial (cfg : Cfg) (uid : Nat) (c : Conn) :
    KeepLen c (txStateRequestCompletePartial cfg uid c).1 := by
  unfold txStateRequestCompletePartial
  simp only
  apply keepLen_andThen
  · split
    · exact keepLen_reqProcessBodyData ..
    · exact KeepLen.refl c
  · intro c1
    apply keepLen_andThen
    · exact (keepLen_modTx _ _ c1).trans (keepLen_runCallback ..)
    · intro c2
      apply keepLen_andThen
      · exact keepLen_reqReceiverFinalizeClear c2
      · intro c3; exact ⟨Nat.le_refl _⟩

theorem keepLen_txStateRequestComplete (cfg : Cfg) (uid : Nat) (c : Conn) : KeepLen c (txStateRequestComplete cfg uid c).1 := by
  unfold txStateRequestComplete
  simp only
  apply keepLen_andThen
  · split
    · exact keepLen_txStateRequestCompletePartial ..
    · exact KeepLen.refl c
  · intro c1
    have kf := keepLen_txFinalize cfg uid { c1 with inState := if ((c1.findTx uid).map (·.is09)).getD ((c.findTx uid).getD { uid := uid }).is09 then .ignoreDataAfter09 else .idle }
    rcases hx : txFinalize cfg uid { c1 with inState := if ((c1.findTx uid).map (·.is09)).getD ((c.findTx uid).getD { uid := uid }).is09 then .ignoreDataAfter09 else .idle } with ⟨c2, rc2⟩
    rw [hx] at kf
    exact ⟨kf.le⟩

theorem keepLen_txStateRequestStart (uid : Nat) (c : Conn) : KeepLen c (txStateRequestStart uid c).1 := by
  unfold txStateRequestStart
  apply keepLen_andThen
  · exact keepLen_runCallback ..
  · intro c1
    exact ⟨(keepLen_modIn _ { c1 with inState := .line }).le⟩

theorem keepLen_processRequestHeader (data : Bytes) (c : Conn) : KeepLen c (processRequestHeader data c).1 := by
  unfold processRequestHeader
  simp only
  exact (keepLen_modIn _ c).trans (keepLen_modIn _ _)

theorem keepLen_reqFlushHeader (c : Conn) : KeepLen c (reqFlushHeader c).1 := by
  unfold reqFlushHeader
  cases c.inn.header with
  | none => exact KeepLen.refl c
  | some h =>
    simp only
    have := keepLen_processRequestHeader h c
    split
    · exact this
    · exact this.trans ⟨Nat.le_refl _⟩

theorem keepLen_installUrlenc (cfg : Cfg) (uid : Nat) (t : Tx) (c : Conn) : KeepLen c (installUrlenc cfg uid t c) := by
  unfold installUrlenc
  simp only []
  repeat' split
  all_goals first | exact KeepLen.refl c | exact keepLen_setTx _ c

theorem keepLen_installMpart (cfg : Cfg) (uid : Nat) (t : Tx) (c : Conn) : KeepLen c (installMpart cfg uid t c) := by
  unfold installMpart
  simp only []
  repeat' split
  all_goals first | exact KeepLen.refl c | exact keepLen_setTx _ c

theorem keepLen_txProcessRequestHeadersTail (cfg : Cfg) (uid : Nat) (t : Tx) (ae : Bool) (c : Conn) :
    KeepLen c (txProcessRequestHeadersTail cfg uid t ae c).1 := by
  unfold txProcessRequestHeadersTail
  split
  · exact KeepLen.refl c
  · apply keepLen_andThen
    · exact keepLen_reqReceiverFinalizeClear c
    · intro c1
      exact ((keepLen_installUrlenc cfg uid t c1).trans (keepLen_installMpart cfg uid t _)).trans (keepLen_runCallback ..)

/-- htp_tx_process_request_headers: it stores the transaction record back with `setTx` -/
theorem keepLen_txProcessRequestHeaders (cfg : Cfg) (uid : Nat) (c : Conn) : KeepLen c (txProcessRequestHeaders cfg uid c).1 := by
  unfold txProcessRequestHeaders
  extract_lets t0 ce enc c2 t1 c1 fr t2 hasBody c0 un
  have k2 : KeepLen c c2 := keepLen_modTx ..
  have k1 : KeepLen c2 c1 := by
    simp only [c1]
    split
    · exact ⟨Nat.le_refl _⟩
    · exact KeepLen.refl _
  have k0 : KeepLen c1 c0 := by
    simp only [c0]
    split
    · exact ⟨Nat.le_refl _⟩
    · exact KeepLen.refl _
  have hc0 : KeepLen c c0 := (k2.trans k1).trans k0
  clear_value c0
  split
  extract_lets t3 t4 t5
  clear_value t5
  split
  rename_i T ae heq
  exact hc0.trans ((keepLen_setTx T c0).trans (keepLen_txProcessRequestHeadersTail ..))

theorem keepLen_urlencQueryCallback (cfg : Cfg) (uid : Nat) (c : Conn) : KeepLen c (urlencQueryCallback cfg uid c) := by
  unfold urlencQueryCallback
  cases c.findTx uid with
  | none => exact KeepLen.refl c
  | some t =>
    simp only []
    repeat' split
    all_goals first | exact KeepLen.refl c | exact keepLen_setTx _ c

theorem keepLen_txStateRequestLine (cfg : Cfg) (uid : Nat) (c : Conn) : KeepLen c (txStateRequestLine cfg uid c).1 := by
  unfold txStateRequestLine
  extract_lets t0 hp fl1 fl2 src t1 t2 t3 c1
  split
  · exact KeepLen.refl c
  · have hc1 : KeepLen c c1 := keepLen_setTx t3 c
    clear_value c1
    refine hc1.trans (keepLen_andThen c1 _ _ (keepLen_runCallback ..) ?_)
    intro c2
    have k3 : KeepLen c2 (if cfg.urlencParsers then urlencQueryCallback cfg uid c2 else c2) := by
      split
      · exact keepLen_urlencQueryCallback ..
      · exact KeepLen.refl _
    apply keepLen_andThen
    · exact k3.trans (keepLen_runCallback ..)
    · intro c3; exact ⟨Nat.le_refl _⟩

theorem keepLen_txStateRequestHeaders (cfg : Cfg) (uid : Nat) (c : Conn) : KeepLen c (txStateRequestHeaders cfg uid c).1 := by
  unfold txStateRequestHeaders
  simp only
  split
  · apply keepLen_andThen
    · exact keepLen_runCallback ..
    · intro c1
      apply keepLen_andThen
      · exact keepLen_reqReceiverFinalizeClear c1
      · intro c2; exact ⟨Nat.le_refl _⟩
  · split
    · have k0 : KeepLen c (if c.inChunkCount != c.inChunkRequestIndex then c.modTx uid (fun t => { t with flags := t.flags ||| MULTI_PACKET_HEAD }) else c) := by
        split
        · exact keepLen_modTx ..
        · exact KeepLen.refl c
      apply keepLen_andThen
      · exact k0.trans (keepLen_txProcessRequestHeaders ..)
      · intro c1; exact ⟨Nat.le_refl _⟩
    · exact KeepLen.refl c

/-! ### the fourteen request state functions -/

theorem keepLen_inn (c : Conn) (d : Dir) : KeepLen c { c with inn := d } := ⟨Nat.le_refl _⟩

/-- REQ_IDLE is the one request state that creates a transaction -/
theorem growB_reqIdle (cfg : Cfg) (hm : 0 < cfg.maxTx) (c : Conn) : GrowB (cfg.maxTx + 1) c (reqIdle cfg c).1 := by
  unfold reqIdle
  split
  · exact GrowB.refl _ c
  · have k := growB_txCreate cfg hm c
    rcases hx : txCreate cfg c with ⟨c1, u⟩
    rw [hx] at k
    simp only at k ⊢
    cases u with
    | none => exact k.trans ⟨Nat.le_max_left _ _⟩
    | some uid =>
      simp only
      have k2 := keepLen_txStateRequestStart uid c1
      rcases hy : txStateRequestStart uid c1 with ⟨c2, rc2⟩
      rw [hy] at k2
      exact k.trans (k2.grow _)

theorem keepLen_reqLineComplete (cfg : Cfg) (c : Conn) : KeepLen c (reqLineComplete cfg c).1 := by
  unfold reqLineComplete
  cases hc : c.inn.consolidate cfg.fieldLimitHard true with
  | none => exact KeepLen.refl c
  | some p =>
    obtain ⟨d, data⟩ := p
    simp -zeta only
    extract_lets c0 ci line rl c1
    have ki : KeepLen c ci := (keepLen_inn c d).trans (keepLen_modIn _ c0)
    have k1 : KeepLen c c1 := (keepLen_inn c d).trans (keepLen_modIn _ c0)
    clear_value ci c1
    split
    · exact ⟨Nat.le_refl _⟩
    · split
      · exact ki.trans ⟨Nat.le_refl _⟩
      · cases c1.inn.tx with
        | none => exact k1
        | some uid =>
          simp only
          have k2 := keepLen_txStateRequestLine cfg uid c1
          rcases hy : txStateRequestLine cfg uid c1 with ⟨c2, rc2⟩
          rw [hy] at k2
          simp only at k2 ⊢
          split
          · exact k1.trans k2
          · exact (k1.trans k2).trans ⟨Nat.le_refl _⟩

theorem keepLen_reqLineLoop (cfg : Cfg) (fuel : Nat) (c : Conn) : KeepLen c (reqLineLoop cfg fuel c).1 := by
  induction fuel generalizing c with
  | zero => unfold reqLineLoop; exact KeepLen.refl c
  | succ k ih =>
    unfold reqLineLoop
    simp only
    split
    · exact (keepLen_inn c _).trans (keepLen_reqLineComplete cfg _)
    · cases hn : (c.inn.peekSet).1.copyByte with
      | none => exact ⟨Nat.le_refl _⟩
      | some p =>
        obtain ⟨d, b⟩ := p
        simp only
        split
        · exact (keepLen_inn c _).trans (keepLen_reqLineComplete cfg _)
        · exact (keepLen_inn c _).trans (ih _)

theorem keepLen_reqProtocol (c : Conn) : KeepLen c (reqProtocol c).1 := by
  have k1 : KeepLen c ({ c with inState := .headers }.modIn (fun t => { t with reqProgress := 2 })) :=
    ⟨(keepLen_modIn _ { c with inState := .headers }).le⟩
  unfold reqProtocol
  simp only []
  repeat' split
  all_goals first
    | exact ⟨Nat.le_refl _⟩
    | exact k1
    | exact k1.trans (keepLen_modIn _ _)

theorem keepLen_reqHeadersLoop (cfg : Cfg) (fuel : Nat) (c : Conn) : KeepLen c (reqHeadersLoop cfg fuel c).1 := by
  induction fuel generalizing c with
  | zero => unfold reqHeadersLoop; exact KeepLen.refl c
  | succ k ih =>
    unfold reqHeadersLoop
    cases c.inn.tx with
    | none => exact KeepLen.refl c
    | some uid =>
      simp only
      split
      · apply keepLen_andThen
        · exact keepLen_reqFlushHeader c
        · intro c1
          exact (keepLen_inn c1 c1.inn.clearBuffer).trans ((keepLen_modIn _ _).trans (keepLen_txStateRequestHeaders ..))
      · cases hn : c.inn.copyByte with
        | none => exact KeepLen.refl c
        | some p =>
          obtain ⟨d, b⟩ := p
          simp only
          split
          · exact (keepLen_inn c d).trans (ih _)
          · cases hc : d.consolidate cfg.fieldLimitHard true with
            | none => exact ⟨Nat.le_refl _⟩
            | some q =>
              obtain ⟨d2, data⟩ := q
              simp only
              split
              · apply keepLen_andThen
                · exact (keepLen_inn c d2).trans (keepLen_reqFlushHeader _)
                · intro c1
                  exact (keepLen_inn c1 _).trans (keepLen_txStateRequestHeaders ..)
              · apply keepLen_andThen
                · split
                  · apply keepLen_andThen
                    · exact (keepLen_inn c d2).trans (keepLen_reqFlushHeader _)
                    · intro c1
                      split
                      · split
                        · have kk := keepLen_processRequestHeader (Parse.chomp data).1 { c1 with inn := (c1.inn.peekSet).1 }
                          split
                          · exact (keepLen_inn c1 _).trans kk
                          · exact (keepLen_inn c1 _).trans kk
                        · exact ⟨Nat.le_refl _⟩
                      · exact ⟨Nat.le_refl _⟩
                  · split
                    · exact ((keepLen_inn c d2).trans (keepLen_modIn _ _)).trans ⟨Nat.le_refl _⟩
                    · split
                      · exact ⟨Nat.le_refl _⟩
                      · exact ⟨Nat.le_refl _⟩
                · intro c1
                  exact (keepLen_inn c1 _).trans (ih _)

theorem keepLen_reqConnectCheck (c : Conn) : KeepLen c (reqConnectCheck c).1 := by
  unfold reqConnectCheck
  split <;> exact ⟨Nat.le_refl _⟩

theorem keepLen_reqConnectWaitResponse (c : Conn) : KeepLen c (reqConnectWaitResponse c).1 := by
  unfold reqConnectWaitResponse
  simp only []
  repeat' split
  all_goals exact ⟨Nat.le_refl _⟩

theorem keepLen_reqConnectProbeLoop (cfg : Cfg) (fuel : Nat) (c : Conn) : KeepLen c (reqConnectProbeLoop cfg fuel c).1 := by
  induction fuel generalizing c with
  | zero => unfold reqConnectProbeLoop; exact KeepLen.refl c
  | succ k ih =>
    unfold reqConnectProbeLoop
    simp only
    split
    · cases hc : (c.inn.peekSet).1.consolidate cfg.fieldLimitHard true with
      | none => exact ⟨Nat.le_refl _⟩
      | some q =>
        obtain ⟨d2, data⟩ := q
        simp only
        split
        · split
          · rename_i uid _
            exact (keepLen_inn c d2).trans (keepLen_txStateRequestComplete cfg uid _)
          · exact ⟨Nat.le_refl _⟩
        · exact ⟨Nat.le_refl _⟩
    · cases hn : (c.inn.peekSet).1.copyByte with
      | none => exact ⟨Nat.le_refl _⟩
      | some p =>
        obtain ⟨d, b⟩ := p
        exact (keepLen_inn c d).trans (ih _)

theorem keepLen_reqBodyDetermine (c : Conn) : KeepLen c (reqBodyDetermine c).1 := by
  unfold reqBodyDetermine
  simp only []
  repeat' split
  all_goals first
    | exact ⟨Nat.le_refl _⟩
    | exact ⟨(keepLen_modIn _ { c with inState := .bodyChunkedLength }).le⟩
    | exact ⟨(keepLen_modIn _ { c with inn := { c.inn with contentLength := c.inTx.reqContentLength, bodyDataLeft := c.inTx.reqContentLength }, inState := ReqState.bodyIdentity }).le⟩

theorem keepLen_reqBodyIdentity (cfg : Cfg) (c : Conn) : KeepLen c (reqBodyIdentity cfg c).1 := by
  unfold reqBodyIdentity
  extract_lets avail n data
  clear_value n data
  split
  · exact KeepLen.refl c
  · have k := keepLen_reqProcessBodyData cfg data (if c.inn.curNull then n.toNat else 0) c
    rcases hx : reqProcessBodyData cfg data (if c.inn.curNull then n.toNat else 0) c with ⟨c1, rc1⟩
    rw [hx] at k
    simp only at k ⊢
    have k2 : KeepLen c ({ c1 with inn := { c1.inn.advance n with bodyDataLeft := c1.inn.bodyDataLeft - n } }.modIn
        (fun t => { t with reqMessageLen := t.reqMessageLen + n.toNat })) :=
      k.trans ⟨(keepLen_modIn _ { c1 with inn := { c1.inn.advance n with bodyDataLeft := c1.inn.bodyDataLeft - n } }).le⟩
    split
    · exact k
    · split
      · exact k2.trans ⟨Nat.le_refl _⟩
      · exact k2

theorem keepLen_reqChunkedDataEndLoop (fuel : Nat) (c : Conn) : KeepLen c (reqChunkedDataEndLoop fuel c).1 := by
  induction fuel generalizing c with
  | zero => unfold reqChunkedDataEndLoop; exact KeepLen.refl c
  | succ k ih =>
    unfold reqChunkedDataEndLoop
    cases hn : c.inn.nextByteConsume with
    | none => exact KeepLen.refl c
    | some p =>
      obtain ⟨d, b⟩ := p
      simp only
      have k1 : KeepLen c ({ c with inn := d }.modIn (fun t => { t with reqMessageLen := t.reqMessageLen + 1 })) :=
        (keepLen_inn c d).trans (keepLen_modIn _ _)
      split
      · exact k1.trans ⟨Nat.le_refl _⟩
      · exact k1.trans (ih _)

theorem keepLen_reqBodyChunkedData (cfg : Cfg) (c : Conn) : KeepLen c (reqBodyChunkedData cfg c).1 := by
  unfold reqBodyChunkedData
  extract_lets avail n data
  clear_value n data
  split
  · exact KeepLen.refl c
  · have k := keepLen_reqProcessBodyData cfg (some data) 0 c
    rcases hx : reqProcessBodyData cfg (some data) 0 c with ⟨c1, rc1⟩
    rw [hx] at k
    simp only at k ⊢
    have k2 : KeepLen c ({ c1 with inn := { c1.inn.advance n with chunkedLength := c1.inn.chunkedLength - n } }.modIn
        (fun t => { t with reqMessageLen := t.reqMessageLen + n.toNat })) :=
      k.trans ⟨(keepLen_modIn _ { c1 with inn := { c1.inn.advance n with chunkedLength := c1.inn.chunkedLength - n } }).le⟩
    split
    · exact k
    · split
      · exact k2.trans ⟨Nat.le_refl _⟩
      · exact k2

theorem keepLen_reqChunkedLengthLoop (cfg : Cfg) (fuel : Nat) (c : Conn) : KeepLen c (reqChunkedLengthLoop cfg fuel c).1 := by
  induction fuel generalizing c with
  | zero => unfold reqChunkedLengthLoop; exact KeepLen.refl c
  | succ k ih =>
    unfold reqChunkedLengthLoop
    cases hn : c.inn.copyByte with
    | none => exact KeepLen.refl c
    | some p =>
      obtain ⟨d, b⟩ := p
      simp -zeta only
      extract_lets c0
      have h0 : KeepLen c c0 := keepLen_inn c d
      split
      · exact h0.trans (ih _)
      · cases hc : c0.inn.consolidate cfg.fieldLimitHard true with
        | none => exact h0
        | some q =>
          obtain ⟨d2, data⟩ := q
          simp -zeta only
          extract_lets c1 line src c2
          have h1 : KeepLen c c1 := (h0.trans (keepLen_inn c0 d2)).trans (keepLen_modIn _ _)
          have h2 : KeepLen c c2 := h1.trans ⟨Nat.le_refl _⟩
          clear_value c2 c1
          split
          · exact h2.trans ⟨Nat.le_refl _⟩
          · split
            · exact h2.trans ⟨(keepLen_modIn _ { c2 with inState := .headers }).le⟩
            · exact h2

theorem keepLen_reqIgnore (c : Conn) : KeepLen c (reqIgnoreDataAfter09 c).1 := by
  unfold reqIgnoreDataAfter09
  simp only []
  split <;> exact ⟨Nat.le_refl _⟩

theorem keepLen_reqFinalize (cfg : Cfg) (c : Conn) : KeepLen c (reqFinalize cfg c).1 := by
  unfold reqFinalize
  cases c.inn.tx with
  | none => exact KeepLen.refl c
  | some uid =>
    simp -zeta only
    extract_lets cp pre
    have hp : ∀ c' b, pre = some (c', b) → c'.txs = c.txs := by
      intro c' b hpre
      simp only [pre] at hpre
      split at hpre
      · split at hpre
        · simp only [Option.some.injEq, Prod.mk.injEq] at hpre; rw [← hpre.1]
        · split at hpre
          · split at hpre
            · simp at hpre
            · simp only [Option.some.injEq, Prod.mk.injEq] at hpre
              rw [← hpre.1]
          · simp only [Option.some.injEq, Prod.mk.injEq] at hpre; rw [← hpre.1]
      · simp only [Option.some.injEq, Prod.mk.injEq] at hpre; rw [← hpre.1]
    clear_value pre
    have viaComplete : ∀ c' : Conn, c'.txs = c.txs →
        KeepLen c (txStateRequestComplete cfg uid c').1 :=
      fun c' h' => (keepLen_of_txs h').trans (keepLen_txStateRequestComplete ..)
    split
    · exact ⟨Nat.le_refl _⟩
    · rename_i _ c1
      exact viaComplete c1 (hp _ _ rfl)
    · rename_i _ c1
      have h1 := hp _ _ rfl
      clear hp
      cases hc : c1.inn.consolidate cfg.fieldLimitHard true with
      | none => exact keepLen_of_txs h1
      | some q =>
        obtain ⟨d2, data⟩ := q
        simp -zeta only
        extract_lets c2
        have h2 : c2.txs = c.txs := h1
        clear_value c2
        split
        · exact viaComplete c2 h2
        · rename_i src go _
          have hgo : ∀ c', go = some c' → c'.txs = c.txs := by
            intro c' hg
            simp only [go] at hg
            split at hg
            · split at hg
              · simp at hg
              · simp only [Option.some.injEq] at hg
                rw [← hg]
                split
                · exact h2
                · exact h2
            · simp only [Option.some.injEq] at hg; rw [← hg]; exact h2
          clear_value go
          split
          · exact viaComplete _ h2
          · rename_i c3
            have h3 := hgo _ rfl
            clear hgo
            extract_lets r
            have hr : ∀ c' dd, r = some (c', dd) → c'.txs = c.txs := by
              intro c' dd hh
              simp only [r] at hh
              split at hh
              · cases hcb : c3.inn.copyByte with
                | none => rw [hcb] at hh; simp at hh
                | some p =>
                  obtain ⟨d4, b4⟩ := p
                  rw [hcb] at hh
                  simp only at hh
                  cases hc4 : d4.consolidate cfg.fieldLimitHard true with
                  | none =>
                    rw [hc4] at hh
                    simp only [Option.some.injEq, Prod.mk.injEq] at hh
                    rw [← hh.1]; exact h3
                  | some q4 =>
                    obtain ⟨d5, data5⟩ := q4
                    rw [hc4] at hh
                    simp only [Option.some.injEq, Prod.mk.injEq] at hh
                    rw [← hh.1]; exact h3
              · simp only [Option.some.injEq, Prod.mk.injEq] at hh; rw [← hh.1]; exact h3
            clear_value r
            split
            · exact keepLen_of_txs h3
            · rename_i c6 data6
              have h6 := hr _ _ rfl
              have k := keepLen_reqProcessBodyData cfg (some data6) 0 c6
              rcases hx : reqProcessBodyData cfg (some data6) 0 c6 with ⟨c7, rc7⟩
              rw [hx] at k
              simp only at k ⊢
              exact ((keepLen_of_txs h6).trans k).trans ⟨Nat.le_refl _⟩

theorem keepLen_reqHandleStateChange (c : Conn) : KeepLen c (reqHandleStateChange c).1 := by
  unfold reqHandleStateChange
  split
  · exact KeepLen.refl c
  · simp only
    apply keepLen_andThen
    · repeat' split
      all_goals first | exact KeepLen.refl c | exact keepLen_reqReceiverSet _ c
    · intro c1; exact ⟨Nat.le_refl _⟩

theorem growB_reqStateFn (cfg : Cfg) (hm : 0 < cfg.maxTx) (c : Conn) : GrowB (cfg.maxTx + 1) c (reqStateFn cfg c).1 := by
  unfold reqStateFn
  cases c.inState with
  | idle => exact growB_reqIdle cfg hm c
  | line => exact (keepLen_reqLineLoop cfg _ c).grow _
  | protocol => exact (keepLen_reqProtocol c).grow _
  | headers => exact (keepLen_reqHeadersLoop cfg _ c).grow _
  | connectCheck => exact (keepLen_reqConnectCheck c).grow _
  | connectWaitResponse => exact (keepLen_reqConnectWaitResponse c).grow _
  | connectProbeData => exact (keepLen_reqConnectProbeLoop cfg _ c).grow _
  | bodyDetermine => exact (keepLen_reqBodyDetermine c).grow _
  | bodyIdentity => exact (keepLen_reqBodyIdentity cfg c).grow _
  | bodyChunkedLength => exact (keepLen_reqChunkedLengthLoop cfg _ c).grow _
  | bodyChunkedData => exact (keepLen_reqBodyChunkedData cfg c).grow _
  | bodyChunkedDataEnd => exact (keepLen_reqChunkedDataEndLoop _ c).grow _
  | finalize => exact (keepLen_reqFinalize cfg c).grow _
  | ignoreDataAfter09 => exact (keepLen_reqIgnore c).grow _

theorem keepLen_reqStoreChunk (data : Option Bytes) (len : Nat) (c : Conn) : KeepLen c (reqStoreChunk data len c) := ⟨Nat.le_refl _⟩

theorem keepLen_reqWakeOther (c : Conn) : KeepLen c (reqWakeOther c) := by
  unfold reqWakeOther
  split <;> exact ⟨Nat.le_refl _⟩

/-- the for(;;) of htp_connp_req_data - data, gap or close, any fuel -/
theorem growB_reqDriverLoop (cfg : Cfg) (hm : 0 < cfg.maxTx) (gap : Bool) (fuel : Nat) (c : Conn) : GrowB (cfg.maxTx + 1) c (reqDriverLoop cfg gap fuel c).1 := by
  induction fuel generalizing c with
  | zero => unfold reqDriverLoop; exact ⟨Nat.le_max_left _ _⟩
  | succ k ih =>
    unfold reqDriverLoop
    simp only
    -- what happens with the answer of one pass
    have tail : ∀ (c1 : Conn) (rc1 : Rc), GrowB (cfg.maxTx + 1) c c1 → GrowB (cfg.maxTx + 1) c
        (match (if (rc1 == Rc.ok) = true then
                  if (c1.inn.status == STREAM_TUNNEL) = true then (c1, Rc.ok) else reqHandleStateChange c1
                else (c1, rc1) : R) with
         | (c, rc) =>
          if (rc == Rc.ok) = true then
            if (c.inn.status == STREAM_TUNNEL) = true then (c, STREAM_TUNNEL) else reqDriverLoop cfg gap k c
          else if (rc == Rc.data || rc == Rc.dataBuffer) = true then
            (match reqReceiverSend false c with
             | (c, _) =>
               if (rc == Rc.dataBuffer) = true then
                 (match c.inn.buffer cfg.fieldLimitHard true with
                  | none => (({ c with inn := { c.inn with status := STREAM_ERROR } }, STREAM_ERROR) : Conn × Nat)
                  | some d => ({ c with inn := { d with status := STREAM_DATA } }, STREAM_DATA))
               else ({ c with inn := { c.inn with status := STREAM_DATA } }, STREAM_DATA))
          else if (rc == Rc.dataOther) = true then
            (if c.inn.read ≥ c.inn.len then ({ c with inn := { c.inn with status := STREAM_DATA } }, STREAM_DATA)
             else ({ c with inn := { c.inn with status := STREAM_DATA_OTHER } }, STREAM_DATA_OTHER))
          else if (rc == Rc.stop) = true then ({ c with inn := { c.inn with status := STREAM_STOP } }, STREAM_STOP)
          else ({ c with inn := { c.inn with status := STREAM_ERROR } }, STREAM_ERROR)).1 := by
      intro c1 rc1 k1
      have k2 : GrowB (cfg.maxTx + 1) c (if (rc1 == Rc.ok) = true then
                  if (c1.inn.status == STREAM_TUNNEL) = true then (c1, Rc.ok) else reqHandleStateChange c1
                else (c1, rc1) : R).1 := by
        split
        · split
          · exact k1
          · exact k1.trans ((keepLen_reqHandleStateChange c1).grow _)
        · exact k1
      generalize (if (rc1 == Rc.ok) = true then
                  if (c1.inn.status == STREAM_TUNNEL) = true then (c1, Rc.ok) else reqHandleStateChange c1
                else (c1, rc1) : R) = r2 at k2 ⊢
      obtain ⟨c2, rc2⟩ := r2
      simp only at k2 ⊢
      split
      · split
        · exact k2
        · exact k2.trans (ih c2)
      · split
        · have kk := (keepLen_reqReceiverSend false c2).grow (cfg.maxTx + 1)
          rcases hz : reqReceiverSend false c2 with ⟨c3, rc3⟩
          rw [hz] at kk
          simp only at kk ⊢
          split
          · cases hb : c3.inn.buffer cfg.fieldLimitHard true with
            | none => exact (k2.trans kk).trans ⟨Nat.le_max_left _ _⟩
            | some d => exact (k2.trans kk).trans ⟨Nat.le_max_left _ _⟩
          · exact (k2.trans kk).trans ⟨Nat.le_max_left _ _⟩
        · repeat' split
          all_goals exact k2.trans ⟨Nat.le_max_left _ _⟩
    split
    · exact GrowB.refl _ c
    · rename_i c1 rc1 hstep
      have k1 : GrowB (cfg.maxTx + 1) c c1 := by
        split at hstep
        · split at hstep
          · simp only [Option.some.injEq] at hstep
            have := growB_reqStateFn cfg hm c
            rw [hstep] at this; exact this
          · split at hstep
            · split at hstep
              · rename_i uid _
                simp only [Option.some.injEq] at hstep
                have := (keepLen_txStateRequestComplete cfg uid c).grow (cfg.maxTx + 1)
                rw [hstep] at this; exact this
              · simp only [Option.some.injEq, Prod.mk.injEq] at hstep
                rw [← hstep.1]; exact GrowB.refl _ c
            · simp at hstep
        · simp only [Option.some.injEq] at hstep
          have := growB_reqStateFn cfg hm c
          rw [hstep] at this; exact this
      exact tail c1 rc1 k1



/-- **htp_connp_req_data**: any data (a chunk, a stream gap, the NULL chunk of a close), any length -/
theorem growB_reqData (cfg : Cfg) (hm : 0 < cfg.maxTx) (data : Option Bytes) (len : Nat) (c : Conn) :
    GrowB (cfg.maxTx + 1) c (reqData cfg data len c).1 := by
  unfold reqData
  simp only
  have key : GrowB (cfg.maxTx + 1) c (reqDataCore cfg data len c).1 := by
    unfold reqDataCore
    split
    · exact ⟨Nat.le_max_left _ _⟩
    split
    · exact ⟨Nat.le_max_left _ _⟩
    split
    · exact ⟨Nat.le_max_left _ _⟩
    split
    · exact ⟨Nat.le_max_left _ _⟩
    simp only
    split
    · exact ⟨Nat.le_max_left _ _⟩
    · exact (((keepLen_reqStoreChunk data len c).trans (keepLen_reqWakeOther _)).grow _).trans (growB_reqDriverLoop cfg hm _ _ _)
  exact ⟨key.le⟩

end Htp.Conn
