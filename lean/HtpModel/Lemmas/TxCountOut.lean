/- C10 (max_tx) over whole histories, part 2: the response side, the other calls, and the headline theorems.

   Every function of the response side keeps the length of the transaction list (`KeepLen`) except the unmatched-response path of
   RES_IDLE (`resIdleUnmatched`), which creates a transaction and is `GrowB (max_tx + 1)` like `txCreate`; so are its callers up to
   htp_connp_res_data. htp_connp_open keeps the list, htp_connp_tx_freed only removes leading empty slots, the two close calls are a
   request and a response data call with a NULL chunk. So, with a non-zero `max_tx`, no history of calls makes the list longer than
   `max (start length) (max_tx + 1)`: `history_txs_bounded`. No function other than creation was found to append to the list. -/
import HtpModel.Lemmas.TxCount
import HtpModel.Lemmas.History
namespace Htp.Conn
open Htp Htp.Gen

theorem keepLen_out (c : Conn) (d : Dir) : KeepLen c { c with out := d } := ⟨Nat.le_refl _⟩

/-! ### receivers, body data, transaction state functions of the response side -/

theorem keepLen_resReceiverSend (l : Bool) (c : Conn) : KeepLen c (resReceiverSend l c).1 := by
  unfold resReceiverSend
  cases c.out.receiverHook with
  | none => exact KeepLen.refl c
  | some h =>
    simp only
    apply keepLen_andThen
    · exact keepLen_runCallback ..
    · intro c2; exact ⟨Nat.le_refl _⟩

theorem keepLen_resReceiverFinalizeClear (c : Conn) : KeepLen c (resReceiverFinalizeClear c).1 := by
  unfold resReceiverFinalizeClear
  cases c.out.receiverHook with
  | none => exact KeepLen.refl c
  | some h =>
    simp only
    exact (keepLen_resReceiverSend true c).trans ⟨Nat.le_refl _⟩

theorem keepLen_resReceiverSet (h : Hook) (c : Conn) : KeepLen c (resReceiverSet h c).1 := by
  unfold resReceiverSet
  simp only
  exact (keepLen_resReceiverFinalizeClear c).trans ⟨Nat.le_refl _⟩

theorem keepLen_resProcessBodyData (cfg : Cfg) (data : Option Bytes) (c : Conn) : KeepLen c (resProcessBodyData cfg data c).1 := by
  unfold resProcessBodyData
  cases c.out.tx with
  | none => exact KeepLen.refl c
  | some uid =>
    simp only
    have f0 : KeepLen c (c.modTx uid fun t => { t with resMessageLen := t.resMessageLen + (data.map (·.length)).getD 0 }) := keepLen_modTx ..
    split
    · split
      · exact f0
      · split
        · exact f0.trans (keepLen_unsupported _)
        · rcases hx : decompress cfg false uid (8 * (data.map (·.length)).getD 0 + 128)
            (c.modTx uid fun t => { t with resMessageLen := t.resMessageLen + (data.map (·.length)).getD 0 }).outDecs data
            (c.modTx uid fun t => { t with resMessageLen := t.resMessageLen + (data.map (·.length)).getD 0 }) with ⟨ds, c1, rc1⟩
          have f1 := (keepLen_dec cfg false uid (8 * (data.map (·.length)).getD 0 + 128)).2.2.2
            (c.modTx uid fun t => { t with resMessageLen := t.resMessageLen + (data.map (·.length)).getD 0 }).outDecs data
            (c.modTx uid fun t => { t with resMessageLen := t.resMessageLen + (data.map (·.length)).getD 0 })
          rw [hx] at f1
          simp only at f1 ⊢
          exact (f0.trans f1).trans ⟨Nat.le_refl _⟩
    · split
      · have h := keepLen_resRunHookBodyData data
          ((c.modTx uid fun t => { t with resMessageLen := t.resMessageLen + (data.map (·.length)).getD 0 }).modTx uid
            fun t => { t with resEntityLen := t.resEntityLen + (data.map (·.length)).getD 0 })
        have f2 := (f0.trans (keepLen_modTx uid (fun t => { t with resEntityLen := t.resEntityLen + (data.map (·.length)).getD 0 }) _)).trans h
        split <;> exact f2
      · exact f0

theorem keepLen_resProcessBodyDataGap (cfg : Cfg) (data : Option Bytes) (g : Nat) (c : Conn) :
    KeepLen c (resBodyIdentityClKnown.resProcessBodyDataGap cfg data g c).1 := by
  unfold resBodyIdentityClKnown.resProcessBodyDataGap
  split
  · exact keepLen_resProcessBodyData ..
  · cases c.out.tx with
    | none => exact KeepLen.refl c
    | some uid =>
      simp only
      have f0 : KeepLen c (c.modTx uid fun t => { t with resMessageLen := t.resMessageLen + g }) := keepLen_modTx ..
      split
      · have f1 := f0.trans (keepLen_modTx uid (fun t => { t with resEntityLen := t.resEntityLen + g }) _)
        split
        · refine f1.trans ?_
          apply keepLen_andThen
          · exact keepLen_runCallbackN ..
          · intro c2; exact keepLen_runCallback ..
        · refine f1.trans ?_
          apply keepLen_andThen
          · exact keepLen_runCallbackN ..
          · intro c2; exact keepLen_runCallback ..
      · exact f0.trans (keepLen_unsupported _)

theorem keepLen_processResponseHeader (d : Bytes) (c : Conn) : KeepLen c (processResponseHeader d c).1 := by
  unfold processResponseHeader
  simp only
  exact (keepLen_modOut _ c).trans (keepLen_modOut _ _)

theorem keepLen_resFlushHeader (c : Conn) : KeepLen c (resFlushHeader c).1 := by
  unfold resFlushHeader
  cases c.out.header with
  | none => exact KeepLen.refl c
  | some h =>
    simp only
    have := keepLen_processResponseHeader h c
    split
    · exact this
    · exact this.trans ⟨Nat.le_refl _⟩

theorem keepLen_txStateResponseLine (uid : Nat) (c : Conn) : KeepLen c (txStateResponseLine uid c).1 := by
  unfold txStateResponseLine
  simp only
  refine KeepLen.trans ?_ (keepLen_runCallback ..)
  split
  · exact keepLen_modTx ..
  · exact KeepLen.refl c

theorem keepLen_txStateResponseHeaders (cfg : Cfg) (uid : Nat) (c : Conn) : KeepLen c (txStateResponseHeaders cfg uid c).1 := by
  unfold txStateResponseHeaders
  rcases responseNeedsDecompressor cfg ((c.findTx uid).getD { uid := uid }) with ⟨enc, needs⟩
  simp only
  apply keepLen_andThen
  · exact (keepLen_modTx uid _ c).trans (keepLen_resReceiverFinalizeClear _)
  · intro c1
    apply keepLen_andThen
    · exact keepLen_runCallback ..
    · intro c2
      split
      · split
        · exact ⟨Nat.le_refl _⟩
        · cases ceChain cfg ((getHeaderC ((c.findTx uid).getD { uid := uid }).resHeaders (b!"content-encoding")).map (·.value) |>.getD []) with
          | nil => exact ⟨Nat.le_refl _⟩
          | cons ty rest =>
            exact ⟨(keepLen_modTx uid _ { c2 with outDecs := (ty :: rest).map (decCreate cfg), outDecompressor := true }).le⟩
      · exact KeepLen.refl _

theorem keepLen_txStateResponseStart (uid : Nat) (c : Conn) : KeepLen c (txStateResponseStart uid c).1 := by
  unfold txStateResponseStart
  simp only
  apply keepLen_andThen
  · exact (keepLen_out c _).trans (keepLen_runCallback ..)
  · intro c1
    split
    · exact (keepLen_modTx uid _ c1).trans ⟨Nat.le_refl _⟩
    · exact (keepLen_modTx uid _ c1).trans ⟨Nat.le_refl _⟩

theorem keepLen_txStateResponseCompleteEx (cfg : Cfg) (uid : Nat) (c : Conn) : KeepLen c (txStateResponseCompleteEx cfg uid c).1 := by
  unfold txStateResponseCompleteEx
  simp only
  apply keepLen_andThen
  · split
    · apply keepLen_andThen
      · refine KeepLen.trans ?_ (keepLen_runCallback ..)
        split
        · exact (keepLen_modTx uid _ c).trans (keepLen_resProcessBodyData ..)
        · exact keepLen_modTx ..
      · intro c1; exact keepLen_resReceiverFinalizeClear _
    · exact KeepLen.refl c
  · intro c1
    split
    · exact KeepLen.refl _
    · split
      · exact ⟨Nat.le_refl _⟩
      · apply keepLen_andThen
        · exact keepLen_txFinalize ..
        · intro c2; exact ⟨Nat.le_refl _⟩

/-! ### the ten response state functions -/

/-- the unmatched-response path of RES_IDLE creates a transaction -/
theorem growB_resIdleUnmatched (cfg : Cfg) (hm : 0 < cfg.maxTx) (c : Conn) : GrowB (cfg.maxTx + 1) c (resIdleUnmatched cfg c).1 := by
  unfold resIdleUnmatched
  have k := growB_txCreate cfg hm c
  rcases hx : txCreate cfg c with ⟨c2, u⟩
  rw [hx] at k
  simp only at k ⊢
  cases u with
  | none => exact k.trans ⟨Nat.le_max_left _ _⟩
  | some uid =>
    simp only
    have h3 : KeepLen c2 (({ c2 with out := { c2.out with tx := some uid } } : Conn).modTx uid
        (fun t => { t with uriNorm := some { path := some REQUEST_URI_NOT_SEEN }, uri := some REQUEST_URI_NOT_SEEN })) :=
      ⟨(keepLen_modTx uid _ { c2 with out := { c2.out with tx := some uid } }).le⟩
    have h4 := keepLen_txStateResponseStart uid
      { ({ c2 with out := { c2.out with tx := some uid } } : Conn).modTx uid
          (fun t => { t with uriNorm := some { path := some REQUEST_URI_NOT_SEEN }, uri := some REQUEST_URI_NOT_SEEN }) with
        inState := .finalize,
        outNextTxIndex := (({ c2 with out := { c2.out with tx := some uid } } : Conn).modTx uid
          (fun t => { t with uriNorm := some { path := some REQUEST_URI_NOT_SEEN }, uri := some REQUEST_URI_NOT_SEEN })).outNextTxIndex + 1 }
    exact k.trans ((h3.trans ⟨h4.le⟩).grow _)

theorem growB_resIdle (cfg : Cfg) (hm : 0 < cfg.maxTx) (c : Conn) : GrowB (cfg.maxTx + 1) c (resIdle cfg c).1 := by
  unfold resIdle
  split
  · exact GrowB.refl _ c
  · simp only []
    split
    · have hk : KeepLen c (if c.inState == .finalize then (match c.inn.tx with | some uid => (txStateRequestComplete cfg uid c).1 | none => c) else c) := by
        split
        · split
          · exact keepLen_txStateRequestComplete ..
          · exact KeepLen.refl c
        · exact KeepLen.refl c
      exact (hk.grow _).trans (growB_resIdleUnmatched cfg hm _)
    · rename_i t _
      have h := keepLen_txStateResponseStart t.uid
        { c with outNextTxIndex := c.outNextTxIndex + 1, out := { c.out with tx := some t.uid, contentLength := -1, bodyDataLeft := -1 } }
      exact ⟨Nat.le_trans h.le (Nat.le_max_left _ _)⟩

theorem keepLen_resLineAsBody (cfg : Cfg) (uid : Nat) (dn : Bool) (data line : Bytes) (cr : Nat) (c : Conn) :
    KeepLen c (resLineAsBody cfg uid dn data line cr c).1 := by
  unfold resLineAsBody
  extract_lets nextIsH rd1 ln1 c1 c2 src c3
  have k1 : KeepLen c c1 := keepLen_modTx ..
  have k3 : KeepLen c c3 := (keepLen_modTx uid _ c).trans ⟨Nat.le_refl _⟩
  clear_value c1 c3
  split
  · exact k1.trans ⟨Nat.le_refl _⟩
  · have k := keepLen_resProcessBodyData cfg (if dn then none else some (data.take (line.length + cr))) c3
    rcases hx : resProcessBodyData cfg (if dn then none else some (data.take (line.length + cr))) c3 with ⟨c4, rc4⟩
    rw [hx] at k
    simp only at k ⊢
    split
    · exact (k3.trans k).trans ⟨Nat.le_refl _⟩
    · split
      · exact (k3.trans k).trans ((keepLen_out c4 _).trans ((keepLen_modTx uid _ _).trans ⟨Nat.le_refl _⟩))
      · exact (k3.trans k).trans ⟨Nat.le_refl _⟩

theorem keepLen_resLineComplete (cfg : Cfg) (uid : Nat) (closed : Bool) (c : Conn) : KeepLen c (resLineComplete cfg uid closed c).1 := by
  unfold resLineComplete
  cases hc : c.out.consolidate cfg.fieldLimitHard false with
  | none => exact KeepLen.refl c
  | some q =>
    obtain ⟨d2, data⟩ := q
    simp -zeta only
    extract_lets dataNull c0 c1 c2 c3 rl c4
    have h0 : KeepLen c c0 := keepLen_out c d2
    have h1 : KeepLen c c1 := by
      simp only [c1]
      split
      · exact h0.trans ⟨Nat.le_refl _⟩
      · exact h0
    have h2 : KeepLen c c2 := h1.trans (keepLen_modTx ..)
    have h3 : KeepLen c c3 := h0.trans (keepLen_modTx ..)
    have h4 : KeepLen c c4 := h3.trans (keepLen_modTx ..)
    clear_value c0 c1 c2 c3 c4 dataNull
    split
    · exact h2.trans ⟨Nat.le_refl _⟩
    · split
      · exact h3.trans (keepLen_resLineAsBody ..)
      · refine h4.trans ?_
        apply keepLen_andThen
        · exact keepLen_txStateResponseLine uid c4
        · intro c5
          exact ⟨(keepLen_modTx uid _ { c5 with out := c5.out.clearBuffer, outState := .headers }).le⟩

theorem keepLen_resLineLoop (cfg : Cfg) (fuel : Nat) (c : Conn) : KeepLen c (resLineLoop cfg fuel c).1 := by
  induction fuel generalizing c with
  | zero => unfold resLineLoop; exact KeepLen.refl c
  | succ k ih =>
    unfold resLineLoop
    cases c.out.tx with
    | none => exact KeepLen.refl c
    | some uid =>
      simp only
      split
      · exact KeepLen.refl c
      · rename_i c1 h1
        have e1 : c1.txs = c.txs := by
          split at h1
          · cases hcb : c.out.copyByte with
            | none => rw [hcb] at h1; simp at h1
            | some p =>
              obtain ⟨d, b⟩ := p
              rw [hcb] at h1
              simp only [Option.some.injEq] at h1
              rw [← h1]
          · simp only [Option.some.injEq] at h1; rw [← h1]
        split
        · exact (keepLen_of_txs e1).trans ⟨Nat.le_refl _⟩
        · rename_i c2 h2
          have e2 : c2.txs = c.txs := by
            split at h2
            · simp only [Dir.peekSet] at h2
              cases hp : c1.out.peek with
              | none => rw [hp] at h2; simp at h2
              | some b =>
                rw [hp] at h2
                simp only at h2
                split at h2
                · simp only [Except.ok.injEq, Prod.mk.injEq] at h2; rw [← h2.1]; exact e1
                · simp only [Except.ok.injEq, Prod.mk.injEq] at h2; simp at h2
            · simp only [Except.ok.injEq, Prod.mk.injEq] at h2; simp at h2
          exact (keepLen_of_txs e2).trans (ih c2)
        · rename_i c2 h2
          have e2 : c2.txs = c.txs := by
            split at h2
            · simp only [Dir.peekSet] at h2
              cases hp : c1.out.peek with
              | none => rw [hp] at h2; simp at h2
              | some b =>
                rw [hp] at h2
                simp only at h2
                split at h2
                · simp only [Except.ok.injEq, Prod.mk.injEq] at h2; simp at h2
                · simp only [Except.ok.injEq, Prod.mk.injEq] at h2; rw [← h2.1]; exact e1
            · simp only [Except.ok.injEq, Prod.mk.injEq] at h2; rw [← h2.1]; exact e1
          split
          · exact (keepLen_of_txs e2).trans (ih c2)
          · exact (keepLen_of_txs e2).trans (keepLen_resLineComplete ..)

theorem keepLen_resHeaderLine (uid : Nat) (line : Bytes) (c : Conn) : KeepLen c (resHeaderLine uid line c).1 := by
  unfold resHeaderLine
  split
  · apply keepLen_andThen
    · exact keepLen_resFlushHeader c
    · intro c1
      simp only [Dir.peekSet]
      obtain hp | ⟨b, hp⟩ : c1.out.peek = none ∨ ∃ b, c1.out.peek = some b := by cases c1.out.peek <;> simp
      · simp only [hp, Bool.not_true, Bool.false_eq_true, if_false]
        exact ⟨Nat.le_refl _⟩
      · simp only [hp]
        by_cases hf : isFoldingChar b = true
        · simp only [hf, Bool.not_true, Bool.false_eq_true, if_false]
          exact ⟨Nat.le_refl _⟩
        · simp only [hf, Bool.not_false, if_true]
          have e := keepLen_processResponseHeader line { c1 with out := { c1.out with nextByte := (b.toNat : Int) } }
          rcases hy : processResponseHeader line { c1 with out := { c1.out with nextByte := (b.toNat : Int) } } with ⟨c2, rc2⟩
          rw [hy] at e
          simp only at e ⊢
          split
          · exact (keepLen_out c1 _).trans e
          · exact (keepLen_out c1 _).trans e
  · cases c.out.header with
    | none => exact (keepLen_modTx uid _ c).trans ⟨Nat.le_refl _⟩
    | some h =>
      simp only
      split
      · have e := keepLen_processResponseHeader h (c.modTx uid fun t => { t with flags := t.flags ||| INVALID_FOLDING })
        rcases hy : processResponseHeader h (c.modTx uid fun t => { t with flags := t.flags ||| INVALID_FOLDING }) with ⟨c2, rc2⟩
        rw [hy] at e
        simp only at e ⊢
        split
        · exact (keepLen_modTx uid _ c).trans e
        · exact ((keepLen_modTx uid _ c).trans e).trans ⟨Nat.le_refl _⟩
      · split
        · exact ⟨Nat.le_refl _⟩
        · exact KeepLen.refl c

theorem keepLen_resHeadersLoop (cfg : Cfg) (fuel : Nat) (lfcr : Bool) (c : Conn) : KeepLen c (resHeadersLoop cfg fuel lfcr c).1 := by
  induction fuel generalizing c lfcr with
  | zero => unfold resHeadersLoop; exact KeepLen.refl c
  | succ k ih =>
    unfold resHeadersLoop
    cases c.out.tx with
    | none => exact KeepLen.refl c
    | some uid =>
      simp only
      have trailer : ∀ (c0 : Conn),
          KeepLen c0 (resReceiverFinalizeClear c0 >>? fun c => runCallback .responseTrailer (some uid) none false c >>? fun c => ({ c with outState := .finalize }, Rc.ok)).1 := by
        intro c0
        apply keepLen_andThen
        · exact keepLen_resReceiverFinalizeClear c0
        · intro c1
          apply keepLen_andThen
          · exact keepLen_runCallback ..
          · intro c2; exact ⟨Nat.le_refl _⟩
      split
      · exact trailer c
      · cases hn : c.out.copyByte with
        | none => exact KeepLen.refl c
        | some p =>
          obtain ⟨d, b⟩ := p
          simp only
          split
          · exact (keepLen_out c d).trans (ih _ _)
          · have he := eol_txs b lfcr { c with out := d }
            split
            · exact ⟨Nat.le_refl _⟩
            · rename_i heq
              have e2 := he _ _ _ _ heq
              exact ((keepLen_out c d).trans (keepLen_of_txs e2)).trans (ih _ _)
            · rename_i c2 lfcr2 ecr2 heq
              have e2 : c2.txs = c.txs := he _ _ _ _ heq
              have k2 : KeepLen c c2 := keepLen_of_txs e2
              cases hc : c2.out.consolidate cfg.fieldLimitHard false with
              | none => exact k2
              | some q =>
                obtain ⟨d2, data⟩ := q
                simp only
                split
                · exact (k2.trans (keepLen_out c2 d2)).trans (ih lfcr2 _)
                · split
                  · refine (k2.trans (keepLen_out c2 d2)).trans ?_
                    apply keepLen_andThen
                    · exact keepLen_resFlushHeader _
                    · intro c3
                      split
                      · exact ⟨Nat.le_refl _⟩
                      · exact (keepLen_out c3 _).trans (trailer _)
                  · refine (k2.trans (keepLen_out c2 d2)).trans ?_
                    apply keepLen_andThen
                    · exact keepLen_resHeaderLine ..
                    · intro c3
                      exact (keepLen_out c3 _).trans (ih lfcr2 _)

theorem keepLen_resCl (cl ct : Option Parse.Header) (uid : Nat) (c : Conn) : KeepLen c (resCl cl ct uid c).1 := by
  unfold resCl
  cases cl with
  | some clh =>
    simp -zeta only
    extract_lets c1 n c2 src c3
    have h1 : KeepLen c c1 := keepLen_modTx ..
    have h2 : KeepLen c c2 := h1.trans (keepLen_modTx ..)
    have h3 : KeepLen c c3 := h2.trans ⟨Nat.le_refl _⟩
    clear_value c1 c2 c3
    split
    · exact h2
    · split
      · exact h3.trans ⟨(keepLen_modTx uid _ { c3 with outState := .bodyIdentityClKnown }).le⟩
      · exact h3.trans ⟨Nat.le_refl _⟩
  | none =>
    simp only
    repeat' split
    all_goals first
      | exact KeepLen.refl c
      | exact (keepLen_modTx uid _ c).trans ⟨Nat.le_refl _⟩

theorem keepLen_resFraming (te cl ct : Option Parse.Header) (uid : Nat) (c : Conn) : KeepLen c (resFraming te cl ct uid c).1 := by
  unfold resFraming
  cases te with
  | some te' =>
    simp only
    split
    · exact (keepLen_modTx uid _ c).trans ⟨Nat.le_refl _⟩
    · exact keepLen_resCl ..
  | none => exact keepLen_resCl ..

theorem keepLen_resRefusedConnect (t : Tx) (c : Conn) : KeepLen c (resRefusedConnect t c) := by
  unfold resRefusedConnect
  simp only []
  repeat' split
  all_goals exact ⟨Nat.le_refl _⟩

theorem keepLen_resSwitchTunnel (c : Conn) : KeepLen c (resSwitchTunnel c) := by
  unfold resSwitchTunnel
  simp only []
  repeat' split
  all_goals exact ⟨Nat.le_refl _⟩

theorem keepLen_resExpectShortcut (t : Tx) (c : Conn) : KeepLen c (resExpectShortcut t c) := by
  unfold resExpectShortcut
  repeat' split
  all_goals exact ⟨Nat.le_refl _⟩

theorem keepLen_resNoBody (uid : Nat) (t : Tx) (te cl : Option Parse.Header) (c : Conn) : KeepLen c (resNoBody uid t te cl c) := by
  unfold resNoBody
  repeat' split
  all_goals first
    | exact KeepLen.refl c
    | exact ⟨(keepLen_modTx uid _ { c with outState := .finalize }).le⟩

theorem keepLen_resFramingStep (uid : Nat) (t : Tx) (te cl : Option Parse.Header) (c : Conn) :
    KeepLen c (resFramingStep uid t te cl c).1 := by
  unfold resFramingStep
  split
  · simp only
    refine KeepLen.trans ?_ (keepLen_resFraming ..)
    split
    · exact keepLen_modTx ..
    · exact KeepLen.refl c
  · exact KeepLen.refl c

theorem keepLen_resBodyDetermineRest (cfg : Cfg) (uid : Nat) (t : Tx) (c : Conn) : KeepLen c (resBodyDetermineRest cfg uid t c).1 := by
  unfold resBodyDetermineRest
  extract_lets c1 cl te is100
  have k0 : KeepLen c c1 := keepLen_resRefusedConnect t c
  clear_value c1 is100
  split
  · exact (k0.trans (keepLen_resSwitchTunnel _)).trans (keepLen_txStateResponseHeaders ..)
  · split
    · exact (k0.trans (keepLen_modTx uid _ _)).trans ⟨Nat.le_refl _⟩
    · apply keepLen_andThen
      · exact ((k0.trans (keepLen_resExpectShortcut t _)).trans (keepLen_resNoBody ..)).trans (keepLen_resFramingStep ..)
      · intro c1; exact keepLen_txStateResponseHeaders ..

theorem keepLen_resBodyDetermine (cfg : Cfg) (c : Conn) : KeepLen c (resBodyDetermine cfg c).1 := by
  unfold resBodyDetermine
  cases c.out.tx with
  | none => exact KeepLen.refl c
  | some uid =>
    simp only
    split
    · exact KeepLen.trans (b := { c with outState := .finalize }) ⟨Nat.le_refl _⟩ (keepLen_txStateResponseHeaders ..)
    · exact keepLen_resBodyDetermineRest ..

theorem keepLen_resBodyIdentityClKnown (cfg : Cfg) (c : Conn) : KeepLen c (resBodyIdentityClKnown cfg c).1 := by
  unfold resBodyIdentityClKnown
  extract_lets avail n cfin data
  clear_value n data
  split
  · exact KeepLen.trans (b := cfin) ⟨Nat.le_refl _⟩ (keepLen_resProcessBodyData ..)
  · split
    · exact KeepLen.refl c
    · have k := keepLen_resProcessBodyDataGap cfg data (if c.out.curNull then n.toNat else 0) c
      rcases hx : resBodyIdentityClKnown.resProcessBodyDataGap cfg data (if c.out.curNull then n.toNat else 0) c with ⟨c1, rc1⟩
      rw [hx] at k
      simp only at k ⊢
      split
      · exact k
      · split
        · exact k.trans (KeepLen.trans (b := { { c1 with out := { c1.out.advance n with bodyDataLeft := c1.out.bodyDataLeft - n } } with outState := .finalize }) ⟨Nat.le_refl _⟩ (keepLen_resProcessBodyData ..))
        · exact k.trans ⟨Nat.le_refl _⟩

theorem keepLen_resBodyIdentityStreamClose (cfg : Cfg) (c : Conn) : KeepLen c (resBodyIdentityStreamClose cfg c).1 := by
  unfold resBodyIdentityStreamClose
  extract_lets n data r
  have hr : KeepLen c r.1 := by
    simp only [r]
    split
    · have k := keepLen_resProcessBodyDataGap cfg data (if c.out.curNull then n.toNat else 0) c
      rcases hx : resBodyIdentityClKnown.resProcessBodyDataGap cfg data (if c.out.curNull then n.toNat else 0) c with ⟨c1, rc1⟩
      rw [hx] at k
      simp only at k ⊢
      split
      · exact k
      · exact k.trans ⟨Nat.le_refl _⟩
    · exact KeepLen.refl c
  clear_value r
  apply keepLen_andThen
  · exact hr
  · intro c1
    split
    · exact ⟨Nat.le_refl _⟩
    · exact KeepLen.refl c1

theorem keepLen_resChunkedDataEndLoop (fuel : Nat) (c : Conn) : KeepLen c (resChunkedDataEndLoop fuel c).1 := by
  induction fuel generalizing c with
  | zero => unfold resChunkedDataEndLoop; exact KeepLen.refl c
  | succ k ih =>
    unfold resChunkedDataEndLoop
    cases hn : c.out.nextByteConsume with
    | none => exact KeepLen.refl c
    | some p =>
      obtain ⟨d, b⟩ := p
      simp only
      have k1 : KeepLen c ({ c with out := d }.modOut (fun t => { t with resMessageLen := t.resMessageLen + 1 })) :=
        (keepLen_out c d).trans (keepLen_modOut _ _)
      split
      · exact k1.trans ⟨Nat.le_refl _⟩
      · exact k1.trans (ih _)

theorem keepLen_resBodyChunkedData (cfg : Cfg) (c : Conn) : KeepLen c (resBodyChunkedData cfg c).1 := by
  unfold resBodyChunkedData
  extract_lets avail n data
  clear_value n data
  split
  · exact KeepLen.refl c
  · have k := keepLen_resProcessBodyData cfg (some data) c
    rcases hx : resProcessBodyData cfg (some data) c with ⟨c1, rc1⟩
    rw [hx] at k
    simp only at k ⊢
    split
    · exact k
    · split
      · exact k.trans ⟨Nat.le_refl _⟩
      · exact k.trans ⟨Nat.le_refl _⟩

theorem keepLen_resChunkedLengthLoop (cfg : Cfg) (fuel : Nat) (c : Conn) : KeepLen c (resChunkedLengthLoop cfg fuel c).1 := by
  induction fuel generalizing c with
  | zero => unfold resChunkedLengthLoop; exact KeepLen.refl c
  | succ k ih =>
    unfold resChunkedLengthLoop
    cases hn : c.out.copyByte with
    | none => exact KeepLen.refl c
    | some p =>
      obtain ⟨d, b⟩ := p
      simp -zeta only
      extract_lets c0
      have h0 : KeepLen c c0 := keepLen_out c d
      clear_value c0
      split
      · exact h0.trans (ih _)
      · cases hc : c0.out.consolidate cfg.fieldLimitHard false with
        | none => exact h0
        | some q =>
          obtain ⟨d2, data⟩ := q
          simp -zeta only
          extract_lets c1 s1 c2 s2 rd c3 c4
          have h1 : KeepLen c c1 := (h0.trans (keepLen_out c0 d2)).trans (keepLen_modOut _ _)
          have h2 : KeepLen c c2 := h1.trans ⟨Nat.le_refl _⟩
          have h4 : KeepLen c c4 := h2.trans ⟨Nat.le_refl _⟩
          have h3 : KeepLen c c3 := h2.trans ⟨Nat.le_refl _⟩
          clear_value c1 c2 c3 c4
          split
          · exact h2.trans (KeepLen.trans (b := { c2 with out := { c2.out with consume := c2.out.read } }) ⟨Nat.le_refl _⟩ (ih _))
          · split
            · exact h3.trans (keepLen_modOut _ c3)
            · split
              · exact h4.trans ⟨Nat.le_refl _⟩
              · exact h4.trans ⟨(keepLen_modOut _ { c4 with outState := .headers }).le⟩

theorem keepLen_resFinalize (cfg : Cfg) (c : Conn) : KeepLen c (resFinalize cfg c).1 := by
  unfold resFinalize
  cases c.out.tx with
  | none => exact KeepLen.refl c
  | some uid =>
    simp -zeta only
    extract_lets cp pre
    have hp : ∀ c' b, pre = some (c', b) → c'.txs = c.txs := by
      intro c' b hpre
      simp only [pre] at hpre
      split at hpre
      · split at hpre
        · simp only [Option.some.injEq, Prod.mk.injEq] at hpre; rw [← hpre.1]
        · split at hpre
          · split at hpre
            · simp at hpre
            · simp only [Option.some.injEq, Prod.mk.injEq] at hpre
              rw [← hpre.1]
          · simp only [Option.some.injEq, Prod.mk.injEq] at hpre; rw [← hpre.1]
      · simp only [Option.some.injEq, Prod.mk.injEq] at hpre; rw [← hpre.1]
    clear_value pre
    have viaComplete : ∀ c' : Conn, c'.txs = c.txs → KeepLen c (txStateResponseCompleteEx cfg uid c').1 :=
      fun c' h' => (keepLen_of_txs h').trans (keepLen_txStateResponseCompleteEx ..)
    split
    · exact ⟨Nat.le_refl _⟩
    · rename_i _ c1
      exact viaComplete c1 (hp _ _ rfl)
    · rename_i _ c1
      have h1 := hp _ _ rfl
      clear hp
      cases hc : c1.out.consolidate cfg.fieldLimitHard false with
      | none => exact keepLen_of_txs h1
      | some q =>
        obtain ⟨d2, data⟩ := q
        simp -zeta only
        extract_lets dataNull c2 rd keep buf cs
        have h2 : c2.txs = c.txs := h1
        clear_value c2 dataNull
        split
        · exact viaComplete c2 h2
        · split
          · have k := keepLen_resProcessBodyData cfg (some data) c2
            rcases hx : resProcessBodyData cfg (some data) c2 with ⟨c3, rc3⟩
            rw [hx] at k
            simp only at k ⊢
            exact ((keepLen_of_txs h2).trans k).trans ⟨Nat.le_refl _⟩
          · exact viaComplete _ h2

theorem growB_resStateFn (cfg : Cfg) (hm : 0 < cfg.maxTx) (c : Conn) : GrowB (cfg.maxTx + 1) c (resStateFn cfg c).1 := by
  unfold resStateFn
  cases c.outState with
  | idle => exact growB_resIdle cfg hm c
  | line => exact (keepLen_resLineLoop cfg _ c).grow _
  | headers => exact (keepLen_resHeadersLoop cfg _ _ c).grow _
  | bodyDetermine => exact (keepLen_resBodyDetermine cfg c).grow _
  | bodyIdentityClKnown => exact (keepLen_resBodyIdentityClKnown cfg c).grow _
  | bodyIdentityStreamClose => exact (keepLen_resBodyIdentityStreamClose cfg c).grow _
  | bodyChunkedLength => exact (keepLen_resChunkedLengthLoop cfg _ c).grow _
  | bodyChunkedData => exact (keepLen_resBodyChunkedData cfg c).grow _
  | bodyChunkedDataEnd => exact (keepLen_resChunkedDataEndLoop _ c).grow _
  | finalize => exact (keepLen_resFinalize cfg c).grow _

theorem keepLen_resHandleStateChange (c : Conn) : KeepLen c (resHandleStateChange c).1 := by
  unfold resHandleStateChange
  split
  · exact KeepLen.refl c
  · simp only
    apply keepLen_andThen
    · repeat' split
      all_goals first | exact KeepLen.refl c | exact keepLen_resReceiverSet _ c
    · intro c1; exact ⟨Nat.le_refl _⟩

/-! ### whole calls -/

/-- the for(;;) of htp_connp_res_data - data, gap or close, any fuel -/
theorem growB_resDriverLoop (cfg : Cfg) (hm : 0 < cfg.maxTx) (gap : Bool) (fuel : Nat) (c : Conn) : GrowB (cfg.maxTx + 1) c (resDriverLoop cfg gap fuel c).1 := by
  induction fuel generalizing c with
  | zero => unfold resDriverLoop; exact ⟨Nat.le_max_left _ _⟩
  | succ k ih =>
    unfold resDriverLoop
    simp only
    have tail : ∀ (c1 : Conn) (rc1 : Rc), GrowB (cfg.maxTx + 1) c c1 → GrowB (cfg.maxTx + 1) c
        (match (if (rc1 == Rc.ok) = true then
                  if (c1.out.status == STREAM_TUNNEL) = true then (c1, Rc.ok) else resHandleStateChange c1
                else (c1, rc1) : R) with
         | (c, rc) =>
          if (rc == Rc.ok) = true then
            if (c.out.status == STREAM_TUNNEL) = true then (c, STREAM_TUNNEL) else resDriverLoop cfg gap k c
          else if (rc == Rc.data || rc == Rc.dataBuffer) = true then
            (match resReceiverSend false c with
             | (c, _) =>
               if (rc == Rc.dataBuffer) = true then
                 (match c.out.buffer cfg.fieldLimitHard false with
                  | none => (({ c with out := { c.out with status := STREAM_ERROR } }, STREAM_ERROR) : Conn × Nat)
                  | some d => ({ c with out := { d with status := STREAM_DATA } }, STREAM_DATA))
               else ({ c with out := { c.out with status := STREAM_DATA } }, STREAM_DATA))
          else if (rc == Rc.stop) = true then ({ c with out := { c.out with status := STREAM_STOP } }, STREAM_STOP)
          else if (rc == Rc.dataOther) = true then
            (if c.out.read ≥ c.out.len then ({ c with out := { c.out with status := STREAM_DATA } }, STREAM_DATA)
             else ({ c with out := { c.out with status := STREAM_DATA_OTHER } }, STREAM_DATA_OTHER))
          else ({ c with out := { c.out with status := STREAM_ERROR } }, STREAM_ERROR)).1 := by
      intro c1 rc1 k1
      have k2 : GrowB (cfg.maxTx + 1) c (if (rc1 == Rc.ok) = true then
                  if (c1.out.status == STREAM_TUNNEL) = true then (c1, Rc.ok) else resHandleStateChange c1
                else (c1, rc1) : R).1 := by
        split
        · split
          · exact k1
          · exact k1.trans ((keepLen_resHandleStateChange c1).grow _)
        · exact k1
      generalize (if (rc1 == Rc.ok) = true then
                  if (c1.out.status == STREAM_TUNNEL) = true then (c1, Rc.ok) else resHandleStateChange c1
                else (c1, rc1) : R) = r2 at k2 ⊢
      obtain ⟨c2, rc2⟩ := r2
      simp only at k2 ⊢
      split
      · split
        · exact k2
        · exact k2.trans (ih c2)
      · split
        · have kk := (keepLen_resReceiverSend false c2).grow (cfg.maxTx + 1)
          rcases hz : resReceiverSend false c2 with ⟨c3, rc3⟩
          rw [hz] at kk
          simp only at kk ⊢
          split
          · cases hb : c3.out.buffer cfg.fieldLimitHard false with
            | none => exact (k2.trans kk).trans ⟨Nat.le_max_left _ _⟩
            | some d => exact (k2.trans kk).trans ⟨Nat.le_max_left _ _⟩
          · exact (k2.trans kk).trans ⟨Nat.le_max_left _ _⟩
        · repeat' split
          all_goals exact k2.trans ⟨Nat.le_max_left _ _⟩
    split
    · exact GrowB.refl _ c
    · rename_i c1 rc1 hstep
      have k1 : GrowB (cfg.maxTx + 1) c c1 := by
        split at hstep
        · split at hstep
          · simp only [Option.some.injEq] at hstep
            have := growB_resStateFn cfg hm c
            rw [hstep] at this; exact this
          · split at hstep
            · split at hstep
              · rename_i uid _
                simp only [Option.some.injEq] at hstep
                have := (keepLen_txStateResponseCompleteEx cfg uid c).grow (cfg.maxTx + 1)
                rw [hstep] at this; exact this
              · simp only [Option.some.injEq, Prod.mk.injEq] at hstep
                rw [← hstep.1]; exact GrowB.refl _ c
            · simp at hstep
        · simp only [Option.some.injEq] at hstep
          have := growB_resStateFn cfg hm c
          rw [hstep] at this; exact this
      exact tail c1 rc1 k1

theorem keepLen_resStoreChunk (data : Option Bytes) (len : Nat) (c : Conn) : KeepLen c (resStoreChunk data len c) := ⟨Nat.le_refl _⟩

/-- **htp_connp_res_data**: any data (a chunk, a stream gap, the NULL chunk of a close), any length -/
theorem growB_resData (cfg : Cfg) (hm : 0 < cfg.maxTx) (data : Option Bytes) (len : Nat) (c : Conn) :
    GrowB (cfg.maxTx + 1) c (resData cfg data len c).1 := by
  unfold resData
  simp only
  have key : GrowB (cfg.maxTx + 1) c (resDataCore cfg data len c).1 := by
    unfold resDataCore
    split
    · exact ⟨Nat.le_max_left _ _⟩
    split
    · exact ⟨Nat.le_max_left _ _⟩
    split
    · exact ⟨Nat.le_max_left _ _⟩
    split
    · exact ⟨Nat.le_max_left _ _⟩
    simp only
    split
    · exact ⟨Nat.le_max_left _ _⟩
    · exact ((keepLen_resStoreChunk data len c).grow _).trans (growB_resDriverLoop cfg hm _ _ _)
  exact ⟨key.le⟩

/-- htp_connp_open does not touch the list -/
theorem keepLen_connOpen (c : Conn) : KeepLen c (connOpen c) := by
  unfold connOpen
  split
  · exact KeepLen.refl c
  · exact ⟨Nat.le_refl _⟩

theorem keepLen_markClosedIn (c : Conn) : KeepLen c (markClosedIn c) := by
  unfold markClosedIn
  split
  · exact ⟨Nat.le_refl _⟩
  · exact KeepLen.refl c

theorem keepLen_markClosedOut (c : Conn) : KeepLen c (markClosedOut c) := by
  unfold markClosedOut
  split
  · exact ⟨Nat.le_refl _⟩
  · exact KeepLen.refl c

/-- htp_connp_req_close -/
theorem growB_reqClose (cfg : Cfg) (hm : 0 < cfg.maxTx) (c : Conn) : GrowB (cfg.maxTx + 1) c (reqClose cfg c).1 := by
  rw [reqClose_eq]
  exact ((keepLen_markClosedIn c).grow _).trans (growB_reqData cfg hm none 0 _)

/-- htp_connp_close -/
theorem growB_connClose (cfg : Cfg) (hm : 0 < cfg.maxTx) (c : Conn) : GrowB (cfg.maxTx + 1) c (connClose cfg c).1 := by
  rw [connClose_fst]
  exact ((((keepLen_markClosedIn c).trans (keepLen_markClosedOut _)).grow _).trans (growB_reqData cfg hm none 0 _)).trans
    (growB_resData cfg hm none 0 _)

/-- htp_connp_tx_freed only removes (leading empty) slots -/
theorem keepLen_txFreedLoop (fuel : Nat) (c : Conn) (r : Nat) : KeepLen c (txFreedLoop fuel c r).1 := by
  induction fuel generalizing c r with
  | zero => unfold txFreedLoop; exact KeepLen.refl c
  | succ k ih =>
    unfold txFreedLoop
    split
    · rename_i rest heq
      have h1 : KeepLen c { c with txs := rest, outNextTxIndex := c.outNextTxIndex - 1 } := by
        refine ⟨?_⟩
        show rest.length ≤ c.txs.length
        rw [heq]; exact Nat.le_succ _
      exact h1.trans (ih _ _)
    · exact KeepLen.refl c

theorem keepLen_txFreed (c : Conn) : KeepLen c (txFreed c).1 := keepLen_txFreedLoop _ c 0

/-! ### whole histories -/

/-- **one call of any kind**: with a non-zero `max_tx` the list is no longer than `max (old length) (max_tx + 1)` afterwards -/
theorem growB_runCall (cfg : Cfg) (hm : 0 < cfg.maxTx) (c : Conn) (call : Call) : GrowB (cfg.maxTx + 1) c (runCall cfg c call) := by
  cases call with
  | req d => exact growB_reqData cfg hm _ _ c
  | res d => exact growB_resData cfg hm _ _ c
  | close => exact growB_connClose cfg hm c
  | reqClose => exact growB_reqClose cfg hm c
  | «open» => exact (keepLen_connOpen c).grow _
  | txFreed => exact (keepLen_txFreed c).grow _

theorem growB_runCalls (cfg : Cfg) (hm : 0 < cfg.maxTx) (c : Conn) (calls : List Call) :
    GrowB (cfg.maxTx + 1) c (runCalls cfg c calls) := by
  induction calls generalizing c with
  | nil => exact GrowB.refl _ c
  | cons call rest ih => rw [runCalls_cons]; exact (growB_runCall cfg hm c call).trans (ih _)

/-- **C10 (max_tx), whole histories**: with a non-zero `max_tx`, after any history of calls - request and response data chunks of any
    content and chunking, htp_connp_req_close, htp_connp_close, htp_connp_open, htp_connp_tx_freed, in any order and number, under any
    callback policy - the connection holds no more transactions (list entries, destroyed ones included until they are shifted away)
    than the larger of what it started with and `max_tx + 1` -/
theorem history_txs_bounded (cfg : Cfg) (hm : 0 < cfg.maxTx) (c0 : Conn) (calls : List Call) :
    (runCalls cfg c0 calls).txs.length ≤ max c0.txs.length (cfg.maxTx + 1) :=
  (growB_runCalls cfg hm c0 calls).le

/-- ... and after every prefix of it -/
theorem history_txs_bounded_prefix (cfg : Cfg) (hm : 0 < cfg.maxTx) (c0 : Conn) (calls pre : List Call) (_hp : pre <+: calls) :
    (runCalls cfg c0 pre).txs.length ≤ max c0.txs.length (cfg.maxTx + 1) :=
  history_txs_bounded cfg hm c0 pre

/-- **a connection parser from its creation never holds more than `max_tx + 1` transactions** -/
theorem history_txs_bounded_fresh (cfg : Cfg) (hm : 0 < cfg.maxTx) (calls : List Call) :
    (runCalls cfg {} calls).txs.length ≤ cfg.maxTx + 1 := by
  have h := history_txs_bounded cfg hm {} calls
  have h0 : ({} : Conn).txs.length = 0 := rfl
  rw [h0] at h
  omega

/-- ... after every call of the history -/
theorem history_txs_bounded_fresh_prefix (cfg : Cfg) (hm : 0 < cfg.maxTx) (calls pre : List Call) (_hp : pre <+: calls) :
    (runCalls cfg {} pre).txs.length ≤ cfg.maxTx + 1 :=
  history_txs_bounded_fresh cfg hm pre

/-- the same, call by call: the state before each call and the state after it are both within the bound -/
theorem history_txs_bounded_each_call (cfg : Cfg) (hm : 0 < cfg.maxTx) (calls pre : List Call) (call : Call)
    (_hp : pre ++ [call] <+: calls) :
    (runCalls cfg {} pre).txs.length ≤ cfg.maxTx + 1 ∧ (runCall cfg (runCalls cfg {} pre) call).txs.length ≤ cfg.maxTx + 1 := by
  refine ⟨history_txs_bounded_fresh cfg hm pre, ?_⟩
  have := history_txs_bounded_fresh cfg hm (pre ++ [call])
  rw [runCalls_append] at this
  exact this

/-! ### non-vacuity -/

/-- `max_tx = 2`, four pipelined requests in one chunk: three transactions are created (the list may hold `max_tx + 1`), the fourth
    creation is refused and the call returns HTP_STREAM_ERROR - the list has exactly 3 entries, the bound is attained. Three requests
    pass (STREAM_DATA); without a limit (`max_tx = 0`) the same chunk gives 4 entries. -/
example :
    let rq : Bytes := b!"GET / HTTP/1.1\r\nHost: h\r\n\r\n"
    let cfg : Cfg := { maxTx := 2 }
    let c := runCalls cfg {} [.open]
    let r := reqData cfg (some (rq ++ rq ++ rq ++ rq)) (rq ++ rq ++ rq ++ rq).length c
    r.2 = STREAM_ERROR ∧ r.1.txs.length = 3 ∧ r.1.txs.length = cfg.maxTx + 1 ∧
    (runCalls cfg {} [.open, .req (rq ++ rq ++ rq ++ rq)]).txs.length = 3 ∧
    (reqData cfg (some (rq ++ rq ++ rq)) (rq ++ rq ++ rq).length c).2 = STREAM_DATA ∧
    (runCalls {} {} [.open, .req (rq ++ rq ++ rq ++ rq)]).txs.length = 4 := by decide

end Htp.Conn
