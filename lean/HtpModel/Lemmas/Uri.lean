/- Helper lemmas for C13: each stage of the splitter re-joins to its input. -/
import HtpModel.Util.Uri

namespace Htp.Uri
set_option linter.unusedVariables false

theorem takeWhile_append_drop (p : UInt8 → Bool) (l : Bytes) :
    l.takeWhile p ++ l.drop (l.takeWhile p).length = l := by
  induction l with
  | nil => simp
  | cons a t ih =>
    simp only [List.takeWhile_cons]
    split
    · simp [ih]
    · simp

theorem mem_takeWhile_imp' (p : UInt8 → Bool) (l : Bytes) (x : UInt8) (h : x ∈ l.takeWhile p) : p x = true := by
  induction l with
  | nil => simp at h
  | cons a t ih =>
    simp only [List.takeWhile_cons] at h
    split at h
    · rename_i hp
      simp only [List.mem_cons] at h
      rcases h with h | h
      · subst h; exact hp
      · exact ih h
    · simp at h

theorem length_takeWhile_le' (p : UInt8 → Bool) (l : Bytes) : (l.takeWhile p).length ≤ l.length := by
  induction l with
  | nil => simp
  | cons a t ih =>
    simp only [List.takeWhile_cons]
    split <;> simp <;> omega

/-- if the scan stopped early, the byte it stopped at fails the predicate -/
theorem takeWhile_stop (p : UInt8 → Bool) (l : Bytes) (h : (l.takeWhile p).length < l.length) :
    ∃ x, p x = false ∧ l.drop (l.takeWhile p).length = x :: l.drop ((l.takeWhile p).length + 1) := by
  induction l with
  | nil => simp at h
  | cons a t ih =>
    simp only [List.takeWhile_cons] at h ⊢
    split
    · rename_i hp
      simp only [hp, if_true, List.length_cons] at h
      have := ih (by omega)
      obtain ⟨x, hx, hd⟩ := this
      exact ⟨x, hx, by simpa using hd⟩
    · rename_i hp
      exact ⟨a, by simpa using hp, by simp⟩

theorem splitAt1_some (c : UInt8) (b pre post : Bytes) (h : splitAt1 c b = some (pre, post)) :
    b = pre ++ c :: post ∧ c ∉ pre := by
  unfold splitAt1 at h
  simp only at h
  split at h
  · rename_i hlt
    simp only [Option.some.injEq, Prod.mk.injEq] at h
    obtain ⟨h1, h2⟩ := h
    have hsplit := takeWhile_append_drop (· != c) b
    obtain ⟨x, hx, hd⟩ := takeWhile_stop (· != c) b hlt
    have hxc : x = c := by simpa using hx
    subst hxc
    subst h1; subst h2
    refine ⟨?_, ?_⟩
    · rw [← hd]; exact hsplit.symm
    · intro hc
      have := mem_takeWhile_imp' _ _ _ hc
      simp at this
  · simp at h

theorem splitAt1_none (c : UInt8) (b : Bytes) (h : splitAt1 c b = none) : c ∉ b := by
  unfold splitAt1 at h
  simp only at h
  split at h
  · simp at h
  · rename_i hge
    intro hc
    have hlen : (b.takeWhile (· != c)).length = b.length := by
      have := length_takeWhile_le' (· != c) b; omega
    have hall : b.takeWhile (· != c) = b := by
      have := takeWhile_append_drop (· != c) b
      rw [hlen] at this
      simpa using this
    rw [← hall] at hc
    have := mem_takeWhile_imp' _ _ _ hc
    simp at this

/-- text of an authority's credentials+host+port re-joined -/
def rejoinAuth (a : Auth) : Bytes :=
  (match a.username with
   | some us => us ++ (match a.password with | some p => 0x3a :: p | none => []) ++ [0x40]
   | none => []) ++
  (a.hostname.getD []) ++
  (match a.port with | some p => 0x3a :: p | none => [])

/-- the decidable guard excluding finding S6: after a bracketed literal nothing but ":port" follows -/
def noJunkAfterBracket (hostpart : Bytes) : Bool :=
  match hostpart with
  | 0x5b :: _ =>
    (match splitAt1 0x5d hostpart with
     | none => true
     | some (_, after) => after.isEmpty || after.head? == some 0x3a)
  | _ => true

def hostPartOf (auth : Bytes) : Bytes :=
  match splitAt1 0x40 auth with
  | some (_, hp) => hp
  | none => auth

theorem hostPart_join (hp : Bytes) (h : noJunkAfterBracket hp = true) :
    ((parseHostPart hp).1.getD []) ++ (match (parseHostPart hp).2 with | some p => 0x3a :: p | none => []) = hp := by
  unfold parseHostPart
  unfold noJunkAfterBracket at h
  split
  · rename_i tl
    simp only at h
    cases hs : splitAt1 0x5d (0x5b :: tl) with
    | none => simp
    | some pr =>
      obtain ⟨pre, after⟩ := pr
      simp only [hs] at h
      have hj := (splitAt1_some _ _ _ _ hs).1
      cases hc : splitAt1 0x3a after with
      | none =>
        have hn := splitAt1_none _ _ hc
        have : after = [] := by
          cases after with
          | nil => rfl
          | cons x xs =>
            simp at h
            subst h
            exact absurd (List.mem_cons_self) hn
        subst this
        simp [hc, hj]
      | some pr2 =>
        obtain ⟨p1, port⟩ := pr2
        obtain ⟨hj2, hnot⟩ := splitAt1_some _ _ _ _ hc
        have hp1 : p1 = [] := by
          cases after with
          | nil => simp at hj2
          | cons x xs =>
            simp at h
            subst h
            cases p1 with
            | nil => rfl
            | cons y ys =>
              simp at hj2
              obtain ⟨hy, _⟩ := hj2
              subst hy
              exact absurd (List.mem_cons_self) hnot
        subst hp1
        simp at hj2
        subst hj2
        simp [hc, hj]
  · rename_i hnb
    cases hc : splitAt1 0x3a hp with
    | none => simp
    | some pr =>
      obtain ⟨host, port⟩ := pr
      have hj := (splitAt1_some _ _ _ _ hc).1
      simp [hj]

theorem parseHostPart_isSome (hp : Bytes) : (parseHostPart hp).1.isSome = true := by
  unfold parseHostPart
  split
  · cases h1 : splitAt1 0x5d _ with
    | none => simp
    | some pr =>
      obtain ⟨pre, after⟩ := pr
      cases h2 : splitAt1 0x3a after with
      | none => simp [h2]
      | some pr2 => simp [h2]
  · cases h1 : splitAt1 0x3a hp with
    | none => simp
    | some pr => simp

theorem parseAuthority_isSome (a : Bytes) : (parseAuthority a).hostname.isSome = true := by
  unfold parseAuthority
  cases h0 : splitAt1 0x40 a with
  | none =>
    have := parseHostPart_isSome a
    simpa using this
  | some pr =>
    obtain ⟨cred, hp⟩ := pr
    have := parseHostPart_isSome hp
    cases h1 : splitAt1 0x3a cred with
    | none => simpa [h1] using this
    | some pr2 => simpa [h1] using this

theorem authority_join (auth : Bytes) (h : noJunkAfterBracket (hostPartOf auth) = true) :
    rejoinAuth (parseAuthority auth) = auth := by
  unfold parseAuthority rejoinAuth hostPartOf at *
  cases hs : splitAt1 0x40 auth with
  | none =>
    simp only [hs] at h
    have := hostPart_join auth h
    simpa using this
  | some pr =>
    obtain ⟨cred, hp⟩ := pr
    simp only [hs] at h
    have hj := (splitAt1_some _ _ _ _ hs).1
    have hh := hostPart_join hp h
    cases hc : splitAt1 0x3a cred with
    | none =>
      simp only [hc]
      rw [hj]
      simp only [List.append_assoc]
      rw [hh]
      simp
    | some pr2 =>
      obtain ⟨user, pass⟩ := pr2
      have hj2 := (splitAt1_some _ _ _ _ hc).1
      simp only [hc]
      rw [hj, hj2]
      simp only [List.append_assoc]
      rw [hh]
      simp

def schemePart (o : Option Bytes) : Bytes := match o with | some s => s ++ [0x3a] | none => []
def authPart (o : Option Bytes) : Bytes := match o with | some a => 0x2f :: 0x2f :: a | none => []

theorem scheme_join (data : Bytes) :
    schemePart (splitScheme data).1 ++ (splitScheme data).2 = data := by
  unfold schemePart splitScheme
  by_cases hh : (data.head? != some 0x2f) = true
  · simp only [hh, if_true]
    cases hs : splitAt1 0x3a data with
    | none => simp
    | some pr =>
      obtain ⟨a, b⟩ := pr
      have := (splitAt1_some _ _ _ _ hs).1
      show a ++ [0x3a] ++ b = data
      rw [this]; simp
  · simp only [hh]; simp

theorem authority_split_join (sch : Option Bytes) (rest : Bytes) :
    authPart (splitAuthority sch rest).1 ++ (splitAuthority sch rest).2 = rest := by
  unfold authPart splitAuthority
  by_cases hc : (sch.isSome && rest.take 2 == [0x2f, 0x2f] && (rest.drop 2).head?.isSome &&
      (rest.drop 2).head? != some 0x2f) = true
  · simp only [hc, if_true]
    simp only [Bool.and_eq_true] at hc
    obtain ⟨⟨⟨_, h2⟩, _⟩, _⟩ := hc
    have ht : rest.take 2 = [0x2f, 0x2f] := by simpa using h2
    have hsplit := List.take_append_drop 2 rest
    have hj := takeWhile_append_drop authEnd (rest.drop 2)
    show 0x2f :: 0x2f :: (List.takeWhile authEnd (rest.drop 2)) ++
      (rest.drop 2).drop (List.takeWhile authEnd (rest.drop 2)).length = rest
    simp only [List.cons_append]
    rw [hj]
    rw [ht] at hsplit
    simpa using hsplit
  · simp only [hc]
    simp

def rejoinTail (t : Tail) : Bytes :=
  t.path ++ (match t.query with | some q => 0x3f :: q | none => []) ++
  (match t.fragment with | some f => 0x23 :: f | none => [])

theorem dropped_head (p : UInt8 → Bool) (l : Bytes) (x : UInt8) (xs : Bytes)
    (h : l.drop (l.takeWhile p).length = x :: xs) : p x = false := by
  have hlt : (l.takeWhile p).length < l.length := by
    have := congrArg List.length h
    simp at this
    omega
  obtain ⟨y, hy, hd⟩ := takeWhile_stop p l hlt
  rw [h] at hd
  simp only [List.cons.injEq] at hd
  rw [hd.1]; exact hy

theorem tail_join (rest : Bytes) : rejoinTail (parseTail rest) = rest := by
  have hp := takeWhile_append_drop pathEnd rest
  unfold parseTail rejoinTail
  simp only
  cases hd : rest.drop (rest.takeWhile pathEnd).length with
  | nil =>
    rw [hd] at hp
    simpa using hp
  | cons x tl =>
    have hx := dropped_head pathEnd rest x tl hd
    rw [hd] at hp
    by_cases h3 : x = 0x3f
    · subst h3
      simp only [beq_self_eq_true, if_true]
      have hq := takeWhile_append_drop (· != 0x23) tl
      cases hd2 : tl.drop (tl.takeWhile (· != 0x23)).length with
      | nil =>
        rw [hd2] at hq
        simp only [List.append_nil] at hq ⊢
        rw [hq]; exact hp
      | cons y fr =>
        have hy := dropped_head (· != 0x23) tl y fr hd2
        have hy' : y = 0x23 := by simpa using hy
        subst hy'
        rw [hd2] at hq
        simp only [List.append_assoc, List.cons_append]
        rw [hq]; exact hp
    · have hx' : x = 0x23 := by
        unfold pathEnd at hx
        simp at hx
        exact hx h3
      subst hx'
      have : ((0x23 : UInt8) == 0x3f) = false := by decide
      simp only [this]
      simpa using hp

end Htp.Uri
