/- Pattern P1 for the urlencoded parser: the chunk-level `feed` refines a byte-at-a-time abstract
   machine whose only memory of the field under construction is its bytes (`pend`). -/
import HtpModel.Urlenc

namespace Htp.Urlenc
open Htp.Gen Htp.Decode
set_option linter.unusedVariables false

/-- abstract state: the builder pieces and the unconsumed part of the chunk are one byte string -/
structure A where
  state : PState := .key
  name : Option Bytes := none
  pend : Bytes := []
  complete : Bool := false
  params : List (Bytes × Bytes) := []
  flags : Nat := 0
  status : Int := 0
  deriving Repr, DecidableEq, Inhabited

/-- pieces are only ever buffered when non-empty (htp_urlencoded.c:156-158) -/
def Inv (s : S) : Prop := ∀ p ∈ s.bb, p ≠ []

def absS (s : S) (cur : Bytes) : A :=
  { state := s.state, name := s.name, pend := s.bb.flatten ++ cur.reverse, complete := s.complete,
    params := s.params, flags := s.flags, status := s.status }

def toS (a : A) : S :=
  { state := a.state, name := a.name, bb := [], complete := a.complete, params := a.params,
    flags := a.flags, status := a.status }

def ofS (s : S) (pend : Bytes) : A :=
  { state := s.state, name := s.name, pend := pend, complete := s.complete, params := s.params,
    flags := s.flags, status := s.status }

def fieldA (a : A) : Option Bytes := if a.pend = [] then none else some a.pend

/-- a delimiter (or completion) closes the field under construction -/
def closeA (cfg : DecoderCfg) (a : A) (last : Option UInt8) : A :=
  let field := fieldA a
  let s := toS a
  match a.state with
  | .key =>
    if a.complete || last == some AMP then
      if field.isSome || last == some AMP then
        ofS { addParam cfg (field.getD []) [] s with name := none } []
      else ofS s []
    else ofS { s with name := field } []
  | .value =>
    ofS (addParam2 cfg (s.name.getD []) (field.getD []) { s with name := none }) []

/-- the byte-at-a-time machine -/
def stepA (cfg : DecoderCfg) (a : A) (c : UInt8) : A :=
  match a.state with
  | .key =>
    if c == EQS || c == AMP then
      { closeA cfg a (some c) with state := if c == AMP then .key else .value }
    else { a with pend := a.pend ++ [c] }
  | .value =>
    if c == AMP then { closeA cfg a (some c) with state := .key }
    else { a with pend := a.pend ++ [c] }

def finalizeA (cfg : DecoderCfg) (a : A) : A := closeA cfg { a with complete := true } none

theorem flatten_eq_nil_of_inv (bb : List Bytes) (h : ∀ p ∈ bb, p ≠ []) : bb.flatten = [] ↔ bb = [] := by
  constructor
  · intro hf
    cases bb with
    | nil => rfl
    | cons p ps =>
      have hp := h p (by simp)
      simp at hf
      exact absurd hf.1 hp
  · intro hb; subst hb; rfl

@[simp] theorem addParam_bb (cfg : DecoderCfg) (n v : Bytes) (s : S) : (addParam cfg n v s).bb = s.bb := by
  simp [addParam, dec]
@[simp] theorem addParam2_bb (cfg : DecoderCfg) (n v : Bytes) (s : S) : (addParam2 cfg n v s).bb = s.bb := by
  simp [addParam2, dec]
@[simp] theorem addParam_complete (cfg : DecoderCfg) (n v : Bytes) (s : S) :
    (addParam cfg n v s).complete = s.complete := by simp [addParam, dec]
@[simp] theorem addParam2_complete (cfg : DecoderCfg) (n v : Bytes) (s : S) :
    (addParam2 cfg n v s).complete = s.complete := by simp [addParam2, dec]

/-- the assembled field depends only on the pending bytes -/
theorem assemble_eq (s : S) (piece : Bytes) (hi : Inv s) :
    assemble s piece =
      ((if s.bb.flatten ++ piece = [] then none else some (s.bb.flatten ++ piece)), { s with bb := [] }) := by
  unfold assemble
  by_cases hb : s.bb = []
  · have hs : ({ s with bb := [] } : S) = s := by cases s; simp_all
    simp only [hb, List.length_nil, Nat.lt_irrefl, if_false, List.flatten_nil, List.nil_append]
    rw [hs]
    by_cases hp : piece = []
    · simp [hp]
    · have : piece.length > 0 := by cases piece <;> simp_all
      simp [hp, this]
  · have hlen : s.bb.length > 0 := by cases hbb : s.bb <;> simp_all
    have hne : s.bb.flatten ≠ [] := fun h => hb ((flatten_eq_nil_of_inv s.bb hi).1 h)
    simp only [hlen, if_true]
    by_cases hp : piece = []
    · subst hp; simp [hne]
    · have : piece.length > 0 := by cases piece <;> simp_all
      simp [this, hne]

theorem closeField_bb (cfg : DecoderCfg) (s : S) (f : Option Bytes) (last : Option UInt8) :
    (closeField cfg s f last).bb = s.bb := by
  unfold closeField
  cases s.state with
  | key => simp only []; split <;> (try split) <;> simp
  | value => simp

theorem closeField_complete (cfg : DecoderCfg) (s : S) (f : Option Bytes) (last : Option UInt8) :
    (closeField cfg s f last).complete = s.complete := by
  unfold closeField
  cases s.state with
  | key => simp only []; split <;> (try split) <;> simp
  | value => simp

/-- closing a field: the concrete code computes what the abstract machine computes -/
theorem close_abs (cfg : DecoderCfg) (s : S) (cur : Bytes) (last : Option UInt8) (hi : Inv s)
    (hl : last.isSome = true ∨ s.complete = true) :
    absS (addFieldPiece cfg s cur.reverse last) [] = closeA cfg (absS s cur) last ∧
    (addFieldPiece cfg s cur.reverse last).bb = [] := by
  have hcond : (last.isSome || s.complete) = true := by
    rcases hl with h | h <;> simp [h]
  unfold addFieldPiece
  simp only [hcond, if_true]
  rw [assemble_eq s cur.reverse hi]
  refine ⟨?_, by rw [closeField_bb]⟩
  unfold closeField closeA fieldA absS toS ofS
  cases hst : s.state with
  | key =>
    simp only []
    by_cases hc : (s.complete || last == some AMP) = true
    · simp only [hc, if_true]
      by_cases hf : ((if s.bb.flatten ++ cur.reverse = [] then none else some (s.bb.flatten ++ cur.reverse) : Option Bytes).isSome
                      || last == some AMP) = true
      · simp only [hf, if_true]
        simp [addParam, dec]
      · simp only [hf]
        simp
    · simp only [hc]
      simp
  | value =>
    simp [addParam2, dec]

theorem addFieldPiece_inv (cfg : DecoderCfg) (s : S) (piece : Bytes) (last : Option UInt8) (hi : Inv s) :
    Inv (addFieldPiece cfg s piece last) := by
  by_cases hl : last.isSome = true ∨ s.complete = true
  · have h := (close_abs cfg s piece.reverse last hi hl).2
    rw [List.reverse_reverse] at h
    intro p hp
    rw [h] at hp
    simp at hp
  · have hc : (last.isSome || s.complete) = false := by
      cases h1 : last.isSome <;> cases h2 : s.complete <;> simp_all
    unfold addFieldPiece
    rw [if_neg (by rw [hc]; exact Bool.false_ne_true)]
    by_cases hp : piece.length > 0
    · rw [if_pos hp]
      intro p hp'
      simp at hp'
      rcases hp' with hp' | hp'
      · exact hi p hp'
      · subst hp'
        intro h; subst h; simp at hp
    · rw [if_neg hp]; exact hi

theorem addFieldPiece_open (cfg : DecoderCfg) (s : S) (cur : Bytes) (hc : s.complete = false) :
    absS (addFieldPiece cfg s cur.reverse none) [] = absS s cur ∧
    (addFieldPiece cfg s cur.reverse none).complete = false := by
  have hcnd : ((none : Option UInt8).isSome || s.complete) = false := by simp [hc]
  unfold addFieldPiece
  rw [if_neg (by rw [hcnd]; exact Bool.false_ne_true)]
  by_cases hp : cur.reverse.length > 0
  · rw [if_pos hp]; simp [absS, hc]
  · rw [if_neg hp]
    have : cur.reverse = [] := by
      cases hr : cur.reverse with
      | nil => rfl
      | cons x xs => rw [hr] at hp; simp at hp
    simp [absS, this, hc]

theorem addFieldPiece_complete (cfg : DecoderCfg) (s : S) (piece : Bytes) (last : Option UInt8) :
    (addFieldPiece cfg s piece last).complete = s.complete := by
  unfold addFieldPiece
  split
  · rw [closeField_complete]
    unfold assemble
    split <;> rfl
  · split <;> rfl

/-- **P1**: feeding a chunk = folding the byte-step machine over its bytes -/
theorem feedLoop_abs (cfg : DecoderCfg) (rest cur : Bytes) (s : S) (hi : Inv s) (hc : s.complete = false) :
    absS (feedLoop cfg rest cur s) [] = rest.foldl (stepA cfg) (absS s cur) ∧
    Inv (feedLoop cfg rest cur s) ∧ (feedLoop cfg rest cur s).complete = false := by
  induction rest generalizing cur s with
  | nil =>
    simp only [feedLoop, List.foldl_nil]
    exact ⟨(addFieldPiece_open cfg s cur hc).1, addFieldPiece_inv cfg s _ _ hi, (addFieldPiece_open cfg s cur hc).2⟩
  | cons c rest ih =>
    simp only [List.foldl_cons]
    cases hst : s.state with
    | key =>
      by_cases hd : (c == EQS || c == AMP) = true
      · have hca := close_abs cfg s cur (some c) hi (Or.inl rfl)
        have hinv := addFieldPiece_inv cfg s cur.reverse (some c) hi
        have hcomp := addFieldPiece_complete cfg s cur.reverse (some c)
        have hstep : stepA cfg (absS s cur) c =
            absS ({ addFieldPiece cfg s cur.reverse (some c) with state := if c == AMP then .key else .value }) [] := by
          unfold stepA
          have : (absS s cur).state = .key := by simp [absS, hst]
          simp only [this, hd, if_true]
          rw [← hca.1]
          simp [absS]
        rw [hstep]
        have := ih [] ({ addFieldPiece cfg s cur.reverse (some c) with state := if c == AMP then .key else .value })
          (by intro p hp; exact hinv p hp) (by simp [hcomp, hc])
        unfold feedLoop
        simp only [hst, hd, if_true]
        exact this
      · have hstep : stepA cfg (absS s cur) c = absS s (c :: cur) := by
          unfold stepA
          have : (absS s cur).state = .key := by simp [absS, hst]
          simp only [this, hd]
          simp [absS, hst]
        rw [hstep]
        have := ih (c :: cur) s hi hc
        unfold feedLoop
        simp only [hst, hd]
        exact this
    | value =>
      by_cases hd : (c == AMP) = true
      · have hca := close_abs cfg s cur (some c) hi (Or.inl rfl)
        have hinv := addFieldPiece_inv cfg s cur.reverse (some c) hi
        have hcomp := addFieldPiece_complete cfg s cur.reverse (some c)
        have hstep : stepA cfg (absS s cur) c =
            absS ({ addFieldPiece cfg s cur.reverse (some c) with state := .key }) [] := by
          unfold stepA
          have : (absS s cur).state = .value := by simp [absS, hst]
          simp only [this, hd, if_true]
          rw [← hca.1]
          simp [absS]
        rw [hstep]
        have := ih [] ({ addFieldPiece cfg s cur.reverse (some c) with state := .key })
          (by intro p hp; exact hinv p hp) (by simp [hcomp, hc])
        unfold feedLoop
        simp only [hst, hd, if_true]
        exact this
      · have hstep : stepA cfg (absS s cur) c = absS s (c :: cur) := by
          unfold stepA
          have : (absS s cur).state = .value := by simp [absS, hst]
          simp only [this, hd]
          simp [absS, hst]
        rw [hstep]
        have := ih (c :: cur) s hi hc
        unfold feedLoop
        simp only [hst, hd]
        exact this

/-- any chunking: the state after all chunks depends only on the concatenation -/
theorem feed_chunks_abs (cfg : DecoderCfg) (chunks : List Bytes) (s : S) (hi : Inv s) (hc : s.complete = false) :
    absS (chunks.foldl (feed cfg) s) [] = chunks.flatten.foldl (stepA cfg) (absS s []) ∧
    Inv (chunks.foldl (feed cfg) s) ∧ (chunks.foldl (feed cfg) s).complete = false := by
  induction chunks generalizing s with
  | nil => simp [hi, hc]
  | cons ch rest ih =>
    have h1 := feedLoop_abs cfg ch [] s hi hc
    have h2 := ih (feed cfg s ch) h1.2.1 h1.2.2
    simp only [List.foldl_cons, List.flatten_cons, List.foldl_append]
    unfold feed at h2 ⊢
    rw [← h1.1]
    exact h2

theorem finalize_abs (cfg : DecoderCfg) (s : S) (hi : Inv s) :
    absS (finalize cfg s) [] = finalizeA cfg (absS s []) := by
  unfold finalize finalizeA
  simp only [feedLoop]
  have := (close_abs cfg { s with complete := true } [] none (by intro p hp; exact hi p hp) (Or.inr rfl)).1
  simpa [absS] using this

end Htp.Urlenc
