/- The reference rule for urlencoded data (split on '&', first '=', drop only a final empty piece, decode) and the proof that
   the byte-at-a-time machine of Lemmas/Urlenc.lean computes it. Needs: the bytes the generic decoder produces do not depend on
   the flags/status it is started with (the parser threads them from field to field). -/
import HtpModel.Lemmas.Urlenc
namespace Htp.Decode
open Htp Htp.Gen

theorem pctAct_act (cfg : DecoderCfg) (c : UInt8) (k : Nat) (s s' : FS) : (pctAct cfg c k s).2 = (pctAct cfg c k s').2 := by
  unfold pctAct
  split
  · split <;> rfl
  · rfl

theorem decodeUParams_byte (cfg : DecoderCfg) (h1 h2 h3 h4 : UInt8) (s s' : FS) :
    (decodeUParams cfg h1 h2 h3 h4 s).1 = (decodeUParams cfg h1 h2 h3 h4 s').1 := by
  unfold decodeUParams
  simp only
  split <;> rfl

/-- what the generic decoder does with the output at one position does not depend on the flags and status accumulated so far -/
theorem urlDecide_act (cfg : DecoderCfg) (c : UInt8) (tl : Bytes) (s s' : FS) : (urlDecide cfg c tl s).2 = (urlDecide cfg c tl s').2 := by
  unfold urlDecide
  split
  · split
    · split
      · split
        · split
          · simp only
            rw [decodeUParams_byte cfg _ _ _ _ _ { s' with status := unwanted cfg.uEncodingUnwanted s'.status }]
            exact pctAct_act ..
          · split
            · rfl
            · exact pctAct_act ..
            · simp only
              rw [decodeUParams_byte cfg _ _ _ _ _ (invalidEncU cfg { s' with status := unwanted cfg.uEncodingUnwanted s'.status })]
              exact pctAct_act ..
        · split
          · rfl
          · exact pctAct_act ..
      · split
        · exact pctAct_act ..
        · split
          · rfl
          · exact pctAct_act ..
          · exact pctAct_act ..
    · split
      · rfl
      · exact pctAct_act ..
  · split
    · rfl
    · split
      · split <;> rfl
      · rfl


theorem applyUrl_out (s s' : St) (d d' : FS × Act) (ho : s.out = s'.out) (hs : s.stop = s'.stop) (hd : d.2 = d'.2) :
    (applyUrl s d).1.out = (applyUrl s' d').1.out ∧ (applyUrl s d).1.stop = (applyUrl s' d').1.stop ∧ (applyUrl s d).2 = (applyUrl s' d').2 := by
  unfold applyUrl
  rw [hd]
  cases d'.2 with
  | emit c k => simp [ho, hs]
  | drop => simp [ho, hs]
  | stop => simp [ho]

theorem urlLoop_out (cfg : DecoderCfg) (input : Bytes) (skip : Nat) (s s' : St) (ho : s.out = s'.out) (hs : s.stop = s'.stop) :
    (urlLoop cfg input skip s).out = (urlLoop cfg input skip s').out := by
  induction input generalizing skip s s' with
  | nil => simpa [urlLoop] using ho
  | cons c tl ih =>
    unfold urlLoop
    rw [← hs]
    split
    · exact ho
    · cases skip with
      | succ k => exact ih k s s' ho hs
      | zero =>
        simp only
        have h := applyUrl_out s s' (urlDecide cfg c tl { flags := s.flags, status := s.status }) (urlDecide cfg c tl { flags := s'.flags, status := s'.status })
          ho hs (urlDecide_act ..)
        unfold urlStep
        rw [h.2.2]
        exact ih _ _ _ h.1 h.2.1

/-- the bytes the generic decoder produces do not depend on the flags and expected status it starts with -/
theorem urldecodeEx_out (cfg : DecoderCfg) (input : Bytes) (f f' : Nat) (st st' : Int) :
    (urldecodeEx cfg input f st).1 = (urldecodeEx cfg input f' st').1 := by
  unfold urldecodeEx
  simp only
  rw [urlLoop_out cfg input 0 { flags := f, status := st } { flags := f', status := st' } rfl rfl]


end Htp.Decode

namespace Htp.Urlenc
open Htp Htp.Gen Htp.Decode

/-- what the configured decoder makes of one name or value -/
def decOut (cfg : DecoderCfg) (b : Bytes) : Bytes := (urldecodeEx cfg b 0 0).1

/-- the reference rule, step 1: split on '&' (a string without '&' is one piece; the empty string is one empty piece) -/
def splitAmp : Bytes → List Bytes
  | [] => [[]]
  | c :: rest =>
    if c == AMP then [] :: splitAmp rest
    else match splitAmp rest with
      | p :: ps => (c :: p) :: ps
      | [] => [[c]]

/-- step 2: drop only a final empty piece -/
def dropFinalEmpty : List Bytes → List Bytes
  | [] => []
  | [p] => if p.isEmpty then [] else [p]
  | p :: q :: rest => p :: dropFinalEmpty (q :: rest)

/-- step 3: split a piece at its first '=' (no '=': the value is empty) -/
def splitFirstEq (p : Bytes) : Bytes × Bytes := (p.takeWhile (· != EQS), (p.dropWhile (· != EQS)).drop 1)

def refRaw (s : Bytes) : List (Bytes × Bytes) := (dropFinalEmpty (splitAmp s)).map splitFirstEq

/-- the reference rule: split, then decode name and value per configuration -/
def refPairs (cfg : DecoderCfg) (s : Bytes) : List (Bytes × Bytes) := (refRaw s).map (fun p => (decOut cfg p.1, decOut cfg p.2))

theorem splitAmp_ne_nil (s : Bytes) : splitAmp s ≠ [] := by
  cases s with
  | nil => simp [splitAmp]
  | cons c rest =>
    unfold splitAmp
    split
    · simp
    · split <;> simp

theorem splitAmp_noamp (p : Bytes) (h : ∀ b ∈ p, b ≠ AMP) : splitAmp p = [p] := by
  induction p with
  | nil => rfl
  | cons c t ih =>
    unfold splitAmp
    have hc : (c == AMP) = false := by simpa using h c (by simp)
    simp only [hc, Bool.false_eq_true, if_false]
    rw [ih (fun b hb => h b (by simp [hb]))]

theorem splitAmp_cons_ne (c : UInt8) (rest : Bytes) (h : (c == AMP) = false) :
    splitAmp (c :: rest) = (match splitAmp rest with | p :: ps => (c :: p) :: ps | [] => [[c]]) := by
  simp [splitAmp, h]

theorem splitAmp_append (p rest : Bytes) (h : ∀ b ∈ p, b ≠ AMP) : splitAmp (p ++ AMP :: rest) = p :: splitAmp rest := by
  induction p with
  | nil => simp [splitAmp]
  | cons c t ih =>
    have hc : (c == AMP) = false := by simpa using h c (by simp)
    rw [List.cons_append, splitAmp_cons_ne _ _ hc, ih (fun b hb => h b (by simp [hb]))]

theorem dropFinalEmpty_cons (p : Bytes) (l : List Bytes) (hl : l ≠ []) : dropFinalEmpty (p :: l) = p :: dropFinalEmpty l := by
  cases l with
  | nil => exact absurd rfl hl
  | cons q rest => rfl

theorem takeWhile_all {α} (q : α → Bool) (l : List α) (h : ∀ b ∈ l, q b = true) : l.takeWhile q = l := by
  induction l with
  | nil => rfl
  | cons c t ih => simp only [List.takeWhile, h c (by simp)]; rw [ih (fun b hb => h b (by simp [hb]))]

theorem dropWhile_all {α} (q : α → Bool) (l : List α) (h : ∀ b ∈ l, q b = true) : l.dropWhile q = [] := by
  induction l with
  | nil => rfl
  | cons c t ih => simp only [List.dropWhile, h c (by simp)]; exact ih (fun b hb => h b (by simp [hb]))

theorem takeWhile_stop {α} (q : α → Bool) (l : List α) (x : α) (r : List α) (h : ∀ b ∈ l, q b = true) (hx : q x = false) :
    (l ++ x :: r).takeWhile q = l := by
  induction l with
  | nil => simp [List.takeWhile, hx]
  | cons c t ih => simp only [List.cons_append, List.takeWhile, h c (by simp)]; rw [ih (fun b hb => h b (by simp [hb]))]

theorem dropWhile_stop {α} (q : α → Bool) (l : List α) (x : α) (r : List α) (h : ∀ b ∈ l, q b = true) (hx : q x = false) :
    (l ++ x :: r).dropWhile q = x :: r := by
  induction l with
  | nil => simp [List.dropWhile, hx]
  | cons c t ih => simp only [List.cons_append, List.dropWhile, h c (by simp)]; exact ih (fun b hb => h b (by simp [hb]))

theorem splitFirstEq_noeq (p : Bytes) (h : ∀ b ∈ p, b ≠ EQS) : splitFirstEq p = (p, []) := by
  unfold splitFirstEq
  rw [takeWhile_all _ p (fun b hb => by simpa using h b hb), dropWhile_all _ p (fun b hb => by simpa using h b hb)]
  rfl

theorem splitFirstEq_eq (n v : Bytes) (h : ∀ b ∈ n, b ≠ EQS) : splitFirstEq (n ++ EQS :: v) = (n, v) := by
  unfold splitFirstEq
  rw [takeWhile_stop _ n EQS v (fun b hb => by simpa using h b hb) (by simp),
      dropWhile_stop _ n EQS v (fun b hb => by simpa using h b hb) (by simp)]
  rfl

theorem decOut_nil (cfg : DecoderCfg) : decOut cfg [] = [] := by
  unfold decOut urldecodeEx
  simp [urlLoop]


/-- the raw bytes of the piece under construction -/
def curA (a : A) : Bytes :=
  match a.state with
  | .key => a.pend
  | .value => a.name.getD [] ++ EQS :: a.pend

structure InvA (a : A) : Prop where
  nc : a.complete = false
  pa : ∀ b ∈ a.pend, b ≠ AMP
  pk : a.state = .key → ∀ b ∈ a.pend, b ≠ EQS
  nv : a.state = .value → ∀ b ∈ a.name.getD [], b ≠ AMP ∧ b ≠ EQS

theorem dec_out (cfg : DecoderCfg) (b : Bytes) (s : S) : (dec cfg b s).1 = decOut cfg b := by
  unfold dec decOut
  exact urldecodeEx_out cfg b s.flags 0 s.status 0

theorem dec_params (cfg : DecoderCfg) (b : Bytes) (s : S) : (dec cfg b s).2.params = s.params := by
  unfold dec; rfl

theorem fieldA_getD (a : A) : (fieldA a).getD [] = a.pend := by
  unfold fieldA
  split
  · rename_i h; simp [h]
  · rfl

theorem refPairs_amp (cfg : DecoderCfg) (p rest : Bytes) (hp : ∀ b ∈ p, b ≠ AMP) :
    refPairs cfg (p ++ AMP :: rest) = (decOut cfg (splitFirstEq p).1, decOut cfg (splitFirstEq p).2) :: refPairs cfg rest := by
  unfold refPairs refRaw
  rw [splitAmp_append p rest hp, dropFinalEmpty_cons _ _ (splitAmp_ne_nil rest)]
  rfl

theorem closeA_key_amp (cfg : DecoderCfg) (a : A) (hs : a.state = .key) (hc : a.complete = false) :
    (closeA cfg a (some AMP)).name = none ∧ (closeA cfg a (some AMP)).pend = [] ∧ (closeA cfg a (some AMP)).complete = false ∧
    (closeA cfg a (some AMP)).params = (decOut cfg a.pend, []) :: a.params := by
  unfold closeA
  simp only [hs, hc, Bool.false_or, beq_self_eq_true, if_true, Bool.or_true]
  refine ⟨rfl, rfl, ?_, ?_⟩
  · simp [ofS, addParam, toS, hc, dec]
  · simp only [ofS, addParam, toS, fieldA_getD]
    rw [dec_out, dec_params]

theorem closeA_key_eq (cfg : DecoderCfg) (a : A) (hs : a.state = .key) (hc : a.complete = false) :
    (closeA cfg a (some EQS)).name.getD [] = a.pend ∧ (closeA cfg a (some EQS)).pend = [] ∧ (closeA cfg a (some EQS)).complete = false ∧
    (closeA cfg a (some EQS)).params = a.params := by
  unfold closeA
  have h2 : (some EQS == some AMP) = false := by decide
  simp only [hs, hc, h2, Bool.or_false, Bool.false_eq_true, if_false]
  refine ⟨?_, rfl, ?_, rfl⟩
  · simp only [ofS, toS]; exact fieldA_getD a
  · simp [ofS, toS, hc]

theorem closeA_value_amp (cfg : DecoderCfg) (a : A) (hs : a.state = .value) (hc : a.complete = false) :
    (closeA cfg a (some AMP)).name = none ∧ (closeA cfg a (some AMP)).pend = [] ∧ (closeA cfg a (some AMP)).complete = false ∧
    (closeA cfg a (some AMP)).params = (decOut cfg (a.name.getD []), decOut cfg a.pend) :: a.params := by
  unfold closeA
  simp only [hs]
  refine ⟨rfl, rfl, ?_, ?_⟩
  · simp [ofS, addParam2, toS, hc, dec]
  · simp only [ofS, addParam2, toS, fieldA_getD]
    rw [dec_out, dec_out, dec_params, dec_params]

theorem stepA_spec (cfg : DecoderCfg) (a : A) (c : UInt8) (rest : Bytes) (hi : InvA a) :
    InvA (stepA cfg a c) ∧
    (stepA cfg a c).params.reverse ++ refPairs cfg (curA (stepA cfg a c) ++ rest) =
      a.params.reverse ++ refPairs cfg (curA a ++ c :: rest) := by
  cases hs : a.state with
  | key =>
    by_cases hamp : c = AMP
    · subst hamp
      have e : stepA cfg a AMP = { closeA cfg a (some AMP) with state := .key } := by
        unfold stepA; simp [hs]
      have hpk := hi.pk hs
      obtain ⟨h1, h2, h3, h4⟩ := closeA_key_amp cfg a hs hi.nc
      rw [e]
      refine ⟨⟨h3, by simp [h2], by simp [h2], by intro h; simp at h⟩, ?_⟩
      simp only [curA, hs, h2, h4, List.nil_append]
      rw [refPairs_amp cfg a.pend rest hi.pa, splitFirstEq_noeq a.pend hpk, decOut_nil]
      simp
    · by_cases heq : c = EQS
      · subst heq
        have hne : (EQS == AMP) = false := by decide
        have e : stepA cfg a EQS = { closeA cfg a (some EQS) with state := .value } := by
          unfold stepA; simp [hs, hne]
        obtain ⟨h1, h2, h3, h4⟩ := closeA_key_eq cfg a hs hi.nc
        rw [e]
        refine ⟨⟨h3, by simp [h2], by intro h; simp at h, ?_⟩, ?_⟩
        · intro _ b hb
          simp only [h1] at hb
          exact ⟨hi.pa b hb, hi.pk hs b hb⟩
        · simp only [curA, hs, h1, h2, h4, List.append_assoc, List.cons_append, List.nil_append]
      · have h1 : (c == EQS) = false := by simpa using heq
        have h2 : (c == AMP) = false := by simpa using hamp
        have e : stepA cfg a c = { a with pend := a.pend ++ [c] } := by
          unfold stepA; simp [hs, h1, h2]
        rw [e]
        refine ⟨⟨hi.nc, ?_, ?_, ?_⟩, ?_⟩
        · intro b hb
          rcases List.mem_append.mp hb with h | h
          · exact hi.pa b h
          · simp at h; rw [h]; exact hamp
        · intro _ b hb
          rcases List.mem_append.mp hb with h | h
          · exact hi.pk hs b h
          · simp at h; rw [h]; exact heq
        · intro h; simp [hs] at h
        · simp [curA, hs]
  | value =>
    by_cases hamp : c = AMP
    · subst hamp
      have e : stepA cfg a AMP = { closeA cfg a (some AMP) with state := .key } := by
        unfold stepA; simp [hs]
      have hnv := hi.nv hs
      obtain ⟨h1, h2, h3, h4⟩ := closeA_value_amp cfg a hs hi.nc
      rw [e]
      refine ⟨⟨h3, by simp [h2], by simp [h2], by intro h; simp at h⟩, ?_⟩
      simp only [curA, hs, h2, h4, List.nil_append]
      have hcur : ∀ b ∈ a.name.getD [] ++ EQS :: a.pend, b ≠ AMP := by
        intro b hb
        rcases List.mem_append.mp hb with h | h
        · exact (hnv b h).1
        · rcases List.mem_cons.mp h with h | h
          · rw [h]; decide
          · exact hi.pa b h
      rw [refPairs_amp cfg _ rest hcur, splitFirstEq_eq _ _ (fun b hb => (hnv b hb).2)]
      simp
    · have h2 : (c == AMP) = false := by simpa using hamp
      have e : stepA cfg a c = { a with pend := a.pend ++ [c] } := by
        unfold stepA; simp [hs, h2]
      rw [e]
      refine ⟨⟨hi.nc, ?_, ?_, ?_⟩, ?_⟩
      · intro b hb
        rcases List.mem_append.mp hb with h | h
        · exact hi.pa b h
        · simp at h; rw [h]; exact hamp
      · intro h; simp [hs] at h
      · intro _; exact hi.nv hs
      · simp [curA, hs]


theorem refPairs_single (cfg : DecoderCfg) (p : Bytes) (hp : ∀ b ∈ p, b ≠ AMP) (hne : p ≠ []) :
    refPairs cfg p = [(decOut cfg (splitFirstEq p).1, decOut cfg (splitFirstEq p).2)] := by
  unfold refPairs refRaw
  rw [splitAmp_noamp p hp]
  have : p.isEmpty = false := by cases p with | nil => exact absurd rfl hne | cons a t => rfl
  simp [dropFinalEmpty, this]

theorem refPairs_nil (cfg : DecoderCfg) : refPairs cfg [] = [] := by
  simp [refPairs, refRaw, splitAmp, dropFinalEmpty]

theorem finalizeA_spec (cfg : DecoderCfg) (a : A) (hi : InvA a) :
    (finalizeA cfg a).params.reverse = a.params.reverse ++ refPairs cfg (curA a) := by
  unfold finalizeA closeA
  cases hs : a.state with
  | key =>
    have hne : (none == some AMP) = false := by decide
    simp only [hne, Bool.or_false, if_true, Bool.true_or, fieldA]
    by_cases hp : a.pend = []
    · simp [hp, curA, hs, refPairs_nil, ofS, toS]
    · simp only [hp, if_false, Option.isSome_some, if_true, Option.getD_some]
      simp only [curA, hs, ofS, addParam, toS]
      rw [refPairs_single cfg a.pend hi.pa hp, splitFirstEq_noeq a.pend (hi.pk hs), decOut_nil, dec_out, dec_params]
      simp
  | value =>
    simp only [fieldA]
    have hnv := hi.nv hs
    have hcur : ∀ b ∈ a.name.getD [] ++ EQS :: a.pend, b ≠ AMP := by
      intro b hb
      rcases List.mem_append.mp hb with h | h
      · exact (hnv b h).1
      · rcases List.mem_cons.mp h with h | h
        · rw [h]; decide
        · exact hi.pa b h
    simp only [curA, hs, ofS, addParam2, toS]
    rw [refPairs_single cfg _ hcur (by simp), splitFirstEq_eq _ _ (fun b hb => (hnv b hb).2), dec_out, dec_out, dec_params, dec_params]
    by_cases hp : a.pend = []
    · simp [hp]
    · simp [hp]

theorem machine_ref (cfg : DecoderCfg) (bytes : Bytes) (a : A) (hi : InvA a) :
    (finalizeA cfg (bytes.foldl (stepA cfg) a)).params.reverse = a.params.reverse ++ refPairs cfg (curA a ++ bytes) := by
  induction bytes generalizing a with
  | nil => simpa using finalizeA_spec cfg a hi
  | cons c rest ih =>
    have h := stepA_spec cfg a c rest hi
    rw [List.foldl_cons, ih _ h.1, h.2]

end Htp.Urlenc
