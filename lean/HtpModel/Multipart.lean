/- Model of htp_multipart.c (multipart/form-data): boundary extraction from the Content-Type header
   (htp_mpartp_find_boundary and its validators), parser creation, the seven-state chunk parser
   htp_mpartp_parse with its three bstr_builders, the set-aside machinery (cr_aside, boundary_pieces,
   htp_martp_process_aside), part handling (line mode / data mode, pending header line, folding),
   part header parsing, Content-Disposition / Content-Type processing, part finalisation and
   htp_mpartp_finalize.

   The model is a transliteration: it mirrors what the C code DOES (including what it does wrong).
   Local variables of htp_mpartp_parse (pos, startpos, data_return_pos) are explicit arguments of
   `parseLoop`; `goto STATE_SWITCH` is the `.sw` entry (which, as in C, skips the `pos < len` test
   of the outer loop; since the F3 repair in /repo no state reads `data[pos]` at `pos == len`: the one
   jump that could arrive there with the chunk used up - after a complete boundary match - returns).

   Not modelled: allocation failure paths, extract_files (mkstemp/write/umask), gave_up_data,
   hook return codes (the hook is assumed to return HTP_OK). -/
import HtpModel.Prim.Bstr

namespace Htp.Multipart
open Htp.Gen

/-! ## constants -/

def LF_LINE : Nat := 0x0001
def CRLF_LINE : Nat := 0x0002
def BBOUNDARY_LWS_AFTER : Nat := 0x0004
def BBOUNDARY_NLWS_AFTER : Nat := 0x0008
def HAS_PREAMBLE : Nat := 0x0010
def HAS_EPILOGUE : Nat := 0x0020
def SEEN_LAST_BOUNDARY : Nat := 0x0040
def PART_AFTER_LAST_BOUNDARY : Nat := 0x0080
def INCOMPLETE : Nat := 0x0100
def HBOUNDARY_INVALID : Nat := 0x0200
def HBOUNDARY_UNUSUAL : Nat := 0x0400
def HBOUNDARY_QUOTED : Nat := 0x0800
def PART_HEADER_FOLDING : Nat := 0x1000
def PART_UNKNOWN : Nat := 0x2000
def PART_HEADER_REPEATED : Nat := 0x4000
def PART_HEADER_UNKNOWN : Nat := 0x8000
def PART_HEADER_INVALID : Nat := 0x10000
def CD_TYPE_INVALID : Nat := 0x20000
def CD_PARAM_REPEATED : Nat := 0x40000
def CD_PARAM_UNKNOWN : Nat := 0x80000
def CD_SYNTAX_INVALID : Nat := 0x100000
def PART_INCOMPLETE : Nat := 0x200000
def NUL_BYTE : Nat := 0x400000

/-- enum htp_multipart_type_t -/
def T_UNKNOWN : Nat := 0
def T_TEXT : Nat := 1
def T_FILE : Nat := 2
def T_PREAMBLE : Nat := 3
def T_EPILOGUE : Nat := 4

def DASH : UInt8 := 0x2d
def DQUOTE : UInt8 := 0x22
def BSLASH : UInt8 := 0x5c
def SEMI : UInt8 := 0x3b
def EQS : UInt8 := 0x3d
def COLON : UInt8 := 0x3a
def COMMA : UInt8 := 0x2c

/-! ## data -/

/-- htp_header_t of a part -/
structure Header where
  name : Bytes
  value : Bytes
  flags : Nat := 0
  deriving Repr, DecidableEq, Inhabited

/-- htp_file_t as far as the multipart parser touches it (fd = -1 always: extraction is off) -/
structure File where
  filename : Bytes
  len : Nat := 0
  deriving Repr, DecidableEq, Inhabited

/-- htp_multipart_part_t -/
structure Part where
  type : Nat := 0
  len : Nat := 0
  name : Option Bytes := none
  value : Option Bytes := none
  contentType : Option Bytes := none
  headers : List Header := []        -- the htp_table_t, insertion order
  file : Option File := none
  deriving Repr, DecidableEq, Inhabited

/-- enum htp_part_mode_t -/
inductive Mode where | line | data
  deriving Repr, DecidableEq, Inhabited

/-- enum htp_multipart_state_t -/
inductive State where | init | data | boundary | isLast1 | isLast2 | eatLws | eatLwsCr
  deriving Repr, DecidableEq, Inhabited

/-- htp_mpartp_t (with the embedded htp_multipart_t). The C `parts` list is `done.reverse ++ cur`:
    the current part is always the most recently pushed one. -/
structure Parser where
  flags : Nat                        -- multipart.flags
  boundary : Bytes                   -- multipart.boundary: CR LF '-' '-' then the boundary
  boundaryCount : Nat := 0
  done : List Part := []             -- parts no longer current, newest first
  cur : Option Part := none          -- current_part
  state : State := .boundary
  matchPos : Nat := 2                -- boundary_match_pos
  mode : Mode := .line               -- current_part_mode (calloc: MODE_LINE = 0)
  boundaryPieces : List Bytes := []  -- bstr_builders, oldest piece first
  headerPieces : List Bytes := []
  pending : Option Bytes := none     -- pending_header_line
  dataPieces : List Bytes := []
  candPos : Nat := 0                 -- boundary_candidate_pos
  crAside : Nat := 0
  events : List (Nat × Option Bytes) := []   -- FILE_DATA hook calls, newest first: (part index, data; none = NULL)
  stuck : Bool := false              -- model artefact: a fuel ran out (never happens; printed by the driver)
  deriving Repr, DecidableEq, Inhabited

@[inline] def Parser.raise (p : Parser) (bit : Nat) : Parser := { p with flags := p.flags ||| bit }

/-! ## Content-Disposition -/

/-- htp_mpartp_cd_param_type: 1 = name, 2 = filename, 0 = other -/
def cdParamType (n : Bytes) : Nat :=
  if n == (b!"name") then 1 else if n == (b!"filename") then 2 else 0

/-- htp_mpart_decode_quoted_cd_value_inplace -/
def decodeQuoted : Bytes → Bytes
  | [] => []
  | [c] => [c]
  | c :: d :: rest =>
    if c == BSLASH && (d == DQUOTE || d == BSLASH) then d :: decodeQuoted rest
    else c :: decodeQuoted (d :: rest)

/-- the "find the end of the value" loop: raw value (escapes kept) and what follows the closing quote;
    `none` = CD_SYNTAX_INVALID (backslash as last byte, or no closing quote) -/
def scanQuoted : Bytes → Bytes → Option (Bytes × Bytes)
  | [], _ => none
  | [c], acc => if c == DQUOTE then some (acc.reverse, []) else none
  | c :: d :: rest, acc =>
    if c == DQUOTE then some (acc.reverse, d :: rest)
    else if c == BSLASH && (d == DQUOTE || d == BSLASH) then scanQuoted rest (d :: c :: acc)
    else scanQuoted (d :: rest) (c :: acc)

/-- main parameter loop of htp_mpart_part_parse_c_d; `rest` = data[pos..len) -/
def cdLoop : Nat → Bytes → Parser → Part → Parser × Part
  | 0, _, p, part => ({ p with stuck := true }, part)
  | fuel + 1, rest, p, part =>
    if rest.isEmpty then (p, part) else
    let bad : Parser × Part := (p.raise CD_SYNTAX_INVALID, part)
    match rest.dropWhile cIsspace with
    | [] => bad
    | c :: rest =>
      if c != SEMI then bad else
      let rest := rest.dropWhile cIsspace
      if rest.isEmpty then bad else
      let pname := rest.takeWhile (fun c => !cIsspace c && c != EQS)
      let rest := rest.drop pname.length
      if rest.isEmpty then bad else
      match rest.dropWhile cIsspace with
      | [] => bad
      | c :: rest =>
        if c != EQS then bad else
        match rest.dropWhile cIsspace with
        | [] => bad
        | c :: rest =>
          if c != DQUOTE then bad else
          match scanQuoted rest [] with
          | none => bad
          | some (raw, rest) =>
            match cdParamType pname with
            | 1 =>
              if part.name.isSome then (p.raise CD_PARAM_REPEATED, part)
              else cdLoop fuel rest p { part with name := some (decodeQuoted raw) }
            | 2 =>
              if part.file.isSome then (p.raise CD_PARAM_REPEATED, part)
              else cdLoop fuel rest p { part with file := some { filename := decodeQuoted raw } }
            | _ => (p.raise CD_PARAM_UNKNOWN, part)

/-- htp_table_get_c on the part headers -/
def getHeaderC (hs : List Header) (key : Bytes) : Option Header :=
  hs.find? (fun h => Bstr.cmpMemNocaseNorzero h.name key == 0)

/-- htp_mpart_part_parse_c_d -/
def parseCD (p : Parser) (part : Part) : Parser × Part :=
  match getHeaderC part.headers (b!"content-disposition") with
  | none => (p.raise PART_UNKNOWN, part)
  | some h =>
    if Bstr.indexOfMem h.value (b!"form-data") != some 0 then (p.raise CD_SYNTAX_INVALID, part)
    else cdLoop (h.value.length + 1) (h.value.drop 9) p part

/-- htp_parse_ct_header -/
def parseCtHeader (v : Bytes) : Bytes :=
  Bstr.toLowercase (v.takeWhile (fun c => c != SEMI && c != COMMA && c != 0x20))

/-- htp_mpart_part_parse_c_t -/
def parseCT (part : Part) : Part :=
  match getHeaderC part.headers (b!"content-type") with
  | none => part
  | some h => { part with contentType := some (parseCtHeader h.value) }

/-- htp_mpart_part_process_headers -/
def processHeaders (p : Parser) (part : Part) : Parser × Part :=
  let (p, part) := parseCD p part
  (p, parseCT part)

/-! ## part headers -/

/-- the "add to the existing header" branch: first header whose name matches (htp_table_get) -/
def mergeHeader (name value : Bytes) : List Header → Option (List Header)
  | [] => none
  | h :: hs =>
    if Bstr.cmpMemNocase h.name name == 0 then
      some ({ h with value := h.value ++ (b!", ") ++ value, flags := h.flags ||| PART_HEADER_REPEATED } :: hs)
    else (mergeHeader name value hs).map (h :: ·)

/-- htp_mpartp_parse_header -/
def parseHeader (p : Parser) (part : Part) (data : Bytes) : Parser × Part :=
  if data.contains 0 then (p.raise NUL_BYTE, part) else
  let bad : Parser × Part := (p.raise PART_HEADER_INVALID, part)
  let len := data.length
  if (data.takeWhile isSpace).length != 0 then bad else
  let colon := (data.takeWhile (· != COLON)).length
  if colon == len then bad else
  if colon == 0 then bad else
  if isLws (data.getD (colon - 1) 0) then bad else
  let value := (data.drop (colon + 1)).dropWhile isLws
  if value.isEmpty then bad else
  let name := data.take colon
  if !name.all isToken then bad else
  let p := if Bstr.cmpMemNocase name (b!"content-disposition") != 0 && Bstr.cmpMemNocase name (b!"content-type") != 0
    then p.raise PART_HEADER_UNKNOWN else p
  match mergeHeader name value part.headers with
  | some hs => (p.raise PART_HEADER_REPEATED, { part with headers := hs })
  | none => (p, { part with headers := part.headers ++ [{ name := name, value := value }] })

/-! ## part data -/

/-- htp_mpartp_run_request_file_data_hook (cfg non-NULL, hook returns HTP_OK) -/
def runFileHook (p : Parser) (part : Part) (data : Option Bytes) : Parser × Part :=
  let n := match data with | some d => d.length | none => 0
  let part := { part with file := part.file.map fun f => { f with len := f.len + n } }
  ({ p with events := (p.done.length, data) :: p.events }, part)

/-- "Ignore the line endings": the new `len` -/
def stripLineEnd (d : Bytes) : Nat :=
  let len := d.length
  if len > 1 then
    let len := if d.getD (len - 1) 0 == LF then len - 1 else len
    if d.getD (len - 1) 0 == CR then len - 1 else len
  else if len > 0 then
    if d.getD (len - 1) 0 == LF then len - 1 else len
  else len

/-- htp_mpart_part_handle_data on the current part (`data` non-empty) -/
def partHandleData (p : Parser) (part : Part) (data : Bytes) (isLine : Bool) : Parser :=
  let part := { part with len := part.len + data.length }
  let p := if hasFlag p.flags SEEN_LAST_BOUNDARY && part.type == T_UNKNOWN
    then { p with dataPieces := p.dataPieces ++ [data] } else p
  match p.mode with
  | .line =>
    if isLine then
      -- a line that came in pieces is re-assembled; `line != NULL` in C
      let assembled := p.headerPieces.length > 0
      let lineData := if assembled then (p.headerPieces ++ [data]).flatten else data
      let p := if assembled then { p with headerPieces := [] } else p
      let len := stripLineEnd lineData
      if len == 0 then
        let (p, part) := match p.pending with
          | some l => let (p, part) := parseHeader p part l; ({ p with pending := none }, part)
          | none => (p, part)
        let (p, part) := processHeaders p part
        let p := { p with mode := .data, headerPieces := [] }
        if part.file.isSome then { p with cur := some { part with type := T_FILE } }
        else if part.name.isSome then { p with cur := some { part with type := T_TEXT }, dataPieces := [] }
        else { p with cur := some part }
      else
        -- the line ending is dropped on both paths: bstr_adjust_len(line, len) for a re-assembled line
        -- (S17, repaired in /repo), bstr_dup_mem(data, len) otherwise
        let fresh := lineData.take len
        match p.pending with
        | none => { p with pending := some fresh, cur := some part }
        | some pend =>
          if cIsspace (lineData.getD 0 0) then
            { p.raise PART_HEADER_FOLDING with pending := some (pend ++ lineData.take len), cur := some part }
          else
            let (p, part) := parseHeader p part pend
            { p with pending := some fresh, cur := some part }
    else { p with headerPieces := p.headerPieces ++ [data], cur := some part }
  | .data =>
    if part.type == T_FILE then
      let (p, part) := runFileHook p part (some data)
      { p with cur := some part }
    else if hasFlag p.flags SEEN_LAST_BOUNDARY && part.type == T_UNKNOWN then
      { p with cur := some part }     -- already stored above (F5, repaired in /repo: it used to be stored twice)
    else { p with dataPieces := p.dataPieces ++ [data], cur := some part }

/-- htp_mpartp_handle_data -/
def handleData (p : Parser) (data : Bytes) (isLine : Bool) : Parser :=
  if data.isEmpty then p else
  match p.cur with
  | some part => partHandleData p part data isLine
  | none =>
    -- htp_mpart_part_create clears part_data_pieces and part_header_pieces (NOT pending_header_line)
    let p := { p with dataPieces := [], headerPieces := [] }
    if p.boundaryCount == 0 then
      partHandleData { p.raise HAS_PREAMBLE with mode := .data } { type := T_PREAMBLE } data isLine
    else
      partHandleData { p with mode := .line } {} data isLine

/-- htp_mpart_part_finalize_data -/
def finalizeData (p : Parser) (part : Part) : Parser × Part :=
  let (p, part) :=
    if hasFlag p.flags SEEN_LAST_BOUNDARY then
      if part.type == T_UNKNOWN then
        let p := if hasFlag p.flags HAS_EPILOGUE then p.raise PART_UNKNOWN else p
        (p.raise HAS_EPILOGUE, { part with type := T_EPILOGUE })
      else (p.raise PART_AFTER_LAST_BOUNDARY, part)
    else (p, part)
  let p := if part.type != T_EPILOGUE && p.mode != .data then p.raise PART_INCOMPLETE else p
  let p := if part.type == T_UNKNOWN then p.raise PART_UNKNOWN else p
  if part.type == T_FILE then runFileHook p part none
  else if p.dataPieces.length > 0 then
    ({ p with dataPieces := [] }, { part with value := some p.dataPieces.flatten })
  else if part.type == T_TEXT then (p, { part with value := some [] })   -- an empty value, not NULL (repaired in /repo)
  else (p, part)

/-- htp_mpartp_handle_boundary -/
def handleBoundary (p : Parser) : Parser :=
  match p.cur with
  | none => p
  | some part =>
    let (p, part) := finalizeData p part
    { p with done := part :: p.done, cur := none, mode := .line }

/-- htp_martp_process_aside -/
def processAside (p : Parser) (matched : Bool) : Parser :=
  if matched || p.mode == .line then
    let p := if !matched && p.crAside != 0 then { handleData p [CR] false with crAside := 0 }
      else { p with crAside := 0 }
    match p.boundaryPieces with
    | [] => p
    | b :: rest =>
      let p :=
        if !matched then
          let p := handleData p (b.take p.candPos) true
          let p := handleData p (b.drop p.candPos) false
          rest.foldl (fun p b => handleData p b false) p
        else
          let lx := p.candPos
          let lx := if lx > 0 && b.getD (lx - 1) 0 == LF then
              (if lx - 1 > 0 && b.getD (lx - 2) 0 == CR then lx - 2 else lx - 1)
            else lx
          handleData p (b.take lx) false
      { p with boundaryPieces := [] }
  else
    let p := if p.crAside != 0 then { handleData p [CR] false with crAside := 0 } else p
    let p := p.boundaryPieces.foldl (fun p b => handleData p b false) p
    { p with boundaryPieces := [] }

/-! ## the chunk parser -/

/-- data[s..e) -/
def slice (data : Bytes) (s e : Nat) : Bytes := (data.drop s).take (e - s)

/-- where control is inside htp_mpartp_parse -/
inductive Entry where
  | top      -- the test of the outer `while (pos < len)`
  | sw       -- label STATE_SWITCH (no test)
  | dataIn   -- the test of the inner while loop of STATE_DATA
  deriving Repr, DecidableEq, Inhabited

/-- htp_mpartp_parse on one chunk. -/
def parseLoop (data : Bytes) : Nat → Entry → Parser → (pos startpos drp : Nat) → Parser
  | 0, _, p, _, _, _ => { p with stuck := true }
  | fuel + 1, .top, p, pos, sp, drp =>
    if pos < data.length then parseLoop data fuel .sw p pos sp drp else p
  | fuel + 1, .dataIn, p, pos, sp, drp =>
    let len := data.length
    if pos < len then
      let c := data.getD pos 0
      if c == CR then
        -- a CR set aside at the end of the previous chunk is data after all (S16, repaired in /repo)
        let p := if p.crAside != 0 then { handleData p [CR] false with crAside := 0 } else p
        if pos + 1 == len then
          parseLoop data fuel .dataIn { p with crAside := 1 } (pos + 1) sp drp
        else if data.getD (pos + 1) 0 == LF then
          let pos := pos + 2
          parseLoop data fuel .sw
            { p.raise CRLF_LINE with candPos := pos - sp, matchPos := 2, state := .boundary } pos sp pos
        else
          parseLoop data fuel .dataIn { p with crAside := 0 } (pos + 1) sp drp
      else if c == LF then
        let pos := pos + 1
        let p := if p.crAside == 0 then p.raise LF_LINE else p.raise CRLF_LINE
        parseLoop data fuel .sw { p with candPos := pos - sp, matchPos := 2, state := .boundary } pos sp pos
      else
        let p := if p.crAside != 0 then { handleData p [CR] false with crAside := 0 } else p
        parseLoop data fuel .dataIn p (pos + 1) sp drp
    else
      -- no more data: process the chunk (minus a trailing CR that was set aside); break; outer loop ends
      handleData p (slice data sp (pos - p.crAside)) false
  | fuel + 1, .sw, p, pos, sp, drp =>
    let len := data.length
    match p.state with
    | .init => p
    | .data => parseLoop data fuel .dataIn p pos sp drp
    | .boundary =>
      if pos < len then
        if data.getD pos 0 != p.boundary.getD p.matchPos 0 then
          -- mismatch
          let p := processAside p false
          if p.mode == .line then
            let p := handleData p (slice data sp drp) true
            parseLoop data fuel .sw { p with state := .data } pos drp drp
          else
            parseLoop data fuel .sw { p with state := .data } drp sp drp
        else
          let pos := pos + 1
          let p := { p with matchPos := p.matchPos + 1 }
          if p.matchPos == p.boundary.length then
            -- boundary match
            let p := processAside p true
            let dlen := drp - sp
            let dlen := if dlen > 0 && data.getD (sp + dlen - 1) 0 == LF then dlen - 1 else dlen
            let dlen := if dlen > 0 && data.getD (sp + dlen - 1) 0 == CR then dlen - 1 else dlen
            let p := handleData p (slice data sp (sp + dlen)) true
            let p := { p with boundaryCount := p.boundaryCount + 1 }
            let p := if hasFlag p.flags SEEN_LAST_BOUNDARY then p.raise PART_AFTER_LAST_BOUNDARY else p
            let p := handleBoundary p
            -- (the fix for F3) the byte deciding "last boundary?" may only arrive with the next chunk
            if pos < len then parseLoop data fuel .sw { p with state := .isLast2 } pos sp drp
            else { p with state := .isLast2 }
          else parseLoop data fuel .sw p pos sp drp
      else
        -- chunk exhausted while matching: keep the unprocessed tail for later
        { p with boundaryPieces := p.boundaryPieces ++ [data.drop sp] }
    | .isLast2 =>
      if data.getD pos 0 == DASH then parseLoop data fuel .top { p with state := .isLast1 } (pos + 1) sp drp
      else parseLoop data fuel .top { p with state := .eatLws } pos sp drp
    | .isLast1 =>
      if data.getD pos 0 == DASH then
        parseLoop data fuel .top { p.raise SEEN_LAST_BOUNDARY with state := .eatLws } (pos + 1) sp drp
      else
        parseLoop data fuel .top { p.raise BBOUNDARY_NLWS_AFTER with state := .eatLws } pos sp drp
    | .eatLws =>
      let c := data.getD pos 0
      if c == CR then parseLoop data fuel .top { p with state := .eatLwsCr } (pos + 1) sp drp
      else if c == LF then
        parseLoop data fuel .top { p.raise LF_LINE with state := .data } (pos + 1) (pos + 1) drp
      else if isLws c then parseLoop data fuel .top (p.raise BBOUNDARY_LWS_AFTER) (pos + 1) sp drp
      else parseLoop data fuel .top (p.raise BBOUNDARY_NLWS_AFTER) (pos + 1) sp drp
    | .eatLwsCr =>
      if data.getD pos 0 == LF then
        parseLoop data fuel .top { p.raise CRLF_LINE with state := .data } (pos + 1) (pos + 1) drp
      else
        parseLoop data fuel .top { p.raise BBOUNDARY_NLWS_AFTER with state := .eatLws } pos sp drp

/-- every candidate line start is tried once; a try costs at most boundary_len + 1 byte steps,
    a byte step at most three calls of `parseLoop` -/
def parseFuel (p : Parser) (data : Bytes) : Nat := 4 * (data.length + 2) * (p.boundary.length + 3) + 16

/-- htp_mpartp_parse(parser, data, len) -/
def parse (p : Parser) (data : Bytes) : Parser :=
  parseLoop data (parseFuel p data) .top p 0 0 0

/-- htp_mpartp_finalize -/
def finalize (p : Parser) : Parser :=
  -- set-aside data is processed even when no part is open yet (F4, repaired in /repo)
  let p := if p.cur.isSome || p.boundaryPieces.length > 0 || p.crAside != 0 then processAside p false else p
  match p.cur with
  | none => { p with boundaryPieces := [] }
  | some part =>
    let (p, part) := finalizeData p part
    let p := if part.type != T_EPILOGUE then p.raise INCOMPLETE else p
    { p with cur := some part, boundaryPieces := [] }

/-- htp_mpartp_create + htp_mpartp_init_boundary: the stored boundary is CR LF "--" boundary and the
    parser starts in STATE_BOUNDARY at match position 2 (the first boundary needs no CRLF) -/
def create (boundary : Bytes) (flags : Nat) : Parser :=
  { flags := flags, boundary := [CR, LF, DASH, DASH] ++ boundary }

/-! ## boundary extraction -/

/-- htp_mpartp_validate_boundary -/
def validateBoundary (b : Bytes) (flags : Nat) : Nat :=
  let flags := if b.length == 0 || b.length > 70 then flags ||| HBOUNDARY_INVALID else flags
  b.foldl (fun f c =>
    if (0x30 ≤ c && c ≤ 0x39) || (0x61 ≤ c && c ≤ 0x7a) || (0x41 ≤ c && c ≤ 0x5a) || c == DASH then f
    else if c == 0x27 || c == 0x28 || c == 0x29 || c == 0x2b || c == 0x5f || c == 0x2c || c == 0x2e
         || c == 0x2f || c == 0x3a || c == 0x3d || c == 0x3f then f ||| HBOUNDARY_UNUSUAL
    else f ||| HBOUNDARY_INVALID) flags

/-- the while loop of htp_mpartp_validate_content_type: (counter, flags) -/
def validateCtLoop : Nat → Bytes → Nat → Nat → Nat × Nat
  | 0, _, n, f => (n, f)
  | fuel + 1, data, n, f =>
    if data.isEmpty then (n, f) else
    match Bstr.indexOfMemNocase data (b!"boundary") with
    | none => (n, f)
    | some i =>
      let data := data.drop i
      if !data.contains EQS then (n, f) else
      let f := (data.take 8).foldl (fun f c => if 0x61 ≤ c && c ≤ 0x7a then f else f ||| HBOUNDARY_INVALID) f
      validateCtLoop fuel (data.drop 8) (n + 1) f

/-- htp_mpartp_validate_content_type -/
def validateContentType (ct : Bytes) (flags : Nat) : Nat :=
  let (n, f) := validateCtLoop (ct.length + 1) ct 0 flags
  if n > 1 then f ||| HBOUNDARY_INVALID else f

/-- htp_mpartp_find_boundary: (boundary, flags); boundary = none when the call does not return HTP_OK -/
def findBoundary (ct : Bytes) : Option Bytes × Nat :=
  match Bstr.indexOfMemNocase ct (b!"boundary") with
  | none => (none, 0)
  | some i =>
    let data := ct.drop (i + 8)
    let pre := data.takeWhile (· != EQS)
    let flags := pre.foldl (fun f c => if isSpace c then f ||| HBOUNDARY_UNUSUAL else f ||| HBOUNDARY_INVALID) 0
    match data.drop pre.length with
    | [] => (none, flags ||| HBOUNDARY_INVALID)
    | _ :: rest =>
      let ws := rest.takeWhile isSpace
      let flags := if ws.isEmpty then flags else flags ||| HBOUNDARY_UNUSUAL
      match rest.drop ws.length with
      | [] => (none, flags ||| HBOUNDARY_INVALID)
      | c :: rest' =>
        let (boundary, after, flags) :=
          if c == DQUOTE then
            let flags := flags ||| HBOUNDARY_UNUSUAL
            let b := rest'.takeWhile (· != DQUOTE)
            match rest'.drop b.length with
            | [] => (c :: b, ([] : Bytes), flags ||| HBOUNDARY_INVALID)   -- unterminated: keep the opening quote
            | _ :: after => (b, after, flags)
          else
            let b := (c :: rest').takeWhile (fun c => c != COMMA && c != SEMI && !isSpace c)
            (b, (c :: rest').drop b.length, flags)
        if boundary.isEmpty then (none, flags ||| HBOUNDARY_INVALID) else
        let flags :=
          if after.any (fun c => !isSpace c) then flags ||| HBOUNDARY_INVALID
          else if after.any isSpace then flags ||| HBOUNDARY_UNUSUAL else flags
        let flags := validateBoundary boundary flags
        let flags := if !Bstr.beginsWithMem ct (b!"multipart/form-data;") then flags ||| HBOUNDARY_INVALID else flags
        (some boundary, validateContentType ct flags)

/-! ## whole run -/

structure Result where
  boundary : Option Bytes            -- what htp_mpartp_find_boundary returned (none: not HTP_OK)
  stored : Option Bytes := none      -- multipart.boundary as htp_mpartp_create stored it
  flags : Nat
  boundaryCount : Nat := 0
  parts : List Part := []
  events : List (Nat × Option Bytes) := []
  stuck : Bool := false
  deriving Repr, DecidableEq, Inhabited

/-- find_boundary; create; parse every chunk; finalize; read the htp_multipart_t -/
def run (contentType : Bytes) (chunks : List Bytes) : Result :=
  match findBoundary contentType with
  | (none, flags) => { boundary := none, flags := flags }
  | (some b, flags) =>
    let p := finalize (chunks.foldl parse (create b flags))
    { boundary := some b, stored := some p.boundary, flags := p.flags, boundaryCount := p.boundaryCount,
      parts := p.done.reverse ++ p.cur.toList, events := p.events.reverse, stuck := p.stuck }

end Htp.Multipart
