/- Kernel-checked (`decide +kernel`, no native evaluation) witnesses that the multipart model is reducible by the
   kernel and reproduces the chunking-dependent behaviour of htp_multipart.c reported in MPART_REPORT.md.
   Optional module: build with `lake build HtpModel.MultipartExamples`. -/
import HtpModel.Multipart
open Htp Htp.Multipart

def ct : Bytes := (b!"multipart/form-data; boundary=B")
def body1 : Bytes := (b!"--B\r\nContent-Disposition: form-data; name=\"a\\\"b\"; filename=\"f\"\r\nX: y\r\n z\r\n\r\nhe\r\nllo\r\n--B--\r\n")

-- kernel evaluation (decide) of whole-run facts
example : (run ct [body1]).flags = 0x1000 ||| 0x8000 ||| 0x40 ||| 0x2 := by decide +kernel
example : (run ct [body1]).parts.map (·.type) = [2] := by decide +kernel
example : ((run ct [body1]).parts.map (·.name)) = [some (b!"a\"b")] := by decide +kernel
example : (run ct [body1]).events = [(0, some (b!"he\r\nllo")), (0, none)] := by decide +kernel
-- S16 (repaired in /repo): no CR is lost when CR|CR straddles a chunk border
example : ((run ct [(b!"--B\r\nContent-Disposition: form-data; name=\"a\"\r\n\r\nx\r"), (b!"\r\n--B--")]).parts.map (·.value)) = [some (b!"x\r")] := by decide +kernel
example : ((run ct [(b!"--B\r\nContent-Disposition: form-data; name=\"a\"\r\n\r\nx\r\r\n--B--")]).parts.map (·.value)) = [some (b!"x\r")] := by decide +kernel
-- boundary text ending a chunk: the final "--" is recognised in the next chunk (F3, repaired in /repo)
example : hasFlag (run ct [(b!"--B"), (b!"--\r\n")]).flags SEEN_LAST_BOUNDARY = true := by decide +kernel
example : hasFlag (run ct [(b!"--B--\r\n")]).flags SEEN_LAST_BOUNDARY = true := by decide +kernel
example : (findBoundary (b!"multipart/form-data; boundary=\"a b\" ")) = (some (b!"a b"), 0x600) := by decide +kernel
-- F4 (repaired in /repo): set-aside data is no longer dropped by finalize when no part exists yet
example : ((run ct [(b!"a\r\n")]).parts.map (·.value)) = [some (b!"a\r\n")] := by decide +kernel
example : ((run ct [(b!"a"), (b!"\r\n")]).parts.map (·.value)) = [some (b!"a\r\n")] := by decide +kernel
-- S17 (repaired in /repo): a cut inside a header line does not leave the line ending in the header value
example : ((run ct [(b!"--B\r\nX"), (b!": v\r\n\r\n")]).parts.map (·.headers)) = [[{ name := (b!"X"), value := (b!"v") }]] := by
  decide +kernel
example : ((run ct [(b!"--B\r\nX: v\r\n\r\n")]).parts.map (·.headers)) = [[{ name := (b!"X"), value := (b!"v") }]] := by
  decide +kernel
