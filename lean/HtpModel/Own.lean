/- Ownership model for C18: which blocks the library allocates and frees, in which order, when the k-th allocation of a call
   sequence fails. Mirrors htp_list.c (create / push with growth / destroy), htp_table.c (create / add / destroy), bstr.c
   (dup / add with expansion / free), bstr_builder.c and htp_connection.c (create / open / destroy) as they are in /repo.
   The correspondence check (`O <fn> <k>` in harness/af/afail.c vs `own <fn> <k>` here) compares the canonical traces. -/
import HtpModel.Basic

namespace Htp.Own

inductive Ev where
  | alloc (id : Nat)              -- malloc/calloc/strdup returned block `id`
  | fail                          -- an allocation returned NULL
  | realloc (old new : Nat)       -- realloc released `old` and returned `new`
  | free (id : Nat)
  deriving Repr, DecidableEq, Inhabited

/-- the heap as the library sees it -/
structure H where
  next : Nat := 0                 -- id of the next block
  live : List Nat := []
  trace : List Ev := []           -- newest first
  countdown : Nat := 0            -- k > 0: the k-th allocation from now fails, once; 0: none fails
  bad : Bool := false             -- a block that is not live was freed or reallocated
  deriving Repr, Inhabited

/-- does the allocation attempted now fail? -/
def H.tick (h : H) : H × Bool :=
  match h.countdown with
  | 0 => (h, false)
  | 1 => ({ h with countdown := 0 }, true)
  | k + 2 => ({ h with countdown := k + 1 }, false)

def H.alloc (h : H) : H × Option Nat :=
  let (h, f) := h.tick
  if f then ({ h with trace := .fail :: h.trace }, none)
  else ({ h with next := h.next + 1, live := h.next :: h.live, trace := .alloc h.next :: h.trace }, some h.next)

def H.free (h : H) (id : Nat) : H :=
  { h with live := h.live.erase id, trace := .free id :: h.trace, bad := h.bad || !h.live.contains id }

/-- realloc(old, n): on failure the old block stays; on success the old block is gone and a new id is returned -/
def H.realloc (h : H) (old : Nat) : H × Option Nat :=
  let (h, f) := h.tick
  if f then ({ h with trace := .fail :: h.trace }, none)
  else ({ h with next := h.next + 1, live := h.next :: h.live.erase old, trace := .realloc old h.next :: h.trace,
                 bad := h.bad || !h.live.contains old }, some h.next)

/-! ### htp_list (array-backed) -/

structure L where
  struct : Nat
  elems : Nat
  size : Nat := 0
  max : Nat
  deriving Repr, Inhabited

/-- htp_list_array_create: calloc the structure, malloc the slots; the structure is released when the slots cannot be had -/
def listCreate (max : Nat) (h : H) : H × Option L :=
  match h.alloc with
  | (h, none) => (h, none)
  | (h, some s) =>
    match h.alloc with
    | (h, none) => (h.free s, none)
    | (h, some e) => (h, some { struct := s, elems := e, max := max })

/-- htp_list_array_push with `first = 0` (nothing was shifted): growth is one realloc; on failure the list is unchanged -/
def listPush (l : L) (h : H) : H × L × Bool :=
  if l.size ≥ l.max then
    match h.realloc l.elems with
    | (h, none) => (h, l, false)
    | (h, some e) => (h, { l with elems := e, max := l.max * 2, size := l.size + 1 }, true)
  else (h, { l with size := l.size + 1 }, true)

/-- htp_list_array_destroy -/
def listDestroy (l : L) (h : H) : H := (h.free l.elems).free l.struct

/-- `n` pushes; returns how many succeeded -/
def listPushes : Nat → L → H → Nat → H × L × Nat
  | 0, l, h, ok => (h, l, ok)
  | n + 1, l, h, ok =>
    let (h, l, r) := listPush l h
    listPushes n l h (if r then ok + 1 else ok)

/-- the scenario of `O list k` generalised to `n` pushes into a list created with `cap` slots -/
def listScenario (cap n k : Nat) : H × Nat :=
  let h : H := { countdown := k }
  match listCreate cap h with
  | (h, none) => (h, 0)
  | (h, some l) =>
    let (h, l, ok) := listPushes n l h 0
    (listDestroy l h, ok)

/-! ### bstr -/

/-- bstr_dup_c / bstr_dup_mem / bstr_alloc: one block -/
def bstrDup (h : H) : H × Option Nat := h.alloc

/-- bstr_add_c that needs expansion: realloc; on failure NULL is returned and the caller still owns the old string -/
def bstrAddExpand (b : Nat) (h : H) : H × Option Nat := h.realloc b

def bstrScenario (k : Nat) : H × Nat :=
  let h : H := { countdown := k }
  match bstrDup h with
  | (h, none) => (h, 0)
  | (h, some b) =>
    match bstrAddExpand b h with
    | (h, none) => (h.free b, 0)
    | (h, some b2) => (h.free b2, 1)

/-! ### htp_table -/

structure T where
  struct : Nat
  list : L                 -- embedded list: `struct` of the list is the table block itself and is never freed separately
  keys : List Nat := []    -- copies owned by the table, oldest first
  deriving Repr, Inhabited

/-- htp_table_create(size): calloc the table, htp_list_init(&table->list, size * 2) -/
def tableCreate (size : Nat) (h : H) : H × Option T :=
  match h.alloc with
  | (h, none) => (h, none)
  | (h, some s) =>
    match h.alloc with
    | (h, none) => (h.free s, none)
    | (h, some e) => (h, some { struct := s, list := { struct := s, elems := e, max := size * 2 } })

/-- htp_table_add: copy the key, push key and element; the copy is released when either push fails -/
def tableAdd (t : T) (h : H) : H × T × Bool :=
  match h.alloc with
  | (h, none) => (h, t, false)
  | (h, some dk) =>
    let (h, l, r1) := listPush t.list h
    if !r1 then (h.free dk, { t with list := l }, false) else
    let (h, l2, r2) := listPush l h
    if !r2 then
      -- htp_list_pop undoes the first push
      (h.free dk, { t with list := { l2 with size := l2.size - 1 } }, false)
    else (h, { t with list := l2, keys := t.keys ++ [dk] }, true)

/-- htp_table_destroy: htp_table_clear frees the copied keys, then the slots, then the table -/
def tableDestroy (t : T) (h : H) : H :=
  let h := t.keys.foldl (fun h k => h.free k) h
  (h.free t.list.elems).free t.struct

/-- caller: dup a key, add it, free its own key; `m` times -/
def tableAdds : Nat → T → H → Nat → H × T × Nat
  | 0, t, h, ok => (h, t, ok)
  | m + 1, t, h, ok =>
    match bstrDup h with
    | (h, none) => tableAdds m t h ok
    | (h, some key) =>
      let (h, t, r) := tableAdd t h
      tableAdds m t (h.free key) (if r then ok + 1 else ok)

def tableScenario (m k : Nat) : H × Nat :=
  let h : H := { countdown := k }
  match tableCreate 2 h with
  | (h, none) => (h, 0)
  | (h, some t) =>
    let (h, t, ok) := tableAdds m t h 0
    (tableDestroy t h, ok)

/-! ### htp_conn -/

structure C where
  struct : Nat
  transactions : L
  messages : L
  client : Option Nat := none
  server : Option Nat := none
  deriving Repr, Inhabited

/-- htp_conn_create -/
def connCreate (h : H) : H × Option C :=
  match h.alloc with
  | (h, none) => (h, none)
  | (h, some s) =>
    match listCreate 16 h with
    | (h, none) => (h.free s, none)
    | (h, some tx) =>
      match listCreate 8 h with
      | (h, none) => ((listDestroy tx h).free s, none)
      | (h, some ms) => (h, some { struct := s, transactions := tx, messages := ms })

/-- htp_conn_open: two strdup; when the second fails the first is released AND forgotten (`fixedOpen`; before the repair the
    pointer was left in place and htp_conn_destroy released it a second time) -/
def connOpen (fixedOpen : Bool) (c : C) (h : H) : H × C × Bool :=
  match h.alloc with
  | (h, none) => (h, c, false)
  | (h, some ca) =>
    let c := { c with client := some ca }
    match h.alloc with
    | (h, none) => (h.free ca, if fixedOpen then { c with client := none } else c, false)
    | (h, some sa) => (h, { c with server := some sa }, true)

/-- htp_conn_destroy (no transactions, no log messages) -/
def connDestroy (c : C) (h : H) : H :=
  let h := listDestroy c.transactions h
  let h := listDestroy c.messages h
  let h := match c.server with | some a => h.free a | none => h
  let h := match c.client with | some a => h.free a | none => h
  h.free c.struct

def connScenario (fixedOpen : Bool) (k : Nat) : H × Nat :=
  let h : H := { countdown := k }
  match connCreate h with
  | (h, none) => (h, 0)
  | (h, some c) =>
    let (h, c, r) := connOpen fixedOpen c h
    (connDestroy c h, if r then 1 else 0)

/-! ### bstr_builder -/

structure B where
  struct : Nat
  pieces : L
  owned : List Nat := []   -- the pieces, oldest first
  deriving Repr, Inhabited

def builderCreate (h : H) : H × Option B :=
  match h.alloc with
  | (h, none) => (h, none)
  | (h, some s) =>
    match listCreate 16 h with
    | (h, none) => (h.free s, none)
    | (h, some l) => (h, some { struct := s, pieces := l })

/-- bstr_builder_append_c: dup, then push. NOTE: when the push fails the copy is not released (a leak, not unsafety; it
    cannot happen in this scenario because two pieces fit the 16 initial slots). -/
def builderAppend (b : B) (h : H) : H × B × Bool :=
  match bstrDup h with
  | (h, none) => (h, b, false)
  | (h, some p) =>
    let (h, l, r) := listPush b.pieces h
    if r then (h, { b with pieces := l, owned := b.owned ++ [p] }, true) else (h, { b with pieces := l }, false)

def builderDestroy (b : B) (h : H) : H :=
  let h := b.owned.foldl (fun h p => h.free p) h
  (listDestroy b.pieces h).free b.struct

def builderScenario (k : Nat) : H × Nat :=
  let h : H := { countdown := k }
  match builderCreate h with
  | (h, none) => (h, 0)
  | (h, some b) =>
    let (h, b, r1) := builderAppend b h
    let (h, b, r2) := builderAppend b h
    -- bstr_builder_to_str: one allocation, released by the caller
    let (h, rc) := match h.alloc with
      | (h, none) => (h, 0)
      | (h, some s) => (h.free s, 10)
    (builderDestroy b h, (if r1 then 1 else 0) + (if r2 then 1 else 0) + rc)

/-- a heap is in order: nothing that was not live has been freed, and nothing is live any more -/
def H.clean (h : H) : Bool := !h.bad && h.live.isEmpty

end Htp.Own
