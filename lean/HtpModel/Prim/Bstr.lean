/- Model of the bstr.c primitives that the parsers use, as structural recursions that follow
   the C loops. Results that are C `int` with -1 for "none" are `Option Nat` here. -/
import HtpModel.Basic

namespace Htp.Bstr
open Htp.Gen

def lower (b : Bytes) : Bytes := b.map cTolower

/-- bstr_util_cmp_mem -/
def cmpMem : Bytes → Bytes → Int
  | [], [] => 0
  | [], _ :: _ => -1
  | _ :: _, [] => 1
  | a :: as, b :: bs => if a != b then (if a < b then -1 else 1) else cmpMem as bs

/-- bstr_util_cmp_mem_nocase -/
def cmpMemNocase : Bytes → Bytes → Int
  | [], [] => 0
  | [], _ :: _ => -1
  | _ :: _, [] => 1
  | a :: as, b :: bs =>
    if cTolower a != cTolower b then (if cTolower a < cTolower b then -1 else 1) else cmpMemNocase as bs

/-- bstr_util_cmp_mem_nocasenorzero: NUL bytes of the FIRST argument are skipped -/
def cmpMemNocaseNorzero : Bytes → Bytes → Int
  | [], [] => 0
  | [], _ :: _ => -1
  | a :: as, [] => if a == 0 then cmpMemNocaseNorzero as [] else 1
  | a :: as, b :: bs =>
    if a == 0 then cmpMemNocaseNorzero as (b :: bs)
    else if cTolower a != cTolower b then (if cTolower a < cTolower b then -1 else 1)
    else cmpMemNocaseNorzero as bs

/-- inner loop of bstr_begins_with_mem / index_of: is `needle` a prefix of `hay`? -/
def prefixMatch (eq : UInt8 → UInt8 → Bool) : (hay needle : Bytes) → Bool
  | _, [] => true
  | [], _ :: _ => false
  | h :: hs, n :: ns => if eq h n then prefixMatch eq hs ns else false

def eqExact (a b : UInt8) : Bool := a == b
def eqLower (a b : UInt8) : Bool := cTolower a == cTolower b
def eqUpper (a b : UInt8) : Bool := cToupper a == cToupper b

/-- bstr_begins_with_mem -/
def beginsWithMem (hay needle : Bytes) : Bool := prefixMatch eqExact hay needle
/-- bstr_begins_with_mem_nocase -/
def beginsWithMemNocase (hay needle : Bytes) : Bool := prefixMatch eqLower hay needle

def indexOfAux (eq : UInt8 → UInt8 → Bool) (needle : Bytes) : Bytes → Nat → Option Nat
  | [], _ => none
  | h :: t, i => if prefixMatch eq (h :: t) needle then some i else indexOfAux eq needle t (i + 1)

/-- bstr_util_mem_index_of_mem -/
def indexOfMem (hay needle : Bytes) : Option Nat := indexOfAux eqExact needle hay 0
/-- bstr_util_mem_index_of_mem_nocase (compares with toupper, as the C does) -/
def indexOfMemNocase (hay needle : Bytes) : Option Nat := indexOfAux eqUpper needle hay 0

/-- inner loop of the NUL-skipping search: zeros in the haystack do not advance the needle -/
def prefixMatchNorzero : (hay needle : Bytes) → Bool
  | _, [] => true
  | [], _ :: _ => false
  | h :: hs, n :: ns =>
    if h == 0 then prefixMatchNorzero hs (n :: ns)
    else if eqUpper h n then prefixMatchNorzero hs ns else false

def indexOfNorzeroAux (needle : Bytes) : Bytes → Nat → Option Nat
  | [], _ => none
  | h :: t, i =>
    if h == 0 then indexOfNorzeroAux needle t (i + 1)
    else if prefixMatchNorzero (h :: t) needle then some i else indexOfNorzeroAux needle t (i + 1)

/-- bstr_util_mem_index_of_mem_nocasenorzero -/
def indexOfMemNocaseNorzero (hay needle : Bytes) : Option Nat := indexOfNorzeroAux needle hay 0

/-- bstr_char_at -/
def charAt (b : Bytes) (pos : Nat) : Option UInt8 := b[pos]?
/-- bstr_char_at_end -/
def charAtEnd (b : Bytes) (pos : Nat) : Option UInt8 :=
  if pos ≥ b.length then none else b[b.length - 1 - pos]?

def chrAux (c : UInt8) : Bytes → Nat → Option Nat
  | [], _ => none
  | h :: t, i => if h == c then some i else chrAux c t (i + 1)
/-- bstr_chr -/
def chr (b : Bytes) (c : UInt8) : Option Nat := chrAux c b 0

def rchrAux (c : UInt8) : Bytes → Nat → Option Nat → Option Nat
  | [], _, acc => acc
  | h :: t, i, acc => rchrAux c t (i + 1) (if h == c then some i else acc)
/-- bstr_rchr (the C scans from the end; the last match scanning forward is the same index) -/
def rchr (b : Bytes) (c : UInt8) : Option Nat := rchrAux c b 0 none

/-- bstr_add_mem_noex with destination capacity `cap` (bstr_size) -/
def addMemNoex (cap : Nat) (dst src : Bytes) : Bytes :=
  if cap < dst.length + src.length then dst ++ src.take (cap - dst.length) else dst ++ src

/-- bstr_to_lowercase -/
def toLowercase (b : Bytes) : Bytes := b.map cTolower

def dropWhileEnd (p : UInt8 → Bool) (b : Bytes) : Bytes := (b.reverse.dropWhile p).reverse

/-- bstr_util_mem_trim -/
def memTrim (b : Bytes) : Bytes := dropWhileEnd cIsspace (b.dropWhile cIsspace)

/-- bstr_chop -/
def chop (b : Bytes) : Bytes := b.dropLast

/-- digit value as bstr_util_mem_to_pint computes it (-1 = none) -/
def digitVal (c : UInt8) : Option Nat :=
  if 48 ≤ c.toNat ∧ c.toNat ≤ 57 then some (c.toNat - 48)
  else if 97 ≤ c.toNat ∧ c.toNat ≤ 122 then some (c.toNat - 87)
  else if 65 ≤ c.toNat ∧ c.toNat ≤ 90 then some (c.toNat - 55)
  else none

/-- the loop of bstr_util_mem_to_pint from position `i`, with `acc = some rval` once a digit
    has been seen. Returns (value, lastlen). -/
def pintLoop (base : Nat) : Bytes → Nat → Option Nat → Int × Nat
  | [], i, acc => (match acc with | some r => (r : Int) | none => 0, i + 1)
  | c :: cs, i, acc =>
    match digitVal c with
    | some d =>
      if d ≥ base then (match acc with | some r => ((r : Int), i) | none => (-1, i))
      else match acc with
        | some r => if (INT64_MAX' - d) / base < r then (-2, i) else pintLoop base cs (i + 1) (some (r * base + d))
        | none => pintLoop base cs (i + 1) (some d)
    | none => (match acc with | some r => ((r : Int), i) | none => (-1, i))

/-- bstr_util_mem_to_pint: (result, *lastlen) -/
def memToPint (data : Bytes) (base : Nat) : Int × Nat := pintLoop base data 0 none

end Htp.Bstr
