/- bstr_builder.c: a string builder = an htp_list of owned pieces; to_str allocates the total length and appends every piece
   with the non-expanding append. -/
import HtpModel.Prim.Ring
import HtpModel.Prim.Bstr
namespace Htp.Builder
open Htp

structure Builder where
  pieces : Ring.Ring Bytes

/-- bstr_builder_create (BSTR_BUILDER_DEFAULT_SIZE = 16) -/
def create : Builder := ⟨Ring.create 16⟩
/-- bstr_builder_append_mem / appendn (allocation succeeds) -/
def append (b : Builder) (d : Bytes) : Builder := ⟨Ring.push b.pieces d⟩
/-- bstr_builder_append_c: the C string's bytes stop at the first NUL -/
def appendC (b : Builder) (d : Bytes) : Builder := append b (d.takeWhile (· != 0))
def size (b : Builder) : Nat := Ring.size b.pieces
/-- bstr_builder_clear -/
def clear (b : Builder) : Builder := if size b == 0 then b else ⟨Ring.clear b.pieces⟩
/-- the pieces in list order, as the two loops of bstr_builder_to_str read them (htp_list_get i) -/
def piecesList (b : Builder) : List Bytes := (List.range (size b)).filterMap (Ring.get b.pieces)
/-- bstr_builder_to_str -/
def toStr (b : Builder) : Bytes :=
  let ps := piecesList b
  let total := ps.foldl (fun n p => n + p.length) 0
  ps.foldl (fun acc p => Bstr.addMemNoex total acc p) []

end Htp.Builder
