/- Number parsers of htp_util.c built on bstr_util_mem_to_pint. Results are the C return
   values (Int, negative = error codes as in the source). -/
import HtpModel.Prim.Bstr

namespace Htp.Num
open Htp.Gen Htp.Bstr

/-- htp_parse_positive_integer_whitespace -/
def parsePositiveIntegerWhitespace (data : Bytes) (base : Nat) : Int :=
  if data.length = 0 then -1003 else
  let rest := data.dropWhile isLws
  let pos := data.length - rest.length
  if pos = data.length then -1001 else
  let (r, lastPos) := memToPint rest base
  if r < 0 then r else
  -- "Move after the last digit": pos += last_pos; then only LWS may follow
  let tail := data.drop (pos + lastPos)
  if tail.all isLws then r else -1002

/-- htp_parse_content_length (the connp argument only affects logging) -/
def parseContentLength (b : Bytes) : Int :=
  if b.length = 0 then -1003 else
  let rest := b.dropWhile (fun c => c.toNat < 48 || c.toNat > 57)
  if rest.length = 0 then -1001 else
  (memToPint rest 10).1

def isHexDigitC (c : UInt8) : Bool :=
  cIsdigit c || (97 ≤ c.toNat && c.toNat ≤ 102) || (65 ≤ c.toNat && c.toNat ≤ 70)

/-- htp_parse_chunked_length: (result, extension flag set?) -/
def parseChunkedLength (data : Bytes) : Int × Bool :=
  let d := data.dropWhile isChunkedCtl
  if d.length = 0 then (-1004, false) else
  let digits := d.takeWhile isHexDigitC
  let junk := d.drop digits.length
  let ext := junk.any (· == 59)
  let r := parsePositiveIntegerWhitespace digits 16
  if r < 0 then (r, ext) else
  if r > INT32_MAX' then (-1, ext) else (r, ext)

/-- htp_parse_port: (port, invalid) -/
def parsePort (data : Bytes) : Int × Bool :=
  if data.length = 0 then (-1, true) else
  let p := parsePositiveIntegerWhitespace data 10
  if p < 0 then (-1, true)
  else if p > 0 ∧ p < 65536 then (p, false)
  else (-1, true)

end Htp.Num
