/- Model of htp_list.c (array-backed ring buffer), field for field.
   `elems` has `maxSize` slots; a slot that C leaves uninitialised holds `default`. -/
import HtpModel.Basic

namespace Htp.Ring

structure Ring (α : Type) where
  first : Nat
  last : Nat
  maxSize : Nat
  curSize : Nat
  elems : List α
  deriving Repr

variable {α : Type} [Inhabited α]

/-- htp_list_array_init (size > 0 is checked by htp_list_array_create) -/
def create (size : Nat) : Ring α :=
  { first := 0, last := 0, maxSize := size, curSize := 0, elems := List.replicate size default }

/-- the slot the C code reads for logical index `i` (htp_list_array_get) -/
def slot (r : Ring α) (i : Nat) : Nat :=
  if r.first + i < r.maxSize then r.first + i else i - (r.maxSize - r.first)

/-- htp_list_array_get: NULL (none) when out of range -/
def get (r : Ring α) (idx : Nat) : Option α :=
  if idx ≥ r.curSize then none else some (r.elems.getD (slot r idx) default)

/-- htp_list_array_pop -/
def pop (r : Ring α) : Ring α × Option α :=
  if r.curSize = 0 then (r, none) else
  let pos0 := r.first + r.curSize - 1
  let pos := if pos0 > r.maxSize - 1 then pos0 - r.maxSize else pos0
  ({ r with last := pos, curSize := r.curSize - 1 }, some (r.elems.getD pos default))

/-- the growth step of htp_list_array_push (allocation assumed to succeed) -/
def grow (r : Ring α) : Ring α :=
  let newSize := r.maxSize * 2
  let blk :=
    if r.first = 0 then r.elems ++ List.replicate (newSize - r.maxSize) default
    else (r.elems.drop r.first ++ r.elems.take r.first) ++ List.replicate (newSize - r.maxSize) default
  { first := 0, last := r.curSize, maxSize := newSize, curSize := r.curSize, elems := blk }

/-- the store-and-advance tail of htp_list_array_push -/
def pushCore (r1 : Ring α) (e : α) : Ring α :=
  let last' := r1.last + 1
  { r1 with elems := r1.elems.set r1.last e, curSize := r1.curSize + 1,
            last := if last' = r1.maxSize then 0 else last' }

/-- htp_list_array_push -/
def push (r : Ring α) (e : α) : Ring α :=
  pushCore (if r.curSize ≥ r.maxSize then grow r else r) e

/-- htp_list_array_replace: `false` = HTP_DECLINED -/
def replace (r : Ring α) (idx : Nat) (e : α) : Ring α × Bool :=
  if idx + 1 > r.curSize then (r, false)
  else ({ r with elems := r.elems.set ((r.first + idx) % r.maxSize) e }, true)

/-- htp_list_array_shift -/
def shift (r : Ring α) : Ring α × Option α :=
  if r.curSize = 0 then (r, none) else
  let f' := r.first + 1
  ({ r with first := if f' = r.maxSize then 0 else f', curSize := r.curSize - 1 },
   some (r.elems.getD r.first default))

/-- htp_list_array_clear -/
def clear (r : Ring α) : Ring α := { r with first := 0, last := 0, curSize := 0 }

def size (r : Ring α) : Nat := r.curSize

/-- abstraction: the logical sequence -/
def abs (r : Ring α) : List α :=
  (List.range r.curSize).map (fun i => r.elems.getD (slot r i) default)

/-- the invariant the code maintains -/
structure WF (r : Ring α) : Prop where
  pos : 0 < r.maxSize
  len : r.elems.length = r.maxSize
  first_lt : r.first < r.maxSize
  cur_le : r.curSize ≤ r.maxSize
  last_eq : r.last = (if r.first + r.curSize < r.maxSize then r.first + r.curSize
                      else r.first + r.curSize - r.maxSize)

end Htp.Ring
