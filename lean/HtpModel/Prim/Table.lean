/- Model of htp_table.c on top of the ring model: keys and values alternate in one list. -/
import HtpModel.Prim.Ring
import HtpModel.Prim.Bstr

namespace Htp.Table
open Htp.Ring

/-- a slot of the underlying list: NULL, a key (bstr) or an element (opaque pointer, here a number) -/
inductive Slot where
  | null
  | key (k : Bytes)
  | val (v : Nat)
  deriving Repr, DecidableEq, Inhabited

/-- enum htp_table_alloc_t -/
inductive Alloc where | unknown | copied | adopted | referenced
  deriving Repr, DecidableEq, Inhabited

structure Table where
  list : Ring Slot
  alloc : Alloc
  deriving Repr

/-- htp_table_create(size): list of 2*size slots -/
def create (size : Nat) : Table := { list := Ring.create (size * 2), alloc := .unknown }

/-- _htp_table_add with both pushes succeeding -/
def rawAdd (t : Table) (k : Bytes) (v : Nat) : Table :=
  { t with list := Ring.push (Ring.push t.list (.key k)) (.val v) }

/-- htp_table_add / addn / addk: `mode` is the strategy of the entry point used.
    Returns the table and HTP_OK (true) / HTP_ERROR (false). -/
def addWith (mode : Alloc) (t : Table) (k : Bytes) (v : Nat) : Table × Bool :=
  if t.alloc = .unknown then (rawAdd { t with alloc := mode } k v, true)
  else if t.alloc ≠ mode then (t, false)
  else (rawAdd t k v, true)

def add := addWith .copied
def addn := addWith .adopted
def addk := addWith .referenced

def keyAt (t : Table) (i : Nat) : Option Bytes :=
  match Ring.get t.list i with | some (.key k) => some k | _ => none
def valAt (t : Table) (i : Nat) : Option Nat :=
  match Ring.get t.list i with | some (.val v) => some v | _ => none

/-- the lookup loop shared by htp_table_get / get_c / get_mem: i = 0,2,4,… < size -/
def getLoop (matchf : Bytes → Bool) (t : Table) : (fuel i : Nat) → Option Nat
  | 0, _ => none
  | fuel + 1, i =>
    if i < Ring.size t.list then
      match keyAt t i with
      | some k => if matchf k then valAt t (i + 1) else getLoop matchf t fuel (i + 2)
      | none => getLoop matchf t fuel (i + 2)
    else none

/-- the number of key comparisons the lookup loop makes (its cost; the hook counter `htp_verif_table_cmp` in the code) -/
def getLoopCost (matchf : Bytes → Bool) (t : Table) : (fuel i : Nat) → Nat
  | 0, _ => 0
  | fuel + 1, i =>
    if i < Ring.size t.list then
      match keyAt t i with
      | some k => if matchf k then 1 else 1 + getLoopCost matchf t fuel (i + 2)
      | none => 1 + getLoopCost matchf t fuel (i + 2)
    else 0

def getCost (t : Table) (key : Bytes) : Nat :=
  getLoopCost (fun k => Bstr.cmpMemNocase k key == 0) t (Ring.size t.list) 0
def getCCost (t : Table) (key : Bytes) : Nat :=
  getLoopCost (fun k => Bstr.cmpMemNocaseNorzero k key == 0) t (Ring.size t.list) 0

/-- htp_table_get / htp_table_get_mem: bstr_cmp_nocase(candidate, key) == 0 -/
def get (t : Table) (key : Bytes) : Option Nat :=
  getLoop (fun k => Bstr.cmpMemNocase k key == 0) t (Ring.size t.list) 0

/-- htp_table_get_c: bstr_cmp_c_nocasenorzero(candidate, ckey) == 0 -/
def getC (t : Table) (key : Bytes) : Option Nat :=
  getLoop (fun k => Bstr.cmpMemNocaseNorzero k key == 0) t (Ring.size t.list) 0

/-- htp_table_get_index: (key, element) -/
def getIndex (t : Table) (idx : Nat) : Option Bytes × Option Nat :=
  if idx ≥ Ring.size t.list then (none, none) else (keyAt t (idx * 2), valAt t (idx * 2 + 1))

/-- htp_table_size -/
def size (t : Table) : Nat := Ring.size t.list / 2

/-- htp_table_clear / clear_ex (key ownership is not modelled) -/
def clear (t : Table) : Table := { t with list := Ring.clear t.list }

/-- abstraction: the insertion-ordered association list -/
def pairs : List Slot → List (Bytes × Nat)
  | .key k :: .val v :: rest => (k, v) :: pairs rest
  | _ => []

def abs (t : Table) : List (Bytes × Nat) := pairs (Ring.abs t.list)

end Htp.Table
