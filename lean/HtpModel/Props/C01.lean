/- C01 — memory safety and clean teardown on arbitrary traffic and call histories.

   Memory safety is a property of the C runtime that a Lean model cannot exhibit directly; the check decides it with the
   sanitizer-instrumented correspondence harness (ASan + UBSan, exact-size heap copies of every chunk, freed after the call,
   leak check at exit). What the model CAN carry, and what is proved here for every input (no bounds), are the index and
   reference disciplines that the C code relies on for that safety:
   * `C01_inplace_write_behind_read`: the three in-place rewriters (path decoder, generic URL decoder, UTF-8 best-fit converter)
     and the dot-segment remover never produce more bytes than they have consumed, at every prefix of the loop - the write index
     stays at or behind the read index, so rewriting in place never overruns the buffer or clobbers unread input;
   * `C01_cursor_in_chunk`: copying a byte keeps the read/consume cursors inside the current chunk and reads an index below its
     length;
   * `C01_buffer_takes_chunk_bytes_only`: what is set aside at the end of a call is taken from inside the chunk;
   * `C01_destroy_unlinks`: destroying a transaction removes it from the connection's list and clears both parser references
     to it, so no later step can reach the destroyed transaction through the model's state.
   NOT expressible here: heap lifetimes of the C objects themselves, allocation failure (C18), the sanitizer verdicts. -/
import HtpModel.Lemmas.Decode
import HtpModel.Lemmas.Segment
import HtpModel.Lemmas.CursorInv
import HtpModel.Lemmas.BufInv
import HtpModel.Lemmas.OutInv
import HtpModel.Lemmas.CFunsCmp
import HtpModel.Lemmas.CFunsSearch
import HtpModel.Lemmas.CFunsLine
import HtpModel.Lemmas.CFunsNum
import HtpModel.Lemmas.CFunsNormalize
import HtpModel.Lemmas.CFunsRing
import HtpModel.Lemmas.RefsValidOut

namespace Htp.C01
open Htp Htp.Conn Htp.Gen Htp.Decode

/-- **C01 (in-place rewriting)**: for every prefix `pre` of the input, what the decoder has written after reading `pre` is no
    longer than `pre` (stated through the loop functions started on `pre`; `pathLoop`/`urlLoop`/`utf8DecLoop` process their input
    left to right and their state after a prefix is their result on that prefix). -/
theorem C01_inplace_write_behind_read (cfg : DecoderCfg) (pre : Bytes) (flags : Nat) (status : Int) :
    (decodePath cfg pre flags status).1.length ≤ pre.length ∧
    (urldecodeEx cfg pre flags status).1.length ≤ pre.length ∧
    (utf8DecodePath cfg pre flags status).1.length ≤ pre.length ∧
    (normalizePath pre).length ≤ pre.length :=
  ⟨decodePath_len .., urldecodeEx_len .., utf8DecodePath_len .., normalizePath_len _⟩

/-- **C01 (cursor stays in the chunk)**: a byte copy (IN_COPY_BYTE_OR_RETURN / OUT_COPY_BYTE_OR_RETURN) on a direction whose
    cursors are inside its chunk reads an index below the chunk length and leaves the cursors inside the chunk. -/
theorem C01_cursor_in_chunk (d d' : Dir) (b : UInt8) (hs : d.Sane) (h : d.copyByte = some (d', b)) :
    d'.Sane ∧ d.read.toNat < d.cur.length ∧ d.cur[d.read.toNat]? = some b := by
  have h3 := seg_copyByte_pending d d' b hs h
  refine ⟨h3.2.1, ?_, h3.2.2⟩
  have := h3.2.2
  by_cases hlt : d.read.toNat < d.cur.length
  · exact hlt
  · rw [List.getElem?_eq_none (by omega)] at this
    simp at this

/-- **C01 (buffering copies chunk bytes only)**: the piece that htp_connp_req_buffer / res_buffer appends is a slice of the
    current chunk between the consume and read cursors - never longer than their distance. -/
theorem C01_buffer_takes_chunk_bytes_only (d : Dir) : (sliceCur d d.consume d.read).length ≤ (d.read - d.consume).toNat := by
  unfold sliceCur
  simp only [List.length_take]
  omega

theorem findTx_destroyTx (uid : Nat) (c : Conn) : (destroyTx uid c).findTx uid = none := by
  unfold destroyTx Conn.findTx
  simp only
  induction c.txs with
  | nil => rfl
  | cons o rest ih =>
    cases o with
    | none => simp only [List.map_cons, List.find?]; exact ih
    | some x =>
      by_cases h : (x.uid == uid) = true
      · simp only [List.map_cons, h, if_true, List.find?]; exact ih
      · have h' : (x.uid == uid) = false := by simpa using h
        simp only [List.map_cons, h', Bool.false_eq_true, if_false, List.find?]; exact ih

/-- **C01 (destroy unlinks)**: after htp_tx_destroy the transaction is in no slot of the connection and neither direction of
    the parser refers to it. -/
theorem C01_destroy_unlinks (uid : Nat) (c : Conn) :
    (destroyTx uid c).findTx uid = none ∧ (destroyTx uid c).inn.tx ≠ some uid ∧ (destroyTx uid c).out.tx ≠ some uid := by
  refine ⟨findTx_destroyTx uid c, ?_, ?_⟩
  · unfold destroyTx
    simp only
    split
    · simp
    · rename_i h; simpa using h
  · unfold destroyTx
    simp only
    split
    · simp
    · rename_i h; simpa using h

/-- **C01 (the cursors stay inside the chunk, every state function)**: a data call stores a chunk with the cursors at its start
    (`wf_reqStoreChunk`), and each of the fourteen request state functions - whatever it answers, for every chunk, buffer content, transaction
    list and callback policy - leaves 0 <= consume <= read <= len <= |chunk|, so every `data[offset]` of the next pass has offset < len.
    The two counted body states need a non-negative amount owed (they are entered with a positive one; a negative amount would be
    converted to a huge size_t in C: that the Content-Length parser never lets one through is corresponded, not proved). -/
theorem C01_req_state_cursors_in_chunk (cfg : Cfg) (c : Conn) (w : WFCur c.inn)
    (ho1 : c.inState = ReqState.bodyIdentity → 0 ≤ c.inn.bodyDataLeft)
    (ho2 : c.inState = ReqState.bodyChunkedData → 0 ≤ c.inn.chunkedLength) :
    WFCur (reqStateFn cfg c).1.inn ∧ WFCur (reqHandleStateChange (reqStateFn cfg c).1).1.inn :=
  ⟨wfIn_reqStateFn cfg c w ho1 ho2, wfIn_reqHandleStateChange _ (wfIn_reqStateFn cfg c w ho1 ho2)⟩

/-- the state a data call starts its loop in -/
theorem C01_req_chunk_stored_wellformed (d : Bytes) (c : Conn) (h : (d.length : Int) < 18446744073709551616) :
    WFCur (reqStoreChunk (some d) d.length c).inn := wf_reqStoreChunk d c h

/-- non-vacuity: a fresh chunk in the request-line state satisfies the hypotheses, and the line state reads it to its end -/
example :
    let c : Conn := reqStoreChunk (some (b!"GET /")) 5 { inState := .line }
    WFCur c.inn ∧ (reqStateFn {} c).1.inn.read = 5 := by
  refine ⟨wf_reqStoreChunk _ _ (by decide), by decide⟩

/-- **C01 (the cursors stay inside the chunk, whole loop of a request data call)**: from the well-formed chunk a data call stores, the loop of
    htp_connp_req_data - any number of passes, any state functions, any callback policy - returns with 0 <= consume <= read <= len <= |chunk|,
    provided no pass finds a negative amount owed in a counted body state (`CallReach` names the states the loop passes through). -/
theorem C01_req_call_cursors_in_chunk (cfg : Cfg) (fuel : Nat) (d : Bytes) (c : Conn) (hs : (d.length : Int) < 18446744073709551616)
    (hb : inBufLen c ≤ cfg.fieldLimitHard)
    (ho : ∀ c', CallReach cfg (reqStoreChunk (some d) d.length c) c' → OwedOK c') :
    WFCur (reqDriverLoop cfg false fuel (reqStoreChunk (some d) d.length c)).1.inn :=
  (reqDriverLoop_wfb cfg fuel _ _ CallReach.start ⟨wf_reqStoreChunk d c hs, hb⟩ ho).1

/-- **C01 (response direction, whole loop of a data call)**: from the well-formed chunk a response data call stores, the loop of
    htp_connp_res_data returns with 0 <= consume, 0 <= read <= len <= |chunk| - every `data[read]` of a later pass is inside the chunk -
    provided no pass finds a negative amount owed in a counted body state. (`consume <= read` is NOT claimed on this side: after an
    invalid chunk-length line or a probed line in RES_FINALIZE the read offset is moved back.) -/
theorem C01_res_call_cursors_in_chunk (cfg : Cfg) (fuel : Nat) (d : Bytes) (c : Conn) (hs : (d.length : Int) < 18446744073709551616)
    (hb : outBufLen c ≤ cfg.fieldLimitHard)
    (ho : ∀ c', CallReachO cfg (resStoreChunk (some d) d.length c) c' → OwedOKO c') :
    WFO (resDriverLoop cfg false fuel (resStoreChunk (some d) d.length c)).1.out :=
  (resDriverLoop_wfbo cfg fuel _ _ CallReachO.start (wfbo_resStoreChunk _ d c hs hb) ho).1

/-- **C01 (the code itself: no read or write outside the buffers handed in)**: in the semantics of the translated C functions
    (`HtpModel/CSem.lean`) a read `p[i]` or a write outside the array the caller handed in is UNDEFINED (`none`), and so is a loop that
    does not finish within its fuel. Each conjunct says that the function, translated from the current source, is DEFINED on every input
    (arrays below 2^63 bytes, exact lengths): the comparison, the nested search loop, htp_chomp reading from the end of the buffer
    (`data[*len - 1]`), the number parser, and the in-place dot-segment remover, which reads and WRITES one shared buffer. These are
    corollaries of the equalities with the model (C17_translated_*, C12_translated_normalize); they are the part of C01 that is proved about
    the code rather than observed under the sanitizers. -/
theorem C01_translated_reads_in_bounds (d1 d2 : Bytes) (h1 : d1.length < 2147483648) (h2 : d2.length < 2147483648) :
    (Htp.Gen.C.bstr_util_cmp_mem (d1.length + 1) d1 d2 d1.length d2.length).isSome ∧
    (Htp.Gen.C.bstr_util_mem_index_of_mem (d1.length + 1) d1 d2 d1.length d2.length).isSome ∧
    (Htp.Gen.C.htp_chomp (d1.length + 1) d1 d1.length).isSome ∧
    (Htp.Gen.C.htp_parse_positive_integer_whitespace (d1.length + 1) d1 d1.length 10).isSome ∧
    (Htp.Gen.C.htp_normalize_uri_path_inplace (2 * d1.length + 3) (Htp.CSem.memOf d1) d1.length).isSome := by
  have some_of_map : ∀ {α β : Type} {o : Option α} {f : α → β} {v : β}, o.map f = some v → o.isSome := by
    intro α β o f v h; cases o with
    | none => simp at h
    | some _ => rfl
  refine ⟨some_of_map (Htp.CFuns.bstr_util_cmp_mem_eq d1 d2 (by omega) (by omega) _ (Nat.lt_succ_self _)),
          some_of_map (Htp.CFuns.bstr_util_mem_index_of_mem_eq d1 d2 (by omega) _ (Nat.lt_succ_self _)),
          some_of_map (Htp.CFuns.htp_chomp_eq d1 (by omega) _ (Nat.lt_succ_self _)),
          some_of_map (Htp.CFuns.htp_parse_positive_integer_whitespace_eq' d1 10 (by omega) _ (Nat.lt_succ_self _)), ?_⟩
  obtain ⟨s', hs, _⟩ := Htp.CFuns.htp_normalize_uri_path_inplace_eq d1 (by omega) (2 * d1.length + 3) (by omega)
  rw [hs]; rfl

/-- **C01 (ring buffer of the code itself)**: every slot index the translated htp_list_array_* functions compute - `first + idx`, the
    wrapped `idx - (max_size - first)`, `last`, `(first + idx) % max_size`, the two memcpy ranges of the growth step - is inside `elements`
    for every operation sequence from `htp_list_array_create(n)`: the run is defined (no out-of-bounds slot access is reached) and ends in
    a well-formed ring. -/
theorem C01_translated_ring_in_bounds (n : Nat) (hn : 0 < n) (ops : List Htp.CFuns.COp) (hK : n + ops.length < 2305843009213693952) :
    ∃ f, (Htp.CFuns.runC (Htp.CFuns.fieldsOf (Htp.Ring.create n)) ops).map (·.1) = some f ∧ Htp.Ring.WF (Htp.CFuns.ringOf f) := by
  obtain ⟨f, h1, h2, _⟩ := Htp.CFuns.cring_sim_fresh n hn ops (fun _ _ => by unfold Htp.CFuns.COp.ok; split <;> trivial) hK
  exact ⟨f, by rw [h1]; rfl, h2⟩

/-- **C01 (no dangling transaction reference, over whole histories)**: for a connection parser from its creation - any configuration, any callback
    policy (callbacks may destroy transactions, auto-destroy at transaction-complete included), any history of calls (request and response chunks in
    any interleaving, gaps, close, req_close, open, tx_freed) and after every prefix of it - `in_tx` and `out_tx` are each NULL or name a
    transaction that is still in the connection's list, and a transaction that is no longer in the list is named by neither. Proof: the
    invariant `RefsInv` (references valid; stored uids pairwise distinct and below `nextUid`, so a fresh transaction disturbs no other) is kept by
    every function of both directions - `destroyTx` clears the references it invalidates, the response side takes `out_tx` from a live slot or
    from the transaction it has just created (`Lemmas/RefsValid.lean`, `RefsValidOut.lean`). This is the part of "no use after free of a
    transaction" that lives in the logic; heap lifetimes of the C objects themselves remain with the sanitizer runs. -/
theorem C01_history_refs_valid (cfg : Cfg) (policy : List (Nat × CbAction)) (allow : Bool) (calls pre : List Call) (hp : pre <+: calls) :
    let c := runCalls cfg { policy := policy, allowCbDestroy := allow } pre
    RefsValid c ∧ (∀ u, c.findTx u = none → c.inn.tx ≠ some u ∧ c.out.tx ≠ some u) := by
  intro c
  obtain ⟨h, _, _, h4⟩ := history_refs_valid_fresh cfg policy allow calls pre hp
  exact ⟨h.1, h4⟩

end Htp.C01
