import HtpModel.Lemmas.Conn
namespace Htp.C01
end Htp.C01
