import HtpModel.Lemmas.Conn
namespace Htp.C02
end Htp.C02
