/- C02 — parse fidelity: what was sent is what is reported (well-formed messages).

   Proved here for every input (no bound on lengths): the request header-line parser reports exactly the name and value that a
   well-formed field line carries (`C02_header_roundtrip`), for every token name and every value that does not start or end with
   linear white space, whatever bytes the value contains. The remaining clauses of the property (request line, response line,
   folding and repetition, host/port, cookies, credentials, parameters, bodies, pipelining) are decided by the correspondence of
   the connection model with the implementation and the wire ground-truth oracle of checks/c02.py; the known finding S33
   (a folded response value containing ':') is a counter-example to the full statement on the unchanged code. -/
import HtpModel.Lemmas.Parse
import HtpModel.Lemmas.ReqLine
import HtpModel.Pinned.Eq
import HtpModel.Lemmas.CFunsClasses
import HtpModel.Lemmas.CFunsAsBody
import HtpModel.Lemmas.CFunsBstr

namespace Htp.C02
open Htp Htp.Gen Htp.Parse

/-- **C02 (request header line).** A header line `name ": " value` whose name is a non-empty token and whose value neither starts
    nor ends with linear white space is reported with exactly that name and that value and no anomaly flag - whatever else the
    value contains (colons, NUL bytes, high bytes) and whatever the line terminator was. -/
theorem C02_header_roundtrip (data0 name value : Bytes) (r : Nat)
    (hch : chomp data0 = (name ++ 0x3a :: 0x20 :: value, r))
    (hne : name ≠ []) (htok : name.all isToken = true)
    (hv1 : ∀ c, value.head? = some c → isLws c = false) (hv2 : ∀ c, value.getLast? = some c → isLws c = false) :
    parseRequestHeader data0 = ({ name := name, value := value, flags := 0 }, 0) := by
  have htk : ∀ c ∈ name, isToken c = true := by simpa [List.all_eq_true] using htok
  have hcolon : ((name ++ 0x3a :: 0x20 :: value).takeWhile (fun c => c != 0 && c != 0x3a)) = name :=
    takeWhile_append_stop _ name 0x3a _ (fun y hy => (token_facts y (htk y hy)).1) (by decide)
  unfold parseRequestHeader
  simp only [hch, hcolon]
  have hnl : 0 < name.length := by cases name with | nil => exact absurd rfl hne | cons a t => simp
  have hlen : (name ++ 0x3a :: 0x20 :: value).length = name.length + 2 + value.length := by simp; omega
  have hget : (name ++ 0x3a :: 0x20 :: value).getD name.length 0 = 0x3a := by
    simp [List.getD, List.getElem?_append_right]
  have htrail : trailCount isLws (name ++ 0x3a :: 0x20 :: value) 0 name.length = 0 := by
    unfold trailCount
    simp only [List.take_left', List.drop_zero]
    rw [takeWhile_head_false]
    · rfl
    · intro y hy
      have : y ∈ name := by
        have := List.mem_of_mem_head? hy
        simpa using this
      exact (token_facts y (htk y this)).2
  have hlws32 : isLws 0x20 = true := by decide
  have hscan : scanFwd (fun c => !isLws c) (name ++ 0x3a :: 0x20 :: value) (name.length + 1) = name.length + 2 := by
    unfold scanFwd
    have : (name ++ 0x3a :: 0x20 :: value).drop (name.length + 1) = 0x20 :: value := by
      rw [List.drop_append]; simp [List.drop_of_length_le]
    rw [this]
    simp only [Bool.not_not, List.takeWhile, hlws32]
    rw [takeWhile_head_false _ _ (by intro y hy; simpa using hv1 y hy)]
    rfl
  have hlt : name.length < name.length + 2 + value.length := by omega
  simp only [hlen, hget, htrail, hlt, if_true, hscan]
  have htake : (name ++ 0x3a :: 0x20 :: value).take (name.length - 0) = name := by simp
  have hne0 : (name.length == 0) = false := by simp; omega
  have hcond : (name.length == name.length + 2 + value.length || (0x3a : UInt8) == 0) = false := by
    have h1 : (name.length == name.length + 2 + value.length) = false := by simp; omega
    rw [h1]; decide
  have htv : (List.takeWhile isLws (List.drop (name.length + 2 + 1)
      (List.take (name.length + 2 + value.length) (name ++ 0x3a :: 0x20 :: value))).reverse) = [] := by
    have e : List.take (name.length + 2 + value.length) (name ++ 0x3a :: 0x20 :: value) = name ++ 0x3a :: 0x20 :: value := by
      rw [← hlen]; exact List.take_length
    have e2 : List.drop (name.length + 2 + 1) (name ++ 0x3a :: 0x20 :: value) = value.drop 1 := by
      rw [List.drop_append]
      have h1 : List.drop (name.length + 2 + 1) name = [] := List.drop_of_length_le (by omega)
      have h2 : name.length + 2 + 1 - name.length = 3 := by omega
      rw [h1, h2]; rfl
    rw [e, e2]
    apply takeWhile_head_false
    intro y hy
    rw [List.head?_reverse] at hy
    apply hv2
    cases value with
    | nil => simp at hy
    | cons v vs =>
      cases vs with
      | nil => simp at hy
      | cons w ws => simpa [List.getLast?_cons_cons] using hy
  simp only [hcond, htake, htok, hne0, htv, Bool.false_eq_true, if_false, if_true, List.length_nil, Nat.lt_irrefl, gt_iff_lt]
  have hval : List.drop (name.length + 2) (List.take (name.length + 2 + value.length - 0) (name ++ 0x3a :: 0x20 :: value)) = value := by
    have e : List.take (name.length + 2 + value.length - 0) (name ++ 0x3a :: 0x20 :: value) = name ++ 0x3a :: 0x20 :: value := by
      rw [Nat.sub_zero, ← hlen]; exact List.take_length
    rw [e, List.drop_append]
    have h1 : List.drop (name.length + 2) name = [] := List.drop_of_length_le (by omega)
    have h2 : name.length + 2 - name.length = 2 := by omega
    rw [h1, h2]; rfl
  simp only [ite_self, hval]

/-- non-vacuity: a real line meets the hypotheses (the CR LF terminator is what `chomp` removes) -/
example : chomp (b!"Host: www.example.com\r\n") = ((b!"Host") ++ 0x3a :: 0x20 :: (b!"www.example.com"), 2) := by decide
example : parseRequestHeader (b!"Host: www.example.com\r\n") = ({ name := (b!"Host"), value := (b!"www.example.com"), flags := 0 }, 0) :=
  C02_header_roundtrip _ (b!"Host") (b!"www.example.com") 2 (by decide) (by decide) (by decide) (by decide) (by decide)
/-- **C02 (request line)**: a request line `method SP target SP protocol` whose three parts contain no white space is reported with
    exactly that method, target and protocol (default line handling: no NUL termination, no space inside the target). -/
theorem C02_request_line_roundtrip (cfg : Cfg) (m u p : Bytes)
    (hc1 : cfg.reqLineNulTerminates = false) (hc2 : cfg.allowSpaceUri = false)
    (hm : ∀ b ∈ m, isSpace b = false) (hmne : m ≠ [])
    (hu : ∀ b ∈ u, isSpace b = false ∧ cIsspace b = false ∧ b ≠ 0x20) (hune : u ≠ [])
    (hp : ∀ b ∈ p, isSpace b = false) (hpne : p ≠ []) :
    parseRequestLine cfg (m ++ 0x20 :: (u ++ 0x20 :: p)) =
      { method := m, methodNumber := methodNumber m, uri := some u, protocol := some p, protocolNumber := parseProtocol p } := by
  obtain ⟨u0, ut, hue⟩ := List.exists_cons_of_ne_nil hune
  obtain ⟨p0, pt, hpe⟩ := List.exists_cons_of_ne_nil hpne
  obtain ⟨m0, mt, hme⟩ := List.exists_cons_of_ne_nil hmne
  have hm0 : isSpace m0 = false := hm m0 (by rw [hme]; simp)
  have hu0 := hu u0 (by rw [hue]; simp)
  have hp0 : isSpace p0 = false := hp p0 (by rw [hpe]; simp)
  generalize hD : m ++ 0x20 :: (u ++ 0x20 :: p) = D
  have hlen : D.length = m.length + 1 + u.length + 1 + p.length := by rw [← hD]; simp; omega
  have e1 : scanFwd (fun c => !isSpace c) D 0 = 0 := by
    rw [← hD, hme]; unfold scanFwd; simp [List.takeWhile, hm0]
  have e2 : scanFwd isSpace D 0 = m.length := by
    have := scanFwd_at isSpace D [] m 0x20 (u ++ 0x20 :: p) 0 (by rw [← hD]; simp) rfl hm sp20
    simpa using this
  have e3 : scanFwd (fun c => !cIsspace c) D m.length = m.length + 1 := by
    exact scanFwd_at (fun c => !cIsspace c) D m [0x20] u0 (ut ++ 0x20 :: p) m.length (by rw [← hD, hue]; simp) rfl
      (by intro b hb; simp at hb; subst hb; simp [csp20]) (by simp [hu0.2.1])
  have e4 : scanFwd (fun c => c == 0x20) D (m.length + 1) = m.length + 1 + u.length := by
    exact scanFwd_at (fun c => c == 0x20) D (m ++ [0x20]) u 0x20 p (m.length + 1) (by rw [← hD]; simp) (by simp)
      (by intro b hb; simpa using (hu b hb).2.2) (by simp)
  have e5 : scanFwd (fun c => !isSpace c) D (m.length + 1 + u.length) = m.length + 1 + u.length + 1 := by
    exact scanFwd_at (fun c => !isSpace c) D (m ++ 0x20 :: u) [0x20] p0 pt (m.length + 1 + u.length) (by rw [← hD, hpe]; simp) (by simp; omega)
      (by intro b hb; simp at hb; subst hb; simp [sp20]) (by simp [hp0])
  have t1 : (D.drop 0).take (m.length - 0) = m := by rw [← hD]; simp
  have t2 : (D.drop (m.length + 1)).take (m.length + 1 + u.length - (m.length + 1)) = u := by
    have : m.length + 1 + u.length - (m.length + 1) = u.length := by omega
    rw [this, ← hD]
    have : (m ++ 0x20 :: (u ++ 0x20 :: p)).drop (m.length + 1) = u ++ 0x20 :: p := by
      rw [show m ++ 0x20 :: (u ++ 0x20 :: p) = (m ++ [0x20]) ++ (u ++ 0x20 :: p) by simp, List.drop_append]; simp
    rw [this]; simp
  have t3 : D.drop (m.length + 1 + u.length + 1) = p := by
    rw [← hD, show m ++ 0x20 :: (u ++ 0x20 :: p) = (m ++ 0x20 :: u ++ [0x20]) ++ p by simp]
    exact List.drop_left' (by simp; omega)
  have t4 : u.any isSpace = false := by
    simp; intro b hb; exact (hu b hb).1
  unfold parseRequestLine
  simp only [hc1, hc2, Bool.false_eq_true, if_false, e1, e2, e3, e4, e5, t1, t2, t3, t4, bne_self_eq_false, Bool.false_and, hlen]
  have n1 : (m.length + 1 == m.length + 1 + u.length + 1 + p.length) = false := by simp; omega
  have n2 : (m.length + 1 + u.length + 1 == m.length + 1 + u.length + 1 + p.length) = false := by
    have : 0 < p.length := by rw [hpe]; simp
    simp; omega
  simp only [n1, n2, Bool.false_eq_true, if_false]

/-- non-vacuity: an ordinary request line meets the hypotheses -/
example : parseRequestLine {} (b!"GET /a?b=c HTTP/1.1") =
    { method := (b!"GET"), methodNumber := methodNumber (b!"GET"), uri := some (b!"/a?b=c"), protocol := some (b!"HTTP/1.1"),
      protocolNumber := parseProtocol (b!"HTTP/1.1") } :=
  C02_request_line_roundtrip {} (b!"GET") (b!"/a?b=c") (b!"HTTP/1.1") rfl rfl (by decide) (by decide) (by decide) (by decide) (by decide) (by decide)

/-- **C02 (status line)**: a status line `protocol SP status SP reason` whose protocol and status contain no white space and whose reason
    phrase starts with a non-blank byte is reported with exactly that protocol, status and reason phrase (the phrase may contain any
    bytes, spaces included). -/
theorem C02_response_line_roundtrip (pr st msg : Bytes)
    (hpr : ∀ b ∈ pr, isSpace b = false) (hprne : pr ≠ [])
    (hst : ∀ b ∈ st, isSpace b = false) (hstne : st ≠ [])
    (m0 : UInt8) (mt : Bytes) (hmsg : msg = m0 :: mt) (hm0 : cIsspace m0 = false) :
    parseResponseLine (pr ++ 0x20 :: (st ++ 0x20 :: msg)) =
      { protocol := some pr, protocolNumber := parseProtocol pr, status := some st, statusNumber := parseStatus st, message := some msg } := by
  obtain ⟨p0, pt, hpe⟩ := List.exists_cons_of_ne_nil hprne
  obtain ⟨s0, stt, hse⟩ := List.exists_cons_of_ne_nil hstne
  have hp0 : isSpace p0 = false := hpr p0 (by rw [hpe]; simp)
  have hs0 : isSpace s0 = false := hst s0 (by rw [hse]; simp)
  generalize hD : pr ++ 0x20 :: (st ++ 0x20 :: msg) = D
  have hlen : D.length = pr.length + 1 + st.length + 1 + msg.length := by rw [← hD]; simp; omega
  have e0 : scanFwd (fun c => !isSpace c) D 0 = 0 := by
    rw [← hD, hpe]; unfold scanFwd; simp [List.takeWhile, hp0]
  have e1 : scanFwd isSpace D 0 = pr.length := by
    have := scanFwd_at isSpace D [] pr 0x20 (st ++ 0x20 :: msg) 0 (by rw [← hD]; simp) rfl hpr sp20
    simpa using this
  have e2 : scanFwd (fun c => !isSpace c) D pr.length = pr.length + 1 := by
    exact scanFwd_at (fun c => !isSpace c) D pr [0x20] s0 (stt ++ 0x20 :: msg) pr.length (by rw [← hD, hse]; simp) rfl
      (by intro b hb; simp at hb; subst hb; simp [sp20]) (by simp [hs0])
  have e3 : scanFwd isSpace D (pr.length + 1) = pr.length + 1 + st.length := by
    exact scanFwd_at isSpace D (pr ++ [0x20]) st 0x20 msg (pr.length + 1) (by rw [← hD]; simp) (by simp) hst sp20
  have e4 : scanFwd (fun c => !cIsspace c) D (pr.length + 1 + st.length) = pr.length + 1 + st.length + 1 := by
    exact scanFwd_at (fun c => !cIsspace c) D (pr ++ 0x20 :: st) [0x20] m0 mt (pr.length + 1 + st.length) (by rw [← hD, hmsg]; simp) (by simp; omega)
      (by intro b hb; simp at hb; subst hb; simp [csp20]) (by simp [hm0])
  have t1 : (D.drop 0).take (pr.length - 0) = pr := by rw [← hD]; simp
  have t2 : (D.drop (pr.length + 1)).take (pr.length + 1 + st.length - (pr.length + 1)) = st := by
    have : pr.length + 1 + st.length - (pr.length + 1) = st.length := by omega
    rw [this, ← hD]
    have : (pr ++ 0x20 :: (st ++ 0x20 :: msg)).drop (pr.length + 1) = st ++ 0x20 :: msg := by
      rw [show pr ++ 0x20 :: (st ++ 0x20 :: msg) = (pr ++ [0x20]) ++ (st ++ 0x20 :: msg) by simp]
      exact List.drop_left' (by simp)
    rw [this]; simp
  have t3 : D.drop (pr.length + 1 + st.length + 1) = msg := by
    rw [← hD, show pr ++ 0x20 :: (st ++ 0x20 :: msg) = (pr ++ 0x20 :: st ++ [0x20]) ++ msg by simp]
    exact List.drop_left' (by simp; omega)
  have n0 : (pr.length - 0 == 0) = false := by rw [hpe]; simp
  have n1 : (pr.length + 1 == pr.length + 1 + st.length + 1 + msg.length) = false := by simp; omega
  have n2 : (pr.length + 1 + st.length - (pr.length + 1) == 0) = false := by rw [hse]; simp
  have n3 : (pr.length + 1 + st.length + 1 == pr.length + 1 + st.length + 1 + msg.length) = false := by rw [hmsg]; simp
  unfold parseResponseLine
  simp only [e0, e1, e2, e3, e4, t1, t2, t3, hlen, n0, n1, n2, n3, Bool.false_eq_true, if_false]

example : parseResponseLine (b!"HTTP/1.1 404 Not Found") =
    { protocol := some (b!"HTTP/1.1"), protocolNumber := parseProtocol (b!"HTTP/1.1"), status := some (b!"404"), statusNumber := parseStatus (b!"404"),
      message := some (b!"Not Found") } :=
  C02_response_line_roundtrip (b!"HTTP/1.1") (b!"404") (b!"Not Found") (by decide) (by decide) (by decide) (by decide) 0x4e (b!"ot Found") rfl (by decide)

/-- the RFC 2616 separators -/
def sepSpec (c : UInt8) : Bool :=
  c == 0x28 || c == 0x29 || c == 0x3c || c == 0x3e || c == 0x40 || c == 0x2c || c == 0x3b || c == 0x3a || c == 0x5c || c == 0x22 ||
  c == 0x2f || c == 0x5b || c == 0x5d || c == 0x3f || c == 0x3d || c == 0x7b || c == 0x7d || c == 0x20 || c == 0x09

/-- **C02 (the character classes are the documented ones)**: the class tables the translator regenerates from the current source on every
    run - they decide where the line parsers split names, values, tokens and white space - are, for all 256 bytes, the classes of RFC 2616
    and of C's ctype in the "C" locale. A change to a class function that moves any byte breaks this by kernel evaluation, whatever the
    correspondence (whose model follows the regenerated tables) says. -/
theorem C02_char_classes : ∀ c : UInt8,
    Htp.Gen.isLws c = (c == 0x20 || c == 0x09) ∧
    Htp.Gen.isSpace c = (c == 0x20 || (decide (0x09 ≤ c) && decide (c ≤ 0x0d))) ∧
    Htp.Gen.cIsspace c = Htp.Gen.isSpace c ∧
    Htp.Gen.isChunkedCtl c = Htp.Gen.isSpace c ∧
    Htp.Gen.isFoldingChar c = (Htp.Gen.isLws c || c == 0) ∧
    Htp.Gen.isSeparator c = sepSpec c ∧
    Htp.Gen.isText c = (c == 0x09 || decide (0x20 ≤ c)) ∧
    Htp.Gen.isToken c = (decide (0x20 ≤ c) && decide (c ≤ 0x7e) && !sepSpec c) ∧
    Htp.Gen.cIsdigit c = (decide (0x30 ≤ c) && decide (c ≤ 0x39)) ∧
    Htp.Gen.cIsxdigit c = (Htp.Gen.cIsdigit c || (decide (0x41 ≤ c) && decide (c ≤ 0x46)) || (decide (0x61 ≤ c) && decide (c ≤ 0x66))) ∧
    Htp.Gen.cTolower c = (if decide (0x41 ≤ c) && decide (c ≤ 0x5a) then c + 0x20 else c) ∧
    Htp.Gen.cToupper c = (if decide (0x61 ≤ c) && decide (c ≤ 0x7a) then c - 0x20 else c) := by
  apply forall_uint8_of_lt
  decide +kernel

/-- the base64 alphabet of RFC 4648: value of a character, -2 for the padding '=', -1 for anything else -/
def b64Spec (c : UInt8) : Int :=
  if decide (0x41 ≤ c) && decide (c ≤ 0x5a) then (c.toNat : Int) - 0x41
  else if decide (0x61 ≤ c) && decide (c ≤ 0x7a) then (c.toNat : Int) - 0x61 + 26
  else if decide (0x30 ≤ c) && decide (c ≤ 0x39) then (c.toNat : Int) - 0x30 + 52
  else if c == 0x2b then 62 else if c == 0x2f then 63 else if c == 0x3d then -2 else -1

/-- **C02 (the credential decoder's alphabet is base64)**: the decoding table regenerated from htp_base64.c is RFC 4648's, for all 256 bytes
    (the request methods the parser names are pinned likewise below) -/
theorem C02_base64_table : ∀ c : UInt8, Htp.Parse.b64Single c = b64Spec c := by
  apply forall_uint8_of_lt
  decide +kernel

theorem C02_method_table :
    Htp.Parse.methodNumber (b!"GET") = 2 ∧ Htp.Parse.methodNumber (b!"PUT") = 3 ∧ Htp.Parse.methodNumber (b!"POST") = 4 ∧
    Htp.Parse.methodNumber (b!"DELETE") = 5 ∧ Htp.Parse.methodNumber (b!"CONNECT") = 6 ∧ Htp.Parse.methodNumber (b!"OPTIONS") = 7 ∧
    Htp.Parse.methodNumber (b!"TRACE") = 8 ∧ Htp.Parse.methodNumber (b!"PATCH") = 9 ∧ Htp.Parse.methodNumber (b!"HEAD") = 1 ∧
    Htp.Parse.methodNumber (b!"get") = 0 ∧ Htp.Parse.methodNumber (b!"GETX") = 0 ∧ Htp.Gen.methodTableBytes.length = 28 ∧
    Htp.Gen.M_GET = 2 ∧ Htp.Gen.M_HEAD = 1 ∧ Htp.Gen.M_PUT = 3 ∧ Htp.Gen.M_POST = 4 ∧ Htp.Gen.M_CONNECT = 6 := by decide

/-- **C02 (class tables, base64, methods and constants are the reviewed ones)**: snapshot pins of the regenerated definitions the line parsers use -/
theorem C02_class_tables_pinned : Htp.Pinned.ClassTablesPinned := Htp.Pinned.classTables_pinned
theorem C02_constants_pinned : Htp.Pinned.ConstantsPinned := Htp.Pinned.constants_pinned

/-- **C02 (character classes and the status-line test, the code itself)**: the `switch` statements of htp_is_space and htp_is_separator and
    htp_is_token, translated from the current source by extract/ctrans.py (Gen/CFuns.lean), return on every byte what the class tables say -
    tables that are obtained by RUNNING the compiled functions and pinned by `C02_char_classes`: two independent routes from the code to the
    model that meet. htp_treat_response_line_as_body (white space / NUL skipped, then "http" in any case, the four reads guarded by the
    length test) returns the model's decision for every line below 2^63 bytes, within len + 1 loop turns and with every read inside the line. -/
theorem C02_translated_classes (fuel : Nat) (c : UInt8) :
    (Htp.Gen.C.htp_is_space fuel c.toNat).map (·.1) = some (Htp.CSem.b2i (isSpace c)) ∧
    (Htp.Gen.C.htp_is_separator fuel c.toNat).map (·.1) = some (Htp.CSem.b2i (isSeparator c)) ∧
    (Htp.Gen.C.htp_is_token fuel c.toNat).map (·.1) = some (Htp.CSem.b2i (isToken c)) :=
  ⟨Htp.CFuns.htp_is_space_eq fuel c, Htp.CFuns.htp_is_separator_eq fuel c, Htp.CFuns.htp_is_token_eq fuel c⟩

theorem C02_translated_line_as_body (d : Bytes) (h1 : d.length < 9223372036854775808) (fuel : Nat) (hf : d.length < fuel) :
    (Htp.Gen.C.htp_treat_response_line_as_body fuel d d.length).map (·.1) = some (Htp.CSem.b2i (treatResponseLineAsBody d)) :=
  Htp.CFuns.htp_treat_response_line_as_body_eq d h1 fuel hf

/-- the folding test of a header line (htp_connp_is_line_folded: -1 for an empty line, else the folding-character test of its first byte),
    translated code = model -/
theorem C02_translated_line_folded (fuel : Nat) (d : Bytes) :
    (Htp.Gen.C.htp_connp_is_line_folded fuel d d.length).map (·.1)
      = some (match isLineFolded d with | none => -1 | some b => Htp.CSem.b2i b) :=
  Htp.CFuns.BstrC.htp_connp_is_line_folded_eq fuel d

end Htp.C02
