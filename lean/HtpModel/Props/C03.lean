import HtpModel.Lemmas.Conn
namespace Htp.C03
end Htp.C03
