/- C03 — segmentation invariance: TCP chunking does not change the parse.

   Proved here, for every chunk content, cursor position, configuration and amount of previously buffered data (no bounds):
   the "field under construction" of a direction (`Dir.pending`: what earlier calls set aside, then the unconsumed part of the
   current chunk) is what state functions receive as their data (`C03_consolidate_pending`); it is unchanged by the end-of-call
   buffering (`C03_buffer_pending`) and by the arrival of the next chunk (`C03_next_chunk_pending`), and grows by exactly the byte
   copied (`C03_copyByte_pending`). On top of these, for the request line: `C03_reqLine_found`, `C03_reqLine_more` and the
   composition `C03_request_line_cut` - a line cut anywhere into two calls reaches `reqLineComplete` with exactly the bytes it has
   when it arrives in one call.
   NOT proved: the same composition for header lines, chunk-size lines and the response side, and the glue of the driver loop
   around them (decided by correspondence + the canonical-run oracle of checks/c03.py, which found S14 and S15, repaired in
   /repo, and S1, a known finding). -/
import HtpModel.Lemmas.Segment
import HtpModel.Lemmas.HistoryCounters

namespace Htp.C03
open Htp Htp.Conn Htp.Gen

/-- **C03 (buffering keeps the field).** Setting aside the unconsumed tail of a chunk at the end of a call does not change the bytes
    of the field under construction, and leaves nothing unconsumed. -/
theorem C03_buffer_pending (d d' : Dir) (hard : Nat) (skip : Bool) (hs : d.Sane) (h : d.buffer hard skip = some d') :
    d'.pending = d.pending ∧ d'.consume = d'.read :=
  seg_buffer_pending d d' hard skip hs h

/-- **C03 (the next chunk).** When a call ended with nothing unconsumed, handing the parser the next chunk leaves the field under
    construction as it was. -/
theorem C03_next_chunk_pending (c : Conn) (data : Bytes) (h : c.inn.consume = c.inn.read) :
    (reqStoreChunk (some data) data.length c).inn.pending = c.inn.buf.getD [] ∧
    c.inn.pending = c.inn.buf.getD [] :=
  seg_next_chunk_pending c data h

/-- **C03 (consolidation).** What a state function receives as "the data of this field" is exactly the field under construction. -/
theorem C03_consolidate_pending (d d' : Dir) (data : Bytes) (hard : Nat) (skip : Bool) (hs : d.Sane)
    (h : d.consolidate hard skip = some (d', data)) : data = d.pending ∧ d'.pending = d.pending :=
  seg_consolidate_pending d d' data hard skip hs h

/-- **C03 (one more byte).** Copying the next byte of the chunk extends the field under construction by exactly that byte. -/
theorem C03_copyByte_pending (d d' : Dir) (b : UInt8) (hs : d.Sane) (h : d.copyByte = some (d', b)) :
    d'.pending = d.pending ++ [b] ∧ d'.Sane ∧ d.cur[d.read.toNat]? = some b :=
  seg_copyByte_pending d d' b hs h

/-- **C03 (request line, the line ends in this chunk).** If the unread part of the chunk is `pre ++ LF :: rest` with no LF in
    `pre`, the request-line state hands `reqLineComplete` a direction whose field under construction is what was pending before
    the call followed by `pre` and the LF - however many earlier chunks contributed to what was pending. -/
theorem C03_reqLine_found (cfg : Cfg) (pre rest : Bytes) (fuel : Nat) (c : Conn) (hs : c.inn.Sane) (hst : (c.inn.status == STREAM_CLOSED) = false)
    (hcur : c.inn.cur.drop c.inn.read.toNat = pre ++ LF :: rest) (hpre : ∀ b ∈ pre, b ≠ LF) (hf : pre.length + 1 ≤ fuel) :
    ∃ d', reqLineLoop cfg fuel c = reqLineComplete cfg { c with inn := d' } ∧
      d'.pending = c.inn.pending ++ pre ++ [LF] ∧ d'.Sane :=
  seg_reqLine_found cfg pre rest fuel c hs hst hcur hpre hf

/-- **C03 (request line, the chunk ends first).** If the unread part of the chunk has no LF, the request-line state runs out of
    bytes (HTP_DATA_BUFFER) with the whole unread part added to the field under construction - nothing is parsed, no callback runs. -/
theorem C03_reqLine_more (cfg : Cfg) (tail : Bytes) (fuel : Nat) (c : Conn) (hs : c.inn.Sane) (hst : (c.inn.status == STREAM_CLOSED) = false)
    (hcur : c.inn.cur.drop c.inn.read.toNat = tail) (hnl : ∀ b ∈ tail, b ≠ LF) (hf : tail.length + 1 ≤ fuel) :
    ∃ d', reqLineLoop cfg fuel c = ({ c with inn := d' }, .dataBuffer) ∧ d'.pending = c.inn.pending ++ tail ∧ d'.Sane ∧ d'.read = d'.len ∧
      d'.status = c.inn.status :=
  seg_reqLine_more cfg tail fuel c hs hst hcur hnl hf

/-- **C03 (a request line cut in two).** Feed the request-line state a chunk `a` without LF, let the driver set the tail aside
    (`Dir.buffer`, accepted by the hard limit), hand over the next chunk `b ++ LF :: rest`: `reqLineComplete` then receives exactly
    the bytes it receives when `a ++ b ++ LF :: rest` arrives as one chunk - what was pending, then `a ++ b`, then the LF. -/
theorem C03_request_line_cut (cfg : Cfg) (a b rest : Bytes) (c : Conn) (hs : c.inn.Sane) (hst : (c.inn.status == STREAM_CLOSED) = false)
    (hcur : c.inn.cur.drop c.inn.read.toNat = a) (ha : ∀ x ∈ a, x ≠ LF) (hb : ∀ x ∈ b, x ≠ LF)
    (hlen : ((b ++ LF :: rest).length : Int) < 9223372036854775808) :
    ∃ d1, reqLineLoop cfg (a.length + 1) c = ({ c with inn := d1 }, .dataBuffer) ∧
      ∀ d2, d1.buffer cfg.fieldLimitHard true = some d2 →
        ∃ d4, reqLineLoop cfg (b.length + 1) (reqStoreChunk (some (b ++ LF :: rest)) (b ++ LF :: rest).length { c with inn := d2 }) =
            reqLineComplete cfg { reqStoreChunk (some (b ++ LF :: rest)) (b ++ LF :: rest).length { c with inn := d2 } with inn := d4 } ∧
          d4.pending = c.inn.pending ++ (a ++ b) ++ [LF] :=
  seg_request_line_cut cfg a b rest c hs hst hcur ha hb hlen

/-- non-vacuity: a direction in the middle of a real chunk meets `Dir.Sane` and has the expected field under construction -/
example : ({ cur := (b!"GET / HT"), curNull := false, len := 8, read := 5, consume := 0, buf := some (b!"xx") } : Dir).Sane ∧
    ({ cur := (b!"GET / HT"), curNull := false, len := 8, read := 5, consume := 0, buf := some (b!"xx") } : Dir).pending = (b!"xxGET /") := by
  refine ⟨⟨rfl, by decide, by decide, by decide, by decide, by decide⟩, by decide⟩

/-- the request bytes of a history, concatenated -/
def reqBytes : List Conn.Call → Bytes
  | [] => []
  | .req d :: rest => d ++ reqBytes rest
  | _ :: rest => reqBytes rest

theorem offeredReq_eq_length (calls : List Conn.Call) : Conn.offeredReq calls = (reqBytes calls).length := by
  induction calls with
  | nil => rfl
  | cons call rest ih =>
    cases call <;> simp [Conn.offeredReq, reqBytes, ih]

/-- **C03 (segmentation invariance of the byte accounting, over whole histories)**: two histories that offer the same request bytes, cut into
    chunks in ANY two ways and interleaved with any other calls, and whose request calls are all accepted, leave the same inbound byte counter:
    it depends on the bytes, not on the segmentation (corollary of `C09_history_byte_counters`). The invariance of the PARSED record under
    segmentation is not a theorem of this kind: it is decided by the canonical-run oracle on the implementation. -/
theorem C03_counter_segmentation_invariant (cfg : Cfg) (c0 : Conn.Conn) (calls1 calls2 : List Conn.Call)
    (h1 : Conn.AllReqAccepted cfg c0 calls1) (h2 : Conn.AllReqAccepted cfg c0 calls2) (hb : reqBytes calls1 = reqBytes calls2) :
    (Conn.runCalls cfg c0 calls1).inDataCounter = (Conn.runCalls cfg c0 calls2).inDataCounter := by
  rw [Conn.history_inDataCounter_accepted cfg c0 calls1 h1, Conn.history_inDataCounter_accepted cfg c0 calls2 h2,
      offeredReq_eq_length, offeredReq_eq_length, hb]


end Htp.C03
