/- C04 — responses are paired with their requests, in order, under pipelining. -/
import HtpModel.Lemmas.Conn
import HtpModel.Lemmas.Flags
import HtpModel.Lemmas.OutIndex

namespace Htp.C04
open Htp.Conn Htp.Gen

/-- **C04 (pipelining indicator)**: creating a transaction raises HTP_CONN_PIPELINED exactly when more transactions exist than
    responses have been started (`size > out_next_tx_index`), and never clears it. -/
theorem C04_pipelined_flag (cfg : Cfg) (c : Conn) :
    (txCreate cfg c).1.connFlags =
      (if (c.txs.length : Int) > c.outNextTxIndex then setFlag c.connFlags CONN_PIPELINED else c.connFlags) := by
  unfold txCreate
  simp only
  split <;> rfl

/-- the new transaction goes to the end of the list (arrival order) with the next unique id, and becomes the request side's
    current transaction; nothing else in the list changes -/
theorem C04_create_appends (cfg : Cfg) (c : Conn) (uid : Nat) (h : (txCreate cfg c).2 = some uid) :
    uid = c.nextUid ∧ ∃ t : Tx, t.uid = c.nextUid ∧ t.index = c.txs.length ∧ (txCreate cfg c).1.txs = c.txs ++ [some t] ∧
      (txCreate cfg c).1.inn.tx = some c.nextUid ∧ (txCreate cfg c).1.outNextTxIndex = c.outNextTxIndex := by
  unfold txCreate at h ⊢
  simp only at h ⊢
  cases hm : (decide (cfg.maxTx > 0) && decide (c.txs.length > cfg.maxTx))
  · simp only [hm, Bool.false_eq_true, if_false] at h ⊢
    simp only [Option.some.injEq] at h
    refine ⟨h.symm, ⟨{ uid := c.nextUid, index := c.txs.length, portNumber := 0 }, ?_⟩⟩
    simp
  · simp [hm] at h

/-- **C04 (index)**: when the response side leaves RES_IDLE and the slot `out_next_tx_index` holds a transaction, the response
    attaches to exactly that transaction and the index advances by one — whatever the RESPONSE_START callback does. -/
theorem C04_response_attaches (cfg : Cfg) (c : Conn) (t : Tx)
    (hav : c.out.read < c.out.len) (hidx : 0 ≤ c.outNextTxIndex)
    (hslot : (c.txs[c.outNextTxIndex.toNat]?).join = some t) :
    (resIdle cfg c).1.out.tx = some t.uid ∧ (resIdle cfg c).1.outNextTxIndex = c.outNextTxIndex + 1 := by
  unfold resIdle
  have hge : ¬ (c.out.read ≥ c.out.len) := by omega
  have hneg : ¬ (c.outNextTxIndex < 0) := by omega
  simp only [hge, if_false, hneg, hslot]
  have h := txStateResponseStart_attach t.uid
    { c with outNextTxIndex := c.outNextTxIndex + 1,
             out := { c.out with tx := some t.uid, contentLength := -1, bodyDataLeft := -1 } }
  exact h

/-- **C04 (the response side never runs ahead of the list; PIPELINED is sticky - over whole histories)**: for every history of calls on a fresh
    connection parser (request and response chunks in any interleaving, gaps, close, req_close, open, tx_freed, any configuration and callback
    policy) and every prefix of it, `out_next_tx_index` - the list position of the transaction the next response will be attached to - is at
    most the length of the transaction list: a response is attached to a transaction that has arrived, in arrival order, or to one the response
    side creates itself at the end of the list. The index moves by one step per response started and is decreased only by htp_connp_tx_freed,
    by exactly the number of slots it drops (`resIdle_index_step`, `txFreed_exact`); the request side never writes it. And the pipelining
    indicator of the connection, once set, is never cleared (`Lemmas/OutIndex.lean`). The LOWER bound 0 <= index is not an invariant of the
    functions taken one by one (`txFreed` on a made-up state with an empty slot in front of the index goes negative) and is left to the
    correspondence. Which transaction a response is attached to, end to end, is decided by the tagged-exchange oracle on the implementation. -/
theorem C04_history_out_index (cfg : Cfg) (calls pre : List Call) (hp : pre <+: calls) :
    (runCalls cfg {} pre).outNextTxIndex ≤ ((runCalls cfg {} pre).txs.length : Int) ∧
    (hasFlag (runCalls cfg {} pre).connFlags CONN_PIPELINED = true → hasFlag (runCalls cfg {} calls).connFlags CONN_PIPELINED = true) :=
  ⟨history_out_index_inv_fresh_prefix cfg calls pre hp, history_pipelined_sticky_prefix cfg {} calls pre hp⟩

end Htp.C04
