/- C05 — transaction lifecycle. -/
import HtpModel.Lemmas.Conn

namespace Htp.C05
open Htp.Conn Htp.Gen

/-- **C05 (transaction-complete only when both sides are complete)**: htp_tx_finalize runs the TRANSACTION_COMPLETE
    callback only for a transaction whose request and response progress are both COMPLETE; otherwise it runs no callback
    and changes nothing. -/
theorem C05_finalize_only_when_complete (cfg : Cfg) (uid : Nat) (c : Conn) (t : Tx)
    (ht : c.findTx uid = some t) (hn : t.isComplete = false) :
    txFinalize cfg uid c = (c, .ok) := by
  simp [txFinalize, ht, hn]

/-- a destroyed (or never created) transaction gets no TRANSACTION_COMPLETE either -/
theorem C05_finalize_absent (cfg : Cfg) (uid : Nat) (c : Conn) (ht : c.findTx uid = none) :
    txFinalize cfg uid c = (c, .ok) := by
  simp [txFinalize, ht]

/-- when it does run, exactly one event is logged: TRANSACTION_COMPLETE with both progress values at COMPLETE (5) -/
theorem C05_finalize_event (cfg : Cfg) (uid : Nat) (c : Conn) (t : Tx)
    (ht : c.findTx uid = some t) (hc : t.isComplete = true) :
    ∃ e, (txFinalize cfg uid c).1.events = e :: c.events ∧ e.hook = .transactionComplete ∧
      e.reqProgress = 5 ∧ e.resProgress = 5 := by
  have hp : t.reqProgress = 5 ∧ t.resProgress = 5 := by
    simp [Tx.isComplete] at hc; exact hc
  have hlog := (runCallback_log .transactionComplete (some uid) none false c 0 false).1
  refine ⟨eventOf .transactionComplete (some uid) none false c 0 false, ?_, rfl, ?_, ?_⟩
  · unfold txFinalize
    simp only [ht, hc, Bool.not_true, Bool.false_eq_true, if_false]
    unfold R.andThen
    by_cases hrc : ((runCallback Hook.transactionComplete (some uid) none false c).2 == Rc.ok) = true
    · simp only [hrc, if_true]
      by_cases had : cfg.txAutoDestroy = true
      · simp only [had, if_true]
        cases (runCallback Hook.transactionComplete (some uid) none false c).1.findTx uid <;> simp [hlog]
      · simp only [had]
        simpa using hlog
    · simp only [hrc]
      simpa using hlog
  · simp [eventOf, ht, hp.1]
  · simp [eventOf, ht, hp.2]

end Htp.C05
