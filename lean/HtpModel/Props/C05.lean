/- C05 — transaction lifecycle. -/
import HtpModel.Lemmas.Conn
import HtpModel.Lemmas.EventsMonoOut
import HtpModel.Lemmas.ProgMonoOut

namespace Htp.C05
open Htp.Conn Htp.Gen

/-- **C05 (transaction-complete only when both sides are complete)**: htp_tx_finalize runs the TRANSACTION_COMPLETE
    callback only for a transaction whose request and response progress are both COMPLETE; otherwise it runs no callback
    and changes nothing. -/
theorem C05_finalize_only_when_complete (cfg : Cfg) (uid : Nat) (c : Conn) (t : Tx)
    (ht : c.findTx uid = some t) (hn : t.isComplete = false) :
    txFinalize cfg uid c = (c, .ok) := by
  simp [txFinalize, ht, hn]

/-- a destroyed (or never created) transaction gets no TRANSACTION_COMPLETE either -/
theorem C05_finalize_absent (cfg : Cfg) (uid : Nat) (c : Conn) (ht : c.findTx uid = none) :
    txFinalize cfg uid c = (c, .ok) := by
  simp [txFinalize, ht]

/-- when it does run, exactly one event is logged: TRANSACTION_COMPLETE with both progress values at COMPLETE (5) -/
theorem C05_finalize_event (cfg : Cfg) (uid : Nat) (c : Conn) (t : Tx)
    (ht : c.findTx uid = some t) (hc : t.isComplete = true) :
    ∃ e, (txFinalize cfg uid c).1.events = e :: c.events ∧ e.hook = .transactionComplete ∧
      e.reqProgress = 5 ∧ e.resProgress = 5 := by
  have hp : t.reqProgress = 5 ∧ t.resProgress = 5 := by
    simp [Tx.isComplete] at hc; exact hc
  have hlog := (runCallback_log .transactionComplete (some uid) none false c 0 false).1
  refine ⟨eventOf .transactionComplete (some uid) none false c 0 false, ?_, rfl, ?_, ?_⟩
  · unfold txFinalize
    simp only [ht, hc, Bool.not_true, Bool.false_eq_true, if_false]
    unfold R.andThen
    by_cases hrc : ((runCallback Hook.transactionComplete (some uid) none false c).2 == Rc.ok) = true
    · simp only [hrc, if_true]
      by_cases had : cfg.txAutoDestroy = true
      · simp only [had, if_true]
        cases (runCallback Hook.transactionComplete (some uid) none false c).1.findTx uid <;> simp [hlog]
      · simp only [had]
        simpa using hlog
    · simp only [hrc]
      simpa using hlog
  · simp [eventOf, ht, hp.1]
  · simp [eventOf, ht, hp.2]

/-- **C05 (request-complete is guarded)**: for a transaction whose request side is already COMPLETE, htp_tx_state_request_complete runs
    neither the end-of-body delivery nor the REQUEST_COMPLETE callback again: it only moves the request side on and tries to finalize. -/
theorem C05_request_complete_guard (cfg : Cfg) (uid : Nat) (c : Conn) (t : Tx)
    (ht : c.findTx uid = some t) (hp : t.reqProgress = 5) :
    txStateRequestComplete cfg uid c =
      (let c1 := { c with inState := if t.is09 then ReqState.ignoreDataAfter09 else ReqState.idle }
       ({ (txFinalize cfg uid c1).1 with inn := { (txFinalize cfg uid c1).1.inn with tx := none } }, Rc.ok)) := by
  unfold txStateRequestComplete
  simp [ht, hp, R.andThen]

/-- **C05 (response-complete is guarded)**: for a transaction whose response side is already COMPLETE, htp_tx_state_response_complete_ex
    delivers neither the end-of-body marker nor RESPONSE_COMPLETE again. -/
theorem C05_response_complete_guard (cfg : Cfg) (uid : Nat) (c : Conn) (t : Tx)
    (ht : c.findTx uid = some t) (hp : t.resProgress = 5) :
    txStateResponseCompleteEx cfg uid c =
      (if c.inn.status == STREAM_DATA_OTHER && c.inn.tx == c.out.tx then (c, Rc.dataOther) else
       if c.outDataOtherAtTxEnd then ({ c with outDataOtherAtTxEnd := false }, Rc.dataOther) else
       txFinalize cfg uid c >>? fun c => ({ c with out := { c.out with tx := none }, outState := ResState.idle }, Rc.ok)) := by
  unfold txStateResponseCompleteEx
  simp [ht, hp, R.andThen]

/-- **C05 (the callback log is append-only, over whole histories)**: the lifecycle clauses - start, line, headers, body data, trailer, complete in
    that order, each at most once, nothing after transaction-complete - are statements about the sequence of callbacks delivered. That sequence
    is never rewritten: for every history of calls (request and response chunks in any interleaving, gaps, close, req_close, open, tx_freed, any
    configuration and callback policy) and every prefix of it, what was delivered after the prefix is still there after the whole history, in
    the same order, with newer callbacks added at the end only; and on a fresh connection parser the number of callbacks run equals the
    length of the log (`Lemmas/EventsMono.lean`, `EventsMonoOut.lean`: only `runCallback` writes the log, one entry per callback, proved for every
    function of both directions). The order and at-most-once clauses themselves are decided on the implementation's log by the lifecycle
    Monitor (they are false at the recorded findings S2, S24, S25, S26). -/
theorem C05_history_log_append_only (cfg : Cfg) (c0 : Conn) (calls pre : List Call) (hp : pre <+: calls) :
    (∃ new, (runCalls cfg c0 calls).events = new ++ (runCalls cfg c0 pre).events ∧
            (runCalls cfg c0 calls).cbCount = (runCalls cfg c0 pre).cbCount + new.length) ∧
    (∀ e1 e2, [e1, e2].Sublist (runCalls cfg c0 pre).events → [e1, e2].Sublist (runCalls cfg c0 calls).events) ∧
    (runCalls cfg {} calls).cbCount = (runCalls cfg {} calls).events.length :=
  ⟨history_events_prefix cfg c0 hp, fun _ _ h => history_event_order_stable cfg c0 hp h, history_cbCount_eq_length cfg calls⟩

/-- non-vacuity: a GET and its 200 response with a 5-byte body deliver 15 callbacks -/
example :
    (runCalls {} {} [.open, .req (b!"GET / HTTP/1.1\r\nHost: h\r\n\r\n"), .res (b!"HTTP/1.1 200 OK\r\nContent-Length: 5\r\n\r\nhello")]).cbCount = 15 := by
  decide

/-- **C05 (request progress over whole histories, PARTIAL)**: the full statement - "the request progress of a transaction never goes backwards, for
    every call history" - is NOT proved: several writers set a constant without a guard on the current value (REQ_PROTOCOL writes HEADERS,
    REQ_BODY_DETERMINE writes BODY, ...), so monotonicity needs an invariant that bounds the progress of the current transaction by the parser
    state, which was not established (no history on which the progress goes backwards was found either; on the implementation that is what the
    Monitor's `req-progress-back` rule decides - it reported seeded change C05e). What IS proved for every history and prefix
    (`Lemmas/ProgMono*.lean`): a transaction that has started stays started, and its phase number stays within 1..5. -/
theorem C05_history_req_progress_partial (cfg : Cfg) (policy : List (Nat × CbAction)) (calls pre : List Call) (hp : pre <+: calls)
    (u : Nat) (t t' : Tx) (h1 : (runCalls cfg { policy := policy } pre).findTx u = some t)
    (h2 : (runCalls cfg { policy := policy } calls).findTx u = some t') :
    (1 ≤ t.reqProgress → 1 ≤ t'.reqProgress) ∧ (t.reqProgress ≤ 5 → t'.reqProgress ≤ 5) :=
  ⟨history_req_progress_started cfg policy calls pre hp h1 h2, history_req_progress_bounded cfg policy calls pre hp h1 h2⟩

end Htp.C05
