/- C06 — body bytes delivered exactly once, in order, with correct accounting.
   Theorems about the body sub-machines of the connection model (all callback policies). -/
import HtpModel.Lemmas.Conn
import HtpModel.Lemmas.LensMonoOut

namespace Htp.C06
open Htp.Conn Htp.Gen

/-- number of bytes REQ_BODY_IDENTITY takes: min(left, available) -/
def take (c : Conn) : Int :=
  if c.inn.len - c.inn.read ≥ c.inn.bodyDataLeft then c.inn.bodyDataLeft else c.inn.len - c.inn.read

/-- **C06 (identity body: exactly min(left, available) is consumed)**: whenever REQ_BODY_IDENTITY does not fail, the read and
    consume cursors advance by exactly `take c`, the bytes still owed decrease by exactly that amount, and the state moves to
    REQ_FINALIZE precisely when nothing is owed any more — for every chunk, every cursor position and every callback policy. -/
theorem C06_identity_cursor (cfg : Cfg) (c : Conn) (hn : take c ≠ 0)
    (hrc : (reqBodyIdentity cfg c).2 = .ok ∨ (reqBodyIdentity cfg c).2 = .data) :
    (reqBodyIdentity cfg c).1.inn.read = c.inn.read + take c ∧
    (reqBodyIdentity cfg c).1.inn.consume = c.inn.consume + take c ∧
    (reqBodyIdentity cfg c).1.inn.bodyDataLeft = c.inn.bodyDataLeft - take c ∧
    ((reqBodyIdentity cfg c).2 = .ok ↔ c.inn.bodyDataLeft - take c = 0) := by
  unfold reqBodyIdentity at hrc ⊢
  unfold take at hn ⊢
  simp only at hrc ⊢
  generalize hN : (if c.inn.len - c.inn.read ≥ c.inn.bodyDataLeft then c.inn.bodyDataLeft else c.inn.len - c.inn.read) = N at *
  have hN0 : (N == 0) = false := by simpa using hn
  simp only [hN0] at hrc ⊢
  -- the body callbacks leave the cursors alone
  generalize hP : reqProcessBodyData cfg
      (if c.inn.curNull = true then none else some (sliceCur c.inn c.inn.read (c.inn.read + N)))
      (if c.inn.curNull = true then N.toNat else 0) c = P at *
  have hframe : FrameDirs c P.1 := by rw [← hP]; exact frame_reqProcessBodyData ..
  obtain ⟨hr, hl, hc, _, hb, _, _, _, _⟩ := hframe.inn_fields
  by_cases hok : (P.2 != Rc.ok) = true
  · -- failure of the callbacks: returned as is, so the return code is neither OK nor DATA … unless it is
    simp only [hok, if_true] at hrc ⊢
    have : P.2 ≠ Rc.ok := by simpa using hok
    rcases hrc with h | h
    · exact absurd h this
    · -- htp_tx_req_process_body_data_ex returns only OK or ERROR
      exfalso
      have hrcs : P.2 = Rc.ok ∨ P.2 = Rc.error := by
        rw [← hP]; exact reqProcessBodyData_rc ..
      rcases hrcs with h' | h'
      · exact this h'
      · rw [h'] at h; cases h
  · have hok' : (P.2 != Rc.ok) = false := by simpa using hok
    simp only [hok', Bool.false_eq_true, if_false] at hrc ⊢
    by_cases hz : c.inn.bodyDataLeft - N = 0
    · have hz' : (P.1.inn.bodyDataLeft - N == 0) = true := by rw [hb]; simpa using hz
      simp [hz', Dir.advance, hr, hc, hb, hz]
    · have hz' : (P.1.inn.bodyDataLeft - N == 0) = false := by rw [hb]; simpa using hz
      simp [hz', Dir.advance, hr, hc, hb, hz]

/-- **C06 (finding S9)**: on the "unexpected body" path of REQ_FINALIZE bytes are delivered to the body callbacks while
    request_message_len stays where it was. Witness: one transaction in REQ_FINALIZE, chunk "xyz\n" (not a known method). -/
theorem C06_message_len_counterexample :
    let c0 : Conn := { inn := { status := STREAM_DATA, cur := [0x78, 0x79, 0x7a, 0x0a], curNull := false, len := 4, tx := some 0 },
                       inState := .finalize, txs := [some { uid := 0, reqProgress := 3, reqTransferCoding := CODING_IDENTITY }],
                       nextUid := 1 }
    let c1 := (reqFinalize {} c0).1
    ((c1.findTx 0).map (·.reqEntityLen)) = some 4 ∧ ((c1.findTx 0).map (·.reqMessageLen)) = some 0 := by
  decide
/-- bytes of the current chunk-coded piece that the next call of REQ_BODY_CHUNKED_DATA takes: min(left in this piece, available) -/
def takeChunk (c : Conn) : Int :=
  if c.inn.len - c.inn.read ≥ c.inn.chunkedLength then c.inn.chunkedLength else c.inn.len - c.inn.read

/-- **C06 (chunked body: exactly min(left in the piece, available) is consumed)**: whenever REQ_BODY_CHUNKED_DATA does not fail, the
    read and consume cursors advance by exactly `takeChunk c`, the bytes still owed for this piece decrease by exactly that amount,
    and the state moves on to the piece's terminating line precisely when nothing is owed any more - for every chunk, cursor
    position and callback policy. -/
theorem C06_chunked_cursor (cfg : Cfg) (c : Conn) (hn : takeChunk c ≠ 0)
    (hrc : (reqBodyChunkedData cfg c).2 = .ok ∨ (reqBodyChunkedData cfg c).2 = .data) :
    (reqBodyChunkedData cfg c).1.inn.read = c.inn.read + takeChunk c ∧
    (reqBodyChunkedData cfg c).1.inn.consume = c.inn.consume + takeChunk c ∧
    (reqBodyChunkedData cfg c).1.inn.chunkedLength = c.inn.chunkedLength - takeChunk c ∧
    ((reqBodyChunkedData cfg c).2 = .ok ↔ c.inn.chunkedLength - takeChunk c = 0) := by
  unfold reqBodyChunkedData at hrc ⊢
  unfold takeChunk at hn ⊢
  simp only at hrc ⊢
  generalize hN : (if c.inn.len - c.inn.read ≥ c.inn.chunkedLength then c.inn.chunkedLength else c.inn.len - c.inn.read) = N at *
  have hN0 : (N == 0) = false := by simpa using hn
  simp only [hN0] at hrc ⊢
  generalize hP : reqProcessBodyData cfg (some (sliceCur c.inn c.inn.read (c.inn.read + N))) 0 c = P at *
  have hframe : FrameDirs c P.1 := by rw [← hP]; exact frame_reqProcessBodyData ..
  obtain ⟨hr, hl, hc, _, _, _, _, hb, _⟩ := hframe.inn_fields
  by_cases hok : (P.2 != Rc.ok) = true
  · simp only [hok, if_true] at hrc ⊢
    have : P.2 ≠ Rc.ok := by simpa using hok
    rcases hrc with h | h
    · exact absurd h this
    · exfalso
      have hrcs : P.2 = Rc.ok ∨ P.2 = Rc.error := by
        rw [← hP]; exact reqProcessBodyData_rc ..
      rcases hrcs with h' | h'
      · exact this h'
      · rw [h'] at h; cases h
  · have hok' : (P.2 != Rc.ok) = false := by simpa using hok
    simp only [hok', Bool.false_eq_true, if_false] at hrc ⊢
    by_cases hz : c.inn.chunkedLength - N = 0
    · have hz' : (P.1.inn.chunkedLength - N == 0) = true := by rw [hb]; simpa using hz
      simp [hz', Dir.advance, hr, hc, hb, hz]
    · have hz' : (P.1.inn.chunkedLength - N == 0) = false := by rw [hb]; simpa using hz
      simp [hz', Dir.advance, hr, hc, hb, hz]

/-- **C06 (the accounted lengths never decrease, over whole histories)**: for a connection parser from its creation (any configuration, any
    callback policy), every history of calls (request and response chunks in any interleaving, gaps, close, req_close, open, tx_freed) and every
    prefix of it: a transaction that exists after the prefix and still exists after the whole history has request_message_len,
    request_entity_len, response_message_len and response_entity_len at least as large as before - every write of the four fields, in every
    function of both directions, is an addition (`Lemmas/LensMono.lean`, `LensMonoOut.lean`; the same sweep as for the indicator bits of C11).
    That what is ADDED equals the bytes delivered is `C06_identity_cursor` / `C06_chunked_cursor` per body state and, end to end, the
    ground-truth oracle on the implementation (finding S9: one path adds to the entity length without adding to the message length). -/
theorem C06_history_lengths_monotone (cfg : Cfg) (policy : List (Nat × CbAction)) (calls pre : List Call) (hp : pre <+: calls)
    (u : Nat) (t t' : Tx)
    (h1 : (runCalls cfg { policy := policy } pre).findTx u = some t) (h2 : (runCalls cfg { policy := policy } calls).findTx u = some t') :
    t.reqMessageLen ≤ t'.reqMessageLen ∧ t.reqEntityLen ≤ t'.reqEntityLen ∧ t.resMessageLen ≤ t'.resMessageLen ∧
    t.resEntityLen ≤ t'.resEntityLen :=
  history_lens_monotone_policy cfg policy calls pre hp u t t' h1 h2

end Htp.C06
