/- C07 — decompression is faithful for any chunking, and bombs are contained.

   inflate() is external: the model of the driver (`decompress`, `decLoop`, `decStep`, `decSend`, `decFinalCallback` in Conn/TxState.lean, one driver for the response chain and for the
   request decompressor (`req`) and the
   Content-Encoding chain construction `ceChain`) takes its results as a parameter. The correspondence check runs that model against
   the results recorded from the real calls (hook under LIBHTP_VERIF) and compares every callback with the implementation. Proved
   here, for ANY behaviour of inflate() and any input:
   * `C07_layers_bound`: no more layers than configured, for every Content-Encoding value;
   * `C07_bomb_bound`: the accounting of delivered blocks against the bomb test (`bombExceeded`, the test `decFinalCallback` applies)
     keeps the delivered total within max(limit, 2048 x compressed bytes) + one block;
   * `C07_passthrough_verbatim`: a layer in pass-through mode forwards chunks and the end marker unchanged;
   * `C07_failed_inflate_passes_chunk`: when inflate rejects a chunk with an empty output buffer and the restarts are used up, the
     whole chunk goes to the callback and the layer switches to pass-through.
   NOT proved: "delivered = original payload" (that is a statement about zlib itself, outside the model; searched by the
   ground-truth oracle with Python's zlib as the compressor); that delivery really stops after the first reported bomb (the layer is
   ended: corresponded, not a theorem); the restart path after earlier chunks were consumed LOSES data on the unchanged code
   (known finding S3 - the model reproduces it). LZMA layers and the time-based check are outside the model. -/
import HtpModel.Conn.Res
import HtpModel.Pinned.Eq

namespace Htp.C07
open Htp Htp.Conn Htp.Gen

/-- the accounting of the output blocks of one message: (compressed bytes received when the block is delivered, block length), in
    order; delivery stops with the first block for which the callback reports a bomb (the layer is then ended) -/
def deliver (limit : Nat) : List (Nat × Nat) → Nat → Nat
  | [], e => e
  | (m, n) :: rest, e => if bombExceeded limit (e + n) m then e + n else deliver limit rest (e + n)

/-- **C07 (bomb bound)**: whatever the block lengths (each at most one output buffer `B`) and however the compressed byte count `m` grows
    (never beyond `M`), what is delivered before the callback reports a bomb - that block included - never exceeds
    max(limit, 2048 x M) by more than one block. -/
theorem C07_bomb_bound (limit B M : Nat) (blocks : List (Nat × Nat)) (e : Nat)
    (hn : ∀ b ∈ blocks, b.2 ≤ B) (hm : ∀ b ∈ blocks, b.1 ≤ M) (he : e ≤ max limit (COMPRESSION_BOMB_RATIO * M)) :
    deliver limit blocks e ≤ max limit (COMPRESSION_BOMB_RATIO * M) + B := by
  induction blocks generalizing e with
  | nil => simp [deliver]; omega
  | cons b rest ih =>
    obtain ⟨m, n⟩ := b
    have hb := hn (m, n) (by simp)
    have hmm := hm (m, n) (by simp)
    simp only at hb hmm
    unfold deliver
    split
    · omega
    · rename_i hnot
      apply ih
      · intro x hx; exact hn x (by simp [hx])
      · intro x hx; exact hm x (by simp [hx])
      · -- the test passed: e + n ≤ limit or e + n ≤ 2048 * m ≤ 2048 * M
        unfold bombExceeded at hnot
        simp only [Bool.and_eq_true, decide_eq_true_eq, not_and, Nat.not_lt] at hnot
        have hmul : COMPRESSION_BOMB_RATIO * m ≤ COMPRESSION_BOMB_RATIO * M := Nat.mul_le_mul_left _ hmm
        by_cases h1 : e + n > limit
        · have := hnot h1; omega
        · omega


theorem ceChainLoop_len (layerLimit lzmaLimit : Int) (hl : 0 < layerLimit) (fuel : Nat) (input : Bytes) (layers nblzma : Int) (acc : List Nat)
    (h1 : (acc.length : Int) ≤ layers) (h2 : layers ≤ layerLimit) :
    ((ceChainLoop layerLimit lzmaLimit fuel input layers nblzma acc).length : Int) ≤ layerLimit := by
  induction fuel generalizing input layers nblzma acc with
  | zero => simp [ceChainLoop]; omega
  | succ k ih =>
    unfold ceChainLoop
    split
    · omega
    · cases getToken input with
      | none => simp only; omega
      | some st =>
        obtain ⟨skipped, tok⟩ := st
        simp only
        have hne : (layerLimit != 0) = true := by simp; omega
        simp only [hne, if_true, Bool.true_and]
        split
        · omega
        · rename_i hgt
          simp only [decide_eq_true_eq, Int.not_lt] at hgt
          split
          · omega
          · split
            · split
              · simp only [List.length_append, List.length_cons, List.length_nil]; omega
              · omega
            · apply ih
              · split
                · simp only [List.length_append, List.length_cons, List.length_nil]; omega
                · omega
              · exact hgt

/-- **C07 (layers)**: with a positive layer limit, the chain built from ANY Content-Encoding value has at most that many layers. -/
theorem C07_layers_bound (cfg : Cfg) (value : Bytes) (hl : 0 < cfg.layerLimit) : ((ceChain cfg value).length : Int) ≤ cfg.layerLimit := by
  unfold ceChain
  exact ceChainLoop_len _ _ hl _ _ 0 0 [] (by simp) (by omega)

/-- **C07 (pass-through is verbatim)**: a layer in pass-through mode hands every chunk, and the end-of-stream marker, to the callback
    exactly as it received them - nothing is dropped, nothing is inflated. -/
theorem C07_passthrough_verbatim (cfg : Cfg) (req : Bool) (uid fuel : Nat) (drec : Dec) (rest : List Dec) (data : Option Bytes) (c : Conn) (hp : drec.passthrough = true) :
    decompress cfg req uid (fuel + 1) (drec :: rest) data c =
      (drec :: rest, ((decFinalCallback cfg req uid data.isNone data c).1, if (decFinalCallback cfg req uid data.isNone data c).2 != .ok then .error else .ok)) := by
  unfold decompress
  simp [hp]

/-- **C07 (data that cannot be inflated is passed on, not lost)**: when inflate() rejects the input with nothing in the output buffer
    and every restart has been used up, the whole chunk as it was received goes to the callback and the layer switches to
    pass-through. -/
theorem C07_failed_inflate_passes_chunk (cfg : Cfg) (req : Bool) (uid fuel : Nat) (d inp : Bytes) (drec : Dec) (rest : List Dec) (c : Conn) (z : ZRes) (zs : List ZRes)
    (hin : inp ≠ []) (hb : drec.buf = []) (hk : drec.kind = 2 ∨ drec.kind = 3) (hr : 3 ≤ drec.restart)
    (hz : c.zoracle = z :: zs) (hprod : z.produced = []) (hrc : z.rc ≠ Z_OK ∧ z.rc ≠ Z_STREAM_END) :
    decStep cfg req uid d (fuel + 1) drec rest inp c =
      (if (decFinalCallback cfg req uid false (some d) { c with zoracle := zs }).2 != .ok
       then ({ drec with kind := 0 } :: rest, ((decFinalCallback cfg req uid false (some d) { c with zoracle := zs }).1, Rc.error))
       else ({ drec with kind := 0, buf := [], passthrough := true } :: rest, ((decFinalCallback cfg req uid false (some d) { c with zoracle := zs }).1, Rc.ok))) := by
  unfold decStep
  have h1 : inp.isEmpty = false := by cases inp with | nil => exact absurd rfl hin | cons a t => rfl
  have h2 : (List.length drec.buf == GZIP_BUF_SIZE) = false := by rw [hb]; decide
  have h3 : (drec.kind == 4) = false := by rcases hk with h | h <;> simp [h]
  have h4 : (drec.kind == 0) = false := by rcases hk with h | h <;> simp [h]
  have h5 : ¬ drec.restart < 3 := by omega
  have h7 : (z.rc == Z_STREAM_END) = false := by simpa using hrc.2
  have h8 : (z.rc != Z_OK) = true := by simpa using hrc.1
  simp only [h1, h2, Bool.false_eq_true, if_false, h3, h4, hz]
  simp only [hb, hprod, List.append_nil, List.length_nil, Nat.lt_irrefl, gt_iff_lt, decide_false, Bool.false_and, Bool.false_eq_true, if_false,
    h7, h8, if_true, h5]

/-- non-vacuity: a two-token header under the default limit of two layers builds two layers; a third token is cut off -/
example : ceChain {} (b!"gzip, deflate") = [2, 3] ∧ ceChain {} (b!"gzip, deflate, gzip") = [2, 3] := by decide
example : deliver 1000 [(10, 8192), (10, 8192), (10, 8192), (10, 8192)] 0 = 24576 := by decide

/-- **C07 (the constants are the reviewed ones)**: every constant the translator reads from the current source - among them the compression constants (bomb ratio and limit, buffer size, layer limits) -
    equals its reviewed snapshot (lean/HtpModel/Pinned); the model follows a regenerated constant, so this is what notices a changed one -/
theorem C07_constants_pinned : Htp.Pinned.ConstantsPinned := Htp.Pinned.constants_pinned

end Htp.C07
