/- C08 — work is linear in stream length.

   Cost is a property of the running code; the model carries the part of it that is logic: how many key comparisons a table
   lookup makes (`Table.getLoopCost`, tied to the code by the hook counter `htp_verif_table_cmp` under LIBHTP_VERIF: the
   correspondence check compares the two numbers exactly) and how many iterations the line loops make. Proved here:
   * `C08_lookup_linear`: one lookup costs at most one comparison per stored key - for every table state reachable or not;
   * `C08_distinct_names_quadratic`: a header block of k pairwise different field names costs exactly 0 + 1 + ... + (k-1) =
     k(k-1)/2 comparisons, for EVERY k and every choice of names: the cost per header grows with the number of headers, so the
     property's "O(k), not O(k^2)" is FALSE for this family on the unchanged code (known finding S7a; the measurement ladder of
     checks/c08.py shows the same on the implementation: the ratio of work at 2k and k tends to 4);
   * `C08_repeated_name_first_hit`: a name that matches the first stored key costs one comparison, whatever else is stored -
     repeating one field name k times is linear;
   * `C08_reqline_iterations`: the REQ_LINE loop makes at most (unread bytes + 1) iterations per call - with that much fuel it
     always ends in `reqLineComplete` or in HTP_DATA_BUFFER, never by running out of fuel.
   NOT proved: a linear bound for the whole parser (all state functions, probing helpers, multipart and urlencoded handlers);
   decided by the measurement ladder (a search on the implementation). -/
import HtpModel.Lemmas.Cost
import HtpModel.Lemmas.Segment
import HtpModel.Lemmas.DriverFuel
import HtpModel.Lemmas.DriverFuelOut

namespace Htp.C08
open Htp Htp.Table Htp.Ring

theorem slotsCost_le (m : Bytes → Bool) : ∀ (l : List Slot), slotsCost m l ≤ (l.length + 1) / 2
  | [] => by simp [slotsCost]
  | [s] => by cases s <;> simp [slotsCost] <;> split <;> omega
  | s :: x :: rest => by
    have ih := slotsCost_le m rest
    cases s with
    | null => simp only [slotsCost, List.length_cons]; omega
    | val v => simp only [slotsCost, List.length_cons]; omega
    | key k => simp only [slotsCost, List.length_cons]; split <;> omega

/-- **C08 (one lookup is linear)**: htp_table_get makes at most one key comparison per stored key. -/
theorem C08_lookup_linear (t : Table) (key : Bytes) : getCost t key ≤ (Ring.size t.list + 1) / 2 := by
  unfold getCost
  rw [getLoopCost_abs _ t _ 0 (by simp [Ring.size]; omega), List.drop_zero]
  have := slotsCost_le (fun k => Bstr.cmpMemNocase k key == 0) (Ring.abs t.list)
  simpa [Ring.size] using this

/-- **C08 (k different names cost k(k-1)/2)**: for every capacity, every k and every list of k pairwise different names, processing
    them as a header block (look up, add when new) makes exactly k(k-1)/2 key comparisons: `2 * cost + k = k * k`. -/
theorem C08_distinct_names_quadratic (cap : Nat) (hc : 0 < cap) (ns : List Bytes)
    (hp : ns.Pairwise (fun a b => (Bstr.cmpMemNocase a b == 0) = false)) :
    2 * (insertNames (Table.create cap) ns).2 + ns.length = ns.length * ns.length := by
  have hi : TInv (Table.create cap) [] := by
    refine ⟨create_wf _ (by omega), ?_, Or.inl rfl⟩
    apply List.eq_nil_of_length_eq_zero
    simp [Table.create, Ring.create]
  have h := insertNames_distinct ns (Table.create cap) [] hi (by intro x hx; simp at hx) hp
  have hcl := sumFrom_closed 0 ns.length
  rw [h]
  simp at hcl
  omega

/-- **C08 (a repeated name is found at once)**: when the first stored key matches, the lookup costs one comparison. -/
theorem C08_repeated_name_first_hit (t : Table) (key n : Bytes) (rest : List Bytes) (ha : Ring.abs t.list = slotsOf (n :: rest))
    (hm : (Bstr.cmpMemNocase n key == 0) = true) : getCost t key = 1 := by
  unfold getCost
  rw [getLoopCost_abs _ t _ 0 (by simp [Ring.size]; omega), List.drop_zero, ha]
  exact slotsCost_head _ n rest hm

theorem split_first (x : UInt8) : ∀ (l : Bytes), x ∈ l → ∃ pre rest, l = pre ++ x :: rest ∧ ∀ b ∈ pre, b ≠ x
  | [], h => by simp at h
  | y :: t, h => by
    by_cases hy : y = x
    · exact ⟨[], t, by simp [hy], by simp⟩
    · have ht : x ∈ t := by
        rcases List.mem_cons.mp h with h1 | h1
        · exact absurd h1.symm hy
        · exact h1
      obtain ⟨pre, rest, e, hp⟩ := split_first x t ht
      exact ⟨y :: pre, rest, by simp [e], by
        intro b hb
        rcases List.mem_cons.mp hb with h1 | h1
        · rw [h1]; exact hy
        · exact hp b h1⟩

/-- **C08 (REQ_LINE iterations)**: on a direction that is not closed, the REQ_LINE loop started with (unread bytes + 1) units of
    fuel ends in `reqLineComplete` (a LF was found) or in HTP_DATA_BUFFER (the chunk is used up) - it never runs out of fuel, i.e.
    it makes at most one iteration per unread byte. -/
theorem C08_reqline_iterations (cfg : Cfg) (c : Conn.Conn) (hs : c.inn.Sane) (hst : (c.inn.status == Gen.STREAM_CLOSED) = false) :
    (∃ d', Conn.reqLineLoop cfg ((c.inn.cur.drop c.inn.read.toNat).length + 1) c = Conn.reqLineComplete cfg { c with inn := d' }) ∨
    (∃ d', Conn.reqLineLoop cfg ((c.inn.cur.drop c.inn.read.toNat).length + 1) c = ({ c with inn := d' }, .dataBuffer)) := by
  by_cases hlf : LF ∈ c.inn.cur.drop c.inn.read.toNat
  · obtain ⟨pre, rest, hsplit, hpre⟩ := split_first LF _ hlf
    have hfuel : pre.length + 1 ≤ (c.inn.cur.drop c.inn.read.toNat).length + 1 := by rw [hsplit]; simp
    obtain ⟨d', h1, _, _⟩ := Conn.seg_reqLine_found cfg pre rest _ c hs hst hsplit hpre hfuel
    exact Or.inl ⟨d', h1⟩
  · obtain ⟨d', h1, _⟩ := Conn.seg_reqLine_more cfg _ _ c hs hst rfl (by intro b hb h; exact hlf (h ▸ hb)) (Nat.le_refl _)
    exact Or.inr ⟨d', h1⟩

/-- non-vacuity and scale: three different names cost 0 + 1 + 2 comparisons -/
example : (insertNames (Table.create 2) [(b!"Host"), (b!"Accept"), (b!"X-a")]).2 = 3 := by decide

/-- **C08 (the loop of a request data call makes a linear number of passes)**: from any state that satisfies the between-calls invariant (`HistInv`:
    it holds for the fresh parser and after every call history, `C09_history_invariant`), with any chunk of data and any callback policy, the
    `for (;;)` of htp_connp_req_data makes at most 8 * len + 8 passes: a potential `8 * (unread bytes) + rank of the state` strictly decreases with
    every pass that continues (one lemma per state function: an OK answer advanced the read cursor or moved to a later state;
    `Lemmas/DriverFuel.lean`). In particular the model's own fuel 8 * len + 64 is never used up (`OutOfFuel` is false), and more fuel changes
    nothing. The attempt to prove this is what found S45: before the repair REQ_IDLE ignored the answer of the REQUEST_START callback, so a
    refusing callback made the loop create one transaction after the other on the same byte - without end if it always refuses. -/
theorem C08_req_driver_passes_linear (cfg : Cfg) (d : Bytes) (c : Conn.Conn) (hs : (d.length : Int) < 18446744073709551616)
    (h : Conn.HistInv cfg c) (n : Nat) (hn : 8 * d.length + 8 < n) :
    ¬ Conn.OutOfFuel cfg n (Conn.reqWakeOther (Conn.reqStoreChunk (some d) d.length c)) ∧
    ∀ k, Conn.reqDriverLoop cfg false (8 * d.length + 64 + k) (Conn.reqWakeOther (Conn.reqStoreChunk (some d) d.length c)) =
         Conn.reqDriverLoop cfg false (8 * d.length + 64) (Conn.reqWakeOther (Conn.reqStoreChunk (some d) d.length c)) :=
  ⟨Conn.reqData_passes_linear cfg d c hs h.2.2.1 h.clOK n hn, (Conn.reqData_fuel_enough_hist cfg d c hs h).2⟩

/-- **C08 (response direction, PARTIAL)**: the full statement - "the loop of htp_connp_res_data makes a linear number of passes from any
    between-calls state" - is NOT proved. What is: if some measure `mu` decreases with every continuing pass of the call, the loop ends within
    `mu` passes and more fuel changes nothing (the loop machinery), and the progress lemmas for RES_IDLE (it returns the answer of the
    RESPONSE_START callback - no analogue of S45), the chunk-data states and the close-delimited state (`Lemmas/DriverFuelOut.lean`). Missing: the
    progress lemmas for RES_LINE, RES_HEADERS, RES_BODY_DETERMINE, the Content-Length state, RES_BODY_CHUNKED_LENGTH and RES_FINALIZE, whose
    un-reads need an invariant along the call. A hypothesis is also needed that the request side does not need: `res_closed_with_data_spins`
    shows that a response direction marked CLOSED and then given a data chunk spins in RES_LINE (the model's fuel runs out) - a state that, by
    reading, no sequence of API calls reaches (close offers a NULL chunk of length 0 and the status is rewritten on return; tried on the
    library: data after htp_connp_close is parsed normally). -/
theorem C08_res_driver_passes_partial (cfg : Cfg) (mu : Conn.Conn → Nat) (c0 : Conn.Conn)
    (hdec : ∀ c c2, Conn.CallReachO cfg c0 c → Conn.resNext cfg c = some c2 → mu c2 < mu c)
    (n : Nat) (c : Conn.Conn) (hr : Conn.CallReachO cfg c0 c) (hf : mu c < n) :
    ¬ Conn.OutOfFuelO cfg n c ∧ ∀ k, Conn.resDriverLoop cfg false (n + k) c = Conn.resDriverLoop cfg false n c :=
  Conn.resDriverLoop_not_outOfFuel_partial cfg mu c0 hdec n c hr hf

end Htp.C08
