/- C09 — stream API contract. -/
import HtpModel.Conn.Res
import HtpModel.Lemmas.Driver
import HtpModel.Lemmas.Consumed
import HtpModel.Lemmas.ConsumedOut
import HtpModel.Lemmas.BufInv
import HtpModel.Lemmas.OutConsumed
import HtpModel.Lemmas.Owed
import HtpModel.Lemmas.OwedOut
import HtpModel.Pinned.Eq
import HtpModel.Lemmas.History
import HtpModel.Lemmas.HistorySticky
import HtpModel.Lemmas.CFunsCounters
import HtpModel.Lemmas.HistoryCounters

namespace Htp.C09
open Htp.Conn Htp.Gen

/-- **C09 (sticky ERROR, request direction)**: once the request direction is in ERROR, every data call — any bytes, any length,
    gap or close — returns ERROR, runs no callback (the event log and the callback counter are unchanged) and changes nothing
    but the "call is running" marker. -/
theorem C09_sticky_error_req (cfg : Cfg) (c : Conn) (data : Option Bytes) (len : Nat)
    (h : c.inn.status = STREAM_ERROR) :
    (reqData cfg data len c).2 = STREAM_ERROR ∧ (reqData cfg data len c).1.events = c.events ∧
    (reqData cfg data len c).1.cbCount = c.cbCount ∧ (reqData cfg data len c).1.inn.status = STREAM_ERROR ∧
    (reqData cfg data len c).1.txs = c.txs := by
  have hes : STREAM_ERROR ≠ STREAM_STOP := by decide
  simp [reqData, reqDataCore, h, hes]

/-- **C09 (sticky STOP, request direction, data calls)** -/
theorem C09_sticky_stop_req (cfg : Cfg) (c : Conn) (data : Option Bytes) (len : Nat)
    (h : c.inn.status = STREAM_STOP) :
    (reqData cfg data len c).2 = STREAM_STOP ∧ (reqData cfg data len c).1.events = c.events ∧
    (reqData cfg data len c).1.cbCount = c.cbCount ∧ (reqData cfg data len c).1.inn.status = STREAM_STOP ∧
    (reqData cfg data len c).1.txs = c.txs := by
  simp [reqData, reqDataCore, h]

theorem C09_sticky_error_res (cfg : Cfg) (c : Conn) (data : Option Bytes) (len : Nat)
    (h : c.out.status = STREAM_ERROR) :
    (resData cfg data len c).2 = STREAM_ERROR ∧ (resData cfg data len c).1.events = c.events ∧
    (resData cfg data len c).1.cbCount = c.cbCount ∧ (resData cfg data len c).1.out.status = STREAM_ERROR ∧
    (resData cfg data len c).1.txs = c.txs := by
  have hes : STREAM_ERROR ≠ STREAM_STOP := by decide
  simp [resData, resDataCore, h, hes]

theorem C09_sticky_stop_res (cfg : Cfg) (c : Conn) (data : Option Bytes) (len : Nat)
    (h : c.out.status = STREAM_STOP) :
    (resData cfg data len c).2 = STREAM_STOP ∧ (resData cfg data len c).1.events = c.events ∧
    (resData cfg data len c).1.cbCount = c.cbCount ∧ (resData cfg data len c).1.out.status = STREAM_STOP ∧
    (resData cfg data len c).1.txs = c.txs := by
  simp [resData, resDataCore, h]

/-- ERROR survives `close` as well: htp_connp_close leaves an ERROR direction in ERROR and runs no callback for it. -/
theorem C09_sticky_error_close (cfg : Cfg) (c : Conn) (hi : c.inn.status = STREAM_ERROR) (ho : c.out.status = STREAM_ERROR) :
    (connClose cfg c).1.inn.status = STREAM_ERROR ∧ (connClose cfg c).1.out.status = STREAM_ERROR ∧
    (connClose cfg c).1.events = c.events := by
  have hes : STREAM_ERROR ≠ STREAM_STOP := by decide
  simp [connClose, reqData, reqDataCore, resData, resDataCore, hi, ho, hes]

/-- **C09 (finding S8)**: STOP is NOT sticky across `close`: htp_connp_close overwrites STOP with CLOSED and re-enters the parser.
    Witness: a connection whose request direction is in STOP and idle; after close the direction reports DATA. -/
theorem C09_stop_not_sticky_counterexample :
    (connClose {} { inn := { status := STREAM_STOP }, out := { status := STREAM_OPEN } }).1.inn.status ≠ STREAM_STOP := by
  decide

/-- **C09 (documented states; DATA_OTHER is strict)**: every request-data call returns one of the documented stream states, and when it
    returns DATA_OTHER the consumed count (the read cursor) is strictly smaller than the length offered - for every state, chunk,
    gap and callback policy. -/
theorem C09_req_call_contract (cfg : Cfg) (c : Conn) (data : Option Bytes) (len : Nat) :
    Documented (reqData cfg data len c).2 ∧
    ((reqData cfg data len c).2 = STREAM_DATA_OTHER → (reqData cfg data len c).1.inn.read < (reqData cfg data len c).1.inn.len) := by
  have key : LoopPost (reqDataCore cfg data len c) := by
    unfold reqDataCore
    split
    · exact post_const _ _ (Or.inr (Or.inr (Or.inr (Or.inr (Or.inl rfl))))) (by decide)
    split
    · exact post_const _ _ (Or.inr (Or.inl rfl)) (by decide)
    split
    · exact post_const _ _ (Or.inr (Or.inl rfl)) (by decide)
    split
    · exact post_const _ _ (Or.inl rfl) (by decide)
    simp only
    split
    · exact post_const _ _ (Or.inr (Or.inr (Or.inl rfl))) (by decide)
    · exact reqDriverLoop_post _ _ _ _
  unfold reqData
  exact key

theorem C09_res_call_contract (cfg : Cfg) (c : Conn) (data : Option Bytes) (len : Nat) :
    Documented (resData cfg data len c).2 ∧
    ((resData cfg data len c).2 = STREAM_DATA_OTHER → (resData cfg data len c).1.out.read < (resData cfg data len c).1.out.len) := by
  have key : LoopPostOut (resDataCore cfg data len c) := by
    unfold resDataCore
    split
    · exact post_const_out _ _ (Or.inr (Or.inr (Or.inr (Or.inr (Or.inl rfl))))) (by decide)
    split
    · exact post_const_out _ _ (Or.inr (Or.inl rfl)) (by decide)
    split
    · exact post_const_out _ _ (Or.inr (Or.inl rfl)) (by decide)
    split
    · exact post_const_out _ _ (Or.inl rfl) (by decide)
    simp only
    split
    · exact post_const_out _ _ (Or.inr (Or.inr (Or.inl rfl))) (by decide)
    · exact resDriverLoop_post _ _ _ _
  unfold resData
  exact key

/-- non-vacuity: the hand-over after a CONNECT request returns DATA_OTHER with bytes left -/
example : Documented STREAM_DATA_OTHER ∧ Documented STREAM_DATA := by
  refine ⟨Or.inr (Or.inr (Or.inr (Or.inl rfl))), Or.inr (Or.inr (Or.inr (Or.inr (Or.inr rfl))))⟩

/-- **C09 (DATA means the whole chunk was consumed), one pass of the driver**: in a state where the cursors are where the driver keeps them
    (`WFCur`: a real chunk, 0 <= consume <= read <= len <= |chunk| - needed for the request-line state only) and the body states still owe
    bytes (they are entered only with a positive amount owed), a request state function that answers HTP_DATA or HTP_DATA_BUFFER has moved the
    read cursor to the end of the chunk - for every state function, chunk, buffer content and callback policy. -/
theorem C09_data_means_consumed_step (cfg : Cfg) (c : Conn)
    (hw : c.inState = ReqState.line → WFCur c.inn)
    (ho1 : c.inState = ReqState.bodyIdentity → 0 < c.inn.bodyDataLeft)
    (ho2 : c.inState = ReqState.bodyChunkedData → 0 < c.inn.chunkedLength)
    (hd : (reqStateFn cfg c).2 = Rc.data ∨ (reqStateFn cfg c).2 = Rc.dataBuffer) :
    (reqStateFn cfg c).1.inn.len ≤ (reqStateFn cfg c).1.inn.read :=
  consumed_reqStateFn cfg c hw ho1 ho2 hd

/-- ... and the call then returns at once with STREAM_DATA (STREAM_ERROR when the line-buffer limit is hit) and exactly that cursor: the
    consumed count reported for a DATA answer is the length offered. (That the hypotheses hold in every state the driver loop reaches is an
    invariant of the whole machine; it is corresponded - the C09 acceptor checks consumed = len on every DATA answer - not proved.) -/
theorem C09_data_means_consumed (cfg : Cfg) (fuel : Nat) (c : Conn)
    (hw : c.inState = ReqState.line → WFCur c.inn)
    (ho1 : c.inState = ReqState.bodyIdentity → 0 < c.inn.bodyDataLeft)
    (ho2 : c.inState = ReqState.bodyChunkedData → 0 < c.inn.chunkedLength)
    (hd : (reqStateFn cfg c).2 = Rc.data ∨ (reqStateFn cfg c).2 = Rc.dataBuffer) :
    ((reqDriverLoop cfg false (fuel + 1) c).2 = STREAM_DATA ∨ (reqDriverLoop cfg false (fuel + 1) c).2 = STREAM_ERROR) ∧
    (reqDriverLoop cfg false (fuel + 1) c).1.inn.len ≤ (reqDriverLoop cfg false (fuel + 1) c).1.inn.read := by
  obtain ⟨h1, h2, h3⟩ := reqDriverLoop_data_step cfg fuel c hd
  refine ⟨h1, ?_⟩
  rw [h2, h3]
  exact consumed_reqStateFn cfg c hw ho1 ho2 hd

/-- non-vacuity: a chunk that ends inside a request line is answered with DATA and read to its end -/
example :
    let c : Conn := { inn := { status := STREAM_DATA, cur := (b!"GET /"), len := 5 }, inState := .line }
    (reqStateFn {} c).2 = Rc.dataBuffer ∧ (reqStateFn {} c).1.inn.read = 5 := by decide

/-- **C09 (DATA means the whole chunk was consumed), response direction, one pass of the driver**: the same for the ten response state
    functions. The cursor hypothesis is needed in the status-line and header states (their line-end handling peeks and copies bytes);
    the two counted body states are entered only with a positive amount owed. -/
theorem C09_res_data_means_consumed_step (cfg : Cfg) (c : Conn)
    (hw : c.outState = ResState.line ∨ c.outState = ResState.headers → WFCur c.out)
    (ho1 : c.outState = ResState.bodyIdentityClKnown → 0 < c.out.bodyDataLeft)
    (ho2 : c.outState = ResState.bodyChunkedData → 0 < c.out.chunkedLength)
    (hd : (resStateFn cfg c).2 = Rc.data ∨ (resStateFn cfg c).2 = Rc.dataBuffer) :
    (resStateFn cfg c).1.out.len ≤ (resStateFn cfg c).1.out.read :=
  consumedOut_resStateFn cfg c hw ho1 ho2 hd

/-- ... and htp_connp_res_data then returns at once with STREAM_DATA (STREAM_ERROR at the line-buffer limit) and exactly that cursor. -/
theorem C09_res_data_means_consumed (cfg : Cfg) (fuel : Nat) (c : Conn)
    (hw : c.outState = ResState.line ∨ c.outState = ResState.headers → WFCur c.out)
    (ho1 : c.outState = ResState.bodyIdentityClKnown → 0 < c.out.bodyDataLeft)
    (ho2 : c.outState = ResState.bodyChunkedData → 0 < c.out.chunkedLength)
    (hd : (resStateFn cfg c).2 = Rc.data ∨ (resStateFn cfg c).2 = Rc.dataBuffer) :
    ((resDriverLoop cfg false (fuel + 1) c).2 = STREAM_DATA ∨ (resDriverLoop cfg false (fuel + 1) c).2 = STREAM_ERROR) ∧
    (resDriverLoop cfg false (fuel + 1) c).1.out.len ≤ (resDriverLoop cfg false (fuel + 1) c).1.out.read := by
  obtain ⟨h1, h2, h3⟩ := resDriverLoop_data_step cfg fuel c hd
  refine ⟨h1, ?_⟩
  rw [h2, h3]
  exact consumedOut_resStateFn cfg c hw ho1 ho2 hd

/-- non-vacuity: a chunk that ends inside a status line is answered with DATA_BUFFER and read to its end -/
example :
    let c : Conn := { out := { status := STREAM_DATA, cur := (b!"HTTP/1.1 2"), len := 10, tx := some 0 }, outState := .line,
                      txs := [some { uid := 0 }] }
    (resStateFn {} c).2 = Rc.dataBuffer ∧ (resStateFn {} c).1.out.read = 10 := by decide

/-- **C09 (DATA means the whole chunk was consumed), whole request data call**: htp_connp_req_data on ANY state, with any chunk of data and
    any callback policy, that returns HTP_STREAM_DATA has its read cursor exactly at the end of the chunk - the consumed count equals the
    length offered. The cursor hypothesis of the per-pass theorem is gone (a call stores a well-formed chunk and every state function keeps
    it so - Lemmas/CursorInv, Lemmas/BufInv); what remains is the line-buffer bound carried from call to call (C10_req_call_buffer_bounded) and
    that no pass of THIS call (`CallReach`) finds a counted body state owing nothing or less: the states are entered with a positive amount
    and left at zero, which rests on the Content-Length / chunk-length parsers and is corresponded, not proved. -/
theorem C09_req_call_data_means_consumed (cfg : Cfg) (d : Bytes) (c : Conn) (hs : (d.length : Int) < 18446744073709551616)
    (hb : inBufLen c ≤ cfg.fieldLimitHard)
    (ho : ∀ c', CallReach cfg (reqWakeOther (reqStoreChunk (some d) d.length c)) c' → OwedPos c')
    (hdata : (reqData cfg (some d) d.length c).2 = STREAM_DATA) :
    (reqData cfg (some d) d.length c).1.inn.read = (reqData cfg (some d) d.length c).1.inn.len :=
  reqData_data_consumed cfg d c hs hb ho hdata

/-- non-vacuity: the call of the earlier example returns STREAM_DATA with read = len = 5 -/
example :
    let c : Conn := { inState := .line, inn := { status := STREAM_DATA, tx := some 0 }, txs := [some { uid := 0 }] }
    (reqData {} (some (b!"GET /")) 5 c).2 = STREAM_DATA ∧ (reqData {} (some (b!"GET /")) 5 c).1.inn.read = 5 ∧
    (reqData {} (some (b!"GET /")) 5 c).1.inn.len = 5 := by decide

/-- **C09 (DATA means the whole chunk was consumed), whole response data call**: the same for htp_connp_res_data - from ANY state, with any
    chunk of data and any callback policy, STREAM_DATA implies read = len. The loop invariant on this side is `WFBO` (0 <= consume,
    0 <= read <= len <= |chunk|, line buffer within the hard limit; `consume <= read` is not part of it because the response parser
    un-reads); hypotheses: the buffer bound carried from call to call and that every pass of the call finds the counted body states
    (Content-Length body, chunk data) still owing bytes. -/
theorem C09_res_call_data_means_consumed (cfg : Cfg) (d : Bytes) (c : Conn) (hs : (d.length : Int) < 18446744073709551616)
    (hb : outBufLen c ≤ cfg.fieldLimitHard)
    (ho : ∀ c', CallReachO cfg (resStoreChunk (some d) d.length c) c' → OwedPosO c')
    (hdata : (resData cfg (some d) d.length c).2 = STREAM_DATA) :
    (resData cfg (some d) d.length c).1.out.read = (resData cfg (some d) d.length c).1.out.len :=
  resData_data_consumed cfg d c hs hb ho hdata

/-- non-vacuity: an unterminated status line is answered with STREAM_DATA, read = len = 10 -/
example :
    let c : Conn := { outState := .line, out := { status := STREAM_DATA, tx := some 0 }, txs := [some { uid := 0 }] }
    (resData {} (some (b!"HTTP/1.1 2")) 10 c).2 = STREAM_DATA ∧ (resData {} (some (b!"HTTP/1.1 2")) 10 c).1.out.read = 10 ∧
    (resData {} (some (b!"HTTP/1.1 2")) 10 c).1.out.len = 10 := by decide

/-- **C09 (DATA means the whole chunk was consumed), from a state invariant**: the hypothesis 'every pass finds the counted body states still
    owing bytes' of `C09_req_call_data_means_consumed` is discharged: it is enough that they owe bytes when the call STARTS (`OwedPos`).
    Inside the call the parser enters those states only with a positive amount and leaves them when it reaches zero (`Lemmas/Owed.lean`:
    where each of the fourteen state functions can leave the parser, the frames for the two parser states and the two amounts). The one outside
    fact left is `ClAtDecision`: when REQ_BODY_DETERMINE runs, the Content-Length recorded for an identity body is not negative - a
    property of the header parser's arithmetic that is corresponded, not proved. -/
theorem C09_req_call_data_means_consumed_inv (cfg : Cfg) (d : Bytes) (c : Conn) (hs : (d.length : Int) < 18446744073709551616)
    (hb : inBufLen c ≤ cfg.fieldLimitHard) (h0 : OwedPos c)
    (hcl : ClAtDecision cfg (reqWakeOther (reqStoreChunk (some d) d.length c)))
    (hdata : (reqData cfg (some d) d.length c).2 = STREAM_DATA) :
    (reqData cfg (some d) d.length c).1.inn.read = (reqData cfg (some d) d.length c).1.inn.len :=
  reqData_data_consumed_inv cfg d c hs hb h0 hcl hdata

/-- ... and the two hypotheses on the state are an invariant of request data calls: they hold again when htp_connp_req_data returns, whatever
    it returns, so they are carried from call to call (calls of the response direction in between are not covered by this theorem). -/
theorem C09_req_call_invariant (cfg : Cfg) (d : Bytes) (c : Conn) (hs : (d.length : Int) < 18446744073709551616)
    (hb : inBufLen c ≤ cfg.fieldLimitHard) (h0 : OwedPos c)
    (hcl : ClAtDecision cfg (reqWakeOther (reqStoreChunk (some d) d.length c))) :
    inBufLen (reqData cfg (some d) d.length c).1 ≤ cfg.fieldLimitHard ∧ OwedPos (reqData cfg (some d) d.length c).1 :=
  reqData_invariant cfg d c hs hb h0 hcl

/-- non-vacuity: a freshly created connection satisfies both state hypotheses -/
example : inBufLen ({} : Conn) ≤ (({} : Cfg).fieldLimitHard) ∧ OwedPos ({} : Conn) := by
  refine ⟨by decide, ⟨fun e => ?_, fun e => ?_⟩⟩ <;> exact absurd e (by decide)

/-- **C09 (DATA means the whole chunk was consumed), whole response data call, no outside fact**: on the response side even `ClAtDecision` is
    not needed - RES_BODY_DETERMINE refuses a negative Content-Length and enters the counted state only for a non-zero one. From ANY
    state with the line buffer within the limit and the counted body states owing bytes, any chunk of data, any callback policy:
    htp_connp_res_data returning STREAM_DATA has read = len. -/
theorem C09_res_call_data_means_consumed_inv (cfg : Cfg) (d : Bytes) (c : Conn) (hs : (d.length : Int) < 18446744073709551616)
    (hb : outBufLen c ≤ cfg.fieldLimitHard) (h0 : OwedPosO c)
    (hdata : (resData cfg (some d) d.length c).2 = STREAM_DATA) :
    (resData cfg (some d) d.length c).1.out.read = (resData cfg (some d) d.length c).1.out.len :=
  resData_data_consumed_inv cfg d c hs hb h0 hdata

/-- ... and both state hypotheses hold again when htp_connp_res_data returns: an invariant of response data calls (calls of the request
    direction in between are not covered by this theorem) -/
theorem C09_res_call_invariant (cfg : Cfg) (d : Bytes) (c : Conn) (hs : (d.length : Int) < 18446744073709551616)
    (hb : outBufLen c ≤ cfg.fieldLimitHard) (h0 : OwedPosO c) :
    outBufLen (resData cfg (some d) d.length c).1 ≤ cfg.fieldLimitHard ∧ OwedPosO (resData cfg (some d) d.length c).1 :=
  resData_invariant cfg d c hs hb h0

example : outBufLen ({} : Conn) ≤ (({} : Cfg).fieldLimitHard) ∧ OwedPosO ({} : Conn) := by
  refine ⟨by decide, ⟨fun e => ?_, fun e => ?_⟩⟩ <;> exact absurd e (by decide)

/-- **C09 (DATA means the whole chunk was consumed), request direction, no outside fact**: `ClAtDecision` is discharged from the state invariant
    `ClOK` - every stored transaction whose request body is identity-coded has a non-negative Content-Length (`Lemmas/ClInv.lean`: the framing
    function yields identity coding only together with a parsed, non-negative length, and nothing else writes those two fields). -/
theorem C09_req_call_data_means_consumed_closed (cfg : Cfg) (d : Bytes) (c : Conn) (hs : (d.length : Int) < 18446744073709551616)
    (hb : inBufLen c ≤ cfg.fieldLimitHard) (h0 : OwedPos c) (hcl : ClOK c)
    (hdata : (reqData cfg (some d) d.length c).2 = STREAM_DATA) :
    (reqData cfg (some d) d.length c).1.inn.read = (reqData cfg (some d) d.length c).1.inn.len :=
  reqData_data_consumed_inv' cfg d c hs hb h0 hcl hdata

/-- **C09 over whole call histories (forall byte streams, chunkings, interleavings and callback return values)**: take ANY list of calls on a
    freshly created connection parser - request chunks and response chunks in any interleaving, htp_connp_open, htp_connp_req_close,
    htp_connp_close, htp_connp_tx_freed, any configuration, any callback policy (the policy is part of the state) - and any prefix of it that is
    followed by a data call: if that call returns HTP_STREAM_DATA, its read cursor stands at the end of the chunk offered. The only hypothesis is
    that each chunk is shorter than 2^64 bytes. Proof: the combined invariant `HistInv` (both line buffers within the hard limit, the counted body
    states of both directions still owing bytes, `ClOK`) holds for the fresh parser and is kept by every call of EITHER direction
    (`Lemmas/HistoryFrames.lean`: what the response side may do to the request side's view and vice versa; `Lemmas/HistoryNull.lean`: the NULL
    chunk of a close; `Lemmas/History.lean`: induction over the call list). Stream gaps are not among the calls. -/
theorem C09_history_data_means_consumed (cfg : Cfg) (calls : List Call) (hsz : SizesOK calls) :
    (∀ pre d, pre ++ [.req d] <+: calls → (reqData cfg (some d) d.length (runCalls cfg {} pre)).2 = STREAM_DATA →
      (reqData cfg (some d) d.length (runCalls cfg {} pre)).1.inn.read = (reqData cfg (some d) d.length (runCalls cfg {} pre)).1.inn.len) ∧
    (∀ pre d, pre ++ [.res d] <+: calls → (resData cfg (some d) d.length (runCalls cfg {} pre)).2 = STREAM_DATA →
      (resData cfg (some d) d.length (runCalls cfg {} pre)).1.out.read = (resData cfg (some d) d.length (runCalls cfg {} pre)).1.out.len) :=
  history_data_means_consumed cfg {} calls (histInv_fresh cfg) hsz

/-- the invariant itself, after every history on a fresh connection parser -/
theorem C09_history_invariant (cfg : Cfg) (calls : List Call) (hsz : SizesOK calls) : HistInv cfg (runCalls cfg {} calls) :=
  history_inv cfg {} calls (histInv_fresh cfg) hsz

/-- non-vacuity: an interleaved history whose two data calls return HTP_STREAM_DATA -/
example :
    let calls : List Call := [.open, .req (b!"GET /"), .res (b!"HTTP/1.1 2")]
    (reqData {} (some (b!"GET /")) 5 (runCalls {} {} [.open])).2 = STREAM_DATA ∧
    (resData {} (some (b!"HTTP/1.1 2")) 10 (runCalls {} {} [.open, .req (b!"GET /")])).2 = STREAM_DATA ∧
    (runCalls {} {} calls).inn.read = 5 ∧ (runCalls {} {} calls).out.read = 10 := by decide

/-- **C09 (sticky ERROR over whole histories: forall interleavings)**: once a direction's status is STREAM_ERROR it stays so through ANY list of
    later calls - data chunks of either direction, htp_connp_close, htp_connp_req_close, htp_connp_open, htp_connp_tx_freed, any configuration
    and callback policy (`Lemmas/HistorySticky.lean`: every write of `in_status` on the response side - refused CONNECT, 101, tunnel switch - and
    of `out_status` on the request side - the DATA_OTHER wake-up, the CONNECT probe - is guarded so that ERROR survives; close only overwrites
    a status that is not ERROR). -/
theorem C09_history_error_absorbing (cfg : Cfg) (c0 : Conn) (calls : List Call) :
    (c0.inn.status = STREAM_ERROR → (runCalls cfg c0 calls).inn.status = STREAM_ERROR) ∧
    (c0.out.status = STREAM_ERROR → (runCalls cfg c0 calls).out.status = STREAM_ERROR) :=
  ⟨history_error_sticky_req cfg c0 calls, history_error_sticky_res cfg c0 calls⟩

/-- **C09 (the clause in its own words)**: if, after any history `pre`, a request data call returns HTP_STREAM_ERROR, then after ANY further calls
    `mid` of either direction a later request data call returns HTP_STREAM_ERROR and runs no callback (event log and callback counter
    unchanged) - and the same for the response direction. The hypothesis `unsupported = false` excludes the one path of the MODEL that returns
    ERROR without recording it: its driver loop's fuel counter running out, which has no counterpart in the C (`for (;;)`). -/
theorem C09_history_error_then_error (cfg : Cfg) (c0 : Conn) (pre mid : List Call) (d d' : Bytes) :
    ((reqData cfg (some d) d.length (runCalls cfg c0 pre)).2 = STREAM_ERROR →
     (reqData cfg (some d) d.length (runCalls cfg c0 pre)).1.unsupported = false →
       let c1 := runCalls cfg c0 (pre ++ [.req d] ++ mid)
       (reqData cfg (some d') d'.length c1).2 = STREAM_ERROR ∧ (reqData cfg (some d') d'.length c1).1.events = c1.events ∧
       (reqData cfg (some d') d'.length c1).1.cbCount = c1.cbCount) ∧
    ((resData cfg (some d) d.length (runCalls cfg c0 pre)).2 = STREAM_ERROR →
     (resData cfg (some d) d.length (runCalls cfg c0 pre)).1.unsupported = false →
       let c1 := runCalls cfg c0 (pre ++ [.res d] ++ mid)
       (resData cfg (some d') d'.length c1).2 = STREAM_ERROR ∧ (resData cfg (some d') d'.length c1).1.events = c1.events ∧
       (resData cfg (some d') d'.length c1).1.cbCount = c1.cbCount) :=
  ⟨fun h1 h2 => history_error_then_error_req_chunk cfg c0 pre mid d d' h1 h2,
   fun h1 h2 => history_error_then_error_res_chunk cfg c0 pre mid d d' h1 h2⟩

/-- **C09 (byte counters, the code itself)**: htp_conn_track_inbound_data / htp_conn_track_outbound_data as translated from the current source add
    exactly the length offered to the connection's counter (the int64 store does not wrap while the total stays below 2^63) -/
theorem C09_translated_byte_counters (fuel : Nat) (len ctr : Int) (h0 : 0 ≤ ctr) (hl : 0 ≤ len) (hb : ctr + len < 9223372036854775808) :
    (Htp.Gen.C.htp_conn_track_inbound_data fuel (len := len) (conn_in_data_counter := ctr)).map (·.2.conn_in_data_counter) = some (ctr + len) ∧
    (Htp.Gen.C.htp_conn_track_outbound_data fuel (len := len) (conn_out_data_counter := ctr)).map (·.2.conn_out_data_counter) = some (ctr + len) := by
  rw [Htp.CFuns.htp_conn_track_inbound_data_eq fuel len ctr h0 hl hb, Htp.CFuns.htp_conn_track_outbound_data_eq fuel len ctr h0 hl hb]
  exact ⟨rfl, rfl⟩

/-- **C09 (the per-connection byte counters equal the bytes offered, over whole histories)**: for every history of calls - request and response
    chunks in any interleaving, close, req_close, open, tx_freed, any configuration and callback policy - in which every data call of a
    direction is accepted (returns DATA, DATA_OTHER or TUNNEL), that direction's counter has grown by exactly the sum of the lengths offered:
    nothing but the "store the chunk" step of the two data functions writes the counters (`Lemmas/HistoryCounters.lean`: the frame family
    `KeepCtr` over every function of both directions and the driver loops), and an accepted call always passed through that step. Without
    the hypothesis the statement is false and must be: a call on a direction already in STOP / ERROR returns before it counts
    (`inDataCounter_lt_offered_after_error`: 21 bytes offered, 18 counted); in every history the counter is at most what was offered. -/
theorem C09_history_byte_counters (cfg : Cfg) (c0 : Conn) (calls : List Call) :
    (AllReqAccepted cfg c0 calls → (runCalls cfg c0 calls).inDataCounter = c0.inDataCounter + offeredReq calls) ∧
    (AllResAccepted cfg c0 calls → (runCalls cfg c0 calls).outDataCounter = c0.outDataCounter + offeredRes calls) :=
  ⟨history_inDataCounter_accepted cfg c0 calls, history_outDataCounter_accepted cfg c0 calls⟩

example :
    let calls : List Call := [.open, .req (b!"GET /"), .req (b!" HTTP/1"), .res (b!"HTTP/1.1 2")]
    (runCalls {} {} calls).inDataCounter = 12 ∧ (runCalls {} {} calls).outDataCounter = 10 := by decide

/-- **C09 (the constants are the reviewed ones)**: every constant the translator reads from the current source - among them the stream state codes -
    equals its reviewed snapshot (lean/HtpModel/Pinned); the model follows a regenerated constant, so this is what notices a changed one -/
theorem C09_constants_pinned : Htp.Pinned.ConstantsPinned := Htp.Pinned.constants_pinned

end Htp.C09
