/- C09 — stream API contract. -/
import HtpModel.Conn.Res

namespace Htp.C09
open Htp.Conn Htp.Gen

/-- **C09 (sticky ERROR, request direction)**: once the request direction is in ERROR, every data call — any bytes, any length,
    gap or close — returns ERROR, runs no callback (the event log and the callback counter are unchanged) and changes nothing
    but the "call is running" marker. -/
theorem C09_sticky_error_req (cfg : Cfg) (c : Conn) (data : Option Bytes) (len : Nat)
    (h : c.inn.status = STREAM_ERROR) :
    (reqData cfg data len c).2 = STREAM_ERROR ∧ (reqData cfg data len c).1.events = c.events ∧
    (reqData cfg data len c).1.cbCount = c.cbCount ∧ (reqData cfg data len c).1.inn.status = STREAM_ERROR ∧
    (reqData cfg data len c).1.txs = c.txs := by
  have hes : STREAM_ERROR ≠ STREAM_STOP := by decide
  simp [reqData, reqDataCore, h, hes]

/-- **C09 (sticky STOP, request direction, data calls)** -/
theorem C09_sticky_stop_req (cfg : Cfg) (c : Conn) (data : Option Bytes) (len : Nat)
    (h : c.inn.status = STREAM_STOP) :
    (reqData cfg data len c).2 = STREAM_STOP ∧ (reqData cfg data len c).1.events = c.events ∧
    (reqData cfg data len c).1.cbCount = c.cbCount ∧ (reqData cfg data len c).1.inn.status = STREAM_STOP ∧
    (reqData cfg data len c).1.txs = c.txs := by
  simp [reqData, reqDataCore, h]

theorem C09_sticky_error_res (cfg : Cfg) (c : Conn) (data : Option Bytes) (len : Nat)
    (h : c.out.status = STREAM_ERROR) :
    (resData cfg data len c).2 = STREAM_ERROR ∧ (resData cfg data len c).1.events = c.events ∧
    (resData cfg data len c).1.cbCount = c.cbCount ∧ (resData cfg data len c).1.out.status = STREAM_ERROR ∧
    (resData cfg data len c).1.txs = c.txs := by
  have hes : STREAM_ERROR ≠ STREAM_STOP := by decide
  simp [resData, resDataCore, h, hes]

theorem C09_sticky_stop_res (cfg : Cfg) (c : Conn) (data : Option Bytes) (len : Nat)
    (h : c.out.status = STREAM_STOP) :
    (resData cfg data len c).2 = STREAM_STOP ∧ (resData cfg data len c).1.events = c.events ∧
    (resData cfg data len c).1.cbCount = c.cbCount ∧ (resData cfg data len c).1.out.status = STREAM_STOP ∧
    (resData cfg data len c).1.txs = c.txs := by
  simp [resData, resDataCore, h]

/-- ERROR survives `close` as well: htp_connp_close leaves an ERROR direction in ERROR and runs no callback for it. -/
theorem C09_sticky_error_close (cfg : Cfg) (c : Conn) (hi : c.inn.status = STREAM_ERROR) (ho : c.out.status = STREAM_ERROR) :
    (connClose cfg c).1.inn.status = STREAM_ERROR ∧ (connClose cfg c).1.out.status = STREAM_ERROR ∧
    (connClose cfg c).1.events = c.events := by
  have hes : STREAM_ERROR ≠ STREAM_STOP := by decide
  simp [connClose, reqData, reqDataCore, resData, resDataCore, hi, ho, hes]

/-- **C09 (finding S8)**: STOP is NOT sticky across `close`: htp_connp_close overwrites STOP with CLOSED and re-enters the parser.
    Witness: a connection whose request direction is in STOP and idle; after close the direction reports DATA. -/
theorem C09_stop_not_sticky_counterexample :
    (connClose {} { inn := { status := STREAM_STOP }, out := { status := STREAM_OPEN } }).1.inn.status ≠ STREAM_STOP := by
  decide

end Htp.C09
