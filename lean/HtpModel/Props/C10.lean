/- C10 — configured limits bound what the parser keeps. -/
import HtpModel.Lemmas.Conn
import HtpModel.Lemmas.BufInv
import HtpModel.Lemmas.OutInv
import HtpModel.Lemmas.OwedOut
import HtpModel.Pinned.Eq
import HtpModel.Lemmas.History
import HtpModel.Lemmas.CFunsBuffer
import HtpModel.Lemmas.TxCountOut
import HtpModel.Lemmas.RepInvOut

namespace Htp.C10
open Htp.Conn Htp.Gen

theorem sliceCur_length_le (d : Dir) (a b : Int) : (sliceCur d a b).length ≤ (b - a).toNat := by
  unfold sliceCur
  simp only [List.length_take]
  omega

/-- **C10 (hard limit at the moment of buffering)**: whenever htp_connp_req_buffer / htp_connp_res_buffer accepts the unconsumed
    tail of a chunk, the bytes then retained for the unfinished line plus the pending (possibly folded) header are within
    `field_limit_hard`. Holds for every cursor position — including the un-read positions of the response side, where
    `read < consume` makes the size_t length wrap and the limit test fail — under the only assumption that the offsets are
    int64 values (the C type). -/
theorem C10_buffer_bound (d d' : Dir) (hard : Nat) (skip : Bool) (h : d.buffer hard skip = some d')
    (hnn : d.curNull = false) (hrange : d.read - d.consume < 9223372036854775808) :
    (d'.buf.map (·.length)).getD 0 + (d'.header.map (·.length)).getD 0 ≤ hard ∨ d' = d := by
  unfold Dir.buffer at h
  simp only [hnn, Bool.false_eq_true, if_false] at h
  split at h
  · right; simp at h; exact h.symm
  · split at h
    · simp at h
    · rename_i hle
      left
      simp only [Option.some.injEq] at h
      subst h
      simp only [Option.map_some, Option.getD_some, List.length_append]
      have hs := sliceCur_length_le d d.consume d.read
      have hsz : (d.read - d.consume).toNat ≤ sizeOfInt (d.read - d.consume) := by
        unfold sizeOfInt
        by_cases hneg : d.read - d.consume < 0
        · have : (d.read - d.consume).toNat = 0 := by omega
          omega
        · have hnn' : 0 ≤ d.read - d.consume := by omega
          rw [Int.emod_eq_of_lt hnn' (by omega)]
          omega
      cases hb : d.buf <;> cases hh : d.header <;> simp_all <;> omega

/-- **C10 (no silent truncation)**: when the limit test fails, buffering fails as a whole — `none`, which the drivers turn into
    a stream ERROR for that direction — and nothing of the over-long line is kept. -/
theorem C10_buffer_all_or_nothing (d : Dir) (hard : Nat) (skip : Bool) (hnn : d.curNull = false)
    (hover : (d.buf.map (·.length)).getD 0 + sizeOfInt (d.read - d.consume) + (d.header.map (·.length)).getD 0 > hard)
    (hne : ¬ (skip = true ∧ sizeOfInt (d.read - d.consume) = 0)) :
    d.buffer hard skip = none := by
  unfold Dir.buffer
  simp only [hnn, Bool.false_eq_true, if_false]
  have h1 : (skip && sizeOfInt (d.read - d.consume) == 0) = false := by
    cases skip <;> simp_all
  simp [h1, hover]

/-- **C10 (max_tx)**: with a non-zero `max_tx`, transaction creation never makes the list longer than `max_tx + 1`
    (it refuses once more than `max_tx` are held) — and creation is the only operation that appends to the list. -/
theorem C10_maxtx_create (cfg : Cfg) (c : Conn) (hm : 0 < cfg.maxTx) :
    (txCreate cfg c).1.txs.length ≤ max c.txs.length (cfg.maxTx + 1) := by
  unfold txCreate
  simp only
  split
  · simp; omega
  · rename_i hc
    simp only [List.length_append, List.length_cons, List.length_nil]
    have : ¬ (c.txs.length > cfg.maxTx) := by
      intro hgt
      apply hc
      simp [hm, hgt]
    omega

/-- repetition merging is capped: the per-transaction repetition counter never exceeds HTP_MAX_HEADERS_REPETITIONS through
    `addHeader`, and once it is reached a further repetition of a marked field leaves the table unchanged. -/
theorem C10_repetitions_capped (hs : List Parse.Header) (reps : Nat) (h : Parse.Header)
    (hr : reps ≤ MAX_HEADERS_REPETITIONS) :
    (addHeader hs reps h).2 ≤ MAX_HEADERS_REPETITIONS := by
  unfold addHeader
  split
  · exact hr
  · rename_i i _
    simp only
    by_cases hc : (hasFlag (hs.getD i default).flags FIELD_REPEATED && decide (reps ≥ MAX_HEADERS_REPETITIONS)) = true
    · simp only [hc, if_true]; exact hr
    · simp only [hc]
      by_cases hrep : hasFlag (hs.getD i default).flags FIELD_REPEATED = true
      · have hlt : ¬ (reps ≥ MAX_HEADERS_REPETITIONS) := by
          intro hge; apply hc; rw [hrep]; simp [hge]
        split <;> simp [hrep] <;> omega
      · split <;> simp [hrep] <;> exact hr

/-- **C10 (the line buffer stays within the hard limit, every state function)**: with the cursors inside the chunk and at most
    `field_limit_hard` bytes set aside, each of the fourteen request state functions - whatever it answers - leaves both so. (Hypothesis
    as in C01: no negative amount owed in the two counted body states.) -/
theorem C10_req_state_buffer_bounded (cfg : Cfg) (c : Conn) (w : WFB cfg.fieldLimitHard c.inn)
    (ho1 : c.inState = ReqState.bodyIdentity → 0 ≤ c.inn.bodyDataLeft)
    (ho2 : c.inState = ReqState.bodyChunkedData → 0 ≤ c.inn.chunkedLength) :
    WFB cfg.fieldLimitHard (reqStateFn cfg c).1.inn := wfbIn_reqStateFn cfg c w ho1 ho2

/-- **C10 (the line buffer stays within the hard limit, whole data call)**: htp_connp_req_data on ANY state with at most `field_limit_hard`
    bytes set aside, any chunk of data and any callback policy returns with at most `field_limit_hard` bytes set aside - so the bound
    is carried from call to call. `CallReach` names the states the call's loop passes through; the hypothesis is that none of them owes
    a negative amount in a counted body state (corresponded, not proved: it rests on the Content-Length and chunk-length parsers). -/
theorem C10_req_call_buffer_bounded (cfg : Cfg) (d : Bytes) (c : Conn) (hs : (d.length : Int) < 18446744073709551616)
    (hb : inBufLen c ≤ cfg.fieldLimitHard)
    (ho : ∀ c', CallReach cfg (reqWakeOther (reqStoreChunk (some d) d.length c)) c' → OwedOK c') :
    inBufLen (reqData cfg (some d) d.length c).1 ≤ cfg.fieldLimitHard := reqData_buffer_bounded cfg d c hs hb ho

/-- non-vacuity: an unterminated request line is set aside (5 bytes, limit 18000) -/
example :
    let c : Conn := { inState := .line, inn := { status := STREAM_DATA, tx := some 0 }, txs := [some { uid := 0 }] }
    inBufLen c ≤ (({} : Cfg).fieldLimitHard) ∧ inBufLen (reqData {} (some (b!"GET /")) 5 c).1 = 5 := by decide

/-- **C10 (response direction, every state function)**: the same for the ten response state functions. The cursor part of the invariant is
    weaker there (`WFO`: 0 <= consume, 0 <= read <= len <= |chunk|): after an un-read the consume offset may stand ahead of the read
    offset, and buffering then fails its limit test as a whole (C10_buffer_bound). -/
theorem C10_res_state_buffer_bounded (cfg : Cfg) (c : Conn) (w : WFBO cfg.fieldLimitHard c.out)
    (ho1 : c.outState = ResState.bodyIdentityClKnown → 0 ≤ c.out.bodyDataLeft)
    (ho2 : c.outState = ResState.bodyChunkedData → 0 ≤ c.out.chunkedLength) :
    WFBO cfg.fieldLimitHard (resStateFn cfg c).1.out := wfboOut_resStateFn cfg c w ho1 ho2

/-- **C10 (response direction, whole data call)**: htp_connp_res_data on ANY state with at most `field_limit_hard` bytes set aside, any chunk
    of data and any callback policy returns with at most `field_limit_hard` bytes set aside. -/
theorem C10_res_call_buffer_bounded (cfg : Cfg) (d : Bytes) (c : Conn) (hs : (d.length : Int) < 18446744073709551616)
    (hb : outBufLen c ≤ cfg.fieldLimitHard)
    (ho : ∀ c', CallReachO cfg (resStoreChunk (some d) d.length c) c' → OwedOKO c') :
    outBufLen (resData cfg (some d) d.length c).1 ≤ cfg.fieldLimitHard := resData_buffer_bounded cfg d c hs hb ho

/-- non-vacuity: an unterminated status line is set aside (10 bytes) -/
example :
    let c : Conn := { outState := .line, out := { status := STREAM_DATA, tx := some 0 }, txs := [some { uid := 0 }] }
    outBufLen c ≤ (({} : Cfg).fieldLimitHard) ∧ outBufLen (resData {} (some (b!"HTTP/1.1 2")) 10 c).1 = 10 := by decide

/-- **C10 (whole data call, from a state invariant)**: the 'no negative amount owed in any pass' hypothesis of the two whole-call theorems is
    discharged (`Lemmas/Owed.lean`, `Lemmas/OwedOut.lean`): with the counted body states owing bytes when the call starts, a call of either
    direction returns with the line buffer within the hard limit AND with the counted body states owing bytes again. For the response direction
    nothing else is assumed; for the request direction the one outside fact is `ClAtDecision` (a non-negative Content-Length at the framing
    decision). -/
theorem C10_res_call_buffer_bounded_inv (cfg : Cfg) (d : Bytes) (c : Conn) (hs : (d.length : Int) < 18446744073709551616)
    (hb : outBufLen c ≤ cfg.fieldLimitHard) (h0 : OwedPosO c) :
    outBufLen (resData cfg (some d) d.length c).1 ≤ cfg.fieldLimitHard ∧ OwedPosO (resData cfg (some d) d.length c).1 :=
  resData_invariant cfg d c hs hb h0

theorem C10_req_call_buffer_bounded_inv (cfg : Cfg) (d : Bytes) (c : Conn) (hs : (d.length : Int) < 18446744073709551616)
    (hb : inBufLen c ≤ cfg.fieldLimitHard) (h0 : OwedPos c)
    (hcl : ClAtDecision cfg (reqWakeOther (reqStoreChunk (some d) d.length c))) :
    inBufLen (reqData cfg (some d) d.length c).1 ≤ cfg.fieldLimitHard ∧ OwedPos (reqData cfg (some d) d.length c).1 :=
  reqData_invariant cfg d c hs hb h0 hcl

/-- **C10 (request direction, no outside fact)**: `ClAtDecision` discharged from the state invariant `ClOK` (`Lemmas/ClInv.lean`) -/
theorem C10_req_call_buffer_bounded_closed (cfg : Cfg) (d : Bytes) (c : Conn) (hs : (d.length : Int) < 18446744073709551616)
    (hb : inBufLen c ≤ cfg.fieldLimitHard) (h0 : OwedPos c) (hcl : ClOK c) :
    inBufLen (reqData cfg (some d) d.length c).1 ≤ cfg.fieldLimitHard ∧ OwedPos (reqData cfg (some d) d.length c).1 ∧
    ClOK (reqData cfg (some d) d.length c).1 :=
  reqData_invariant' cfg d c hs hb h0 hcl

/-- **C10 over whole call histories (forall streams, chunkings, configurations; after every call)**: after ANY list of calls on a freshly created
    connection parser - request and response chunks in any interleaving, open, req_close, close, tx_freed, any configuration and callback
    policy - and after every prefix of it, the bytes each direction has set aside for an unfinished line stay within the configured hard field
    limit. Only hypothesis: every chunk is shorter than 2^64 bytes. (Induction over the call list with the combined invariant `HistInv`,
    `Lemmas/History*.lean`; stream gaps are not among the calls.) -/
theorem C10_history_buffer_bounded (cfg : Cfg) (calls pre : List Call) (hsz : SizesOK calls) (hp : pre <+: calls) :
    inBufLen (runCalls cfg {} pre) ≤ cfg.fieldLimitHard ∧ outBufLen (runCalls cfg {} pre) ≤ cfg.fieldLimitHard :=
  history_buffer_bounded cfg {} calls pre (histInv_fresh cfg) hsz hp

/-- non-vacuity: after an unterminated request line and an unterminated status line 5 and 10 bytes are set aside -/
example :
    let c := runCalls {} {} [.open, .req (b!"GET /"), .res (b!"HTTP/1.1 2")]
    inBufLen c = 5 ∧ outBufLen c = 10 := by decide

/-- **C10 (the buffering function of the code itself)**: htp_connp_req_buffer, translated from the current source of htp_request.c (the fields of
    `htp_connp_t` it touches as state, `in_buf` with malloc / realloc / memcpy, allocation success a parameter), for ALL field values within
    2^62: it returns HTP_OK or HTP_ERROR; when it returns HTP_OK either the bytes set aside plus the pending header are within
    `field_limit_hard`, the buffer's recorded size is its real length and the consume cursor has moved to the read cursor - or nothing at all was
    touched (NULL chunk / nothing to set aside); when it returns HTP_ERROR the size and the cursor are unchanged and, if allocation works, the
    sum really was above the limit: all or nothing. `htp_connp_res_buffer` is the same function with the `out_` fields except that it has no
    `len == 0` early return (a difference of the source that the model mirrors with its `skipEmpty` flag). -/
theorem C10_translated_req_buffer (fuel : Nat) (cur : Bytes) (dnull : Int) (buf : List Int)
    (bnull size consume read hlen hnull hard alloc : Int)
    (hc0 : 0 ≤ consume) (hcr : consume ≤ read) (hr : read < 4611686018427387904)
    (hs0 : 0 ≤ size) (hs : size < 4611686018427387904) (hh0 : 0 ≤ hlen) (hh : hlen < 4611686018427387904)
    (r : Int) (s : Htp.Gen.C.St_htp_connp_req_buffer)
    (h : Htp.Gen.C.htp_connp_req_buffer fuel (connp_in_current_data := cur) (connp_in_current_data_null := dnull) (connp_in_buf := buf)
        (connp_in_buf_null := bnull) (connp_in_buf_size := size) (connp_in_current_consume_offset := consume)
        (connp_in_current_read_offset := read) (connp_in_header_len := hlen) (connp_in_header_null := hnull)
        (connp_in_tx_cfg_field_limit_hard := hard) (alloc_ok := alloc) = some (r, s)) :
    (r = 1 ∨ r = -1) ∧ s.connp_in_current_read_offset = read ∧
    (r = 1 →
      (s.connp_in_buf_size + (if hnull = 0 then hlen else 0) ≤ hard ∧ s.connp_in_buf_size ≤ size + (read - consume) ∧
        (s.connp_in_buf.length : Int) = s.connp_in_buf_size ∧ s.connp_in_buf_null = 0 ∧
        s.connp_in_current_consume_offset = read) ∨
      (s.connp_in_buf = buf ∧ s.connp_in_buf_null = bnull ∧ s.connp_in_buf_size = size ∧
        s.connp_in_current_consume_offset = consume ∧ (dnull ≠ 0 ∨ read - consume = 0))) ∧
    (r = -1 →
      s.connp_in_buf_size = size ∧ s.connp_in_current_consume_offset = consume ∧
      (s.connp_in_buf_null ≠ 0 ↔ bnull ≠ 0) ∧ (bnull = 0 → s.connp_in_buf = buf) ∧
      (alloc ≠ 0 → size + (read - consume) + (if hnull = 0 then hlen else 0) > hard)) :=
  Htp.CFuns.htp_connp_req_buffer_c10 fuel cur dnull buf bnull size consume read hlen hnull hard alloc hc0 hcr hr hs0 hs hh0 hh r s h

/-- ... and it is the model's `Dir.buffer`: HTP_ERROR exactly when the model refuses (so `C10_buffer_bound` / `C10_buffer_all_or_nothing` and the
    whole-history bound above speak about this code), for the request function (`skipEmpty = true`) and its response twin (`false`) -/
theorem C10_translated_buffer_is_model (fuel : Nat) (d : Dir) (hard : Nat)
    (hc0 : 0 ≤ d.consume) (hcr : d.consume ≤ d.read) (hrl : d.read ≤ d.cur.length) (hl : d.cur.length < 4611686018427387904)
    (hbl : ∀ b, d.buf = some b → b.length < 4611686018427387904)
    (hhl : ∀ h, d.header = some h → h.length < 4611686018427387904) :
    (((Htp.Gen.C.htp_connp_req_buffer fuel (connp_in_current_data := d.cur) (connp_in_current_data_null := if d.curNull then 1 else 0)
        (connp_in_buf := match d.buf with | some b => Htp.CSem.memOf b | none => [])
        (connp_in_buf_null := if d.buf.isNone then 1 else 0) (connp_in_buf_size := ((d.buf.map (·.length)).getD 0 : Nat))
        (connp_in_current_consume_offset := d.consume) (connp_in_current_read_offset := d.read)
        (connp_in_header_len := ((d.header.map (·.length)).getD 0 : Nat)) (connp_in_header_null := if d.header.isNone then 1 else 0)
        (connp_in_tx_cfg_field_limit_hard := hard) (alloc_ok := 1)).map (·.1) = some (-1)) ↔ d.buffer hard true = none) ∧
    (((Htp.Gen.C.htp_connp_res_buffer fuel (connp_out_current_data := d.cur) (connp_out_current_data_null := if d.curNull then 1 else 0)
        (connp_out_buf := match d.buf with | some b => Htp.CSem.memOf b | none => [])
        (connp_out_buf_null := if d.buf.isNone then 1 else 0) (connp_out_buf_size := ((d.buf.map (·.length)).getD 0 : Nat))
        (connp_out_current_consume_offset := d.consume) (connp_out_current_read_offset := d.read)
        (connp_out_header_len := ((d.header.map (·.length)).getD 0 : Nat)) (connp_out_header_null := if d.header.isNone then 1 else 0)
        (connp_out_tx_cfg_field_limit_hard := hard) (alloc_ok := 1)).map (·.1) = some (-1)) ↔ d.buffer hard false = none) :=
  ⟨Htp.CFuns.htp_connp_req_buffer_error_iff fuel d hard hc0 hcr hrl hl hbl hhl,
   Htp.CFuns.htp_connp_res_buffer_error_iff fuel d hard hc0 hcr hrl hl hbl hhl⟩

/-- **C10 (max_tx over whole call histories)**: with a non-zero `max_tx`, after ANY list of calls on a freshly created connection parser - request
    and response chunks in any interleaving (also gaps and NULL chunks: the data functions are covered for every data / len), open,
    req_close, close, tx_freed, any callback policy - and after every prefix of it, the connection holds at most `max_tx + 1` transaction slots.
    Creation (`txCreate`, reached from REQ_IDLE and from the response side's unmatched-response path) is the only operation that appends to the
    list and it refuses once more than `max_tx` are held; every other function of both directions keeps the length or shrinks it
    (`Lemmas/TxCount.lean`, `TxCountOut.lean`: the frame families `KeepLen` / `GrowB`). -/
theorem C10_history_maxtx (cfg : Cfg) (hm : 0 < cfg.maxTx) (calls pre : List Call) (hp : pre <+: calls) :
    (runCalls cfg {} pre).txs.length ≤ cfg.maxTx + 1 :=
  history_txs_bounded_fresh_prefix cfg hm calls pre hp

/-- non-vacuity: with max_tx = 2 four pipelined requests in one chunk leave exactly 3 slots (the fourth creation is refused) -/
example :
    let four := (b!"GET / HTTP/1.1\r\nHost: h\r\n\r\nGET / HTTP/1.1\r\nHost: h\r\n\r\nGET / HTTP/1.1\r\nHost: h\r\n\r\nGET / HTTP/1.1\r\nHost: h\r\n\r\n")
    (runCalls { maxTx := 2 } {} [.open, .req four]).txs.length = 3 := by decide

/-- **C10 (the repetition budget over whole call histories)**: after ANY history of calls on a freshly created connection parser, for every
    transaction it holds, the two header-repetition counters are at most HTP_MAX_HEADERS_REPETITIONS - the only writers are the two header
    insertion functions, through `addHeader`, which `C10_repetitions_capped` bounds; every other function of both directions leaves the
    counters alone (`Lemmas/RepInv.lean`, `RepInvOut.lean`). So the number of merges a repeated field can accumulate in one transaction is
    bounded for every stream, chunking and interleaving. -/
theorem C10_history_repetitions_capped (cfg : Cfg) (calls : List Call) (t : Tx) (ht : some t ∈ (runCalls cfg {} calls).txs) :
    t.reqHeaderRepetitions ≤ MAX_HEADERS_REPETITIONS ∧ t.resHeaderRepetitions ≤ MAX_HEADERS_REPETITIONS :=
  history_repetitions_capped_fresh cfg calls t ht

/-- **C10 (the constants are the reviewed ones)**: every constant the translator reads from the current source - among them the limits (field limits, repetition and folding caps, list sizes) -
    equals its reviewed snapshot (lean/HtpModel/Pinned); the model follows a regenerated constant, so this is what notices a changed one -/
theorem C10_constants_pinned : Htp.Pinned.ConstantsPinned := Htp.Pinned.constants_pinned

end Htp.C10
