/- C11 — framing and host ambiguities are always flagged. Decision logic stated outright (pattern P4) on the header table:
   `requestFraming` and `requestHost` are the T-E / C-L / Host arbitration of htp_tx_process_request_headers as pure functions,
   `addHeader` is the repeated-header bookkeeping, `parseRequestHeader` the header-line parser. -/
import HtpModel.Conn.Res
import HtpModel.Lemmas.Flags
import HtpModel.Lemmas.Conn
import HtpModel.Pinned.Eq
import HtpModel.Lemmas.FlagsMonoOut

namespace Htp.C11
open Htp.Conn Htp.Gen Htp.Parse

private theorem smug_ne : REQUEST_SMUGGLING ≠ 0 := by decide
private theorem inv_te_ne : REQUEST_INVALID_T_E ≠ 0 := by decide
private theorem inv_ne : REQUEST_INVALID ≠ 0 := by decide
private theorem inv_cl_ne : REQUEST_INVALID_C_L ≠ 0 := by decide

/-- **C11 (T-E chunked + C-L)**: whenever a Transfer-Encoding field containing the token `chunked` and a Content-Length field are
    both present — any spelling/case of the names, any order, any other headers, any protocol, any prior flags — the request is
    marked as smuggling and the body is framed by the chunked coding. -/
theorem C11_te_and_cl (hs : List Header) (pn : Int) (f : Nat) (te cl : Header)
    (hte : getHeaderC hs (b!"transfer-encoding") = some te) (hcl : getHeaderC hs (b!"content-length") = some cl)
    (hch : headerHasToken te.value (b!"chunked") = true) :
    hasFlag (requestFraming hs pn f).flags REQUEST_SMUGGLING = true ∧ (requestFraming hs pn f).coding = CODING_CHUNKED := by
  unfold requestFraming
  simp only [hte, hcl, hch, Bool.not_true, Bool.false_eq_true, if_false, Option.isSome_some, if_true]
  exact ⟨hasFlag_or_right _ _ smug_ne, trivial⟩

/-- **C11 (chunked below HTTP/1.1)**: chunked coding with a protocol number below 1.1 (this includes unparseable protocols) is marked
    as smuggling and as an invalid T-E, and the chunked coding is still what frames the body. -/
theorem C11_chunked_below_11 (hs : List Header) (pn : Int) (f : Nat) (te : Header)
    (hte : getHeaderC hs (b!"transfer-encoding") = some te) (hch : headerHasToken te.value (b!"chunked") = true)
    (hpn : pn < PROTOCOL_1_1) :
    hasFlag (requestFraming hs pn f).flags REQUEST_SMUGGLING = true ∧
    hasFlag (requestFraming hs pn f).flags REQUEST_INVALID_T_E = true ∧
    (requestFraming hs pn f).coding = CODING_CHUNKED := by
  unfold requestFraming
  simp only [hte, hch, Bool.not_true, Bool.false_eq_true, if_false, hpn, if_true]
  refine ⟨?_, ?_, trivial⟩
  · split
    · exact hasFlag_or_right _ _ smug_ne
    · exact hasFlag_or_right _ _ smug_ne
  · split
    · exact hasFlag_or_left _ _ _ (hasFlag_or_left _ _ _ (hasFlag_or_right _ _ inv_te_ne))
    · exact hasFlag_or_left _ _ _ (hasFlag_or_right _ _ inv_te_ne)

/-- **C11 (unsupported T-E)**: a Transfer-Encoding without the token `chunked` marks the request invalid (INVALID_T_E and
    REQUEST_INVALID) and the coding is INVALID — whatever Content-Length says. -/
theorem C11_te_unsupported (hs : List Header) (pn : Int) (f : Nat) (te : Header)
    (hte : getHeaderC hs (b!"transfer-encoding") = some te) (hch : headerHasToken te.value (b!"chunked") = false) :
    hasFlag (requestFraming hs pn f).flags REQUEST_INVALID_T_E = true ∧
    hasFlag (requestFraming hs pn f).flags REQUEST_INVALID = true ∧
    (requestFraming hs pn f).coding = CODING_INVALID := by
  unfold requestFraming
  simp only [hte, hch, Bool.not_false, if_true]
  exact ⟨hasFlag_or_left _ _ _ (hasFlag_or_right _ _ inv_te_ne), hasFlag_or_right _ _ inv_ne, trivial⟩

/-- **C11 (repeated C-L)**: a Content-Length entry that carries the repeated-field mark makes the request a smuggling attempt. -/
theorem C11_cl_repeated (hs : List Header) (pn : Int) (f : Nat) (cl : Header)
    (hte : getHeaderC hs (b!"transfer-encoding") = none) (hcl : getHeaderC hs (b!"content-length") = some cl)
    (hrep : hasFlag cl.flags FIELD_REPEATED = true) :
    hasFlag (requestFraming hs pn f).flags REQUEST_SMUGGLING = true := by
  unfold requestFraming
  simp only [hte, hcl, hrep, if_true]
  split
  · exact hasFlag_or_left _ _ _ (hasFlag_or_left _ _ _ (hasFlag_or_right _ _ smug_ne))
  · exact hasFlag_or_right _ _ smug_ne

/-- …and the second occurrence of a field name always gets that mark, whatever the letter case of either occurrence and whatever
    else is in the table: after `addHeader`, the first entry matching the new name case-insensitively is marked REPEATED
    (unless the per-transaction repetition budget is already exhausted, in which case it was marked before). -/
theorem C11_second_occurrence_marked (hs : List Header) (reps : Nat) (h : Header) (i : Nat)
    (hi : hs.findIdx? (fun e => Bstr.cmpMemNocase e.name h.name == 0) = some i) :
    hasFlag (((addHeader hs reps h).1.getD i default).flags) FIELD_REPEATED = true := by
  have hlt : i < hs.length := by
    have := List.findIdx?_eq_some_iff_getElem.mp hi
    exact this.1
  unfold addHeader
  simp only [hi]
  split
  · rename_i hc
    simp only [Bool.and_eq_true] at hc
    exact hc.1
  · have hne : FIELD_REPEATED ≠ 0 := by decide
    split <;> simp [List.getD_eq_getElem?_getD, List.getElem?_set_self hlt, setFlag] <;> exact hasFlag_or_right _ _ hne

/-- **C11 (unparseable C-L)**: a Content-Length whose value does not parse (and no T-E) marks the request invalid. -/
theorem C11_cl_unparseable (hs : List Header) (pn : Int) (f : Nat) (cl : Header)
    (hte : getHeaderC hs (b!"transfer-encoding") = none) (hcl : getHeaderC hs (b!"content-length") = some cl)
    (hbad : Num.parseContentLength cl.value < 0) :
    hasFlag (requestFraming hs pn f).flags REQUEST_INVALID_C_L = true ∧
    hasFlag (requestFraming hs pn f).flags REQUEST_INVALID = true ∧
    (requestFraming hs pn f).coding = CODING_INVALID := by
  unfold requestFraming
  simp only [hte, hcl, hbad, if_true]
  exact ⟨hasFlag_or_left _ _ _ (hasFlag_or_right _ _ inv_cl_ne), hasFlag_or_right _ _ inv_ne, trivial⟩

/-- **C11 (Host missing on HTTP/1.1)** -/
theorem C11_host_missing (hs : List Header) (uh : Option Bytes) (up : Int) (pn : Int) (f : Nat)
    (hh : getHeaderC hs (b!"host") = none) (hpn : pn ≥ PROTOCOL_1_1) :
    hasFlag (requestHost hs uh up pn f).2.2 HOST_MISSING = true := by
  unfold requestHost
  simp only [hh, hpn, if_true]
  exact hasFlag_or_right _ _ (by decide)

/-- **C11 (host ambiguity)**: a Host field whose host differs (case-insensitively) from the host in the request target sets
    HOST_AMBIGUOUS, and so does a Host field that is syntactically unusable while the target names a host. -/
theorem C11_host_ambiguous (hs : List Header) (uh : Bytes) (up : Int) (pn : Int) (f : Nat) (h : Header)
    (hh : getHeaderC hs (b!"host") = some h)
    (hdiff : match (Uri.parseHostport h.value).hostname with
             | some hn => Bstr.cmpMemNocase hn uh ≠ 0
             | none => True) :
    hasFlag (requestHost hs (some uh) up pn f).2.2 HOST_AMBIGUOUS = true := by
  unfold requestHost
  simp only [hh]
  cases hhn : (Uri.parseHostport h.value).hostname with
  | none =>
    simp only []
    exact hasFlag_or_right _ _ (by decide)
  | some hn =>
    simp only [hhn] at hdiff
    simp only []
    have hd : (Bstr.cmpMemNocase hn uh != 0) = true := by simpa using hdiff
    simp only [hd, if_true]
    split
    · exact hasFlag_or_right _ _ (by decide)
    · exact hasFlag_or_right _ _ (by decide)

/-- **C11 (port ambiguity)**: when the target and the Host field both carry a port and the two differ, HOST_AMBIGUOUS is set
    (whatever the host names are). -/
theorem C11_host_port_ambiguous (hs : List Header) (uh : Bytes) (up : Int) (pn : Int) (f : Nat) (h : Header) (hn : Bytes)
    (hh : getHeaderC hs (b!"host") = some h) (hhn : (Uri.parseHostport h.value).hostname = some hn)
    (h1 : up ≠ -1) (h2 : (Uri.parseHostport h.value).portNumber ≠ -1) (h3 : up ≠ (Uri.parseHostport h.value).portNumber) :
    hasFlag (requestHost hs (some uh) up pn f).2.2 HOST_AMBIGUOUS = true := by
  unfold requestHost
  simp only [hh, hhn]
  have hd : (up != -1 && (Uri.parseHostport h.value).portNumber != -1 && up != (Uri.parseHostport h.value).portNumber) = true := by
    simp [h1, h2, h3]
  simp only [hd, if_true]
  exact hasFlag_or_right _ _ (by decide)

/-- **C11 (invalid Host syntax)**: a Host field that the authority parser rejects, or whose host part fails hostname validation,
    sets HOSTH_INVALID. -/
theorem C11_host_invalid (hs : List Header) (uh : Option Bytes) (up : Int) (pn : Int) (f : Nat) (h : Header)
    (hh : getHeaderC hs (b!"host") = some h)
    (hbad : (Uri.parseHostport h.value).invalid = true ∨
            ∃ hn, (Uri.parseHostport h.value).hostname = some hn ∧ Uri.validateHostname Uri.ipv6Valid hn = false) :
    hasFlag (requestHost hs uh up pn f).2.2 HOSTH_INVALID = true := by
  have hne : HOSTH_INVALID ≠ 0 := by decide
  have hamb : hasFlag HOST_AMBIGUOUS HOSTH_INVALID = false := by decide
  -- the invalid-host mark is raised before the comparison with the target; later steps only add other bits
  have key : ∀ g : Nat, hasFlag g HOSTH_INVALID = true →
      hasFlag (match (Uri.parseHostport h.value).hostname with
        | some hn =>
          (match uh with
           | none => (some hn, (Uri.parseHostport h.value).portNumber, g)
           | some uh' =>
             (some uh', up,
               (if up != -1 && (Uri.parseHostport h.value).portNumber != -1 && up != (Uri.parseHostport h.value).portNumber
                then (if Bstr.cmpMemNocase hn uh' != 0 then g ||| HOST_AMBIGUOUS else g) ||| HOST_AMBIGUOUS
                else (if Bstr.cmpMemNocase hn uh' != 0 then g ||| HOST_AMBIGUOUS else g))))
        | none => (uh, up, if uh.isSome then g ||| HOST_AMBIGUOUS else g) : Option Bytes × Int × Nat).2.2 HOSTH_INVALID = true := by
    intro g hg
    cases (Uri.parseHostport h.value).hostname with
    | none => simp only []; split <;> first | exact hasFlag_or_left _ _ _ hg | exact hg
    | some hn =>
      cases uh with
      | none => exact hg
      | some uh' =>
        simp only []
        split <;> split <;> first
          | exact hasFlag_or_left _ _ _ (hasFlag_or_left _ _ _ hg)
          | exact hasFlag_or_left _ _ _ hg
          | exact hg
  unfold requestHost
  simp only [hh]
  apply key
  rcases hbad with hinv | ⟨hn, hhn, hval⟩
  · simp only [hinv, if_true]
    cases (Uri.parseHostport h.value).hostname with
    | none => exact hasFlag_or_right _ _ hne
    | some hn => simp only []; split <;> first | exact hasFlag_or_right _ _ hne | exact hasFlag_or_left _ _ _ (hasFlag_or_right _ _ hne)
  · simp only [hhn, hval, Bool.false_eq_true, if_false]
    exact hasFlag_or_right _ _ hne

/-- **C11 (finding S4: folded Content-Length is never flagged)**: the arbitration tests FIELD_FOLDED on the C-L entry, but no code
    path ever sets that bit: the header-line parser never produces it (for ANY line) … -/
theorem C11_folded_never_set_by_parser (data : Bytes) :
    hasFlag (parseRequestHeader data).1.flags FIELD_FOLDED = false := by
  unfold parseRequestHeader
  simp only
  have h0 : hasFlag 0 FIELD_FOLDED = false := by decide
  have h1 : hasFlag FIELD_UNPARSEABLE FIELD_FOLDED = false := by decide
  have h2 : hasFlag FIELD_INVALID FIELD_FOLDED = false := by decide
  split
  · exact h1
  · simp only [setFlag]
    repeat' split
    all_goals first
      | exact h0 | exact h2
      | exact hasFlag_or_false _ _ _ h0 h2 | exact hasFlag_or_false _ _ _ h2 h2
      | exact hasFlag_or_false _ _ _ (hasFlag_or_false _ _ _ h0 h2) h2
      | exact hasFlag_or_false _ _ _ (hasFlag_or_false _ _ _ h2 h2) h2

/-- … and the table update never adds it to an entry that does not have it. Hence a request whose only anomaly is a folded
    Content-Length gets no REQUEST_SMUGGLING mark (witness below). -/
theorem C11_folded_cl_counterexample :
    let line := (b!"Content-Length: 5") ++ [13, 10] ++ (b!" ")   -- "Content-Length: 5" CRLF SP (a folded, continued value)
    let h := (parseRequestHeader line).1
    hasFlag (requestFraming (addHeader [] 0 h).1 PROTOCOL_1_1 0).flags REQUEST_SMUGGLING = false := by
  decide

/-- non-vacuity of the hypotheses used above: a concrete table with `Transfer-Encoding: gzip, Chunked ` and `content-length: 3`. -/
example :
    let hs : List Header := [{ name := (b!"Transfer-Encoding"), value := (b!"gzip, Chunked ") }, { name := (b!"content-length"), value := (b!"3") }]
    (getHeaderC hs (b!"transfer-encoding")).isSome = true ∧ (getHeaderC hs (b!"content-length")).isSome = true ∧
    headerHasToken (b!"gzip, Chunked ") (b!"chunked") = true ∧
    hasFlag (requestFraming hs PROTOCOL_1_1 0).flags REQUEST_SMUGGLING = true := by decide

/-! ### the response side (htp_connp_RES_BODY_DETERMINE, `resFraming`) -/

/-- **C11 (responses: T-E chunked + C-L)**: a response whose Transfer-Encoding mentions `chunked` anywhere in its value (any case,
    NUL bytes skipped, other codings before or after it) and that also has a Content-Length is marked as smuggling and its body is
    framed by the chunked coding. -/
theorem C11_res_te_and_cl (c : Conn) (uid : Nat) (t : Tx) (te cl : Header) (ct : Option Header)
    (hf : c.findTx uid = some t) (hch : teHasChunked te.value = true) :
    (resFraming (some te) (some cl) ct uid c).2 = .ok ∧
    (resFraming (some te) (some cl) ct uid c).1.outState = .bodyChunkedLength ∧
    ∃ t', (resFraming (some te) (some cl) ct uid c).1.findTx uid = some t' ∧
      hasFlag t'.flags REQUEST_SMUGGLING = true ∧ t'.resTransferCoding = CODING_CHUNKED := by
  have key : resFraming (some te) (some cl) ct uid c =
      ({ c.modTx uid (fun t => { t with resTransferCoding := CODING_CHUNKED, resProgress := 3,
                                        flags := t.flags ||| REQUEST_SMUGGLING }) with outState := .bodyChunkedLength }, .ok) := by
    unfold resFraming
    simp [hch]
  rw [key]
  refine ⟨rfl, rfl, ?_⟩
  rw [findTx_outState, findTx_modTx _ _ _ (by intro x; rfl), hf]
  exact ⟨_, rfl, hasFlag_or_right _ _ smug_ne, rfl⟩

/-- transaction `uid` exists and carries the smuggling indicator -/
def HasSmug (c : Conn) (uid : Nat) : Prop := ∃ t', c.findTx uid = some t' ∧ hasFlag t'.flags REQUEST_SMUGGLING = true

theorem hasSmug_txs {c : Conn} {uid : Nat} (h : HasSmug c uid) (c' : Conn) (e : c'.txs = c.txs) : HasSmug c' uid := by
  obtain ⟨t', h1, h2⟩ := h
  refine ⟨t', ?_, h2⟩
  unfold Conn.findTx at *
  rw [e]; exact h1

theorem hasSmug_modTx {c : Conn} {uid : Nat} (h : HasSmug c uid) (f : Tx → Tx) (hu : ∀ x, (f x).uid = x.uid)
    (hfl : ∀ x, hasFlag x.flags REQUEST_SMUGGLING = true → hasFlag (f x).flags REQUEST_SMUGGLING = true) :
    HasSmug (c.modTx uid f) uid := by
  obtain ⟨t', h1, h2⟩ := h
  exact ⟨f t', by rw [findTx_modTx _ _ _ hu, h1]; rfl, hfl _ h2⟩

/-- **C11 (responses: repeated C-L)**: a response without chunked coding whose Content-Length occurred more than once is marked as
    smuggling, whatever the value is (including an unparseable one, where the call then fails). -/
theorem C11_res_cl_repeated (c : Conn) (uid : Nat) (t : Tx) (cl : Header) (te ct : Option Header)
    (hf : c.findTx uid = some t) (hte : ∀ h, te = some h → teHasChunked h.value = false)
    (hrep : hasFlag cl.flags FIELD_REPEATED = true) :
    HasSmug (resFraming te (some cl) ct uid c).1 uid := by
  have key : resFraming te (some cl) ct uid c = resCl (some cl) ct uid c := by
    unfold resFraming
    cases te with
    | none => rfl
    | some h => simp [hte h rfl]
  rw [key]
  have h1 : HasSmug (c.modTx uid (fun t => { t with resTransferCoding := CODING_IDENTITY, flags := t.flags ||| REQUEST_SMUGGLING })) uid :=
    ⟨_, by rw [findTx_modTx _ _ _ (by intro x; rfl), hf]; rfl, hasFlag_or_right _ _ smug_ne⟩
  have h2 := hasSmug_modTx h1 (fun t => { t with resContentLength := Num.parseContentLength cl.value }) (by intro x; rfl) (by intro x h; exact h)
  unfold resCl
  simp only [hrep, if_true]
  split
  · exact h2
  · split
    · exact hasSmug_modTx (hasSmug_txs h2 _ rfl) _ (by intro x; rfl) (by intro x h; exact h)
    · exact hasSmug_txs h2 _ rfl

/-- **C11 (the constants are the reviewed ones)**: every constant the translator reads from the current source - among them the indicator flag values -
    equals its reviewed snapshot (lean/HtpModel/Pinned); the model follows a regenerated constant, so this is what notices a changed one -/
theorem C11_constants_pinned : Htp.Pinned.ConstantsPinned := Htp.Pinned.constants_pinned

/-- **C11 (an indicator, once raised, stays raised: over whole histories)**: "always flagged" is a statement about every later view of the
    transaction - the callbacks that run afterwards and the final record. For a connection parser from its creation (any configuration, any
    callback policy table), every history of calls (request and response chunks in any interleaving, gaps, close, req_close, open, tx_freed)
    and every prefix of it: a transaction that exists after the prefix and still exists after the whole history has, afterwards, every
    indicator bit it had before - no function of either direction clears a bit (every write of `flags` is `flags ||| X` or the result of a
    parser function whose returned word contains the word it was given: `requestFraming_flags_mono`, `requestHost_flags_mono`, the URI
    normaliser, the decoders, the urlencoded parser; uids are never reused, `uid_not_reused`; `Lemmas/FlagsMono.lean`, `FlagsMonoOut.lean`).
    Together with the decision theorems above (WHEN a bit is raised) this is the model-level content of "always flagged". -/
theorem C11_history_flags_never_cleared (cfg : Cfg) (policy : List (Nat × CbAction)) (calls pre : List Call) (hp : pre <+: calls)
    (u : Nat) (t t' : Tx) (bit : Nat)
    (h1 : (runCalls cfg { policy := policy } pre).findTx u = some t) (hb : hasFlag t.flags bit = true)
    (h2 : (runCalls cfg { policy := policy } calls).findTx u = some t') : hasFlag t'.flags bit = true :=
  history_flag_sticky cfg _ (hyg_of_empty rfl) calls pre hp bit h1 hb h2

end Htp.C11
