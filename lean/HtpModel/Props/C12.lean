/- C12 — path decoding and normalisation match the documented semantics. -/
import HtpModel.Util.Decode

namespace Htp.C12
open Htp.Decode Htp.Gen

/-- **C12 (finding S5)**: a raw NUL byte in the path does not raise HTP_PATH_RAW_NUL — the path decoder
    only touches the expected status. Witness "/a\0b" under the default configuration. -/
theorem C12_raw_nul_counterexample :
    hasFlag (decodePath {} [0x2f, 0x61, 0x00, 0x62] 0 0).2.1 PATH_RAW_NUL = false := by decide

end Htp.C12
