/- C12 — path decoding and normalisation match the documented semantics. -/
import HtpModel.Lemmas.Normalize
import HtpModel.Pinned.Eq
import HtpModel.Lemmas.CFunsNormalize
import HtpModel.Lemmas.CFunsUtf8

namespace Htp.C12
open Htp.Decode Htp.Gen

/-- **C12 (finding S5)**: a raw NUL byte in the path does not raise HTP_PATH_RAW_NUL — the path decoder
    only touches the expected status. Witness "/a\0b" under the default configuration. -/
theorem C12_raw_nul_counterexample :
    hasFlag (decodePath {} [0x2f, 0x61, 0x00, 0x62] 0 0).2.1 PATH_RAW_NUL = false := by decide

/-- **C12 (never longer)**: for every raw path and every decoder configuration the normalised path - percent/%u decoding, the
    UTF-8 stage (validation or best-fit conversion) and dot-segment removal - is never longer than the raw path. -/
theorem C12_never_longer (cfg : Gen.DecoderCfg) (path : Bytes) (flags : Nat) (status : Int) :
    (pipeline cfg path flags status).1.length ≤ path.length := pipeline_len cfg path flags status

/-- **C12 (stage bounds)**: each stage on its own is length-non-increasing (the generic decoder is the one applied to
    parameters, user info and fragments). -/
theorem C12_stage_bounds (cfg : Gen.DecoderCfg) (input : Bytes) (flags : Nat) (status : Int) :
    (decodePath cfg input flags status).1.length ≤ input.length ∧
    (urldecodeEx cfg input flags status).1.length ≤ input.length ∧
    (utf8DecodePath cfg input flags status).1.length ≤ input.length ∧
    (normalizePath input).length ≤ input.length :=
  ⟨decodePath_len .., urldecodeEx_len .., utf8DecodePath_len .., normalizePath_len _⟩

/-- **C12 (no dot segments)**: for every raw path and every decoder configuration, no segment of the normalised path (the pieces
    between slashes) is "." or "..". -/
theorem C12_no_dot_segments (cfg : Gen.DecoderCfg) (path : Bytes) (flags : Nat) (status : Int) :
    DotFree (pipeline cfg path flags status).1 := by
  unfold pipeline
  simp only
  split <;> exact normalizePath_dotFree _

/-- the dot-segment remover alone, and what "segment" means: `segs` splits on '/' -/
theorem C12_normalize_no_dot_segments (input : Bytes) : ∀ s ∈ segs (normalizePath input), s ≠ [0x2e] ∧ s ≠ [0x2e, 0x2e] := by
  intro s hs
  have := normalizePath_dotFree input s hs
  unfold isDotSeg at this
  simp only [Bool.or_eq_false_iff, beq_eq_false_iff_ne, ne_eq] at this
  exact this

example : normalizePath (b!"/a/./b/../c/.") = (b!"/a/c") ∧ segs (b!"/a/c") = [[], (b!"a"), (b!"c")] := by decide

/-- **C12 (unchanged by normalising again)**: dot-segment removal leaves a path without "." / ".." segments exactly as it is, so
    removing dot segments twice is the same as once - for every input - and the pipeline's result is a fixed point of the remover
    for every raw path and every decoder configuration. (The decoding stages are not idempotent and the property does not ask for
    that: "%2541" decodes to "%41", which decodes to "A".) -/
theorem C12_dot_free_fixed (p : Bytes) (h : DotFree p) : normalizePath p = p := normalizePath_of_dotFree p h

theorem C12_dot_removal_idempotent (p : Bytes) : normalizePath (normalizePath p) = normalizePath p := normalizePath_idem p

theorem C12_pipeline_fixed_point (cfg : Gen.DecoderCfg) (path : Bytes) (flags : Nat) (status : Int) :
    normalizePath (pipeline cfg path flags status).1 = (pipeline cfg path flags status).1 :=
  normalizePath_of_dotFree _ (C12_no_dot_segments cfg path flags status)

example : normalizePath (b!"/a/../../b/./c/..") = (b!"/b") ∧ normalizePath (b!"/b") = (b!"/b") := by decide

/-- the hex-digit arithmetic of `x2c` (htp_util.c): `(c >= 'A' ? ((c & 0xdf) - 'A') + 10 : (c - '0'))`, in unsigned char -/
def x2cDigit (b : UInt8) : UInt8 := if b ≥ 0x41 then ((b &&& 0xdf) - 0x41) + 10 else b - 0x30

/-- **C12 (the escape table is the documented arithmetic)**: the two x2c tables the translator regenerates from the current source on every
    run are, for all 256 bytes - valid hex digits or not, which matters under HTP_URL_DECODE_PROCESS_INVALID - exactly
    `digit(a) * 16 + digit(b)`. A change to `x2c` that keeps valid escapes intact but moves any other byte breaks this by kernel evaluation. -/
theorem C12_x2c_table : ∀ b : UInt8, Htp.Gen.x2cLo b = x2cDigit b ∧ Htp.Gen.x2cHi b = x2cDigit b * 16 := by
  apply forall_uint8_of_lt
  decide +kernel

example : Htp.Gen.x2cHi 0x34 + Htp.Gen.x2cLo 0x31 = 0x41 ∧ Htp.Gen.x2cSeparable = true := by decide

/-- **C12 (the decoder tables are the reviewed ones)**: the UTF-8 automata, the best-fit map, the x2c tables and the decoder settings of all
    nine personalities, regenerated from the current source on every run, equal their reviewed snapshot (lean/HtpModel/Pinned, taken
    with tools/pin_tables.py). The model follows a regenerated table, so without this a changed table entry would be invisible to the
    correspondence; with it the change breaks this theorem by name. -/
theorem C12_decoder_tables_pinned : Htp.Pinned.DecoderTablesPinned := Htp.Pinned.decoderTables_pinned

/-- **C12 (the dot-segment remover, the code itself)**: htp_normalize_uri_path_inplace, translated from the current source (Gen/CFuns.lean:
    one shared array read at `rpos` and written at `wpos`, the pending character `c`, the two copies of "remove the last segment"), run on
    ANY path below 2^63 bytes, returns, leaves the buffer length unchanged, and the first `len` bytes of the buffer are exactly the model's
    `normalizePath` - within 2 * len + 2 turns of the main loop, every read and every write inside the buffer. The representation
    invariant of the proof (`Lemmas/CFunsNormalize.lean`) is `wpos + pending <= rpos <= len`: the write cursor never overtakes the read
    cursor, which is why rewriting in place is safe. -/
theorem C12_translated_normalize (d : Bytes) (h1 : d.length < 9223372036854775808) (fuel : Nat) (hf : 2 * d.length + 2 < fuel) :
    ∃ s', Htp.Gen.C.htp_normalize_uri_path_inplace fuel (Htp.CSem.memOf d) d.length = some (0, s') ∧
          s'.s__mem.length = d.length ∧
          s'.s__mem.take s'.s__len.toNat = Htp.CSem.memOf (normalizePath d) ∧ 0 ≤ s'.s__len ∧ s'.s__len ≤ d.length :=
  Htp.CFuns.htp_normalize_uri_path_inplace_eq d h1 fuel hf

/-- ... hence what the C function leaves in the buffer has no "." and no ".." segment (`C12_normalize_no_dot_segments` about the model,
    carried over to the translated code), for every path -/
theorem C12_translated_normalize_no_dot_segments (d : Bytes) (h1 : d.length < 9223372036854775808) :
    ∃ out : Bytes, (Htp.Gen.C.htp_normalize_uri_path_inplace (2 * d.length + 3) (Htp.CSem.memOf d) d.length).map
        (fun r => r.2.s__mem.take r.2.s__len.toNat) = some (Htp.CSem.memOf out) ∧
      ∀ s ∈ segs out, s ≠ [0x2e] ∧ s ≠ [0x2e, 0x2e] := by
  refine ⟨normalizePath d, ?_, C12_normalize_no_dot_segments d⟩
  have h := Htp.CFuns.htp_normalize_uri_path_inplace_bytes d h1 (2 * d.length + 3) (by omega)
  obtain ⟨r, hr, he⟩ := Option.map_eq_some_iff.mp h
  rw [hr]
  exact congrArg some (congrArg Prod.snd he)

example : (Htp.Gen.C.htp_normalize_uri_path_inplace 20 (Htp.CSem.memOf (b!"/a/../b")) 7).map
    (fun r => r.2.s__mem.take r.2.s__len.toNat) = some (Htp.CSem.memOf (b!"/b")) := by decide +kernel

/-- **C12 (one step of the UTF-8 automaton, the code itself)**: htp_utf8_decode_allow_overlong translated from the current source - two reads
    of the file-scope tables (tabulated and pinned by `C12_decoder_tables_pinned`), the bit operations, the 32-bit wraps - returns the model's
    `utf8Dfa` for every byte, every automaton state 0..8 and every code point; the new state is again in 0..8, so both table reads stay inside
    the 400-entry tables along any byte sequence. The bound is exact: with state 9 the second read is outside the table
    (`utf8_step_state9_undefined`). -/
theorem C12_translated_utf8_step (fuel state codep : Nat) (byte : UInt8) (hs : state ≤ 8) :
    (Htp.Gen.C.htp_utf8_decode_allow_overlong fuel state codep byte.toNat).map (fun r => (r.1, r.2.state, r.2.codep))
      = some (((utf8Dfa state codep byte).1 : Int), ((utf8Dfa state codep byte).1 : Int), ((utf8Dfa state codep byte).2 : Int)) ∧
    (utf8Dfa state codep byte).1 ≤ 8 := by
  refine ⟨?_, Htp.CFuns.utf8_step_state_le state codep byte hs⟩
  rw [Htp.CFuns.utf8_step_eq_any_codep fuel state codep byte hs]; rfl

end Htp.C12
