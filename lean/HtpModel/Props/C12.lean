/- C12 — path decoding and normalisation match the documented semantics. -/
import HtpModel.Lemmas.Decode

namespace Htp.C12
open Htp.Decode Htp.Gen

/-- **C12 (finding S5)**: a raw NUL byte in the path does not raise HTP_PATH_RAW_NUL — the path decoder
    only touches the expected status. Witness "/a\0b" under the default configuration. -/
theorem C12_raw_nul_counterexample :
    hasFlag (decodePath {} [0x2f, 0x61, 0x00, 0x62] 0 0).2.1 PATH_RAW_NUL = false := by decide

/-- **C12 (never longer)**: for every raw path and every decoder configuration the normalised path - percent/%u decoding, the
    UTF-8 stage (validation or best-fit conversion) and dot-segment removal - is never longer than the raw path. -/
theorem C12_never_longer (cfg : Gen.DecoderCfg) (path : Bytes) (flags : Nat) (status : Int) :
    (pipeline cfg path flags status).1.length ≤ path.length := pipeline_len cfg path flags status

/-- **C12 (stage bounds)**: each stage on its own is length-non-increasing (the generic decoder is the one applied to
    parameters, user info and fragments). -/
theorem C12_stage_bounds (cfg : Gen.DecoderCfg) (input : Bytes) (flags : Nat) (status : Int) :
    (decodePath cfg input flags status).1.length ≤ input.length ∧
    (urldecodeEx cfg input flags status).1.length ≤ input.length ∧
    (utf8DecodePath cfg input flags status).1.length ≤ input.length ∧
    (normalizePath input).length ≤ input.length :=
  ⟨decodePath_len .., urldecodeEx_len .., utf8DecodePath_len .., normalizePath_len _⟩

end Htp.C12
