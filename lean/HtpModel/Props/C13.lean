/- C13 — URI splitting partitions the request target without inventing bytes.
   Property theorems only; helper lemmas are in HtpModel/Lemmas/Uri.lean. -/
import HtpModel.Lemmas.Uri
import HtpModel.Prim.Num

namespace Htp.C13
open Htp.Uri

/-- the authority text the splitter isolates from a target (none if it finds no authority) -/
def authorityOf (s : Bytes) : Option Bytes :=
  let data := stripTrailingSpaces s
  let (scheme, rest) := splitScheme data
  (splitAuthority scheme rest).1

/-- decidable guard that excludes finding S6: in the authority, after a bracketed literal only
    ":port" (or nothing) follows -/
def noBracketJunk (s : Bytes) : Bool :=
  match authorityOf s with
  | some a => noJunkAfterBracket (hostPartOf a)
  | none => true

/- FULL STATEMENT (C13): `∀ s, rejoin (parseUri s) = stripTrailingSpaces s`.
   It is FALSE of the current code (finding S6): see `C13_rejoin_counterexample`. What is proved is the
   statement under the guard the proof forces, `noBracketJunk`. -/

/-- **C13 (re-join, partial)**: components re-joined with their delimiters reproduce the target minus
    trailing spaces — for every target in which no bytes sit between `]` and the port colon. -/
theorem C13_rejoin_partial (s : Bytes) (h : noBracketJunk s = true) :
    rejoin (parseUri s) = stripTrailingSpaces s := by
  unfold parseUri
  simp only
  by_cases h0 : (stripTrailingSpaces s).length = 0
  · simp only [h0, if_true]
    have : stripTrailingSpaces s = [] := List.eq_nil_of_length_eq_zero h0
    rw [this]; rfl
  · simp only [h0, if_false]
    have hs := scheme_join (stripTrailingSpaces s)
    have ha := authority_split_join (splitScheme (stripTrailingSpaces s)).1 (splitScheme (stripTrailingSpaces s)).2
    have ht := tail_join (splitAuthority (splitScheme (stripTrailingSpaces s)).1 (splitScheme (stripTrailingSpaces s)).2).2
    unfold noBracketJunk authorityOf at h
    simp only at h
    generalize hsch : splitScheme (stripTrailingSpaces s) = sc at *
    obtain ⟨scheme, rest⟩ := sc
    simp only at hs ha ht h ⊢
    generalize hau : splitAuthority scheme rest = au at *
    obtain ⟨auth, rest2⟩ := au
    simp only at ha ht h ⊢
    have key : schemePart scheme ++ (authPart auth ++ rejoinTail (parseTail rest2)) =
        stripTrailingSpaces s := by rw [ht, ha, hs]
    rw [← key]
    unfold rejoin rejoinTail schemePart authPart
    cases auth with
    | none =>
      cases scheme <;> cases (parseTail rest2).query <;> cases (parseTail rest2).fragment <;> simp
    | some a =>
      simp only at h
      have hj := authority_join a h
      unfold rejoinAuth at hj
      have hhost : (parseAuthority a).hostname.isSome = true := parseAuthority_isSome a
      rcases hA : parseAuthority a with ⟨u, pw, ho, po⟩
      rw [hA] at hj hhost
      simp only at hj hhost ⊢
      cases ho with
      | none => simp at hhost
      | some hostv =>
        cases scheme <;> cases u <;> cases pw <;> cases po <;>
          cases (parseTail rest2).query <;> cases (parseTail rest2).fragment <;>
          simp_all [← hj]

/-- **C13 (finding S6)**: the full re-join identity fails — the bytes `abc` vanish. -/
theorem C13_rejoin_counterexample :
    -- "http://[::1]abc:80/p"
    rejoin (parseUri [104, 116, 116, 112, 58, 47, 47, 91, 58, 58, 49, 93, 97, 98, 99, 58, 56, 48, 47, 112]) ≠ stripTrailingSpaces [104, 116, 116, 112, 58, 47, 47, 91, 58, 58, 49, 93, 97, 98, 99, 58, 56, 48, 47, 112] := by
  decide

/-- **C13 (slash rule)**: a target that starts with '/' is never given a scheme or authority. -/
theorem C13_slash (s : Bytes) (h : (stripTrailingSpaces s).head? = some 0x2f) :
    (parseUri s).scheme = none ∧ (parseUri s).hostname = none ∧ (parseUri s).username = none ∧
    (parseUri s).password = none ∧ (parseUri s).port = none := by
  unfold parseUri
  simp only
  split
  · simp
  · have h1 : splitScheme (stripTrailingSpaces s) = (none, stripTrailingSpaces s) := by
      unfold splitScheme; simp [h]
    rw [h1]
    have h2 : splitAuthority none (stripTrailingSpaces s) = (none, stripTrailingSpaces s) := by
      unfold splitAuthority; simp
    simp [h2]

/-- **C13 (port rule)**: the numeric port is the decimal value of the port text when that is in
    1..65535, and -1/invalid otherwise (`parsePort` is `htp_parse_port`; the same arithmetic is inlined
    in `normalizeParsedUri`). -/
theorem C13_port_range (p : Bytes) :
    ((Num.parsePort p).1 = -1 ∧ (Num.parsePort p).2 = true) ∨
    (1 ≤ (Num.parsePort p).1 ∧ (Num.parsePort p).1 ≤ 65535 ∧ (Num.parsePort p).2 = false ∧
     (Num.parsePort p).1 = Num.parsePositiveIntegerWhitespace p 10) := by
  unfold Num.parsePort
  split
  · left; simp
  · simp only
    split
    · left; simp
    · split
      · right
        rename_i h1 h2
        refine ⟨by omega, by omega, rfl, rfl⟩
      · left; simp

/-- non-vacuity: an ordinary absolute URI with credentials, port, query and fragment meets the guard
    ("http://user:pw@host.com:80/p/a?q=1#f "), so does an IPv6 literal with a port
    ("http://[::1]:8080/x"); the S6 witness does not. -/
example : noBracketJunk [104, 116, 116, 112, 58, 47, 47, 117, 115, 101, 114, 58, 112, 119, 64, 104, 111, 115, 116, 46, 99, 111, 109, 58, 56, 48, 47, 112, 47, 97, 63, 113, 61, 49, 35, 102, 32] = true ∧ noBracketJunk [104, 116, 116, 112, 58, 47, 47, 91, 58, 58, 49, 93, 58, 56, 48, 56, 48, 47, 120] = true ∧ noBracketJunk [104, 116, 116, 112, 58, 47, 47, 91, 58, 58, 49, 93, 97, 98, 99, 58, 56, 48, 47, 112] = false := by decide

/-- "http://user:pw@host.com:80/p/a?q=1#f" splits as expected -/
example : parseUri [104, 116, 116, 112, 58, 47, 47, 117, 115, 101, 114, 58, 112, 119, 64, 104, 111, 115, 116, 46, 99, 111, 109, 58, 56, 48, 47, 112, 47, 97, 63, 113, 61, 49, 35, 102] =
    { scheme := some [104, 116, 116, 112], username := some [117, 115, 101, 114], password := some [112, 119],
      hostname := some [104, 111, 115, 116, 46, 99, 111, 109], port := some [56, 48], path := some [47, 112, 47, 97],
      query := some [113, 61, 49], fragment := some [102] } := by decide

end Htp.C13
