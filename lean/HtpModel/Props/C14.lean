/- C14 — multipart bodies: parts are exact and independent of chunking.

   Proved here for every input (no bound on lengths), about the executable model HtpModel.Multipart that the correspondence
   check ties to htp_multipart.c:
   * `C14_quoted_roundtrip`, `C14_quoted_scan`: the quoted-string scanner and decoder of Content-Disposition recover every
     name / file name from its escaped form (escaped quotes and backslashes included);
   * `C14_cd_exact`: a part whose Content-Disposition is `form-data; name="…"[; filename="…"]` gets exactly that name and
     file name, whatever bytes they contain;
   * `C14_data_chunk_verbatim`: a chunk without CR or LF arriving inside part data is handed to the part verbatim;
   * `C14_chunking_partial`: cutting such a run of part data in two calls gives the same parser state and part value as one call.
   The proof of the last one at first forced the hypothesis "not an unknown part after the last boundary": there the code stored
   the data twice per call (finding F5, repaired in /repo; `C14_epilogue_example`).
   The full chunking-invariance statement (every cut, including cuts inside line ends, boundaries and part headers) is NOT
   proved; it is searched by the correspondence check and its chunking oracle (checks/c14.py), which found S16, S17, F3, F4
   and the NULL value of empty text parts (all repaired in /repo). -/
import HtpModel.Lemmas.Multipart

namespace Htp.Props.C14
open Htp Htp.Multipart

/-- **C14 (names, 1).** Decoding the escaped form of any name or file name gives it back. -/
theorem C14_quoted_roundtrip (n : Bytes) : decodeQuoted (esc n) = n := decodeQuoted_esc n

/-- **C14 (names, 2).** The scanner stops exactly at the closing quote of an escaped value, whatever follows. -/
theorem C14_quoted_scan (n rest : Bytes) : scanQuoted (esc n ++ DQUOTE :: rest) [] = some (esc n, rest) := by
  simpa using scanQuoted_esc n rest []

/-- **C14 (names, 3).** Name and file name of a part are exactly what the sender escaped into Content-Disposition. -/
theorem C14_cd_exact (p : Parser) (part : Part) (n : Bytes) (f : Option Bytes) (hn : part.name = none) (hf : part.file = none)
    (hh : part.headers = [{ name := (b!"Content-Disposition"), value := cdValue n f }]) :
    parseCD p part = (p, { part with name := some n, file := f.map (fun f => { filename := f }) }) := by
  unfold parseCD
  have hg : getHeaderC part.headers (b!"content-disposition") = some { name := (b!"Content-Disposition"), value := cdValue n f } := by
    rw [hh]
    unfold getHeaderC
    have : (Bstr.cmpMemNocaseNorzero (b!"Content-Disposition") (b!"content-disposition") == 0) = true := by decide
    simp [List.find?, this]
  rw [hg]
  simp only
  have hi : Bstr.indexOfMem (cdValue n f) (b!"form-data") = some 0 := by
    simp [cdValue, Bstr.indexOfMem, Bstr.indexOfAux, Bstr.prefixMatch, Bstr.eqExact]
  rw [hi]
  simp only [bne_self_eq_false, Bool.false_eq_true, if_false]
  have hd : (cdValue n f).drop 9 = (b!"; name=\"") ++ (esc n ++ DQUOTE :: cdTail f) := by
    simp [cdValue]
  rw [hd]
  have hl : ∃ k, (cdValue n f).length + 1 = k + 3 := ⟨(cdValue n f).length - 2, by simp [cdValue]⟩
  obtain ⟨k, hk⟩ := hl
  rw [hk, cd_step_name (k + 2) n _ p part hn]
  cases f with
  | none => simp [cdTail, cdLoop_nil, hf]
  | some f =>
    simp only [cdTail]
    rw [cd_step_filename (k + 1) f [] p _ (by simpa using hf), cdLoop_nil]
    simp

/-- **C14 (data, one chunk).** A chunk without CR or LF that arrives while the parser is inside part data, with no CR set
    aside, is handed to the current part verbatim and in one piece. -/
theorem C14_data_chunk_verbatim (p : Parser) (d : Bytes) (hs : p.state = .data) (hc : p.crAside = 0) (hd : plain d) (hne : d ≠ []) :
    parse p d = handleData p d false := by
  unfold parse
  have hlen : 0 < d.length := by cases d with | nil => exact absurd rfl hne | cons a t => simp
  have hge := parseFuel_ge p d
  obtain ⟨k, hk⟩ : ∃ k, parseFuel p d = k + 2 := ⟨parseFuel p d - 2, by omega⟩
  rw [hk]
  unfold parseLoop
  simp only [hlen, if_true]
  unfold parseLoop
  simp only [hs]
  rw [dataIn_plain d 0 0 k p 0 (by simpa using hd) hc (by omega) (by omega), slice_all]

/-- **C14 (chunking, partial).** Inside the data of a text (or preamble/epilogue/unknown) part, cutting a run of bytes
    that contains no CR and no LF into two calls gives the same parser state as one call, except that the part's data is held in
    two pieces instead of one; the value assembled from the pieces is the same.  The full statement (every cut position) is
    not proved; see the header of this file. -/
theorem C14_chunking_partial (p : Parser) (a b : Bytes) (part : Part)
    (hs : p.state = .data) (hc : p.crAside = 0) (hcur : p.cur = some part) (hm : p.mode = .data) (ht : (part.type == T_FILE) = false)
    (ha : plain a) (hb : plain b) (hna : a ≠ []) (hnb : b ≠ []) :
    pendingValue (parse (parse p a) b) = pendingValue (parse p (a ++ b)) ∧
    { parse (parse p a) b with dataPieces := [] } = { parse p (a ++ b) with dataPieces := [] } := by
  have hab : a ++ b ≠ [] := by simp [hna]
  rw [C14_data_chunk_verbatim p a hs hc ha hna, C14_data_chunk_verbatim p (a ++ b) hs hc (plain_append ha hb) hab]
  have e1 : handleData p a false = partHandleData p part a false := by
    unfold handleData; cases a with | nil => exact absurd rfl hna | cons x t => simp [hcur]
  have e2 : handleData p (a ++ b) false = partHandleData p part (a ++ b) false := by
    unfold handleData; cases a with | nil => exact absurd rfl hna | cons x t => simp [hcur]
  rw [e1, e2]
  by_cases hu : (hasFlag p.flags SEEN_LAST_BOUNDARY && part.type == T_UNKNOWN) = true
  · have q1 : partHandleData p part a false =
        { p with dataPieces := p.dataPieces ++ [a], cur := some { part with len := part.len + a.length } } := by
      unfold partHandleData; simp [hu, hm, ht]
    have q2 : partHandleData p part (a ++ b) false =
        { p with dataPieces := p.dataPieces ++ [a ++ b], cur := some { part with len := part.len + (a ++ b).length } } := by
      unfold partHandleData; simp [hu, hm, ht]
    rw [q1, q2]
    rw [C14_data_chunk_verbatim _ b (by simpa using hs) (by simpa using hc) hb hnb]
    have e3 : handleData { p with dataPieces := p.dataPieces ++ [a], cur := some { part with len := part.len + a.length } } b false =
        partHandleData { p with dataPieces := p.dataPieces ++ [a], cur := some { part with len := part.len + a.length } }
          { part with len := part.len + a.length } b false := by
      unfold handleData; cases b with | nil => exact absurd rfl hnb | cons x t => simp
    rw [e3]
    unfold partHandleData
    simp [hu, hm, ht, pendingValue, Nat.add_assoc]
  · have hu' : (hasFlag p.flags SEEN_LAST_BOUNDARY && part.type == T_UNKNOWN) = false := by simpa using hu
    have q1 : partHandleData p part a false =
        { p with dataPieces := p.dataPieces ++ [a], cur := some { part with len := part.len + a.length } } := by
      unfold partHandleData; simp [hu', hm, ht]
    have q2 : partHandleData p part (a ++ b) false =
        { p with dataPieces := p.dataPieces ++ [a ++ b], cur := some { part with len := part.len + (a ++ b).length } } := by
      unfold partHandleData; simp [hu', hm, ht]
    rw [q1, q2]
    rw [C14_data_chunk_verbatim _ b (by simpa using hs) (by simpa using hc) hb hnb]
    have e3 : handleData { p with dataPieces := p.dataPieces ++ [a], cur := some { part with len := part.len + a.length } } b false =
        partHandleData { p with dataPieces := p.dataPieces ++ [a], cur := some { part with len := part.len + a.length } }
          { part with len := part.len + a.length } b false := by
      unfold handleData; cases b with | nil => exact absurd rfl hnb | cons x t => simp
    rw [e3]
    unfold partHandleData
    simp [hu', hm, ht, pendingValue, Nat.add_assoc]

/-- F5 (repaired in /repo): the data of an epilogue that contains an empty line used to be stored twice per call, which
    made it depend on the chunking; the proof of `C14_chunking_partial` had forced that case out as a hypothesis -/
theorem C14_epilogue_example :
    let ct := (b!"multipart/form-data; boundary=B")
    let h := (b!"--B\r\nContent-Disposition: form-data; name=\"a\"\r\n\r\nv\r\n--B--\r\n\r\n")
    ((run ct [h ++ (b!"abc")]).parts.map (·.value)) = [some (b!"v"), some (b!"\r\nabc")] ∧
    ((run ct [h ++ (b!"a"), (b!"bc")]).parts.map (·.value)) = [some (b!"v"), some (b!"\r\nabc")] := by
  decide +kernel

/-- non-vacuity: a parser state reached by a real run meets the hypotheses of `C14_chunking_partial` -/
example :
    let p := (parse (create (b!"B") 0) (b!"--B\r\nContent-Disposition: form-data; name=\"a\"\r\n\r\nx"))
    p.state = .data ∧ p.crAside = 0 ∧ p.mode = .data ∧ (p.cur.map (·.type)) = some T_TEXT ∧
    hasFlag p.flags SEEN_LAST_BOUNDARY = false := by
  decide +kernel

example : plain (b!"he--llo") := by
  intro c hc
  have : ∀ c ∈ (b!"he--llo"), (c != CR && c != LF) = true := by decide
  have h2 := this c hc
  simp only [Bool.and_eq_true, bne_iff_ne, ne_eq] at h2
  exact h2

open Htp.Gen in
theorem takeWhile_allOf {α} (q : α → Bool) (l : List α) (h : ∀ b ∈ l, q b = true) : l.takeWhile q = l := by
  induction l with
  | nil => rfl
  | cons c t ih => simp only [List.takeWhile, h c (by simp)]; rw [ih (fun b hb => h b (by simp [hb]))]

section
open Htp Htp.Gen Htp.Multipart

/-- the search for the parameter name stops at the `boundary` of a plain `multipart/form-data; boundary=...` value, whatever follows -/
theorem index_boundary (tail : Bytes) :
    Bstr.indexOfMemNocase ((b!"multipart/form-data; boundary") ++ tail) (b!"boundary") = some 21 := by
  simp [Bstr.indexOfMemNocase, Bstr.indexOfAux, Bstr.prefixMatch, Bstr.eqUpper]
  decide


/-- **C14 (boundary extraction)**: for a Content-Type value `multipart/form-data; boundary=B` whose boundary `B` is non-empty and contains
    no comma, semicolon, white space or double quote, htp_mpartp_find_boundary returns exactly `B`. -/
theorem C14_boundary_exact (c0 : UInt8) (bt : Bytes)
    (hb : ∀ x ∈ c0 :: bt, (x != COMMA && x != SEMI && !isSpace x) = true ∧ x ≠ DQUOTE) :
    (findBoundary ((b!"multipart/form-data; boundary") ++ EQS :: c0 :: bt)).1 = some (c0 :: bt) := by
  have h0 := hb c0 (by simp)
  have hsp0 : isSpace c0 = false := by
    have := h0.1; simp only [Bool.and_eq_true, Bool.not_eq_true'] at this; exact this.2
  have hdq : (c0 == DQUOTE) = false := by simpa using h0.2
  unfold findBoundary
  rw [index_boundary]
  simp only
  have hd : ((b!"multipart/form-data; boundary") ++ EQS :: c0 :: bt).drop (21 + 8) = EQS :: c0 :: bt := by
    exact List.drop_left' (by decide)
  rw [hd]
  have hpre : (EQS :: c0 :: bt).takeWhile (· != EQS) = [] := by simp [List.takeWhile]
  simp only [hpre, List.length_nil, List.drop_zero, List.foldl_nil]
  have hws : (c0 :: bt).takeWhile isSpace = [] := by simp [List.takeWhile, hsp0]
  simp only [hws, List.isEmpty_nil, if_true, List.length_nil, List.drop_zero, hdq, Bool.false_eq_true, if_false]
  have htw : (c0 :: bt).takeWhile (fun c => c != COMMA && c != SEMI && !isSpace c) = c0 :: bt :=
    takeWhile_allOf _ _ (fun x hx => (hb x hx).1)
  simp only [htw, List.drop_length, List.isEmpty_cons, Bool.false_eq_true, if_false]

example : (findBoundary (b!"multipart/form-data; boundary=----WebKitFormBoundaryX7")).1 = some (b!"----WebKitFormBoundaryX7") := by decide

end

end Htp.Props.C14
