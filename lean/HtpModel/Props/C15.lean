/- C15 — urlencoded parameters equal the reference split/decoding for any chunking. -/
import HtpModel.Lemmas.UrlencRef

namespace Htp.C15
open Htp.Urlenc Htp.Gen

/-- what the byte-at-a-time machine reports for a whole byte string -/
def runA (cfg : DecoderCfg) (bytes : Bytes) : List (Bytes × Bytes) × Nat × Int :=
  let a := finalizeA cfg (bytes.foldl (stepA cfg) {})
  (a.params.reverse, a.flags, a.status)

/-- **C15 (chunking)**: for every decoder configuration and every way of cutting the input into chunks
    (any number of chunks, empty chunks included), the reported pairs, flags and expected status are those
    of the byte-at-a-time machine run on the concatenation — hence identical for every chunking. -/
theorem C15_chunking (cfg : DecoderCfg) (chunks : List Bytes) :
    run cfg chunks = runA cfg chunks.flatten := by
  unfold run runA
  have hi : Inv ({} : S) := by intro p hp; simp at hp
  have h1 := feed_chunks_abs cfg chunks {} hi rfl
  have h2 := finalize_abs cfg (chunks.foldl (feed cfg) {}) h1.2.1
  have habs0 : absS ({} : S) [] = ({} : A) := rfl
  rw [habs0] at h1
  rw [← h1.1, ← h2]
  simp [absS]

/-- corollary in the form the property states it -/
theorem C15_chunking_invariance (cfg : DecoderCfg) (c1 c2 : List Bytes) (h : c1.flatten = c2.flatten) :
    run cfg c1 = run cfg c2 := by
  rw [C15_chunking, C15_chunking, h]

/-- **C15 (reference rule)**: for every decoder configuration and every chunking of every byte string, the reported name/value pairs
    are exactly those of the reference rule applied to the concatenation - split on '&', split each piece at its first '=', drop
    only a final empty piece, decode name and value with the configured decoder - in order, empty names and values included. -/
theorem C15_reference (cfg : DecoderCfg) (chunks : List Bytes) : (run cfg chunks).1 = refPairs cfg chunks.flatten := by
  rw [C15_chunking]
  unfold runA
  simp only
  have hi : InvA ({} : A) := ⟨rfl, by intro b hb; simp at hb, by intro _ b hb; simp at hb, by intro h; simp at h⟩
  have := machine_ref cfg chunks.flatten {} hi
  simpa [curA] using this

/-- the reference rule on a concrete string: a plain pair, an encoded value, an empty piece in the middle (kept), a name without
    '=', an empty name, an empty value, and a final '&' (the empty piece after it is dropped) -/
example : refRaw (b!"a=1&b=%41&&c&=d&e=&") =
    [((b!"a"), (b!"1")), ((b!"b"), (b!"%41")), ([], []), ((b!"c"), []), ([], (b!"d")), ((b!"e"), [])] := by decide

/-- calling finalize a second time changes nothing that is reported (params, flags, status) -/
theorem C15_finalize_twice (cfg : DecoderCfg) (a : A) :
    let f := finalizeA cfg a
    (finalizeA cfg f).params = f.params ∧ (finalizeA cfg f).flags = f.flags ∧ (finalizeA cfg f).status = f.status ∨
    f.state = .value := by
  intro f
  by_cases hv : f.state = .value
  · exact Or.inr hv
  · left
    have hk : f.state = .key := by cases h : f.state <;> simp_all
    have hp : f.pend = [] := by
      show (finalizeA cfg a).pend = []
      unfold finalizeA closeA ofS
      cases a.state <;> simp <;> (try split) <;> (try split) <;> simp
    unfold finalizeA closeA fieldA toS ofS
    simp [hk, hp]

/-- non-vacuity / sanity: "a=1&b=%41&&c&=d&e=" in three chunks ("a=", "1&b=%41&&c&", "=d&e=") -/
example : (run {} [[0x61, 0x3d], [0x31, 0x26, 0x62, 0x3d, 0x25, 0x34, 0x31, 0x26, 0x26, 0x63, 0x26],
                   [0x3d, 0x64, 0x26, 0x65, 0x3d]]).1 =
    [([0x61], [0x31]), ([0x62], [0x41]), ([], []), ([0x63], []), ([], [0x64]), ([0x65], [])] := by decide

/-- the hex-digit arithmetic of `x2c` (htp_util.c): `(c >= 'A' ? ((c & 0xdf) - 'A') + 10 : (c - '0'))`, in unsigned char -/
def x2cDigit (b : UInt8) : UInt8 := if b ≥ 0x41 then ((b &&& 0xdf) - 0x41) + 10 else b - 0x30

/-- **C15 (the escape table is the documented arithmetic)**: the two x2c tables the translator regenerates from the current source on every
    run are, for all 256 bytes - valid hex digits or not, which matters under HTP_URL_DECODE_PROCESS_INVALID - exactly
    `digit(a) * 16 + digit(b)`. A change to `x2c` that keeps valid escapes intact but moves any other byte breaks this by kernel evaluation. -/
theorem C15_x2c_table : ∀ b : UInt8, Htp.Gen.x2cLo b = x2cDigit b ∧ Htp.Gen.x2cHi b = x2cDigit b * 16 := by
  apply forall_uint8_of_lt
  decide +kernel

example : Htp.Gen.x2cHi 0x34 + Htp.Gen.x2cLo 0x31 = 0x41 ∧ Htp.Gen.x2cSeparable = true := by decide

end Htp.C15
