/- C16 — CONNECT, upgrade and tunnel handling. -/
import HtpModel.Lemmas.Conn

namespace Htp.C16
open Htp.Conn Htp.Gen

/-- **C16 (tunnel mode is absorbing and silent, request direction)**: once the request direction is in TUNNEL, a data call with any
    bytes returns TUNNEL, runs no callback, creates no transaction and changes no transaction; only the byte counter and the
    chunk bookkeeping advance. -/
theorem C16_tunnel_req (cfg : Cfg) (c : Conn) (d : Bytes) (hlen : 0 < d.length)
    (ht : c.inn.status = STREAM_TUNNEL) (hg : c.inn.tx.isSome = true ∨ c.inState = .idle) :
    (reqData cfg (some d) d.length c).2 = STREAM_TUNNEL ∧ (reqData cfg (some d) d.length c).1.events = c.events ∧
    (reqData cfg (some d) d.length c).1.txs = c.txs ∧ (reqData cfg (some d) d.length c).1.inn.status = STREAM_TUNNEL ∧
    (reqData cfg (some d) d.length c).1.inDataCounter = c.inDataCounter + d.length := by
  have h1 : STREAM_TUNNEL ≠ STREAM_STOP := by decide
  have h2 : STREAM_TUNNEL ≠ STREAM_ERROR := by decide
  have h3 : STREAM_TUNNEL ≠ STREAM_CLOSED := by decide
  have hl : d.length ≠ 0 := by omega
  have hguard : (c.inn.tx.isNone && c.inState != ReqState.idle) = false := by
    rcases hg with h | h
    · cases hx : c.inn.tx <;> simp_all
    · simp [h]
  have hstored : (reqStoreChunk (some d) d.length c).inn.status = STREAM_TUNNEL := by simp [reqStoreChunk, ht]
  simp [reqData, reqDataCore, ht, h1, h2, h3, hl, hguard, hstored]
  simp [reqStoreChunk]

theorem C16_tunnel_res (cfg : Cfg) (c : Conn) (d : Bytes) (hlen : 0 < d.length)
    (ht : c.out.status = STREAM_TUNNEL) (hg : c.out.tx.isSome = true ∨ c.outState = .idle) :
    (resData cfg (some d) d.length c).2 = STREAM_TUNNEL ∧ (resData cfg (some d) d.length c).1.events = c.events ∧
    (resData cfg (some d) d.length c).1.txs = c.txs ∧ (resData cfg (some d) d.length c).1.out.status = STREAM_TUNNEL ∧
    (resData cfg (some d) d.length c).1.outDataCounter = c.outDataCounter + d.length := by
  have h1 : STREAM_TUNNEL ≠ STREAM_STOP := by decide
  have h2 : STREAM_TUNNEL ≠ STREAM_ERROR := by decide
  have h3 : STREAM_TUNNEL ≠ STREAM_CLOSED := by decide
  have hl : d.length ≠ 0 := by omega
  have hguard : (c.out.tx.isNone && c.outState != ResState.idle) = false := by
    rcases hg with h | h
    · cases hx : c.out.tx <;> simp_all
    · simp [h]
  have hstored : (resStoreChunk (some d) d.length c).out.status = STREAM_TUNNEL := by simp [resStoreChunk, ht]
  simp [resData, resDataCore, ht, h1, h2, h3, hl, hguard, hstored]
  simp [resStoreChunk]

/-- **C16 (suspension after CONNECT)**: while the response to the CONNECT transaction has not got past its status line, the
    waiting state consumes nothing, runs no callback and asks for the other direction. -/
theorem C16_wait_state (c : Conn) (h : c.inTx.resProgress ≤ 1) :
    reqConnectWaitResponse c = (c, .dataOther) := by
  simp [reqConnectWaitResponse, h]

/-- one turn of the request driver loop whose state function asks for the other direction while bytes remain -/
theorem driver_dataOther (cfg : Cfg) (n : Nat) (c1 : Conn)
    (hstep : reqStateFn cfg c1 = (c1, .dataOther)) (hlt : c1.inn.read < c1.inn.len) :
    reqDriverLoop cfg false (n + 1) c1 = ({ c1 with inn := { c1.inn with status := STREAM_DATA_OTHER } }, STREAM_DATA_OTHER) := by
  unfold reqDriverLoop
  have hge : ¬ (c1.inn.read ≥ c1.inn.len) := by omega
  simp [hstep, hge]

/-- … and at the API: a request data call made in that state with a non-empty chunk returns DATA_OTHER with consumed = 0 and no
    callback; no byte beyond the CONNECT request is taken before the response has been seen. -/
theorem C16_suspended_call (cfg : Cfg) (c : Conn) (d : Bytes) (uid : Nat) (hlen : 0 < d.length)
    (hs : c.inState = .connectWaitResponse) (hst : c.inn.status = STREAM_DATA_OTHER)
    (htx : c.inn.tx = some uid)
    (hp : ∀ c' : Conn, c'.inn.tx = some uid → c'.txs = c.txs → c'.inTx.resProgress ≤ 1) :
    (reqData cfg (some d) d.length c).2 = STREAM_DATA_OTHER ∧ (reqData cfg (some d) d.length c).1.inn.read = 0 ∧
    (reqData cfg (some d) d.length c).1.events = c.events ∧ (reqData cfg (some d) d.length c).1.txs = c.txs := by
  have h1 : STREAM_DATA_OTHER ≠ STREAM_STOP := by decide
  have h2 : STREAM_DATA_OTHER ≠ STREAM_ERROR := by decide
  have h3 : STREAM_DATA_OTHER ≠ STREAM_CLOSED := by decide
  have h4 : STREAM_DATA_OTHER ≠ STREAM_TUNNEL := by decide
  have hl : d.length ≠ 0 := by omega
  -- the chunk is stored, the other direction is woken up: neither touches the transaction, the state or the event log
  let c1 := reqWakeOther (reqStoreChunk (some d) d.length c)
  have hc1s : c1.inState = .connectWaitResponse := by
    show (reqWakeOther _).inState = _; unfold reqWakeOther reqStoreChunk; split <;> simp [hs]
  have hc1tx : c1.inn.tx = some uid := by
    show (reqWakeOther _).inn.tx = _; unfold reqWakeOther reqStoreChunk; split <;> simp [htx]
  have hc1txs : c1.txs = c.txs := by
    show (reqWakeOther _).txs = _; unfold reqWakeOther reqStoreChunk; split <;> simp
  have hc1ev : c1.events = c.events := by
    show (reqWakeOther _).events = _; unfold reqWakeOther reqStoreChunk; split <;> simp
  have hc1rd : c1.inn.read = 0 := by
    show (reqWakeOther _).inn.read = _; unfold reqWakeOther reqStoreChunk; split <;> simp
  have hc1len : c1.inn.len = (d.length : Int) := by
    show (reqWakeOther _).inn.len = _; unfold reqWakeOther reqStoreChunk; split <;> simp
  have hw : reqStateFn cfg c1 = (c1, .dataOther) := by
    unfold reqStateFn; rw [hc1s]; exact C16_wait_state c1 (hp c1 hc1tx hc1txs)
  have hlt : c1.inn.read < c1.inn.len := by rw [hc1rd, hc1len]; omega
  have hloop := driver_dataOther cfg (8 * d.length + 63) c1 hw hlt
  have hloop' : reqDriverLoop cfg false (8 * d.length + 64) c1 =
      ({ c1 with inn := { c1.inn with status := STREAM_DATA_OTHER } }, STREAM_DATA_OTHER) := by
    have := hloop
    rwa [show 8 * d.length + 63 + 1 = 8 * d.length + 64 from by omega] at this
  have hstored : (reqStoreChunk (some d) d.length c).inn.status = STREAM_DATA_OTHER := by simp [reqStoreChunk, hst]
  have e1 : (c.inn.status == STREAM_STOP) = false := by rw [hst]; decide
  have e2 : (c.inn.status == STREAM_ERROR) = false := by rw [hst]; decide
  have e3 : (c.inn.tx.isNone && c.inState != ReqState.idle) = false := by simp [htx]
  have e4 : (d.length == 0 && c.inn.status != STREAM_CLOSED) = false := by simp [hl]
  have e5 : ((reqStoreChunk (some d) d.length c).inn.status == STREAM_TUNNEL) = false := by rw [hstored]; decide
  have hgap : ((some d : Option Bytes).isNone && decide (d.length > 0)) = false := by simp
  have hcore : reqDataCore cfg (some d) d.length c =
      ({ c1 with inn := { c1.inn with status := STREAM_DATA_OTHER } }, STREAM_DATA_OTHER) := by
    unfold reqDataCore
    simp only [e1, e2, e3, e4, e5, Bool.false_eq_true, if_false, hgap]
    exact hloop'
  unfold reqData
  rw [hcore]
  exact ⟨rfl, hc1rd, hc1ev, hc1txs⟩

end Htp.C16
