/- C16 — CONNECT, upgrade and tunnel handling. -/
import HtpModel.Lemmas.Conn
import HtpModel.Lemmas.HistoryTunnel

namespace Htp.C16
open Htp.Conn Htp.Gen

/-- **C16 (tunnel mode is absorbing and silent, request direction)**: once the request direction is in TUNNEL, a data call with any
    bytes returns TUNNEL, runs no callback, creates no transaction and changes no transaction; only the byte counter and the
    chunk bookkeeping advance. -/
theorem C16_tunnel_req (cfg : Cfg) (c : Conn) (d : Bytes) (hlen : 0 < d.length)
    (ht : c.inn.status = STREAM_TUNNEL) (hg : c.inn.tx.isSome = true ∨ c.inState = .idle) :
    (reqData cfg (some d) d.length c).2 = STREAM_TUNNEL ∧ (reqData cfg (some d) d.length c).1.events = c.events ∧
    (reqData cfg (some d) d.length c).1.txs = c.txs ∧ (reqData cfg (some d) d.length c).1.inn.status = STREAM_TUNNEL ∧
    (reqData cfg (some d) d.length c).1.inDataCounter = c.inDataCounter + d.length := by
  have h1 : STREAM_TUNNEL ≠ STREAM_STOP := by decide
  have h2 : STREAM_TUNNEL ≠ STREAM_ERROR := by decide
  have h3 : STREAM_TUNNEL ≠ STREAM_CLOSED := by decide
  have hl : d.length ≠ 0 := by omega
  have hguard : (c.inn.tx.isNone && c.inState != ReqState.idle) = false := by
    rcases hg with h | h
    · cases hx : c.inn.tx <;> simp_all
    · simp [h]
  have hstored : (reqStoreChunk (some d) d.length c).inn.status = STREAM_TUNNEL := by simp [reqStoreChunk, ht]
  simp [reqData, reqDataCore, ht, h1, h2, h3, hl, hguard, hstored]
  simp [reqStoreChunk]

theorem C16_tunnel_res (cfg : Cfg) (c : Conn) (d : Bytes) (hlen : 0 < d.length)
    (ht : c.out.status = STREAM_TUNNEL) (hg : c.out.tx.isSome = true ∨ c.outState = .idle) :
    (resData cfg (some d) d.length c).2 = STREAM_TUNNEL ∧ (resData cfg (some d) d.length c).1.events = c.events ∧
    (resData cfg (some d) d.length c).1.txs = c.txs ∧ (resData cfg (some d) d.length c).1.out.status = STREAM_TUNNEL ∧
    (resData cfg (some d) d.length c).1.outDataCounter = c.outDataCounter + d.length := by
  have h1 : STREAM_TUNNEL ≠ STREAM_STOP := by decide
  have h2 : STREAM_TUNNEL ≠ STREAM_ERROR := by decide
  have h3 : STREAM_TUNNEL ≠ STREAM_CLOSED := by decide
  have hl : d.length ≠ 0 := by omega
  have hguard : (c.out.tx.isNone && c.outState != ResState.idle) = false := by
    rcases hg with h | h
    · cases hx : c.out.tx <;> simp_all
    · simp [h]
  have hstored : (resStoreChunk (some d) d.length c).out.status = STREAM_TUNNEL := by simp [resStoreChunk, ht]
  simp [resData, resDataCore, ht, h1, h2, h3, hl, hguard, hstored]
  simp [resStoreChunk]

/-- **C16 (suspension after CONNECT)**: while the response to the CONNECT transaction has not got past its status line, the
    waiting state consumes nothing, runs no callback and asks for the other direction. -/
theorem C16_wait_state (c : Conn) (h : c.inTx.resProgress ≤ 1) :
    reqConnectWaitResponse c = (c, .dataOther) := by
  simp [reqConnectWaitResponse, h]

/-- one turn of the request driver loop whose state function asks for the other direction while bytes remain -/
theorem driver_dataOther (cfg : Cfg) (n : Nat) (c1 : Conn)
    (hstep : reqStateFn cfg c1 = (c1, .dataOther)) (hlt : c1.inn.read < c1.inn.len) :
    reqDriverLoop cfg false (n + 1) c1 = ({ c1 with inn := { c1.inn with status := STREAM_DATA_OTHER } }, STREAM_DATA_OTHER) := by
  unfold reqDriverLoop
  have hge : ¬ (c1.inn.read ≥ c1.inn.len) := by omega
  simp [hstep, hge]

/-- … and at the API: a request data call made in that state with a non-empty chunk returns DATA_OTHER with consumed = 0 and no
    callback; no byte beyond the CONNECT request is taken before the response has been seen. -/
theorem C16_suspended_call (cfg : Cfg) (c : Conn) (d : Bytes) (uid : Nat) (hlen : 0 < d.length)
    (hs : c.inState = .connectWaitResponse) (hst : c.inn.status = STREAM_DATA_OTHER)
    (htx : c.inn.tx = some uid)
    (hp : ∀ c' : Conn, c'.inn.tx = some uid → c'.txs = c.txs → c'.inTx.resProgress ≤ 1) :
    (reqData cfg (some d) d.length c).2 = STREAM_DATA_OTHER ∧ (reqData cfg (some d) d.length c).1.inn.read = 0 ∧
    (reqData cfg (some d) d.length c).1.events = c.events ∧ (reqData cfg (some d) d.length c).1.txs = c.txs := by
  have h1 : STREAM_DATA_OTHER ≠ STREAM_STOP := by decide
  have h2 : STREAM_DATA_OTHER ≠ STREAM_ERROR := by decide
  have h3 : STREAM_DATA_OTHER ≠ STREAM_CLOSED := by decide
  have h4 : STREAM_DATA_OTHER ≠ STREAM_TUNNEL := by decide
  have hl : d.length ≠ 0 := by omega
  -- the chunk is stored, the other direction is woken up: neither touches the transaction, the state or the event log
  let c1 := reqWakeOther (reqStoreChunk (some d) d.length c)
  have hc1s : c1.inState = .connectWaitResponse := by
    show (reqWakeOther _).inState = _; unfold reqWakeOther reqStoreChunk; split <;> simp [hs]
  have hc1tx : c1.inn.tx = some uid := by
    show (reqWakeOther _).inn.tx = _; unfold reqWakeOther reqStoreChunk; split <;> simp [htx]
  have hc1txs : c1.txs = c.txs := by
    show (reqWakeOther _).txs = _; unfold reqWakeOther reqStoreChunk; split <;> simp
  have hc1ev : c1.events = c.events := by
    show (reqWakeOther _).events = _; unfold reqWakeOther reqStoreChunk; split <;> simp
  have hc1rd : c1.inn.read = 0 := by
    show (reqWakeOther _).inn.read = _; unfold reqWakeOther reqStoreChunk; split <;> simp
  have hc1len : c1.inn.len = (d.length : Int) := by
    show (reqWakeOther _).inn.len = _; unfold reqWakeOther reqStoreChunk; split <;> simp
  have hw : reqStateFn cfg c1 = (c1, .dataOther) := by
    unfold reqStateFn; rw [hc1s]; exact C16_wait_state c1 (hp c1 hc1tx hc1txs)
  have hlt : c1.inn.read < c1.inn.len := by rw [hc1rd, hc1len]; omega
  have hloop := driver_dataOther cfg (8 * d.length + 63) c1 hw hlt
  have hloop' : reqDriverLoop cfg false (8 * d.length + 64) c1 =
      ({ c1 with inn := { c1.inn with status := STREAM_DATA_OTHER } }, STREAM_DATA_OTHER) := by
    have := hloop
    rwa [show 8 * d.length + 63 + 1 = 8 * d.length + 64 from by omega] at this
  have hstored : (reqStoreChunk (some d) d.length c).inn.status = STREAM_DATA_OTHER := by simp [reqStoreChunk, hst]
  have e1 : (c.inn.status == STREAM_STOP) = false := by rw [hst]; decide
  have e2 : (c.inn.status == STREAM_ERROR) = false := by rw [hst]; decide
  have e3 : (c.inn.tx.isNone && c.inState != ReqState.idle) = false := by simp [htx]
  have e4 : (d.length == 0 && c.inn.status != STREAM_CLOSED) = false := by simp [hl]
  have e5 : ((reqStoreChunk (some d) d.length c).inn.status == STREAM_TUNNEL) = false := by rw [hstored]; decide
  have hgap : ((some d : Option Bytes).isNone && decide (d.length > 0)) = false := by simp
  have hcore : reqDataCore cfg (some d) d.length c =
      ({ c1 with inn := { c1.inn with status := STREAM_DATA_OTHER } }, STREAM_DATA_OTHER) := by
    unfold reqDataCore
    simp only [e1, e2, e3, e4, e5, Bool.false_eq_true, if_false, hgap]
    exact hloop'
  unfold reqData
  rw [hcore]
  exact ⟨rfl, hc1rd, hc1ev, hc1txs⟩

/-- **C16 (tunnel mode is absorbing and silent, over whole histories: forall streams, chunkings, interleavings)**: once a direction is in tunnel
    mode - status TUNNEL, its call guard (a current transaction, or the idle state) and the other direction quiet (TUNNEL, ERROR or STOP, which
    is what the only two writers of TUNNEL, the CONNECT probe and the 101 switch, leave behind: `history_tunnelPair`) - it stays so through ANY
    list of data calls of either direction, htp_connp_open and htp_connp_tx_freed, and every later non-empty data call of that direction returns
    HTP_STREAM_TUNNEL, runs no callback, changes no transaction and counts its bytes (`Lemmas/TunnelFrames.lean`, `Lemmas/HistoryTunnel.lean`).
    Closes are excluded: htp_connp_close / htp_connp_req_close overwrite TUNNEL (finding S8-tunnel, `tunnel_not_kept_by_close`). -/
theorem C16_history_tunnel_absorbing (cfg : Cfg) (c0 : Conn) (calls : List Call) (hn : NoClose calls) :
    (TunnelIn c0 → TunnelIn (runCalls cfg c0 calls)) ∧ (TunnelOut c0 → TunnelOut (runCalls cfg c0 calls)) :=
  ⟨history_tunnel_absorbing_req cfg c0 calls hn, history_tunnel_absorbing_res cfg c0 calls hn⟩

theorem C16_history_tunnel_silent (cfg : Cfg) (c0 : Conn) (calls : List Call) (hn : NoClose calls) (h : TunnelIn c0) :
    ∀ pre d, pre ++ [.req d] <+: calls → 0 < d.length →
      (reqData cfg (some d) d.length (runCalls cfg c0 pre)).2 = STREAM_TUNNEL ∧
      (reqData cfg (some d) d.length (runCalls cfg c0 pre)).1.events = (runCalls cfg c0 pre).events ∧
      (reqData cfg (some d) d.length (runCalls cfg c0 pre)).1.txs = (runCalls cfg c0 pre).txs ∧
      (reqData cfg (some d) d.length (runCalls cfg c0 pre)).1.inn.status = STREAM_TUNNEL ∧
      (reqData cfg (some d) d.length (runCalls cfg c0 pre)).1.inDataCounter = (runCalls cfg c0 pre).inDataCounter + d.length :=
  history_tunnel_req_silent cfg c0 calls hn h

/-- **C16 (finding S44: the call guard is needed)**: the status alone is NOT absorbing. From a fresh parser, without any close: an HTTP/0.9
    request line pipelined behind a complete request leaves the request side without a transaction in REQ_IGNORE_DATA_AFTER_HTTP_0_9; a 101
    response then switches both directions to TUNNEL; the next request data call returns HTP_STREAM_ERROR and overwrites TUNNEL, because
    htp_connp_req_data tests "no transaction and not idle" before it tests for tunnel mode. Kernel-evaluated on the model, replayed on the
    library (known finding S44). -/
theorem C16_tunnel_left_counterexample :
    let calls : List Call := [.open, .req (b!"GET /a HTTP/1.1\r\nHost: x\r\n\r\nGET /\n"), .res (b!"HTTP/1.1 101 Switching Protocols\r\n\r\n")]
    let c := runCalls {} {} calls
    NoClose calls ∧ c.inn.status = STREAM_TUNNEL ∧ c.out.status = STREAM_TUNNEL ∧ c.inn.tx = none ∧ c.inState = .ignoreDataAfter09 ∧
    TunnelOut c ∧ ¬ TunnelIn c ∧
    (reqData {} (some (b!"abc")) 3 c).2 = STREAM_ERROR ∧ (reqData {} (some (b!"abc")) 3 c).1.inn.status = STREAM_ERROR := by
  decide

end Htp.C16
