/- C17 — containers and string/number primitives behave as their abstract types.
   Property theorems only; helper lemmas live in HtpModel/Lemmas. -/
import HtpModel.Lemmas.Ring

namespace Htp.C17
open Htp.Ring

/-- operations of the list API -/
inductive Op (α : Type) where
  | push (e : α) | pop | shift | get (i : Nat) | replace (i : Nat) (e : α) | clear | size

/-- observable result of an operation -/
inductive Res (α : Type) where
  | unit | elem (e : Option α) | ok (b : Bool) | nat (n : Nat)
  deriving DecidableEq

variable {α : Type} [Inhabited α]

/-- the implementation model -/
def stepImpl (r : Ring α) : Op α → Ring α × Res α
  | .push e => (push r e, .unit)
  | .pop => let (r', v) := pop r; (r', .elem v)
  | .shift => let (r', v) := shift r; (r', .elem v)
  | .get i => (r, .elem (get r i))
  | .replace i e => let (r', b) := replace r i e; (r', .ok b)
  | .clear => (clear r, .unit)
  | .size => (r, .nat (size r))

/-- the abstract type: a double-ended sequence -/
def stepSpec (l : List α) : Op α → List α × Res α
  | .push e => (l ++ [e], .unit)
  | .pop => (l.dropLast, .elem l.getLast?)
  | .shift => (l.tail, .elem l.head?)
  | .get i => (l, .elem l[i]?)
  | .replace i e => (if i < l.length then l.set i e else l, .ok (decide (i < l.length)))
  | .clear => ([], .unit)
  | .size => (l, .nat l.length)

def runImpl (r : Ring α) : List (Op α) → Ring α × List (Res α)
  | [] => (r, [])
  | o :: os => let (r', x) := stepImpl r o; let (r'', xs) := runImpl r' os; (r'', x :: xs)

def runSpec (l : List α) : List (Op α) → List α × List (Res α)
  | [] => (l, [])
  | o :: os => let (l', x) := stepSpec l o; let (l'', xs) := runSpec l' os; (l'', x :: xs)

/-- one step: invariant preserved, same observable result, abstraction commutes -/
theorem ring_step (r : Ring α) (w : WF r) (o : Op α) :
    WF (stepImpl r o).1 ∧ (stepImpl r o).2 = (stepSpec (abs r) o).2 ∧
    abs (stepImpl r o).1 = (stepSpec (abs r) o).1 := by
  cases o with
  | push e => exact ⟨push_wf r w e, rfl, abs_push r w e⟩
  | pop =>
    have h := pop_spec r w
    exact ⟨pop_wf r w, by simp [stepImpl, stepSpec, h.2], by simp [stepImpl, stepSpec, h.1]⟩
  | shift =>
    have h := shift_spec r w
    exact ⟨shift_wf r w, by simp [stepImpl, stepSpec, h.2], by simp [stepImpl, stepSpec, h.1]⟩
  | get i => exact ⟨w, by simp [stepImpl, stepSpec, get_eq], rfl⟩
  | replace i e =>
    have h := replace_spec r w i e
    exact ⟨replace_wf r w i e, by simp [stepImpl, stepSpec, h.1], by simp [stepImpl, stepSpec, h.2]⟩
  | clear => exact ⟨clear_wf r w, rfl, by simp [stepImpl, stepSpec]⟩
  | size => exact ⟨w, by simp [stepImpl, stepSpec, size], rfl⟩

/-- **C17 (list)**: for every operation sequence, from every well-formed ring (in particular a
    freshly created one of any capacity ≥ 1), the ring returns exactly what the double-ended
    sequence returns, across growth and wrap-around; no bound on length or capacity. -/
theorem ring_sim (r : Ring α) (w : WF r) (ops : List (Op α)) :
    (runImpl r ops).2 = (runSpec (abs r) ops).2 ∧ abs (runImpl r ops).1 = (runSpec (abs r) ops).1 ∧
    WF (runImpl r ops).1 := by
  induction ops generalizing r with
  | nil => exact ⟨rfl, rfl, w⟩
  | cons o os ih =>
    obtain ⟨w', hres, habs⟩ := ring_step r w o
    obtain ⟨h1, h2, h3⟩ := ih (stepImpl r o).1 w'
    simp only [runImpl, runSpec]
    rw [← habs]
    exact ⟨by rw [h1, hres], h2, h3⟩

theorem ring_sim_fresh (cap : Nat) (hc : 0 < cap) (ops : List (Op α)) :
    (runImpl (create cap : Ring α) ops).2 = (runSpec [] ops).2 := by
  have := (ring_sim (create cap : Ring α) (create_wf cap hc) ops).1
  simpa using this

/-- non-vacuity: a ring that has wrapped around and grown at `first ≠ 0` meets `WF`,
    and the run below exercises growth, wrap-around, pop, shift, replace and get. -/
example : (runImpl (create 2 : Ring Nat)
    [.push 1, .push 2, .shift, .push 3, .push 4, .pop, .replace 1 9, .get 1, .get 5, .size]).2
    = [.unit, .unit, .elem (some 1), .unit, .unit, .elem (some 4), .ok true, .elem (some 9), .elem none, .nat 2] := by
  decide

end Htp.C17
