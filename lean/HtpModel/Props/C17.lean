/- C17 — containers and string/number primitives behave as their abstract types.
   Property theorems only; helper lemmas live in HtpModel/Lemmas. -/
import HtpModel.Lemmas.Ring
import HtpModel.Lemmas.TableSim
import HtpModel.Lemmas.Builder
import HtpModel.Lemmas.Prims
import HtpModel.Lemmas.CFunsCmp
import HtpModel.Lemmas.CFunsNocase
import HtpModel.Lemmas.CFunsSearch
import HtpModel.Lemmas.CFunsLine
import HtpModel.Lemmas.CFunsNum
import HtpModel.Lemmas.CFunsChunked
import HtpModel.Lemmas.CFunsNorzero
import HtpModel.Lemmas.CFunsSearchNocase
import HtpModel.Lemmas.CFunsRing
import HtpModel.Lemmas.CFunsBstr

namespace Htp.C17
open Htp.Ring

/-- operations of the list API -/
inductive Op (α : Type) where
  | push (e : α) | pop | shift | get (i : Nat) | replace (i : Nat) (e : α) | clear | size

/-- observable result of an operation -/
inductive Res (α : Type) where
  | unit | elem (e : Option α) | ok (b : Bool) | nat (n : Nat)
  deriving DecidableEq

variable {α : Type} [Inhabited α]

/-- the implementation model -/
def stepImpl (r : Ring α) : Op α → Ring α × Res α
  | .push e => (push r e, .unit)
  | .pop => let (r', v) := pop r; (r', .elem v)
  | .shift => let (r', v) := shift r; (r', .elem v)
  | .get i => (r, .elem (get r i))
  | .replace i e => let (r', b) := replace r i e; (r', .ok b)
  | .clear => (clear r, .unit)
  | .size => (r, .nat (size r))

/-- the abstract type: a double-ended sequence -/
def stepSpec (l : List α) : Op α → List α × Res α
  | .push e => (l ++ [e], .unit)
  | .pop => (l.dropLast, .elem l.getLast?)
  | .shift => (l.tail, .elem l.head?)
  | .get i => (l, .elem l[i]?)
  | .replace i e => (if i < l.length then l.set i e else l, .ok (decide (i < l.length)))
  | .clear => ([], .unit)
  | .size => (l, .nat l.length)

def runImpl (r : Ring α) : List (Op α) → Ring α × List (Res α)
  | [] => (r, [])
  | o :: os => let (r', x) := stepImpl r o; let (r'', xs) := runImpl r' os; (r'', x :: xs)

def runSpec (l : List α) : List (Op α) → List α × List (Res α)
  | [] => (l, [])
  | o :: os => let (l', x) := stepSpec l o; let (l'', xs) := runSpec l' os; (l'', x :: xs)

/-- one step: invariant preserved, same observable result, abstraction commutes -/
theorem ring_step (r : Ring α) (w : WF r) (o : Op α) :
    WF (stepImpl r o).1 ∧ (stepImpl r o).2 = (stepSpec (abs r) o).2 ∧
    abs (stepImpl r o).1 = (stepSpec (abs r) o).1 := by
  cases o with
  | push e => exact ⟨push_wf r w e, rfl, abs_push r w e⟩
  | pop =>
    have h := pop_spec r w
    exact ⟨pop_wf r w, by simp [stepImpl, stepSpec, h.2], by simp [stepImpl, stepSpec, h.1]⟩
  | shift =>
    have h := shift_spec r w
    exact ⟨shift_wf r w, by simp [stepImpl, stepSpec, h.2], by simp [stepImpl, stepSpec, h.1]⟩
  | get i => exact ⟨w, by simp [stepImpl, stepSpec, get_eq], rfl⟩
  | replace i e =>
    have h := replace_spec r w i e
    exact ⟨replace_wf r w i e, by simp [stepImpl, stepSpec, h.1], by simp [stepImpl, stepSpec, h.2]⟩
  | clear => exact ⟨clear_wf r w, rfl, by simp [stepImpl, stepSpec]⟩
  | size => exact ⟨w, by simp [stepImpl, stepSpec, size], rfl⟩

/-- **C17 (list)**: for every operation sequence, from every well-formed ring (in particular a
    freshly created one of any capacity ≥ 1), the ring returns exactly what the double-ended
    sequence returns, across growth and wrap-around; no bound on length or capacity. -/
theorem ring_sim (r : Ring α) (w : WF r) (ops : List (Op α)) :
    (runImpl r ops).2 = (runSpec (abs r) ops).2 ∧ abs (runImpl r ops).1 = (runSpec (abs r) ops).1 ∧
    WF (runImpl r ops).1 := by
  induction ops generalizing r with
  | nil => exact ⟨rfl, rfl, w⟩
  | cons o os ih =>
    obtain ⟨w', hres, habs⟩ := ring_step r w o
    obtain ⟨h1, h2, h3⟩ := ih (stepImpl r o).1 w'
    simp only [runImpl, runSpec]
    rw [← habs]
    exact ⟨by rw [h1, hres], h2, h3⟩

theorem ring_sim_fresh (cap : Nat) (hc : 0 < cap) (ops : List (Op α)) :
    (runImpl (create cap : Ring α) ops).2 = (runSpec [] ops).2 := by
  have := (ring_sim (create cap : Ring α) (create_wf cap hc) ops).1
  simpa using this

/-- non-vacuity: a ring that has wrapped around and grown at `first ≠ 0` meets `WF`,
    and the run below exercises growth, wrap-around, pop, shift, replace and get. -/
example : (runImpl (create 2 : Ring Nat)
    [.push 1, .push 2, .shift, .push 3, .push 4, .pop, .replace 1 9, .get 1, .get 5, .size]).2
    = [.unit, .unit, .elem (some 1), .unit, .unit, .elem (some 4), .ok true, .elem (some 9), .elem none, .nat 2] := by
  decide

/-! ### the table (htp_table.c) as an insertion-ordered multimap -/
open Htp Htp.Table

/-- operations on a table whose keys are copied (htp_table_add) -/
inductive TOp where
  | add (k : Bytes) (v : Nat) | get (k : Bytes) | getC (k : Bytes) | size

inductive TRes where
  | ok (b : Bool) | val (v : Option Nat) | num (n : Nat)
  deriving DecidableEq

def stepT (t : Table) : TOp → Table × TRes
  | .add k v => let r := Table.add t k v; (r.1, .ok r.2)
  | .get k => (t, .val (Table.get t k))
  | .getC k => (t, .val (Table.getC t k))
  | .size => (t, .num (Table.size t))

/-- the abstract type: an insertion-ordered multimap, lookups return the first match under the case-insensitive comparison -/
def stepTSpec (ps : List (Bytes × Nat)) : TOp → List (Bytes × Nat) × TRes
  | .add k v => (ps ++ [(k, v)], .ok true)
  | .get k => (ps, .val (assocFind (fun c => Bstr.cmpMemNocase c k == 0) ps))
  | .getC k => (ps, .val (assocFind (fun c => Bstr.cmpMemNocaseNorzero c k == 0) ps))
  | .size => (ps, .num ps.length)

def runT (t : Table) : List TOp → List TRes
  | [] => []
  | o :: os => (stepT t o).2 :: runT (stepT t o).1 os

def runTSpec (ps : List (Bytes × Nat)) : List TOp → List TRes
  | [] => []
  | o :: os => (stepTSpec ps o).2 :: runTSpec (stepTSpec ps o).1 os

/-- **C17 (table)**: for every operation sequence, from every table that represents the pair list `ps` (in particular a fresh
    table of any capacity ≥ 1 and `ps = []`), `htp_table_add` / `htp_table_get` / `htp_table_get_c` / `htp_table_size` return exactly
    what the insertion-ordered multimap returns: lookups find the FIRST pair whose key matches case-insensitively (for `get_c`, with the
    NUL-skipping comparison), additions append and never fail, the size is the number of pairs. No bound on the number of pairs or
    on the growth of the underlying ring. -/
theorem C17_table_sim (t : Table) (ps : List (Bytes × Nat)) (hi : PInv t ps) (ops : List TOp) : runT t ops = runTSpec ps ops := by
  induction ops generalizing t ps with
  | nil => rfl
  | cons o os ih =>
    unfold runT runTSpec
    cases o with
    | add k v =>
      have h := add_pinv t ps k v hi
      simp only [stepT, stepTSpec, h.2]
      rw [ih _ _ h.1]
    | get k => simp only [stepT, stepTSpec, get_pinv t ps k hi]; rw [ih _ _ hi]
    | getC k => simp only [stepT, stepTSpec, getC_pinv t ps k hi]; rw [ih _ _ hi]
    | size => simp only [stepT, stepTSpec, size_pinv t ps hi]; rw [ih _ _ hi]

theorem C17_table_sim_fresh (cap : Nat) (hc : 0 < cap) (ops : List TOp) : runT (Table.create cap) ops = runTSpec [] ops :=
  C17_table_sim _ _ (create_pinv cap hc) ops

/-- non-vacuity: first match wins, case-insensitively, across growth of a capacity-1 ring -/
example : runT (Table.create 1) [.add (b!"Host") 1, .add (b!"host") 2, .add (b!"X") 3, .get (b!"HOST"), .get (b!"x"), .get (b!"y"), .size]
    = [.ok true, .ok true, .ok true, .val (some 1), .val (some 3), .val none, .num 3] := by decide

/-! ### the string builder (bstr_builder.c) as a list of pieces -/
open Htp.Builder in
section
/-- operations of the builder and the abstract type: the list of pieces appended since the last clear -/
inductive BOp where
  | append (d : Bytes) | appendC (d : Bytes) | clear | size | toStr

inductive BRes where
  | unit | num (n : Nat) | str (s : Bytes)
  deriving DecidableEq

def stepB (b : Builder) : BOp → Builder × BRes
  | .append d => (Builder.append b d, .unit)
  | .appendC d => (Builder.appendC b d, .unit)
  | .clear => (Builder.clear b, .unit)
  | .size => (b, .num (Builder.size b))
  | .toStr => (b, .str (Builder.toStr b))

def stepBSpec (ps : List Bytes) : BOp → List Bytes × BRes
  | .append d => (ps ++ [d], .unit)
  | .appendC d => (ps ++ [d.takeWhile (· != 0)], .unit)
  | .clear => ([], .unit)
  | .size => (ps, .num ps.length)
  | .toStr => (ps, .str ps.flatten)

def runB (b : Builder) : List BOp → List BRes
  | [] => []
  | o :: os => (stepB b o).2 :: runB (stepB b o).1 os

def runBSpec (ps : List Bytes) : List BOp → List BRes
  | [] => []
  | o :: os => (stepBSpec ps o).2 :: runBSpec (stepBSpec ps o).1 os

/-- **C17 (string builder)**: for every operation sequence the builder behaves as the list of pieces appended since the last clear:
    the size is the number of pieces and `bstr_builder_to_str` is their concatenation in order, across growth of the piece list. -/
theorem C17_builder_sim (b : Builder) (w : Ring.WF b.pieces) (ops : List BOp) : runB b ops = runBSpec (Ring.abs b.pieces) ops := by
  induction ops generalizing b with
  | nil => rfl
  | cons o os ih =>
    unfold runB runBSpec
    cases o with
    | append d =>
      simp only [stepB, stepBSpec]
      rw [ih (Builder.append b d) (Ring.push_wf _ w _)]
      simp [Builder.append, Ring.abs_push _ w]
    | appendC d =>
      simp only [stepB, stepBSpec]
      rw [ih (Builder.appendC b d) (Ring.push_wf _ w _)]
      simp [Builder.appendC, Builder.append, Ring.abs_push _ w]
    | clear =>
      simp only [stepB, stepBSpec]
      have hc : Ring.abs (Builder.clear b).pieces = [] ∧ Ring.WF (Builder.clear b).pieces := by
        unfold Builder.clear
        split
        · rename_i h
          refine ⟨?_, w⟩
          apply List.eq_nil_of_length_eq_zero
          simpa [Builder.size, Ring.size] using h
        · refine ⟨?_, Ring.clear_wf _ w⟩
          apply List.eq_nil_of_length_eq_zero
          simp [Ring.clear]
      rw [ih (Builder.clear b) hc.2, hc.1]
    | size =>
      simp only [stepB, stepBSpec]
      rw [ih b w]
      simp [Builder.size, Ring.size]
    | toStr =>
      simp only [stepB, stepBSpec]
      rw [ih b w, Builder.toStr_eq]

theorem C17_builder_sim_fresh (ops : List BOp) : runB Builder.create ops = runBSpec [] ops := by
  have h := C17_builder_sim Builder.create (Ring.create_wf 16 (by decide)) ops
  have e : Ring.abs (Builder.create).pieces = [] := by
    apply List.eq_nil_of_length_eq_zero; simp [Builder.create, Ring.create]
  rw [e] at h; exact h

example : runB Builder.create [.append (b!"ab"), .appendC [0x63, 0x00, 0x64], .size, .toStr, .clear, .size, .toStr]
    = [.unit, .unit, .num 2, .str (b!"abc"), .unit, .num 0, .str []] := by decide
end

/-! ### string and number primitives equal their mathematical definitions (proofs in Lemmas/Prims.lean) -/
section
open Htp.Gen Htp.Bstr Htp.Num

/-- bstr_util_cmp_mem returns 0 exactly for equal byte strings -/
theorem C17_cmp_eq_zero_iff (a b : Bytes) : cmpMem a b = 0 ↔ a = b := by
  first | exact prim_cmp_eq_zero_iff .. | (apply prim_cmp_eq_zero_iff <;> assumption)

/-- the three-way result is antisymmetric -/
theorem C17_cmp_antisymm (a b : Bytes) : cmpMem b a = - cmpMem a b := by
  first | exact prim_cmp_antisymm .. | (apply prim_cmp_antisymm <;> assumption)

/-- the case-insensitive comparison is the exact comparison of the lower-cased strings -/
theorem C17_cmp_nocase_eq (a b : Bytes) : cmpMemNocase a b = cmpMem (lower a) (lower b) := by
  first | exact prim_cmp_nocase_eq .. | (apply prim_cmp_nocase_eq <;> assumption)

/-- the NUL-skipping comparison ignores the NUL bytes of its first argument and nothing else -/
theorem C17_cmp_norzero_eq (a b : Bytes) : cmpMemNocaseNorzero a b = cmpMemNocase (a.filter (· != 0)) b := by
  first | exact prim_cmp_norzero_eq .. | (apply prim_cmp_norzero_eq <;> assumption)

/-- bstr_begins_with_mem is the prefix relation -/
theorem C17_begins_with_iff (hay needle : Bytes) : beginsWithMem hay needle = true ↔ needle <+: hay := by
  first | exact prim_begins_with_iff .. | (apply prim_begins_with_iff <;> assumption)

/-- the case-insensitive prefix test is the exact test on the lower-cased strings -/
theorem C17_begins_with_nocase_eq (hay needle : Bytes) : beginsWithMemNocase hay needle = beginsWithMem (lower hay) (lower needle) := by
  first | exact prim_begins_with_nocase_eq .. | (apply prim_begins_with_nocase_eq <;> assumption)

/-- bstr_util_mem_index_of_mem returns the LEAST offset below the haystack's length at which the needle matches, and none iff there is no such offset -/
theorem C17_index_of_some (hay needle : Bytes) (r : Nat) (h : indexOfMem hay needle = some r) :
    r < hay.length ∧ needle <+: hay.drop r ∧ ∀ j, j < r → ¬ needle <+: hay.drop j := by
  first | exact prim_index_of_some .. | (apply prim_index_of_some <;> assumption)

theorem C17_index_of_none (hay needle : Bytes) (h : indexOfMem hay needle = none) :
    ∀ j, j < hay.length → ¬ needle <+: hay.drop j := by
  first | exact prim_index_of_none .. | (apply prim_index_of_none <;> assumption)

/-- bstr_chr returns the index of the first occurrence -/
theorem C17_chr_eq (b : Bytes) (c : UInt8) : chr b c = b.findIdx? (· == c) := by
  first | exact prim_chr_eq .. | (apply prim_chr_eq <;> assumption)

/-- bstr_to_lowercase / bstr_chop / bstr_add_mem_noex -/
theorem C17_lowercase_length (b : Bytes) : (toLowercase b).length = b.length := by
  first | exact prim_lowercase_length .. | (apply prim_lowercase_length <;> assumption)

theorem C17_add_noex_prefix (cap : Nat) (dst src : Bytes) (h : dst.length ≤ cap) :
    (addMemNoex cap dst src) = dst ++ src.take (cap - dst.length) ∧ (addMemNoex cap dst src).length ≤ cap := by
  first | exact prim_add_noex_prefix .. | (apply prim_add_noex_prefix <;> assumption)

/-- **C17 (number parsing)**: for a non-empty string of digits of the base whose positional value fits, bstr_util_mem_to_pint returns
    exactly that value and reports the whole string as consumed (lastlen = length + 1, as the C code documents). -/
theorem C17_pint_digits (base : Nat) (hb : 0 < base) (c : UInt8) (cs : Bytes)
    (hd : ∀ x ∈ c :: cs, ∃ d, digitVal x = some d ∧ d < base) (hfit : valueOf base (c :: cs) 0 ≤ INT64_MAX') :
    memToPint (c :: cs) base = (((valueOf base (c :: cs) 0 : Nat) : Int), (c :: cs).length + 1) := by
  first | exact prim_pint_digits .. | (apply prim_pint_digits <;> assumption)

/-- a byte that is not a digit of the base ends the number: nothing before it -> -1, otherwise the value so far and its offset -/
theorem C17_pint_no_digit (base : Nat) (c : UInt8) (cs : Bytes) (h : ∀ d, digitVal c = some d → d ≥ base) :
    memToPint (c :: cs) base = (-1, 0) := by
  first | exact prim_pint_no_digit .. | (apply prim_pint_no_digit <;> assumption)

/-- **C17 (integer with surrounding blanks)**: optional blanks, a non-empty digit string of the base whose value fits, optional blanks:
    htp_parse_positive_integer_whitespace returns exactly the positional value. -/
theorem C17_ppiw_value (base : Nat) (hb : 0 < base) (ws1 ws2 : Bytes) (c : UInt8) (cs : Bytes)
    (h1 : ∀ x ∈ ws1, isLws x = true) (h2 : ∀ x ∈ ws2, isLws x = true)
    (hd : ∀ x ∈ c :: cs, ∃ d, digitVal x = some d ∧ d < base) (hfit : valueOf base (c :: cs) 0 ≤ INT64_MAX') :
    parsePositiveIntegerWhitespace (ws1 ++ (c :: cs) ++ ws2) base = ((valueOf base (c :: cs) 0 : Nat) : Int) := by
  first | exact prim_ppiw_value .. | (apply prim_ppiw_value <;> assumption)

/-- **C17 (chunk length)**: control bytes, then a non-empty run of hexadecimal digits, then anything that does not continue the run:
    htp_parse_chunked_length returns the hexadecimal value of the run when it fits in 31 bits and -1 when it is larger (and fits in 63). -/
theorem C17_chunked_length_value (ctl : Bytes) (c : UInt8) (cs rest : Bytes)
    (hctl : ∀ x ∈ ctl, isChunkedCtl x = true) (hc0 : isChunkedCtl c = false)
    (hd : ∀ x ∈ c :: cs, isHexDigitC x = true) (hrest : ∀ w ws, rest = w :: ws → isHexDigitC w = false)
    (hfit : valueOf 16 (c :: cs) 0 ≤ INT64_MAX') :
    (parseChunkedLength (ctl ++ (c :: cs) ++ rest)).1 =
      if valueOf 16 (c :: cs) 0 > INT32_MAX' then -1 else ((valueOf 16 (c :: cs) 0 : Nat) : Int) := by
  first | exact prim_chunked_length_value .. | (apply prim_chunked_length_value <;> assumption)

/-- **C17 (Content-Length value)**: anything that is not a decimal digit, then a non-empty run of decimal digits whose value fits, then
    either the end or a byte that is not a decimal digit: htp_parse_content_length returns the value of that first run. -/
theorem C17_content_length_value (pre : Bytes) (c : UInt8) (cs post : Bytes)
    (hpre : ∀ x ∈ pre, (x.toNat < 48 || x.toNat > 57) = true)
    (hd : ∀ x ∈ c :: cs, ∃ d, digitVal x = some d ∧ d < 10) (hfit : valueOf 10 (c :: cs) 0 ≤ INT64_MAX')
    (hpost : ∀ w ws, post = w :: ws → ∀ d, digitVal w = some d → d ≥ 10) :
    parseContentLength (pre ++ (c :: cs) ++ post) = ((valueOf 10 (c :: cs) 0 : Nat) : Int) :=
  prim_content_length_value pre c cs post hpre hd hfit hpost

example : memToPint (b!"1234") 10 = (1234, 5) ∧ memToPint (b!"ff") 16 = (255, 3) ∧ memToPint (b!"x1") 10 = (-1, 0) := by decide
example : parsePositiveIntegerWhitespace (b!" \t 1f \t") 16 = 31 := by decide
example : (parseChunkedLength (b!"\t1A;ext")).1 = 26 := by decide
example : parseContentLength (b!" 42; x") = 42 := by decide

end

/-! ### The code itself: leaf functions translated from the current /repo sources

`HtpModel/Gen/CFuns.lean` is written on every run by the control-flow translator `extract/ctrans.py` from clang's typed AST of the current
sources; the terms live in the small C semantics of `HtpModel/CSem.lean` (stores wrap to the C type, a read outside the array is undefined,
loops take fuel). The theorems below say that the TRANSLATED function - not a hand-written copy of it - returns the model's value for
every input, that every read stays inside the arrays handed in, and that the loops finish within the stated number of turns. Together with
the theorems above about the model functions they are statements about the code as it is now; a change to one of these C functions
changes the generated term and the proof stops checking. -/
section Translated
open Htp.Gen.C Htp.CSem Htp.Bstr Htp.Num

/-- every function on the translator's list is inside the translated subset on this run -/
theorem C17_translator_complete : Htp.Gen.C.untranslated = [] := by decide

/-- **C17 (bstr_util_cmp_mem, translated code)**: for all byte strings below 2^63 bytes the C function, as translated, returns the model's
    three-way result, with every read inside the two arrays and the loop finished within len1 + 1 turns -/
theorem C17_translated_cmp_mem (d1 d2 : Bytes) (h1 : d1.length < 9223372036854775808) (h2 : d2.length < 9223372036854775808)
    (fuel : Nat) (hf : d1.length < fuel) :
    (bstr_util_cmp_mem fuel d1 d2 d1.length d2.length).map (·.1) = some (cmpMem d1 d2) :=
  Htp.CFuns.bstr_util_cmp_mem_eq d1 d2 h1 h2 fuel hf

/-- ... hence the translated code returns 0 exactly for equal strings (with `C17_cmp_eq_zero_iff`) -/
theorem C17_translated_cmp_mem_zero_iff (d1 d2 : Bytes) (h1 : d1.length < 9223372036854775808) (h2 : d2.length < 9223372036854775808) :
    (bstr_util_cmp_mem (d1.length + 1) d1 d2 d1.length d2.length).map (·.1) = some 0 ↔ d1 = d2 := by
  rw [C17_translated_cmp_mem d1 d2 h1 h2 _ (Nat.lt_succ_self _)]
  constructor
  · intro h; exact (C17_cmp_eq_zero_iff d1 d2).mp (Option.some.inj h)
  · intro h; rw [(C17_cmp_eq_zero_iff d1 d2).mpr h]

/-- **C17 (bstr_util_cmp_mem_nocase, translated code)** -/
theorem C17_translated_cmp_mem_nocase (d1 d2 : Bytes) (h1 : d1.length < 9223372036854775808) (h2 : d2.length < 9223372036854775808)
    (fuel : Nat) (hf : d1.length < fuel) :
    (bstr_util_cmp_mem_nocase fuel d1 d2 d1.length d2.length).map (·.1) = some (cmpMemNocase d1 d2) :=
  Htp.CFuns.bstr_util_cmp_mem_nocase_eq d1 d2 h1 h2 fuel hf

/-- **C17 (bstr_util_mem_index_of_mem, translated code)**: the nested search loop returns the first offset at which the needle occurs, -1 when
    there is none (`C17_index_of_some` / `C17_index_of_none` say what the model's value is); the haystack bound is what makes the C
    conversion `(int) i` exact -/
theorem C17_translated_index_of_mem (hay needle : Bytes) (h1 : hay.length ≤ 2147483648) (fuel : Nat) (hf : hay.length < fuel) :
    (bstr_util_mem_index_of_mem fuel hay needle hay.length needle.length).map (·.1)
      = some (match indexOfMem hay needle with | some i => (i : Int) | none => -1) :=
  Htp.CFuns.bstr_util_mem_index_of_mem_eq hay needle h1 fuel hf

/-- **C17 (character predicates, translated code)**: htp_is_lws / htp_is_text / htp_is_folding_char as translated return, on every byte, what the
    regenerated (and pinned) class tables say - the tables are tabulated by RUNNING the compiled functions, the terms are translated from their
    SOURCE: two independent routes from the code to the model that must meet. htp_is_folding_char(-1), the 'no byte' case, is 0. -/
theorem C17_translated_char_predicates (fuel : Nat) (c : UInt8) :
    (htp_is_lws fuel c.toNat).map (·.1) = some (b2i (Htp.Gen.isLws c)) ∧
    (htp_is_text fuel c.toNat).map (·.1) = some (b2i (Htp.Gen.isText c)) ∧
    (htp_is_folding_char fuel c.toNat).map (·.1) = some (b2i (Htp.Gen.isFoldingChar c)) ∧
    (htp_is_folding_char fuel (-1)).map (·.1) = some (b2i Htp.Gen.isFoldingCharNeg1) :=
  ⟨Htp.CFuns.htp_is_lws_eq fuel c, Htp.CFuns.htp_is_text_eq fuel c, Htp.CFuns.htp_is_folding_char_eq fuel c,
   Htp.CFuns.htp_is_folding_char_neg1 fuel⟩

/-- **C17 (line predicates, translated code)**: htp_is_line_empty for every buffer (the lazy && / || keep both reads inside it), and
    htp_is_line_whitespace for every buffer below 2^63 bytes within len + 1 loop turns, return the connection model's predicates -/
theorem C17_translated_line_predicates (d : Bytes) (h1 : d.length < 9223372036854775808) (fuel : Nat) (hf : d.length < fuel) :
    (htp_is_line_empty fuel d d.length).map (·.1) = some (b2i (Htp.Parse.isLineEmpty d)) ∧
    (htp_is_line_whitespace fuel d d.length).map (·.1) = some (b2i (Htp.Parse.isLineWhitespace d)) :=
  ⟨Htp.CFuns.htp_is_line_empty_eq fuel d, Htp.CFuns.htp_is_line_whitespace_eq d h1 fuel hf⟩

/-- **C17 (htp_chomp, translated code)**: the loop that strips line terminators from the END of a buffer (`data[*len - 1]`, several exits inside
    the loop) returns the model's count and leaves `*len` at the length of the model's result, which is a prefix of the input: the pair
    determines the result. Every read is inside the buffer (in particular `*len - 1` never wraps), at most len + 1 turns. -/
theorem C17_translated_chomp (d : Bytes) (h1 : d.length < 9223372036854775808) (fuel : Nat) (hf : d.length < fuel) :
    (htp_chomp fuel d d.length).map (fun r => (r.1, r.2.len)) = some (((Htp.Parse.chomp d).2 : Int), ((Htp.Parse.chomp d).1.length : Int)) ∧
    (Htp.Parse.chomp d).1 = d.take (Htp.Parse.chomp d).1.length :=
  ⟨Htp.CFuns.htp_chomp_eq d h1 fuel hf, Htp.CFuns.chomp_prefix d⟩

example : (htp_chomp 7 (b!"abc\r\n\n") 6).map (fun r => (r.1, r.2.len)) = some (2, 3) := by decide +kernel

/-- **C17 (search family, translated code)**: the case-insensitive search and the two NUL-skipping functions - including the `j--; continue`
    of the inner loop, whose `size_t` wrap at j = 0 is undone by the for-increment - return the model's values -/
theorem C17_translated_search_family (hay needle : Bytes) (h1 : hay.length ≤ 2147483648) (fuel : Nat) (hf : hay.length < fuel) :
    (bstr_util_mem_index_of_mem_nocase fuel hay needle hay.length needle.length).map (·.1)
      = some (match indexOfMemNocase hay needle with | some i => (i : Int) | none => -1) ∧
    (bstr_util_mem_index_of_mem_nocasenorzero fuel hay needle hay.length needle.length).map (·.1)
      = some (match indexOfMemNocaseNorzero hay needle with | some i => (i : Int) | none => -1) :=
  ⟨Htp.CFuns.bstr_util_mem_index_of_mem_nocase_eq hay needle h1 fuel hf,
   Htp.CFuns.bstr_util_mem_index_of_mem_nocasenorzero_eq hay needle h1 fuel hf⟩

theorem C17_translated_cmp_mem_nocasenorzero (d1 d2 : Bytes) (h1 : d1.length < 9223372036854775808) (h2 : d2.length < 9223372036854775808)
    (fuel : Nat) (hf : d1.length < fuel) :
    (bstr_util_cmp_mem_nocasenorzero fuel d1 d2 d1.length d2.length).map (·.1) = some (cmpMemNocaseNorzero d1 d2) :=
  Htp.CFuns.bstr_util_cmp_mem_nocasenorzero_eq d1 d2 h1 h2 fuel hf

/-- **C17 (bstr_util_mem_to_pint, translated code)**: for every array `x ++ junk` handed in with length |x| (the true contract of a
    (pointer, length) function), every base and every initial `*lastlen`, the C function as translated returns the model's value and `*lastlen`.
    The two stores `rval *= base; rval += d` go through the int64 wrap in the translated term; the proof shows they never wrap BECAUSE of the guard
    `(INT64_MAX - d) / base < rval -> return -2` - so the function reports -2 instead of wrapping, for all inputs. -/
theorem C17_translated_mem_to_pint (x junk : Bytes) (base : Nat) (l0 : Int) (hx : x.length < 9223372036854775808)
    (fuel : Nat) (hf : x.length < fuel) :
    (bstr_util_mem_to_pint fuel (x ++ junk) x.length base l0).map (fun r => (r.1, r.2.lastlen))
      = some ((memToPint x base).1, ((memToPint x base).2 : Int)) :=
  Htp.CFuns.bstr_util_mem_to_pint_eq x junk base l0 hx fuel hf

/-- **C17 (htp_parse_positive_integer_whitespace, translated code)** (with `C17_ppiw_value` this is the mathematical value of the digits) -/
theorem C17_translated_ppiw (x junk : Bytes) (base : Nat) (hx : x.length < 9223372036854775808) (fuel : Nat) (hf : x.length < fuel) :
    (htp_parse_positive_integer_whitespace fuel (x ++ junk) x.length base).map (·.1) = some (parsePositiveIntegerWhitespace x base) :=
  Htp.CFuns.htp_parse_positive_integer_whitespace_eq x junk base hx fuel hf

/-- **C17 (port, translated code: exact value or an error, never a wrapped value)**: htp_parse_port (static in htp_util.c) always returns, and
    either `*port = -1` with `*invalid = 1`, or `*port` is the exact unbounded value of the digits, that value lies in 1..65535 and `*invalid`
    is untouched. The conversion `(int) port_parsed` is part of the translated term (`i32`), so a narrower variable type - seeded change C17e -
    changes the term and this proof fails. -/
theorem C17_translated_port_exact_or_error (d : Bytes) (p0 i0 : Int) (hd : d.length < 9223372036854775808) (fuel : Nat) (hf : d.length < fuel) :
    ∃ r, htp_parse_port fuel d d.length p0 i0 = some r ∧
      ((r.2.port = -1 ∧ r.2.invalid = 1) ∨
       (r.2.port = parsePositiveIntegerWhitespace d 10 ∧ 1 ≤ r.2.port ∧ r.2.port ≤ 65535 ∧ r.2.invalid = i0)) :=
  Htp.CFuns.htp_parse_port_exact_or_error d p0 i0 hd fuel hf

/-- **C17 (htp_parse_chunked_length, translated code)**: three loops (one of them moves the data pointer), then the call of the translated
    htp_parse_positive_integer_whitespace on the digit run with MORE bytes behind it - value and `*extension` are the model's -/
theorem C17_translated_chunked_length (d : Bytes) (h1 : d.length < 9223372036854775808) (fuel : Nat) (hf : d.length + 1 < fuel) (e0 : Int) :
    (htp_parse_chunked_length fuel d d.length e0).map (fun r => (r.1, r.2.extension))
      = some ((parseChunkedLength d).1, if (parseChunkedLength d).2 then 1 else e0) := by
  apply Htp.CFuns.htp_parse_chunked_length_eq _ d h1 fuel hf e0
  intro fuel x junk base hl _ _ hfu
  have hx : x.length < 9223372036854775808 := by
    have : (x ++ junk).length = x.length + junk.length := List.length_append
    omega
  exact Htp.CFuns.htp_parse_positive_integer_whitespace_eq x junk base hx fuel (by omega)

/-- **C17 (the ring buffer, translated code)**: htp_list_array_get / pop / push / replace / size / shift / clear as translated from htp_list.c
    (struct fields passed one by one, `elements` a mutable array, realloc / malloc / the two memcpy calls of the growth step as array
    operations), run one after the other from `htp_list_array_create(n)`, return for EVERY operation sequence the observations of a
    double-ended sequence and end in a well-formed ring whose abstraction is that sequence - the refinement `ring_sim` carried over to the
    code itself (capacity below 2^61 so that `max_size * 2` does not wrap; allocations succeed, failure is `htp_list_array_push_nomem`).
    Proving the step for `replace` is what found S43 (`Lemmas/CFunsRing.lean`, section 5). -/
theorem C17_translated_ring_sim (n : Nat) (hn : 0 < n) (ops : List Htp.CFuns.COp)
    (hK : n + ops.length < 2305843009213693952) :
    ∃ f, Htp.CFuns.runC (Htp.CFuns.fieldsOf (Htp.Ring.create n)) ops = some (f, (Htp.CFuns.runS [] ops).2) ∧
      Htp.Ring.WF (Htp.CFuns.ringOf f) ∧ Htp.Ring.abs (Htp.CFuns.ringOf f) = (Htp.CFuns.runS [] ops).1 :=
  Htp.CFuns.cring_sim_fresh n hn ops (fun _ _ => by unfold Htp.CFuns.COp.ok; split <;> trivial) hK

/-- **C17 (bstr accessors, translated code)**: the functions that take a `bstr *` (content and length passed as a buffer and an integer; bstr_ptr /
    bstr_len / bstr_adjust_len recognised by the translator) - indexed access from both ends, first and last occurrence of a byte (the C scans
    backwards, the model forwards: proved to meet), prefix tests with and without case folding, chop, and the in-place lower-casing loop that
    WRITES the buffer - return the model's values, for every string. -/
theorem C17_translated_bstr_access (d : Bytes) (h : d.length < 2147483648) (fuel : Nat) (hf : d.length < fuel) (pos : Nat) (c : UInt8) :
    (bstr_char_at fuel (memOf d) d.length pos).map (·.1) = some (match charAt d pos with | some x => (x.toNat : Int) | none => -1) ∧
    (bstr_char_at_end fuel (memOf d) d.length pos).map (·.1) = some (match charAtEnd d pos with | some x => (x.toNat : Int) | none => -1) ∧
    (bstr_chr fuel (memOf d) d.length c.toNat).map (·.1) = some (match chr d c with | some i => (i : Int) | none => -1) ∧
    (bstr_rchr fuel (memOf d) d.length c.toNat).map (·.1) = some (match rchr d c with | some i => (i : Int) | none => -1) :=
  ⟨Htp.CFuns.BstrC.bstr_char_at_eq fuel d pos, Htp.CFuns.BstrC.bstr_char_at_end_eq fuel d (by omega) pos,
   Htp.CFuns.BstrC.bstr_chr_eq d c h fuel hf, Htp.CFuns.BstrC.bstr_rchr_eq d c h fuel hf⟩

/-- prefix tests, chop and the in-place lower-casing (which writes the buffer) -/
theorem C17_translated_bstr_prefix_lower (hay needle : Bytes) (h1 : hay.length < 9223372036854775808)
    (h2 : needle.length < 9223372036854775808) (fuel : Nat) (hf : hay.length < fuel) :
    (bstr_begins_with_mem fuel needle (memOf hay) hay.length needle.length).map (·.1) = some (b2i (beginsWithMem hay needle)) ∧
    (bstr_begins_with_mem_nocase fuel needle (memOf hay) hay.length needle.length).map (·.1) = some (b2i (beginsWithMemNocase hay needle)) ∧
    (bstr_chop fuel (memOf hay) hay.length).map (fun r => (r.2.b_len, r.2.b_mem)) = some (((chop hay).length : Int), memOf hay) ∧
    (bstr_to_lowercase fuel (memOf hay) hay.length).map (fun r => (r.1, r.2.b_len, r.2.b_mem))
      = some (1, (hay.length : Int), memOf (toLowercase hay)) := by
  have hm : min hay.length needle.length < fuel := by omega
  refine ⟨Htp.CFuns.BstrC.bstr_begins_with_mem_eq hay needle h1 h2 fuel hm,
          Htp.CFuns.BstrC.bstr_begins_with_mem_nocase_eq hay needle h1 h2 fuel hm, ?_, ?_⟩
  · rw [Htp.CFuns.BstrC.bstr_chop_eq fuel hay h1]; rfl
  · rw [Htp.CFuns.BstrC.bstr_to_lowercase_eq hay h1 fuel hf]; rfl

/-- non-vacuity: the translated terms run -/
example : (bstr_util_cmp_mem 3 (b!"ab") (b!"ac") 2 2).map (·.1) = some (-1) := by decide +kernel
example : (bstr_util_mem_index_of_mem 6 (b!"hello") (b!"llo") 5 3).map (·.1) = some 2 := by decide +kernel

end Translated

end Htp.C17
