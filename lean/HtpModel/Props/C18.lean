/- C18 — allocation failure anywhere is survived without memory unsafety.

   Whether the C heap is used safely is a runtime fact; what a model can carry is the ownership logic: which blocks a function
   group allocates and releases, in which order, on each failure path. `HtpModel.Own` mirrors that logic for the containers
   every other object is built from (list with growth, table, bstr growth, string builder) and for the connection object, as
   traces over an abstract heap in which the k-th allocation fails; the correspondence check compares these traces with the
   real allocator calls of the library for every k. Proved here:
   * `C18_list_clean`: for EVERY capacity, EVERY number of pushes and EVERY k (no bounds, induction over the pushes with the
     invariant "the list owns exactly its two live blocks"): nothing not live is freed, nothing twice, nothing stays live;
   * `C18_conn_clean`, `C18_table_clean`, `C18_bstr_clean`, `C18_builder_clean`: the same for the other scenarios, for every k up
     to past the last allocation of the fault-free run (a finite domain - that IS the property's quantifier for a fixed call
     sequence - enumerated completely by kernel evaluation);
   * `C18_conn_open_double_free_before_fix`: the double free in htp_conn_open found by the sweep (repaired in /repo).
   NOT modelled: every other allocation site of the library (transactions, headers, parts, hooks, decompressors, log messages);
   those are covered only by the sweep of checks/c18.py (ASan/UBSan/LSan with every k), which is a search, not a proof. -/
import HtpModel.Lemmas.Own

namespace Htp.Own

/-- **C18 (list)**: create a list with any capacity, push any number of elements (growth included), destroy it, with any single
    allocation of the sequence failing (or none): no block is freed that is not live, none is freed twice, none stays live. -/
theorem C18_list_clean (cap n k : Nat) : (listScenario cap n k).1.clean = true := by
  unfold listScenario
  simp only
  cases e : listCreate cap { countdown := k } with
  | mk h o =>
    cases o with
    | none =>
      have := listCreate_none cap _ h rfl rfl e
      simp [H.clean, this.1, this.2]
    | some l =>
      simp only
      have hi := listCreate_inv cap _ h l rfl rfl e
      have h2 := listPushes_inv n l h 0 hi
      have := listDestroy_clean _ _ h2
      simp [H.clean, this.1, this.2]

/-- **C18 (connection object)**: htp_conn_create / htp_conn_open / htp_conn_destroy with the k-th allocation failing, for every k
    up to past the seven allocations of the fault-free run (a later k never fires): clean. -/
theorem C18_conn_clean : ∀ k, k ≤ 9 → (connScenario true k).1.clean = true := by decide

/-- before the repair (the released client address stayed in the structure) the failure of the seventh allocation - the
    strdup of the server address - made htp_conn_destroy free the client address a second time -/
theorem C18_conn_open_double_free_before_fix : (connScenario false 7).1.bad = true := by decide

theorem C18_bstr_clean : ∀ k, k ≤ 4 → (bstrScenario k).1.clean = true := by decide
theorem C18_table_clean : ∀ k, k ≤ 12 → (tableScenario 3 k).1.clean = true := by decide
theorem C18_builder_clean : ∀ k, k ≤ 8 → (builderScenario k).1.clean = true := by decide

/-- non-vacuity: the failing allocation really fires inside the scenarios (k = 2 makes the slot array of the list fail) -/
example : (listScenario 2 3 2).1.trace.contains .fail = true ∧ (listScenario 2 3 3).2 = 2 := by decide

end Htp.Own
