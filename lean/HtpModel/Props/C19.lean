/- C19 — parsers sharing one configuration are independent. -/
import HtpModel.Conn.Res
import HtpModel.Gen.Footprint

namespace Htp.C19
open Htp.Conn Htp.Gen

/-- the API calls of one connection parser -/
inductive Call where
  | open | req (d : Option Bytes) (len : Nat) | res (d : Option Bytes) (len : Nat) | close | reqClose | txFreed

/-- one call on one connection: the configuration is an ARGUMENT and never a result — the model's form of
    "the shared configuration is never written during parsing" -/
def call (cfg : Cfg) (c : Conn) : Call → Conn × Nat
  | .open => (connOpen c, 0)
  | .req d n => reqData cfg d n c
  | .res d n => resData cfg d n c
  | .close => let r := connClose cfg c; (r.1, r.2.1)
  | .reqClose => reqClose cfg c
  | .txFreed => txFreed c

/-- a family of connections indexed by id, all created from the same configuration -/
abbrev Family := Nat → Conn

def stepFamily (cfg : Cfg) (f : Family) (k : Nat) (op : Call) : Family × Nat :=
  let r := call cfg (f k) op
  (fun j => if j = k then r.1 else f j, r.2)

/-- run a schedule (which connection makes which call, in which order); returns the family and every call's result with its owner -/
def runSchedule (cfg : Cfg) : Family → List (Nat × Call) → Family × List (Nat × Nat)
  | f, [] => (f, [])
  | f, (k, op) :: rest =>
    let (f', r) := stepFamily cfg f k op
    let (f'', rs) := runSchedule cfg f' rest
    (f'', (k, r) :: rs)

/-- the calls of connection `k` in a schedule, in order -/
def project (k : Nat) (s : List (Nat × Call)) : List Call := (s.filter (·.1 = k)).map (·.2)

def runSolo (cfg : Cfg) : Conn → List Call → Conn × List Nat
  | c, [] => (c, [])
  | c, op :: rest =>
    let (c', r) := call cfg c op
    let (c'', rs) := runSolo cfg c' rest
    (c'', r :: rs)

/-- **C19 (call-level independence)**: for every configuration, every family of connections and EVERY interleaving of their
    calls, each connection ends in exactly the state — and returns exactly the results — of running its own calls alone.
    (Every `Conn` value carries its own callback log, so "same callback sequence" is part of "same state".) -/
theorem C19_interleave (cfg : Cfg) (f : Family) (s : List (Nat × Call)) (k : Nat) :
    (runSchedule cfg f s).1 k = (runSolo cfg (f k) (project k s)).1 ∧
    ((runSchedule cfg f s).2.filter (·.1 = k)).map (·.2) = (runSolo cfg (f k) (project k s)).2 := by
  induction s generalizing f with
  | nil => exact ⟨rfl, rfl⟩
  | cons hd rest ih =>
    obtain ⟨j, op⟩ := hd
    simp only [runSchedule, stepFamily]
    by_cases hjk : j = k
    · subst hjk
      have h := ih (fun i => if i = j then (call cfg (f j) op).1 else f i)
      simp only [project, List.filter_cons, decide_true, if_true, List.map_cons, runSolo] at h ⊢
      exact ⟨h.1, by rw [h.2]⟩
    · have h := ih (fun i => if i = j then (call cfg (f j) op).1 else f i)
      have hne : ¬ (k = j) := fun e => hjk e.symm
      simp only [project, List.filter_cons, hjk, decide_false, Bool.false_eq_true, if_false] at h ⊢
      simp only [hne, if_false] at h
      exact h

/-- **C19 (write footprint, regenerated every run from the compiled objects and the sources)**: the only writable data symbols of
    the library are the two reviewed ones — `bestfit_1252` (a non-const table nobody stores to) and `lzma_Alloc` (function pointers
    in relocatable data) — and no source file other than htp_config.c stores through a configuration pointer. A new static cache,
    counter or a write to `cfg` during parsing breaks this obligation by name. -/
theorem C19_footprint :
    writableSymbols.map (·.2.1) = ["bestfit_1252", "lzma_Alloc"] ∧ cfgStores = [] := by
  decide

end Htp.C19
