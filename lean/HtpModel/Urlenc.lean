/- Model of htp_urlencoded.c: streaming key/value scanner with the field under construction
   carried across calls (pieces in a bstr_builder, `_name`, `_state`, `_complete`). -/
import HtpModel.Util.Decode
import HtpModel.Cfg

namespace Htp.Urlenc
open Htp.Gen Htp.Decode

inductive PState where | key | value
  deriving Repr, DecidableEq, Inhabited

structure S where
  state : PState := .key
  name : Option Bytes := none        -- urlenp->_name
  bb : List Bytes := []              -- pieces of the bstr_builder, oldest first
  complete : Bool := false
  params : List (Bytes × Bytes) := []   -- reversed (newest first)
  flags : Nat := 0                   -- tx->flags
  status : Int := 0                  -- tx->response_status_expected_number
  deriving Repr, DecidableEq, Inhabited

def AMP : UInt8 := 0x26
def EQS : UInt8 := 0x3d

/-- htp_tx_urldecode_params_inplace on one string, threading tx flags/status -/
def dec (cfg : DecoderCfg) (b : Bytes) (s : S) : Bytes × S :=
  let (o, f, st) := urldecodeEx cfg b s.flags s.status
  (o, { s with flags := f, status := st })

def addParam (cfg : DecoderCfg) (name value : Bytes) (s : S) : S :=
  let (n, s) := dec cfg name s
  { s with params := (n, value) :: s.params }

def addParam2 (cfg : DecoderCfg) (name value : Bytes) (s : S) : S :=
  let (n, s) := dec cfg name s
  let (v, s) := dec cfg value s
  { s with params := (n, v) :: s.params }

/-- the first half of htp_urlenp_add_field_piece: assemble the field from the builder and the piece -/
def assemble (s : S) (piece : Bytes) : Option Bytes × S :=
  if s.bb.length > 0 then
    let bb := if piece.length > 0 then s.bb ++ [piece] else s.bb
    (some bb.flatten, { s with bb := [] })
  else
    (if piece.length > 0 then some piece else none, s)

/-- the second half: what a delimiter (`last`, none = -1) or completion does with the field -/
def closeField (cfg : DecoderCfg) (s : S) (field : Option Bytes) (last : Option UInt8) : S :=
  match s.state with
  | .key =>
    if s.complete || last == some AMP then
      if field.isSome || last == some AMP then
        -- name only: value is the empty string and is NOT decoded
        { addParam cfg (field.getD []) [] s with name := none }
      else s
    else { s with name := field }
  | .value =>
    addParam2 cfg (s.name.getD []) (field.getD []) { s with name := none }

/-- htp_urlenp_add_field_piece(data, startpos, endpos, last_char): `piece` = data[startpos..endpos),
    `last` = the delimiter (none = -1) -/
def addFieldPiece (cfg : DecoderCfg) (s : S) (piece : Bytes) (last : Option UInt8) : S :=
  if last.isSome || s.complete then
    closeField cfg (assemble s piece).2 (assemble s piece).1 last
  else
    if piece.length > 0 then { s with bb := s.bb ++ [piece] } else s

/-- the do-while loop of htp_urlenp_parse_partial over one chunk; `cur` = data[startpos..pos) reversed -/
def feedLoop (cfg : DecoderCfg) : Bytes → Bytes → S → S
  | [], cur, s => addFieldPiece cfg s cur.reverse none
  | c :: rest, cur, s =>
    match s.state with
    | .key =>
      if c == EQS || c == AMP then
        let s := addFieldPiece cfg s cur.reverse (some c)
        feedLoop cfg rest [] { s with state := if c == AMP then .key else .value }
      else feedLoop cfg rest (c :: cur) s
    | .value =>
      if c == AMP then
        let s := addFieldPiece cfg s cur.reverse (some c)
        feedLoop cfg rest [] { s with state := .key }
      else feedLoop cfg rest (c :: cur) s

/-- htp_urlenp_parse_partial(data, len) with data non-NULL -/
def feed (cfg : DecoderCfg) (s : S) (chunk : Bytes) : S := feedLoop cfg chunk [] s

/-- htp_urlenp_finalize -/
def finalize (cfg : DecoderCfg) (s : S) : S := feedLoop cfg [] [] { s with complete := true }

/-- whole run: feed every chunk, finalize; parameters in insertion order -/
def run (cfg : DecoderCfg) (chunks : List Bytes) : List (Bytes × Bytes) × Nat × Int :=
  let s := finalize cfg (chunks.foldl (feed cfg) {})
  (s.params.reverse, s.flags, s.status)

end Htp.Urlenc
