/- Models of the in-place decoders of htp_util.c at list level.
   The C code reads ahead of the write cursor (`wpos ≤ rpos`, proved for the index-level
   twins in HtpModel/InPlace), so reading from the original input is exact.
   Multi-byte escapes are handled with a `skip` countdown so that every loop is a structural
   recursion that consumes exactly one input byte per step. -/
import HtpModel.Basic

namespace Htp.Decode
open Htp.Gen

/-- enum htp_url_encoding_handling_t: the three values the public setter's enum has -/
inductive InvalidHandling where | preserve | remove | process
  deriving Repr, DecidableEq, Inhabited

def InvalidHandling.fromCode (n : Nat) : Option InvalidHandling :=
  if n = URL_DECODE_PRESERVE_PERCENT then some .preserve
  else if n = URL_DECODE_REMOVE_PERCENT then some .remove
  else if n = URL_DECODE_PROCESS_INVALID then some .process
  else none

def handling (cfg : DecoderCfg) : InvalidHandling :=
  (InvalidHandling.fromCode cfg.urlEncodingInvalidHandling).getD .preserve

/-- static x2c (tabulated by the translator; separability checked over all pairs) -/
def x2c (a b : UInt8) : UInt8 := x2cHi a + x2cLo b

/-- `if (unwanted != HTP_UNWANTED_IGNORE) status = unwanted` -/
@[inline] def unwanted (u : Nat) (status : Int) : Int := if u != UNWANTED_IGNORE then (u : Int) else status

/-- best-fit lookup over the generated `bestfit_1252` triples -/
def bestfitLookup (c1 c2 : Nat) (dflt : UInt8) : List (Nat × Nat × Nat) → UInt8
  | [] => dflt
  | (a, b, r) :: rest => if a = c1 ∧ b = c2 then UInt8.ofNat r else bestfitLookup c1 c2 dflt rest

/-- decoder state shared by the path / urlencoded loops -/
structure St where
  out : Bytes := []        -- reversed
  flags : Nat := 0
  status : Int := 0
  prevSep : Bool := false
  stop : Bool := false     -- early return (NUL terminates)
  deriving Repr

/-- the part of the state a decoding decision may change: anomaly flags and expected status -/
structure FS where
  flags : Nat
  status : Int
  deriving Repr, DecidableEq

/-- what one loop iteration does with the output -/
inductive Act where
  | emit (c : UInt8) (skip : Nat)   -- write one byte (after the per-byte transforms), consume `skip` following bytes too
  | drop                             -- write nothing, consume the current byte only
  | stop                             -- terminate the string here
  deriving Repr, DecidableEq

/-- decode_u_encoding_path: four hex digits h1..h4 -/
def decodeUPath (cfg : DecoderCfg) (h1 h2 h3 h4 : UInt8) (s : FS) : UInt8 × FS :=
  let c1 := x2c h1 h2
  let c2 := x2c h3 h4
  let (r, s) :=
    if c1 == 0 then (c2, { s with flags := setFlag s.flags PATH_OVERLONG_U })
    else
      let s := if c1 == 0xff then { s with flags := setFlag s.flags PATH_HALF_FULL_RANGE } else s
      let s := { s with status := unwanted cfg.uEncodingUnwanted s.status }
      (bestfitLookup c1.toNat c2.toNat (UInt8.ofNat cfg.bestfitReplacementByte) bestfit1252, s)
  let s := if r == 0x2f || (cfg.backslashConvertSlashes && r == 0x5c)
           then { s with flags := setFlag s.flags PATH_ENCODED_SEPARATOR } else s
  (r, s)

/-- "Place the character into output" tail of the path loop -/
def emitPath (cfg : DecoderCfg) (c : UInt8) (s : St) : St :=
  let s := if c < 0x20 then { s with status := unwanted cfg.controlCharsUnwanted s.status } else s
  let c := if c == 0x5c && cfg.backslashConvertSlashes then 0x2f else c
  let c := if cfg.convertLowercase then cTolower c else c
  if cfg.pathSeparatorsCompress then
    if c == 0x2f then
      (if !s.prevSep then { s with out := c :: s.out, prevSep := true } else s)
    else { s with out := c :: s.out, prevSep := false }
  else { s with out := c :: s.out }

def invalidEnc (cfg : DecoderCfg) (s : FS) : FS :=
  { flags := setFlag s.flags PATH_INVALID_ENCODING, status := unwanted cfg.urlEncodingInvalidUnwanted s.status }

/-- the decision of one iteration of htp_decode_path_inplace at byte `c` followed by `tl` -/
def pathDecide (cfg : DecoderCfg) (c : UInt8) (tl : Bytes) (s : FS) : FS × Act :=
  if c == 0x25 then
    match tl with
    | a :: b :: more =>
      -- rpos + 2 < len
      if cfg.uEncodingDecode && (a == 0x75 || a == 0x55) then
        let s := { s with status := unwanted cfg.uEncodingUnwanted s.status }
        match more with
        | h2 :: h3 :: h4 :: _ =>
          -- rpos + 5 < len ; the four digits are b h2 h3 h4
          if cIsxdigit b && cIsxdigit h2 && cIsxdigit h3 && cIsxdigit h4 then
            let (r, s) := decodeUPath cfg b h2 h3 h4 s
            let s := if r == 0 then
                { flags := setFlag s.flags PATH_ENCODED_NUL, status := unwanted cfg.nulEncodedUnwanted s.status } else s
            (s, .emit r 5)
          else
            let s := invalidEnc cfg s
            match handling cfg with
            | .remove => (s, .drop)
            | .preserve => (s, .emit 0x25 0)
            | .process => let (r, s) := decodeUPath cfg b h2 h3 h4 s; (s, .emit r 5)
        | _ =>
          let s := invalidEnc cfg s
          match handling cfg with
          | .remove => (s, .drop)
          | _ => (s, .emit 0x25 0)
      else
        if cIsxdigit a && cIsxdigit b then
          let r := x2c a b
          let s := if r == 0 then
              { flags := setFlag s.flags PATH_ENCODED_NUL, status := unwanted cfg.nulEncodedUnwanted s.status } else s
          if r == 0 && cfg.nulEncodedTerminates then (s, .stop)
          else if r == 0x2f || (cfg.backslashConvertSlashes && r == 0x5c) then
            let s := { flags := setFlag s.flags PATH_ENCODED_SEPARATOR,
                       status := unwanted cfg.pathSeparatorsEncodedUnwanted s.status }
            if cfg.pathSeparatorsDecode then (s, .emit r 2) else (s, .emit 0x25 0)
          else (s, .emit r 2)
        else
          let s := invalidEnc cfg s
          match handling cfg with
          | .remove => (s, .drop)
          | .preserve => (s, .emit 0x25 0)
          | .process => (s, .emit (x2c a b) 2)
    | _ =>
      let s := invalidEnc cfg s
      match handling cfg with
      | .remove => (s, .drop)
      | _ => (s, .emit 0x25 0)
  else
    if c == 0 then
      let s := { s with status := unwanted cfg.nulRawUnwanted s.status }
      if cfg.nulRawTerminates then (s, .stop) else (s, .emit c 0)
    else (s, .emit c 0)

/-- carry out a decision: the only place where the path decoder writes output -/
def applyPath (cfg : DecoderCfg) (s : St) (d : FS × Act) : St × Nat :=
  let s := { s with flags := d.1.flags, status := d.1.status }
  match d.2 with
  | .emit c k => (emitPath cfg c s, k)
  | .drop => (s, 0)
  | .stop => ({ s with stop := true }, 0)

/-- one iteration of the loop of htp_decode_path_inplace at byte `c` followed by `tl`.
    Returns the new state and how many FOLLOWING bytes the iteration also consumed. -/
def pathStep (cfg : DecoderCfg) (c : UInt8) (tl : Bytes) (s : St) : St × Nat :=
  applyPath cfg s (pathDecide cfg c tl { flags := s.flags, status := s.status })

def pathLoop (cfg : DecoderCfg) : Bytes → Nat → St → St
  | [], _, s => s
  | c :: tl, skip, s =>
    if s.stop then s
    else match skip with
      | k + 1 => pathLoop cfg tl k s
      | 0 => let (s', k) := pathStep cfg c tl s; pathLoop cfg tl k s'

/-- htp_decode_path_inplace: (decoded bytes, flags, expected status) given the incoming tx flags/status -/
def decodePath (cfg : DecoderCfg) (input : Bytes) (flags : Nat) (status : Int) : Bytes × Nat × Int :=
  let s := pathLoop cfg input 0 { flags := flags, status := status }
  (s.out.reverse, s.flags, s.status)

/-! ### htp_urldecode_inplace_ex -/

/-- decode_u_encoding_params -/
def decodeUParams (cfg : DecoderCfg) (h1 h2 h3 h4 : UInt8) (s : FS) : UInt8 × FS :=
  let c1 := x2c h1 h2
  let c2 := x2c h3 h4
  if c1 == 0 then (c2, { s with flags := setFlag s.flags URLEN_OVERLONG_U })
  else
    let s := if c1 == 0xff && c2 ≤ 0xef then { s with flags := setFlag s.flags URLEN_HALF_FULL_RANGE } else s
    (bestfitLookup c1.toNat c2.toNat (UInt8.ofNat cfg.bestfitReplacementByte) bestfit1252, s)

def invalidEncU (cfg : DecoderCfg) (s : FS) : FS :=
  { flags := setFlag s.flags URLEN_INVALID_ENCODING, status := unwanted cfg.urlEncodingInvalidUnwanted s.status }

/-- tail of the `%` branch: "Did we get an encoded NUL byte?" then store -/
def pctAct (cfg : DecoderCfg) (c : UInt8) (k : Nat) (s : FS) : FS × Act :=
  if c == 0 then
    let s := { flags := setFlag s.flags URLEN_ENCODED_NUL, status := unwanted cfg.nulEncodedUnwanted s.status }
    if cfg.nulEncodedTerminates then (s, .stop) else (s, .emit c k)
  else (s, .emit c k)

def urlDecide (cfg : DecoderCfg) (c : UInt8) (tl : Bytes) (s : FS) : FS × Act :=
  if c == 0x25 then
    match tl with
    | a :: b :: more =>
      if cfg.uEncodingDecode && (a == 0x75 || a == 0x55) then
        let s := { s with status := unwanted cfg.uEncodingUnwanted s.status }
        match more with
        | h2 :: h3 :: h4 :: _ =>
          if cIsxdigit b && cIsxdigit h2 && cIsxdigit h3 && cIsxdigit h4 then
            let (r, s) := decodeUParams cfg b h2 h3 h4 s
            pctAct cfg r 5 s
          else
            let s := invalidEncU cfg s
            match handling cfg with
            | .remove => (s, .drop)
            | .preserve => pctAct cfg 0x25 0 s
            | .process => let (r, s) := decodeUParams cfg b h2 h3 h4 s; pctAct cfg r 5 s
        | _ =>
          let s := invalidEncU cfg s
          match handling cfg with
          | .remove => (s, .drop)
          | _ => pctAct cfg 0x25 0 s
      else
        if cIsxdigit a && cIsxdigit b then pctAct cfg (x2c a b) 2 s
        else
          let s := invalidEncU cfg s
          match handling cfg with
          | .remove => (s, .drop)
          | .preserve => pctAct cfg 0x25 0 s
          | .process => pctAct cfg (x2c a b) 2 s
    | _ =>
      let s := invalidEncU cfg s
      match handling cfg with
      | .remove => (s, .drop)
      | _ => pctAct cfg 0x25 0 s
  else if c == 0x2b then
    (s, .emit (if cfg.plusspaceDecode then 0x20 else c) 0)
  else
    if c == 0 then
      let s := { flags := setFlag s.flags URLEN_RAW_NUL, status := unwanted cfg.nulRawUnwanted s.status }
      if cfg.nulRawTerminates then (s, .stop) else (s, .emit c 0)
    else (s, .emit c 0)

/-- carry out a decision of the generic decoder: bytes are stored as they are -/
def applyUrl (s : St) (d : FS × Act) : St × Nat :=
  let s := { s with flags := d.1.flags, status := d.1.status }
  match d.2 with
  | .emit c k => ({ s with out := c :: s.out }, k)
  | .drop => (s, 0)
  | .stop => ({ s with stop := true }, 0)

def urlStep (cfg : DecoderCfg) (c : UInt8) (tl : Bytes) (s : St) : St × Nat :=
  applyUrl s (urlDecide cfg c tl { flags := s.flags, status := s.status })

def urlLoop (cfg : DecoderCfg) : Bytes → Nat → St → St
  | [], _, s => s
  | c :: tl, skip, s =>
    if s.stop then s
    else match skip with
      | k + 1 => urlLoop cfg tl k s
      | 0 => let (s', k) := urlStep cfg c tl s; urlLoop cfg tl k s'

/-- htp_urldecode_inplace_ex: (decoded, flags, expected status) -/
def urldecodeEx (cfg : DecoderCfg) (input : Bytes) (flags : Nat) (status : Int) : Bytes × Nat × Int :=
  let s := urlLoop cfg input 0 { flags := flags, status := status }
  (s.out.reverse, s.flags, s.status)

/-- htp_tx_urldecode_uri_inplace: decodes with the URL_PATH context and maps URLEN_* to PATH_* flags -/
def txUrldecodeUri (cfg : DecoderCfg) (input : Bytes) (flags : Nat) (status : Int) : Bytes × Nat × Int :=
  let (out, f, st) := urldecodeEx cfg input 0 status
  let flags := if hasFlag f URLEN_INVALID_ENCODING then setFlag flags PATH_INVALID_ENCODING else flags
  let flags := if hasFlag f URLEN_ENCODED_NUL then setFlag flags PATH_ENCODED_NUL else flags
  let flags := if hasFlag f URLEN_RAW_NUL then setFlag flags PATH_RAW_NUL else flags
  (out, flags, st)

/-! ### UTF-8 -/

/-- htp_utf8_decode_allow_overlong: (state', codep') -/
def utf8Dfa (state codep : Nat) (byte : UInt8) : Nat × Nat :=
  let type := utf8dAllowOverlong.getD byte.toNat 0
  let codep' := if state != UTF8_ACCEPT then ((byte.toNat &&& 0x3f) ||| (codep <<< 6)) % 4294967296
                else (0xff >>> type) &&& byte.toNat
  (utf8d.getD (256 + state * 16 + type) 0, codep')

structure U8 where
  state : Nat := 0
  codep : Nat := 0
  counter : Nat := 0
  seenValid : Bool := false
  flags : Nat := 0
  status : Int := 0
  out : Bytes := []   -- reversed
  deriving Repr

def overlongFlag (counter codep : Nat) (flags : Nat) : Nat :=
  if (counter = 2 ∧ codep < 0x80) ∨ (counter = 3 ∧ codep < 0x800) ∨ (counter = 4 ∧ codep < 0x10000)
  then setFlag flags PATH_UTF8_OVERLONG else flags

/-- best-fit of a code point: bestfit_codepoint -/
def bestfitCodepoint (cfg : DecoderCfg) (cp : Nat) : UInt8 :=
  if cp < 0x100 then UInt8.ofNat cp
  else if cp > 0xffff then UInt8.ofNat cfg.bestfitReplacementByte
  else bestfitLookup (cp / 256) (cp % 256) (UInt8.ofNat cfg.bestfitReplacementByte) bestfit1252

/-- one switch of htp_utf8_decode_path_inplace; returns (state, consumed the byte?) -/
def utf8DecStep (cfg : DecoderCfg) (u : U8) (b : UInt8) : U8 × Bool :=
  let counter := u.counter + 1
  let (st, cp) := utf8Dfa u.state u.codep b
  if st = UTF8_ACCEPT then
    if counter = 1 then
      ({ u with state := st, codep := cp, counter := 0, out := UInt8.ofNat cp :: u.out }, true)
    else
      let flags := overlongFlag counter cp u.flags
      let flags := if cp ≥ 0xff00 ∧ cp ≤ 0xffef then setFlag flags PATH_HALF_FULL_RANGE else flags
      ({ u with state := st, codep := cp, counter := 0, seenValid := true, flags := flags,
                out := bestfitCodepoint cfg cp :: u.out }, true)
  else if st = UTF8_REJECT then
    let u' := { u with state := UTF8_ACCEPT, codep := 0, counter := 0,
                       flags := setFlag u.flags PATH_UTF8_INVALID,
                       status := unwanted cfg.utf8InvalidUnwanted u.status,
                       out := UInt8.ofNat cfg.bestfitReplacementByte :: u.out }
    (u', counter = 1)
  else ({ u with state := st, codep := cp, counter := counter }, true)

def utf8DecLoop (cfg : DecoderCfg) : Bytes → U8 → U8
  | [], u => u
  | b :: tl, u =>
    let (u', consumed) := utf8DecStep cfg u b
    if consumed then utf8DecLoop cfg tl u'
    else
      -- the rejected byte starts the next character: it is examined again from the reset state
      let (u'', _) := utf8DecStep cfg u' b
      utf8DecLoop cfg tl u''

def utf8Finish (u : U8) : Nat :=
  if u.seenValid && !hasFlag u.flags PATH_UTF8_INVALID then setFlag u.flags PATH_UTF8_VALID else u.flags

/-- htp_utf8_decode_path_inplace -/
def utf8DecodePath (cfg : DecoderCfg) (input : Bytes) (flags : Nat) (status : Int) : Bytes × Nat × Int :=
  let u := utf8DecLoop cfg input { flags := flags, status := status }
  (u.out.reverse, utf8Finish u, u.status)

def utf8ValStep (u : U8) (b : UInt8) : U8 :=
  let counter := u.counter + 1
  let (st, cp) := utf8Dfa u.state u.codep b
  if st = UTF8_ACCEPT then
    let (seen, flags) := if counter > 1 then (true, overlongFlag counter cp u.flags) else (u.seenValid, u.flags)
    let flags := if cp > 0xfeff ∧ cp < 0x10000 then setFlag flags PATH_HALF_FULL_RANGE else flags
    { u with state := st, codep := cp, counter := 0, seenValid := seen, flags := flags }
  else if st = UTF8_REJECT then
    { u with state := UTF8_ACCEPT, codep := cp, counter := 0, flags := setFlag u.flags PATH_UTF8_INVALID }
  else { u with state := st, codep := cp, counter := counter }

/-- htp_utf8_validate_path: new flags -/
def utf8ValidatePath (input : Bytes) (flags : Nat) : Nat :=
  utf8Finish (input.foldl utf8ValStep { flags := flags })

/-! ### RFC 3986 §5.2.4 as the C code does it -/

/-- remove the last segment from the (reversed) output: `while wpos>0 && data[wpos-1] != '/' wpos--; if wpos>0 wpos--` -/
def dropLastSegment (out : Bytes) : Bytes :=
  match out.dropWhile (· != 0x2f) with
  | [] => []
  | _ :: rest => rest

/-- copy up to (not including) the next '/' : returns (rest, out) -/
def copySegment : Bytes → Bytes → Bytes × Bytes
  | [], out => ([], out)
  | c :: rest, out => if c == 0x2f then (c :: rest, out) else copySegment rest (c :: out)

/-- the rules A–E applied to the current character `c` with `rest` still unread.
    Result: `none` = the loop ends here with this output; `some (rest', out', c')` = next iteration. -/
def normRules (c : UInt8) (rest out : Bytes) : Bytes × Option (Bytes × Option UInt8) :=
  let ruleE := let (rest', out') := copySegment rest (c :: out); (out', some (rest', none))
  if c == 0x2e then
    match rest with
    | 0x2e :: 0x2f :: more => (out, some (more, none))           -- A "../"
    | 0x2f :: more => (out, some (more, none))                    -- A "./"
    | [] => (out, none)                                           -- D "."  (rpos++ ends the loop)
    | [0x2e] => (out, none)                                       -- D ".."
    | _ => ruleE
  else if c == 0x2f then
    match rest with
    | 0x2e :: 0x2f :: more => (out, some (more, some 0x2f))       -- B "/./"
    | [0x2e] => (out, none)                                       -- B "/." at end: pending '/' is dropped
    | 0x2e :: 0x2e :: 0x2f :: more => (dropLastSegment out, some (more, some 0x2f))  -- C "/../"
    | [0x2e, 0x2e] => (dropLastSegment out, none)                 -- C "/.." at end: pending '/' is dropped
    | _ => ruleE
  else ruleE

/-- the while loop of htp_normalize_uri_path_inplace; `c` is the pending character (-1 = none) -/
def normLoop : Nat → Bytes → Bytes → Option UInt8 → Bytes
  | 0, _, out, _ => out
  | fuel + 1, rest, out, c =>
    match rest with
    | [] => out      -- while (rpos < len) fails; a pending character is dropped
    | r :: rest' =>
      let (c, rest) := match c with | none => (r, rest') | some c => (c, rest)
      match normRules c rest out with
      | (out', none) => out'
      | (out', some (rest'', c')) => normLoop fuel rest'' out' c'

/-- htp_normalize_uri_path_inplace -/
def normalizePath (input : Bytes) : Bytes := (normLoop (2 * input.length + 2) input [] none).reverse

/-- the path part of htp_normalize_parsed_uri: decode, UTF-8, dot-segments (htp_util.c:1834-1855) -/
def pipeline (cfg : DecoderCfg) (path : Bytes) (flags : Nat) (status : Int) : Bytes × Nat × Int :=
  let (p1, f1, s1) := decodePath cfg path flags status
  let (p2, f2, s2) :=
    if cfg.utf8ConvertBestfit then utf8DecodePath cfg p1 f1 s1
    else (p1, utf8ValidatePath p1 f1, s1)
  (normalizePath p2, f2, s2)

end Htp.Decode
